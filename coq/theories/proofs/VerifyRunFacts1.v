(* VerifyRunFacts1.v — whole-run statements of C06 (verify passes exactly when the outputs are up to date), part 1:
   pass-level tools (first pass against final pass; the fresh text is what a Build pass writes; a Verify pass against a
   Build pass) and S1 / S3 for whole runs.  Part 2 (VerifyRunFacts2.v): verify after build (S2). *)
Require Import Txtpp.Str Txtpp.Consts Txtpp.Grammar Txtpp.Tags Txtpp.Path Txtpp.Fs Txtpp.Sink Txtpp.Pp Txtpp.Spec.
Require Import Txtpp.Dep Txtpp.Coord Txtpp.Run.
Require Import Txtpp.proofs.StrFacts Txtpp.proofs.SinkFacts Txtpp.proofs.PathFacts Txtpp.proofs.PpFacts Txtpp.proofs.EventFacts.
Require Import Txtpp.proofs.FrameFacts Txtpp.proofs.ConfluenceFacts Txtpp.proofs.DepFacts Txtpp.proofs.CoordFacts Txtpp.proofs.RunFacts.
Require Import Txtpp.proofs.ScheduleFacts Txtpp.proofs.RunEventsFacts Txtpp.proofs.ScheduleTempFacts Txtpp.proofs.CleanVerifyFacts.
Require Txtpp.proofs.ExtraFactsB.
From Coq Require Import Lia Permutation.

Local Open Scope bool_scope.

(* ===================================================================================================================
   PART 1 — a first pass (PFirst) against a final pass (PExec) of the same source in the same world
   =================================================================================================================== *)
Section FirstFinal.
Variable orc : oracle.
Variable md : mode.
Variable src base : path.
Variable le : str.
Hypothesis Hmd : md <> Clean.

Local Notation xexec := (ExtraFactsB.executes src).
Local Notation is_dep := (ExtraFactsB.is_dep src).

Lemma set_pmode_fields s m :
  cur (set_pmode s m) = cur s /\ flag (set_pmode s m) = flag s /\ tg (set_pmode s m) = tg s /\
  snk (set_pmode s m) = snk s /\ wld (set_pmode s m) = wld s /\ pmode (set_pmode s m) = m.
Proof. repeat split. Qed.

(* in a first pass a directive that names a dependency switches to collecting and does nothing else *)
Lemma collect_deps_first_dep d s : pmode s = PFirst -> is_dep d s = true ->
  exists q, collect_deps src d s = inl (inl (set_pmode s (PCollect [q]))).
Proof.
  intros Hp Hd. unfold ExtraFactsB.is_dep, ExtraFactsB.dir_arg in Hd. unfold collect_deps. rewrite Hp.
  destruct (d_ty d); try discriminate;
    (destruct (get_txtpp_file (w_fs (wld s)) (lex_join (work_dir src) (hd [] (d_args d)))) as [x|] eqn:G; [|discriminate];
     destruct (ExtraFactsB.get_txtpp_file_resolves _ _ _ G) as [q ->]; exists q; reflexivity).
Qed.

Lemma exec_directive_first_dep d s : pmode s = PFirst -> is_dep d s = true ->
  exists q, exec_directive orc md src base le d s = XOut None (set_pmode s (PCollect [q])).
Proof.
  intros Hp Hd. destruct (collect_deps_first_dep d s Hp Hd) as [q C]. exists q.
  unfold exec_directive. rewrite C. destruct md; try reflexivity. congruence.
Qed.

(* the result of an executed directive with the pass mode replaced *)
Definition xres_pmode (m : ppmode) (r : xres) : xres :=
  match r with XOut o s => XOut o (set_pmode s m) | XErr k w => XErr k w end.

Lemma exec_directive_first_nodep d s : pmode s = PExec -> is_dep d s = false ->
  exec_directive orc md src base le d (set_pmode s PFirst) =
  xres_pmode PFirst (exec_directive orc md src base le d s).
Proof.
  intros Hp Hd.
  assert (E1 : xexec d (set_pmode s PFirst) = true).
  { unfold ExtraFactsB.executes. cbn [pmode set_pmode]. unfold ExtraFactsB.is_dep in *. cbn [wld set_pmode]. rewrite Hd. reflexivity. }
  assert (E2 : xexec d s = true) by (unfold ExtraFactsB.executes; rewrite Hp; reflexivity).
  rewrite (ExtraFactsB.exec_directive_executed orc md src base le d _ Hmd E1).
  rewrite (ExtraFactsB.exec_directive_executed orc md src base le d _ Hmd E2).
  cbn [wld tg set_pmode]. destruct (d_ty d); cbv zeta; try reflexivity.
  - destruct (os_resolve (w_fs (wld s)) (lex_join (work_dir src) (ExtraFactsB.dir_arg d))) as [q|]; [|reflexivity].
    destruct (read_file (w_fs (wld s)) q) as [c|]; [|reflexivity]. destruct (utf8_valid c); reflexivity.
  - destruct (orc (join [SPb] (d_args d)) (work_dir src) (input_display src base)); reflexivity.
  - destruct (create (tg s) (ExtraFactsB.dir_arg d)); reflexivity.
  - destruct (exec_temp src le (d_args d) false (wld s)); reflexivity.
Qed.

Lemma emit_set_pmode_first s o t : pmode s = PExec ->
  emit le (set_pmode s PFirst) o t =
  match emit le s o t with StOk s' => StOk (set_pmode s' PFirst) | r => r end.
Proof.
  intros Hp. unfold emit. cbn [pmode set_pmode flag snk wld]. rewrite Hp. cbn [is_execute].
  destruct o as [x|]; [|reflexivity].
  destruct (if flag s then sink_write (snk s) (wld s) le else inl (snk s, wld s)) as [[k1 w1]|k]; [|reflexivity].
  destruct (sink_write k1 w1 x) as [[k2 w2]|k]; reflexivity.
Qed.

(* one item: either the first pass meets a dependency here (it switches to collecting, nothing else changes), or it does
   exactly what the final pass does *)
Lemma do_item_first it s : pmode s = PExec ->
  (exists q, do_item orc md src base le it (set_pmode s PFirst) = StOk (set_pmode s (PCollect [q]))) \/
  do_item orc md src base le it (set_pmode s PFirst) =
    match do_item orc md src base le it s with StOk s' => StOk (set_pmode s' PFirst) | r => r end.
Proof.
  intros Hp. unfold do_item. destruct it as [l|d fol| |]; cbn [item_output].
  - right. cbn [pmode set_pmode tg]. rewrite Hp. cbn [is_execute].
    destruct (inject (tg s) l le) as [[l' t']|]; [|reflexivity].
    change (set_tg (set_pmode s PFirst) t') with (set_pmode (set_tg s t') PFirst).
    apply emit_set_pmode_first. exact Hp.
  - destruct (is_dep d (set_pmode s PFirst)) eqn:Hd.
    + left. destruct (exec_directive_first_dep d (set_pmode s PFirst) eq_refl Hd) as [q E]. exists q.
      rewrite E. cbn [item_tail]. unfold emit. reflexivity.
    + right. rewrite (exec_directive_first_nodep d s Hp Hd).
      destruct (exec_directive orc md src base le d s) as [[raw|] s1|k w] eqn:E; cbn [xres_pmode]; try reflexivity.
      * assert (Hp1 : pmode s1 = PExec) by (eapply exec_directive_pexec; eauto).
        cbn [tg set_pmode]. destruct (try_store (tg s1) raw) as [t'|].
        -- change (set_tg (set_pmode s1 PFirst) t') with (set_pmode (set_tg s1 t') PFirst).
           apply emit_set_pmode_first. exact Hp1.
        -- apply emit_set_pmode_first. exact Hp1.
      * assert (Hp1 : pmode s1 = PExec) by (eapply exec_directive_pexec; eauto).
        apply emit_set_pmode_first. exact Hp1.
  - right. reflexivity.
  - right. reflexivity.
Qed.

Lemma do_item_pexec it s s' : pmode s = PExec -> do_item orc md src base le it s = StOk s' -> pmode s' = PExec.
Proof.
  intros Hp. unfold do_item. destruct (item_output orc md src base le it s) as [o s1|k w|] eqn:E; try discriminate.
  intros H. apply emit_pmode in H. destruct H as [H _]. rewrite H. eapply item_output_pexec; eauto.
Qed.

(* the epilogue does not distinguish PFirst from PExec *)
Lemma epilogue_first tn s : pmode s = PExec -> epilogue md le tn (set_pmode s PFirst) = epilogue md le tn s.
Proof. intros Hp. unfold epilogue. cbn [pmode set_pmode tg flag snk wld]. rewrite Hp. reflexivity. Qed.

(* a collecting pass never succeeds with PpOk, and fails only on a malformed item *)
Lemma spec_out_collect_not_ok tn its s ds w' : pmode s = PCollect ds ->
  spec_out orc md src base le tn its s <> PpOk w'.
Proof.
  intros Hp. unfold spec_out.
  destruct (run_items orc md src base le its s) as [res cs] eqn:R. cbn [fst].
  destruct res as [s1|k w|]; try discriminate.
  destruct (collect_mode_inert orc md src base le its s s1 cs ds Hmd Hp R) as (_ & _ & _ & d' & Hm).
  unfold epilogue. rewrite Hm. discriminate.
Qed.

Lemma do_item_collect it s ds : pmode s = PCollect ds -> it <> IBad -> it <> ISlicePanic ->
  exists ds', do_item orc md src base le it s = StOk (set_pmode s (PCollect ds')).
Proof.
  intros Hp H1 H2. unfold do_item. destruct it as [l|d fol| |]; cbn [item_output]; try congruence.
  - rewrite Hp. cbn [is_execute]. unfold emit. rewrite Hp. cbn [is_execute]. exists ds.
    destruct s; cbn in *; subst; reflexivity.
  - assert (E : xexec d s = false) by (unfold ExtraFactsB.executes; rewrite Hp; reflexivity).
    pose proof (ExtraFactsB.collect_deps_cases src d s) as C. rewrite E in C. destruct C as [s' C].
    assert (Es' : exists ds', s' = set_pmode s (PCollect ds')).
    { unfold collect_deps in C. rewrite Hp in C.
      destruct (d_ty d); try (inversion C; subst s'; exists ds; destruct s; cbn in *; subst; reflexivity);
        (destruct (get_txtpp_file (w_fs (wld s)) (lex_join (work_dir src) (hd [] (d_args d)))) as [x|];
         [destruct (os_resolve (w_fs (wld s)) x) as [q|]; [|discriminate]; inversion C; eexists; reflexivity
         |inversion C; subst s'; exists ds; destruct s; cbn in *; subst; reflexivity]). }
    destruct Es' as [ds' ->]. exists ds'.
    assert (EX : exec_directive orc md src base le d s = XOut None (set_pmode s (PCollect ds'))).
    { unfold exec_directive. rewrite C. destruct md; try reflexivity. congruence. }
    rewrite EX. unfold emit. reflexivity.
Qed.

Lemma spec_out_collect_no_err tn its : forall s ds, pmode s = PCollect ds ->
  ~ In IBad its -> ~ In ISlicePanic its ->
  exists ds', spec_out orc md src base le tn its s = PpHasDeps ds' (wld s).
Proof.
  induction its as [|it r IH]; intros s ds Hp H1 H2.
  - rewrite spec_out_nil. unfold epilogue. rewrite Hp. exists ds. reflexivity.
  - rewrite spec_out_cons.
    destruct (do_item_collect it s ds Hp) as [ds' E].
    { intros ->. apply H1. left. reflexivity. }
    { intros ->. apply H2. left. reflexivity. }
    rewrite E. destruct (IH (set_pmode s (PCollect ds')) ds' eq_refl) as [ds'' E'].
    { intros H. apply H1. right. exact H. }
    { intros H. apply H2. right. exact H. }
    exists ds''. exact E'.
Qed.

Lemma spec_out_ok_items tn its : forall s w', spec_out orc md src base le tn its s = PpOk w' ->
  ~ In IBad its /\ ~ In ISlicePanic its.
Proof.
  induction its as [|it r IH]; intros s w' H; [split; intros []|].
  rewrite spec_out_cons in H.
  destruct (do_item orc md src base le it s) as [s2|k w|] eqn:E; try discriminate.
  destruct (IH _ _ H) as [I1 I2]. split; intros [Hi|Hi]; try (apply I1; exact Hi); try (apply I2; exact Hi);
    subst it; unfold do_item in E; cbn in E; discriminate.
Qed.

(* P1 on the items: a first pass that succeeds without reporting dependencies is a final pass *)
Lemma spec_out_first_ok tn its : forall s w', pmode s = PExec ->
  spec_out orc md src base le tn its (set_pmode s PFirst) = PpOk w' ->
  spec_out orc md src base le tn its s = PpOk w'.
Proof.
  induction its as [|it r IH]; intros s w' Hp H.
  - rewrite spec_out_nil in *. rewrite epilogue_first in H by exact Hp. exact H.
  - rewrite spec_out_cons in *.
    destruct (do_item_first it s Hp) as [[q E]|E]; rewrite E in H.
    + exfalso. revert H. apply (spec_out_collect_not_ok tn r _ [q]). reflexivity.
    + destruct (do_item orc md src base le it s) as [s2|k w|] eqn:E2; try discriminate.
      apply IH; [eapply do_item_pexec; eauto|exact H].
Qed.

(* P2 on the items: when the final pass succeeds, the first pass does not fail: it succeeds in the same world or
   reports dependencies *)
Lemma spec_out_final_ok tn its : forall s w', pmode s = PExec ->
  spec_out orc md src base le tn its s = PpOk w' ->
  spec_out orc md src base le tn its (set_pmode s PFirst) = PpOk w' \/
  exists ds w'', spec_out orc md src base le tn its (set_pmode s PFirst) = PpHasDeps ds w''.
Proof.
  induction its as [|it r IH]; intros s w' Hp H.
  - left. rewrite spec_out_nil in *. rewrite epilogue_first by exact Hp. exact H.
  - pose proof (spec_out_ok_items tn _ _ _ H) as [I1 I2].
    rewrite spec_out_cons in *.
    destruct (do_item_first it s Hp) as [[q E]|E]; rewrite E.
    + right. destruct (spec_out_collect_no_err tn r (set_pmode s (PCollect [q])) [q] eq_refl) as [ds' E'].
      { intros Hi. apply I1. right. exact Hi. }
      { intros Hi. apply I2. right. exact Hi. }
      eexists. eexists. exact E'.
    + destruct (do_item orc md src base le it s) as [s2|k w|] eqn:E2; try discriminate.
      apply IH; [eapply do_item_pexec; eauto|exact H].
Qed.
End FirstFinal.

(* the rest of a pass whose lines are all valid UTF-8 is the specification run on the items *)
Lemma pp_rest_spec orc md base src first tn raw k0 w0 :
  snd (take_valid (lines raw)) = false ->
  pp_rest orc md base src first tn raw k0 w0 =
  spec_out orc md src base (detect_le raw) tn (items_of' md raw)
    (mkP None false (if first then PFirst else PExec) tags_new k0 w0).
Proof.
  intros Hb. unfold pp_rest, items_of'. destruct (take_valid (lines raw)) as [ls bad]. cbn [fst snd] in *. subst bad.
  set (s0 := mkP None false (if first then PFirst else PExec) tags_new k0 w0).
  pose proof (fusion orc md src base (detect_le raw) tn ls s0) as F.
  change (cur s0) with (@None directive) in F. change (set_cur s0 None) with s0 in F.
  rewrite <- F. unfold outcome_of.
  destruct (run_lines orc md src base (detect_le raw) ls s0); reflexivity.
Qed.

Lemma pp_rest_ok_valid orc md base src first tn raw k0 w0 w' :
  pp_rest orc md base src first tn raw k0 w0 = PpOk w' -> snd (take_valid (lines raw)) = false.
Proof. intros H. apply pp_rest_ok_iff in H. apply H. Qed.

(* P1: a first pass that ends with PpOk is a final pass *)
Theorem first_ok_is_final orc md base src tn w w' :
  md <> Clean ->
  pp_run orc md base src true tn w = PpOk w' -> pp_run orc md base src false tn w = PpOk w'.
Proof.
  intros Hmd. rewrite !pp_run_unfold.
  destruct (read_file (w_fs w) src) as [raw|]; [|discriminate].
  destruct (remove_txtpp src) as [out|]; [|discriminate].
  destruct (is_txtpp_file out); [discriminate|].
  destruct (sink_new md w out) as [[k0 w0]|k]; [|discriminate].
  intros H. pose proof (pp_rest_ok_valid _ _ _ _ _ _ _ _ _ _ H) as Hb.
  rewrite (pp_rest_spec orc md base src true tn raw k0 w0 Hb) in H.
  rewrite (pp_rest_spec orc md base src false tn raw k0 w0 Hb).
  apply (spec_out_first_ok orc md src base (detect_le raw) Hmd tn (items_of' md raw)
           (mkP None false PExec tags_new k0 w0) w' eq_refl). exact H.
Qed.

(* P2: when the final pass succeeds in a world, the first pass in the same world does not fail *)
Theorem final_ok_first_cases orc md base src tn w w' :
  md <> Clean ->
  pp_run orc md base src false tn w = PpOk w' ->
  pp_run orc md base src true tn w = PpOk w' \/ exists ds w'', pp_run orc md base src true tn w = PpHasDeps ds w''.
Proof.
  intros Hmd. rewrite !pp_run_unfold.
  destruct (read_file (w_fs w) src) as [raw|]; [|discriminate].
  destruct (remove_txtpp src) as [out|]; [|discriminate].
  destruct (is_txtpp_file out); [discriminate|].
  destruct (sink_new md w out) as [[k0 w0]|k]; [|discriminate].
  intros H. pose proof (pp_rest_ok_valid _ _ _ _ _ _ _ _ _ _ H) as Hb.
  rewrite (pp_rest_spec orc md base src false tn raw k0 w0 Hb) in H.
  rewrite (pp_rest_spec orc md base src true tn raw k0 w0 Hb).
  apply (spec_out_final_ok orc md src base (detect_le raw) Hmd tn (items_of' md raw)
           (mkP None false PExec tags_new k0 w0) w' eq_refl). exact H.
Qed.

(* ===================================================================================================================
   PART 2 — the fresh text is what a Build pass writes; a Verify pass against a Build pass in the same world
   =================================================================================================================== *)
(* the side conditions of CleanVerifyFacts.verify_pass_iff for the source f in the world w: the directory of the source is
   canonical, no include and no temp directive of the source names the output, the output can be created *)
Definition pass_side (w : world) (f out : path) : Prop :=
  remove_txtpp f = Some out /\ all_normal (parent f) /\
  ~ In out (map (fun a => lex_normalize (lex_join (parent f) a)) (include_args (items_of Build w f))) /\
  ~ In out (map (fun a => lex_normalize (lex_join (parent f) a)) (temp_args (items_of Build w f))) /\
  write_target (w_fs w) out <> None.

(* it only depends on the source text and on the directories *)
Lemma pass_side_transfer w w' f out :
  fs_get (w_fs w') f = fs_get (w_fs w) f -> (forall q, is_dir (w_fs w) q = is_dir (w_fs w') q) ->
  pass_side w f out -> pass_side w' f out.
Proof.
  intros Ef Hd (H1 & H2 & H3 & H4 & H5). unfold pass_side.
  rewrite (items_of_same Build w w' f Ef), <- (write_target_dirs _ _ out Hd). auto.
Qed.

Lemma write_target_out F f out q :
  remove_txtpp f = Some out -> all_normal (parent f) -> write_target F out = Some q -> q = out.
Proof.
  intros Hrm Hn Ew. destruct (remove_txtpp_shape f out Hrm) as (dir & n & m & Es & Eo).
  assert (Hdir : all_normal dir) by (unfold parent in Hn; rewrite Es, removelast_last in Hn; exact Hn).
  destruct (EventFacts.write_target_shape _ _ _ Ew) as (rp & n' & Ep & _ & Eq).
  rewrite Eo in Ep. apply app_inj_tail in Ep. destruct Ep as [<- <-].
  rewrite Eq, Eo, (lex_normalize_normal dir Hdir). reflexivity.
Qed.

Lemma pass_side_out w f out : pass_side w f out ->
  out <> [] /\ out <> f /\ ~ In dotdot out /\ write_target (w_fs w) out = Some out /\ is_dir (w_fs w) out = false.
Proof.
  intros (Hrm & Hn & _ & _ & Hw).
  destruct (write_target (w_fs w) out) as [q|] eqn:Ew; [|congruence].
  pose proof (write_target_out _ _ _ _ Hrm Hn Ew) as ->.
  pose proof (write_target_not_dir _ _ _ Ew) as Hd.
  assert (Hne : out <> []) by (intros ->; rewrite is_dir_nil in Hd; discriminate).
  split; [exact Hne|]. split; [apply output_ne_source; exact Hrm|]. split; [|split; [reflexivity|exact Hd]].
  destruct (remove_txtpp_shape f out Hrm) as (dir & n & m & Es & Eo).
  assert (Hdir : all_normal dir) by (unfold parent in Hn; rewrite Es, removelast_last in Hn; exact Hn).
  destruct (EventFacts.write_target_shape _ _ _ Ew) as (rp & n' & Ep & Hn' & _).
  rewrite Eo in Ep. apply app_inj_tail in Ep. destruct Ep as [<- <-].
  rewrite Eo. intros Hin. apply in_app_or in Hin. destruct Hin as [Hin|[Hin|[]]].
  - unfold all_normal in Hdir. rewrite Forall_forall in Hdir. specialize (Hdir _ Hin).
    unfold is_normal in Hdir. rewrite str_eqb_refl in Hdir. discriminate.
  - subst m. unfold is_normal in Hn'. rewrite str_eqb_refl in Hn'. discriminate.
Qed.

(* the world without the output *)
Definition without (w : world) (out : path) : world := mkW (fs_del (w_fs w) out) (w_log w).

Lemma pass_side_without w f out : pass_side w f out -> pass_side (without w out) f out.
Proof.
  intros H. destruct (pass_side_out w f out H) as (Hne & Hnf & _ & _ & Hd).
  apply (pass_side_transfer w); [| |exact H]; cbn [without w_fs].
  - apply fs_get_del_other. exact Hnf.
  - intros q. rewrite is_dir_del by exact Hne. destruct (path_eqb out q) eqn:E; [|reflexivity].
    apply path_eqb_eq in E. subst q. exact Hd.
Qed.

(* Build in w against --needed in w without the output: one succeeds iff the other does, with the same tree *)
Lemma build_mem_chain orc base f tn w out : pass_side w f out ->
  (forall wb, pp_run orc Build base f false tn w = PpOk wb ->
     exists wm, pp_run orc InMemoryBuild base f false tn (without w out) = PpOk wm /\ w_eq wm wb) /\
  (forall wm, pp_run orc InMemoryBuild base f false tn (without w out) = PpOk wm ->
     exists wb, pp_run orc Build base f false tn w = PpOk wb /\ w_eq wm wb).
Proof.
  intros HS. pose proof HS as (Hrm & Hn & Hi & Ht & Hw).
  destruct (pass_side_out w f out HS) as (Hne & Hnf & _ & _ & Hd).
  pose proof (pass_side_without w f out HS) as (_ & _ & Hi0 & Ht0 & Hw0).
  pose proof (needed_pass_vs_build_pass orc base f tn (without w out) out Hrm Hn Hi0 Ht0 Hw0) as H1.
  assert (Hn2 : fs_get (w_fs w) out <> Some Dir).
  { intros E. unfold is_dir in Hd. rewrite E in Hd. discriminate. }
  assert (Hn1 : @None node <> Some Dir) by discriminate.
  pose proof (build_pass_ignores_old_output_weaker orc base f false tn (w_fs w) (w_log w) (w_log w) out
                None (fs_get (w_fs w) out) Hrm Hn1 Hn2 Hn) as H2. cbv beta iota zeta in H2.
  change (mkW (fs_del (w_fs w) out) (w_log w)) with (without w out) in H2.
  set (wp := mkW match fs_get (w_fs w) out with Some x => fs_put (w_fs w) out x | None => fs_del (w_fs w) out end (w_log w)) in *.
  assert (Heq : w_eq wp w).
  { intros p. unfold wp. cbn [w_fs]. destruct (path_dec p out) as [->|N].
    - destruct (fs_get (w_fs w) out) as [x|] eqn:G; [rewrite fs_get_put_same by exact Hne; reflexivity|].
      rewrite fs_get_del_same by exact Hne. reflexivity.
    - destruct (fs_get (w_fs w) out) as [x|]; [apply fs_get_put_other; congruence|apply fs_get_del_other; congruence]. }
  pose proof (pp_run_ext orc Build base f false tn wp w Heq) as H3.
  split.
  - intros wb E. rewrite E in H3.
    destruct (pp_run orc Build base f false tn wp) as [w3| | |] eqn:E3; cbn in H3; try contradiction.
    destruct H2 as [H2|[_ H2]]; [|discriminate].
    destruct (pp_run orc Build base f false tn (without w out)) as [w2| | |] eqn:E2; cbn in H2; try contradiction.
    destruct (pp_run orc InMemoryBuild base f false tn (without w out)) as [wm| | |]; cbn in H1; try contradiction.
    exists wm. split; [reflexivity|]. intros p. rewrite (H1 p), (H2 p). apply H3.
  - intros wm E. rewrite E in H1.
    destruct (pp_run orc Build base f false tn (without w out)) as [w2| | |] eqn:E2; cbn in H1; try contradiction.
    destruct H2 as [H2|[H2 _]]; [|discriminate].
    destruct (pp_run orc Build base f false tn wp) as [w3| | |] eqn:E3; cbn in H2; try contradiction.
    destruct (pp_run orc Build base f false tn w) as [wb| | |]; cbn in H3; try contradiction.
    exists wb. split; [reflexivity|]. intros p. rewrite (H1 p), (H2 p). apply H3.
Qed.

(* a successful --needed pass in a world where the output is absent leaves a file at the output *)
Lemma mem_ok_out_file orc base f tn w out wm :
  remove_txtpp f = Some out -> ~ In dotdot out ->
  pp_run orc InMemoryBuild base f false tn w = PpOk wm -> exists txt, read_file (w_fs wm) out = Some txt.
Proof.
  intros Hrm Hnd. rewrite pp_run_unfold.
  destruct (read_file (w_fs w) f) as [raw|]; [|discriminate]. rewrite Hrm.
  destruct (is_txtpp_file out); [discriminate|]. cbn [sink_new]. intros H.
  apply pp_rest_ok_iff in H. destruct H as [_ H]. rewrite spec_out_nonclean in H by discriminate.
  destruct (mem_prefix out Hnd orc f base (detect_le raw) tn _
              (mkP None false PExec tags_new (SMem out []) w) [] wm eq_refl H) as [t Ht].
  exists t. exact Ht.
Qed.

(* (F) the fresh text of a source is the content of its output after a successful Build pass *)
Theorem fresh_text_is_build_output orc base f tn w out txt : pass_side w f out ->
  (fresh_text orc base f tn w out = Some txt <->
   exists wb, pp_run orc Build base f false tn w = PpOk wb /\ read_file (w_fs wb) out = Some txt).
Proof.
  intros HS. destruct (build_mem_chain orc base f tn w out HS) as [B1 B2].
  unfold fresh_text. change (mkW (fs_del (w_fs w) out) (w_log w)) with (without w out). split.
  - destruct (pp_run orc InMemoryBuild base f false tn (without w out)) as [wm| | |] eqn:E; try discriminate.
    intros Hr. destruct (B2 wm eq_refl) as (wb & Eb & Heq). exists wb. split; [exact Eb|].
    unfold read_file in *. rewrite <- (Heq out). exact Hr.
  - intros (wb & Eb & Hr). destruct (B1 wb Eb) as (wm & Em & Heq). rewrite Em.
    unfold read_file in *. rewrite (Heq out). exact Hr.
Qed.

Corollary build_ok_has_fresh_text orc base f tn w out wb : pass_side w f out ->
  pp_run orc Build base f false tn w = PpOk wb ->
  exists txt, read_file (w_fs wb) out = Some txt /\ fresh_text orc base f tn w out = Some txt.
Proof.
  intros HS Eb. destruct (build_mem_chain orc base f tn w out HS) as [B1 _].
  destruct (B1 wb Eb) as (wm & Em & Heq).
  destruct (pass_side_out w f out HS) as (_ & _ & Hnd & _).
  destruct (mem_ok_out_file orc base f tn _ out wm (proj1 HS) Hnd Em) as [txt Ht].
  assert (Hr : read_file (w_fs wb) out = Some txt) by (unfold read_file in *; rewrite <- (Heq out); exact Ht).
  exists txt. split; [exact Hr|]. apply (fresh_text_is_build_output orc base f tn w out txt HS). exists wb. auto.
Qed.

(* (P3) when a Build pass succeeds and leaves at the output exactly the bytes that were there, the Verify pass in the
   same world succeeds, and ends in the same tree as the Build pass *)
Theorem verify_of_build orc base f tn w out wb : pass_side w f out ->
  pp_run orc Build base f false tn w = PpOk wb ->
  fs_get (w_fs wb) out = fs_get (w_fs w) out ->
  exists wv, pp_run orc Verify base f false tn w = PpOk wv /\ w_eq wv wb.
Proof.
  intros HS Eb Hsame. pose proof HS as (Hrm & Hn & Hi & Ht & Hw).
  destruct (build_ok_has_fresh_text orc base f tn w out wb HS Eb) as (txt & Hr & Hf).
  destruct (verify_pass_iff orc base f tn w out Hrm Hn Hi Ht Hw) as [[_ V1] V2].
  destruct V1 as [wv Ev].
  { exists txt. split; [exact Hf|]. unfold read_file in *. rewrite <- Hsame. exact Hr. }
  exists wv. split; [exact Ev|].
  destruct (V2 wv Ev) as (wm & Em & Heq & _).
  destruct (build_mem_chain orc base f tn w out HS) as [_ B2].
  destruct (B2 wm Em) as (wb' & Eb' & Heq'). rewrite Eb in Eb'. inversion Eb'; subst wb'.
  intros p. rewrite (Heq p). apply Heq'.
Qed.

(* the converse: a successful Verify pass means that the Build pass in the same world succeeds and rewrites the output
   with the bytes that are already there *)
Theorem build_of_verify orc base f tn w out wv : pass_side w f out ->
  pp_run orc Verify base f false tn w = PpOk wv ->
  exists wb, pp_run orc Build base f false tn w = PpOk wb /\ w_eq wv wb /\
             fs_get (w_fs wb) out = fs_get (w_fs w) out.
Proof.
  intros HS Ev. pose proof HS as (Hrm & Hn & Hi & Ht & Hw).
  destruct (verify_pass_iff orc base f tn w out Hrm Hn Hi Ht Hw) as [_ V2].
  destruct (V2 wv Ev) as (wm & Em & Heq & Hout).
  destruct (build_mem_chain orc base f tn w out HS) as [_ B2].
  destruct (B2 wm Em) as (wb & Eb & Heq').
  exists wb. split; [exact Eb|]. split; [intros p; rewrite (Heq p); apply Heq'|].
  rewrite <- (Heq' out), <- (Heq out). exact Hout.
Qed.

(* ===================================================================================================================
   PART 3 — a generic induction on the coordinator loop with an invariant that may look at the ghost state, the world
   and the trace; carried to every exit without a failed task (VOk and VFuel)
   =================================================================================================================== *)
Section GenLoop.
Variable orc : oracle.
Variable cfg : config.
Variable base : path.
Variables files dirs : list path.
Variable J : gstate -> world -> list (task * result) -> Prop.
Hypothesis J_step : forall g w tr t rest r w' s2,
  greach files dirs g -> J g w tr -> Permutation (inflight (gs g)) (t :: rest) ->
  exec_task orc cfg base t w = Some (r, w') -> handle (with_inflight (gs g) rest) r = Continue s2 ->
  J (mkG s2 (report t r (reported g)) (history g ++ [t])) w' (tr ++ [(t, r)]).

Lemma run_loop_gen fuel : forall sched g w tr,
  greach files dirs g -> J g w tr ->
  let x := run_loop orc cfg base fuel sched (gs g) w tr in
  verdict_of x = VOk \/ verdict_of x = VFuel ->
  exists g', greach files dirs g' /\ gs g' = state_of x /\ J g' (world_of x) (trace_of x) /\
             (verdict_of x = VOk -> inflight (gs g') = [] /\ forall f, is_seen g' f -> finished g' f).
Proof.
  assert (Hexit : forall g w tr, greach files dirs g -> J g w tr -> sort_tasks (inflight (gs g)) = [] ->
            let x := ((if has_remaining (dm (gs g)) then VErr else VOk), w, tr, gs g) in
            exists g', greach files dirs g' /\ gs g' = state_of x /\ J g' (world_of x) (trace_of x) /\
                       (verdict_of x = VOk -> inflight (gs g') = [] /\ forall f, is_seen g' f -> finished g' f)).
  { intros g w tr R HJ E. cbn. exists g. split; [exact R|]. split; [reflexivity|]. split; [exact HJ|].
    intros Hv. pose proof (sort_tasks_nil _ E) as Hfl. split; [exact Hfl|].
    intros f Hseen. unfold finished. destruct (pmem f (fin (dm (gs g)))) eqn:Ef; [reflexivity|].
    assert (Ht' : has_remaining (dm (gs g)) = true).
    { apply (cycle_verdict_iff files dirs g R Hfl). exists f. split; [exact Hseen|].
      unfold finished. rewrite Ef. discriminate. }
    rewrite Ht' in Hv. discriminate. }
  induction fuel as [|fuel IH]; intros sched g w tr R HJ x Hv; subst x.
  - destruct (sort_tasks (inflight (gs g))) as [|t0 sl'] eqn:E.
    + rewrite (run_loop_exit _ _ _ _ _ _ _ _ E) in *. apply (Hexit g w tr R HJ E).
    + rewrite (run_loop_nofuel _ _ _ _ _ _ _ _ _ E) in *. cbn. exists g. split; [exact R|]. split; [reflexivity|].
      split; [exact HJ|discriminate].
  - destruct (sort_tasks (inflight (gs g))) as [|t0 sl'] eqn:E.
    + rewrite (run_loop_exit _ _ _ _ _ _ _ _ E) in *. apply (Hexit g w tr R HJ E).
    + rewrite (run_loop_step _ _ _ _ _ _ _ _ _ _ E) in *. cbv zeta in *.
      set (sl := t0 :: sl') in *. set (k := pick sched sl) in *. set (t := nth k sl t0) in *.
      set (rest := remove_nth k sl) in *.
      assert (HP : Permutation (inflight (gs g)) (t :: rest)).
      { eapply perm_trans; [apply sort_tasks_perm|]. rewrite E. apply pick_split. apply pick_lt. }
      destruct (exec_task orc cfg base t w) as [[r w']|] eqn:Hex; [|cbn in Hv; destruct Hv; discriminate].
      pose proof (exec_task_answers orc cfg base _ _ _ _ Hex) as Hans.
      destruct (handle (with_inflight (gs g) rest) r) as [s2| |] eqn:Hh.
      * set (g2 := mkG s2 (report t r (reported g)) (history g ++ [t])).
        assert (R2 : greach files dirs g2).
        { eapply greach_step; [exact R|]. apply (gstep_continue g t rest r s2); assumption. }
        assert (HJ2 : J g2 w' (tr ++ [(t, r)])) by (apply (J_step g w tr t rest r w' s2); assumption).
        apply (IH (tl sched) g2 w' (tr ++ [(t, r)]) R2 HJ2). exact Hv.
      * destruct (drain orc cfg base _ _ _ _ _) as [[w'' tr2]|]; cbn in Hv; destruct Hv; discriminate.
      * cbn in Hv. destruct Hv; discriminate.
Qed.

(* when, moreover, no task can fail in a state that satisfies the invariant, and nothing is left waiting when the
   in-flight set empties, the verdict is VOk or VFuel *)
Hypothesis J_noerr : forall g w tr t rest r w',
  greach files dirs g -> J g w tr -> Permutation (inflight (gs g)) (t :: rest) ->
  exec_task orc cfg base t w = Some (r, w') -> ~ is_err r.
Hypothesis J_exit : forall g w tr,
  greach files dirs g -> J g w tr -> inflight (gs g) = [] -> has_remaining (dm (gs g)) = false.

Lemma run_loop_gen_ok fuel : forall sched g w tr,
  greach files dirs g -> J g w tr ->
  let x := run_loop orc cfg base fuel sched (gs g) w tr in
  verdict_of x = VOk \/ verdict_of x = VFuel.
Proof.
  induction fuel as [|fuel IH]; intros sched g w tr R HJ x; subst x.
  - destruct (sort_tasks (inflight (gs g))) as [|t0 sl'] eqn:E.
    + rewrite (run_loop_exit _ _ _ _ _ _ _ _ E). cbn. rewrite (J_exit g w tr R HJ (sort_tasks_nil _ E)). left. reflexivity.
    + rewrite (run_loop_nofuel _ _ _ _ _ _ _ _ _ E). right. reflexivity.
  - destruct (sort_tasks (inflight (gs g))) as [|t0 sl'] eqn:E.
    + rewrite (run_loop_exit _ _ _ _ _ _ _ _ E). cbn. rewrite (J_exit g w tr R HJ (sort_tasks_nil _ E)). left. reflexivity.
    + rewrite (run_loop_step _ _ _ _ _ _ _ _ _ _ E). cbv zeta.
      set (sl := t0 :: sl'). set (k := pick sched sl). set (t := nth k sl t0). set (rest := remove_nth k sl).
      assert (HP : Permutation (inflight (gs g)) (t :: rest)).
      { eapply perm_trans; [apply sort_tasks_perm|]. rewrite E. apply pick_split. apply pick_lt. }
      destruct (exec_task_total orc cfg base t w) as (r & w' & Hex). rewrite Hex.
      pose proof (exec_task_answers orc cfg base _ _ _ _ Hex) as Hans.
      pose proof (J_noerr g w tr t rest r w' R HJ HP Hex) as Hne.
      destruct (handle (with_inflight (gs g) rest) r) as [s2| |] eqn:Hh.
      * set (g2 := mkG s2 (report t r (reported g)) (history g ++ [t])).
        assert (R2 : greach files dirs g2).
        { eapply greach_step; [exact R|]. apply (gstep_continue g t rest r s2); assumption. }
        assert (HJ2 : J g2 w' (tr ++ [(t, r)])) by (apply (J_step g w tr t rest r w' s2); assumption).
        apply (IH (tl sched) g2 w' (tr ++ [(t, r)]) R2 HJ2).
      * exfalso. apply Hne. apply (handle_fail_is_err _ _ Hh).
      * exfalso. exact (handle_no_panic files dirs g R t rest r HP Hans Hh).
Qed.
End GenLoop.

(* ===================================================================================================================
   PART 4 — a successful run gave every source it processed a pass that ended with POk
   =================================================================================================================== *)
Definition trace_inv (g : gstate) (w : world) (tr : list (task * result)) : Prop :=
  history g = map fst tr /\
  (forall t r, In (t, r) tr -> answers t r /\ ~ is_err r) /\
  (forall f ds, In (TPp f true, RPp f (Some (PDeps ds))) tr -> In (f, ds) (reported g)).

Lemma trace_inv_step orc cfg base files dirs g w tr t rest r w' s2 :
  greach files dirs g -> trace_inv g w tr -> Permutation (inflight (gs g)) (t :: rest) ->
  exec_task orc cfg base t w = Some (r, w') -> handle (with_inflight (gs g) rest) r = Continue s2 ->
  trace_inv (mkG s2 (report t r (reported g)) (history g ++ [t])) w' (tr ++ [(t, r)]).
Proof.
  intros R (H1 & H2 & H3) HP Hex Hh. split; [|split]; cbn [history reported].
  - rewrite map_app, H1. reflexivity.
  - intros t1 r1 Hin. apply in_app_or in Hin. destruct Hin as [Hin|[Hin|[]]]; [apply H2; exact Hin|].
    inversion Hin; subst t1 r1. split; [eapply exec_task_answers; eauto|eapply handle_continue_not_err; eauto].
  - intros f ds Hin. apply in_app_or in Hin. destruct Hin as [Hin|[Hin|[]]].
    + apply report_mono. apply H3. exact Hin.
    + inversion Hin; subst t r. cbn [report]. left. reflexivity.
Qed.

Lemma ok_loop_seen_pass orc cfg base files dirs fuel sched w :
  let x := run_loop orc cfg base fuel sched (gs (ginit files dirs)) w [] in
  verdict_of x = VOk ->
  exists g', greach files dirs g' /\ history g' = map fst (trace_of x) /\
    forall f, In f (seen (gs g')) -> exists b', In (TPp f b', RPp f (Some POk)) (trace_of x).
Proof.
  intros x Hv.
  destruct (run_loop_gen orc cfg base files dirs trace_inv (trace_inv_step orc cfg base files dirs) fuel sched
              (ginit files dirs) w [] (greach_init files dirs)) as (g' & R' & Es & (H1 & H2 & H3) & Hfin).
  { split; [reflexivity|]. split; intros; contradiction. }
  { left. exact Hv. }
  fold x in Es, H1, H2, H3, Hfin. destruct (Hfin Hv) as [_ Hf].
  exists g'. split; [exact R'|]. split; [exact H1|]. intros f Hseen.
  assert (Hs : is_seen g' f) by (unfold is_seen; apply pmem_In; exact Hseen).
  destruct (finished_in_history files dirs g' R' f (Hf f Hs)) as [Hfin'|[Hfin' Hnr]];
    rewrite H1 in Hfin'; apply in_map_iff in Hfin'; destruct Hfin' as ([t1 r1] & Et & Hin1); cbn in Et; subst t1;
    destruct (H2 _ _ Hin1) as [Hans Hne]; destruct r1 as [y|f' res]; cbn in Hans; try contradiction;
    destruct Hans as [-> Hans].
  - exists false. destruct res as [[|ds]|]; [exact Hin1|exfalso; apply (Hans eq_refl ds); reflexivity|exfalso; apply Hne; exact I].
  - exists true. destruct res as [[|ds]|]; [exact Hin1|exfalso; apply (Hnr ds); apply H3; exact Hin1|exfalso; apply Hne; exact I].
Qed.

Lemma ok_loop_final_pass orc cfg base files dirs fuel sched w :
  let x := run_loop orc cfg base fuel sched (gs (ginit files dirs)) w [] in
  verdict_of x = VOk ->
  forall f b r, In (TPp f b, r) (trace_of x) -> exists b', In (TPp f b', RPp f (Some POk)) (trace_of x).
Proof.
  intros x Hv f b r Hin. destruct (ok_loop_seen_pass orc cfg base files dirs fuel sched w Hv) as (g' & R' & H1 & Hall).
  fold x in H1, Hall. apply Hall. destruct (inv_reach _ _ _ R') as [HP _].
  apply (i_hist_seen HP (TPp f b)). rewrite H1. apply (in_map fst _ _ Hin).
Qed.

Theorem ok_run_final_pass orc cfg fuel sched w :
  let x := txtpp_run orc cfg fuel sched w in
  verdict_of x = VOk ->
  forall f b r, In (TPp f b, r) (trace_of x) -> exists b', In (TPp f b', RPp f (Some POk)) (trace_of x).
Proof.
  cbv zeta. unfold txtpp_run.
  destruct (cfg_threads cfg =? 0); [intros _ f b r []|].
  destruct (os_resolve (w_fs w) (cfg_base cfg)) as [base|]; [|intros _ f b r []].
  destruct (resolve_inputs (w_fs w) base (cfg_inputs cfg) [] []) as [[files dirs]|]; [|intros _ f b r []].
  apply (ok_loop_final_pass orc cfg base files dirs fuel sched w).
Qed.

(* ... and every file the inputs resolve to was processed *)
Theorem ok_run_inputs_processed orc cfg fuel sched w base files dirs :
  os_resolve (w_fs w) (cfg_base cfg) = Some base ->
  resolve_inputs (w_fs w) base (cfg_inputs cfg) [] [] = Some (files, dirs) ->
  let x := txtpp_run orc cfg fuel sched w in
  verdict_of x = VOk ->
  forall f, In f files -> exists b, In (TPp f b, RPp f (Some POk)) (trace_of x).
Proof.
  intros Eb Ri. cbv zeta. unfold txtpp_run. rewrite Eb, Ri.
  destruct (cfg_threads cfg =? 0); [discriminate|]. intros Hv f Hf.
  destruct (ok_loop_seen_pass orc cfg base files dirs fuel sched w Hv) as (g' & R' & _ & Hall).
  apply Hall. apply (greach_inputs_seen files dirs g' R' f Hf).
Qed.

(* ===================================================================================================================
   PART 5 — S1: a Verify run that ends with VOk found, for every source it processed, exactly the fresh text in the
   existing output
   =================================================================================================================== *)
(* all the temp targets named by the sources of the tree *)
Definition all_temp_targets (w : world) : list path := flat_map (temp_targets Verify w) (src_files (w_fs w)).

Lemma in_all_temp_targets w f p : In f (src_files (w_fs w)) -> In p (temp_targets Verify w f) -> In p (all_temp_targets w).
Proof. intros Hf Hp. unfold all_temp_targets. apply in_flat_map. exists f. auto. Qed.

(* The static condition of S1, on the initial tree: for every source f (a file with a txtpp name) with output `out`:
   no include directive of f names `out`, no temp directive of ANY source names `out`, and `out` can be created (its
   parent is a directory, `out` is not a directory and its name is an ordinary name). *)
Definition verify_static (w : world) : Prop :=
  forall f out, In f (src_files (w_fs w)) -> remove_txtpp f = Some out ->
    ~ In out (map (fun a => lex_normalize (lex_join (parent f) a)) (include_args (items_of Build w f))) /\
    ~ In out (all_temp_targets w) /\
    write_target (w_fs w) out <> None.

Lemma good_file_normal F0 f : legal_names F0 -> good_file F0 f -> all_normal (parent f).
Proof.
  intros WF [_ [_ Hd]]. pose proof (dir0_names F0 WF _ Hd) as Hn. unfold all_normal.
  eapply Forall_impl; [|exact Hn]. intros c [_ Hc]. exact Hc.
Qed.

Lemma verify_static_side w f out :
  legal_names (w_fs w) -> verify_static w -> good_file (w_fs w) f -> remove_txtpp f = Some out -> pass_side w f out.
Proof.
  intros WF HS Hg Ho. destruct (HS f out (proj1 Hg) Ho) as (H1 & H2 & H3).
  split; [exact Ho|]. split; [apply (good_file_normal _ _ WF Hg)|]. split; [exact H1|]. split; [|exact H3].
  intros Hin. apply H2. apply (in_all_temp_targets w f out (proj1 Hg)). exact Hin.
Qed.

(* a prefix of the trace of a Verify run on a legal tree: the sources and the directories are those of the initial tree,
   and only temp targets named by the sources processed so far may have changed *)
Lemma verify_prefix_frame orc cfg fuel sched w pre t r post wt :
  NoDup (map fst (w_fs w)) -> legal_names (w_fs w) -> cfg_mode cfg = Verify ->
  trace_of (txtpp_run orc cfg fuel sched w) = pre ++ (t, r) :: post ->
  exec_chain orc cfg (run_base cfg w) w pre wt ->
  txtpp_same w wt /\ (forall q, is_dir (w_fs w) q = is_dir (w_fs wt) q) /\
  (forall p, (forall f' b' r', In (TPp f' b', r') pre -> ~ In p (temp_targets Verify w f')) ->
     fs_get (w_fs wt) p = fs_get (w_fs w) p).
Proof.
  intros ND WF Hmd El Hpre.
  assert (HGd : forall f b r0, In (TPp f b, r0) pre -> is_dir (w_fs w) (lex_normalize (parent f)) = true).
  { intros f b r0 Hin. apply (good_file_dir _ _ WF).
    apply (txtpp_run_trace_good orc cfg fuel sched w ND WF (TPp f b) r0). rewrite El. apply in_or_app. left. exact Hin. }
  destruct (exec_chain_legal orc cfg _ w w _ _ Hpre (fun q _ => eq_refl) (sd_refl w) HGd) as (HS & HD & _).
  split; [exact HS|]. split; [intros q; symmetry; apply HD|]. intros p Hp.
  destruct (exec_chain_tr_gen orc cfg _ verify_ev (verify_task_tr orc cfg _ Hmd) w pre wt Hpre) as (evs & _ & HA & HF).
  apply HF. intros e He Hev. rewrite Forall_forall in HA.
  destruct (HA e He) as (t1 & r1 & wt1 & Hr & Hve).
  destruct (Hve p Hev) as (_ & f1 & b1 & out1 & -> & Ho1 & Hin1).
  apply (Hp f1 b1 r1 (ran_in_In _ _ _ _ _ _ _ _ Hr)).
  destruct Hr as (pre1 & post1 & El1 & Hpre1).
  destruct (exec_chain_legal orc cfg _ w w _ _ Hpre1 (fun q _ => eq_refl) (sd_refl w)) as (HS1 & _ & _).
  { intros f' b' r' Hin'. apply (HGd f' b' r'). rewrite El1. apply in_or_app. left. exact Hin'. }
  unfold temp_targets in *. rewrite <- (items_of_same Verify w wt1 f1); [exact Hin1|].
  apply HS1. eapply remove_txtpp_is_txtpp; eauto.
Qed.

(* a pass of the trace that answered POk: the world in which it ran, and the pass as a function *)
Lemma ok_pass_in_trace orc cfg fuel sched w f b :
  let x := txtpp_run orc cfg fuel sched w in
  In (TPp f b, RPp f (Some POk)) (trace_of x) ->
  exists pre post wt wt',
    trace_of x = pre ++ (TPp f b, RPp f (Some POk)) :: post /\
    exec_chain orc cfg (run_base cfg w) w pre wt /\
    pp_run orc (cfg_mode cfg) (run_base cfg w) f b (cfg_trailing cfg) wt = PpOk wt'.
Proof.
  intros x Hin. apply in_split in Hin. destruct Hin as (pre & post & El).
  pose proof (txtpp_run_chain orc cfg fuel sched w) as HC. cbv zeta in HC. fold x in HC. rewrite El in HC.
  apply exec_chain_split in HC. destruct HC as (wt & Hpre & Hrest).
  inversion Hrest as [|w0 t0 r0 w1 rest0 w2 Hex _]; subst.
  rewrite exec_task_pp in Hex. cbv zeta in Hex.
  destruct (pp_run orc (cfg_mode cfg) (run_base cfg w) f b (cfg_trailing cfg) wt) as [a|ds a|k a|] eqn:E;
    cbn in Hex; try discriminate.
  exists pre, post, wt, a. auto.
Qed.

(* S1, general form.  A Verify run from w (any schedule, any fuel, any oracle, any inputs) on a legal tree that satisfies
   `verify_static`, with verdict VOk: for every source f that was given a pass, a pass of f answered POk in some world wt
   of the run, and
     - the existing output of f — in the initial tree w, equivalently in wt — holds exactly the fresh text of f,
       evaluated in wt;
     - wt holds the sources and the directories of w, and differs from w at most on temp targets named by the sources
       that were processed before (a Verify pass rewrites the temp files: RunEventsFacts.verify_run_events). *)
Theorem verify_ok_means_all_fresh_at orc cfg fuel sched w :
  cfg_mode cfg = Verify ->
  NoDup (map fst (w_fs w)) -> legal_names (w_fs w) -> verify_static w ->
  let x := txtpp_run orc cfg fuel sched w in
  verdict_of x = VOk ->
  forall f b r, In (TPp f b, r) (trace_of x) ->
  exists out wt txt,
    remove_txtpp f = Some out /\ In f (src_files (w_fs w)) /\
    (exists b', ran_in orc cfg (run_base cfg w) w (trace_of x) (TPp f b') (RPp f (Some POk)) wt) /\
    fresh_text orc (run_base cfg w) f (cfg_trailing cfg) wt out = Some txt /\
    read_file (w_fs w) out = Some txt /\ read_file (w_fs wt) out = Some txt /\
    (forall q, is_txtpp_file q = true -> fs_get (w_fs wt) q = fs_get (w_fs w) q) /\
    (forall q, is_dir (w_fs w) q = is_dir (w_fs wt) q) /\
    (forall p, ~ In p (all_temp_targets w) -> fs_get (w_fs wt) p = fs_get (w_fs w) p).
Proof.
  intros Hmd ND WF HS x Hv f b r Hin.
  destruct (ok_run_final_pass orc cfg fuel sched w Hv f b r Hin) as [b' Hin'].
  destruct (ok_pass_in_trace orc cfg fuel sched w f b' Hin') as (pre & post & wt & wt' & El & Hpre & Ep).
  fold x in El. rewrite Hmd in Ep.
  set (base := run_base cfg w) in *. set (tn := cfg_trailing cfg) in *.
  assert (Ef : pp_run orc Verify base f false tn wt = PpOk wt').
  { destruct b'; [apply first_ok_is_final; [discriminate|exact Ep]|exact Ep]. }
  destruct (remove_txtpp f) as [out|] eqn:Ho.
  2:{ rewrite (pp_run_no_out _ _ _ _ _ _ wt Ho) in Ef. discriminate. }
  assert (Hg : good_file (w_fs w) f) by (apply (txtpp_run_trace_good orc cfg fuel sched w ND WF (TPp f b) r Hin)).
  destruct (verify_prefix_frame orc cfg fuel sched w pre _ _ post wt ND WF Hmd El Hpre) as (HSt & HDt & HFt).
  assert (HFt' : forall p, ~ In p (all_temp_targets w) -> fs_get (w_fs wt) p = fs_get (w_fs w) p).
  { intros p Hp. apply HFt. intros f' b0 r0 Hin0 Hp0. apply Hp.
    apply (in_all_temp_targets w f' p); [|exact Hp0].
    apply (txtpp_run_trace_good orc cfg fuel sched w ND WF (TPp f' b0) r0). fold x. rewrite El. apply in_or_app. left. exact Hin0. }
  pose proof (verify_static_side w f out WF HS Hg Ho) as Hside.
  assert (Hside' : pass_side wt f out).
  { apply (pass_side_transfer w); [|exact HDt|exact Hside]. apply HSt. eapply remove_txtpp_is_txtpp; eauto. }
  pose proof Hside' as (_ & Hn & Hi & Ht & Hw).
  destruct (verify_pass_iff orc base f tn wt out Ho Hn Hi Ht Hw) as [[V1 _] _].
  destruct (V1 (ex_intro _ wt' Ef)) as (txt & Hfr & Hrd).
  assert (Eout : fs_get (w_fs wt) out = fs_get (w_fs w) out).
  { apply HFt'. apply (HS f out (proj1 Hg) Ho). }
  exists out, wt, txt. split; [reflexivity|]. split; [exact (proj1 Hg)|]. split.
  { exists b', pre, post. split; [exact El|exact Hpre]. }
  split; [exact Hfr|]. split; [unfold read_file in *; rewrite <- Eout; exact Hrd|]. split; [exact Hrd|].
  split; [exact HSt|]. split; [exact HDt|exact HFt'].
Qed.

(* ---- S1 with the fresh text evaluated in the initial tree itself ---- *)
(* The extra static condition: the final pass of every source f gives the same text whatever is lying at the temp
   targets (of any source) when it starts — ScheduleTempFacts.reads_ok with D := all the temp targets of the tree: an
   include of f reads a temp target only if it is a temp target of f itself that f has rewritten before (and that can be
   written); and no source is itself a temp target. *)
Definition temps_private (w : world) : Prop :=
  forall f out, In f (src_files (w_fs w)) -> remove_txtpp f = Some out ->
    ~ In f (all_temp_targets w) /\
    reads_ok (w_fs w) f PExec (drop_path out (all_temp_targets w)) (items_of Build w f).

(* the fresh text of f does not depend on what is lying at the temp targets *)
Lemma fresh_text_stale_temps orc base f tn w wt out txt :
  pass_side w f out -> pass_side wt f out ->
  ~ In f (all_temp_targets w) ->
  reads_ok (w_fs w) f PExec (drop_path out (all_temp_targets w)) (items_of Build w f) ->
  (forall p, ~ In p (all_temp_targets w) -> fs_get (w_fs wt) p = fs_get (w_fs w) p) ->
  (forall q, is_dir (w_fs w) q = is_dir (w_fs wt) q) ->
  fresh_text orc base f tn wt out = Some txt -> fresh_text orc base f tn w out = Some txt.
Proof.
  intros Hs Hst Hf Hro HA HD Hfr.
  apply (fresh_text_is_build_output orc base f tn wt out txt Hst) in Hfr. destruct Hfr as (wbt & Ebt & Hrt).
  apply (fresh_text_is_build_output orc base f tn w out txt Hs).
  assert (W : wR (in_paths (all_temp_targets w)) w wt).
  { split; [|exact HD]. intros p Hp. symmetry. apply HA. apply in_paths_false. exact Hp. }
  destruct (pass_converges_on_own_temps orc base f false tn (all_temp_targets w) w wt out W (proj1 Hs)
              (proj1 (proj2 Hs)) Hf (fun e => ltac:(discriminate e)) Hro) as (Ht & _ & Hok).
  rewrite Ebt in Ht, Hok. cbn [tag_of out_world] in Ht, Hok.
  destruct (pp_run orc Build base f false tn w) as [wb| | |] eqn:Eb; try discriminate.
  exists wb. split; [reflexivity|]. cbn [out_world] in Hok. specialize (Hok eq_refl).
  unfold read_file in *. rewrite (proj1 Hok out); [exact Hrt|].
  apply in_paths_false. intros Hin. apply in_drop_paths in Hin. apply (proj2 Hin).
  unfold writes_of. rewrite (proj1 Hs). right. left. reflexivity.
Qed.

(* S1.  A Verify run from w with verdict VOk (any schedule, any fuel, any oracle, any inputs; legal tree, `verify_static`,
   `temps_private`): for every source f that was given a pass, the existing output of f holds exactly the fresh text of
   f — the text a build would write —, both evaluated in the INITIAL tree w. *)
Theorem verify_ok_means_all_fresh orc cfg fuel sched w :
  cfg_mode cfg = Verify ->
  NoDup (map fst (w_fs w)) -> legal_names (w_fs w) -> verify_static w -> temps_private w ->
  let x := txtpp_run orc cfg fuel sched w in
  verdict_of x = VOk ->
  forall f b r, In (TPp f b, r) (trace_of x) ->
  exists out txt,
    remove_txtpp f = Some out /\
    fresh_text orc (run_base cfg w) f (cfg_trailing cfg) w out = Some txt /\
    read_file (w_fs w) out = Some txt.
Proof.
  intros Hmd ND WF HS HP x Hv f b r Hin.
  destruct (verify_ok_means_all_fresh_at orc cfg fuel sched w Hmd ND WF HS Hv f b r Hin)
    as (out & wt & txt & Ho & Hsrc & _ & Hfr & Hr & _ & HSt & HDt & HFt).
  exists out, txt. split; [exact Ho|]. split; [|exact Hr].
  assert (Hg : good_file (w_fs w) f) by (apply (txtpp_run_trace_good orc cfg fuel sched w ND WF (TPp f b) r Hin)).
  pose proof (verify_static_side w f out WF HS Hg Ho) as Hside.
  assert (Hside' : pass_side wt f out).
  { apply (pass_side_transfer w); [|exact HDt|exact Hside]. apply HSt. eapply remove_txtpp_is_txtpp; eauto. }
  destruct (HP f out Hsrc Ho) as [Hf Hro].
  apply (fresh_text_stale_temps orc _ f _ w wt out txt Hside Hside' Hf Hro HFt HDt Hfr).
Qed.

(* ---- S3: a stale output is detected ---- *)
(* by contraposition: if the output of some processed source is missing, or is not exactly the fresh text (one byte
   changed, shorter, longer), the verdict is not VOk *)
Corollary verify_detects_any_stale_output orc cfg fuel sched w f b r out :
  cfg_mode cfg = Verify ->
  NoDup (map fst (w_fs w)) -> legal_names (w_fs w) -> verify_static w -> temps_private w ->
  let x := txtpp_run orc cfg fuel sched w in
  In (TPp f b, r) (trace_of x) -> remove_txtpp f = Some out ->
  read_file (w_fs w) out = None \/
  read_file (w_fs w) out <> fresh_text orc (run_base cfg w) f (cfg_trailing cfg) w out ->
  verdict_of x <> VOk.
Proof.
  intros Hmd ND WF HS HP x Hin Ho Hdiff Hv.
  destruct (verify_ok_means_all_fresh orc cfg fuel sched w Hmd ND WF HS HP Hv f b r Hin) as (out' & txt & Ho' & Hf & Hr).
  rewrite Ho in Ho'. inversion Ho'; subst out'. destruct Hdiff as [Hd|Hd]; congruence.
Qed.

(* no run ends with VPanic (RunFacts.run_loop_no_panic, for whole runs) *)
Lemma txtpp_run_no_panic orc cfg fuel sched w : verdict_of (txtpp_run orc cfg fuel sched w) <> VPanic.
Proof.
  unfold txtpp_run.
  destruct (cfg_threads cfg =? 0); [discriminate|].
  destruct (os_resolve (w_fs w) (cfg_base cfg)) as [base|]; [|discriminate].
  destruct (resolve_inputs (w_fs w) base (cfg_inputs cfg) [] []) as [[files dirs]|]; [|discriminate].
  apply (run_loop_no_panic orc cfg base files dirs (ginit files dirs)). apply greach_init.
Qed.

(* ... and with the fuel of RunFacts.txtpp_run_terminates the verdict IS VErr *)
Corollary verify_detects_any_stale_output_err orc cfg fuel sched w f b r out :
  cfg_mode cfg = Verify ->
  NoDup (map fst (w_fs w)) -> legal_names (w_fs w) -> verify_static w -> temps_private w ->
  (fuel > 2 * length (src_files (w_fs w)) + length (dir_entries (w_fs w)))%nat ->
  let x := txtpp_run orc cfg fuel sched w in
  In (TPp f b, r) (trace_of x) -> remove_txtpp f = Some out ->
  read_file (w_fs w) out = None \/
  read_file (w_fs w) out <> fresh_text orc (run_base cfg w) f (cfg_trailing cfg) w out ->
  verdict_of x = VErr.
Proof.
  intros Hmd ND WF HS HP Hfuel x Hin Ho Hdiff.
  pose proof (verify_detects_any_stale_output orc cfg fuel sched w f b r out Hmd ND WF HS HP Hin Ho Hdiff) as H1.
  pose proof (txtpp_run_terminates orc cfg fuel sched w ND WF Hfuel) as H2.
  pose proof (txtpp_run_no_panic orc cfg fuel sched w) as H3.
  fold x in H1, H2, H3. destruct (verdict_of x); congruence.
Qed.

(* the same in the wording "any difference": whatever bytes the output holds, if they are not the fresh text the run
   does not succeed *)
Corollary verify_detects_other_bytes orc cfg fuel sched w f b r out existing txt :
  cfg_mode cfg = Verify ->
  NoDup (map fst (w_fs w)) -> legal_names (w_fs w) -> verify_static w -> temps_private w ->
  let x := txtpp_run orc cfg fuel sched w in
  In (TPp f b, r) (trace_of x) -> remove_txtpp f = Some out ->
  read_file (w_fs w) out = Some existing ->
  fresh_text orc (run_base cfg w) f (cfg_trailing cfg) w out = Some txt -> existing <> txt ->
  verdict_of x <> VOk.
Proof.
  intros Hmd ND WF HS HP x Hin Ho He Hf Hne.
  apply (verify_detects_any_stale_output orc cfg fuel sched w f b r out Hmd ND WF HS HP Hin Ho).
  right. rewrite He, Hf. intros E. inversion E. contradiction.
Qed.

(* S3 with a static description of "processed": a file the inputs resolve to.  If its output is missing or differs from
   its fresh text, no schedule makes the Verify run succeed. *)
Corollary verify_detects_stale_input orc cfg fuel sched w base files dirs f out :
  cfg_mode cfg = Verify ->
  NoDup (map fst (w_fs w)) -> legal_names (w_fs w) -> verify_static w -> temps_private w ->
  os_resolve (w_fs w) (cfg_base cfg) = Some base ->
  resolve_inputs (w_fs w) base (cfg_inputs cfg) [] [] = Some (files, dirs) ->
  In f files -> remove_txtpp f = Some out ->
  read_file (w_fs w) out = None \/
  read_file (w_fs w) out <> fresh_text orc base f (cfg_trailing cfg) w out ->
  verdict_of (txtpp_run orc cfg fuel sched w) <> VOk.
Proof.
  intros Hmd ND WF HS HP Eb Ri Hf Ho Hdiff Hv.
  destruct (ok_run_inputs_processed orc cfg fuel sched w base files dirs Eb Ri Hv f Hf) as [b Hin].
  revert Hv. apply (verify_detects_any_stale_output orc cfg fuel sched w f b _ out Hmd ND WF HS HP Hin Ho).
  unfold run_base. rewrite Eb. exact Hdiff.
Qed.

(* ===================================================================================================================
   PART 6 — non-vacuity, and the counterexample to the naive form of S1
   =================================================================================================================== *)
(* the tree of ScheduleTempFacts PART 6 after a build:  d/a.txtpp writes the temp file d/t and includes it, d/b.txtpp
   includes the output of d/a.txtpp (a dependency: two passes) *)
Definition t_built : world := mkW (w_fs (world_of (txtpp_run cx_orc t_cfg 9 [] t_w))) [].
Definition t_vcfg : config := mkCfg [] [[100]] true 1 Verify false.

Lemma t_built_nodup : NoDup (map fst (w_fs t_built)).
Proof. vm_compute. repeat constructor; cbn; intuition discriminate. Qed.
Lemma t_built_legal : legal_names (w_fs t_built).
Proof.
  intros p nd H. vm_compute in H.
  repeat (destruct H as [H|H]; [inversion H; subst; repeat constructor; discriminate|]). destruct H.
Qed.
Lemma t_built_sources f : In f (src_files (w_fs t_built)) -> f = t_a \/ f = t_b.
Proof. intros H. vm_compute in H. destruct H as [<-|[<-|[]]]; [left|right]; reflexivity. Qed.

Lemma t_built_static : verify_static t_built.
Proof.
  intros f out Hf Ho. destruct (t_built_sources f Hf) as [-> | ->]; vm_compute in Ho; inversion Ho; subst out;
    (split; [vm_compute; intuition discriminate|split; [vm_compute; intuition discriminate|vm_compute; discriminate]]).
Qed.
Lemma t_built_private : temps_private t_built.
Proof.
  intros f out Hf Ho. destruct (t_built_sources f Hf) as [-> | ->]; vm_compute in Ho; inversion Ho; subst out;
    (split; [vm_compute; intuition discriminate|solve_ro]).
Qed.

Example verify_ok_means_all_fresh_nonvacuous :
  (* two schedules *)
  forall sched, sched = [] \/ sched = [0; 1; 0; 0]%nat ->
  let x := txtpp_run cx_orc t_vcfg 9 sched t_built in
  verdict_of x = VOk /\
  (exists r, In (TPp t_a true, r) (trace_of x)) /\ (exists r, In (TPp t_b false, r) (trace_of x)) /\
  (* from the theorem: both outputs hold the fresh text *)
  (exists txt, fresh_text cx_orc [] t_a false t_built t_aout = Some txt /\ read_file (w_fs t_built) t_aout = Some txt) /\
  (exists txt, fresh_text cx_orc [] t_b false t_built t_bout = Some txt /\ read_file (w_fs t_built) t_bout = Some txt).
Proof.
  intros sched Hs x.
  assert (Hv : verdict_of x = VOk) by (destruct Hs as [-> | ->]; vm_compute; reflexivity).
  assert (Ha : exists r, In (TPp t_a true, r) (trace_of x)).
  { destruct Hs as [-> | ->]; eexists; vm_compute; [right; left; reflexivity|right; right; left; reflexivity]. }
  assert (Hb : exists r, In (TPp t_b false, r) (trace_of x)).
  { destruct Hs as [-> | ->]; eexists; vm_compute; do 3 right; left; reflexivity. }
  split; [exact Hv|]. split; [exact Ha|]. split; [exact Hb|].
  pose proof (verify_ok_means_all_fresh cx_orc t_vcfg 9 sched t_built eq_refl t_built_nodup t_built_legal
                t_built_static t_built_private Hv) as H.
  destruct Ha as [ra Ha], Hb as [rb Hb]. split.
  - destruct (H t_a true ra Ha) as (out & txt & Ho & Hf & Hr). vm_compute in Ho. inversion Ho; subst out.
    exists txt. split; assumption.
  - destruct (H t_b false rb Hb) as (out & txt & Ho & Hf & Hr). vm_compute in Ho. inversion Ho; subst out.
    exists txt. split; assumption.
Qed.

(* S3: one byte of d/a changed ("hellox" -> "hellox" with the last byte replaced): every schedule with enough fuel ends
   with VErr, by the theorem *)
Definition t_tampered : world := mkW (fs_put (w_fs t_built) t_aout (File [104; 101; 108; 108; 111; 121])) [].

Lemma t_tampered_nodup : NoDup (map fst (w_fs t_tampered)).
Proof. vm_compute. repeat constructor; cbn; intuition discriminate. Qed.
Lemma t_tampered_legal : legal_names (w_fs t_tampered).
Proof.
  intros p nd H. vm_compute in H.
  repeat (destruct H as [H|H]; [inversion H; subst; repeat constructor; discriminate|]). destruct H.
Qed.
Lemma t_tampered_sources f : In f (src_files (w_fs t_tampered)) -> f = t_a \/ f = t_b.
Proof. intros H. vm_compute in H. destruct H as [<-|[<-|[]]]; [left|right]; reflexivity. Qed.
Lemma t_tampered_static : verify_static t_tampered.
Proof.
  intros f out Hf Ho. destruct (t_tampered_sources f Hf) as [-> | ->]; vm_compute in Ho; inversion Ho; subst out;
    (split; [vm_compute; intuition discriminate|split; [vm_compute; intuition discriminate|vm_compute; discriminate]]).
Qed.
Lemma t_tampered_private : temps_private t_tampered.
Proof.
  intros f out Hf Ho. destruct (t_tampered_sources f Hf) as [-> | ->]; vm_compute in Ho; inversion Ho; subst out;
    (split; [vm_compute; intuition discriminate|solve_ro]).
Qed.

Example verify_detects_any_stale_output_nonvacuous :
  forall sched, sched = [] \/ sched = [0; 1; 0; 0]%nat ->
  let x := txtpp_run cx_orc t_vcfg 9 sched t_tampered in
  (exists b r, In (TPp t_a b, r) (trace_of x)) /\
  read_file (w_fs t_tampered) t_aout <> fresh_text cx_orc [] t_a false t_tampered t_aout /\
  verdict_of x = VErr.
Proof.
  intros sched Hs x.
  assert (Ha : In (TPp t_a true, RPp t_a None) (trace_of x)).
  { destruct Hs as [-> | ->]; vm_compute; [right; left; reflexivity|right; right; left; reflexivity]. }
  assert (Hd : read_file (w_fs t_tampered) t_aout <> fresh_text cx_orc [] t_a false t_tampered t_aout)
    by (vm_compute; discriminate).
  split; [exists true, (RPp t_a None); exact Ha|]. split; [exact Hd|].
  apply (verify_detects_any_stale_output_err cx_orc t_vcfg 9 sched t_tampered t_a true (RPp t_a None) t_aout eq_refl
           t_tampered_nodup t_tampered_legal t_tampered_static t_tampered_private).
  - vm_compute. repeat constructor.
  - exact Ha.
  - vm_compute. reflexivity.
  - right. exact Hd.
Qed.

(* ---- the counterexample: without `temps_private` the fresh text cannot be evaluated in the initial tree ----
   d/a.txtpp = "// TXTPP#temp t\n// hello\nTXTPP#include t\nx\n"       (writes the temp file d/t = "hello", includes it)
   d/c.txtpp = "TXTPP#include a\nTXTPP#include t\n"                    (depends on a.txtpp; includes a's temp file d/t)
   The tree is built (d/a = "hellox", d/c = "helloxhello", d/t = "hello") and then d/t is overwritten with "stale".
   `txtpp verify d` succeeds (every schedule: c waits for a): the Verify pass of a.txtpp REWRITES d/t = "hello" before
   c.txtpp is verified, and then d/c matches.  But the fresh text of c.txtpp evaluated in the initial tree is
   "helloxstale", which is not what d/c holds.  The general form `verify_ok_means_all_fresh_at` applies (the fresh text is
   taken in the world of the run in which the pass of c.txtpp ran, where d/t = "hello" again). *)
Definition x_c : path := [[100]; [99; 46; 116; 120; 116; 112; 112]].
Definition x_cout : path := [[100]; [99]].
Definition x_craw : str := [84; 88; 84; 80; 80; 35; 105; 110; 99; 108; 117; 100; 101; 32; 97; 10;
                            84; 88; 84; 80; 80; 35; 105; 110; 99; 108; 117; 100; 101; 32; 116; 10].
Definition x_fs : fs := [([[100]], Dir); (t_a, File t_araw); (x_c, File x_craw)].
Definition x_w : world := mkW x_fs [].
Definition x_built : world := mkW (w_fs (world_of (txtpp_run cx_orc t_cfg 9 [] x_w))) [].
Definition x_stale : world := mkW (fs_put (w_fs x_built) t_t (File t_stale)) [].

Lemma x_stale_sources f : In f (src_files (w_fs x_stale)) -> f = t_a \/ f = x_c.
Proof. intros H. vm_compute in H. destruct H as [<-|[<-|[]]]; [left|right]; reflexivity. Qed.

Example naive_all_fresh_counterexample :
  NoDup (map fst (w_fs x_stale)) /\ legal_names (w_fs x_stale) /\ verify_static x_stale /\
  ~ temps_private x_stale /\
  (forall sched, sched = [] \/ sched = [0; 1; 0; 0]%nat ->
     let x := txtpp_run cx_orc t_vcfg 9 sched x_stale in
     verdict_of x = VOk /\ (exists b r, In (TPp x_c b, r) (trace_of x)) /\
     (* the temp file has been rewritten by the Verify run *)
     read_file (w_fs x_stale) t_t = Some t_stale /\ read_file (w_fs (world_of x)) t_t = Some t_hello) /\
  read_file (w_fs x_stale) x_cout = Some (t_hello ++ [120] ++ t_hello) /\
  fresh_text cx_orc [] x_c false x_stale x_cout = Some (t_hello ++ [120] ++ t_stale).
Proof.
  split; [vm_compute; repeat constructor; cbn; intuition discriminate|].
  split.
  { intros p nd H. vm_compute in H.
    repeat (destruct H as [H|H]; [inversion H; subst; repeat constructor; discriminate|]). destruct H. }
  split.
  { intros f out Hf Ho. destruct (x_stale_sources f Hf) as [-> | ->]; vm_compute in Ho; inversion Ho; subst out;
      (split; [vm_compute; intuition discriminate|split; [vm_compute; intuition discriminate|vm_compute; discriminate]]). }
  split.
  { intros H. destruct (H x_c x_cout) as [_ Hro]; [vm_compute; right; left; reflexivity|vm_compute; reflexivity|].
    vm_compute in Hro. destruct Hro as (_ & (_ & Hr) & _). apply (Hr (or_introl eq_refl) t_t); left; reflexivity. }
  split.
  { intros sched Hs x. split; [destruct Hs as [-> | ->]; vm_compute; reflexivity|].
    split; [exists false; eexists; destruct Hs as [-> | ->]; vm_compute; do 3 right; left; reflexivity|].
    split; [vm_compute; reflexivity|destruct Hs as [-> | ->]; vm_compute; reflexivity]. }
  split; vm_compute; reflexivity.
Qed.
