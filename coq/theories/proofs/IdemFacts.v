(* IdemFacts.v — property C08 for WHOLE runs: a build is a function of the sources only, and it is idempotent.
   Everything below is proved (nothing assumed); `Print Assumptions` of the deliverables is closed.

   PART 0  `run_loop_inv_tr`: an invariant of a run that may look at the ghost coordinator state AND at the trace,
           carried to a successful exit (ScheduleFacts.run_loop_inv_g with the trace added).
   PART 1  what a successful Build run looks like (`ok_run_summary`): every task of the trace is a pass over a readable
           source of the INITIAL tree that was seen, every seen source has a pass of the trace that reported success, the
           final world differs from the initial one on footprints only (`stale_rel (foots w) w (world_of x)`);
           the set of processed sources is the least set closed under inputs / scans / dependencies (`reached`),
           hence the same for every successful schedule (`ok_runs_same_processed`).
   PART 2  `in_stale_afterT` (what is still stale after a trace) and `chain_frame` (a chain of tasks leaves alone
           every path outside the footprints of its passes).
   PART 3  R2: `build_function_of_sources_gen` (the exact statement: any two schedules, two initial worlds that differ
           on D; the final trees agree everywhere except on the paths of D that belong to no processed source, and
           those keep their initial nodes), `build_function_of_sources` (static coverage hypothesis => `w_eq`),
           `build_function_of_sources_trace`.
   PART 4  R1: `build_idempotent`.
   PART 5  non-vacuity of R1 / R2 on the tree of ScheduleTempFacts PART 6 (two sources, a dependency, a temp directive):
           `build_idempotent_nonvacuous`, `build_function_of_sources_nonvacuous`, and the counterexample
           `uncovered_stale_path_survives` (why the coverage hypothesis of R2 is needed).
   PART 6  R3: `interrupted_build_summary` (an interrupted build against a successful one), `rebuild_interrupted` (the
           trees visible between the tasks of the second build), `rebuild_events` (what a second build logs), with
           `rebuild_interrupted_nonvacuous`, `rebuild_events_nonvacuous`. *)
Require Import Txtpp.Str Txtpp.Consts Txtpp.Grammar Txtpp.Tags Txtpp.Path Txtpp.Fs Txtpp.Sink Txtpp.Pp Txtpp.Spec.
Require Import Txtpp.Dep Txtpp.Coord Txtpp.Run.
Require Import Txtpp.proofs.StrFacts Txtpp.proofs.SinkFacts Txtpp.proofs.PathFacts Txtpp.proofs.PpFacts Txtpp.proofs.EventFacts.
Require Import Txtpp.proofs.FrameFacts Txtpp.proofs.ConfluenceFacts Txtpp.proofs.DepFacts Txtpp.proofs.CoordFacts Txtpp.proofs.RunFacts Txtpp.proofs.ScheduleFacts.
Require Import Txtpp.proofs.RunEventsFacts Txtpp.proofs.ScheduleTempFacts.
From Coq Require Import Lia Permutation.

Local Open Scope bool_scope.

(* ================================================================================================
   PART 0 — an invariant over (ghost state, world, trace) carried to a successful exit
   ================================================================================================ *)
Section RunInvTr.
Variable orc : oracle.
Variable cfg : config.
Variable base : path.
Variables files dirs : list path.
Variable J : gstate -> world -> list (task * result) -> Prop.
Hypothesis J_step : forall g w tr t rest r w' s2,
  greach files dirs g -> J g w tr -> Permutation (inflight (gs g)) (t :: rest) ->
  exec_task orc cfg base t w = Some (r, w') -> handle (with_inflight (gs g) rest) r = Continue s2 ->
  J (mkG s2 (report t r (reported g)) (history g ++ [t])) w' (tr ++ [(t, r)]).

Lemma run_loop_inv_tr fuel : forall sched g w tr,
  greach files dirs g -> J g w tr ->
  let x := run_loop orc cfg base fuel sched (gs g) w tr in
  verdict_of x = VOk ->
  exists g', greach files dirs g' /\ gs g' = state_of x /\ inflight (gs g') = [] /\
             (forall f, is_seen g' f -> finished g' f) /\ J g' (world_of x) (trace_of x).
Proof.
  assert (Hexit : forall g w tr, greach files dirs g -> J g w tr -> sort_tasks (inflight (gs g)) = [] ->
            (if has_remaining (dm (gs g)) then VErr else VOk) = VOk ->
            exists g', greach files dirs g' /\ gs g' = gs g /\ inflight (gs g') = [] /\
                       (forall f, is_seen g' f -> finished g' f) /\ J g' w tr).
  { intros g w tr R HJ E Hv. exists g. split; [exact R|]. split; [reflexivity|].
    pose proof (sort_tasks_nil _ E) as Hfl. split; [exact Hfl|]. split; [|exact HJ].
    intros f Hseen. unfold finished. destruct (pmem f (fin (dm (gs g)))) eqn:Ef; [reflexivity|].
    assert (Ht' : has_remaining (dm (gs g)) = true).
    { apply (cycle_verdict_iff files dirs g R Hfl). exists f. split; [exact Hseen|].
      unfold finished. rewrite Ef. discriminate. }
    rewrite Ht' in Hv. discriminate. }
  induction fuel as [|fuel IH]; intros sched g w tr R HJ x Hv; subst x.
  - destruct (sort_tasks (inflight (gs g))) as [|t0 sl'] eqn:E.
    + rewrite (run_loop_exit _ _ _ _ _ _ _ _ E) in *. cbn in Hv. cbn. apply (Hexit g w tr R HJ E Hv).
    + rewrite (run_loop_nofuel _ _ _ _ _ _ _ _ _ E) in Hv. cbn in Hv. discriminate.
  - destruct (sort_tasks (inflight (gs g))) as [|t0 sl'] eqn:E.
    + rewrite (run_loop_exit _ _ _ _ _ _ _ _ E) in *. cbn in Hv. cbn. apply (Hexit g w tr R HJ E Hv).
    + rewrite (run_loop_step _ _ _ _ _ _ _ _ _ _ E) in *. cbv zeta in *.
      set (sl := t0 :: sl') in *. set (k := pick sched sl) in *. set (t := nth k sl t0) in *.
      set (rest := remove_nth k sl) in *.
      assert (HP : Permutation (inflight (gs g)) (t :: rest)).
      { eapply perm_trans; [apply sort_tasks_perm|]. rewrite E. apply pick_split. apply pick_lt. }
      destruct (exec_task orc cfg base t w) as [[r w']|] eqn:Hex; [|cbn in Hv; discriminate].
      pose proof (exec_task_answers orc cfg base _ _ _ _ Hex) as Hans.
      destruct (handle (with_inflight (gs g) rest) r) as [s2| |] eqn:Hh.
      * set (g2 := mkG s2 (report t r (reported g)) (history g ++ [t])).
        assert (R2 : greach files dirs g2).
        { eapply greach_step; [exact R|]. apply (gstep_continue g t rest r s2); assumption. }
        assert (HJ2 : J g2 w' (tr ++ [(t, r)])) by (apply (J_step g w tr t rest r w' s2); assumption).
        apply (IH (tl sched) g2 w' (tr ++ [(t, r)]) R2 HJ2). exact Hv.
      * destruct (drain orc cfg base _ _ _ _ _) as [[w'' tr2]|]; cbn in Hv; discriminate.
      * cbn in Hv. discriminate.
Qed.
End RunInvTr.

(* ================================================================================================
   PART 1 — the shape of a successful Build run
   ================================================================================================ *)
(* the sources that were given a pass in the run x *)
Definition processed (x : verdict * world * list (task * result) * cstate) (f : path) : Prop :=
  exists b r, In (TPp f b, r) (trace_of x).

(* a successful run went through the coordinator loop *)
Lemma txtpp_run_ok_unfold orc cfg fuel sched w :
  verdict_of (txtpp_run orc cfg fuel sched w) = VOk ->
  exists base files dirs,
    os_resolve (w_fs w) (cfg_base cfg) = Some base /\
    resolve_inputs (w_fs w) base (cfg_inputs cfg) [] [] = Some (files, dirs) /\
    txtpp_run orc cfg fuel sched w = run_loop orc cfg base fuel sched (gs (ginit files dirs)) w [].
Proof.
  unfold txtpp_run. destruct (cfg_threads cfg =? 0); [discriminate|].
  destruct (os_resolve (w_fs w) (cfg_base cfg)) as [base|] eqn:Eb; [|discriminate].
  destruct (resolve_inputs (w_fs w) base (cfg_inputs cfg) [] []) as [[files dirs]|] eqn:Ei; [|discriminate].
  intros _. exists base, files, dirs. split; [reflexivity|]. split; [exact Ei|reflexivity].
Qed.

Section OkLoop.
Variable orc : oracle.
Variable cfg : config.
Variable base : path.
Hypothesis Hmd : cfg_mode cfg = Build.
Variable w0 : world.
Hypothesis HS : sched_ok_temps w0.
Hypothesis N : raw_ok w0.
Variables files dirs : list path.

Definition JT (g : gstate) (w : world) (tr : list (task * result)) : Prop :=
  JCT cfg w0 g w /\ history g = map fst tr /\
  forall f, finished g f -> exists b, In (TPp f b, RPp f (Some POk)) tr.

Lemma JT_step g w tr t rest r w' s2 :
  greach files dirs g -> JT g w tr -> Permutation (inflight (gs g)) (t :: rest) ->
  exec_task orc cfg base t w = Some (r, w') -> handle (with_inflight (gs g) rest) r = Continue s2 ->
  JT (mkG s2 (report t r (reported g)) (history g ++ [t])) w' (tr ++ [(t, r)]).
Proof.
  intros R (HJ & Hh & Hf) HP Hex Hhd. split; [|split].
  - apply (JCT_step orc cfg base Hmd w0 HS files dirs g w t rest r w' s2); assumption.
  - cbn [history]. rewrite map_app, Hh. reflexivity.
  - intros f Hfin. unfold finished in Hfin. cbn [gs] in Hfin. apply pmem_In in Hfin.
    destruct (inv_reach _ _ _ R) as [HPi _].
    destruct (handle_fin (with_inflight (gs g) rest) r s2 f (i_dm HPi) Hhd Hfin) as [Hold|Hnew].
    + destruct (Hf f) as [b Hb]; [unfold finished; apply pmem_In; exact Hold|].
      exists b. apply in_or_app. left. exact Hb.
    + subst r. pose proof (exec_task_answers orc cfg base _ _ _ _ Hex) as Hans.
      destruct t as [d|f0 b0]; [destruct Hans|]. destruct Hans as [-> _].
      exists b0. apply in_or_app. right. left. reflexivity.
Qed.

Lemma JT_init : JT (ginit files dirs) w0 [].
Proof.
  split; [apply JCT_init; exact N|]. split; [reflexivity|].
  intros f Hf. exfalso. unfold finished, ginit in Hf. cbn [gs] in Hf.
  rewrite dm_fold_dir, dm_fold_file in Hf. discriminate.
Qed.

(* the summary, at the level of the loop *)
Lemma ok_loop_summary fuel sched :
  let x := run_loop orc cfg base fuel sched (gs (ginit files dirs)) w0 [] in
  verdict_of x = VOk ->
  (forall f, processed x f -> In f (seen (state_of x))) /\
  (forall f, In f (seen (state_of x)) ->
     (exists out, is_source w0 f out) /\ exists b, In (TPp f b, RPp f (Some POk)) (trace_of x)) /\
  stale_rel (foots w0) w0 (world_of x) /\
  agree nt (w_fs w0) (w_fs (world_of x)) /\
  (forall f out, is_source w0 f out -> ~ In f (seen (state_of x)) ->
     forall p, In p (fp w0 f) -> fs_get (w_fs (world_of x)) p = fs_get (w_fs w0) p).
Proof.
  intros x Hv.
  destruct (run_loop_inv_tr orc cfg base files dirs JT JT_step fuel sched (ginit files dirs) w0 []
              (greach_init files dirs) JT_init Hv) as (g & R & Es & _ & Hfin & (HJ & Hh & Hok)).
  fold x in Es, HJ, Hh, Hok. destruct HJ as ([HB _] & [N' HSc] & _).
  destruct HB as (A & B2 & B3 & _ & _ & G3).
  destruct (inv_reach _ _ _ R) as [HPi _].
  split; [|split; [|split; [|split]]].
  - intros f (b & r & Hin). rewrite <- Es.
    assert (Ht : In (TPp f b) (history g)) by (rewrite Hh; apply (in_map fst _ (TPp f b, r)); exact Hin).
    apply (i_hist_seen HPi _ Ht).
  - intros f Hf. rewrite <- Es in Hf.
    assert (Hff : finished g f) by (apply Hfin; unfold is_seen; apply pmem_In; exact Hf).
    split; [apply (G3 f Hff)|apply (Hok f Hff)].
  - split; [|exact N|exact N'|symmetry; exact HSc]. split.
    + intros p Hp. apply in_paths_false in Hp. symmetry. apply (B2 p Hp).
    + apply (proj2 A).
  - exact A.
  - intros f out Hsrc Hns. apply (B3 f out Hsrc). rewrite Es. exact Hns.
Qed.

(* the sources seen by a successful run are the least closed set *)
Lemma ok_loop_seen_least fuel sched :
  let x := run_loop orc cfg base fuel sched (gs (ginit files dirs)) w0 [] in
  verdict_of x = VOk ->
  forall f, In f (seen (state_of x)) <-> (forall S Dd, closed cfg w0 files dirs S Dd -> In f S).
Proof.
  intros x Hv f. split.
  - intros Hf S Dd Hcl.
    destruct (run_leastT orc cfg base Hmd w0 HS files dirs S Dd Hcl fuel sched N Hv) as [H _]. apply H. exact Hf.
  - intros H. apply (H _ _ (run_closedT orc cfg base Hmd w0 HS files dirs fuel sched N Hv)).
Qed.
End OkLoop.

(* `reached cfg w f`: the source f belongs to every set of files that contains the inputs of the configuration
   (resolved in the tree of w) and is closed under directory scans and dependencies — a STATIC property of the
   project: f is an input, a `.txtpp` file of a scanned directory, or a dependency of such a file. *)
Definition reached (cfg : config) (w : world) (f : path) : Prop :=
  forall base files dirs,
    os_resolve (w_fs w) (cfg_base cfg) = Some base ->
    resolve_inputs (w_fs w) base (cfg_inputs cfg) [] [] = Some (files, dirs) ->
    forall S Dd, closed cfg w files dirs S Dd -> In f S.

(* The summary of a successful Build run from a world that satisfies `sched_ok_temps`. *)
Theorem ok_run_summary orc cfg fuel sched w :
  cfg_mode cfg = Build -> raw_ok w -> sched_ok_temps w ->
  let x := txtpp_run orc cfg fuel sched w in
  verdict_of x = VOk ->
  (forall f, processed x f <-> In f (seen (state_of x))) /\
  (forall f, processed x f <-> reached cfg w f) /\
  (forall f, processed x f ->
     (exists out, is_source w f out) /\ exists b, In (TPp f b, RPp f (Some POk)) (trace_of x)) /\
  stale_rel (foots w) w (world_of x) /\
  agree nt (w_fs w) (w_fs (world_of x)) /\
  (forall f out, is_source w f out -> ~ processed x f ->
     forall p, In p (fp w f) -> fs_get (w_fs (world_of x)) p = fs_get (w_fs w) p).
Proof.
  intros Hmd N HS x Hv. subst x.
  destruct (txtpp_run_ok_unfold orc cfg fuel sched w Hv) as (base & files & dirs & Eb & Ei & Ex).
  rewrite Ex in *.
  destruct (ok_loop_summary orc cfg base Hmd w HS N files dirs fuel sched Hv) as (H1 & H2 & H3 & H4 & H5).
  pose proof (ok_loop_seen_least orc cfg base Hmd w HS N files dirs fuel sched Hv) as HL.
  assert (P1 : forall f, processed (run_loop orc cfg base fuel sched (gs (ginit files dirs)) w []) f <->
                         In f (seen (state_of (run_loop orc cfg base fuel sched (gs (ginit files dirs)) w [])))).
  { intros f. split; [apply H1|]. intros Hf. destruct (H2 f Hf) as [_ [b Hb]]. exists b, (RPp f (Some POk)). exact Hb. }
  split; [exact P1|]. split; [|split; [|split; [|split]]].
  - intros f. rewrite P1, HL. split.
    + intros H b' f' d' Eb' Ei'. rewrite Eb in Eb'. inversion Eb'; subst b'. rewrite Ei in Ei'. inversion Ei'; subst f' d'.
      exact H.
    + intros H. apply (H base files dirs Eb Ei).
  - intros f Hf. apply H2. apply P1. exact Hf.
  - exact H3.
  - exact H4.
  - intros f out Hsrc Hn. apply (H5 f out Hsrc). intros Hs. apply Hn. apply P1. exact Hs.
Qed.

(* two successful runs from the same world process the same sources, whatever the schedules *)
Corollary ok_runs_same_processed orc cfg fuel1 sched1 fuel2 sched2 w :
  cfg_mode cfg = Build -> raw_ok w -> sched_ok_temps w ->
  let x1 := txtpp_run orc cfg fuel1 sched1 w in
  let x2 := txtpp_run orc cfg fuel2 sched2 w in
  verdict_of x1 = VOk -> verdict_of x2 = VOk ->
  forall f, processed x1 f <-> processed x2 f.
Proof.
  intros Hmd N HS x1 x2 H1 H2 f.
  destruct (ok_run_summary orc cfg fuel1 sched1 w Hmd N HS H1) as (_ & R1 & _).
  destruct (ok_run_summary orc cfg fuel2 sched2 w Hmd N HS H2) as (_ & R2 & _).
  fold x1 in R1. fold x2 in R2. rewrite R1, R2. reflexivity.
Qed.

(* ================================================================================================
   PART 2 — what is still stale after a trace; the frame of a chain of tasks
   ================================================================================================ *)
(* a path that is still stale after the trace was stale initially and is in the footprint of no source of which a pass
   of the trace reported success *)
Lemma in_stale_afterT w0 tr : forall D p,
  In p (stale_afterT w0 D tr) ->
  In p D /\ forall f b g, In (TPp f b, RPp g (Some POk)) tr -> ~ In p (writes_of Build w0 f).
Proof.
  induction tr as [|[t r] tr IH]; intros D p H.
  - split; [exact H|]. intros f b g [].
  - change (In p (stale_afterT w0 (stale_updT w0 D t r) tr)) in H. apply IH in H. destruct H as [H1 H2]. split.
    + eapply stale_updT_sub; eauto.
    + intros f b g [E|Hin]; [|apply (H2 f b g Hin)].
      inversion E; subst t r. cbn [stale_updT] in H1. apply in_drop_paths in H1. apply H1.
Qed.

(* a chain of tasks started in a world w that has the `.txtpp` files of w0: a path outside the footprints (computed in
   w0) of the passes of the chain keeps its node *)
Lemma chain_frame orc cfg base w0 w l w' p :
  exec_chain orc cfg base w l w' -> txtpp_same w0 w -> footprints_plain cfg w0 l ->
  (forall f b r, In (TPp f b, r) l -> ~ In p (writes_of (cfg_mode cfg) w0 f)) ->
  fs_get (w_fs w') p = fs_get (w_fs w) p.
Proof.
  intros HC HS HF Hp.
  destruct (exec_chain_tr_initial orc cfg base w0 w l w' HC HS HF) as [_ (evs & _ & HA & Hfr)].
  apply Hfr. intros e He Hev. rewrite Forall_forall in HA.
  destruct (HA e He p Hev) as (_ & f & b & r & Hin & Hw). exact (Hp f b r Hin Hw).
Qed.

(* ================================================================================================
   PART 3 — R2: a build is a function of the sources only
   ================================================================================================ *)
(* THE GENERAL STATEMENT.  Two initial worlds wa, wb that hold the same nodes everywhere except on a set D of stale paths
   (`stale_rel D wa wb`: arbitrary content, or absent, differently in each world), ANY two schedules and fuels, the
   same configuration and oracle, both Build runs successful.  Then
     - the two runs process the same sources;
     - at EVERY path p the two final trees hold the same node, except possibly when p is a stale path (p ∈ D) that is
       in the footprint (output, temp targets) of NO processed source: such a path is touched by neither run — each
       final tree holds there what its initial tree held.
   Static hypotheses, all on the first initial world wa: `sched_ok_temps wa` (ScheduleTempFacts: pairwise disjoint
   footprints, ...), `static_ok_temps D wa` (no stale path is read before it is rewritten), the base directory and
   the inputs do not resolve through a stale path. *)
Theorem build_function_of_sources_gen orc cfg fa sa fb sb D wa wb :
  cfg_mode cfg = Build ->
  sched_ok_temps wa ->
  static_ok_temps D wa ->
  stale_rel D wa wb ->
  ~ In (lex_normalize (cfg_base cfg)) D ->
  Forall (input_safe D (lex_normalize (cfg_base cfg))) (cfg_inputs cfg) ->
  let xa := txtpp_run orc cfg fa sa wa in
  let xb := txtpp_run orc cfg fb sb wb in
  verdict_of xa = VOk -> verdict_of xb = VOk ->
  (forall f, processed xa f <-> processed xb f) /\
  forall p,
    fs_get (w_fs (world_of xa)) p = fs_get (w_fs (world_of xb)) p \/
    (In p D /\ (forall f, processed xa f -> ~ In p (writes_of Build wa f)) /\
     fs_get (w_fs (world_of xa)) p = fs_get (w_fs wa) p /\
     fs_get (w_fs (world_of xb)) p = fs_get (w_fs wb) p).
Proof.
  intros Hmd HS HSt HR Hb Hin xa xb Va Vb.
  pose proof (sr_raw1 _ _ _ HR) as N.
  set (xm := txtpp_run orc cfg fb sb wa).
  destruct (stale_outputs_and_temps_irrelevant orc cfg fb sb D wa wb Hmd HR Hb Hin HSt) as (Hv & Ht & _ & HRf).
  fold xm xb in Hv, Ht, HRf.
  assert (Vm : verdict_of xm = VOk) by (rewrite Hv; exact Vb).
  pose proof (schedule_independence_temps orc cfg fa fb sa sb wa Hmd N HS Va Vm) as Weq. fold xa xm in Weq.
  pose proof (ok_runs_same_processed orc cfg fa sa fb sb wa Hmd N HS Va Vm) as Hsame. fold xa xm in Hsame.
  destruct (ok_run_summary orc cfg fb sb wa Hmd N HS Vm) as (_ & _ & Hproc & _). fold xm in Hproc.
  assert (Hpb : forall f, processed xm f <-> processed xb f).
  { intros f. unfold processed. rewrite Ht. reflexivity. }
  split; [intros f; rewrite Hsame; apply Hpb|].
  (* footprints of the processed sources are plain *)
  assert (HFP : footprints_plain cfg wa (trace_of xm)).
  { intros f b r Hi q Hq. rewrite Hmd in Hq.
    destruct (Hproc f) as [[out Hsrc] _]; [exists b, r; exact Hi|].
    destruct (HS f out Hsrc) as (_ & _ & Hto & _). apply Hto. exact Hq. }
  assert (Hsame_ab : txtpp_same wa wb).
  { intros q Hq. symmetry. apply (proj1 (sr_agree _ _ _ HR)). apply in_paths_false. intros HqD.
    rewrite (proj1 HSt q HqD) in Hq. discriminate. }
  intros p. destruct (in_paths_dec (stale_afterT wa D (trace_of xm)) p) as [Hst|Hns].
  - right. apply in_stale_afterT in Hst. destruct Hst as [HpD Hnw].
    assert (Hnf : forall f b r, In (TPp f b, r) (trace_of xm) -> ~ In p (writes_of (cfg_mode cfg) wa f)).
    { intros f b r Hi. rewrite Hmd. destruct (Hproc f) as [_ [b' Hb']]; [exists b, r; exact Hi|].
      apply (Hnw f b' f Hb'). }
    assert (Em : fs_get (w_fs (world_of xm)) p = fs_get (w_fs wa) p).
    { apply (chain_frame orc cfg (run_base cfg wa) wa wa (trace_of xm) (world_of xm) p);
        [apply txtpp_run_chain|intros q _; reflexivity|exact HFP|exact Hnf]. }
    split; [exact HpD|]. split; [|split].
    + intros f Hf. apply Hsame in Hf. destruct Hf as (b & r & Hi). rewrite <- Hmd. apply (Hnf f b r Hi).
    + rewrite (Weq p). exact Em.
    + apply (chain_frame orc cfg (run_base cfg wb) wa wb (trace_of xb) (world_of xb) p);
        [apply txtpp_run_chain|exact Hsame_ab|rewrite <- Ht; exact HFP|rewrite <- Ht; exact Hnf].
  - left. rewrite (Weq p). apply (proj1 (sr_agree _ _ _ HRf)). apply in_paths_false. exact Hns.
Qed.

(* R2 with a hypothesis on the trace: every stale path is in the footprint of a source processed by the first run *)
Corollary build_function_of_sources_trace orc cfg fa sa fb sb D wa wb :
  cfg_mode cfg = Build ->
  sched_ok_temps wa ->
  static_ok_temps D wa ->
  stale_rel D wa wb ->
  ~ In (lex_normalize (cfg_base cfg)) D ->
  Forall (input_safe D (lex_normalize (cfg_base cfg))) (cfg_inputs cfg) ->
  let xa := txtpp_run orc cfg fa sa wa in
  let xb := txtpp_run orc cfg fb sb wb in
  verdict_of xa = VOk -> verdict_of xb = VOk ->
  (forall p, In p D -> exists f, processed xa f /\ In p (writes_of Build wa f)) ->
  w_eq (world_of xa) (world_of xb).
Proof.
  intros Hmd HS HSt HR Hb Hin xa xb Va Vb Hcov p.
  destruct (build_function_of_sources_gen orc cfg fa sa fb sb D wa wb Hmd HS HSt HR Hb Hin Va Vb) as [_ H].
  destruct (H p) as [E|(HpD & Hn & _)]; [exact E|].
  exfalso. destruct (Hcov p HpD) as (f & Hf & Hw). exact (Hn f Hf Hw).
Qed.

(* R2, STATIC FORM.  The stale paths are outputs and temp targets of sources that the run reaches (`reached`: inputs,
   scanned `.txtpp` files and their dependencies — a property of the project, not of the run).  Then two successful
   Build runs, from the two worlds, with ANY two schedules and fuels, end in the same tree. *)
Theorem build_function_of_sources orc cfg fa sa fb sb D wa wb :
  cfg_mode cfg = Build ->
  sched_ok_temps wa ->
  static_ok_temps D wa ->
  stale_rel D wa wb ->
  ~ In (lex_normalize (cfg_base cfg)) D ->
  Forall (input_safe D (lex_normalize (cfg_base cfg))) (cfg_inputs cfg) ->
  (forall p, In p D -> exists f, reached cfg wa f /\ In p (writes_of Build wa f)) ->
  let xa := txtpp_run orc cfg fa sa wa in
  let xb := txtpp_run orc cfg fb sb wb in
  verdict_of xa = VOk -> verdict_of xb = VOk ->
  w_eq (world_of xa) (world_of xb).
Proof.
  intros Hmd HS HSt HR Hb Hin Hcov xa xb Va Vb.
  apply (build_function_of_sources_trace orc cfg fa sa fb sb D wa wb Hmd HS HSt HR Hb Hin Va Vb).
  intros p HpD. destruct (Hcov p HpD) as (f & Hf & Hw). exists f. split; [|exact Hw].
  destruct (ok_run_summary orc cfg fa sa wa Hmd (sr_raw1 _ _ _ HR) HS Va) as (_ & Hreach & _).
  apply Hreach. exact Hf.
Qed.

(* ================================================================================================
   PART 4 — R1: a build is idempotent
   ================================================================================================ *)
(* A successful Build run from w ends in w1.  Then, with the same configuration and oracle:
     (a) the Build run from w1 with the SAME schedule and fuel is successful, has the same trace (the same tasks
         complete in the same order with the same results) and leaves the tree unchanged: its final world is `w_eq` w1;
     (b) for ANY other schedule and fuel, the Build run from w1 has the verdict of the Build run from w with that
         schedule and fuel — and whenever it is successful its final world is `w_eq` w1: the tree is unchanged.
   Static hypotheses on the initial world w only: `raw_ok`, `sched_ok_temps`, `static_ok_temps` for the set `foots w`
   of all the paths that a source of the tree may write, and the base directory / inputs do not resolve through one
   of those paths. *)
Theorem build_idempotent orc cfg fuel sched w :
  cfg_mode cfg = Build ->
  raw_ok w ->
  sched_ok_temps w ->
  static_ok_temps (foots w) w ->
  ~ In (lex_normalize (cfg_base cfg)) (foots w) ->
  Forall (input_safe (foots w) (lex_normalize (cfg_base cfg))) (cfg_inputs cfg) ->
  let x1 := txtpp_run orc cfg fuel sched w in
  let w1 := world_of x1 in
  verdict_of x1 = VOk ->
  (let x2 := txtpp_run orc cfg fuel sched w1 in
   verdict_of x2 = VOk /\ trace_of x2 = trace_of x1 /\ w_eq (world_of x2) w1) /\
  (forall fuel' sched',
     let x2 := txtpp_run orc cfg fuel' sched' w1 in
     verdict_of x2 = verdict_of (txtpp_run orc cfg fuel' sched' w) /\
     (verdict_of x2 = VOk -> w_eq (world_of x2) w1)).
Proof.
  intros Hmd N HS HSt Hb Hin x1 w1 V1.
  destruct (ok_run_summary orc cfg fuel sched w Hmd N HS V1) as (_ & _ & _ & HR & _). fold x1 w1 in HR.
  assert (HB : forall fuel' sched',
             let x2 := txtpp_run orc cfg fuel' sched' w1 in
             verdict_of x2 = verdict_of (txtpp_run orc cfg fuel' sched' w) /\
             trace_of x2 = trace_of (txtpp_run orc cfg fuel' sched' w) /\
             (verdict_of x2 = VOk -> w_eq (world_of x2) w1)).
  { intros fuel' sched' x2.
    destruct (stale_outputs_and_temps_irrelevant orc cfg fuel' sched' (foots w) w w1 Hmd HR Hb Hin HSt) as (Hv & Ht & _).
    fold x2 in Hv, Ht. split; [symmetry; exact Hv|]. split; [symmetry; exact Ht|].
    intros V2 p.
    destruct (build_function_of_sources_gen orc cfg fuel sched fuel' sched' (foots w) w w1 Hmd HS HSt HR Hb Hin V1 V2)
      as [_ H].
    fold x1 x2 in H. destruct (H p) as [E|(_ & _ & _ & E)]; [symmetry; exact E|exact E]. }
  split.
  - destruct (HB fuel sched) as (Hv & Ht & Hw). cbv zeta in *. fold x1 in Hv, Ht.
    assert (V2 : verdict_of (txtpp_run orc cfg fuel sched w1) = VOk) by (rewrite Hv; exact V1).
    split; [exact V2|]. split; [exact Ht|apply Hw; exact V2].
  - intros fuel' sched'. destruct (HB fuel' sched') as (Hv & _ & Hw). cbv zeta in *. split; assumption.
Qed.

(* ================================================================================================
   PART 5 — non-vacuity of R1 and R2 (the tree of ScheduleTempFacts PART 6)
       d/a.txtpp = "// TXTPP#temp t\n// hello\nTXTPP#include t\nx\n"     (writes the temp file d/t, then includes it)
       d/b.txtpp = "TXTPP#include a\nz\n"                                  (includes the output of a.txtpp: two passes)
   built with `txtpp -r d` (t_cfg).
   ================================================================================================ *)
(* the footprints of the tree: d/a (twice: normalised output and output), d/t, d/b (twice) *)
Example t_foots : foots t_w = [t_aout; t_aout; t_t; t_bout; t_bout].
Proof. vm_compute. reflexivity. Qed.

Lemma t_static_foots : static_ok_temps (foots t_w) t_w.
Proof.
  rewrite t_foots. split.
  - intros p Hp. repeat (destruct Hp as [<-|Hp]; [vm_compute; reflexivity|]). destruct Hp.
  - intros f out raw Ho Er. destruct (t_sources f raw Er) as [-> | ->]; vm_compute in Ho; inversion Ho; subst out.
    + split; [repeat constructor|]. split; [|split; [|split]].
      * intros q Hq. vm_compute in Hq. destruct Hq as [<-|[<-|[<-|[]]]]; vm_compute; reflexivity.
      * intros c Hc. vm_compute in Hc. destruct Hc as [<-|[]]. vm_compute. reflexivity.
      * solve_ro.
      * solve_ro.
    + split; [repeat constructor|]. split; [|split; [|split]].
      * intros q Hq. vm_compute in Hq. destruct Hq as [<-|[<-|[]]]; vm_compute; reflexivity.
      * intros c Hc. vm_compute in Hc. destruct Hc as [<-|[]]. vm_compute. reflexivity.
      * solve_ro.
      * solve_ro.
Qed.

Lemma t_base_safe : ~ In (lex_normalize (cfg_base t_cfg)) (foots t_w) /\
  Forall (input_safe (foots t_w) (lex_normalize (cfg_base t_cfg))) (cfg_inputs t_cfg).
Proof.
  rewrite t_foots. split.
  - vm_compute. intuition discriminate.
  - constructor; [|constructor]. split; [vm_compute; intuition discriminate|].
    intros c Hc. vm_compute in Hc. destruct Hc as [<-|[]]. vm_compute. intuition discriminate.
Qed.

(* R1: build (a.txtpp first), then build again — with the same schedule, and with a schedule that looks at b.txtpp first *)
Example build_idempotent_nonvacuous :
  let x1 := txtpp_run cx_orc t_cfg 9 [] t_w in
  let w1 := world_of x1 in
  verdict_of x1 = VOk /\
  (* the first build has created d/t, d/a and d/b *)
  fs_get (w_fs t_w) t_bout = None /\
  fs_get (w_fs w1) t_bout = Some (File (t_hello ++ [120; 122])) /\
  fs_get (w_fs w1) t_aout = Some (File (t_hello ++ [120])) /\
  fs_get (w_fs w1) t_t = Some (File t_hello) /\
  (let x2 := txtpp_run cx_orc t_cfg 9 [] w1 in
   verdict_of x2 = VOk /\ trace_of x2 = trace_of x1 /\ w_eq (world_of x2) w1) /\
  (let x2 := txtpp_run cx_orc t_cfg 9 [0; 1; 0; 0]%nat w1 in
   verdict_of x2 = VOk /\ map fst (trace_of x2) <> map fst (trace_of x1) /\
   w_log (world_of x2) <> w_log w1 /\ w_eq (world_of x2) w1).
Proof.
  cbv zeta.
  assert (E1 : verdict_of (txtpp_run cx_orc t_cfg 9 [] t_w) = VOk) by (vm_compute; reflexivity).
  destruct (build_idempotent cx_orc t_cfg 9 [] t_w eq_refl t_raw_ok t_sched_ok t_static_foots
              (proj1 t_base_safe) (proj2 t_base_safe) E1) as [HA HB].
  split; [exact E1|]. split; [vm_compute; reflexivity|]. split; [vm_compute; reflexivity|].
  split; [vm_compute; reflexivity|]. split; [vm_compute; reflexivity|]. split; [exact HA|].
  split; [vm_compute; reflexivity|]. split; [vm_compute; discriminate|]. split; [vm_compute; discriminate|].
  destruct (HB 9%nat [0; 1; 0; 0]%nat) as [_ Hw]. apply Hw. vm_compute. reflexivity.
Qed.

(* R2: the clean tree with the schedule "a first" against the tree with a stale temp file d/t and a stale output d/a
   with the schedule "b first" *)
Lemma t_reached : reached t_cfg t_w t_a /\ reached t_cfg t_w t_b.
Proof.
  assert (H : forall base files dirs,
            os_resolve (w_fs t_w) (cfg_base t_cfg) = Some base ->
            resolve_inputs (w_fs t_w) base (cfg_inputs t_cfg) [] [] = Some (files, dirs) ->
            forall S Dd, closed t_cfg t_w files dirs S Dd -> In t_a S /\ In t_b S).
  { intros base files dirs Eb Ei S Dd Hcl. vm_compute in Eb. inversion Eb; subst base.
    vm_compute in Ei. inversion Ei; subst files dirs. destruct Hcl as (_ & Hd & Hscan & _).
    destruct (Hscan [[100]] [t_a; t_b] [] (Hd _ (or_introl eq_refl))) as [Hs _]; [vm_compute; reflexivity|].
    split; apply Hs; [left|right; left]; reflexivity. }
  split; intros base files dirs Eb Ei S Dd Hcl; apply (H base files dirs Eb Ei S Dd Hcl).
Qed.

Example build_function_of_sources_nonvacuous :
  let xa := txtpp_run cx_orc t_cfg 9 [] t_w in
  let xb := txtpp_run cx_orc t_cfg 9 [0; 1; 0; 0]%nat t_w2 in
  fs_get (w_fs t_w) t_t = None /\ fs_get (w_fs t_w2) t_t = Some (File t_stale) /\
  fs_get (w_fs t_w) t_aout = None /\ fs_get (w_fs t_w2) t_aout = Some (File t_old) /\
  verdict_of xa = VOk /\ verdict_of xb = VOk /\ map fst (trace_of xa) <> map fst (trace_of xb) /\
  fs_get (w_fs (world_of xb)) t_t = Some (File t_hello) /\
  w_eq (world_of xa) (world_of xb).
Proof.
  cbv zeta.
  assert (Hb : ~ In (lex_normalize (cfg_base t_cfg)) [t_t; t_aout]) by (vm_compute; intuition discriminate).
  assert (Hi : Forall (input_safe [t_t; t_aout] (lex_normalize (cfg_base t_cfg))) (cfg_inputs t_cfg)).
  { constructor; [|constructor]. split; [vm_compute; intuition discriminate|].
    intros c Hc. vm_compute in Hc. destruct Hc as [<-|[]]. vm_compute. intuition discriminate. }
  assert (Ea : verdict_of (txtpp_run cx_orc t_cfg 9 [] t_w) = VOk) by (vm_compute; reflexivity).
  assert (Eb : verdict_of (txtpp_run cx_orc t_cfg 9 [0; 1; 0; 0]%nat t_w2) = VOk) by (vm_compute; reflexivity).
  repeat (split; [vm_compute; try reflexivity; discriminate|]).
  apply (build_function_of_sources cx_orc t_cfg 9 [] 9 [0; 1; 0; 0]%nat [t_t; t_aout] t_w t_w2 eq_refl t_sched_ok t_static
           t_rel Hb Hi); [|exact Ea|exact Eb].
  intros p Hp. exists t_a. split; [apply t_reached|].
  destruct Hp as [<-|[<-|[]]]; vm_compute; auto.
Qed.

(* The coverage hypothesis of R2 cannot be dropped (NOT a defect of txtpp: an existing file that no processed source
   generates is simply left alone).  `txtpp d/a.txtpp` (u_cfg: one input file, no scan) on the clean tree and on the
   tree with a stale d/b = "old" (the output of d/b.txtpp, which is not reached: a.txtpp does not depend on it): every
   other hypothesis of `build_function_of_sources` holds with D = [d/b], both runs succeed, and the final trees
   differ at d/b (absent / "old") — exactly the exception described by `build_function_of_sources_gen`. *)
Definition u_cfg : config := mkCfg [] [[100; 47; 97; 46; 116; 120; 116; 112; 112]] false 1 Build false.
Definition u_w2 : world := mkW (fs_put t_fs t_bout (File t_old)) [].

Example uncovered_stale_path_survives :
  let D := [t_bout] in
  let xa := txtpp_run cx_orc u_cfg 9 [] t_w in
  let xb := txtpp_run cx_orc u_cfg 9 [] u_w2 in
  sched_ok_temps t_w /\ static_ok_temps D t_w /\ stale_rel D t_w u_w2 /\
  ~ In (lex_normalize (cfg_base u_cfg)) D /\
  Forall (input_safe D (lex_normalize (cfg_base u_cfg))) (cfg_inputs u_cfg) /\
  verdict_of xa = VOk /\ verdict_of xb = VOk /\
  processed xa t_a /\ ~ processed xa t_b /\ ~ reached u_cfg t_w t_b /\
  fs_get (w_fs (world_of xa)) t_bout = None /\
  fs_get (w_fs (world_of xb)) t_bout = Some (File t_old) /\
  ~ w_eq (world_of xa) (world_of xb).
Proof.
  cbv zeta.
  assert (Ea : verdict_of (txtpp_run cx_orc u_cfg 9 [] t_w) = VOk) by (vm_compute; reflexivity).
  assert (Hnp : ~ processed (txtpp_run cx_orc u_cfg 9 [] t_w) t_b).
  { intros (b & r & Hin). vm_compute in Hin. destruct Hin as [Hin|[]]. inversion Hin. }
  split; [exact t_sched_ok|]. split; [|split; [|split; [|split]]].
  - split.
    + intros p [<-|[]]. vm_compute. reflexivity.
    + intros f out raw Ho Er. destruct (t_sources f raw Er) as [-> | ->]; vm_compute in Ho; inversion Ho; subst out.
      * split; [repeat constructor|]. split; [|split; [|split]].
        -- intros q Hq. vm_compute in Hq. destruct Hq as [<-|[<-|[<-|[]]]]; vm_compute; reflexivity.
        -- intros c Hc. vm_compute in Hc. destruct Hc as [<-|[]]. vm_compute. reflexivity.
        -- solve_ro.
        -- solve_ro.
      * split; [repeat constructor|]. split; [|split; [|split]].
        -- intros q Hq. vm_compute in Hq. destruct Hq as [<-|[<-|[]]]; vm_compute; reflexivity.
        -- intros c Hc. vm_compute in Hc. destruct Hc as [<-|[]]. vm_compute. reflexivity.
        -- solve_ro.
        -- solve_ro.
  - apply (stale_rel_put t_fs [] [] t_bout (Some t_old)); [exact t_raw_ok|vm_compute; reflexivity|vm_compute; reflexivity].
  - vm_compute. intuition discriminate.
  - constructor; [|constructor]. split; [vm_compute; intuition discriminate|].
    intros c Hc. vm_compute in Hc. repeat (destruct Hc as [<-|Hc]; [vm_compute; intuition discriminate|]). destruct Hc.
  - split; [exact Ea|]. split; [vm_compute; reflexivity|].
    split; [exists true, (RPp t_a (Some POk)); vm_compute; left; reflexivity|]. split; [exact Hnp|]. split.
    + intros Hr. apply Hnp.
      destruct (ok_run_summary cx_orc u_cfg 9 [] t_w eq_refl t_raw_ok t_sched_ok Ea) as (_ & H & _). apply H. exact Hr.
    + split; [vm_compute; reflexivity|]. split; [vm_compute; reflexivity|].
      intros H. specialize (H t_bout). vm_compute in H. discriminate.
Qed.

(* ================================================================================================
   PART 6 — R3: what is visible during a second build
   ================================================================================================ *)
(* PART 0 again, for runs that are successful OR interrupted (out of fuel) *)
Section RunInvTrAny.
Variable orc : oracle.
Variable cfg : config.
Variable base : path.
Variables files dirs : list path.
Variable J : gstate -> world -> list (task * result) -> Prop.
Hypothesis J_step : forall g w tr t rest r w' s2,
  greach files dirs g -> J g w tr -> Permutation (inflight (gs g)) (t :: rest) ->
  exec_task orc cfg base t w = Some (r, w') -> handle (with_inflight (gs g) rest) r = Continue s2 ->
  J (mkG s2 (report t r (reported g)) (history g ++ [t])) w' (tr ++ [(t, r)]).

Lemma run_loop_inv_tr_any fuel : forall sched g w tr,
  greach files dirs g -> J g w tr ->
  let x := run_loop orc cfg base fuel sched (gs g) w tr in
  verdict_of x = VOk \/ verdict_of x = VFuel ->
  exists g', greach files dirs g' /\ gs g' = state_of x /\ J g' (world_of x) (trace_of x).
Proof.
  induction fuel as [|fuel IH]; intros sched g w tr R HJ x Hv; subst x.
  - destruct (sort_tasks (inflight (gs g))) as [|t0 sl'] eqn:E.
    + rewrite (run_loop_exit _ _ _ _ _ _ _ _ E) in *. cbn. exists g. auto.
    + rewrite (run_loop_nofuel _ _ _ _ _ _ _ _ _ E) in *. cbn. exists g. auto.
  - destruct (sort_tasks (inflight (gs g))) as [|t0 sl'] eqn:E.
    + rewrite (run_loop_exit _ _ _ _ _ _ _ _ E) in *. cbn. exists g. auto.
    + rewrite (run_loop_step _ _ _ _ _ _ _ _ _ _ E) in *. cbv zeta in *.
      set (sl := t0 :: sl') in *. set (k := pick sched sl) in *. set (t := nth k sl t0) in *.
      set (rest := remove_nth k sl) in *.
      assert (HP : Permutation (inflight (gs g)) (t :: rest)).
      { eapply perm_trans; [apply sort_tasks_perm|]. rewrite E. apply pick_split. apply pick_lt. }
      destruct (exec_task orc cfg base t w) as [[r w']|] eqn:Hex; [|cbn in Hv; destruct Hv; discriminate].
      pose proof (exec_task_answers orc cfg base _ _ _ _ Hex) as Hans.
      destruct (handle (with_inflight (gs g) rest) r) as [s2| |] eqn:Hh.
      * set (g2 := mkG s2 (report t r (reported g)) (history g ++ [t])).
        assert (R2 : greach files dirs g2).
        { eapply greach_step; [exact R|]. apply (gstep_continue g t rest r s2); assumption. }
        assert (HJ2 : J g2 w' (tr ++ [(t, r)])) by (apply (J_step g w tr t rest r w' s2); assumption).
        apply (IH (tl sched) g2 w' (tr ++ [(t, r)]) R2 HJ2). exact Hv.
      * destruct (drain orc cfg base _ _ _ _ _) as [[w'' tr2]|]; cbn in Hv; destruct Hv; discriminate.
      * cbn in Hv. destruct Hv; discriminate.
Qed.
End RunInvTrAny.

Lemma txtpp_run_live_unfold orc cfg fuel sched w :
  verdict_of (txtpp_run orc cfg fuel sched w) = VOk \/ verdict_of (txtpp_run orc cfg fuel sched w) = VFuel ->
  exists base files dirs,
    os_resolve (w_fs w) (cfg_base cfg) = Some base /\
    resolve_inputs (w_fs w) base (cfg_inputs cfg) [] [] = Some (files, dirs) /\
    txtpp_run orc cfg fuel sched w = run_loop orc cfg base fuel sched (gs (ginit files dirs)) w [].
Proof.
  unfold txtpp_run. destruct (cfg_threads cfg =? 0); [intros [H|H]; discriminate|].
  destruct (os_resolve (w_fs w) (cfg_base cfg)) as [base|] eqn:Eb; [|intros [H|H]; discriminate].
  destruct (resolve_inputs (w_fs w) base (cfg_inputs cfg) [] []) as [[files dirs]|] eqn:Ei; [|intros [H|H]; discriminate].
  intros _. exists base, files, dirs. split; [reflexivity|]. split; [exact Ei|reflexivity].
Qed.

Section Interrupted.
Variable orc : oracle.
Variable cfg : config.
Variable base : path.
Hypothesis Hmd : cfg_mode cfg = Build.
Variable w0 : world.
Hypothesis HS : sched_ok_temps w0.
Hypothesis N : raw_ok w0.
Variables files dirs : list path.
(* a successful reference run A *)
Variable fuelA : nat.
Variable schedA : list nat.
Let xA := run_loop orc cfg base fuelA schedA (gs (ginit files dirs)) w0 [].
Hypothesis VA : verdict_of xA = VOk.
Let SA := seen (state_of xA).
Let DA := seen_dirs (state_of xA).
Let WA := world_of xA.

Definition JK (g : gstate) (w : world) (tr : list (task * result)) : Prop :=
  JQT w0 (QBT w0 SA WA) g w /\ JLT w0 SA DA g w /\ history g = map fst tr /\
  (forall f, finished g f -> exists b, In (TPp f b, RPp f (Some POk)) tr) /\
  (forall f b, In (TPp f b) (history g) -> exists out, is_source w0 f out).

Lemma A_closed : closed cfg w0 files dirs SA DA.
Proof. apply (run_closedT orc cfg base Hmd w0 HS files dirs fuelA schedA N VA). Qed.

Lemma JK_step g w tr t rest r w' s2 :
  greach files dirs g -> JK g w tr -> Permutation (inflight (gs g)) (t :: rest) ->
  exec_task orc cfg base t w = Some (r, w') -> handle (with_inflight (gs g) rest) r = Continue s2 ->
  JK (mkG s2 (report t r (reported g)) (history g ++ [t])) w' (tr ++ [(t, r)]).
Proof.
  intros R (HQ & HL & Hh & Hf & Hsrc) HP Hex Hhd.
  (* the facts about run A that QBT_intro needs *)
  destruct (run_loop_inv_g orc cfg base files dirs (JQT w0 (FPT orc cfg base w0))
              (JQT_step orc cfg base Hmd w0 HS files dirs (FPT orc cfg base w0)
                 (FPT_stable orc cfg base w0 HS files dirs) (FPT_intro orc cfg base w0 HS files dirs))
              fuelA schedA (ginit files dirs) w0 [] (greach_init files dirs)
              (JQT_init w0 files dirs (FPT orc cfg base w0)) VA)
    as (gA & RA & EsA & _ & HfinA & [HBA HQA]).
  fold xA in EsA, HBA, HQA. fold WA in HBA, HQA.
  pose proof HBA as (AA & B2A & _).
  assert (HsA : forall f, In f SA -> finished gA f).
  { intros f Hf'. apply HfinA. unfold is_seen. apply pmem_In. rewrite EsA. exact Hf'. }
  assert (HA_FP : forall f out, In f SA -> is_source w0 f out -> FPT orc cfg base w0 f out WA).
  { intros f out Hf' Hs. apply HQA; [apply HsA; exact Hf'|exact Hs]. }
  assert (HA_closed : forall f q, In f SA -> In q (sdeps w0 f) -> In q SA).
  { intros f q Hf' Hq. destruct A_closed as (_ & _ & _ & Hd). apply (Hd f Hf' q Hq). }
  split; [|split; [|split; [|split]]].
  - apply (JQT_step orc cfg base Hmd w0 HS files dirs (QBT w0 SA WA)
             (QBT_stable orc cfg base w0 HS files dirs SA WA)
             (QBT_intro orc cfg base w0 HS files dirs SA WA AA B2A HA_FP HA_closed) g w t rest r w' s2); assumption.
  - apply (JLT_step orc cfg base Hmd w0 HS files dirs SA DA A_closed g w t rest r w' s2); assumption.
  - cbn [history]. rewrite map_app, Hh. reflexivity.
  - intros f Hfin. unfold finished in Hfin. cbn [gs] in Hfin. apply pmem_In in Hfin.
    destruct (inv_reach _ _ _ R) as [HPi _].
    destruct (handle_fin (with_inflight (gs g) rest) r s2 f (i_dm HPi) Hhd Hfin) as [Hold|Hnew].
    + destruct (Hf f) as [b Hb]; [unfold finished; apply pmem_In; exact Hold|].
      exists b. apply in_or_app. left. exact Hb.
    + subst r. pose proof (exec_task_answers orc cfg base _ _ _ _ Hex) as Hans.
      destruct t as [d|f0 b0]; [destruct Hans|]. destruct Hans as [-> _].
      exists b0. apply in_or_app. right. left. reflexivity.
  - cbn [history]. intros f b Hin. apply in_app_or in Hin. destruct Hin as [Hin|[Hin|[]]]; [apply (Hsrc f b Hin)|].
    subst t. pose proof (handle_continue_not_err _ _ _ Hhd) as Hne.
    pose proof (proj1 (proj1 HQ)) as A.
    rewrite exec_task_pp in Hex. rewrite Hmd in Hex. cbv zeta in Hex.
    destruct (read_file (w_fs w) f) as [raw|] eqn:Er.
    2:{ rewrite (pp_run_unreadable _ _ _ _ _ _ w Er) in Hex. cbn in Hex. inversion Hex; subst r. exfalso. apply Hne. exact I. }
    destruct (remove_txtpp f) as [out|] eqn:Ho.
    2:{ rewrite (pp_run_no_out _ _ _ _ _ _ w Ho) in Hex. cbn in Hex. inversion Hex; subst r. exfalso. apply Hne. exact I. }
    exists out. apply (source_in_world w0 w f out raw A Ho Er).
Qed.

Lemma JK_init : JK (ginit files dirs) w0 [].
Proof.
  assert (Hnf : forall f, ~ finished (ginit files dirs) f).
  { intros f Hf. unfold finished, ginit in Hf. cbn [gs] in Hf. rewrite dm_fold_dir, dm_fold_file in Hf. discriminate. }
  split; [apply JQT_init|]. split; [|split; [reflexivity|split]].
  - split; [apply JQT_init|]. split; [split; [exact N|reflexivity]|]. destruct A_closed as (Hf & Hd & _).
    unfold ginit. cbn [gs]. split.
    + intros f Hin. rewrite seen_fold_dir_eq in Hin. apply seen_fold_file_inv in Hin.
      destruct Hin as [[]|[_ Hin]]. apply Hf. exact Hin.
    + intros d Hin. apply seen_dirs_fold_dir_inv in Hin. rewrite seen_dirs_fold_file in Hin.
      destruct Hin as [[]|Hin]. apply Hd. exact Hin.
  - intros f Hf. destruct (Hnf f Hf).
  - intros f b [].
Qed.

(* a successful or interrupted run with ANY schedule, against the reference run A: every source of the trace is a
   source of the initial tree; a finished source has a pass of the trace that reported success and its whole
   footprint already holds what the final tree of A holds *)
Lemma interrupted_loop_summary fuel sched :
  let x := run_loop orc cfg base fuel sched (gs (ginit files dirs)) w0 [] in
  verdict_of x = VOk \/ verdict_of x = VFuel ->
  (forall f, processed x f -> exists out, is_source w0 f out) /\
  (forall f, In f (fin (dm (state_of x))) ->
     (exists b, In (TPp f b, RPp f (Some POk)) (trace_of x)) /\
     forall p, In p (fp w0 f) -> fs_get (w_fs (world_of x)) p = fs_get (w_fs WA) p).
Proof.
  intros x Hv.
  destruct (run_loop_inv_tr_any orc cfg base files dirs JK JK_step fuel sched (ginit files dirs) w0 []
              (greach_init files dirs) JK_init Hv) as (g & R & Es & ([HB HQ] & HL & Hh & Hok & Hsrc)).
  fold x in Es, HB, HQ, HL, Hh, Hok. split.
  - intros f (b & r & Hin). apply (Hsrc f b). rewrite Hh. apply (in_map fst _ (TPp f b, r)). exact Hin.
  - intros f Hf. rewrite <- Es in Hf.
    assert (Hff : finished g f) by (unfold finished; apply pmem_In; exact Hf).
    split; [apply (Hok f Hff)|].
    destruct HB as (_ & _ & _ & _ & _ & G3). destruct (G3 f Hff) as [out Hs].
    apply (HQ f out Hff Hs). destruct HL as (_ & _ & Hincl & _). apply Hincl.
    destruct (inv_reach _ _ _ R) as [HPi _]. apply (i_fin_seen HPi). exact Hf.
Qed.
End Interrupted.

(* A successful or INTERRUPTED Build run x (any schedule; interrupted = out of fuel after `fuel` completed tasks, see
   RunEventsFacts.interrupted_run_resumes) compared with a successful Build run xA from the same world (any other
   schedule): every source processed so far is a readable source of the initial tree, and for every source that the
   coordinator has recorded as finished some pass of the trace reported success and its WHOLE footprint (output and
   temp targets) already holds what the final tree of xA holds. *)
Theorem interrupted_build_summary orc cfg fuelA schedA fuel sched w :
  cfg_mode cfg = Build -> raw_ok w -> sched_ok_temps w ->
  let xA := txtpp_run orc cfg fuelA schedA w in
  let x := txtpp_run orc cfg fuel sched w in
  verdict_of xA = VOk ->
  verdict_of x = VOk \/ verdict_of x = VFuel ->
  (forall f, processed x f -> exists out, is_source w f out) /\
  (forall f, In f (fin (dm (state_of x))) ->
     (exists b, In (TPp f b, RPp f (Some POk)) (trace_of x)) /\
     forall p, In p (fp w f) -> fs_get (w_fs (world_of x)) p = fs_get (w_fs (world_of xA)) p).
Proof.
  intros Hmd N HS xA x VA Vx. subst xA x.
  destruct (txtpp_run_ok_unfold orc cfg fuelA schedA w VA) as (base & files & dirs & Eb & Ei & EA).
  destruct (txtpp_run_live_unfold orc cfg fuel sched w Vx) as (base' & files' & dirs' & Eb' & Ei' & Ex).
  rewrite Eb in Eb'. inversion Eb'; subst base'. rewrite Ei in Ei'. inversion Ei'; subst files' dirs'.
  rewrite EA, Ex in *.
  apply (interrupted_loop_summary orc cfg base Hmd w HS N files dirs fuelA schedA VA fuel sched Vx).
Qed.

Definition processedb (tr : list (task * result)) (f : path) : bool :=
  existsb (fun x => match fst x with TPp f' _ => path_eqb f' f | TScan _ => false end) tr.
Lemma processedb_true tr f : processedb tr f = true <-> exists b r, In (TPp f b, r) tr.
Proof.
  unfold processedb. rewrite existsb_exists. split.
  - intros ([t r] & Hin & H). cbn [fst] in H. destruct t as [d|f' b]; [discriminate|].
    apply SinkFacts.path_eqb_eq in H. subst f'. exists b, r. exact Hin.
  - intros (b & r & Hin). exists (TPp f b, r). split; [exact Hin|]. cbn [fst]. apply SinkFacts.path_eqb_eq. reflexivity.
Qed.

(* R3.  In the situation of R1 (a successful Build run from w ends in w1), take a second Build run from w1 with ANY
   schedule and stop it after ANY number k of completed tasks (fuel k: verdict VFuel; or let it finish: VOk).  In the
   tree that is visible at that moment EVERY path holds exactly the node it holds in w1 — the bytes already there —
   with one exception: the footprint (output, temp targets) of a source that has been given a pass and is not yet
   finished (its first pass has truncated and rewritten the output and reported dependencies; its final pass has
   not completed).  In particular the output of a source without dependencies never shows different content between
   two tasks, and once a source is finished its output and temp files hold their final = initial bytes again. *)
Theorem rebuild_interrupted orc cfg fuel sched w :
  cfg_mode cfg = Build ->
  raw_ok w ->
  sched_ok_temps w ->
  static_ok_temps (foots w) w ->
  ~ In (lex_normalize (cfg_base cfg)) (foots w) ->
  Forall (input_safe (foots w) (lex_normalize (cfg_base cfg))) (cfg_inputs cfg) ->
  let x1 := txtpp_run orc cfg fuel sched w in
  let w1 := world_of x1 in
  verdict_of x1 = VOk ->
  forall k sched',
    let xk := txtpp_run orc cfg k sched' w1 in
    verdict_of xk = VOk \/ verdict_of xk = VFuel ->
    forall p,
      fs_get (w_fs (world_of xk)) p = fs_get (w_fs w1) p \/
      exists f, In p (fp w f) /\ processed xk f /\ ~ In f (fin (dm (state_of xk))).
Proof.
  intros Hmd N HS HSt Hb Hin x1 w1 V1 k sched' xk Vk p.
  destruct (ok_run_summary orc cfg fuel sched w Hmd N HS V1) as (_ & _ & _ & HR & HA & _). fold x1 w1 in HR, HA.
  set (xk0 := txtpp_run orc cfg k sched' w).
  destruct (stale_outputs_and_temps_irrelevant orc cfg k sched' (foots w) w w1 Hmd HR Hb Hin HSt) as (Hv & Ht & Hs & HRf).
  fold xk0 xk in Hv, Ht, Hs, HRf.
  assert (Vk0 : verdict_of xk0 = VOk \/ verdict_of xk0 = VFuel) by (rewrite Hv; exact Vk).
  destruct (interrupted_build_summary orc cfg fuel sched k sched' w Hmd N HS V1 Vk0) as [I2 I1].
  fold x1 xk0 in I1, I2. fold w1 in I1.
  assert (HFP : footprints_plain cfg w (trace_of xk)).
  { intros f b r Hi q Hq. rewrite Hmd in Hq. rewrite <- Ht in Hi.
    destruct (I2 f) as [out Hsrc]; [exists b, r; exact Hi|].
    destruct (HS f out Hsrc) as (_ & _ & Hto & _). apply Hto. exact Hq. }
  assert (Hsame : txtpp_same w w1).
  { intros q Hq. symmetry. apply (proj1 HA). apply nt_false. exact Hq. }
  assert (Hframe : (forall f b r, In (TPp f b, r) (trace_of xk) -> ~ In p (writes_of Build w f)) ->
                   fs_get (w_fs (world_of xk)) p = fs_get (w_fs w1) p).
  { intros Hn. apply (chain_frame orc cfg (run_base cfg w1) w w1 (trace_of xk) (world_of xk) p);
      [apply txtpp_run_chain|exact Hsame|exact HFP|rewrite Hmd; exact Hn]. }
  destruct (in_paths (foots w) p) eqn:Efo.
  - apply in_paths_true in Efo. destruct (in_foots w p Efo) as (f & out & Hsrc & Hp).
    destruct (processedb (trace_of xk) f) eqn:Epr.
    + apply processedb_true in Epr.
      destruct (pmem f (fin (dm (state_of xk)))) eqn:Efin.
      * left. apply pmem_In in Efin. rewrite <- Hs in Efin. destruct (I1 f Efin) as [[b Hpok] Hw].
        rewrite <- (Hw p Hp). symmetry. apply (proj1 (sr_agree _ _ _ HRf)). apply in_paths_false. intros Hst.
        apply in_stale_afterT in Hst. destruct Hst as [_ Hn]. exact (Hn f b f Hpok Hp).
      * right. exists f. split; [exact Hp|]. split; [exact Epr|]. apply pmem_nIn. exact Efin.
    + left. apply Hframe. intros f' b r Hi Hw.
      destruct (I2 f') as [out' Hsrc']; [exists b, r; rewrite Ht; exact Hi|].
      destruct (path_dec f' f) as [->|Hne].
      * assert (Ht' : processedb (trace_of xk) f = true) by (apply processedb_true; exists b, r; exact Hi).
        rewrite Ht' in Epr. discriminate.
      * destruct (HS f out Hsrc) as (_ & _ & _ & _ & _ & Hx). destruct (Hx f' out' Hsrc' Hne) as (Hd & _).
        exact (Hd p Hw Hp).
  - left. apply in_paths_false in Efo. apply Hframe. intros f b r Hi Hw.
    destruct (I2 f) as [out Hsrc]; [exists b, r; rewrite Ht; exact Hi|].
    apply Efo. apply (foots_in w f out p Hsrc Hw).
Qed.

(* ---- what the second build logs ---- *)
(* a Build pass never removes anything *)
Lemma build_pass_no_remove orc base f b tn w :
  tr (fun e => forall p, e <> ERemove p) w (out_world (pp_run orc Build base f b tn w) w).
Proof.
  pose proof (pp_run_tr orc Build base f b tn w (fun e => forall p, e <> ERemove p)) as X.
  assert (H : match outcome_world (pp_run orc Build base f b tn w) with
              | Some w' => tr (fun e => forall p, e <> ERemove p) w w' | None => True end).
  { apply X.
    - intros out e _ He p ->. cbn [out_ev] in He. destruct He as [(rp & n & _ & _ & He)|He]; discriminate.
    - intros raw d fol e _ _ He p ->. cbn [dir_ev] in He. destruct He as [He _]. discriminate. }
  destruct (pp_run orc Build base f b tn w); cbn [outcome_world out_world] in *; try exact H. apply tr_refl.
Qed.

Lemma build_chain_no_remove orc cfg base w l w' :
  cfg_mode cfg = Build -> exec_chain orc cfg base w l w' -> tr (fun e => forall p, e <> ERemove p) w w'.
Proof.
  intros Hmd HC.
  assert (HP : forall t w2 r w2', exec_task orc cfg base t w2 = Some (r, w2') ->
                 tr (fun e => forall p, e <> ERemove p) w2 w2').
  { intros t w2 r w2' Hex. pose proof (exec_task_world orc cfg base _ _ _ _ Hex) as Ew. subst w2'.
    destruct t as [d|f b]; [apply tr_refl|]. rewrite Hmd. apply build_pass_no_remove. }
  eapply tr_mono; [|apply (exec_chain_tr_gen orc cfg base (fun _ _ e => forall p, e <> ERemove p) HP w l w' HC)].
  intros e (_ & _ & _ & _ & He). exact He.
Qed.

(* R3, the log.  In the situation of R1, a second successful Build run (any schedule) from w1 logs only `ERun` events
   (the commands are run again) and `EWrite` events; every `EWrite p` is on the output or a temp target of a
   processed source of the tree, and at the end p holds exactly the node it held in w1; nothing is removed. *)
Theorem rebuild_events orc cfg fuel sched w :
  cfg_mode cfg = Build ->
  raw_ok w ->
  sched_ok_temps w ->
  static_ok_temps (foots w) w ->
  ~ In (lex_normalize (cfg_base cfg)) (foots w) ->
  Forall (input_safe (foots w) (lex_normalize (cfg_base cfg))) (cfg_inputs cfg) ->
  let x1 := txtpp_run orc cfg fuel sched w in
  let w1 := world_of x1 in
  verdict_of x1 = VOk ->
  forall fuel' sched',
    let x2 := txtpp_run orc cfg fuel' sched' w1 in
    verdict_of x2 = VOk ->
    exists evs, w_log (world_of x2) = w_log w1 ++ evs /\
      Forall (fun e => match e with
                       | EWrite p => exists f out, processed x2 f /\ is_source w f out /\ In p (fp w f) /\
                                                  fs_get (w_fs (world_of x2)) p = fs_get (w_fs w1) p
                       | ERemove _ => False
                       | ERun _ _ _ => True
                       end) evs.
Proof.
  intros Hmd N HS HSt Hb Hin x1 w1 V1 fuel' sched' x2 V2.
  destruct (ok_run_summary orc cfg fuel sched w Hmd N HS V1) as (_ & _ & _ & HR & HA & _). fold x1 w1 in HR, HA.
  destruct (build_idempotent orc cfg fuel sched w Hmd N HS HSt Hb Hin V1) as [_ HB]. fold x1 w1 in HB.
  destruct (HB fuel' sched') as [Hv Hw]. fold x2 in Hv, Hw. specialize (Hw V2).
  set (x0 := txtpp_run orc cfg fuel' sched' w) in *.
  destruct (stale_outputs_and_temps_irrelevant orc cfg fuel' sched' (foots w) w w1 Hmd HR Hb Hin HSt) as (_ & Ht & _).
  fold x0 x2 in Ht.
  assert (V0 : verdict_of x0 = VOk) by (rewrite <- Hv; exact V2).
  destruct (ok_run_summary orc cfg fuel' sched' w Hmd N HS V0) as (_ & _ & Hproc & _). fold x0 in Hproc.
  assert (Hsrc : forall f b r, In (TPp f b, r) (trace_of x2) -> exists out, is_source w f out).
  { intros f b r Hi. rewrite <- Ht in Hi. destruct (Hproc f) as [Hs _]; [exists b, r; exact Hi|exact Hs]. }
  assert (HFP : footprints_plain cfg w (trace_of x2)).
  { intros f b r Hi q Hq. rewrite Hmd in Hq. destruct (Hsrc f b r Hi) as [out Hs].
    destruct (HS f out Hs) as (_ & _ & Hto & _). apply Hto. exact Hq. }
  assert (Hsame : txtpp_same w w1).
  { intros q Hq. symmetry. apply (proj1 HA). apply nt_false. exact Hq. }
  pose proof (txtpp_run_chain orc cfg fuel' sched' w1) as HC. cbv zeta in HC. fold x2 in HC.
  destruct (exec_chain_tr_initial orc cfg _ w w1 _ _ HC Hsame HFP) as [_ T1].
  pose proof (build_chain_no_remove orc cfg _ w1 _ _ Hmd HC) as T2.
  destruct (tr_and _ _ _ _ T1 T2) as (evs & HL & HAll & _).
  exists evs. split; [exact HL|]. eapply Forall_impl; [|exact HAll].
  intros e [He1 He2]. destruct e as [p|p|c d s]; [|exact (He2 p eq_refl)|exact I].
  destruct (He1 p eq_refl) as (_ & f & b & r & Hi & Hp). rewrite Hmd in Hp.
  destruct (Hsrc f b r Hi) as [out Hs]. exists f, out.
  split; [exists b, r; exact Hi|]. split; [exact Hs|]. split; [exact Hp|apply Hw].
Qed.

(* R3: the second build, with the schedule "b first", stopped after 2 tasks (the scan and the first pass of b.txtpp,
   which reports its dependency on a.txtpp): d/b has been truncated (the exception: b.txtpp has been given a pass and
   is not finished), every other path holds the bytes of w1; stopped after 3 tasks (a.txtpp rebuilt and finished):
   still only d/b differs; d/a and d/t hold the bytes of w1. *)
Example rebuild_interrupted_nonvacuous :
  let w1 := world_of (txtpp_run cx_orc t_cfg 9 [] t_w) in
  let x2 := txtpp_run cx_orc t_cfg 2 [0; 1; 0; 0]%nat w1 in
  let x3 := txtpp_run cx_orc t_cfg 3 [0; 1; 0; 0]%nat w1 in
  verdict_of x2 = VFuel /\ processed x2 t_b /\ fin (dm (state_of x2)) = [] /\
  fs_get (w_fs w1) t_bout = Some (File (t_hello ++ [120; 122])) /\
  fs_get (w_fs (world_of x2)) t_bout = Some (File []) /\
  (forall p, p <> t_bout -> fs_get (w_fs (world_of x2)) p = fs_get (w_fs w1) p) /\
  verdict_of x3 = VFuel /\ processed x3 t_a /\ fin (dm (state_of x3)) = [t_a] /\
  (forall p, p <> t_bout -> fs_get (w_fs (world_of x3)) p = fs_get (w_fs w1) p).
Proof.
  cbv zeta.
  assert (E1 : verdict_of (txtpp_run cx_orc t_cfg 9 [] t_w) = VOk) by (vm_compute; reflexivity).
  pose proof (rebuild_interrupted cx_orc t_cfg 9 [] t_w eq_refl t_raw_ok t_sched_ok t_static_foots
                (proj1 t_base_safe) (proj2 t_base_safe) E1) as H. cbv zeta in H.
  assert (V2 : verdict_of (txtpp_run cx_orc t_cfg 2 [0; 1; 0; 0]%nat (world_of (txtpp_run cx_orc t_cfg 9 [] t_w))) = VFuel)
    by (vm_compute; reflexivity).
  assert (V3 : verdict_of (txtpp_run cx_orc t_cfg 3 [0; 1; 0; 0]%nat (world_of (txtpp_run cx_orc t_cfg 9 [] t_w))) = VFuel)
    by (vm_compute; reflexivity).
  assert (Hb : forall p, In p (fp t_w t_b) -> p = t_bout).
  { intros p Hp. vm_compute in Hp. destruct Hp as [<-|[<-|[]]]; reflexivity. }
  split; [vm_compute; reflexivity|].
  split; [exists true, (RPp t_b (Some (PDeps [t_a]))); vm_compute; right; left; reflexivity|].
  split; [vm_compute; reflexivity|]. split; [vm_compute; reflexivity|]. split; [vm_compute; reflexivity|].
  split.
  { intros p Hp.
    destruct (H 2%nat [0; 1; 0; 0]%nat (or_intror V2) p) as [E|(f & Hf & (b & r & Hin) & _)];
      [exact E|exfalso].
    vm_compute in Hin. destruct Hin as [Hin|[Hin|[]]]; inversion Hin; subst f. exact (Hp (Hb p Hf)). }
  split; [vm_compute; reflexivity|].
  split; [exists true, (RPp t_a (Some POk)); vm_compute; right; right; left; reflexivity|].
  split; [vm_compute; reflexivity|].
  intros p Hp.
  destruct (H 3%nat [0; 1; 0; 0]%nat (or_intror V3) p) as [E|(f & Hf & (b & r & Hin) & Hnf)];
    [exact E|exfalso].
  vm_compute in Hin. destruct Hin as [Hin|[Hin|[Hin|[]]]]; inversion Hin; subst f.
  - exact (Hp (Hb p Hf)).
  - apply Hnf. vm_compute. left. reflexivity.
Qed.

(* R3, the log: the second build (schedule "b first") logs 7 writes, on d/b and d/a only — the temp file d/t is not
   even written again (`write_temp` finds the content already there) — and every one of them leaves the bytes of w1 *)
Example rebuild_events_nonvacuous :
  let w1 := world_of (txtpp_run cx_orc t_cfg 9 [] t_w) in
  let x2 := txtpp_run cx_orc t_cfg 9 [0; 1; 0; 0]%nat w1 in
  verdict_of x2 = VOk /\
  w_log (world_of x2) = w_log w1 ++ [EWrite t_bout; EWrite t_aout; EWrite t_aout; EWrite t_aout;
                                     EWrite t_bout; EWrite t_bout; EWrite t_bout] /\
  forall p, In (EWrite p) (skipn (length (w_log w1)) (w_log (world_of x2))) ->
            fs_get (w_fs (world_of x2)) p = fs_get (w_fs w1) p.
Proof.
  cbv zeta.
  assert (E1 : verdict_of (txtpp_run cx_orc t_cfg 9 [] t_w) = VOk) by (vm_compute; reflexivity).
  assert (E2 : verdict_of (txtpp_run cx_orc t_cfg 9 [0; 1; 0; 0]%nat (world_of (txtpp_run cx_orc t_cfg 9 [] t_w))) = VOk)
    by (vm_compute; reflexivity).
  split; [exact E2|]. split; [vm_compute; reflexivity|].
  pose proof (rebuild_events cx_orc t_cfg 9 [] t_w eq_refl t_raw_ok t_sched_ok t_static_foots
                (proj1 t_base_safe) (proj2 t_base_safe) E1) as H. cbv zeta in H.
  destruct (H 9%nat [0; 1; 0; 0]%nat E2) as (evs & HL & HA).
  intros p Hp. rewrite HL, skipn_app_exact in Hp. rewrite Forall_forall in HA.
  destruct (HA _ Hp) as (_ & _ & _ & _ & _ & E). exact E.
Qed.
