(* RunFacts.v — the whole run (Run.v): the concrete loop `run_loop`, which executes tasks against the
   file system, is an instance of the abstract transition system of CoordFacts.v; consequences for
   C03, C04, C05, C18. *)
Require Import Txtpp.Str Txtpp.Consts Txtpp.Grammar Txtpp.Tags Txtpp.Path Txtpp.Fs Txtpp.Sink Txtpp.Pp Txtpp.Spec.
Require Import Txtpp.Dep Txtpp.Coord Txtpp.Run.
Require Import Txtpp.proofs.StrFacts Txtpp.proofs.GrammarFacts Txtpp.proofs.TagsFacts Txtpp.proofs.SinkFacts Txtpp.proofs.PpFacts.
Require Import Txtpp.proofs.DepFacts Txtpp.proofs.CoordFacts.
From Coq Require Import Lia Permutation.

(* ---- C18: one pass over one file never panics, whatever the bytes ---- *)
(* every line handed to the machine is valid UTF-8 (take_valid) and free of LF (lines), so the byte-offset
   slices of add_line are at character boundaries and the assertion of inject_tags cannot fire *)
Lemma no_lf_ends l : ~ In LFb l -> ends_with_lf l = false.
Proof.
  intros H. unfold ends_with_lf. destruct (rev l) as [|c r] eqn:E; [reflexivity|].
  destruct (N.eqb c LFb) eqn:Ec; [|reflexivity].
  apply N.eqb_eq in Ec. subst c. exfalso. apply H. apply in_rev. rewrite E. left. reflexivity.
Qed.

Definition cur_ok (s : pst) : Prop :=
  match cur s with Some d => utf8_valid (d_ws d) = true /\ utf8_valid (d_prefix d) = true | None => True end.

Section PPNP.
Variable orc : oracle.
Variable md : mode.
Variable src base : path.
Variable le : str.

Lemma emit_no_panic s o t : emit le s o t <> StPanic.
Proof.
  unfold emit. destruct (is_execute (pmode s)); [|discriminate].
  destruct o as [x|]; [|discriminate].
  destruct (if flag s then sink_write (snk s) (wld s) le else inl (snk s, wld s)) as [[k1 w1]|k]; [|discriminate].
  destruct (sink_write k1 w1 x) as [[k2 w2]|k]; discriminate.
Qed.

Lemma run_directive_no_panic d t s : run_directive orc md src base le d t s <> StPanic.
Proof.
  unfold run_directive.
  destruct (exec_directive orc md src base le d s) as [[raw|] s'|k w]; try discriminate.
  - destruct (try_store (tg s') raw); apply emit_no_panic.
  - apply emit_no_panic.
Qed.

Lemma run_directive_cur d t s s' : run_directive orc md src base le d t s = StOk s' -> cur s' = cur s.
Proof. rewrite run_directive_do_item. apply do_item_cur. Qed.

Lemma as_text_ok l s :
  ends_with_lf l = false ->
  as_text le l s <> StPanic /\ forall s', as_text le l s = StOk s' -> cur s' = cur s.
Proof.
  intros Hl. split.
  - unfold as_text. destruct (is_execute (pmode s)); [|apply emit_no_panic].
    destruct (inject (tg s) l le) as [[l' t']|] eqn:E; [apply emit_no_panic|].
    exfalso. revert E. apply inject_no_panic. exact Hl.
  - intros s'. rewrite (as_text_do_item orc md src base). apply do_item_cur.
Qed.

Lemma step_fresh_ok l s :
  utf8_valid l = true -> ~ In LFb l -> cur_ok s ->
  step_fresh md le l s <> StPanic /\ forall s', step_fresh md le l s = StOk s' -> cur_ok s'.
Proof.
  intros Hu Hl Hc. rewrite step_fresh_unfold.
  assert (Hk : forall l0 s', as_text le l0 s = StOk s' -> ends_with_lf l0 = false -> cur_ok s').
  { intros l0 s' E H0. apply (as_text_ok l0 s H0) in E. unfold cur_ok. rewrite E. exact Hc. }
  destruct (detect_from l) as [d|] eqn:D.
  - destruct (needs_prefix_err d).
    + destruct (mode_eqb md Clean).
      * split; [apply as_text_ok; reflexivity|]. intros s' E. apply (Hk [] s' E). reflexivity.
      * split; [discriminate|discriminate].
    + split; [discriminate|]. intros s' E. inversion E; subst. unfold cur_ok. cbn.
      apply (detect_from_utf8 l d Hu D).
  - split; [apply as_text_ok; apply no_lf_ends; exact Hl|].
    intros s' E. apply (Hk l s' E). apply no_lf_ends; exact Hl.
Qed.

Lemma step_line_ok l s :
  utf8_valid l = true -> ~ In LFb l -> cur_ok s ->
  step_line orc md src base le l s <> StPanic /\
  forall s', step_line orc md src base le l s = StOk s' -> cur_ok s'.
Proof.
  intros Hu Hl Hc. unfold step_line. destruct (cur s) as [d|] eqn:C.
  - assert (Hd : utf8_valid (d_ws d) = true /\ utf8_valid (d_prefix d) = true).
    { unfold cur_ok in Hc. rewrite C in Hc. exact Hc. }
    destruct Hd as [Hd1 Hd2].
    destruct (add_line d l) as [d'| |] eqn:A.
    + split; [discriminate|]. intros s' E. inversion E; subst. unfold cur_ok. cbn.
      destruct (add_line_keeps_ws_prefix d l d' A) as [-> [-> _]]. split; assumption.
    + destruct (run_directive orc md src base le d true (set_cur s None)) as [s1|k w|] eqn:R.
      * apply step_fresh_ok; try assumption. apply run_directive_cur in R.
        unfold cur_ok. rewrite R. cbn. exact I.
      * split; discriminate.
      * exfalso. revert R. apply run_directive_no_panic.
    + exfalso. revert A. apply add_line_no_panic; assumption.
  - apply step_fresh_ok; assumption.
Qed.

Lemma finish_no_panic tn s : finish orc md src base le tn s <> PpPanic.
Proof.
  unfold finish.
  destruct (match cur s with Some d => run_directive orc md src base le d false (set_cur s None) | None => StOk s end)
    as [s1|k w|] eqn:R.
  - destruct (pmode s1); try discriminate;
    (destruct (has_tags (tg s1) && negb (mode_eqb md Clean)); [discriminate|];
     destruct (if flag s1 && tn then sink_write (snk s1) (wld s1) le else inl (snk s1, wld s1)) as [[k1 w1]|k]; [|discriminate];
     destruct (sink_done k1 w1); discriminate).
  - discriminate.
  - exfalso. destruct (cur s); [|discriminate]. revert R. apply run_directive_no_panic.
Qed.
End PPNP.

Theorem run_lines_no_panic orc md src base le ls s :
  Forall (fun l => utf8_valid l = true /\ ~ In LFb l) ls ->
  match cur s with Some d => utf8_valid (d_ws d) = true /\ utf8_valid (d_prefix d) = true | None => True end ->
  run_lines orc md src base le ls s <> StPanic.
Proof.
  intros H. revert s. induction H as [|l r [Hu Hl] _ IH]; intros s Hc; cbn [run_lines]; [discriminate|].
  destruct (step_line_ok orc md src base le l s Hu Hl Hc) as [H1 H2].
  destruct (step_line orc md src base le l s) as [s'|k w|]; [|discriminate|congruence].
  apply IH. apply H2. reflexivity.
Qed.

Lemma take_valid_ok ls : (forall l, In l ls -> ~ In LFb l) ->
  Forall (fun l => utf8_valid l = true /\ ~ In LFb l) (fst (take_valid ls)).
Proof.
  induction ls as [|l r IH]; intros H; cbn [take_valid]; [constructor|].
  destruct (utf8_valid l) eqn:U; [|constructor].
  destruct (take_valid r) as [g b]. cbn [fst] in *. constructor.
  - split; [exact U|apply H; left; reflexivity].
  - apply IH. intros l0 Hl0. apply H. right. exact Hl0.
Qed.

Theorem pp_run_no_panic orc md base src first tn w : pp_run orc md base src first tn w <> PpPanic.
Proof.
  unfold pp_run. destruct (read_file (w_fs w) src) as [raw|]; [|discriminate].
  destruct (remove_txtpp src) as [out|]; [|discriminate].
  destruct (is_txtpp_file out); [discriminate|].
  destruct (sink_new md w out) as [[k0 w0]|k]; [|discriminate].
  pose proof (take_valid_ok (lines raw) (lines_no_lf raw)) as HF.
  destruct (take_valid (lines raw)) as [ls bad]. cbn [fst] in HF.
  match goal with |- context [run_lines ?a ?b ?c ?d ?e ?f ?g] =>
    pose proof (run_lines_no_panic a b c d e f g HF I) as HR;
    destruct (run_lines a b c d e f g) as [s1|k w'|] end.
  - destruct bad; [discriminate|apply finish_no_panic].
  - discriminate.
  - congruence.
Qed.

Section RunFacts.
Variable orc : oracle.
Variable cfg : config.
Variable base : path.

Theorem exec_task_total t w : exists r w', exec_task orc cfg base t w = Some (r, w').
Proof.
  destruct t as [d|f first]; cbn [exec_task].
  - eexists. eexists. reflexivity.
  - pose proof (pp_run_no_panic orc (cfg_mode cfg) base f first (cfg_trailing cfg) w) as H.
    destruct (pp_run orc (cfg_mode cfg) base f first (cfg_trailing cfg) w) as [w'|deps w'|k w'|];
      try (eexists; eexists; reflexivity).
    congruence.
Qed.

Lemma pp_run_final_no_deps md src tn w deps w' : pp_run orc md base src false tn w <> PpHasDeps deps w'.
Proof.
  unfold pp_run. destruct (read_file (w_fs w) src) as [raw|]; [|discriminate].
  destruct (remove_txtpp src) as [out|]; [|discriminate].
  destruct (is_txtpp_file out); [discriminate|].
  destruct (sink_new md w out) as [[k0 w0]|k]; [|discriminate].
  destruct (take_valid (lines raw)) as [ls bad].
  change (if false then PFirst else PExec) with PExec.
  set (s0 := mkP None false PExec tags_new k0 w0).
  pose proof (machine_refines_spec orc md src base (detect_le raw) tn ls s0 eq_refl) as HM.
  pose proof (second_pass_no_deps orc md src base (detect_le raw) tn ls s0 deps w' eq_refl eq_refl) as HS.
  unfold outcome_of in HM.
  destruct (run_lines orc md src base (detect_le raw) ls s0) as [s1|k w1|]; [|discriminate|discriminate].
  destruct bad; [discriminate|]. rewrite HM. exact HS.
Qed.

(* what a worker sends back respects the protocol of CoordFacts: in particular a final pass never reports dependencies *)
Theorem exec_task_answers t w r w' : exec_task orc cfg base t w = Some (r, w') -> answers t r.
Proof.
  destruct t as [d|f first]; cbn [exec_task]; intros H.
  - inversion H; subst. exact I.
  - destruct (pp_run orc (cfg_mode cfg) base f first (cfg_trailing cfg) w) as [w1|deps w1|k w1|] eqn:E;
      inversion H; subst; cbn [answers]; (split; [reflexivity|]); intros Hf ds Hc; try discriminate.
    subst first. revert E. apply pp_run_final_no_deps.
Qed.

Definition is_err (r : result) : Prop :=
  match r with RScan None => True | RPp _ None => True | _ => False end.

(* sorting the in-flight set is a permutation, picking the k-th element splits it *)
Lemma insert_task_perm t l : Permutation (t :: l) (insert_task t l).
Proof.
  induction l as [|u r IH]; cbn [insert_task]; [apply Permutation_refl|].
  destruct (task_cmp t u); try apply Permutation_refl.
  eapply perm_trans; [apply perm_swap|]. apply perm_skip. exact IH.
Qed.
Lemma sort_tasks_perm l : Permutation l (sort_tasks l).
Proof.
  induction l as [|t r IH]; [apply Permutation_refl|].
  change (sort_tasks (t :: r)) with (insert_task t (sort_tasks r)).
  eapply perm_trans; [apply perm_skip; exact IH|apply insert_task_perm].
Qed.
Lemma pick_split (l : list task) k t0 : (k < length l)%nat -> Permutation l (nth k l t0 :: remove_nth k l).
Proof.
  revert k. induction l as [|x r IH]; intros k H; simpl in H; [lia|].
  destruct k as [|k]; cbn [nth remove_nth]; [apply Permutation_refl|].
  eapply perm_trans; [apply perm_skip; apply (IH k); lia|apply perm_swap].
Qed.

Lemma sort_tasks_nil l : sort_tasks l = [] -> l = [].
Proof.
  intros H. pose proof (sort_tasks_perm l) as P. rewrite H in P.
  apply Permutation_sym in P. apply Permutation_nil in P. exact P.
Qed.

(* the loop only ever visits states that are reachable in the abstract transition system *)
Definition verdict_of (x : verdict * world * list (task * result) * cstate) : verdict := fst (fst (fst x)).
Definition trace_of (x : verdict * world * list (task * result) * cstate) := snd (fst x).
Definition state_of (x : verdict * world * list (task * result) * cstate) : cstate := snd x.
Definition world_of (x : verdict * world * list (task * result) * cstate) : world := snd (fst (fst x)).

(* ---- unfolding the loop ---- *)
Lemma run_loop_exit fuel sched s w tr : sort_tasks (inflight s) = [] ->
  run_loop orc cfg base fuel sched s w tr = ((if has_remaining (dm s) then VErr else VOk), w, tr, s).
Proof. intros E. destruct fuel; cbn [run_loop]; rewrite E; reflexivity. Qed.

Lemma run_loop_nofuel sched s w tr t0 sl : sort_tasks (inflight s) = t0 :: sl ->
  run_loop orc cfg base 0 sched s w tr = (VFuel, w, tr, s).
Proof. intros E. cbn [run_loop]. rewrite E. reflexivity. Qed.

Lemma run_loop_step fuel sched s w tr t0 sl' : sort_tasks (inflight s) = t0 :: sl' ->
  run_loop orc cfg base (S fuel) sched s w tr =
  let sl := t0 :: sl' in
  let k := pick sched sl in
  let t := nth k sl t0 in
  let s1 := with_inflight s (remove_nth k sl) in
  match exec_task orc cfg base t w with
  | None => (VPanic, w, tr, s1)
  | Some (r, w') =>
    match handle s1 r with
    | Continue s2 => run_loop orc cfg base fuel (tl sched) s2 w' (tr ++ [(t, r)])
    | Fail =>
      match drain orc cfg base (length (inflight s1)) (tl sched) (inflight s1) w' (tr ++ [(t, r)]) with
      | Some (w'', tr2) => (VErr, w'', tr2, s1)
      | None => (VPanic, w', tr ++ [(t, r)], s1)
      end
    | Panic => (VPanic, w', tr ++ [(t, r)], s1)
    end
  end.
Proof. intros E. cbn [run_loop]. rewrite E. reflexivity. Qed.

Lemma drain_total fuel : forall sched l w tr,
  exists w' tr', drain orc cfg base fuel sched l w tr = Some (w', tr ++ tr').
Proof.
  induction fuel as [|fuel IH]; intros sched l w tr; cbn [drain].
  - exists w, []. rewrite app_nil_r. reflexivity.
  - destruct (sort_tasks l) as [|t0 sl] eqn:E.
    + exists w, []. rewrite app_nil_r. reflexivity.
    + cbv zeta.
      destruct (exec_task_total (nth (pick sched (t0 :: sl)) (t0 :: sl) t0) w) as [r [w1 H]]. rewrite H.
      destruct (IH (tl sched) (remove_nth (pick sched (t0 :: sl)) (t0 :: sl)) w1
                   (tr ++ [(nth (pick sched (t0 :: sl)) (t0 :: sl) t0, r)])) as [w2 [tr2 H2]].
      rewrite H2. exists w2, ((nth (pick sched (t0 :: sl)) (t0 :: sl) t0, r) :: tr2).
      rewrite <- app_assoc. reflexivity.
Qed.

Lemma handle_fail_is_err s r : handle s r = Fail -> is_err r.
Proof.
  unfold handle. destruct r as [[[fs ds]|]|f [[|ds]|]]; cbn [is_err]; try discriminate; try (intros _; exact I).
  - destruct (notify_finish (dm (add_done s)) f) as [[m rel]|]; discriminate.
  - destruct (add_dependency (dm (add_done s)) f ds) as [m [|]]; discriminate.
Qed.
Lemma handle_continue_not_err s r s2 : handle s r = Continue s2 -> ~ is_err r.
Proof.
  unfold handle. destruct r as [[[fs ds]|]|f [[|ds]|]]; cbn [is_err]; try discriminate; intros _ H; exact H.
Qed.

Lemma pick_lt sched (t0 : task) sl : (pick sched (t0 :: sl) < length (t0 :: sl))%nat.
Proof. unfold pick. apply Nat.mod_upper_bound. simpl. discriminate. Qed.

(* ---- the master lemma: the loop is a path of the abstract transition system; an arbitrary invariant J
   of the concrete pairs (coordinator state, world) that is preserved by concrete steps can be carried along ---- *)
Section Loop.
Variables files dirs : list path.
Variable J : cstate -> world -> Prop.
Hypothesis J_step : forall g w t rest r w' s2,
  greach files dirs g -> J (gs g) w -> Permutation (inflight (gs g)) (t :: rest) ->
  exec_task orc cfg base t w = Some (r, w') -> handle (with_inflight (gs g) rest) r = Continue s2 -> J s2 w'.

Inductive run_outcome (g : gstate) (tr : list (task * result)) (fuel : nat)
  (x : verdict * world * list (task * result) * cstate) : Prop :=
| RO_exit g' tr' :
    greach files dirs g' -> gs g' = state_of x -> trace_of x = tr ++ tr' ->
    history g' = history g ++ map fst tr' -> (forall t r, In (t, r) tr' -> ~ is_err r) ->
    inflight (gs g') = [] -> verdict_of x = (if has_remaining (dm (gs g')) then VErr else VOk) ->
    J (state_of x) (world_of x) ->
    run_outcome g tr fuel x
| RO_fuel g' tr' :
    greach files dirs g' -> gs g' = state_of x -> trace_of x = tr ++ tr' ->
    history g' = history g ++ map fst tr' -> (forall t r, In (t, r) tr' -> ~ is_err r) ->
    length tr' = fuel -> inflight (gs g') <> [] -> verdict_of x = VFuel ->
    J (state_of x) (world_of x) ->
    run_outcome g tr fuel x
| RO_fail g' tr' t r rest tr'' :
    greach files dirs g' -> Permutation (inflight (gs g')) (t :: rest) ->
    state_of x = with_inflight (gs g') rest -> answers t r -> is_err r ->
    trace_of x = tr ++ tr' ++ (t, r) :: tr'' ->
    history g' = history g ++ map fst tr' -> (forall t r, In (t, r) tr' -> ~ is_err r) ->
    verdict_of x = VErr ->
    run_outcome g tr fuel x.

Lemma run_loop_outcome fuel : forall sched g w tr,
  greach files dirs g -> J (gs g) w ->
  run_outcome g tr fuel (run_loop orc cfg base fuel sched (gs g) w tr).
Proof.
  induction fuel as [|fuel IH]; intros sched g w tr R HJ.
  - destruct (sort_tasks (inflight (gs g))) as [|t0 sl'] eqn:E.
    + rewrite (run_loop_exit _ _ _ _ _ E).
      apply (RO_exit _ _ _ _ g []); cbn; try rewrite app_nil_r; try reflexivity; try assumption.
      * intros t r [].
      * apply sort_tasks_nil. exact E.
    + rewrite (run_loop_nofuel _ _ _ _ _ _ E).
      apply (RO_fuel _ _ _ _ g []); cbn; try rewrite app_nil_r; try reflexivity; try assumption.
      * intros t r [].
      * intros Hn. rewrite Hn in E. discriminate E.
  - destruct (sort_tasks (inflight (gs g))) as [|t0 sl'] eqn:E.
    + rewrite (run_loop_exit _ _ _ _ _ E).
      apply (RO_exit _ _ _ _ g []); cbn; try rewrite app_nil_r; try reflexivity; try assumption.
      * intros t r [].
      * apply sort_tasks_nil. exact E.
    + rewrite (run_loop_step _ _ _ _ _ _ _ E). cbv zeta.
      set (sl := t0 :: sl'). set (k := pick sched sl). set (t := nth k sl t0). set (rest := remove_nth k sl).
      assert (HP : Permutation (inflight (gs g)) (t :: rest)).
      { eapply perm_trans; [apply sort_tasks_perm|]. rewrite E. apply pick_split. apply pick_lt. }
      destruct (exec_task_total t w) as [r [w' Hex]]. rewrite Hex.
      pose proof (exec_task_answers _ _ _ _ Hex) as Hans.
      destruct (handle (with_inflight (gs g) rest) r) as [s2| |] eqn:Hh.
      * set (g2 := mkG s2 (report t r (reported g)) (history g ++ [t])).
        assert (R2 : greach files dirs g2).
        { eapply greach_step; [exact R|]. apply (gstep_continue g t rest r s2); assumption. }
        assert (HJ2 : J (gs g2) w') by (apply (J_step g w t rest r w' s2); assumption).
        pose proof (handle_continue_not_err _ _ _ Hh) as Hne.
        specialize (IH (tl sched) g2 w' (tr ++ [(t, r)]) R2 HJ2). change (gs g2) with s2 in IH.
        destruct IH as [g' tr' R' Hs Ht Hhist Herr Hfl Hv HJ' | g' tr' R' Hs Ht Hhist Herr Hlen Hfl Hv HJ'
                       | g' tr' t1 r1 rest1 tr'' R' HP1 Hs Hans1 Herr1 Ht Hhist Herr Hv].
        -- apply (RO_exit _ _ _ _ g' ((t, r) :: tr')); try assumption.
           ++ rewrite Ht, <- app_assoc. reflexivity.
           ++ rewrite Hhist. cbn [g2 history map fst]. rewrite <- app_assoc. reflexivity.
           ++ intros t2 r2 [Hi|Hi]; [inversion Hi; subst; exact Hne|apply (Herr _ _ Hi)].
        -- apply (RO_fuel _ _ _ _ g' ((t, r) :: tr')); try assumption.
           ++ rewrite Ht, <- app_assoc. reflexivity.
           ++ rewrite Hhist. cbn [g2 history map fst]. rewrite <- app_assoc. reflexivity.
           ++ intros t2 r2 [Hi|Hi]; [inversion Hi; subst; exact Hne|apply (Herr _ _ Hi)].
           ++ cbn [length]. rewrite Hlen. reflexivity.
        -- apply (RO_fail _ _ _ _ g' ((t, r) :: tr') t1 r1 rest1 tr''); try assumption.
           ++ rewrite Ht, <- app_assoc. reflexivity.
           ++ rewrite Hhist. cbn [g2 history map fst]. rewrite <- app_assoc. reflexivity.
           ++ intros t2 r2 [Hi|Hi]; [inversion Hi; subst; exact Hne|apply (Herr _ _ Hi)].
      * destruct (drain_total (length (inflight (with_inflight (gs g) rest))) (tl sched)
                    (inflight (with_inflight (gs g) rest)) w' (tr ++ [(t, r)])) as [w2 [tr2 Hd]].
        rewrite Hd.
        apply (RO_fail _ _ _ _ g [] t r rest tr2); cbn; try rewrite app_nil_r; try reflexivity; try assumption.
        -- apply (handle_fail_is_err _ _ Hh).
        -- rewrite <- app_assoc. reflexivity.
        -- intros t2 r2 [].
      * exfalso. exact (handle_no_panic files dirs g R t rest r HP Hans Hh).
Qed.
End Loop.

Lemma run_loop_outcome_plain files dirs fuel sched g w tr :
  greach files dirs g ->
  run_outcome files dirs (fun _ _ => True) g tr fuel (run_loop orc cfg base fuel sched (gs g) w tr).
Proof. intros R. apply run_loop_outcome; [intros; exact I|exact R|exact I]. Qed.

Lemma exit_verdict_cases (b : bool) v : v = (if b then VErr else VOk) ->
  (v = VErr /\ b = true) \/ (v = VOk /\ b = false).
Proof. destruct b; intros ->; [left|right]; split; reflexivity. Qed.

(* FALSE: run_loop_reach as originally stated,
     Theorem run_loop_reach files dirs g fuel sched w tr :
       greach files dirs g ->
       let x := run_loop orc cfg base fuel sched (gs g) w tr in
       (verdict_of x = VOk \/ verdict_of x = VFuel \/ (verdict_of x = VErr /\ inflight (state_of x) = [])) ->
       exists g', greach files dirs g' /\ gs g' = state_of x.
   Counterexample (machine-checked below as `run_loop_reach_counterexample`): one input file that does not exist,
   files = [["a"]], dirs = [], empty file system, fuel = 1.  The only task fails, `handle` returns Fail while
   nothing else is in flight, so the loop leaves with VErr in the state s1 = with_inflight (gs g) [], whose
   counters are total = 1, done = 0 with nothing in flight: by CoordFacts.counters_exact no reachable ghost state
   has this coordinator state.  The third disjunct has to exclude the exit through a failed task, either with
   the loop's own exit condition `done = total`, or by saying that no task of this run failed. *)
Theorem run_loop_reach_weaker files dirs g fuel sched w tr :
  greach files dirs g ->
  let x := run_loop orc cfg base fuel sched (gs g) w tr in
  (verdict_of x = VOk \/ verdict_of x = VFuel \/
   (verdict_of x = VErr /\
    (total (state_of x) = done (state_of x) \/
     forall t r, In (t, r) (skipn (length tr) (trace_of x)) -> ~ is_err r))) ->
  exists g', greach files dirs g' /\ gs g' = state_of x.
Proof.
  intros R x Hv.
  destruct (run_loop_outcome_plain files dirs fuel sched g w tr R)
    as [g' tr' R' Hs Ht Hhist Herr Hfl Hv' _ | g' tr' R' Hs Ht Hhist Herr Hlen Hfl Hv' _
       | g' tr' t1 r1 rest1 tr'' R' HP1 Hs Hans1 Herr1 Ht Hhist Herr Hv'];
    fold x in Hs, Ht, Hv'.
  - exists g'. split; assumption.
  - exists g'. split; assumption.
  - exfalso. destruct Hv as [Hv|[Hv|[_ [Hc|Hn]]]]; try congruence.
    + rewrite Hs in Hc. cbn in Hc. pose proof (counters_exact files dirs g' R') as Hce.
      apply Permutation_length in HP1. cbn in HP1. lia.
    + apply (Hn t1 r1); [|exact Herr1]. rewrite Ht, skipn_app, skipn_all, Nat.sub_diag. cbn.
      apply in_or_app. right. left. reflexivity.
Qed.

(* the complete description of what the loop can return (J := True in run_outcome) *)
Theorem run_loop_cases files dirs g fuel sched w tr :
  greach files dirs g ->
  let x := run_loop orc cfg base fuel sched (gs g) w tr in
  (exists g', greach files dirs g' /\ gs g' = state_of x /\
              ((inflight (gs g') = [] /\ verdict_of x = (if has_remaining (dm (gs g')) then VErr else VOk)) \/
               (inflight (gs g') <> [] /\ verdict_of x = VFuel))) \/
  (exists g' t r rest, greach files dirs g' /\ Permutation (inflight (gs g')) (t :: rest) /\
              state_of x = with_inflight (gs g') rest /\ answers t r /\ is_err r /\
              In (t, r) (skipn (length tr) (trace_of x)) /\ verdict_of x = VErr).
Proof.
  intros R x.
  destruct (run_loop_outcome_plain files dirs fuel sched g w tr R)
    as [g' tr' R' Hs Ht Hhist Herr Hfl Hv' _ | g' tr' R' Hs Ht Hhist Herr Hlen Hfl Hv' _
       | g' tr' t1 r1 rest1 tr'' R' HP1 Hs Hans1 Herr1 Ht Hhist Herr Hv'];
    fold x in Hs, Ht, Hv'.
  - left. exists g'. split; [exact R'|]. split; [exact Hs|]. left. split; assumption.
  - left. exists g'. split; [exact R'|]. split; [exact Hs|]. right. split; assumption.
  - right. exists g', t1, r1, rest1. repeat (split; [assumption|]). split; [|exact Hv'].
    rewrite Ht, skipn_app, skipn_all, Nat.sub_diag. cbn. apply in_or_app. right. left. reflexivity.
Qed.

(* C18: the coordinator never panics (the unwrap of notify_finish) and no worker panics *)
Theorem run_loop_no_panic files dirs g fuel sched w tr :
  greach files dirs g -> verdict_of (run_loop orc cfg base fuel sched (gs g) w tr) <> VPanic.
Proof.
  intros R.
  destruct (run_loop_outcome_plain files dirs fuel sched g w tr R)
    as [g' tr' R' Hs Ht Hhist Herr Hfl Hv' _ | g' tr' R' Hs Ht Hhist Herr Hlen Hfl Hv' _
       | g' tr' t1 r1 rest1 tr'' R' HP1 Hs Hans1 Herr1 Ht Hhist Herr Hv']; rewrite Hv'; try discriminate.
  destruct (has_remaining (dm (gs g'))); discriminate.
Qed.

(* C04: a failure of any task fails the run, wherever the file sits and whatever the schedule:
   success implies that no completed task reported an error *)
Theorem ok_means_no_error files dirs g fuel sched w tr t r :
  greach files dirs g ->
  let x := run_loop orc cfg base fuel sched (gs g) w tr in
  verdict_of x = VOk -> In (t, r) (trace_of x) -> In (t, r) tr \/ ~ is_err r.
Proof.
  intros R x Hv Hi.
  destruct (run_loop_outcome_plain files dirs fuel sched g w tr R)
    as [g' tr' R' Hs Ht Hhist Herr Hfl Hv' _ | g' tr' R' Hs Ht Hhist Herr Hlen Hfl Hv' _
       | g' tr' t1 r1 rest1 tr'' R' HP1 Hs Hans1 Herr1 Ht Hhist Herr Hv'];
    fold x in Hs, Ht, Hv'; try congruence.
  rewrite Ht in Hi. apply in_app_or in Hi. destruct Hi as [Hi|Hi]; [left; exact Hi|right; apply (Herr _ _ Hi)].
Qed.

(* C03 / C05: on success nothing is in flight, every seen file is finished, no dependency edge is left *)
Theorem ok_means_all_finished files dirs g fuel sched w tr :
  greach files dirs g ->
  let x := run_loop orc cfg base fuel sched (gs g) w tr in
  verdict_of x = VOk ->
  exists g', greach files dirs g' /\ gs g' = state_of x /\ inflight (gs g') = [] /\
             has_remaining (dm (gs g')) = false /\ forall f, is_seen g' f -> finished g' f.
Proof.
  intros R x Hv.
  destruct (run_loop_outcome_plain files dirs fuel sched g w tr R)
    as [g' tr' R' Hs Ht Hhist Herr Hfl Hv' _ | g' tr' R' Hs Ht Hhist Herr Hlen Hfl Hv' _
       | g' tr' t1 r1 rest1 tr'' R' HP1 Hs Hans1 Herr1 Ht Hhist Herr Hv'];
    fold x in Hs, Ht, Hv'; try congruence.
  destruct (exit_verdict_cases _ _ Hv') as [[Hc _]|[_ Hrem]]; [congruence|].
  exists g'. repeat (split; [assumption|]).
  intros f Hseen. unfold finished. destruct (pmem f (fin (dm (gs g')))) eqn:Ef; [reflexivity|].
  assert (Ht' : has_remaining (dm (gs g')) = true).
  { apply (cycle_verdict_iff files dirs g' R' Hfl). exists f. split; [exact Hseen|].
    unfold finished. rewrite Ef. discriminate. }
  congruence.
Qed.

(* FALSE: cycle_is_reported as originally stated,
     Theorem cycle_is_reported files dirs g fuel sched w tr :
       greach files dirs g ->
       let x := run_loop orc cfg base fuel sched (gs g) w tr in
       inflight (state_of x) = [] -> verdict_of x <> VFuel ->
       exists g', greach files dirs g' /\ gs g' = state_of x /\
         (verdict_of x = VErr <-> exists f, is_seen g' f /\ ~ finished g' f).
   Same counterexample as run_loop_reach (`cycle_is_reported_counterexample` below): when the last in-flight task
   fails, the loop exits with nothing in flight in a state that is not a reachable coordinator state (done < total),
   so no g' exists; moreover the verdict is VErr although the only seen file is simply unfinished for want of a
   successful pass, not because of a cycle.  The hypothesis announced in the comment ("when no task fails") is
   missing; it is added below in two equivalent forms (the loop's exit condition done = total, or no error in the
   part of the trace produced by this run). *)
Theorem cycle_is_reported_weaker files dirs g fuel sched w tr :
  greach files dirs g ->
  let x := run_loop orc cfg base fuel sched (gs g) w tr in
  (total (state_of x) = done (state_of x) \/
   forall t r, In (t, r) (skipn (length tr) (trace_of x)) -> ~ is_err r) ->
  inflight (state_of x) = [] -> verdict_of x <> VFuel ->
  exists g', greach files dirs g' /\ gs g' = state_of x /\
    (verdict_of x = VErr <-> exists f, is_seen g' f /\ ~ finished g' f).
Proof.
  intros R x Hnf Hfl0 Hv.
  destruct (run_loop_outcome_plain files dirs fuel sched g w tr R)
    as [g' tr' R' Hs Ht Hhist Herr Hfl Hv' _ | g' tr' R' Hs Ht Hhist Herr Hlen Hfl Hv' _
       | g' tr' t1 r1 rest1 tr'' R' HP1 Hs Hans1 Herr1 Ht Hhist Herr Hv'];
    fold x in Hs, Ht, Hv'; try congruence.
  - exists g'. split; [exact R'|]. split; [exact Hs|].
    rewrite <- (cycle_verdict_iff files dirs g' R' Hfl). rewrite Hv'.
    destruct (has_remaining (dm (gs g'))); split; intros H; try reflexivity; discriminate.
  - exfalso. destruct Hnf as [Hc|Hn].
    + rewrite Hs in Hc. cbn in Hc. pose proof (counters_exact files dirs g' R') as Hce.
      apply Permutation_length in HP1. cbn in HP1. lia.
    + apply (Hn t1 r1); [|exact Herr1]. rewrite Ht, skipn_app, skipn_all, Nat.sub_diag. cbn.
      apply in_or_app. right. left. reflexivity.
Qed.

(* C03: every task in the trace completed exactly once *)
Theorem trace_nodup files dirs fuel sched w :
  let g := ginit files dirs in
  let x := run_loop orc cfg base fuel sched (gs g) w [] in
  verdict_of x = VOk -> NoDup (map fst (trace_of x)).
Proof.
  intros g x Hv.
  destruct (run_loop_outcome_plain files dirs fuel sched g w [] (greach_init files dirs))
    as [g' tr' R' Hs Ht Hhist Herr Hfl Hv' _ | g' tr' R' Hs Ht Hhist Herr Hlen Hfl Hv' _
       | g' tr' t1 r1 rest1 tr'' R' HP1 Hs Hans1 Herr1 Ht Hhist Herr Hv'];
    fold x in Hs, Ht, Hv'; try congruence.
  rewrite Ht. cbn [app]. cbn [g ginit history app] in Hhist. rewrite <- Hhist.
  apply (history_nodup files dirs g' R').
Qed.

(* ---- C03 / C18 termination: fuel proportional to the number of source files and directories always suffices ---- *)
Definition src_files (f : fs) : list path :=
  map fst (filter (fun e => match snd e with File _ => is_txtpp_file (fst e) | Dir => false end) f).
Definition dir_entries (f : fs) : list path :=
  [] :: map fst (filter (fun e => match snd e with Dir => true | File _ => false end) f).

(* the counting argument: a reachable state whose seen files/directories are within FS/DS and which still has
   something in flight has completed fewer than 2|FS|+|DS| tasks *)
Lemma history_lt_bound files dirs g' FS DS :
  greach files dirs g' -> incl (seen (gs g')) FS -> incl (seen_dirs (gs g')) DS -> inflight (gs g') <> [] ->
  (length (history g') < 2 * length FS + length DS)%nat.
Proof.
  intros R' H1 H2 Hfl.
  pose proof (history_bound files dirs g' R') as HB.
  destruct (seen_nodup files dirs g' R') as [N1 N2].
  pose proof (NoDup_incl_length N1 H1) as L1. pose proof (NoDup_incl_length N2 H2) as L2.
  destruct (inflight (gs g')) as [|t l]; [congruence|]. cbn [length] in HB. lia.
Qed.

(* with an invariant J of the concrete run that bounds the seen files/directories *)
Theorem run_loop_fuel_enough_inv files dirs (J : cstate -> world -> Prop) g fuel sched w tr FS DS :
  (forall g w t rest r w' s2,
     greach files dirs g -> J (gs g) w -> Permutation (inflight (gs g)) (t :: rest) ->
     exec_task orc cfg base t w = Some (r, w') -> handle (with_inflight (gs g) rest) r = Continue s2 -> J s2 w') ->
  (forall s w, J s w -> incl (seen s) FS /\ incl (seen_dirs s) DS) ->
  greach files dirs g -> J (gs g) w ->
  (fuel + length (history g) > 2 * length FS + length DS)%nat ->
  verdict_of (run_loop orc cfg base fuel sched (gs g) w tr) <> VFuel.
Proof.
  intros Hstep Hbound R HJ Hfuel Hv.
  destruct (run_loop_outcome files dirs J Hstep fuel sched g w tr R HJ)
    as [g' tr' R' Hs Ht Hhist Herr Hfl Hv' HJ' | g' tr' R' Hs Ht Hhist Herr Hlen Hfl Hv' HJ'
       | g' tr' t1 r1 rest1 tr'' R' HP1 Hs Hans1 Herr1 Ht Hhist Herr Hv']; try congruence.
  - rewrite Hv' in Hv. destruct (has_remaining (dm (gs g'))); discriminate.
  - rewrite <- Hs in HJ'. destruct (Hbound _ _ HJ') as [H1 H2].
    pose proof (history_lt_bound files dirs g' FS DS R' H1 H2 Hfl) as HL.
    rewrite Hhist, app_length, map_length, Hlen in HL. lia.
Qed.

(* generic: if the seen files/directories always stay within finite lists FS and DS, then fuel 2|FS|+|DS|+1 suffices *)
Theorem run_loop_fuel_enough files dirs g fuel sched w tr FS DS :
  greach files dirs g ->
  (forall g', greach files dirs g' -> incl (seen (gs g')) FS /\ incl (seen_dirs (gs g')) DS) ->
  (fuel + length (history g) > 2 * length FS + length DS)%nat ->
  verdict_of (run_loop orc cfg base fuel sched (gs g) w tr) <> VFuel.
Proof.
  intros R Hbound Hfuel Hv.
  destruct (run_loop_outcome_plain files dirs fuel sched g w tr R)
    as [g' tr' R' Hs Ht Hhist Herr Hfl Hv' _ | g' tr' R' Hs Ht Hhist Herr Hlen Hfl Hv' _
       | g' tr' t1 r1 rest1 tr'' R' HP1 Hs Hans1 Herr1 Ht Hhist Herr Hv']; try congruence.
  - rewrite Hv' in Hv. destruct (has_remaining (dm (gs g'))); discriminate.
  - destruct (Hbound g' R') as [H1 H2].
    pose proof (history_lt_bound files dirs g' FS DS R' H1 H2 Hfl) as HL.
    rewrite Hhist, app_length, map_length, Hlen in HL. lia.
Qed.

End RunFacts.

(* ---- the machine-checked counterexamples to the two statements marked FALSE above ---- *)
Definition cx_orc : oracle := fun _ _ _ => None.
Definition cx_cfg : config := mkCfg [] [] false 1 InMemoryBuild false.
Definition cx_w : world := mkW [] [].
Definition cx_files : list path := [[[97]]].      (* the input "a", which does not exist *)

Example run_loop_reach_counterexample :
  let g := ginit cx_files [] in
  let x := run_loop cx_orc cx_cfg [] 1 [] (gs g) cx_w [] in
  greach cx_files [] g /\
  (verdict_of x = VErr /\ inflight (state_of x) = []) /\
  ~ exists g', greach cx_files [] g' /\ gs g' = state_of x.
Proof.
  intros g x. split; [apply greach_init|]. split; [split; vm_compute; reflexivity|].
  intros [g' [R' Hs]]. pose proof (counters_exact cx_files [] g' R') as Hc.
  rewrite Hs in Hc. vm_compute in Hc. discriminate Hc.
Qed.

Example cycle_is_reported_counterexample :
  let g := ginit cx_files [] in
  let x := run_loop cx_orc cx_cfg [] 1 [] (gs g) cx_w [] in
  greach cx_files [] g /\ inflight (state_of x) = [] /\ verdict_of x <> VFuel /\
  ~ exists g', greach cx_files [] g' /\ gs g' = state_of x /\
      (verdict_of x = VErr <-> exists f, is_seen g' f /\ ~ finished g' f).
Proof.
  intros g x. split; [apply greach_init|]. split; [vm_compute; reflexivity|].
  split; [vm_compute; discriminate|].
  intros [g' [R' [Hs _]]]. pose proof (counters_exact cx_files [] g' R') as Hc.
  rewrite Hs in Hc. vm_compute in Hc. discriminate Hc.
Qed.

(* ======================================================================== *)
(* STRETCH: the concrete universe of a run — every file the run ever sees is a `.txtpp` file entry of the initial
   tree and every scanned directory is a directory entry of the initial tree, because a run never creates a
   directory, and never creates a file with a txtpp name (outputs and temp targets with the txtpp shape are
   refused; an existing file may be rewritten).  Hence `txtpp_run_terminates` at the end of the file.
   Plan: (1) names/extensions: the candidates probed by get_txtpp_file are txtpp names; (2) the file system as a
   list of entries and OS resolution; (3) `wle`: what one primitive write may do to the tree; sinks and temp
   files; (4) the invariant K of one pass (Pp.v); (5) the invariant Jrun of the loop, fed to
   `run_loop_fuel_enough_inv`. *)
(* ---- names and extensions ---- *)
Lemma last_dot_nodot s : forall i acc, ~ In DOT s -> last_dot s i acc = acc.
Proof.
  induction s as [|c r IH]; intros i acc H; [reflexivity|].
  cbn [last_dot]. destruct (c =? DOT) eqn:E.
  - apply N.eqb_eq in E. exfalso. apply H. left. exact E.
  - apply IH. intros Hi. apply H. right. exact Hi.
Qed.
Lemma last_dot_app a e : forall i acc, ~ In DOT e ->
  last_dot (a ++ DOT :: e) i acc = Some (i + length a)%nat.
Proof.
  induction a as [|c r IH]; intros i acc H.
  - cbn [app last_dot length]. rewrite N.eqb_refl. rewrite (last_dot_nodot e _ _ H). f_equal. lia.
  - cbn [app last_dot length]. rewrite IH by exact H. f_equal. lia.
Qed.
Lemma last_dot_spec s : forall i acc j, last_dot s i acc = Some j ->
  (acc = Some j /\ ~ In DOT s) \/
  (exists a e, s = a ++ DOT :: e /\ ~ In DOT e /\ j = (i + length a)%nat).
Proof.
  induction s as [|c r IH]; intros i acc j H.
  - left. split; [exact H|intros []].
  - cbn [last_dot] in H. apply IH in H. destruct H as [[Ha Hn]|[a [e [-> [He ->]]]]].
    + destruct (c =? DOT) eqn:E.
      * apply N.eqb_eq in E. subst c. inversion Ha; subst. right. exists [], r.
        split; [reflexivity|]. split; [exact Hn|]. cbn. lia.
      * left. split; [exact Ha|]. intros [Hc|Hc]; [|exact (Hn Hc)]. subst c. rewrite N.eqb_refl in E. discriminate.
    + right. exists (c :: a), e. split; [reflexivity|]. split; [exact He|]. cbn [length]. lia.
Qed.

Lemma split_ext_build stem e :
  stem <> [] -> ~ In DOT e -> stem ++ DOT :: e <> dotdot -> split_ext (stem ++ DOT :: e) = (stem, Some e).
Proof.
  intros Hs He Hd. unfold split_ext. rewrite (SinkFacts.str_eqb_neq _ _ Hd).
  rewrite (last_dot_app stem e 0 None He). cbn [Nat.add].
  destruct stem as [|c r]; [congruence|]. cbn [length].
  change (S (length r)) with (length (c :: r)).
  rewrite firstn_app_exact.
  replace (S (length (c :: r))) with (length ((c :: r) ++ [DOT])) by (rewrite app_length; cbn; lia).
  replace ((c :: r) ++ DOT :: e) with (((c :: r) ++ [DOT]) ++ e) by (rewrite <- app_assoc; reflexivity).
  rewrite skipn_app_exact. reflexivity.
Qed.
Lemma split_ext_inv n stem e : split_ext n = (stem, Some e) -> n = stem ++ DOT :: e /\ stem <> [] /\ ~ In DOT e.
Proof.
  unfold split_ext. destruct (str_eqb n dotdot); [discriminate|].
  destruct (last_dot n 0 None) as [[|i]|] eqn:L; try discriminate.
  intros H.
  apply last_dot_spec in L. destruct L as [[Hc _]|[a [e0 [-> [He Hj]]]]]; [discriminate|].
  cbn [Nat.add] in Hj. rewrite Hj in H. rewrite firstn_app_exact in H.
  replace (S (length a)) with (length (a ++ [DOT])) in H by (rewrite app_length; cbn; lia).
  replace (a ++ DOT :: e0) with ((a ++ [DOT]) ++ e0) in H by (rewrite <- app_assoc; reflexivity).
  rewrite skipn_app_exact in H. injection H as <- <-.
  split; [reflexivity|]. split; [|exact He].
  intros ->. discriminate Hj.
Qed.
Lemma split_ext_none_stem n : snd (split_ext n) = None -> fst (split_ext n) = n.
Proof.
  unfold split_ext. destruct (str_eqb n dotdot); [reflexivity|].
  destruct (last_dot n 0 None) as [[|i]|]; cbn; try reflexivity. discriminate.
Qed.

Lemma lex_extension_snoc a c : lex_extension (a ++ [c]) = if is_normal c then snd (split_ext c) else None.
Proof. unfold lex_extension. rewrite rev_unit. reflexivity. Qed.
Lemma lex_set_extension_snoc a c e :
  lex_set_extension (a ++ [c]) e =
  if is_normal c then a ++ [match e with [] => fst (split_ext c) | _ => fst (split_ext c) ++ [DOT] ++ e end]
  else a ++ [c].
Proof. unfold lex_set_extension. rewrite rev_unit, rev_involutive. reflexivity. Qed.

Lemma is_txtpp_last a b c : is_txtpp_file (a ++ [c]) = is_txtpp_file (b ++ [c]).
Proof.
  unfold is_txtpp_file. rewrite !lex_extension_snoc, !lex_set_extension_snoc.
  destruct (is_normal c); [|reflexivity]. rewrite !lex_extension_snoc. reflexivity.
Qed.
Lemma is_txtpp_nil : is_txtpp_file [] = false.
Proof. reflexivity. Qed.
Lemma is_txtpp_shape p : is_txtpp_file p = true -> exists a c, p = a ++ [c] /\ is_normal c = true.
Proof.
  intros H. destruct p as [|x r] using rev_ind; [discriminate|]. exists r, x. split; [reflexivity|].
  unfold is_txtpp_file in H. rewrite lex_extension_snoc in H. destruct (is_normal x); [reflexivity|discriminate].
Qed.

Lemma txtpp_ext_nodot : ~ In DOT TXTPP_EXT.
Proof. unfold TXTPP_EXT, c_txtpp_ext, DOT. cbn. intros H. repeat (destruct H as [H|H]; [discriminate H|]). exact H. Qed.
Lemma snoc_txtpp_not_dotdot s : s ++ DOT :: TXTPP_EXT <> dotdot.
Proof.
  intros H. apply (f_equal (@length _)) in H. rewrite app_length in H. cbn in H. lia.
Qed.
Lemma txtpp_name_is_txtpp a s : s <> [] -> is_txtpp_file (a ++ [s ++ DOT :: TXTPP_EXT]) = true.
Proof.
  intros Hs. unfold is_txtpp_file. rewrite lex_extension_snoc.
  unfold is_normal. rewrite (SinkFacts.str_eqb_neq _ _ (snoc_txtpp_not_dotdot s)). cbn [negb].
  rewrite (split_ext_build s TXTPP_EXT Hs txtpp_ext_nodot (snoc_txtpp_not_dotdot s)). cbn [snd].
  rewrite str_eqb_refl. reflexivity.
Qed.

(* every candidate source with an ordinary last component is a txtpp file *)
Lemma candidates_txtpp lp x a c :
  In x (txtpp_candidates lp) -> x = a ++ [c] -> is_normal c = true ->
  (forall dir n, lp = dir ++ [n] -> n <> []) -> is_txtpp_file x = true.
Proof.
  intros Hin Hx Hc Hne. unfold txtpp_candidates in Hin.
  destruct (is_txtpp_file lp); [destruct Hin|].
  destruct lp as [|n dir _] using rev_ind.
  - cbn in Hin. destruct Hin as [<-|[]]. destruct a; discriminate Hx.
  - specialize (Hne dir n eq_refl).
    rewrite lex_extension_snoc in Hin. destruct (is_normal n) eqn:Nn.
    + destruct (split_ext n) as [stem [ext|]] eqn:S; cbn [snd] in Hin.
      * destruct (split_ext_inv _ _ _ S) as [En [Hst Hex]].
        assert (Hc1 : lex_set_extension (dir ++ [n]) (ext ++ [DOT] ++ TXTPP_EXT) = dir ++ [n ++ DOT :: TXTPP_EXT]).
        { rewrite lex_set_extension_snoc, Nn, S. cbn [fst].
          destruct (ext ++ [DOT] ++ TXTPP_EXT) eqn:Ee; [destruct ext; discriminate Ee|]. rewrite <- Ee.
          rewrite En. f_equal. f_equal. rewrite <- !app_assoc. reflexivity. }
        assert (Nn1 : n <> []) by (rewrite En; destruct stem; discriminate).
        rewrite Hc1 in Hin. destruct Hin as [<-|[<-|[]]].
        -- apply txtpp_name_is_txtpp. exact Nn1.
        -- rewrite lex_set_extension_snoc.
           unfold is_normal at 1. rewrite (SinkFacts.str_eqb_neq _ _ (snoc_txtpp_not_dotdot n)). cbn [negb].
           rewrite (split_ext_build n TXTPP_EXT Nn1 txtpp_ext_nodot (snoc_txtpp_not_dotdot n)). cbn [fst].
           rewrite lex_set_extension_snoc, Nn, S. cbn [fst].
           destruct (TXTPP_EXT ++ [DOT] ++ ext) eqn:Ee; [discriminate Ee|]. rewrite <- Ee.
           set (n2 := stem ++ [DOT] ++ TXTPP_EXT ++ [DOT] ++ ext).
           assert (E2 : n2 = (stem ++ DOT :: TXTPP_EXT) ++ DOT :: ext).
           { unfold n2. rewrite <- !app_assoc. reflexivity. }
           assert (Hnd : n2 <> dotdot).
           { rewrite E2. intros H. apply (f_equal (@length _)) in H. rewrite !app_length in H. cbn in H. lia. }
           assert (S2 : split_ext n2 = (stem ++ DOT :: TXTPP_EXT, Some ext)).
           { rewrite E2. apply split_ext_build; [destruct stem; discriminate|exact Hex|rewrite <- E2; exact Hnd]. }
           unfold is_txtpp_file. rewrite lex_extension_snoc. unfold is_normal at 1.
           rewrite (SinkFacts.str_eqb_neq _ _ Hnd). cbn [negb]. rewrite S2. cbn [snd].
           destruct (str_eqb ext TXTPP_EXT); [reflexivity|].
           rewrite lex_set_extension_snoc. unfold is_normal at 1.
           rewrite (SinkFacts.str_eqb_neq _ _ Hnd). cbn [negb]. rewrite S2. cbn [fst].
           rewrite lex_extension_snoc. unfold is_normal.
           rewrite (SinkFacts.str_eqb_neq _ _ (snoc_txtpp_not_dotdot stem)). cbn [negb].
           rewrite (split_ext_build stem TXTPP_EXT Hst txtpp_ext_nodot (snoc_txtpp_not_dotdot stem)). cbn [snd].
           rewrite str_eqb_refl. reflexivity.
      * destruct Hin as [<-|[]].
        pose proof (split_ext_none_stem n) as Hs. rewrite S in Hs. cbn in Hs. specialize (Hs eq_refl). subst stem.
        rewrite lex_set_extension_snoc, Nn, S. cbn [fst].
        destruct TXTPP_EXT eqn:Ee; [discriminate Ee|]. rewrite <- Ee.
        apply (txtpp_name_is_txtpp dir n Hne).
    + destruct Hin as [<-|[]]. rewrite lex_set_extension_snoc, Nn in Hx.
      apply app_inj_tail in Hx. destruct Hx as [_ ->]. congruence.
Qed.

(* ---- the file system as a list of entries ---- *)
Lemma fs_get_in F p nd : p <> [] -> fs_get F p = Some nd -> In (p, nd) F.
Proof.
  intros Hp. induction F as [|[q n] r IH]; intros H.
  - destruct p; [congruence|discriminate H].
  - rewrite fs_get_cons in H by exact Hp. destruct (path_eqb q p) eqn:E.
    + apply SinkFacts.path_eqb_eq in E. subst q. inversion H; subst. left. reflexivity.
    + right. apply IH. exact H.
Qed.
Lemma in_fs_del e F q : In e (fs_del F q) -> In e F.
Proof.
  induction F as [|[q0 n] r IH]; cbn [fs_del]; intros H; [exact H|].
  destruct (path_eqb q0 q); [right; apply IH; exact H|].
  destruct H as [H|H]; [left; exact H|right; apply IH; exact H].
Qed.
Lemma in_nodup_fs_get F p nd : NoDup (map fst F) -> p <> [] -> In (p, nd) F -> fs_get F p = Some nd.
Proof.
  intros ND Hp. induction F as [|[q n] r IH]; intros H; [destruct H|].
  cbn [map fst] in ND. inversion ND as [|? ? Hn ND']; subst.
  rewrite fs_get_cons by exact Hp. destruct H as [H|H].
  - inversion H; subst. rewrite SinkFacts.path_eqb_refl. reflexivity.
  - rewrite SinkFacts.path_eqb_neq; [apply IH; assumption|].
    intros ->. apply Hn. apply (in_map fst) in H. exact H.
Qed.
Lemma is_dir_root F : is_dir F [] = true.
Proof. unfold is_dir. rewrite fs_get_nil_root. reflexivity. Qed.
Lemma is_dir_get F p : is_dir F p = true -> fs_get F p = Some Dir.
Proof. unfold is_dir. destruct (fs_get F p) as [[c|]|]; try discriminate. reflexivity. Qed.
Lemma is_file_get F p : is_file F p = true -> exists c, fs_get F p = Some (File c).
Proof. unfold is_file. destruct (fs_get F p) as [[c|]|]; try discriminate. exists c. reflexivity. Qed.
Lemma file_not_root F c : fs_get F [] <> Some (File c).
Proof. rewrite fs_get_nil_root. discriminate. Qed.

Lemma children_in F d n nd : In (n, nd) (children F d) -> In (d ++ [n], nd) F.
Proof.
  unfold children. intros H. apply in_flat_map in H. destruct H as [[p nd0] [He Hi]]. cbn [fst snd] in Hi.
  destruct (rev p) as [|n0 rp] eqn:E; [destruct Hi|].
  destruct (path_eqb (rev rp) d) eqn:Ed; [|destruct Hi].
  destruct Hi as [Hi|[]]. inversion Hi; subst. apply SinkFacts.path_eqb_eq in Ed. subst d.
  apply rev_cons_eq in E. subst p. exact He.
Qed.

(* ---- resolution ---- *)
Lemma reach_nil F : reach F [].
Proof. intros n Hn. cbn in Hn. lia. Qed.
Lemma os_walk_exists F comps : forall cur q, os_walk F cur comps = Some q -> exists_ F q = true.
Proof.
  induction comps as [|c r IH]; intros cur q H; cbn [os_walk] in H.
  - destruct (exists_ F cur) eqn:E; [|discriminate]. inversion H; subst. exact E.
  - destruct (negb (is_dir F cur)); [discriminate|].
    destruct (str_eqb c dotdot); apply (IH _ _ H).
Qed.
Lemma reach_snoc_dir F d c : reach F (d ++ [c]) -> is_dir F d = true.
Proof.
  intros R. specialize (R (length d)). rewrite firstn_app, firstn_all, Nat.sub_diag, firstn_O, app_nil_r in R.
  apply R. rewrite app_length. cbn. lia.
Qed.
Lemma reach_removelast_dir F p : reach F p -> is_dir F (removelast p) = true.
Proof.
  intros R. destruct p as [|c d _] using rev_ind; [apply is_dir_root|].
  rewrite removelast_last. apply (reach_snoc_dir F d c R).
Qed.
(* a walk that ends in a regular file ends with an ordinary last component, which it keeps *)
Lemma os_walk_file_last F comps : forall cur c q,
  reach F cur -> os_walk F cur (comps ++ [c]) = Some q -> is_file F q = true ->
  is_normal c = true /\ exists d, q = d ++ [c].
Proof.
  induction comps as [|c0 r IH]; intros cur c q R H Hf.
  - cbn [app os_walk] in H. destruct (is_dir F cur) eqn:D; [|discriminate]. cbn [negb] in H.
    unfold is_normal. destruct (str_eqb c dotdot) eqn:E.
    + exfalso. destruct (exists_ F (removelast cur)); [|discriminate]. inversion H; subst.
      pose proof (reach_removelast_dir F cur R) as Hd. unfold is_dir in Hd. unfold is_file in Hf.
      destruct (fs_get F (removelast cur)) as [[x|]|]; discriminate.
    + destruct (exists_ F (cur ++ [c])); [|discriminate]. inversion H; subst.
      split; [reflexivity|]. exists cur. reflexivity.
  - cbn [app os_walk] in H. destruct (is_dir F cur) eqn:D; [|discriminate]. cbn [negb] in H.
    destruct (str_eqb c0 dotdot).
    + apply (IH _ _ _ (reach_removelast F cur R) H Hf).
    + apply (IH _ _ _ (reach_snoc F cur c0 R D) H Hf).
Qed.
Lemma resolved_file_shape F x q :
  os_resolve F x = Some q -> is_file F q = true ->
  exists a d c, x = a ++ [c] /\ q = d ++ [c] /\ is_normal c = true.
Proof.
  intros H Hf. unfold os_resolve in H.
  destruct x as [|c a _] using rev_ind.
  - cbn [os_walk] in H. unfold exists_ in H. rewrite fs_get_nil_root in H. inversion H; subst.
    unfold is_file in Hf. rewrite fs_get_nil_root in Hf. discriminate.
  - destruct (os_walk_file_last F a [] c q (reach_nil F) H Hf) as [Hn [d Hq]].
    exists a, d, c. repeat split; assumption.
Qed.

Definition name_ok (c : name) : Prop := c <> [] /\ is_normal c = true.
Definition dirs_upto (F : fs) (p : path) : Prop := reach F p /\ is_dir F p = true.

Lemma name_ok_no_dotdot p : Forall name_ok p -> ~ In dotdot p.
Proof.
  intros H Hi. rewrite Forall_forall in H. destruct (H _ Hi) as [_ Hn]. discriminate Hn.
Qed.

Section Universe.
Variable F0 : fs.
Hypothesis nodup0 : NoDup (map fst F0).
Hypothesis wf0 : forall p nd, In (p, nd) F0 -> Forall name_ok p.

(* every directory entry, and every file entry with a txtpp name, of the current tree is one of the initial tree *)
Definition fs_ok (F : fs) : Prop :=
  (forall p, In (p, Dir) F -> In (p, Dir) F0) /\
  (forall p c, In (p, File c) F -> is_txtpp_file p = true -> exists c0, In (p, File c0) F0).
Definition dir_mono (F F' : fs) : Prop := forall p, is_dir F p = true -> is_dir F' p = true.
Definition wle (w w' : world) : Prop :=
  (fs_ok (w_fs w) -> fs_ok (w_fs w')) /\ dir_mono (w_fs w) (w_fs w').
Definition winv (w : world) : Prop := fs_ok (w_fs w) /\ dir_mono F0 (w_fs w).

Lemma wle_refl w : wle w w.
Proof. split; [tauto|intros p H; exact H]. Qed.
Lemma wle_trans w1 w2 w3 : wle w1 w2 -> wle w2 w3 -> wle w1 w3.
Proof. intros [A1 B1] [A2 B2]. split; [tauto|]. intros p H. apply B2, B1, H. Qed.
Lemma wle_same_fs w w' : w_fs w' = w_fs w -> wle w w'.
Proof. intros E. unfold wle. rewrite E. split; [tauto|intros p H; exact H]. Qed.
Lemma winv_wle w w' : winv w -> wle w w' -> winv w'.
Proof. intros [A B] [A' B']. split; [tauto|]. intros p H. apply B', B, H. Qed.
Lemma winv_init : winv (mkW F0 []) /\ forall l, winv (mkW F0 l).
Proof.
  assert (H : forall l, winv (mkW F0 l)).
  { intros l. split; cbn.
    - split; [tauto|]. intros p c H _. exists c. exact H.
    - intros p H. exact H. }
  split; [apply H|exact H].
Qed.

Lemma winv_is_dir0 w p : winv w -> is_dir (w_fs w) p = true -> is_dir F0 p = true.
Proof.
  intros [[A _] _] H. destruct p as [|c p]; [apply is_dir_root|].
  apply is_dir_get in H. apply fs_get_in in H; [|discriminate]. apply A in H.
  unfold is_dir. rewrite (in_nodup_fs_get F0 (c :: p) Dir nodup0); [reflexivity|discriminate|exact H].
Qed.
Lemma dir0_names p : is_dir F0 p = true -> Forall name_ok p.
Proof.
  intros H. destruct p as [|c p]; [constructor|].
  apply is_dir_get in H. apply fs_get_in in H; [|discriminate]. apply (wf0 _ _ H).
Qed.
Lemma dirs_upto_to0 w p : winv w -> dirs_upto (w_fs w) p -> dirs_upto F0 p.
Proof.
  intros W [R D]. split; [|apply (winv_is_dir0 w p W D)].
  intros n Hn. apply (winv_is_dir0 w _ W). apply R. exact Hn.
Qed.
Lemma dirs_upto_from0 w p : winv w -> dirs_upto F0 p -> dirs_upto (w_fs w) p.
Proof.
  intros [_ M] [R D]. split; [|apply M, D]. intros n Hn. apply M. apply R. exact Hn.
Qed.
Lemma dirs_upto_resolves F p : dirs_upto F p -> ~ In dotdot p -> os_resolve F p = Some p.
Proof.
  intros [R D] Hn. unfold os_resolve. apply (os_walk_id F p [] Hn R).
  cbn [app]. unfold exists_. rewrite (is_dir_get F p D). reflexivity.
Qed.

(* ---- primitive writes ---- *)
Lemma wle_put F q c l l' :
  is_dir F q = false -> (is_txtpp_file q = false \/ exists c0, fs_get F q = Some (File c0)) ->
  wle (mkW F l) (mkW (fs_put F q (File c)) l').
Proof.
  intros Hd Hq. assert (Hne : q <> []) by (intros ->; rewrite is_dir_root in Hd; discriminate).
  split; cbn [w_fs].
  - intros [A B]. split.
    + intros p [H|H]; [discriminate H|]. apply A. apply (in_fs_del _ _ _ H).
    + intros p c1 [H|H] Ht.
      * inversion H; subst p c1. destruct Hq as [Hq|[c0 Hq]]; [congruence|].
        apply (B q c0); [apply fs_get_in; assumption|exact Ht].
      * apply (B p c1); [apply (in_fs_del _ _ _ H)|exact Ht].
  - intros p H. assert (q <> p) by (intros ->; congruence).
    unfold is_dir in *. rewrite fs_get_put_other by assumption. exact H.
Qed.
Lemma wle_del F q c0 l l' : fs_get F q = Some (File c0) -> wle (mkW F l) (mkW (fs_del F q) l').
Proof.
  intros Hq. split; cbn [w_fs].
  - intros [A B]. split.
    + intros p H. apply A. apply (in_fs_del _ _ _ H).
    + intros p c1 H Ht. apply (B p c1); [apply (in_fs_del _ _ _ H)|exact Ht].
  - intros p H. assert (q <> p) by (intros ->; unfold is_dir in H; rewrite Hq in H; discriminate).
    unfold is_dir in *. rewrite fs_get_del_other by assumption. exact H.
Qed.

Lemma write_target_last F p q : write_target F p = Some q ->
  exists a d n, p = a ++ [n] /\ q = d ++ [n] /\ is_dir F q = false.
Proof.
  unfold write_target. destruct (rev p) as [|n rp] eqn:E; [discriminate|]. apply rev_cons_eq in E.
  destruct (is_normal n); [|discriminate].
  destruct (os_resolve F (rev rp)) as [d|]; [|discriminate].
  destruct (is_dir F d); [|discriminate].
  destruct (is_dir F (d ++ [n])) eqn:D; [discriminate|]. intros H. inversion H; subst q.
  exists (rev rp), d, n. repeat split; assumption.
Qed.
Lemma w_write_wle w p c w' :
  w_write w p c = Some w' ->
  (forall q, write_target (w_fs w) p = Some q ->
             is_txtpp_file q = false \/ exists c0, fs_get (w_fs w) q = Some (File c0)) ->
  wle w w'.
Proof.
  unfold w_write. destruct (write_target (w_fs w) p) as [q|] eqn:T; [|discriminate].
  intros H Hq. inversion H; subst w'. destruct w as [F l]. cbn [w_fs w_log] in *.
  destruct (write_target_last _ _ _ T) as [a [d [n [_ [_ Hd]]]]].
  apply wle_put; [exact Hd|apply Hq; reflexivity].
Qed.
Lemma w_write_wle_plain w p c w' : w_write w p c = Some w' -> is_txtpp_file p = false -> wle w w'.
Proof.
  intros H Hp. apply (w_write_wle _ _ _ _ H). intros q T. left.
  destruct (write_target_last _ _ _ T) as [a [d [n [-> [-> _]]]]].
  rewrite (is_txtpp_last d a n). exact Hp.
Qed.
Lemma w_append_wle w q c w' : w_append w q c = Some w' -> wle w w'.
Proof.
  unfold w_append. destruct (fs_get (w_fs w) q) as [[old|]|] eqn:G; try discriminate.
  intros H. inversion H; subst w'. destruct w as [F l]. cbn [w_fs w_log] in *.
  apply wle_put; [unfold is_dir; rewrite G; reflexivity|right; exists old; exact G].
Qed.
Lemma w_remove_wle w q w' : w_remove_file w q = Some w' -> wle w w'.
Proof.
  unfold w_remove_file. destruct (fs_get (w_fs w) q) as [[old|]|] eqn:G; try discriminate.
  intros H. inversion H; subst w'. destruct w as [F l]. cbn [w_fs w_log] in *.
  apply (wle_del F q old). exact G.
Qed.
Lemma w_emit_wle w e : wle w (w_emit w e).
Proof. apply wle_same_fs. reflexivity. Qed.

(* ---- sinks ---- *)
Definition sink_ok (k : sink) : Prop :=
  match k with SMem p _ => is_txtpp_file p = false | _ => True end.

Lemma sink_new_wle md w out k w' :
  is_txtpp_file out = false -> sink_new md w out = inl (k, w') -> wle w w' /\ sink_ok k.
Proof.
  intros Ho. unfold sink_new. destruct md.
  - destruct (w_write w out []) as [w1|] eqn:E; [|discriminate]. intros H; inversion H; subst.
    split; [apply (w_write_wle_plain _ _ _ _ E Ho)|exact I].
  - intros H; inversion H; subst. split; [apply wle_refl|exact Ho].
  - destruct (exists_ (w_fs w) out).
    + destruct (w_remove_file w out) as [w1|] eqn:E; [|discriminate]. intros H; inversion H; subst.
      split; [apply (w_remove_wle _ _ _ E)|exact I].
    + intros H; inversion H; subst. split; [apply wle_refl|exact I].
  - destruct (fs_get (w_fs w) out) as [[c|]|]; try discriminate. intros H; inversion H; subst.
    split; [apply wle_refl|exact I].
Qed.
Lemma sink_write_wle k w c k' w' :
  sink_ok k -> sink_write k w c = inl (k', w') -> wle w w' /\ sink_ok k'.
Proof.
  intros Hk. unfold sink_write. destruct k as [p|p buf| |p rest].
  - destruct (w_append w p c) as [w1|] eqn:E; [|discriminate]. intros H; inversion H; subst.
    split; [apply (w_append_wle _ _ _ _ E)|exact I].
  - intros H; inversion H; subst. split; [apply wle_refl|exact Hk].
  - intros H; inversion H; subst. split; [apply wle_refl|exact I].
  - destruct (Nat.ltb (length rest) (length c)); [discriminate|].
    destruct (str_eqb (firstn (length c) rest) c); [|discriminate].
    intros H; inversion H; subst. split; [apply wle_refl|exact I].
Qed.
Lemma sink_done_wle k w w' : sink_ok k -> sink_done k w = inl w' -> wle w w'.
Proof.
  intros Hk. unfold sink_done. destruct k as [p|p buf| |p rest].
  - intros H; inversion H; subst. apply wle_refl.
  - cbn [sink_ok] in Hk. destruct (fs_get (w_fs w) p) as [[c|]|].
    + destruct (str_eqb c buf); [intros H; inversion H; subst; apply wle_refl|].
      destruct (w_write w p buf) as [w1|] eqn:E; [|discriminate]. intros H; inversion H; subst.
      apply (w_write_wle_plain _ _ _ _ E Hk).
    + discriminate.
    + destruct (w_write w p buf) as [w1|] eqn:E; [|discriminate]. intros H; inversion H; subst.
      apply (w_write_wle_plain _ _ _ _ E Hk).
  - intros H; inversion H; subst. apply wle_refl.
  - destruct rest; [|discriminate]. intros H; inversion H; subst. apply wle_refl.
Qed.

(* ---- temp files ---- *)
Lemma write_temp_wle w lp c w' : is_txtpp_file lp = false -> write_temp w lp c = inl w' -> wle w w'.
Proof.
  intros Hp. unfold write_temp. destruct (os_resolve (w_fs w) lp) as [q|] eqn:R.
  - destruct (fs_get (w_fs w) q) as [[old|]|] eqn:G; try discriminate.
    destruct (str_eqb old c); [intros H; inversion H; subst; apply wle_refl|].
    destruct (w_write w q c) as [w1|] eqn:E; [|discriminate]. intros H; inversion H; subst.
    apply (w_write_wle _ _ _ _ E). intros q' T.
    rewrite (resolved_file_writable _ _ _ _ R G) in T. inversion T; subst q'. right. exists old. exact G.
  - destruct (w_write w lp []) as [w1|] eqn:E1; [|discriminate].
    pose proof (w_write_wle_plain _ _ _ _ E1 Hp) as L1.
    destruct c as [|b c]; [intros H; inversion H; subst; exact L1|].
    destruct (w_write w1 lp (b :: c)) as [w2|] eqn:E2; [|discriminate]. intros H; inversion H; subst.
    apply (wle_trans _ _ _ L1). apply (w_write_wle_plain _ _ _ _ E2 Hp).
Qed.
Lemma remove_temp_wle w lp w' : remove_temp w lp = inl w' -> wle w w'.
Proof.
  unfold remove_temp. destruct (os_resolve (w_fs w) lp) as [q|].
  - destruct (w_remove_file w q) as [w1|] eqn:E; [|discriminate]. intros H; inversion H; subst.
    apply (w_remove_wle _ _ _ E).
  - intros H; inversion H; subst. apply wle_refl.
Qed.

Lemma lex_components_nonempty s : Forall (fun c => c <> []) (lex_components s).
Proof.
  unfold lex_components. apply Forall_forall. intros c H. apply filter_In in H. destruct H as [_ H].
  destruct c; [discriminate H|discriminate].
Qed.


Lemma is_txtpp_app pre comps : comps <> [] -> is_txtpp_file (pre ++ comps) = is_txtpp_file comps.
Proof.
  intros H. destruct (exists_last H) as [a [c ->]]. rewrite app_assoc.
  rewrite (is_txtpp_last (pre ++ a) a c). reflexivity.
Qed.

Lemma exec_temp_wle src le args cl w w' :
  winv w -> dirs_upto F0 (parent src) -> exec_temp src le args cl w = inl w' -> wle w w'.
Proof.
  intros W Hwd. unfold exec_temp. destruct args as [|export rest]; [discriminate|].
  destruct (is_txtpp_file (lex_components export)) eqn:Et; [discriminate|].
  destruct cl; [apply remove_temp_wle|].
  intros H. destruct (is_txtpp_file (lex_join (work_dir src) export)) eqn:Ej.
  - exfalso. unfold lex_join in Ej, H. destruct (is_absolute export); [congruence|].
    destruct (lex_components export) as [|c0 cs] eqn:Ec.
    + rewrite app_nil_r in H. unfold work_dir in H.
      pose proof (dirs_upto_from0 w _ W Hwd) as Hd.
      assert (Hn : ~ In dotdot (parent src)) by (apply name_ok_no_dotdot, dir0_names; apply Hwd).
      unfold write_temp in H. rewrite (dirs_upto_resolves _ _ Hd Hn) in H.
      destruct Hd as [_ Hd]. rewrite (is_dir_get _ _ Hd) in H. discriminate H.
    + rewrite is_txtpp_app in Ej by discriminate. congruence.
  - apply (write_temp_wle _ _ _ _ Ej H).
Qed.

(* ---- what a pass may add to the universe ---- *)
Definition good_file (q : path) : Prop := In q (src_files F0) /\ dirs_upto F0 (parent q).
Definition good_dir (d : path) : Prop := In d (dir_entries F0) /\ reach F0 d.
Definition deps_ok (m : ppmode) : Prop :=
  match m with PCollect deps => Forall good_file deps | _ => True end.
Definition K (s : pst) : Prop := winv (wld s) /\ sink_ok (snk s) /\ deps_ok (pmode s).

Lemma in_src_files p c : In (p, File c) F0 -> is_txtpp_file p = true -> In p (src_files F0).
Proof.
  intros H Ht. unfold src_files. apply (in_map fst _ (p, File c)). apply filter_In. split; [exact H|exact Ht].
Qed.
Lemma in_dir_entries p : In (p, Dir) F0 -> In p (dir_entries F0).
Proof.
  intros H. unfold dir_entries. right. apply (in_map fst _ (p, Dir)). apply filter_In. split; [exact H|reflexivity].
Qed.

Lemma resolved_txtpp_file_good w x q :
  winv w -> os_resolve (w_fs w) x = Some q -> is_file (w_fs w) q = true -> is_txtpp_file x = true ->
  good_file q.
Proof.
  intros W R Hf Ht.
  destruct (resolved_file_shape _ _ _ R Hf) as [a [d [c [-> [-> Hc]]]]].
  assert (Htq : is_txtpp_file (d ++ [c]) = true) by (rewrite (is_txtpp_last d a c); exact Ht).
  split.
  - destruct (is_file_get _ _ Hf) as [c0 G]. apply fs_get_in in G; [|destruct d; discriminate].
    destruct W as [[_ B] _]. destruct (B _ _ G Htq) as [c1 H1]. apply (in_src_files _ c1 H1 Htq).
  - apply (dirs_upto_to0 w _ W).
    assert (Rq : reach (w_fs w) (d ++ [c])) by (apply (os_walk_reach _ _ _ _ (reach_nil _) R)).
    unfold parent. split; [apply reach_removelast; exact Rq|apply reach_removelast_dir; exact Rq].
Qed.
Lemma resolved_candidate_good w lp x q :
  winv w -> (forall dir n, lp = dir ++ [n] -> n <> []) ->
  get_txtpp_file (w_fs w) lp = Some x -> os_resolve (w_fs w) x = Some q -> good_file q.
Proof.
  intros W Hne G R. unfold get_txtpp_file in G. apply find_some in G. destruct G as [Hin Hf].
  unfold lex_is_file in Hf. rewrite R in Hf.
  destruct (resolved_file_shape _ _ _ R Hf) as [a [d [c [Hx [_ Hc]]]]].
  apply (resolved_txtpp_file_good w x q W R Hf). apply (candidates_txtpp lp x a c Hin Hx Hc Hne).
Qed.
Lemma lex_join_last_nonempty cwd arg :
  Forall (fun c => c <> []) cwd -> forall dir n, lex_join cwd arg = dir ++ [n] -> n <> [].
Proof.
  intros Hc dir n E.
  assert (H : Forall (fun c => c <> []) (lex_join cwd arg)).
  { unfold lex_join. destruct (is_absolute arg); [apply lex_components_nonempty|].
    apply Forall_app. split; [exact Hc|apply lex_components_nonempty]. }
  rewrite E in H. apply Forall_app in H. destruct H as [_ H]. inversion H; subst. assumption.
Qed.
Lemma names_nonempty p : Forall name_ok p -> Forall (fun c => c <> []) p.
Proof. apply Forall_impl. intros c [H _]. exact H. Qed.

Lemma K_set_wld s w' : K s -> wle (wld s) w' -> K (set_wld s w').
Proof. intros [W [Sk Dk]] L. split; [apply (winv_wle _ _ W L)|split; assumption]. Qed.
Lemma K_set_tg s t : K s -> K (set_tg s t).
Proof. intros H. exact H. Qed.
Lemma K_set_cur s c : K s -> K (set_cur s c).
Proof. intros H. exact H. Qed.

Section Pass.
Variable orc : oracle.
Variable md : mode.
Variable src base : path.
Variable le : str.
Hypothesis Hwd : dirs_upto F0 (parent src).

Lemma collect_deps_K d s s' :
  K s -> (collect_deps src d s = inl (inl s') \/ collect_deps src d s = inl (inr s')) -> K s'.
Proof.
  intros HK H. unfold collect_deps in H.
  assert (Hdep : forall x q, get_txtpp_file (w_fs (wld s)) (lex_join (work_dir src) (hd [] (d_args d))) = Some x ->
                             os_resolve (w_fs (wld s)) x = Some q -> good_file q).
  { intros x q G R. destruct HK as [W _]. apply (resolved_candidate_good (wld s) (lex_join (work_dir src) (hd [] (d_args d))) x q W); [|exact G|exact R].
    apply lex_join_last_nonempty. apply names_nonempty. apply dir0_names. apply Hwd. }
  destruct HK as [W [Sk Dk]].
  destruct (pmode s) as [| |deps] eqn:P.
  - destruct H as [H|H]; inversion H; subst. split; [exact W|split; [exact Sk|rewrite P; exact I]].
  - destruct (d_ty d);
      try (destruct H as [H|H]; inversion H; subst; split; [exact W|split; [exact Sk|rewrite P; exact I]]);
      (destruct (get_txtpp_file (w_fs (wld s)) (lex_join (work_dir src) (hd [] (d_args d)))) as [x|];
       [destruct (os_resolve (w_fs (wld s)) x) as [q|] eqn:R; [|destruct H; discriminate];
        specialize (Hdep x q eq_refl R); destruct H as [H|H]; inversion H; subst;
        split; [exact W|split; [exact Sk|cbn; constructor; [exact Hdep|constructor]]]
       |destruct H as [H|H]; inversion H; subst; split; [exact W|split; [exact Sk|rewrite P; exact I]]]).
  - destruct (d_ty d);
      try (destruct H as [H|H]; inversion H; subst; split; [exact W|split; [exact Sk|rewrite P; exact Dk]]);
      (destruct (get_txtpp_file (w_fs (wld s)) (lex_join (work_dir src) (hd [] (d_args d)))) as [x|];
       [destruct (os_resolve (w_fs (wld s)) x) as [q|] eqn:R; [|destruct H; discriminate];
        specialize (Hdep x q eq_refl R); destruct H as [H|H]; inversion H; subst;
        split; [exact W|split; [exact Sk|cbn; apply Forall_app; split; [exact Dk|constructor; [exact Hdep|constructor]]]]
       |destruct H as [H|H]; inversion H; subst; split; [exact W|split; [exact Sk|rewrite P; exact Dk]]]).
Qed.

Lemma exec_directive_K d s o s' : K s -> exec_directive orc md src base le d s = XOut o s' -> K s'.
Proof.
  intros HK H. unfold exec_directive in H.
  assert (Htemp : forall s1 cl w', K s1 -> exec_temp src le (d_args d) cl (wld s1) = inl w' -> K (set_wld s1 w')).
  { intros s1 cl w' HK1 E. apply (K_set_wld _ _ HK1). destruct HK1 as [W1 _]. apply (exec_temp_wle _ _ _ _ _ _ W1 Hwd E). }
  assert (Hmain :
    match collect_deps src d s with
    | inr k => XErr k (wld s)
    | inl (inl s') => XOut None s'
    | inl (inr s') =>
        match d_ty d with
        | DRun =>
            match orc (join [SPb] (d_args d)) (work_dir src) (input_display src base) with
            | Some out => XOut (Some out) (set_wld s' (w_emit (wld s') (ERun (join [SPb] (d_args d)) (work_dir src) (input_display src base))))
            | None => XErr KDirective (w_emit (wld s') (ERun (join [SPb] (d_args d)) (work_dir src) (input_display src base)))
            end
        | DInclude =>
            match os_resolve (w_fs (wld s')) (lex_join (work_dir src) (hd [] (d_args d))) with
            | Some q =>
                match read_file (w_fs (wld s')) q with
                | Some c => if utf8_valid c then XOut (Some c) s' else XErr KDirective (wld s')
                | None => XErr KDirective (wld s')
                end
            | None => XErr KDirective (wld s')
            end
        | DTag => match create (tg s') (hd [] (d_args d)) with
                  | Some t' => XOut None (set_tg s' t')
                  | None => XErr KDirective (wld s')
                  end
        | DTemp => match exec_temp src le (d_args d) false (wld s') with
                   | inl w' => XOut None (set_wld s' w')
                   | inr k => XErr k (wld s')
                   end
        | DWrite => XOut (Some (join [LFb] (d_args d))) s'
        | _ => XOut None s'
        end
    end = XOut o s' -> K s').
  { clear H. intros H.
    destruct (collect_deps src d s) as [[s1|s1]|k] eqn:C; [| |discriminate].
    - inversion H; subst. apply (collect_deps_K d s s' HK). left. exact C.
    - assert (HK1 : K s1) by (apply (collect_deps_K d s s1 HK); right; exact C).
      destruct (d_ty d).
      + inversion H; subst. exact HK1.
      + destruct (os_resolve (w_fs (wld s1)) (lex_join (work_dir src) (hd [] (d_args d)))) as [q|]; [|discriminate].
        destruct (read_file (w_fs (wld s1)) q) as [c|]; [|discriminate].
        destruct (utf8_valid c); [|discriminate]. inversion H; subst. exact HK1.
      + inversion H; subst. exact HK1.
      + destruct (orc (join [SPb] (d_args d)) (work_dir src) (input_display src base)); [|discriminate].
        inversion H; subst. apply (K_set_wld _ _ HK1). apply w_emit_wle.
      + destruct (create (tg s1) (hd [] (d_args d))); [|discriminate]. inversion H; subst. exact HK1.
      + destruct (exec_temp src le (d_args d) false (wld s1)) as [w'|k] eqn:E; [|discriminate].
        inversion H; subst. apply (Htemp _ _ _ HK1 E).
      + inversion H; subst. exact HK1. }
  destruct md; try (apply Hmain; exact H).
  destruct (d_ty d); try (inversion H; subst; exact HK).
  destruct (exec_temp src le (d_args d) true (wld s)) as [w'|k] eqn:E.
  - inversion H; subst. apply (Htemp _ _ _ HK E).
  - inversion H; subst. exact HK.
Qed.

Lemma emit_K s o t s' : K s -> emit le s o t = StOk s' -> K s'.
Proof.
  intros HK. unfold emit. destruct (is_execute (pmode s)); [|intros H; inversion H; subst; exact HK].
  destruct o as [x|]; [|intros H; inversion H; subst; exact HK].
  destruct HK as [W [Sk Dk]].
  assert (H1 : forall k1 w1, (if flag s then sink_write (snk s) (wld s) le else inl (snk s, wld s)) = inl (k1, w1) ->
                             wle (wld s) w1 /\ sink_ok k1).
  { intros k1 w1. destruct (flag s).
    - apply sink_write_wle. exact Sk.
    - intros H; inversion H; subst. split; [apply wle_refl|exact Sk]. }
  destruct (if flag s then sink_write (snk s) (wld s) le else inl (snk s, wld s)) as [[k1 w1]|k]; [|discriminate].
  destruct (H1 k1 w1 eq_refl) as [L1 S1].
  destruct (sink_write k1 w1 x) as [[k2 w2]|k] eqn:E2; [|discriminate].
  destruct (sink_write_wle _ _ _ _ _ S1 E2) as [L2 S2].
  intros H; inversion H; subst. split; [|split; [exact S2|exact Dk]].
  cbn. apply (winv_wle _ _ W). apply (wle_trans _ _ _ L1 L2).
Qed.

Lemma run_directive_K d t s s' : K s -> run_directive orc md src base le d t s = StOk s' -> K s'.
Proof.
  intros HK. unfold run_directive.
  destruct (exec_directive orc md src base le d s) as [[raw|] s1|k w] eqn:E; [| |discriminate].
  - pose proof (exec_directive_K _ _ _ _ HK E) as HK1.
    destruct (try_store (tg s1) raw); apply emit_K; exact HK1.
  - pose proof (exec_directive_K _ _ _ _ HK E) as HK1. apply emit_K. exact HK1.
Qed.

Lemma step_fresh_K l s s' : K s -> step_fresh md le l s = StOk s' -> K s'.
Proof.
  intros HK. unfold step_fresh.
  assert (Ht : forall l0, (if is_execute (pmode s)
                           then match inject (tg s) l0 le with
                                | Some (l', t') => emit le (set_tg s t') (Some l') false
                                | None => StPanic
                                end
                           else emit le s (Some l0) false) = StOk s' -> K s').
  { intros l0. destruct (is_execute (pmode s)); [|apply emit_K; exact HK].
    destruct (inject (tg s) l0 le) as [[l' t']|]; [|discriminate]. apply emit_K. exact HK. }
  destruct (detect_from l) as [d|]; [|apply Ht].
  destruct (multi (d_ty d) && match d_prefix d with [] => true | _ => false end).
  - destruct md; try discriminate. apply Ht.
  - intros H; inversion H; subst. exact HK.
Qed.

Lemma step_line_K l s s' : K s -> step_line orc md src base le l s = StOk s' -> K s'.
Proof.
  intros HK. unfold step_line. destruct (cur s) as [d|]; [|apply step_fresh_K; exact HK].
  destruct (add_line d l) as [d'| |]; [intros H; inversion H; subst; exact HK| |discriminate].
  destruct (run_directive orc md src base le d true (set_cur s None)) as [s1|k w|] eqn:E; try discriminate.
  apply step_fresh_K. apply (run_directive_K _ _ _ _ (K_set_cur s None HK) E).
Qed.

Lemma run_lines_K ls : forall s s', K s -> run_lines orc md src base le ls s = StOk s' -> K s'.
Proof.
  induction ls as [|l r IH]; intros s s' HK H; cbn [run_lines] in H.
  - inversion H; subst. exact HK.
  - destruct (step_line orc md src base le l s) as [s1|k w|] eqn:E; try discriminate.
    apply (IH s1 s' (step_line_K _ _ _ HK E) H).
Qed.

Lemma finish_K tn s : K s ->
  match finish orc md src base le tn s with
  | PpOk w' => winv w'
  | PpHasDeps deps w' => winv w' /\ Forall good_file deps
  | _ => True
  end.
Proof.
  intros HK. unfold finish.
  assert (H1 : forall s1, (match cur s with
                           | Some d => run_directive orc md src base le d false (set_cur s None)
                           | None => StOk s end) = StOk s1 -> K s1).
  { intros s1. destruct (cur s) as [d|].
    - apply run_directive_K. exact HK.
    - intros H; inversion H; subst. exact HK. }
  destruct (match cur s with
            | Some d => run_directive orc md src base le d false (set_cur s None)
            | None => StOk s end) as [s1|k w|]; try exact I.
  destruct (H1 s1 eq_refl) as [W [Sk Dk]].
  assert (H2 : match (if has_tags (tg s1) && negb (mode_eqb md Clean) then PpErr KDirective (wld s1)
                      else match (if flag s1 && tn then sink_write (snk s1) (wld s1) le else inl (snk s1, wld s1)) with
                           | inl (k1, w1) => match sink_done k1 w1 with inl w2 => PpOk w2 | inr k => PpErr k w1 end
                           | inr k => PpErr k (wld s1)
                           end) with
               | PpOk w' => winv w'
               | PpHasDeps deps w' => winv w' /\ Forall good_file deps
               | _ => True end).
  { destruct (has_tags (tg s1) && negb (mode_eqb md Clean)); [exact I|].
    assert (H3 : forall k1 w1, (if flag s1 && tn then sink_write (snk s1) (wld s1) le else inl (snk s1, wld s1)) = inl (k1, w1) ->
                               wle (wld s1) w1 /\ sink_ok k1).
    { intros k1 w1. destruct (flag s1 && tn).
      - apply sink_write_wle. exact Sk.
      - intros H; inversion H; subst. split; [apply wle_refl|exact Sk]. }
    destruct (if flag s1 && tn then sink_write (snk s1) (wld s1) le else inl (snk s1, wld s1)) as [[k1 w1]|k]; [|exact I].
    destruct (H3 k1 w1 eq_refl) as [L1 S1].
    destruct (sink_done k1 w1) as [w2|k] eqn:E; [|exact I].
    apply (winv_wle _ _ W). apply (wle_trans _ _ _ L1). apply (sink_done_wle _ _ _ S1 E). }
  destruct (pmode s1) as [| |deps]; [exact H2|exact H2|]. split; [exact W|exact Dk].
Qed.
End Pass.

Theorem pp_run_K orc md base src first tn w :
  winv w -> dirs_upto F0 (parent src) ->
  match pp_run orc md base src first tn w with
  | PpOk w' => winv w'
  | PpHasDeps deps w' => winv w' /\ Forall good_file deps
  | _ => True
  end.
Proof.
  intros W Hwd. unfold pp_run. destruct (read_file (w_fs w) src) as [raw|]; [|exact I].
  destruct (remove_txtpp src) as [out|]; [|exact I].
  destruct (is_txtpp_file out) eqn:Eo; [exact I|].
  destruct (sink_new md w out) as [[k0 w0]|k] eqn:Es; [|exact I].
  destruct (sink_new_wle _ _ _ _ _ Eo Es) as [L0 S0].
  destruct (take_valid (lines raw)) as [ls bad].
  set (s0 := mkP None false (if first then PFirst else PExec) tags_new k0 w0).
  assert (HK0 : K s0).
  { split; [apply (winv_wle _ _ W L0)|]. split; [exact S0|]. cbn. destruct first; exact I. }
  destruct (run_lines orc md src base (detect_le raw) ls s0) as [s1|k w1|] eqn:E; try exact I.
  destruct bad; [exact I|].
  apply (finish_K orc md src base (detect_le raw) Hwd). apply (run_lines_K orc md src base (detect_le raw) Hwd _ _ _ HK0 E).
Qed.

(* ---- scanning a directory, resolving the inputs ---- *)
Lemma good_dir_upto d : good_dir d -> dirs_upto F0 d.
Proof.
  intros [Hin R]. split; [exact R|]. unfold dir_entries in Hin. destruct Hin as [<-|Hin]; [apply is_dir_root|].
  apply in_map_iff in Hin. destruct Hin as [[p nd] [E Hin]]. cbn in E. subst p.
  apply filter_In in Hin. destruct Hin as [Hin Hd]. cbn in Hd. destruct nd; [discriminate|].
  destruct d as [|c d]; [apply is_dir_root|].
  unfold is_dir. rewrite (in_nodup_fs_get F0 (c :: d) Dir nodup0); [reflexivity|discriminate|exact Hin].
Qed.

Lemma scan_dir_good w d rec fs ds :
  winv w -> good_dir d -> scan_dir (w_fs w) d rec = Some (fs, ds) ->
  Forall good_file fs /\ Forall good_dir ds.
Proof.
  intros W Hd. pose proof (good_dir_upto d Hd) as Hu.
  unfold scan_dir. destruct (is_dir (w_fs w) d); [|discriminate]. intros H. inversion H; subst. clear H.
  destruct W as [[A B] M]. split; apply Forall_forall; intros x Hx; apply in_flat_map in Hx;
    destruct Hx as [[n nd] [Hc Hx]]; cbn [fst snd] in Hx; apply children_in in Hc.
  - destruct nd as [c|]; [|destruct Hx]. destruct (is_txtpp_file [n]) eqn:Et; [|destruct Hx].
    destruct Hx as [<-|[]].
    assert (Ht : is_txtpp_file (d ++ [n]) = true) by (rewrite (is_txtpp_last d [] n); exact Et).
    split.
    + destruct (B _ _ Hc Ht) as [c0 H0]. apply (in_src_files _ c0 H0 Ht).
    + unfold parent. rewrite removelast_last. exact Hu.
  - destruct nd as [c|]; [destruct Hx|]. destruct rec; [|destruct Hx]. destruct Hx as [<-|[]].
    split; [apply in_dir_entries; apply A; exact Hc|].
    destruct Hu as [R D]. apply reach_snoc; assumption.
Qed.

Lemma exists_names p : exists_ F0 p = true -> Forall name_ok p.
Proof.
  unfold exists_. destruct p as [|c p]; [constructor|].
  destruct (fs_get F0 (c :: p)) as [nd|] eqn:G; [|discriminate]. intros _.
  apply fs_get_in in G; [|discriminate]. apply (wf0 _ _ G).
Qed.

Lemma resolve_inputs_good base inputs : forall files dirs files' dirs',
  Forall (fun c => c <> []) base ->
  Forall good_file files -> Forall good_dir dirs ->
  resolve_inputs F0 base inputs files dirs = Some (files', dirs') ->
  Forall good_file files' /\ Forall good_dir dirs'.
Proof.
  destruct (winv_init) as [_ W0]. specialize (W0 []).
  induction inputs as [|i r IH]; intros files dirs files' dirs' Hb Hf Hd H; cbn [resolve_inputs] in H.
  - inversion H; subst. split; assumption.
  - destruct (lex_is_dir F0 (lex_join base i)) eqn:Ld.
    + destruct (os_resolve F0 (lex_join base i)) as [d|] eqn:R; [|discriminate].
      apply (IH _ _ _ _ Hb Hf) in H; [exact H|]. apply Forall_app. split; [exact Hd|]. constructor; [|constructor].
      unfold lex_is_dir in Ld. rewrite R in Ld. split.
      * destruct d as [|c d]; [left; reflexivity|]. apply in_dir_entries. apply fs_get_in; [discriminate|].
        apply is_dir_get. exact Ld.
      * apply (os_walk_reach _ _ _ _ (reach_nil _) R).
    + destruct (negb (is_txtpp_file (lex_join base i))) eqn:Nt.
      * destruct (get_txtpp_file F0 (lex_join base i)) as [x|] eqn:G; [|discriminate].
        destruct (os_resolve F0 x) as [q|] eqn:R; [|discriminate].
        apply (IH _ _ _ _ Hb) in H; [exact H| |exact Hd]. apply Forall_app. split; [exact Hf|]. constructor; [|constructor].
        apply (resolved_candidate_good (mkW F0 []) (lex_join base i) x q W0); [|exact G|exact R].
        apply lex_join_last_nonempty. exact Hb.
      * destruct (os_resolve F0 (lex_join base i)) as [q|] eqn:R; [|discriminate].
        apply (IH _ _ _ _ Hb) in H; [exact H| |exact Hd]. apply Forall_app. split; [exact Hf|]. constructor; [|constructor].
        apply (resolved_txtpp_file_good (mkW F0 []) (lex_join base i) q W0 R).
        -- unfold lex_is_dir in Ld. rewrite R in Ld. pose proof (os_walk_exists _ _ _ _ R) as He.
           unfold exists_ in He. unfold is_dir in Ld. unfold is_file. cbn [w_fs].
           destruct (fs_get F0 q) as [[c|]|]; [reflexivity|discriminate|discriminate].
        -- destruct (is_txtpp_file (lex_join base i)); [reflexivity|discriminate].
Qed.

(* ---- what `handle` adds to the seen sets ---- *)
Definition res_files (r : result) : list file :=
  match r with RScan (Some (fs, _)) => fs | RPp _ (Some (PDeps ds)) => ds | _ => [] end.
Definition res_dirs (r : result) : list path :=
  match r with RScan (Some (_, ds)) => ds | _ => [] end.

Lemma seen_exec_file_inv s f b x : In x (seen (exec_file s f b)) -> In x (seen s) \/ (b = true /\ x = f).
Proof.
  unfold exec_file. destruct (b && pmem f (seen s)); [left; assumption|]. cbn [seen].
  destruct b; [|left; assumption]. intros [H|H]; [right; split; [reflexivity|symmetry; exact H]|left; exact H].
Qed.
Lemma seen_dirs_exec_file s f b : seen_dirs (exec_file s f b) = seen_dirs s.
Proof. unfold exec_file. destruct (b && pmem f (seen s)); reflexivity. Qed.
Lemma seen_exec_dir_eq s d : seen (exec_dir s d) = seen s.
Proof. unfold exec_dir. destruct (pmem d (seen_dirs s)); reflexivity. Qed.
Lemma seen_dirs_exec_dir_inv s d x : In x (seen_dirs (exec_dir s d)) -> In x (seen_dirs s) \/ x = d.
Proof.
  unfold exec_dir. destruct (pmem d (seen_dirs s)); [left; assumption|]. cbn [seen_dirs].
  intros [H|H]; [right; symmetry; exact H|left; exact H].
Qed.
Lemma seen_fold_file_inv b fs x : forall s,
  In x (seen (fold_left (fun s f => exec_file s f b) fs s)) -> In x (seen s) \/ (b = true /\ In x fs).
Proof.
  induction fs as [|f r IH]; intros s H; cbn [fold_left] in H; [left; exact H|].
  apply IH in H. destruct H as [H|[Hb H]]; [|right; split; [exact Hb|right; exact H]].
  apply seen_exec_file_inv in H. destruct H as [H|[Hb ->]]; [left; exact H|right; split; [exact Hb|left; reflexivity]].
Qed.
Lemma seen_dirs_fold_file b fs : forall s, seen_dirs (fold_left (fun s f => exec_file s f b) fs s) = seen_dirs s.
Proof.
  induction fs as [|f r IH]; intros s; cbn [fold_left]; [reflexivity|]. rewrite IH. apply seen_dirs_exec_file.
Qed.
Lemma seen_fold_dir_eq ds : forall s, seen (fold_left exec_dir ds s) = seen s.
Proof.
  induction ds as [|d r IH]; intros s; cbn [fold_left]; [reflexivity|]. rewrite IH. apply seen_exec_dir_eq.
Qed.
Lemma seen_dirs_fold_dir_inv ds x : forall s,
  In x (seen_dirs (fold_left exec_dir ds s)) -> In x (seen_dirs s) \/ In x ds.
Proof.
  induction ds as [|d r IH]; intros s H; cbn [fold_left] in H; [left; exact H|].
  apply IH in H. destruct H as [H|H]; [|right; right; exact H].
  apply seen_dirs_exec_dir_inv in H. destruct H as [H| ->]; [left; exact H|right; left; reflexivity].
Qed.

Lemma handle_seen s r s2 : handle s r = Continue s2 ->
  (forall x, In x (seen s2) -> In x (seen s) \/ In x (res_files r)) /\
  (forall x, In x (seen_dirs s2) -> In x (seen_dirs s) \/ In x (res_dirs r)).
Proof.
  intros H. destruct (handle_cases _ _ _ H) as
    [[fs [ds [-> ->]]]|[[f [m [rel [-> [_ ->]]]]]|[[f [ds [m [-> [_ ->]]]]]|[f [ds [m [-> [_ ->]]]]]]]];
    cbn [res_files res_dirs]; split; intros x Hx.
  - rewrite seen_fold_dir_eq in Hx. apply seen_fold_file_inv in Hx. destruct Hx as [Hx|[_ Hx]]; [left; exact Hx|right; exact Hx].
  - apply seen_dirs_fold_dir_inv in Hx. destruct Hx as [Hx|Hx]; [|right; exact Hx].
    rewrite seen_dirs_fold_file in Hx. left. exact Hx.
  - apply seen_fold_file_inv in Hx. destruct Hx as [Hx|[Hb _]]; [left; exact Hx|discriminate Hb].
  - rewrite seen_dirs_fold_file in Hx. left. exact Hx.
  - apply seen_fold_file_inv in Hx. destruct Hx as [Hx|[_ Hx]]; [left; exact Hx|right; exact Hx].
  - rewrite seen_dirs_fold_file in Hx. left. exact Hx.
  - apply seen_exec_file_inv in Hx. destruct Hx as [Hx|[Hb _]]; [left; exact Hx|discriminate Hb].
  - rewrite seen_dirs_exec_file in Hx. left. exact Hx.
Qed.

(* ---- the invariant of the concrete run ---- *)
Definition Jrun (s : cstate) (w : world) : Prop :=
  winv w /\ (forall f, In f (seen s) -> good_file f) /\ (forall d, In d (seen_dirs s) -> good_dir d).

Lemma Jrun_step orc cfg base files dirs g w t rest r w' s2 :
  greach files dirs g -> Jrun (gs g) w -> Permutation (inflight (gs g)) (t :: rest) ->
  exec_task orc cfg base t w = Some (r, w') -> handle (with_inflight (gs g) rest) r = Continue s2 -> Jrun s2 w'.
Proof.
  intros R [W [Jf Jd]] HP Hex Hh.
  assert (Hts : tseen (gs g) t).
  { destruct (inv_reach _ _ _ R) as [HI _]. apply (i_fl_seen HI).
    apply (Permutation_in t (Permutation_sym HP)). left. reflexivity. }
  destruct (handle_seen _ _ _ Hh) as [Hs1 Hs2]. cbn [with_inflight seen seen_dirs] in Hs1, Hs2.
  assert (Hres : winv w' /\ Forall good_file (res_files r) /\ Forall good_dir (res_dirs r)).
  { destruct t as [d|f first]; cbn [exec_task] in Hex.
    - inversion Hex; subst. split; [exact W|].
      destruct (scan_dir (w_fs w') d (cfg_recursive cfg)) as [[fs ds]|] eqn:Es; cbn [res_files res_dirs].
      + apply (scan_dir_good w' d _ fs ds W (Jd d Hts) Es).
      + split; constructor.
    - pose proof (pp_run_K orc (cfg_mode cfg) base f first (cfg_trailing cfg) w W (proj2 (Jf f Hts))) as HK.
      destruct (pp_run orc (cfg_mode cfg) base f first (cfg_trailing cfg) w) as [w1|deps w1|k w1|];
        inversion Hex; subst; cbn [res_files res_dirs].
      + split; [exact HK|split; constructor].
      + destruct HK as [HK1 HK2]. split; [exact HK1|split; [exact HK2|constructor]].
      + cbn in Hh. discriminate Hh. }
  destruct Hres as [W' [Rf Rd]]. rewrite Forall_forall in Rf, Rd.
  split; [exact W'|]. split.
  - intros x Hx. destruct (Hs1 x Hx) as [H|H]; [apply Jf; exact H|apply Rf; exact H].
  - intros x Hx. destruct (Hs2 x Hx) as [H|H]; [apply Jd; exact H|apply Rd; exact H].
Qed.

Lemma Jrun_bound s w : Jrun s w -> incl (seen s) (src_files F0) /\ incl (seen_dirs s) (dir_entries F0).
Proof.
  intros [_ [Jf Jd]]. split; intros x Hx; [apply (Jf x Hx)|apply (Jd x Hx)].
Qed.

End Universe.

Definition legal_names (F : fs) : Prop := forall p nd, In (p, nd) F -> Forall name_ok p.

(* C03 / C18: a run always terminates within 2|sources|+|directories| completed tasks, whatever the schedule, the
   command oracle and the configuration, on every initial tree without duplicate entries whose path components
   are legal file names (non-empty, not `..`) *)
Theorem txtpp_run_terminates orc cfg fuel sched w :
  NoDup (map fst (w_fs w)) -> legal_names (w_fs w) ->
  (fuel > 2 * length (src_files (w_fs w)) + length (dir_entries (w_fs w)))%nat ->
  verdict_of (txtpp_run orc cfg fuel sched w) <> VFuel.
Proof.
  intros ND WF Hfuel. unfold txtpp_run.
  destruct (cfg_threads cfg =? 0); [discriminate|].
  destruct (os_resolve (w_fs w) (cfg_base cfg)) as [base|] eqn:Rb; [|discriminate].
  destruct (resolve_inputs (w_fs w) base (cfg_inputs cfg) [] []) as [[files dirs]|] eqn:Ri; [|discriminate].
  set (F0 := w_fs w) in *.
  assert (Hb : Forall (fun c => c <> []) base).
  { apply names_nonempty. apply (exists_names F0 WF). apply (os_walk_exists _ _ _ _ Rb). }
  destruct (resolve_inputs_good F0 ND base (cfg_inputs cfg) [] [] files dirs Hb (Forall_nil _) (Forall_nil _) Ri)
    as [Gf Gd].
  rewrite Forall_forall in Gf, Gd.
  change (fold_left exec_dir dirs (fold_left (fun s f => exec_file s f true) files c_init))
    with (gs (ginit files dirs)).
  apply (run_loop_fuel_enough_inv orc cfg base files dirs (Jrun F0) (ginit files dirs) fuel sched w []
           (src_files F0) (dir_entries F0)).
  - intros g w0 t rest r w' s2. apply (Jrun_step F0 ND WF).
  - intros s w0. apply Jrun_bound.
  - apply greach_init.
  - split; [|split].
    + destruct w as [F l]. apply (winv_init F0).
    + intros f Hf. apply Gf. cbn [ginit gs] in Hf. rewrite seen_fold_dir_eq in Hf.
      apply seen_fold_file_inv in Hf. destruct Hf as [[]|[_ Hf]]. exact Hf.
    + intros d Hd. apply Gd. cbn [ginit gs] in Hd. apply seen_dirs_fold_dir_inv in Hd.
      destruct Hd as [Hd|Hd]; [|exact Hd]. rewrite seen_dirs_fold_file in Hd. destruct Hd.
  - cbn [ginit history length]. rewrite Nat.add_0_r. exact Hfuel.
Qed.

(* non-vacuity: a tree `d/` with `d/a.txtpp` = "hi\n" satisfies the hypotheses; scanning `d` recursively with an
   in-memory build and fuel 5 > 2*1 + 2 ends with VOk *)
Definition ex_fs : fs := [([[100]], Dir); ([[100]; [97; 46; 116; 120; 116; 112; 112]], File [104; 105; 10])].
Definition ex_w : world := mkW ex_fs [].
Definition ex_cfg : config := mkCfg [] [[100]] true 1 InMemoryBuild false.
Example txtpp_run_terminates_nonvacuous :
  NoDup (map fst (w_fs ex_w)) /\ legal_names (w_fs ex_w) /\
  (5 > 2 * length (src_files (w_fs ex_w)) + length (dir_entries (w_fs ex_w)))%nat /\
  verdict_of (txtpp_run cx_orc ex_cfg 5 [] ex_w) = VOk.
Proof.
  split; [|split; [|split]].
  - cbn. repeat constructor; cbn; intuition discriminate.
  - intros p nd [H|[H|[]]]; inversion H; subst; repeat constructor; discriminate.
  - vm_compute. repeat constructor.
  - vm_compute. reflexivity.
Qed.
