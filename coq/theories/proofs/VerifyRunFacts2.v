(* VerifyRunFacts2.v — whole-run statements of C06, part 2: S2, a Verify run from the result of a successful Build run
   succeeds whatever its schedule, leaves the tree as it is and never writes an output. *)
Require Import Txtpp.Str Txtpp.Consts Txtpp.Grammar Txtpp.Tags Txtpp.Path Txtpp.Fs Txtpp.Sink Txtpp.Pp Txtpp.Spec.
Require Import Txtpp.Dep Txtpp.Coord Txtpp.Run.
Require Import Txtpp.proofs.StrFacts Txtpp.proofs.SinkFacts Txtpp.proofs.PathFacts Txtpp.proofs.PpFacts Txtpp.proofs.EventFacts.
Require Import Txtpp.proofs.FrameFacts Txtpp.proofs.ConfluenceFacts Txtpp.proofs.DepFacts Txtpp.proofs.CoordFacts Txtpp.proofs.RunFacts.
Require Import Txtpp.proofs.ScheduleFacts Txtpp.proofs.RunEventsFacts Txtpp.proofs.ScheduleTempFacts Txtpp.proofs.CleanVerifyFacts.
Require Import Txtpp.proofs.VerifyRunFacts1.
From Coq Require Import Lia Permutation.

Local Open Scope bool_scope.

(* The static condition that S2 adds to `sched_ok_temps`: no include directive and no temp directive of a source names
   the output of that source (the side conditions of CleanVerifyFacts.verify_pass_iff). *)
Definition outputs_unnamed (w : world) : Prop :=
  forall f out, is_source w f out ->
    ~ In out (map (tpath f) (include_args (items_of Build w f))) /\ ~ In out (own_temps w f).

(* the configuration of the Verify run: everything as in the Build run except the mode *)
Definition verify_cfg (cfg : config) : config :=
  mkCfg (cfg_base cfg) (cfg_inputs cfg) (cfg_recursive cfg) (cfg_threads cfg) Verify (cfg_trailing cfg).

Lemma build_ok_write_target orc base f b tn w w' out :
  pp_run orc Build base f b tn w = PpOk w' -> remove_txtpp f = Some out -> write_target (w_fs w) out <> None.
Proof.
  rewrite pp_run_unfold. intros H Ho. rewrite Ho in H.
  destruct (read_file (w_fs w) f); [|discriminate]. destruct (is_txtpp_file out); [discriminate|].
  unfold sink_new, w_write in H. destruct (write_target (w_fs w) out); [discriminate|discriminate H].
Qed.

(* the events a Verify run may log besides ERun: the write of a temp target of a source *)
Definition PV (w0 : world) (e : event) : Prop :=
  forall p, ev_path e = Some p -> e = EWrite p /\ exists f out, is_source w0 f out /\ In p (own_temps w0 f).

Section Passes.
Variable orc : oracle.
Variable cfg : config.
Variable base : path.
Hypothesis Hmd : cfg_mode cfg = Build.
Variable w0 : world.
Hypothesis HS : sched_ok_temps w0.
Hypothesis HV : outputs_unnamed w0.
Let tn := cfg_trailing cfg.

Lemma side_in wv f out :
  is_source w0 f out -> agree nt (w_fs w0) (w_fs wv) -> write_target (w_fs wv) out <> None -> pass_side wv f out.
Proof.
  intros Hsrc A Hw. destruct (HS f out Hsrc) as (Hn & _). destruct (HV f out Hsrc) as [H1 H2].
  destruct (src_sameT w0 HS wv f out A Hsrc) as (_ & Ei & _).
  split; [exact (proj1 Hsrc)|]. split; [exact Hn|]. rewrite Ei. split; [exact H1|]. split; [exact H2|exact Hw].
Qed.

Lemma temp_targets_own wv f out :
  is_source w0 f out -> agree nt (w_fs w0) (w_fs wv) -> temp_targets Verify wv f = own_temps w0 f.
Proof.
  intros Hsrc A. destruct (src_sameT w0 HS wv f out A Hsrc) as (_ & Ei & _).
  unfold temp_targets, own_temps. change (items_of Verify wv f) with (items_of Build wv f). rewrite Ei. reflexivity.
Qed.

(* one Verify pass, whatever its outcome: it logs only writes of own temp targets, and leaves every other path alone *)
Lemma verify_pass_PV wv f out b :
  is_source w0 f out -> agree nt (w_fs w0) (w_fs wv) ->
  tr (PV w0) wv (out_world (pp_run orc Verify base f b tn wv) wv).
Proof.
  intros Hsrc A. eapply tr_mono; [|apply (verify_pass_tr orc cfg base f b tn wv)].
  intros e He p Hp. destruct (He p Hp) as (E1 & E2 & _). split; [exact E1|].
  exists f, out. split; [exact Hsrc|]. rewrite <- (temp_targets_own wv f out Hsrc A). exact E2.
Qed.

Lemma verify_pass_frame wv f out b p :
  is_source w0 f out -> agree nt (w_fs w0) (w_fs wv) -> ~ In p (own_temps w0 f) ->
  fs_get (w_fs (out_world (pp_run orc Verify base f b tn wv) wv)) p = fs_get (w_fs wv) p.
Proof.
  intros Hsrc A Hp. destruct (verify_pass_tr orc cfg base f b tn wv) as (evs & _ & HA & HF).
  apply HF. intros e He Hev. rewrite Forall_forall in HA. destruct (HA e He p Hev) as (_ & E2 & _).
  apply Hp. rewrite <- (temp_targets_own wv f out Hsrc A). exact E2.
Qed.

(* ---- the built world ---- *)
Variable W1 : world.
Variable SA : list path.
Hypothesis A1 : agree nt (w_fs w0) (w_fs W1).
Hypothesis HFP : forall f out, In f SA -> is_source w0 f out -> FPT orc cfg base w0 f out W1.

Lemma out_in_fp f out : remove_txtpp f = Some out -> In out (fp w0 f).
Proof. intros Ho. rewrite (fp_shape w0 f out Ho). right. left. reflexivity. Qed.
Lemma own_in_fp f out p : remove_txtpp f = Some out -> In p (own_temps w0 f) -> In p (fp w0 f).
Proof. intros Ho Hp. rewrite (fp_shape w0 f out Ho). right. right. exact Hp. Qed.

Lemma sdeps_verify wv f out : is_source w0 f out -> agree nt (w_fs w0) (w_fs wv) ->
  dep_targets (w_fs wv) f (items_of Verify wv f) = sdeps w0 f /\ cands_apart Verify wv f.
Proof.
  intros Hsrc A. destruct (src_sameT w0 HS wv f out A Hsrc) as (_ & _ & _ & Hca & Esd & _).
  split; [exact Esd|exact Hca].
Qed.

(* (i) the LAST pass of f in the Verify run, in a world wv that differs from the built world on a set D of temp targets
   that f looks at only if they are its own: it succeeds, restores the footprint of f to what the built world holds
   and leaves everything else alone *)
Lemma verify_last_pass f out D wv :
  In f SA -> is_source w0 f out -> agree nt (w_fs w0) (w_fs wv) ->
  (forall p, In p D -> In p (foots w0)) ->
  (forall p, ~ In p D -> fs_get (w_fs W1) p = fs_get (w_fs wv) p) ->
  (forall p, In p (pass_probes (lastflag w0 f) w0 f) -> In p D -> In p (fp w0 f)) ->
  ~ In out D ->
  exists wv', pp_run orc Verify base f (lastflag w0 f) tn wv = PpOk wv' /\
    (forall p, In p (fp w0 f) -> fs_get (w_fs wv') p = fs_get (w_fs W1) p) /\
    (forall p, ~ In p (fp w0 f) -> fs_get (w_fs wv') p = fs_get (w_fs wv) p).
Proof.
  intros HfS Hsrc Av HD Hag Hpr HoD. pose proof Hsrc as [Ho _].
  destruct (HFP f out HfS Hsrc) as (w'' & E & Eq).
  destruct (pass_two_worldsT orc cfg base w0 HS f out D W1 wv Hsrc A1 Av HD Hag Hpr w'' E) as (wb'' & Eb & Eqb).
  fold tn in Eb, E.
  assert (Ebf : pp_run orc Build base f false tn wv = PpOk wb'').
  { destruct (lastflag w0 f); [apply first_ok_is_final; [discriminate|exact Eb]|exact Eb]. }
  pose proof (side_in wv f out Hsrc Av (build_ok_write_target _ _ _ _ _ _ _ _ Ebf Ho)) as Hside.
  assert (Esame : fs_get (w_fs wb'') out = fs_get (w_fs wv) out).
  { rewrite (Eqb out (out_in_fp f out Ho)), (Eq out (out_in_fp f out Ho)). apply Hag. exact HoD. }
  destruct (verify_of_build orc base f tn wv out wb'' Hside Ebf Esame) as (wvv & Ev & Heq).
  assert (Efp : forall p, In p (fp w0 f) -> fs_get (w_fs wvv) p = fs_get (w_fs W1) p).
  { intros p Hp. rewrite (Heq p), (Eqb p Hp). apply Eq. exact Hp. }
  assert (Eother : forall p, ~ In p (fp w0 f) -> fs_get (w_fs wvv) p = fs_get (w_fs wv) p).
  { intros p Hp. rewrite (Heq p).
    destruct (src_sameT w0 HS wv f out Av Hsrc) as (_ & _ & Ew & _).
    pose proof (pass_footprint orc Build base f false tn wv p) as F. rewrite Ebf, Ew in F. apply F. exact Hp. }
  destruct (lastflag w0 f) eqn:El.
  - destruct (final_ok_first_cases orc Verify base f tn wv wvv ltac:(discriminate) Ev) as [Ev1|(ds & w3 & Ev1)].
    + exists wvv. auto.
    + exfalso. destruct (sdeps_verify wv f out Hsrc Av) as [Esd Hca].
      destruct (first_pass_reports_exactly orc Verify base f tn wv ds w3 ltac:(discriminate) Hca Ev1) as (_ & E2 & Hne).
      apply Hne. rewrite E2, Esd. apply lastflag_true. exact El.
  - exists wvv. auto.
Qed.

(* (ii) the FIRST pass of a source with dependencies, in a world that differs from the built world on a set D of temp
   targets of OTHER sources: it reports the dependencies and touches nothing but own temp targets *)
Lemma verify_first_pass f out D wv :
  In f SA -> is_source w0 f out -> lastflag w0 f = false -> agree nt (w_fs w0) (w_fs wv) ->
  (forall p, In p D -> In p (foots w0)) ->
  (forall p, ~ In p D -> fs_get (w_fs W1) p = fs_get (w_fs wv) p) ->
  (forall p, In p D -> ~ In p (fp w0 f)) ->
  (forall p, In p D -> ~ In p (pass_probes true w0 f)) ->
  exists wv', pp_run orc Verify base f true tn wv = PpHasDeps (sdeps w0 f) wv' /\
    (forall p, ~ In p (own_temps w0 f) -> fs_get (w_fs wv') p = fs_get (w_fs wv) p).
Proof.
  intros HfS Hsrc El Av HD Hag Hfp Hpr. pose proof Hsrc as [Ho _].
  destruct (HFP f out HfS Hsrc) as (w'' & E & Eq). rewrite El in E. fold tn in E.
  pose proof (side_in W1 f out Hsrc A1 (build_ok_write_target _ _ _ _ _ _ _ _ E Ho)) as Hside.
  destruct (verify_of_build orc base f tn W1 out w'' Hside E (Eq out (out_in_fp f out Ho))) as (wvv & Ev & _).
  destruct (sdeps_verify W1 f out Hsrc A1) as [Esd Hca].
  assert (E1 : exists w3, pp_run orc Verify base f true tn W1 = PpHasDeps (sdeps w0 f) w3).
  { destruct (final_ok_first_cases orc Verify base f tn W1 wvv ltac:(discriminate) Ev) as [Ev1|(ds & w3 & Ev1)].
    - exfalso. pose proof (first_pass_ok_no_targets orc Verify base f tn W1 wvv ltac:(discriminate) Hca Ev1) as H0.
      rewrite Esd in H0. apply lastflag_true in H0. congruence.
    - destruct (first_pass_reports_exactly orc Verify base f tn W1 ds w3 ltac:(discriminate) Hca Ev1) as (_ & E2 & _).
      exists w3. rewrite Ev1, E2, Esd. reflexivity. }
  destruct E1 as [w3 E1].
  assert (HfD : ~ In f D).
  { intros Hin. apply HD in Hin. apply (foots_not_txtpp w0 HS) in Hin.
    rewrite (remove_txtpp_is_txtpp f out Ho) in Hin. discriminate. }
  destruct (src_sameT w0 HS W1 f out A1 Hsrc) as (_ & _ & Ew & _ & _ & Ep).
  pose proof (first_pass_frame orc Verify base f tn (in_paths D) W1 wv) as F.
  rewrite E1 in F.
  assert (F' : outcome_agree (in_paths D) W1 wv (PpHasDeps (sdeps w0 f) w3) (pp_run orc Verify base f true tn wv)).
  { apply F.
    - intros p Hp. apply Hag. apply in_paths_false. exact Hp.
    - intros p _. rewrite <- (proj2 A1 p). apply (proj2 Av p).
    - apply in_paths_false. exact HfD.
    - intros p Hp. change (writes_of Verify W1 f) with (writes_of Build W1 f) in Hp. rewrite Ew in Hp.
      apply in_paths_false. intros Hin. exact (Hfp p Hin Hp).
    - exact Hca.
    - intros p Hp. apply in_paths_false. intros Hin. apply (Hpr p Hin). rewrite <- (Ep true). exact Hp. }
  destruct (pp_run orc Verify base f true tn wv) as [b|d2 b|k2 b|] eqn:E2; cbn in F'; try contradiction.
  destruct F' as [<- _]. exists b. split; [reflexivity|].
  intros p Hp. pose proof (verify_pass_frame wv f out true p Hsrc Av Hp) as G. rewrite E2 in G. exact G.
Qed.
End Passes.

(* ===================================================================================================================
   The Build run: what is known about the world it ends in
   =================================================================================================================== *)
Section BuildRun.
Variable orc : oracle.
Variable cfg : config.
Variable base : path.
Hypothesis Hmd : cfg_mode cfg = Build.
Variable w0 : world.
Hypothesis HS : sched_ok_temps w0.
Hypothesis N0 : raw_ok w0.
Hypothesis WF0 : legal_names (w_fs w0).
Variables files dirs : list path.
Hypothesis Gf : Forall (good_file (w_fs w0)) files.
Hypothesis Gd : Forall (good_dir (w_fs w0)) dirs.

(* a finished source: the built world is a fixpoint of its last pass, and no infinite chain of static dependencies
   starts from it *)
Definition Q1 (f out : path) (w : world) : Prop :=
  FPT orc cfg base w0 f out w /\ Acc (fun d a => In d (sdeps w0 a)) f.

Lemma Q1_stable g w f out h b :
  greach files dirs g -> BsT w0 g w -> finished g f -> is_source w0 f out ->
  In (TPp h b) (inflight (gs g)) -> Q1 f out w ->
  Q1 f out (out_world (pp_run orc Build base h b (cfg_trailing cfg) w) w).
Proof.
  intros R HB Hf Hsrc Hin [H1 H2]. split; [|exact H2].
  apply (FPT_stable orc cfg base w0 HS files dirs g w f out h b); assumption.
Qed.

Lemma Q1_intro g w f out w'' :
  greach files dirs g -> BsT w0 g w -> is_source w0 f out ->
  In (TPp f (lastflag w0 f)) (inflight (gs g)) ->
  (forall q outq, finished g q -> is_source w0 q outq -> Q1 q outq w) ->
  pp_run orc Build base f (lastflag w0 f) (cfg_trailing cfg) w = PpOk w'' ->
  Q1 f out w''.
Proof.
  intros R HB Hsrc Hin HQ E. split.
  - apply (FPT_intro orc cfg base w0 HS files dirs g w f out w'' R HB Hsrc Hin); [|exact E].
    intros q outq Hq Hsq. apply (HQ q outq Hq Hsq).
  - constructor. intros q Hq. pose proof HB as (_ & _ & _ & G1 & _ & G3).
    assert (El : lastflag w0 f = false) by (unfold lastflag; destruct (sdeps w0 f); [destruct Hq|reflexivity]).
    rewrite El in Hin.
    destruct (final_inflight_reported files dirs g f R Hin) as [ds Hd].
    destruct (G1 f ds Hd) as [-> _].
    assert (Hfq : finished g q).
    { apply (final_pass_deps_finished files dirs g R f q Hin). exists (sdeps w0 f). split; assumption. }
    destruct (G3 q Hfq) as [oq Hsq]. apply (HQ q oq Hfq Hsq).
Qed.

Definition J1 (g : gstate) (w : world) : Prop :=
  JQT w0 Q1 g w /\ Scan w0 w /\ Jrun (w_fs w0) (gs g) w.

Lemma J1_step g w t rest r w' s2 :
  greach files dirs g -> J1 g w -> Permutation (inflight (gs g)) (t :: rest) ->
  exec_task orc cfg base t w = Some (r, w') -> handle (with_inflight (gs g) rest) r = Continue s2 ->
  J1 (mkG s2 (report t r (reported g)) (history g ++ [t])) w'.
Proof.
  intros R (HJ & HSc & HJr) HP Hex Hh. split; [|split].
  - apply (JQT_step orc cfg base Hmd w0 HS files dirs Q1 Q1_stable Q1_intro g w t rest r w' s2); assumption.
  - apply (ScanT_step orc cfg base Hmd w0 HS w t r w'); [exact (proj1 (proj1 HJ))|exact HSc|exact Hex].
  - apply (Jrun_step (w_fs w0) N0 WF0 orc cfg base files dirs g w t rest r w' s2); assumption.
Qed.

Lemma Jrun_init w : winv (w_fs w0) w -> Jrun (w_fs w0) (gs (ginit files dirs)) w.
Proof.
  intros W. rewrite Forall_forall in Gf, Gd. split; [exact W|]. split.
  - intros f Hf. apply Gf. cbn [ginit gs] in Hf. rewrite seen_fold_dir_eq in Hf.
    apply seen_fold_file_inv in Hf. destruct Hf as [[]|[_ Hf]]. exact Hf.
  - intros d Hd. apply Gd. cbn [ginit gs] in Hd. apply seen_dirs_fold_dir_inv in Hd.
    destruct Hd as [Hd|Hd]; [|exact Hd]. rewrite seen_dirs_fold_file in Hd. destruct Hd.
Qed.

Lemma J1_init : J1 (ginit files dirs) w0.
Proof.
  split; [apply JQT_init|]. split; [split; [exact N0|reflexivity]|].
  apply Jrun_init. destruct w0 as [F l]. apply (winv_init F).
Qed.

(* everything S2 needs to know about the Build run *)
Lemma build_run_facts fuel sched :
  let x := run_loop orc cfg base fuel sched (gs (ginit files dirs)) w0 [] in
  verdict_of x = VOk ->
  let W1 := world_of x in
  let SA := seen (state_of x) in
  let DA := seen_dirs (state_of x) in
  agree nt (w_fs w0) (w_fs W1) /\
  (forall p, ~ In p (foots w0) -> fs_get (w_fs W1) p = fs_get (w_fs w0) p) /\
  (forall f, In f SA -> exists out, is_source w0 f out) /\
  (forall f out, In f SA -> is_source w0 f out -> FPT orc cfg base w0 f out W1) /\
  (forall f, In f SA -> Acc (fun d a => In d (sdeps w0 a)) f) /\
  Scan w0 W1 /\ winv (w_fs w0) W1 /\
  closed cfg w0 files dirs SA DA /\
  (forall d, In d DA -> is_dir (w_fs w0) d = true).
Proof.
  intros x Hv W1 SA DA.
  destruct (run_loop_inv_g orc cfg base files dirs J1 J1_step fuel sched (ginit files dirs) w0 []
              (greach_init files dirs) J1_init Hv) as (gA & RA & EsA & _ & HfinA & ([HB HQ] & HSc & HJr)).
  fold x in EsA, HB, HQ, HSc, HJr. fold W1 in HB, HQ, HSc, HJr.
  pose proof HB as (A & B2 & _ & _ & _ & G3).
  assert (HsA : forall f, In f SA -> finished gA f).
  { intros f Hf. apply HfinA. unfold is_seen. apply pmem_In. rewrite EsA. exact Hf. }
  split; [exact A|]. split; [exact B2|]. split; [intros f Hf; apply G3; apply HsA; exact Hf|].
  split; [intros f out Hf Hsrc; apply (HQ f out (HsA f Hf) Hsrc)|].
  split.
  { intros f Hf. destruct (G3 f (HsA f Hf)) as [out Hsrc]. apply (HQ f out (HsA f Hf) Hsrc). }
  split; [exact HSc|]. destruct HJr as (HW & _ & HJd). split; [exact HW|].
  split; [apply (run_closedT orc cfg base Hmd w0 HS files dirs fuel sched N0 Hv)|].
  intros d Hd. unfold DA in Hd. rewrite <- EsA in Hd.
  apply (good_dir_upto (w_fs w0) N0 d). apply HJd. exact Hd.
Qed.
End BuildRun.

(* ===================================================================================================================
   The Verify run from the built world
   =================================================================================================================== *)
Section VerifyRun.
Variable orc : oracle.
Variable cfg : config.          (* the configuration of the Build run *)
Variable base : path.
Hypothesis Hmd : cfg_mode cfg = Build.
Variable w0 : world.            (* the tree before the build *)
Hypothesis HS : sched_ok_temps w0.
Hypothesis HV : outputs_unnamed w0.
Variables files dirs : list path.
Variable W1 : world.            (* the built tree *)
Variables SA DA : list path.    (* the sources / directories the Build run saw *)
Hypothesis A1 : agree nt (w_fs w0) (w_fs W1).
Hypothesis Hsrc : forall f, In f SA -> exists out, is_source w0 f out.
Hypothesis HFP : forall f out, In f SA -> is_source w0 f out -> FPT orc cfg base w0 f out W1.
Hypothesis HAcc : forall f, In f SA -> Acc (fun d a => In d (sdeps w0 a)) f.
Hypothesis HSc1 : Scan w0 W1.
Hypothesis Hcl : closed cfg w0 files dirs SA DA.
Hypothesis HDA : forall d, In d DA -> is_dir (w_fs w0) d = true.

Let tn := cfg_trailing cfg.
Let cfgV := verify_cfg cfg.

Definition JV (g : gstate) (wv : world) (tr : list (task * result)) : Prop :=
  incl (seen (gs g)) SA /\ incl (seen_dirs (gs g)) DA /\
  agree nt (w_fs w0) (w_fs wv) /\ Scan w0 wv /\
  (forall a ds, In (a, ds) (reported g) -> ds = sdeps w0 a /\ ds <> []) /\
  (exists D, (forall p, ~ In p D -> fs_get (w_fs W1) p = fs_get (w_fs wv) p) /\
             (forall p, In p D -> exists f, In (TPp f true) (history g) /\ ~ finished g f /\ In p (own_temps w0 f))) /\
  EventFacts.tr (PV w0) W1 wv.

Lemma verify_pass_agree wv f out b :
  is_source w0 f out -> agree nt (w_fs w0) (w_fs wv) ->
  agree nt (w_fs w0) (w_fs (out_world (pp_run orc Verify base f b tn wv) wv)).
Proof.
  intros Hs A. apply (agree_trans nt _ (w_fs wv)); [exact A|]. split.
  - intros p Hp. symmetry. apply (verify_pass_frame orc cfg base w0 HS wv f out b p Hs A).
    intros Hin. destruct (HS f out Hs) as (_ & _ & Hto & _).
    apply nt_false in Hp. rewrite (Hto p (own_in_fp w0 f out p (proj1 Hs) Hin)) in Hp. discriminate.
  - intros p. symmetry. apply (pp_run_same_dirs orc Verify base f b tn wv p).
Qed.

Lemma verify_pass_scan wv f out b :
  is_source w0 f out -> agree nt (w_fs w0) (w_fs wv) -> Scan w0 wv ->
  Scan w0 (out_world (pp_run orc Verify base f b tn wv) wv).
Proof.
  intros Hs A [N S]. destruct (src_sameT w0 HS wv f out A Hs) as (_ & _ & Ew & _).
  destruct (HS f out Hs) as (_ & _ & Hto & _).
  destruct (pp_run_scan orc Verify base f b tn wv N) as [N' S'].
  { change (writes_of Verify wv f) with (writes_of Build wv f). rewrite Ew. exact Hto. }
  split; [exact N'|]. rewrite S'. exact S.
Qed.

Lemma exec_task_verify f b wv :
  exec_task orc cfgV base (TPp f b) wv =
  match res_of_tag f (tag_of (pp_run orc Verify base f b tn wv)) with
  | Some r => Some (r, out_world (pp_run orc Verify base f b tn wv) wv)
  | None => None
  end.
Proof. apply (exec_task_pp orc cfgV base f b wv). Qed.

Lemma finished_step g t rest r s2 x :
  greach files dirs g -> handle (with_inflight (gs g) rest) r = Continue s2 ->
  finished (mkG s2 (report t r (reported g)) (history g ++ [t])) x -> finished g x \/ r = RPp x (Some POk).
Proof.
  intros R Hh Hf. destruct (inv_reach _ _ _ R) as [HP _]. unfold finished in *. cbn [gs] in Hf. apply pmem_In in Hf.
  destruct (handle_fin (with_inflight (gs g) rest) r s2 x (i_dm HP) Hh Hf) as [H|H]; [left; apply pmem_In; exact H|right; exact H].
Qed.

(* one task of the Verify run in a state that satisfies the invariant: it does not fail, and the invariant is kept *)
Lemma JV_task g wv tr t rest r w' :
  greach files dirs g -> JV g wv tr -> Permutation (inflight (gs g)) (t :: rest) ->
  exec_task orc cfgV base t wv = Some (r, w') ->
  ~ is_err r /\
  forall s2, handle (with_inflight (gs g) rest) r = Continue s2 ->
    JV (mkG s2 (report t r (reported g)) (history g ++ [t])) w' (tr ++ [(t, r)]).
Proof.
  intros R (V0 & V0d & A & HSc & V3 & (D & HD1 & HD2) & HT) HP Hex.
  assert (Ht : In t (inflight (gs g))) by (eapply Permutation_in; [apply Permutation_sym; exact HP|left; reflexivity]).
  destruct (inv_reach _ _ _ R) as [HPi _].
  (* a witness of D stays a witness as long as the task does not finish it *)
  assert (Hwit : forall s2 p, handle (with_inflight (gs g) rest) r = Continue s2 ->
            (forall f, r <> RPp f (Some POk) \/ ~ In p (own_temps w0 f)) -> In p D ->
            exists f, In (TPp f true) (history g ++ [t]) /\
                      ~ finished (mkG s2 (report t r (reported g)) (history g ++ [t])) f /\ In p (own_temps w0 f)).
  { intros s2 p Hh Hnf Hp. destruct (HD2 p Hp) as (f0 & H1 & H2 & H3). exists f0.
    split; [apply in_or_app; left; exact H1|]. split; [|exact H3].
    intros Hf. destruct (finished_step g t rest r s2 f0 R Hh Hf) as [Hf'|Hf']; [exact (H2 Hf')|].
    destruct (Hnf f0) as [Hn|Hn]; [exact (Hn Hf')|exact (Hn H3)]. }
  destruct t as [d|f b].
  - (* a scan *)
    cbn [exec_task] in Hex. inversion Hex; subst r w'. clear Hex.
    assert (Hd : In d DA) by (apply V0d; apply (i_fl_seen HPi (TScan d) Ht)).
    change (cfg_recursive cfgV) with (cfg_recursive cfg) in *.
    assert (Escan : scan_dir (w_fs wv) d (cfg_recursive cfg) = scan_dir (w_fs w0) d (cfg_recursive cfg))
      by (apply (Scan_scan cfg w0 wv d A HSc)).
    rewrite Escan in *.
    destruct (scan_dir (w_fs w0) d (cfg_recursive cfg)) as [[fs ds]|] eqn:Es.
    2:{ unfold scan_dir in Es. rewrite (HDA d Hd) in Es. discriminate. }
    split; [intros H; exact H|]. intros s2 Hh.
    destruct Hcl as (_ & _ & Hscan & _). destruct (Hscan d fs ds Hd Es) as [Hfs Hds].
    destruct (handle_seen _ _ _ Hh) as [Hs1 Hs2]. cbn [with_inflight seen seen_dirs res_files res_dirs] in Hs1, Hs2.
    split; [intros x Hx; destruct (Hs1 x Hx) as [H|H]; [apply V0; exact H|apply Hfs; exact H]|].
    split; [intros x Hx; destruct (Hs2 x Hx) as [H|H]; [apply V0d; exact H|apply Hds; exact H]|].
    split; [exact A|]. split; [exact HSc|]. split; [exact V3|]. split; [|exact HT].
    exists D. split; [exact HD1|]. intros p Hp. cbn [history].
    apply (Hwit s2 p Hh); [|exact Hp]. intros f0. left. discriminate.
  - (* a pass *)
    rewrite exec_task_verify in Hex.
    assert (HfS : In f SA) by (apply V0; apply (inflight_seen files dirs g (TPp f b) R Ht)).
    destruct (Hsrc f HfS) as [out Hs]. pose proof Hs as [Ho _].
    destruct (HS f out Hs) as (_ & _ & Hto & _ & _ & Hxx).
    (* what is known about a path of D *)
    assert (HDw : forall p, In p D -> exists g0 og, is_source w0 g0 og /\ In p (fp w0 g0) /\ In p (own_temps w0 g0) /\
                    In (TPp g0 true) (history g) /\ ~ finished g g0).
    { intros p Hp. destruct (HD2 p Hp) as (g0 & H1 & H2 & H3).
      assert (Hg0 : In g0 SA) by (apply V0; apply (i_hist_seen HPi (TPp g0 true) H1)).
      destruct (Hsrc g0 Hg0) as [og Hsg]. exists g0, og. split; [exact Hsg|].
      split; [apply (own_in_fp w0 g0 og p (proj1 Hsg) H3)|]. auto. }
    assert (HDf : forall p, In p D -> In p (foots w0)).
    { intros p Hp. destruct (HDw p Hp) as (g0 & og & Hsg & Hfp & _). apply (foots_in w0 g0 og p Hsg Hfp). }
    assert (Hlast : b = lastflag w0 f ->
              (forall p, In p (pass_probes (lastflag w0 f) w0 f) -> In p D -> In p (fp w0 f)) -> ~ In out D ->
              ~ is_err r /\
              forall s2, handle (with_inflight (gs g) rest) r = Continue s2 ->
                JV (mkG s2 (report (TPp f b) r (reported g)) (history g ++ [TPp f b])) w' (tr ++ [(TPp f b, r)])).
    { intros Eb Hpr HoD.
      destruct (verify_last_pass orc cfg base w0 HS HV W1 SA A1 HFP f out D wv HfS Hs A HDf HD1 Hpr HoD)
        as (wv' & Ev & Efp & Eoth).
      fold tn in Ev. rewrite <- Eb in Ev.
      pose proof (verify_pass_agree wv f out b Hs A) as A'.
      pose proof (verify_pass_scan wv f out b Hs A HSc) as HSc'.
      pose proof (verify_pass_PV orc cfg base w0 HS wv f out b Hs A) as HT'. fold tn in HT'.
      rewrite Ev in Hex, A', HSc', HT'. cbn in Hex, A', HSc', HT'. inversion Hex; subst r w'. clear Hex.
      split; [intros H; exact H|]. intros s2 Hh.
      destruct (handle_seen _ _ _ Hh) as [Hs1 Hs2]. cbn [with_inflight seen seen_dirs res_files res_dirs] in Hs1, Hs2.
      split; [intros x Hx; destruct (Hs1 x Hx) as [H|[]]; apply V0; exact H|].
      split; [intros x Hx; destruct (Hs2 x Hx) as [H|[]]; apply V0d; exact H|].
      split; [exact A'|]. split; [exact HSc'|]. split.
      { cbn [reported]. intros a ds Hin. apply (V3 a ds). destruct b; exact Hin. }
      split; [|eapply tr_trans; eauto].
      exists (filter (fun p => negb (in_paths (fp w0 f) p)) D). split.
      - intros p Hp. destruct (in_paths (fp w0 f) p) eqn:Ef.
        + apply in_paths_true in Ef. symmetry. apply Efp. exact Ef.
        + apply in_paths_false in Ef. rewrite (Eoth p Ef). apply HD1. intros HpD. apply Hp.
          apply filter_In. split; [exact HpD|]. apply in_paths_false in Ef. rewrite Ef. reflexivity.
      - intros p Hp. apply filter_In in Hp. destruct Hp as [HpD Hnf]. cbn [history].
        apply (Hwit s2 p Hh); [|exact HpD]. intros f0.
        destruct (path_dec f0 f) as [->|Hne]; [|left; intros E; inversion E; congruence].
        right. intros Hin. apply (own_in_fp w0 f out p Ho) in Hin. apply in_paths_true in Hin.
        rewrite Hin in Hnf. discriminate. }
    destruct b.
    + (* a first pass: the in-flight task is not in the history, so no witness of D is f itself *)
      assert (Hne : forall g0, In (TPp g0 true) (history g) -> g0 <> f).
      { intros g0 Hh ->. exact (history_not_inflight files dirs g R _ Hh Ht). }
      assert (Hother : forall p, In p D -> ~ In p (fp w0 f) /\ ~ In p (pass_probes true w0 f)).
      { intros p Hp. destruct (HDw p Hp) as (g0 & og & Hsg & Hfp & _ & Hh & _).
        destruct (Hxx g0 og Hsg (Hne g0 Hh)) as (H1 & H2 & _). split; [apply H1; exact Hfp|apply H2; exact Hfp]. }
      destruct (lastflag w0 f) eqn:El.
      * apply Hlast; [reflexivity| |].
        -- intros p Hp HpD. exfalso. exact (proj2 (Hother p HpD) Hp).
        -- intros HoD. apply (proj1 (Hother out HoD)). apply (out_in_fp w0 f out Ho).
      * destruct (verify_first_pass orc cfg base w0 HS HV W1 SA A1 HFP f out D wv HfS Hs El A HDf HD1
                    (fun p Hp => proj1 (Hother p Hp)) (fun p Hp => proj2 (Hother p Hp))) as (wv' & Ev & Eoth).
        fold tn in Ev.
        pose proof (verify_pass_agree wv f out true Hs A) as A'.
        pose proof (verify_pass_scan wv f out true Hs A HSc) as HSc'.
        pose proof (verify_pass_PV orc cfg base w0 HS wv f out true Hs A) as HT'. fold tn in HT'.
        rewrite Ev in Hex, A', HSc', HT'. cbn in Hex, A', HSc', HT'. inversion Hex; subst r w'. clear Hex.
        split; [intros H; exact H|]. intros s2 Hh.
        assert (Hdne : sdeps w0 f <> []) by (intros E; apply lastflag_true in E; congruence).
        destruct (handle_seen _ _ _ Hh) as [Hs1 Hs2]. cbn [with_inflight seen seen_dirs res_files res_dirs] in Hs1, Hs2.
        destruct Hcl as (_ & _ & _ & Hdeps).
        split; [intros x Hx; destruct (Hs1 x Hx) as [H|H]; [apply V0; exact H|apply (Hdeps f HfS); exact H]|].
        split; [intros x Hx; destruct (Hs2 x Hx) as [H|[]]; apply V0d; exact H|].
        split; [exact A'|]. split; [exact HSc'|]. split.
        { cbn [reported report]. intros a ds [Hin|Hin]; [inversion Hin; subst a ds; split; [reflexivity|exact Hdne]|apply (V3 a ds Hin)]. }
        split; [|eapply tr_trans; eauto].
        exists (D ++ own_temps w0 f). split.
        -- intros p Hp. rewrite (Eoth p); [apply HD1|]; intros Hin; apply Hp; apply in_or_app; [left|right]; exact Hin.
        -- intros p Hp. cbn [history]. apply in_app_or in Hp. destruct Hp as [Hp|Hp].
           ++ apply (Hwit s2 p Hh); [|exact Hp]. intros f0. left. discriminate.
           ++ exists f. split; [apply in_or_app; right; left; reflexivity|]. split; [|exact Hp].
              intros Hf. destruct (finished_step g (TPp f true) rest _ s2 f R Hh Hf) as [Hf'|Hf']; [|discriminate].
              exact (finished_not_inflight files dirs g R f true Hf' Ht).
    + (* a final pass: f has reported dependencies, all of them finished *)
      destruct (final_inflight_reported files dirs g f R Ht) as [ds Hd].
      destruct (V3 f ds Hd) as [-> Hdne].
      assert (El : lastflag w0 f = false).
      { destruct (lastflag w0 f) eqn:E; [|reflexivity]. exfalso. apply Hdne. apply lastflag_true. exact E. }
      apply Hlast; [symmetry; exact El| |].
      * intros p Hp HpD. destruct (HDw p HpD) as (g0 & og & Hsg & Hfp & _ & _ & Hnf).
        destruct (path_dec g0 f) as [->|Hne]; [exact Hfp|]. exfalso.
        destruct (Hxx g0 og Hsg Hne) as (_ & _ & H3). rewrite El in Hp.
        apply Hnf. apply (final_pass_deps_finished files dirs g R f g0 Ht).
        exists (sdeps w0 f). split; [exact Hd|apply (H3 p Hfp Hp)].
      * intros HoD. destruct (HDw out HoD) as (g0 & og & Hsg & Hfp & Hown & _ & _).
        destruct (path_dec g0 f) as [->|Hne].
        -- exact (proj2 (HV f out Hs) Hown).
        -- destruct (Hxx g0 og Hsg Hne) as (H1 & _). exact (H1 out Hfp (out_in_fp w0 f out Ho)).
Qed.

Lemma JV_step g wv tr t rest r w' s2 :
  greach files dirs g -> JV g wv tr -> Permutation (inflight (gs g)) (t :: rest) ->
  exec_task orc cfgV base t wv = Some (r, w') -> handle (with_inflight (gs g) rest) r = Continue s2 ->
  JV (mkG s2 (report t r (reported g)) (history g ++ [t])) w' (tr ++ [(t, r)]).
Proof. intros R HJ HP Hex Hh. apply (proj2 (JV_task g wv tr t rest r w' R HJ HP Hex) s2 Hh). Qed.

Lemma JV_noerr g wv tr t rest r w' :
  greach files dirs g -> JV g wv tr -> Permutation (inflight (gs g)) (t :: rest) ->
  exec_task orc cfgV base t wv = Some (r, w') -> ~ is_err r.
Proof. intros R HJ HP Hex. apply (proj1 (JV_task g wv tr t rest r w' R HJ HP Hex)). Qed.

(* when nothing is in flight any more, nothing is left waiting: the static dependency relation is well founded on
   the sources of the Build run *)
Lemma JV_exit g wv tr :
  greach files dirs g -> JV g wv tr -> inflight (gs g) = [] -> has_remaining (dm (gs g)) = false.
Proof.
  intros R (V0 & _ & _ & _ & V3 & _) Hnil.
  destruct (has_remaining (dm (gs g))) eqn:E; [|reflexivity]. exfalso.
  apply (cycle_verdict_iff files dirs g R Hnil) in E. destruct E as (f & Hseen & Hnf). apply Hnf.
  apply (acyclic_part_built files dirs g R f Hnil Hseen).
  assert (HfS : In f SA) by (apply V0; apply pmem_In; exact Hseen).
  pose proof (HAcc f HfS) as Hacc. clear - Hacc V3. induction Hacc as [f _ IH]. constructor. intros d (ds & Hd & Hin).
  apply IH. destruct (V3 f ds Hd) as [-> _]. exact Hin.
Qed.

Lemma JV_init : (forall f, In f files -> In f SA) -> (forall d, In d dirs -> In d DA) ->
  JV (ginit files dirs) W1 [].
Proof.
  intros Hf Hd. split; [|split; [|split; [exact A1|split; [exact HSc1|split; [intros a ds []|split]]]]].
  - intros f Hin. cbn [ginit gs] in Hin. rewrite seen_fold_dir_eq in Hin.
    apply seen_fold_file_inv in Hin. destruct Hin as [[]|[_ Hin]]. apply Hf. exact Hin.
  - intros d Hin. cbn [ginit gs] in Hin. apply seen_dirs_fold_dir_inv in Hin.
    destruct Hin as [Hin|Hin]; [|apply Hd; exact Hin]. rewrite seen_dirs_fold_file in Hin. destruct Hin.
  - exists []. split; [reflexivity|intros p []].
  - apply tr_refl.
Qed.

(* the Verify run at the level of the coordinator loop *)
Lemma verify_loop fuel sched :
  (forall f, In f files -> In f SA) -> (forall d, In d dirs -> In d DA) ->
  let x := run_loop orc cfgV base fuel sched (gs (ginit files dirs)) W1 [] in
  (verdict_of x = VOk \/ verdict_of x = VFuel) /\
  (verdict_of x = VOk -> w_eq (world_of x) W1) /\
  EventFacts.tr (PV w0) W1 (world_of x).
Proof.
  intros Hf Hd x.
  pose proof (run_loop_gen_ok orc cfgV base files dirs JV JV_step JV_noerr JV_exit fuel sched (ginit files dirs) W1 []
                (greach_init files dirs) (JV_init Hf Hd)) as Hv. fold x in Hv.
  destruct (run_loop_gen orc cfgV base files dirs JV JV_step fuel sched (ginit files dirs) W1 []
              (greach_init files dirs) (JV_init Hf Hd) Hv) as (g' & R' & Es & HJ & Hfin).
  fold x in Es, HJ, Hfin.
  destruct HJ as (V0 & _ & _ & _ & _ & (D & HD1 & HD2) & HT).
  split; [exact Hv|]. split; [|exact HT].
  intros Hok. destruct (Hfin Hok) as [_ Hall]. intros p. symmetry. apply HD1. intros Hp.
  destruct (HD2 p Hp) as (f0 & H1 & H2 & _). apply H2. apply Hall.
  destruct (inv_reach _ _ _ R') as [HPi _]. unfold is_seen. apply pmem_In. apply (i_hist_seen HPi (TPp f0 true) H1).
Qed.
End VerifyRun.

(* ===================================================================================================================
   S2 — verify after build
   =================================================================================================================== *)
(* a successful run got past the prelude: the loop ran *)
Lemma txtpp_run_ok_unfold orc cfg fuel sched w :
  verdict_of (txtpp_run orc cfg fuel sched w) = VOk ->
  exists base files dirs,
    (cfg_threads cfg =? 0) = false /\ os_resolve (w_fs w) (cfg_base cfg) = Some base /\
    resolve_inputs (w_fs w) base (cfg_inputs cfg) [] [] = Some (files, dirs) /\
    txtpp_run orc cfg fuel sched w = run_loop orc cfg base fuel sched (gs (ginit files dirs)) w [].
Proof.
  unfold txtpp_run. destruct (cfg_threads cfg =? 0); [discriminate|].
  destruct (os_resolve (w_fs w) (cfg_base cfg)) as [base|]; [|discriminate].
  destruct (resolve_inputs (w_fs w) base (cfg_inputs cfg) [] []) as [[files dirs]|] eqn:Ri; [|discriminate].
  intros _. exists base, files, dirs. split; [reflexivity|]. split; [reflexivity|]. split; [exact Ri|reflexivity].
Qed.

(* A Build run from w (any schedule) that succeeds, ending in w1; then a Verify run from w1 with the same inputs, base
   directory, thread count, recursion and trailing-newline options and the same command oracle, ANY schedule, ANY fuel:
     - its verdict is VOk, or VFuel when the fuel runs out (never VErr, never VPanic); with the fuel bound of
       RunFacts.txtpp_run_terminates (computed on the tree BEFORE the build) it is VOk;
     - when it ends with VOk the tree is exactly w1 (w_eq); whatever the verdict, a path that is not a temp target of a
       source holds what it holds in w1;
     - its log extends the log of w1 by ERun events and writes of temp targets only: no EWrite / ERemove on the output
       of any source.
   Static hypotheses, all on the tree BEFORE the build: no duplicate keys, legal names, ScheduleTempFacts.sched_ok_temps,
   `outputs_unnamed`, and (as in ScheduleTempFacts.stale_outputs_and_temps_irrelevant) the base directory and the inputs
   do not name a generated path (`foots`: the outputs and temp targets of the sources). *)
Theorem verify_after_build_passes orc cfg fuel1 sched1 fuel2 sched2 w :
  cfg_mode cfg = Build ->
  raw_ok w -> legal_names (w_fs w) ->
  sched_ok_temps w -> outputs_unnamed w ->
  ~ In (lex_normalize (cfg_base cfg)) (foots w) ->
  Forall (input_safe (foots w) (lex_normalize (cfg_base cfg))) (cfg_inputs cfg) ->
  let x1 := txtpp_run orc cfg fuel1 sched1 w in
  verdict_of x1 = VOk ->
  let w1 := world_of x1 in
  let x2 := txtpp_run orc (verify_cfg cfg) fuel2 sched2 w1 in
  (verdict_of x2 = VOk \/ verdict_of x2 = VFuel) /\
  ((fuel2 > 2 * length (src_files (w_fs w)) + length (dir_entries (w_fs w)))%nat -> verdict_of x2 = VOk) /\
  (verdict_of x2 = VOk -> w_eq (world_of x2) w1) /\
  (forall p, (forall f out, is_source w f out -> ~ In p (own_temps w f)) ->
     fs_get (w_fs (world_of x2)) p = fs_get (w_fs w1) p) /\
  exists evs, w_log (world_of x2) = w_log w1 ++ evs /\
    Forall (fun e => forall p, ev_path e = Some p ->
              e = EWrite p /\ (exists f out, is_source w f out /\ In p (own_temps w f)) /\
              forall g outg, is_source w g outg -> p <> outg) evs.
Proof.
  intros Hmd N WF HS HV Hb Hin x1 Hv w1 x2.
  destruct (txtpp_run_ok_unfold orc cfg fuel1 sched1 w Hv) as (base & files & dirs & Et & Eb & Ri & Ex).
  subst x2 w1 x1. rewrite Ex in *. clear Ex. unfold txtpp_run.
  change (cfg_threads (verify_cfg cfg)) with (cfg_threads cfg).
  change (cfg_base (verify_cfg cfg)) with (cfg_base cfg).
  change (cfg_inputs (verify_cfg cfg)) with (cfg_inputs cfg).
  rewrite Et.
  assert (Hbn : Forall (fun c => c <> []) base).
  { apply names_nonempty. apply (exists_names (w_fs w) WF). apply (os_walk_exists _ _ _ _ Eb). }
  destruct (resolve_inputs_good (w_fs w) N base (cfg_inputs cfg) [] [] files dirs Hbn (Forall_nil _) (Forall_nil _) Ri)
    as [Gf Gd].
  destruct (build_run_facts orc cfg base Hmd w HS N WF files dirs Gf Gd fuel1 sched1 Hv)
    as (A1 & B2 & Hsrc & HFP & HAcc & HSc & HW & Hcl & HDA).
  set (x1 := run_loop orc cfg base fuel1 sched1 (gs (ginit files dirs)) w []) in *.
  set (W1 := world_of x1) in *. set (SA := seen (state_of x1)) in *. set (DA := seen_dirs (state_of x1)) in *.
  (* the prelude of the Verify run resolves the same base directory and the same inputs *)
  assert (AF : agree (in_paths (foots w)) (w_fs w) (w_fs W1)).
  { split; [|exact (proj2 A1)]. intros p Hp. symmetry. apply B2. apply in_paths_false. exact Hp. }
  rewrite <- (os_resolve_agree _ (w_fs w) (w_fs W1) (cfg_base cfg) AF (proj2 (in_paths_false (foots w) _) Hb)), Eb.
  pose proof (os_resolve_normalize _ _ _ Eb) as Ebn. rewrite <- Ebn in Hin.
  rewrite <- (resolve_inputs_agree (foots w) (w_fs w) (w_fs W1) base (cfg_inputs cfg) AF Hin [] []), Ri.
  change (fold_left exec_dir dirs (fold_left (fun s f => exec_file s f true) files c_init))
    with (gs (ginit files dirs)).
  destruct Hcl as (Hcf & Hcd & Hcl3 & Hcl4).
  destruct (verify_loop orc cfg base w HS HV files dirs W1 SA DA A1 Hsrc HFP HAcc HSc
              (conj Hcf (conj Hcd (conj Hcl3 Hcl4))) HDA fuel2 sched2 Hcf Hcd) as (Hv2 & Heq & HT).
  set (x2 := run_loop orc (verify_cfg cfg) base fuel2 sched2 (gs (ginit files dirs)) W1 []) in *.
  split; [exact Hv2|]. split.
  { intros Hfuel.
    assert (Hnf : verdict_of x2 <> VFuel).
    { apply (run_loop_fuel_enough_inv orc (verify_cfg cfg) base files dirs (Jrun (w_fs w)) (ginit files dirs) fuel2 sched2
               W1 [] (src_files (w_fs w)) (dir_entries (w_fs w))).
      - intros g0 wa t rest r w' s2. apply (Jrun_step (w_fs w) N WF).
      - intros s wa. apply Jrun_bound.
      - apply greach_init.
      - apply (Jrun_init w files dirs Gf Gd W1 HW).
      - cbn [ginit history length]. rewrite Nat.add_0_r. exact Hfuel. }
    destruct Hv2 as [H|H]; [exact H|contradiction]. }
  split; [exact Heq|].
  destruct HT as (evs & HL & HA & HF). split.
  { intros p Hp. apply HF. intros e He Hev. rewrite Forall_forall in HA.
    destruct (HA e He p Hev) as (_ & f & out & Hs & Hown). exact (Hp f out Hs Hown). }
  exists evs. split; [exact HL|]. rewrite Forall_forall in *. intros e He p Hev.
  destruct (HA e He p Hev) as (E1 & f & out & Hs & Hown). split; [exact E1|]. split; [exists f, out; auto|].
  intros g outg Hsg ->. destruct (path_dec g f) as [->|Hne].
  - assert (out = outg) by (destruct Hs as [H1 _], Hsg as [H2 _]; congruence). subst out.
    exact (proj2 (HV f outg Hs) Hown).
  - destruct (HS f out Hs) as (_ & _ & _ & _ & _ & Hx). destruct (Hx g outg Hsg Hne) as [Hd _].
    apply (Hd outg (out_in_fp w g outg (proj1 Hsg))). apply (own_in_fp w f out outg (proj1 Hs) Hown).
Qed.

(* ===================================================================================================================
   Non-vacuity: the tree of ScheduleTempFacts PART 6 (d/a.txtpp writes the temp file d/t and includes it; d/b.txtpp
   includes the output of d/a.txtpp: a dependency, two passes), two schedules for the build, two for the verify run
   =================================================================================================================== *)
Lemma t_legal : legal_names (w_fs t_w).
Proof.
  intros p nd H. vm_compute in H.
  repeat (destruct H as [H|H]; [inversion H; subst; repeat constructor; discriminate|]). destruct H.
Qed.

Lemma t_is_source f out : is_source t_w f out -> (f = t_a /\ out = t_aout) \/ (f = t_b /\ out = t_bout).
Proof.
  intros [Ho [raw Er]]. destruct (t_sources f raw Er) as [-> | ->]; vm_compute in Ho; inversion Ho; auto.
Qed.

Lemma t_outputs_unnamed : outputs_unnamed t_w.
Proof.
  intros f out Hs. destruct (t_is_source f out Hs) as [[-> ->]|[-> ->]]; split; vm_compute; intuition discriminate.
Qed.

Lemma t_foots_base : ~ In (lex_normalize (cfg_base t_cfg)) (foots t_w).
Proof. vm_compute. intuition discriminate. Qed.

Lemma t_foots_inputs : Forall (input_safe (foots t_w) (lex_normalize (cfg_base t_cfg))) (cfg_inputs t_cfg).
Proof.
  constructor; [|constructor]. split; [vm_compute; intuition discriminate|].
  intros c Hc. vm_compute in Hc. destruct Hc as [<-|[]]. vm_compute. intuition discriminate.
Qed.

Example verify_after_build_passes_nonvacuous :
  forall sched1 sched2,
  sched1 = [] \/ sched1 = [0; 1; 0; 0]%nat -> sched2 = [] \/ sched2 = [0; 1; 0; 0]%nat ->
  let x1 := txtpp_run cx_orc t_cfg 9 sched1 t_w in
  let x2 := txtpp_run cx_orc (verify_cfg t_cfg) 9 sched2 (world_of x1) in
  verdict_of x1 = VOk /\
  (* from the theorem *)
  verdict_of x2 = VOk /\ w_eq (world_of x2) (world_of x1) /\
  (* the Verify run gave b.txtpp its two passes and a.txtpp (which has a temp directive) its pass *)
  In (TPp t_b true, RPp t_b (Some (PDeps [t_a]))) (trace_of x2) /\
  In (TPp t_b false, RPp t_b (Some POk)) (trace_of x2) /\
  In (TPp t_a true, RPp t_a (Some POk)) (trace_of x2).
Proof.
  intros sched1 sched2 H1 H2 x1 x2.
  assert (Hv : verdict_of x1 = VOk) by (destruct H1 as [-> | ->]; vm_compute; reflexivity).
  destruct (verify_after_build_passes cx_orc t_cfg 9 sched1 9 sched2 t_w eq_refl t_raw_ok t_legal t_sched_ok
              t_outputs_unnamed t_foots_base t_foots_inputs Hv) as (_ & Hok & Heq & _).
  fold x1 in Hok, Heq. fold x2 in Hok, Heq.
  assert (Hv2 : verdict_of x2 = VOk) by (apply Hok; vm_compute; repeat constructor).
  split; [exact Hv|]. split; [exact Hv2|]. split; [apply Heq; exact Hv2|].
  destruct H1 as [-> | ->], H2 as [-> | ->]; vm_compute; intuition.
Qed.
