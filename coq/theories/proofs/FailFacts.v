(* FailFacts.v — property C04 for WHOLE runs: no false success (a failure in any file fails the whole run), and no
   false failure (every VErr verdict has a cause).  Everything below is proved (nothing assumed); `Print Assumptions`
   of the deliverables is closed.

   PART A  the pass level.  `static_item_error its`: the errors of a source that can be read off its items alone
           (they do not depend on the rest of the tree, on the oracle or on the schedule):
              a multi-line directive without prefix (IBad), a `temp` directive without path or whose target is a
              `.txtpp` file, a `tag` directive while another tag is listening, a `tag` directive whose name is
              prefix-related to a tag that is still stored, a tag that no later text line mentions, a tag that is
              still listening at the end of the file.
           `ritems_ok_no_static_error`: a pass whose items all ran (the pass did not switch to collecting
              dependencies) and whose epilogue found no left-over tag has none of them;
           `static_error w f`: the source f of the tree w is unreadable, has no usable output name, has a line that is
              not UTF-8, or its items have a `static_item_error`;
           `command_error orc base w f`: f has a `run` directive whose command the oracle fails;
           `ok_pass_no_static_error`: a pass over f that answers PpOk, in ANY world that holds the `.txtpp` files of w,
              in any mode but Clean, excludes `static_error w f` and `command_error orc base w f`.
   PART B  F1 `ok_run_every_pass_ok` (+ `ok_run_every_pass_ok_static`, `ok_run_last_pass`).
   PART C  F2 `ok_pass_in_run_no_static_error`, `static_error_fails_run_processed`, `static_error_fails_run`,
              `static_error_fails_run_input`, `static_error_run_verdict_err`, `failing_command_fails_run`,
              and the contrast for clean: `clean_pass_never_directive_error`, `clean_ignores_directive_errors`.
   PART D  F3 `error_verdict_has_a_cause`, `failing_pass_has_error_kind`, `verdict_ok_iff` (no false success and no
           false failure as one iff, with the static fuel bound), `clean_error_verdict_has_a_cause`.
   PART E  non-vacuity on the tree of ScheduleTempFacts PART 6 and variants of it with an error in b.txtpp. *)
Require Import Txtpp.Str Txtpp.Consts Txtpp.Grammar Txtpp.Tags Txtpp.Path Txtpp.Fs Txtpp.Sink Txtpp.Pp Txtpp.Spec.
Require Import Txtpp.Dep Txtpp.Coord Txtpp.Run.
Require Import Txtpp.proofs.StrFacts Txtpp.proofs.GrammarFacts Txtpp.proofs.TagsFacts Txtpp.proofs.SinkFacts.
Require Import Txtpp.proofs.PathFacts Txtpp.proofs.PpFacts Txtpp.proofs.EventFacts.
Require Import Txtpp.proofs.FrameFacts Txtpp.proofs.ConfluenceFacts Txtpp.proofs.DepFacts Txtpp.proofs.CoordFacts.
Require Import Txtpp.proofs.RunFacts Txtpp.proofs.ScheduleFacts.
Require Import Txtpp.proofs.RunEventsFacts Txtpp.proofs.ScheduleTempFacts Txtpp.proofs.ExtraFactsB.
Require Import Txtpp.proofs.IdemFacts Txtpp.proofs.VerifyRunFacts2 Txtpp.proofs.OnceFacts Txtpp.proofs.CycleFacts.
From Coq Require Import Lia Permutation Relations.

Local Open Scope bool_scope.

(* ================================================================================================
   PART A — the pass level
   ================================================================================================ *)
(* ---- A1: the static errors of a list of items ---- *)
(* is a tag listening after the item?  `tag` starts listening; include / run / write produce output, which the
   listening tag takes; nothing else changes it *)
Definition listen_step (l : bool) (it : item) : bool :=
  match it with
  | IDir d _ => match d_ty d with
                | DTag => true
                | DInclude | DRun | DWrite => false
                | DEmpty | DAfter | DTemp => l
                end
  | _ => l
  end.
Definition listening_after (its : list item) : bool := fold_left listen_step its false.

Inductive static_item_error (its : list item) : Prop :=
(* a multi-line directive (run, temp, write, empty) without a prefix *)
| SE_no_prefix : In IBad its -> static_item_error its
(* temp without a path (cannot happen for a parsed directive) *)
| SE_temp_no_path d fol :
    In (IDir d fol) its -> d_ty d = DTemp -> d_args d = [] -> static_item_error its
(* temp whose target is itself a txtpp file *)
| SE_temp_txtpp d fol export rest :
    In (IDir d fol) its -> d_ty d = DTemp -> d_args d = export :: rest ->
    is_txtpp_file (lex_components export) = true -> static_item_error its
(* tag while the previous tag is still listening: no include / run / write between the two tag directives *)
| SE_tag_while_listening pre d fol post :
    its = pre ++ IDir d fol :: post -> d_ty d = DTag -> listening_after pre = true -> static_item_error its
(* tag whose name is equal to, a prefix of, or prefixed by the name of an earlier tag that no text line in between
   mentions (so that it is still stored, or still listening) *)
| SE_tag_clash pre d1 fol1 mid d2 fol2 post :
    its = pre ++ IDir d1 fol1 :: mid ++ IDir d2 fol2 :: post -> d_ty d1 = DTag -> d_ty d2 = DTag ->
    prefix_related (dir_arg d1) (dir_arg d2) = true ->
    (forall l, In (IText l) mid -> find_sub (dir_arg d1) l = None) -> static_item_error its
(* a tag that no later text line mentions: it is never used *)
| SE_unused_tag pre d fol post :
    its = pre ++ IDir d fol :: post -> d_ty d = DTag ->
    (forall l, In (IText l) post -> find_sub (dir_arg d) l = None) -> static_item_error its
(* a tag is still listening at the end of the file: nothing was stored in it *)
| SE_listening_at_end : listening_after its = true -> static_item_error its.

Section PassItems.
Variable orc : oracle.
Variable md : mode.
Variable src base : path.
Variable le : str.
Hypothesis Hm : md <> Clean.

Local Notation do_it := (do_item orc md src base le).
Local Notation rits := (ritems orc md src base le).

(* the pass is still executing (it has not switched to collecting dependencies) *)
Definition exec_ok (s : pst) : Prop := forall deps, pmode s <> PCollect deps.

Lemma collect_deps_not_executed d s :
  executes src d s = false -> exists s' deps, collect_deps src d s = inl (inl s') /\ pmode s' = PCollect deps.
Proof.
  unfold executes, is_dep, collect_deps, dir_arg.
  destruct (pmode s) as [| |deps] eqn:P; cbn [negb].
  - discriminate.
  - destruct (d_ty d); try discriminate;
      (destruct (get_txtpp_file (w_fs (wld s)) (lex_join (work_dir src) (hd [] (d_args d)))) as [x|] eqn:G; cbn [negb];
       [destruct (get_txtpp_file_resolves _ _ _ G) as [q ->]; intros _; eexists; eexists; split; reflexivity
       |discriminate]).
  - intros _. destruct (d_ty d); try (exists s, deps; split; [reflexivity|exact P]);
      (destruct (get_txtpp_file (w_fs (wld s)) (lex_join (work_dir src) (hd [] (d_args d)))) as [x|] eqn:G;
       [destruct (get_txtpp_file_resolves _ _ _ G) as [q ->]; eexists; eexists; split; reflexivity
       |exists s, deps; split; [reflexivity|exact P]]).
Qed.

Lemma executes_exec_ok d s : executes src d s = true -> exec_ok s.
Proof. unfold executes, exec_ok. intros H deps E. rewrite E in H. discriminate. Qed.

(* a directive item that ran fine in a pass that is still executing afterwards was executed *)
Lemma do_item_dir_executes d fol s s' :
  do_it (IDir d fol) s = StOk s' -> exec_ok s' -> executes src d s = true.
Proof.
  intros H Hok. destruct (executes src d s) eqn:He; [reflexivity|]. exfalso.
  destruct (collect_deps_not_executed d s He) as (s1 & deps & Hc & Hp).
  unfold do_item, item_output, exec_directive in H. rewrite Hc in H.
  assert (H' : emit le s1 None fol = StOk s').
  { destruct md; try exact H. congruence. }
  unfold emit in H'. destruct (is_execute (pmode s1)); inversion H'; subst s'; apply (Hok deps Hp).
Qed.

(* what an executed directive does to the tags *)
Lemma do_item_dir_tags d fol s s' :
  do_it (IDir d fol) s = StOk s' -> executes src d s = true ->
  pmode s' = pmode s /\
  match d_ty d with
  | DTag => create (tg s) (dir_arg d) = Some (tg s')
  | DInclude | DRun | DWrite =>
      match listening (tg s) with
      | Some n => exists c, tg s' = mkTags None (store_put n c (stored (tg s)))
      | None => tg s' = tg s
      end
  | DEmpty | DAfter | DTemp => tg s' = tg s
  end.
Proof.
  intros H He. unfold do_item, item_output in H. rewrite (exec_directive_executed orc md src base le d s Hm He) in H.
  assert (St : forall raw s1, pmode s1 = pmode s -> tg s1 = tg s ->
            match
              match try_store (tg s1) raw with
              | Some t' => IOut None (set_tg s1 t')
              | None => IOut (Some (format_output le (d_ws d) (lines raw) (ends_with_lf raw))) s1
              end
            with
            | IOut o s2 => emit le s2 o (item_tail (IDir d fol))
            | IErr k w => StErr k w
            | IPanic => StPanic
            end = StOk s' ->
            pmode s' = pmode s /\
            match listening (tg s) with
            | Some n => exists c, tg s' = mkTags None (store_put n c (stored (tg s)))
            | None => tg s' = tg s
            end).
  { intros raw s1 Hp Ht H1. unfold try_store in H1. rewrite Ht in H1.
    destruct (listening (tg s)) as [n|].
    - apply emit_pmode in H1. destruct H1 as [H1 H2]. cbn [set_tg pmode tg] in H1, H2.
      split; [congruence|]. exists raw. exact H2.
    - apply emit_pmode in H1. destruct H1 as [H1 H2]. split; congruence. }
  destruct (d_ty d) eqn:Ty.
  - apply emit_pmode in H. exact H.
  - destruct (os_resolve (w_fs (wld s)) (lex_join (work_dir src) (dir_arg d))) as [q|]; [|discriminate].
    destruct (read_file (w_fs (wld s)) q) as [c|]; [|discriminate].
    destruct (utf8_valid c); [|discriminate]. apply (St c s eq_refl eq_refl H).
  - apply emit_pmode in H. exact H.
  - cbv zeta in H. destruct (orc (join [SPb] (d_args d)) (work_dir src) (input_display src base)) as [out|]; [|discriminate].
    apply (St out (set_wld s _) eq_refl eq_refl H).
  - destruct (create (tg s) (dir_arg d)) as [t'|] eqn:C; [|discriminate].
    apply emit_pmode in H. destruct H as [H1 H2]. cbn [set_tg pmode tg] in H1, H2. split; [exact H1|]. rewrite H2. reflexivity.
  - destruct (exec_temp src le (d_args d) false (wld s)) as [w'|k]; [|discriminate].
    apply emit_pmode in H. exact H.
  - apply (St _ s eq_refl eq_refl H).
Qed.

(* a text item *)
Lemma do_item_text l s s' :
  do_it (IText l) s = StOk s' -> exec_ok s ->
  pmode s' = pmode s /\
  exists removed, tg s' = mkTags (listening (tg s)) (fold_left (fun st k => store_remove k st) removed (stored (tg s))) /\
    forall k, In k removed -> find_sub k l <> None.
Proof.
  intros H Hok. unfold do_item, item_output in H.
  assert (Ex : is_execute (pmode s) = true).
  { destruct (pmode s) as [| |deps] eqn:P; try reflexivity. exfalso. apply (Hok deps P). }
  rewrite Ex in H. destruct (inject (tg s) l le) as [[l' t']|] eqn:I; [|discriminate].
  apply emit_pmode in H. destruct H as [H1 H2]. cbn [set_tg pmode tg] in H1, H2. split; [exact H1|].
  unfold inject in I. destruct (ends_with_lf l); [discriminate|]. cbv zeta in I.
  destruct (inject_loop le l (stable_sort_occ (occurrences (stored (tg s)) l)) 0 [] []) as [[[out last_end] removed]|] eqn:IL;
    [|discriminate].
  destruct (Nat.leb last_end (length l)); [|discriminate]. 
  assert (Et : t' = mkTags (listening (tg s)) (fold_left (fun st k => store_remove k st) removed (stored (tg s))))
    by (inversion I; reflexivity).
  clear I. exists removed. split; [rewrite H2; exact Et|].
  (* every removed key is the key of an occurrence *)
  assert (G : forall L last_end0 out0 removed0 out1 last_end1 removed1,
            inject_loop le l L last_end0 out0 removed0 = Some (out1, last_end1, removed1) ->
            forall k, In k removed1 -> In k removed0 \/ exists i v, In (i, (k, v)) L).
  { induction L as [|[i [k0 v0]] L IH]; intros last_end0 out0 removed0 out1 last_end1 removed1 HL k Hk;
      cbn [inject_loop] in HL.
    - inversion HL; subst. left. exact Hk.
    - destruct (Nat.ltb i last_end0).
      + destruct (IH _ _ _ _ _ _ HL k Hk) as [Hr|(i1 & v1 & Hr)]; [left; exact Hr|].
        right. exists i1, v1. right. exact Hr.
      + destruct (Nat.leb i (length l)); [|discriminate].
        destruct (IH _ _ _ _ _ _ HL k Hk) as [Hr|(i1 & v1 & Hr)].
        * apply in_app_or in Hr. destruct Hr as [Hr|[<-|[]]]; [left; exact Hr|].
          right. exists i, v0. left. reflexivity.
        * right. exists i1, v1. right. exact Hr. }
  intros k Hk. destruct (G _ _ _ _ _ _ _ IL k Hk) as [[]|(i & v & Hin)].
  unfold stable_sort_occ in Hin. apply (proj1 (In_sort_occ _ _)) in Hin.
  apply In_occurrences in Hin. destruct Hin as [_ Hf]. rewrite Hf. discriminate.
Qed.

(* an item that ran fine and left the pass executing: the pass was executing before *)
Lemma do_item_exec_ok_back it s s' : do_it it s = StOk s' -> exec_ok s' -> exec_ok s.
Proof.
  intros H Hok. destruct it as [l|d fol| |].
  - intros deps P. unfold do_item, item_output in H. rewrite P in H. cbn [is_execute] in H.
    apply emit_pmode in H. destruct H as [H _]. apply (Hok deps). congruence.
  - apply (executes_exec_ok d). apply (do_item_dir_executes d fol s s' H Hok).
  - discriminate.
  - discriminate.
Qed.

Lemma ritems_exec_ok_back its : forall s s', rits its s = StOk s' -> exec_ok s' -> exec_ok s.
Proof.
  induction its as [|it r IH]; intros s s' H Hok.
  - rewrite ritems_nil in H. inversion H; subst. exact Hok.
  - rewrite ritems_cons in H. destruct (do_it it s) as [s2|k w|] eqn:E; try discriminate.
    apply (do_item_exec_ok_back it s s2 E). apply (IH s2 s' H Hok).
Qed.

(* splitting a successful execution at an item *)
Lemma ritems_split pre it post s b :
  rits (pre ++ it :: post) s = StOk b -> exec_ok b ->
  exists s1 s2, rits pre s = StOk s1 /\ do_it it s1 = StOk s2 /\ rits post s2 = StOk b /\ exec_ok s1 /\ exec_ok s2.
Proof.
  intros H Hok. rewrite ritems_app in H. destruct (rits pre s) as [s1|k w|] eqn:E1; try discriminate.
  rewrite ritems_cons in H. destruct (do_it it s1) as [s2|k w|] eqn:E2; try discriminate.
  exists s1, s2. split; [reflexivity|]. split; [exact E2|]. split; [exact H|].
  assert (H2 : exec_ok s2) by (apply (ritems_exec_ok_back post s2 b H Hok)).
  split; [apply (do_item_exec_ok_back it s1 s2 E2 H2)|exact H2].
Qed.

(* ---- the listening tag, statically ---- *)
Definition lst (s : pst) : bool := match listening (tg s) with Some _ => true | None => false end.

Lemma do_item_listen it s s' : do_it it s = StOk s' -> exec_ok s' -> lst s' = listen_step (lst s) it.
Proof.
  intros H Hok. destruct it as [l|d fol| |]; try discriminate.
  - destruct (do_item_text l s s' H (do_item_exec_ok_back _ _ _ H Hok)) as (_ & removed & Ht & _).
    unfold lst. rewrite Ht. reflexivity.
  - pose proof (do_item_dir_executes d fol s s' H Hok) as He.
    destruct (do_item_dir_tags d fol s s' H He) as [_ Ht]. unfold lst. cbn [listen_step].
    destruct (d_ty d).
    + rewrite Ht. reflexivity.
    + destruct (listening (tg s)) as [n|] eqn:L; [destruct Ht as [c ->]; reflexivity|rewrite Ht, L; reflexivity].
    + rewrite Ht. reflexivity.
    + destruct (listening (tg s)) as [n|] eqn:L; [destruct Ht as [c ->]; reflexivity|rewrite Ht, L; reflexivity].
    + apply create_ok_effect in Ht. destruct Ht as [-> _]. reflexivity.
    + rewrite Ht. reflexivity.
    + destruct (listening (tg s)) as [n|] eqn:L; [destruct Ht as [c ->]; reflexivity|rewrite Ht, L; reflexivity].
Qed.

Lemma ritems_listen its : forall s s', rits its s = StOk s' -> exec_ok s' -> lst s' = fold_left listen_step its (lst s).
Proof.
  induction its as [|it r IH]; intros s s' H Hok.
  - rewrite ritems_nil in H. inversion H; subst. reflexivity.
  - rewrite ritems_cons in H. destruct (do_it it s) as [s2|k w|] eqn:E; try discriminate.
    cbn [fold_left]. rewrite (IH s2 s' H Hok).
    rewrite (do_item_listen it s s2 E (ritems_exec_ok_back r s2 s' H Hok)). reflexivity.
Qed.

(* ---- a pending tag: listening, or stored; it stays pending as long as no text line mentions it ---- *)
Definition pending (n : str) (s : pst) : Prop :=
  listening (tg s) = Some n \/ In n (map fst (stored (tg s))).

Lemma in_keys_remove n k st : In n (map fst st) -> n <> k -> In n (map fst (store_remove k st)).
Proof.
  intros H Hne. apply in_map_iff in H. destruct H as ([k0 v0] & E & Hin). cbn [fst] in E. subst k0.
  apply in_map_iff. exists (n, v0). split; [reflexivity|]. apply In_store_remove. split; assumption.
Qed.
Lemma in_keys_fold_remove n removed : forall st,
  In n (map fst st) -> ~ In n removed -> In n (map fst (fold_left (fun st k => store_remove k st) removed st)).
Proof.
  induction removed as [|k r IH]; intros st H Hn; cbn [fold_left]; [exact H|].
  apply IH.
  - apply in_keys_remove; [exact H|]. intros ->. apply Hn. left. reflexivity.
  - intros Hr. apply Hn. right. exact Hr.
Qed.
Lemma in_keys_put n k c st : In n (map fst st) -> In n (map fst (store_put k c st)).
Proof.
  intros H. unfold store_put. cbn [map fst].
  destruct (list_eq_dec N.eq_dec n k) as [->|Hne]; [left; reflexivity|].
  right. apply in_keys_remove; assumption.
Qed.

Lemma do_item_pending n it s s' :
  do_it it s = StOk s' -> exec_ok s' -> pending n s ->
  (forall l, it = IText l -> find_sub n l = None) -> pending n s'.
Proof.
  intros H Hok Hp Hl. destruct it as [l|d fol| |]; try discriminate.
  - destruct (do_item_text l s s' H (do_item_exec_ok_back _ _ _ H Hok)) as (_ & removed & Ht & Hr).
    unfold pending. rewrite Ht. cbn [listening stored]. destruct Hp as [Hp|Hp]; [left; exact Hp|].
    right. apply in_keys_fold_remove; [exact Hp|]. intros Hin. apply (Hr n Hin). apply Hl. reflexivity.
  - pose proof (do_item_dir_executes d fol s s' H Hok) as He.
    destruct (do_item_dir_tags d fol s s' H He) as [_ Ht]. unfold pending in *.
    assert (Hsame : tg s' = tg s -> listening (tg s') = Some n \/ In n (map fst (stored (tg s')))).
    { intros ->. exact Hp. }
    assert (Hout : match listening (tg s) with
                   | Some n0 => exists c, tg s' = mkTags None (store_put n0 c (stored (tg s)))
                   | None => tg s' = tg s
                   end -> listening (tg s') = Some n \/ In n (map fst (stored (tg s')))).
    { destruct (listening (tg s)) as [n0|] eqn:L; [|exact Hsame].
      intros [c ->]. cbn [listening stored]. right. destruct Hp as [Hp|Hp].
      - inversion Hp; subst n0. left. reflexivity.
      - apply in_keys_put. exact Hp. }
    destruct (d_ty d); auto.
    pose proof Ht as Hc. apply create_ok_effect in Ht. destruct Ht as [_ Hs].
    unfold create in Hc. destruct (listening (tg s)) as [n0|]; [discriminate|].
    destruct Hp as [Hp|Hp]; [discriminate|]. right. rewrite Hs. exact Hp.
Qed.

Lemma ritems_pending n its : forall s s',
  rits its s = StOk s' -> exec_ok s' -> pending n s ->
  (forall l, In (IText l) its -> find_sub n l = None) -> pending n s'.
Proof.
  induction its as [|it r IH]; intros s s' H Hok Hp Hl.
  - rewrite ritems_nil in H. inversion H; subst. exact Hp.
  - rewrite ritems_cons in H. destruct (do_it it s) as [s2|k w|] eqn:E; try discriminate.
    apply (IH s2 s' H Hok).
    + apply (do_item_pending n it s s2 E (ritems_exec_ok_back r s2 s' H Hok) Hp).
      intros l ->. apply Hl. left. reflexivity.
    + intros l Hin. apply Hl. right. exact Hin.
Qed.

Lemma pending_has_tags n s : pending n s -> has_tags (tg s) = true.
Proof.
  unfold pending, has_tags. intros [->|H]; [reflexivity|].
  destruct (listening (tg s)); [reflexivity|]. destruct (stored (tg s)); [destruct H|reflexivity].
Qed.

(* a tag directive that ran fine leaves its name pending *)
Lemma tag_pending d fol s s' :
  do_it (IDir d fol) s = StOk s' -> exec_ok s' -> d_ty d = DTag ->
  listening (tg s) = None /\ create (tg s) (dir_arg d) = Some (tg s') /\ pending (dir_arg d) s'.
Proof.
  intros H Hok Ty. pose proof (do_item_dir_executes d fol s s' H Hok) as He.
  destruct (do_item_dir_tags d fol s s' H He) as [_ Ht]. rewrite Ty in Ht.
  split; [|split; [exact Ht|]].
  - unfold create in Ht. destruct (listening (tg s)); [discriminate|reflexivity].
  - left. apply create_ok_effect in Ht. apply Ht.
Qed.

(* ---- A2: a pass whose items all ran fine, still executing at the end, without left-over tag, has no static
   error in its items ---- *)
Theorem ritems_ok_no_static_error its s0 b :
  rits its s0 = StOk b -> exec_ok b -> listening (tg s0) = None -> has_tags (tg b) = false ->
  ~ static_item_error its.
Proof.
  intros H Hok L0 Hnt Herr.
  assert (Hl0 : lst s0 = false) by (unfold lst; rewrite L0; reflexivity).
  destruct Herr as [Hin|d fol Hin Ty Ha|d fol e rest Hin Ty Ha Ht|pre d fol post E Ty Hl
                   |pre d1 fol1 mid d2 fol2 post E Ty1 Ty2 Hrel Hno|pre d fol post E Ty Hno|Hl].
  - (* IBad *)
    apply in_split in Hin. destruct Hin as (pre & post & ->).
    destruct (ritems_split pre IBad post s0 b H Hok) as (s1 & s2 & _ & H2 & _). discriminate.
  - (* temp without path *)
    apply in_split in Hin. destruct Hin as (pre & post & ->).
    destruct (ritems_split pre _ post s0 b H Hok) as (s1 & s2 & _ & H2 & _ & _ & Hok2).
    pose proof (do_item_dir_executes d fol s1 s2 H2 Hok2) as He.
    unfold do_item, item_output in H2. rewrite (exec_directive_executed orc md src base le d s1 Hm He), Ty, Ha in H2.
    cbn [exec_temp] in H2. discriminate.
  - (* temp to a txtpp file *)
    apply in_split in Hin. destruct Hin as (pre & post & ->).
    destruct (ritems_split pre _ post s0 b H Hok) as (s1 & s2 & _ & H2 & _ & _ & Hok2).
    pose proof (do_item_dir_executes d fol s1 s2 H2 Hok2) as He.
    unfold do_item, item_output in H2. rewrite (exec_directive_executed orc md src base le d s1 Hm He), Ty, Ha in H2.
    cbn [exec_temp] in H2. rewrite Ht in H2. discriminate.
  - (* tag while listening *)
    subst its. destruct (ritems_split pre _ post s0 b H Hok) as (s1 & s2 & H1 & H2 & _ & Hok1 & Hok2).
    pose proof (ritems_listen pre s0 s1 H1 Hok1) as Hl1. rewrite Hl0 in Hl1. fold (listening_after pre) in Hl1.
    rewrite Hl in Hl1. destruct (tag_pending d fol s1 s2 H2 Hok2 Ty) as (Hn & _).
    unfold lst in Hl1. rewrite Hn in Hl1. discriminate.
  - (* tag clash *)
    subst its. destruct (ritems_split pre _ _ s0 b H Hok) as (s1 & s2 & _ & H2 & H3 & _ & Hok2).
    destruct (tag_pending d1 fol1 s1 s2 H2 Hok2 Ty1) as (_ & _ & Hp).
    destruct (ritems_split mid _ post s2 b H3 Hok) as (s3 & s4 & H4 & H5 & _ & Hok3 & Hok4).
    pose proof (ritems_pending (dir_arg d1) mid s2 s3 H4 Hok3 Hp Hno) as Hp3.
    destruct (tag_pending d2 fol2 s3 s4 H5 Hok4 Ty2) as (Hn & Hc & _).
    destruct Hp3 as [Hp3|Hp3]; [congruence|].
    unfold create in Hc. rewrite Hn in Hc.
    assert (Ex : existsb (fun kv => prefix_related (fst kv) (dir_arg d2)) (stored (tg s3)) = true).
    { apply in_map_iff in Hp3. destruct Hp3 as ([k v] & Ek & Hin). cbn [fst] in Ek. subst k.
      apply existsb_exists. exists (dir_arg d1, v). split; [exact Hin|exact Hrel]. }
    rewrite Ex in Hc. discriminate.
  - (* unused tag *)
    subst its. destruct (ritems_split pre _ post s0 b H Hok) as (s1 & s2 & _ & H2 & H3 & _ & Hok2).
    destruct (tag_pending d fol s1 s2 H2 Hok2 Ty) as (_ & _ & Hp).
    pose proof (ritems_pending (dir_arg d) post s2 b H3 Hok Hp Hno) as Hpb.
    rewrite (pending_has_tags _ _ Hpb) in Hnt. discriminate.
  - (* still listening at the end *)
    pose proof (ritems_listen its s0 b H Hok) as Hlb. rewrite Hl0 in Hlb. fold (listening_after its) in Hlb.
    rewrite Hl in Hlb. unfold lst in Hlb. unfold has_tags in Hnt.
    destruct (listening (tg b)); discriminate.
Qed.

(* a run directive whose command fails is an error of the pass that executes it *)
Lemma ritems_ok_no_failing_command its s0 b d fol :
  rits its s0 = StOk b -> exec_ok b -> In (IDir d fol) its -> d_ty d = DRun ->
  orc (join [SPb] (d_args d)) (work_dir src) (input_display src base) <> None.
Proof.
  intros H Hok Hin Ty Ho. apply in_split in Hin. destruct Hin as (pre & post & ->).
  destruct (ritems_split pre _ post s0 b H Hok) as (s1 & s2 & _ & H2 & _ & _ & Hok2).
  pose proof (do_item_dir_executes d fol s1 s2 H2 Hok2) as He.
  unfold do_item, item_output in H2. rewrite (exec_directive_executed orc md src base le d s1 Hm He), Ty in H2.
  cbv zeta in H2. rewrite Ho in H2. discriminate.
Qed.
End PassItems.

(* ---- A3: the static errors of a source of the tree w ---- *)
Inductive static_error (w : world) (f : path) : Prop :=
(* the source cannot be read (missing, or a directory) *)
| SErr_unreadable : read_file (w_fs w) f = None -> static_error w f
(* the source has no usable output name: it is not a `.txtpp` name, or the name without `.txtpp` is again one *)
| SErr_no_output : (forall out, remove_txtpp f = Some out -> is_txtpp_file out = true) -> static_error w f
(* some line of the source is not valid UTF-8 *)
| SErr_not_utf8 raw : read_file (w_fs w) f = Some raw -> snd (take_valid (lines raw)) = true -> static_error w f
(* the items of the source have a static error *)
| SErr_items : static_item_error (items_of Build w f) -> static_error w f.

(* the source f has a run directive whose command fails (the oracle answers None); base = the canonical base
   directory of the run (`run_base cfg w`) *)
Definition command_error (orc : oracle) (base : path) (w : world) (f : path) : Prop :=
  exists d fol, In (IDir d fol) (items_of Build w f) /\ d_ty d = DRun /\
    orc (join [SPb] (d_args d)) (work_dir f) (input_display f base) = None.

(* a pass that answers PpOk, in any mode but Clean, in ANY world wt that holds the `.txtpp` files of w, first pass or
   final pass: the source has no static error and none of its commands fails *)
Theorem ok_pass_no_static_error orc md base f b tn w wt w' :
  md <> Clean -> txtpp_same w wt -> pp_run orc md base f b tn wt = PpOk w' ->
  ~ static_error w f /\ ~ command_error orc base w f.
Proof.
  intros Hm HS H. rewrite pp_run_unfold in H.
  destruct (read_file (w_fs wt) f) as [raw|] eqn:Er; [|discriminate].
  destruct (remove_txtpp f) as [out|] eqn:Ho; [|discriminate].
  destruct (is_txtpp_file out) eqn:Eo; [discriminate|].
  destruct (sink_new md wt out) as [[k0 w0]|k]; [|discriminate].
  rewrite pp_rest_items in H. cbv zeta in H.
  assert (Hc : mode_eqb md Clean = false) by (destruct md; try reflexivity; congruence).
  rewrite Hc in H.
  set (ls := fst (take_valid (lines raw))) in *.
  set (s0 := mkP None false (if b then PFirst else PExec) tags_new k0 w0) in *.
  destruct (ritems orc md f base (detect_le raw) (fst (lsplit false None ls)) s0) as [a|k w1|] eqn:E1; try discriminate.
  destruct (snd (take_valid (lines raw))) eqn:Ebad; [discriminate|].
  destruct (ritems orc md f base (detect_le raw) (pend (snd (lsplit false None ls))) a) as [b0|k w1|] eqn:E2; try discriminate.
  assert (Hr : ritems orc md f base (detect_le raw) (parse false None ls) s0 = StOk b0).
  { rewrite (lsplit_parse false ls None), ritems_app, E1. exact E2. }
  assert (Hok : exec_ok b0).
  { intros deps P. unfold epilogue in H. rewrite P in H. discriminate. }
  assert (Hnt : has_tags (tg b0) = false).
  { unfold epilogue in H. destruct (pmode b0) as [| |deps]; try discriminate;
      destruct (has_tags (tg b0)); try reflexivity; rewrite Hc in H; discriminate. }
  assert (Ef : fs_get (w_fs wt) f = fs_get (w_fs w) f).
  { apply HS. eapply remove_txtpp_is_txtpp; eauto. }
  assert (Erw : read_file (w_fs w) f = Some raw) by (unfold read_file in *; rewrite <- Ef; exact Er).
  assert (Ei : items_of Build w f = parse false None ls).
  { unfold items_of. rewrite Erw. reflexivity. }
  split.
  - intros [Hu|Hno|raw' Er' Hb|Hit].
    + congruence.
    + rewrite (Hno out Ho) in Eo. discriminate.
    + rewrite Erw in Er'. inversion Er'; subst raw'. congruence.
    + rewrite Ei in Hit. revert Hit.
      apply (ritems_ok_no_static_error orc md f base (detect_le raw) Hm _ s0 b0 Hr Hok eq_refl Hnt).
  - intros (d & fol & Hin & Ty & Ho'). rewrite Ei in Hin.
    apply (ritems_ok_no_failing_command orc md f base (detect_le raw) Hm _ s0 b0 d fol Hr Hok Hin Ty Ho').
Qed.

(* ================================================================================================
   PART C — F2: a static error in any processed / reached source fails the whole run
   ================================================================================================ *)
(* every pass of ANY run (whatever the verdict, drained tasks included) that answered POk was a pass over a source
   without static error and without failing command.  Static hypotheses: no duplicate keys, legal names. *)
Theorem ok_pass_in_run_no_static_error orc cfg fuel sched w f b :
  cfg_mode cfg <> Clean -> raw_ok w -> legal_names (w_fs w) ->
  In (TPp f b, RPp f (Some POk)) (trace_of (txtpp_run orc cfg fuel sched w)) ->
  ~ static_error w f /\ ~ command_error orc (run_base cfg w) w f.
Proof.
  intros Hmd N L Hin.
  pose proof (txtpp_run_chain orc cfg fuel sched w) as HC. cbv zeta in HC.
  apply in_split in Hin. destruct Hin as (pre & post & E).
  assert (Hr : exists wt, ran_in orc cfg (run_base cfg w) w (trace_of (txtpp_run orc cfg fuel sched w))
                            (TPp f b) (RPp f (Some POk)) wt /\
                          exists w2, exec_task orc cfg (run_base cfg w) (TPp f b) wt = Some (RPp f (Some POk), w2)).
  { rewrite E in HC. apply exec_chain_split in HC. destruct HC as (wt & Hpre & HC).
    inversion HC as [|w0 t0 r0 w2 rest w3 Hex _]; subst.
    exists wt. split; [exists pre, post; split; [exact E|exact Hpre]|exists w2; exact Hex]. }
  destruct Hr as (wt & Hr & w2 & Hex).
  destruct (ran_in_txtpp_same_legal orc cfg fuel sched w _ _ wt N L Hr) as [HS _].
  cbn [exec_task] in Hex.
  destruct (pp_run orc (cfg_mode cfg) (run_base cfg w) f b (cfg_trailing cfg) wt) as [w1|deps w1|k w1|] eqn:Ep;
    try discriminate.
  apply (ok_pass_no_static_error orc (cfg_mode cfg) (run_base cfg w) f b (cfg_trailing cfg) w wt w1 Hmd HS Ep).
Qed.

(* F2, for the sources that were given a pass: if ANY source that was given a pass in the run has a static error,
   or a run directive whose command fails, the verdict is not VOk.  Modes Build, InMemoryBuild (--needed), Verify;
   any schedule, fuel, oracle. *)
Theorem static_error_fails_run_processed orc cfg fuel sched w f :
  cfg_mode cfg <> Clean -> raw_ok w -> legal_names (w_fs w) ->
  let x := txtpp_run orc cfg fuel sched w in
  processed x f ->
  static_error w f \/ command_error orc (run_base cfg w) w f ->
  verdict_of x <> VOk.
Proof.
  intros Hmd N L x (b & r & Hin) Herr Hv. subst x.
  assert (Hp : exists b', In (TPp f b', RPp f (Some POk)) (trace_of (txtpp_run orc cfg fuel sched w))).
  { destruct (ok_run_passes_of_processed orc cfg fuel sched w Hv f b r Hin) as [H1|[ds [_ H2]]].
    - exists true. apply (proj1 (passes_of_In f _ _)). unfold one_pass in H1. rewrite H1. left. reflexivity.
    - exists false. apply (proj1 (passes_of_In f _ _)). rewrite H2. right. left. reflexivity. }
  destruct Hp as [b' Hb'].
  destruct (ok_pass_in_run_no_static_error orc cfg fuel sched w f b' Hmd N L Hb') as [H1 H2].
  destruct Herr as [He|He]; [exact (H1 He)|exact (H2 He)].
Qed.

(* ---- a successful run: no task failed; it went through the loop; the final coordinator state is reachable ---- *)
Lemma ok_run_no_task_error orc cfg fuel sched w :
  verdict_of (txtpp_run orc cfg fuel sched w) = VOk -> no_task_error (txtpp_run orc cfg fuel sched w).
Proof.
  intros Hv t r Hin.
  destruct (CycleFacts.txtpp_run_cases orc cfg fuel sched w) as [[_ E]|(base & files & dirs & _ & _ & _ & E)];
    rewrite E in *; [discriminate|].
  destruct (ok_means_no_error orc cfg base files dirs (ginit files dirs) fuel sched w [] t r
              (greach_init files dirs) Hv Hin) as [[]|H]. exact H.
Qed.

Lemma ok_run_started orc cfg fuel sched w :
  verdict_of (txtpp_run orc cfg fuel sched w) = VOk -> started cfg w.
Proof.
  intros Hv.
  destruct (CycleFacts.txtpp_run_cases orc cfg fuel sched w) as [[_ E]|(base & files & dirs & Ht & Eb & Ei & _)].
  - rewrite E in Hv. discriminate.
  - split; [exact Ht|]. exists base, files, dirs. split; assumption.
Qed.

(* the summary of a successful run in any mode but Clean, under `cycle_static` *)
Lemma ok_run_static_summary orc cfg fuel sched w :
  cfg_mode cfg <> Clean -> raw_ok w -> cycle_static w ->
  let x := txtpp_run orc cfg fuel sched w in
  verdict_of x = VOk ->
  exists base files dirs g,
    os_resolve (w_fs w) (cfg_base cfg) = Some base /\
    resolve_inputs (w_fs w) base (cfg_inputs cfg) [] [] = Some (files, dirs) /\
    greach files dirs g /\ gs g = state_of x /\
    JX cfg w files dirs g (world_of x) (trace_of x) /\
    (forall f, reached cfg w f <-> In f (seen (gs g))).
Proof.
  intros Hmd N HS x Hv. subst x.
  destruct (ok_run_started orc cfg fuel sched w Hv) as [Ht (base & files & dirs & Eb & Ei)].
  assert (Hnf : verdict_of (txtpp_run orc cfg fuel sched w) <> VFuel) by congruence.
  destruct (cycle_run_summary orc cfg fuel sched w base files dirs Hmd N HS Ht Eb Ei
              (ok_run_no_task_error orc cfg fuel sched w Hv) Hnf) as (g & R & Es & _ & _ & HJ & Hre).
  exists base, files, dirs, g. repeat (split; [assumption|]). exact Hre.
Qed.

(* in a successful run the reached sources are exactly the sources that were given a pass *)
Lemma ok_run_reached_processed orc cfg fuel sched w :
  cfg_mode cfg <> Clean -> raw_ok w -> cycle_static w ->
  let x := txtpp_run orc cfg fuel sched w in
  verdict_of x = VOk -> forall f, reached cfg w f <-> processed x f.
Proof.
  intros Hmd N HS x Hv f. subst x.
  destruct (ok_run_static_summary orc cfg fuel sched w Hmd N HS Hv) as (base & files & dirs & g & _ & _ & _ & Es & _ & Hre).
  rewrite (Hre f), Es. apply (ok_run_pass_seen orc cfg fuel sched w Hv f).
Qed.

(* F2, the main statement: if a source REACHED from the inputs (an input, a `.txtpp` file of a scanned directory, a
   dependency of such a file — `IdemFacts.reached`, a static notion) has a static error ANYWHERE in its text, or a run
   directive whose command fails, then the verdict is not VOk: ANY schedule, fuel, oracle; modes Build, --needed,
   Verify.  (An error before the first dependency directive of the file is hit by its first pass; an error after it is
   hit by its final pass, which a successful run must give to the file.) *)
Theorem static_error_fails_run orc cfg fuel sched w f :
  cfg_mode cfg <> Clean -> raw_ok w -> legal_names (w_fs w) -> cycle_static w ->
  reached cfg w f ->
  static_error w f \/ command_error orc (run_base cfg w) w f ->
  verdict_of (txtpp_run orc cfg fuel sched w) <> VOk.
Proof.
  intros Hmd N L HS Hre Herr Hv.
  apply (static_error_fails_run_processed orc cfg fuel sched w f Hmd N L); [|exact Herr|exact Hv].
  apply (ok_run_reached_processed orc cfg fuel sched w Hmd N HS Hv f). exact Hre.
Qed.

(* ... with the static fuel bound of RunFacts.txtpp_run_terminates the verdict is VErr *)
Corollary static_error_run_verdict_err orc cfg fuel sched w f :
  cfg_mode cfg <> Clean -> raw_ok w -> legal_names (w_fs w) -> cycle_static w ->
  (fuel > 2 * length (src_files (w_fs w)) + length (dir_entries (w_fs w)))%nat ->
  reached cfg w f ->
  static_error w f \/ command_error orc (run_base cfg w) w f ->
  verdict_of (txtpp_run orc cfg fuel sched w) = VErr.
Proof.
  intros Hmd N L HS Hfuel Hre Herr.
  destruct (cycle_never_hangs orc cfg fuel sched w N L Hfuel) as [H|H]; [|exact H].
  exfalso. exact (static_error_fails_run orc cfg fuel sched w f Hmd N L HS Hre Herr H).
Qed.

(* ... for a source named on the command line no hypothesis on the dependency graph is needed *)
Theorem static_error_fails_run_input orc cfg fuel sched w base files dirs f :
  cfg_mode cfg <> Clean -> raw_ok w -> legal_names (w_fs w) ->
  os_resolve (w_fs w) (cfg_base cfg) = Some base ->
  resolve_inputs (w_fs w) base (cfg_inputs cfg) [] [] = Some (files, dirs) ->
  In f files ->
  static_error w f \/ command_error orc base w f ->
  verdict_of (txtpp_run orc cfg fuel sched w) <> VOk.
Proof.
  intros Hmd N L Eb Ei Hf Herr Hv.
  assert (Erb : run_base cfg w = base) by (unfold run_base; rewrite Eb; reflexivity).
  apply (static_error_fails_run_processed orc cfg fuel sched w f Hmd N L); [|rewrite Erb; exact Herr|exact Hv].
  apply (ok_run_pass_seen orc cfg fuel sched w Hv f).
  destruct (CycleFacts.txtpp_run_cases orc cfg fuel sched w) as [[_ E]|(base' & files' & dirs' & _ & Eb' & Ei' & E)].
  - rewrite E in Hv. discriminate.
  - rewrite Eb in Eb'. inversion Eb'; subst base'. rewrite Ei in Ei'. inversion Ei'; subst files' dirs'.
    rewrite E in *.
    pose proof (run_loop_exit_inv orc cfg base files dirs (fun _ _ _ => True) (fun _ _ _ _ _ _ _ _ _ _ _ _ _ => I)
                  fuel sched (ginit files dirs) w [] (greach_init files dirs) I) as H.
    cbv zeta in H. destruct H as [(g & R & Es & _)|(Hv' & _)]; [|congruence].
    rewrite <- Es. apply (greach_inputs_seen files dirs g R f Hf).
Qed.

(* the special case the task names: a failing command *)
Corollary failing_command_fails_run orc cfg fuel sched w f d fol :
  cfg_mode cfg <> Clean -> raw_ok w -> legal_names (w_fs w) -> cycle_static w ->
  reached cfg w f ->
  In (IDir d fol) (items_of Build w f) -> d_ty d = DRun ->
  orc (join [SPb] (d_args d)) (parent f) (display_from_base (run_base cfg w) f) = None ->
  verdict_of (txtpp_run orc cfg fuel sched w) <> VOk.
Proof.
  intros Hmd N L HS Hre Hin Ty Ho. apply (static_error_fails_run orc cfg fuel sched w f Hmd N L HS Hre).
  right. exists d, fol. split; [exact Hin|]. split; [exact Ty|exact Ho].
Qed.

(* ================================================================================================
   PART B — F1: in a successful run every pass is a success
   ================================================================================================ *)
(* the last pass of the file f in the trace (completion order) *)
Definition last_pass (f : path) (tr : list (task * result)) : option (task * result) :=
  match rev (passes_of f tr) with [] => None | y :: _ => Some y end.

(* F1, any mode (Clean included), no hypothesis on the tree: in a run with verdict VOk
   - no (task, result) of the trace is an error;
   - the sources that were given a pass are the sources seen by the coordinator;
   - each of them got EXACTLY one pass that answered POk, or a first pass that reported dependencies THEN a final pass
     that answered POk (`OnceFacts.one_pass` / `two_passes`): in both cases its LAST pass answered POk. *)
Theorem ok_run_every_pass_ok orc cfg fuel sched w :
  let x := txtpp_run orc cfg fuel sched w in
  verdict_of x = VOk ->
  no_task_error x /\
  (forall f, processed x f <-> In f (seen (state_of x))) /\
  (forall f, processed x f ->
     (one_pass f (trace_of x) \/ exists ds, two_passes f ds (trace_of x)) /\
     exists b, last_pass f (trace_of x) = Some (TPp f b, RPp f (Some POk))).
Proof.
  intros x Hv. subst x. split; [apply ok_run_no_task_error; exact Hv|]. split.
  - intros f. symmetry. apply (ok_run_pass_seen orc cfg fuel sched w Hv f).
  - intros f (b & r & Hin).
    pose proof (ok_run_passes_of_processed orc cfg fuel sched w Hv f b r Hin) as H. split; [exact H|].
    destruct H as [H|[ds [_ H]]]; unfold last_pass.
    + unfold one_pass in H. rewrite H. exists true. reflexivity.
    + rewrite H. exists false. reflexivity.
Qed.

(* F1 for the REACHED sources (static), any mode but Clean, under `cycle_static`: in a run with verdict VOk
   - the reached sources are exactly the sources that were given a pass, and none reaches a dependency cycle;
   - a reached source without dependency got exactly its first pass, which answered POk;
   - a reached source with dependencies got its first pass, which reported exactly its static dependencies, then its
     final pass, which answered POk;
   - in both cases the last pass of the file is `(TPp f (lastflag w f), POk)`. *)
Theorem ok_run_every_pass_ok_static orc cfg fuel sched w :
  cfg_mode cfg <> Clean -> raw_ok w -> cycle_static w ->
  let x := txtpp_run orc cfg fuel sched w in
  verdict_of x = VOk ->
  (forall f, reached cfg w f <-> processed x f) /\
  (forall f, reached cfg w f -> ~ reaches_cycle w f) /\
  (forall f, reached cfg w f ->
     last_pass f (trace_of x) = Some (TPp f (lastflag w f), RPp f (Some POk)) /\
     ((sdeps w f = [] /\ one_pass f (trace_of x)) \/
      (sdeps w f <> [] /\ two_passes f (sdeps w f) (trace_of x)))).
Proof.
  intros Hmd N HS x Hv. subst x.
  pose proof (ok_run_reached_processed orc cfg fuel sched w Hmd N HS Hv) as HRP.
  split; [exact HRP|]. split.
  - assert (Hnf : verdict_of (txtpp_run orc cfg fuel sched w) <> VFuel) by congruence.
    destruct (cycle_iff_static orc cfg fuel sched w Hmd N HS (ok_run_started orc cfg fuel sched w Hv)
                (ok_run_no_task_error orc cfg fuel sched w Hv) Hnf) as (_ & H2 & _).
    apply H2. exact Hv.
  - intros f Hre.
    destruct (ok_run_static_summary orc cfg fuel sched w Hmd N HS Hv)
      as (base & files & dirs & g & _ & _ & R & Es & HJ & _).
    destruct HJ as (_ & _ & G1 & G2 & _ & _ & GT & GF & GR & _).
    pose proof (OnceFacts.trace_nodup_any orc cfg fuel sched w) as ND.
    destruct (proj1 (HRP f) Hre) as (b & r & Hin).
    pose proof (ok_run_passes_of_processed orc cfg fuel sched w Hv f b r Hin) as Hsh.
    set (tr := trace_of (txtpp_run orc cfg fuel sched w)) in *.
    assert (Hfin : finished g f).
    { destruct Hsh as [H|[ds [_ H]]].
      - apply (GF f true f). apply (proj1 (passes_of_In f tr _)). unfold one_pass in H. rewrite H. left. reflexivity.
      - apply (GF f false f). apply (proj1 (passes_of_In f tr _)). rewrite H. right. left. reflexivity. }
    pose proof (GT f Hfin) as Hlast.
    assert (Hlp : In (TPp f (lastflag w f), RPp f (Some POk)) (passes_of f tr)).
    { apply passes_of_In. split; [exact Hlast|]. exists (lastflag w f). reflexivity. }
    destruct Hsh as [H|[ds [Hds H]]].
    + unfold one_pass in H. rewrite H in Hlp. destruct Hlp as [Hlp|[]].
      assert (Hb : lastflag w f = true) by congruence.
      split; [unfold last_pass; rewrite H, Hb; reflexivity|].
      left. split; [|exact H]. unfold lastflag in Hb. destruct (sdeps w f); [reflexivity|discriminate].
    + rewrite H in Hlp. destruct Hlp as [Hlp|[Hlp|[]]]; [discriminate|].
      assert (Hb : lastflag w f = false) by congruence.
      split; [unfold last_pass; rewrite H, Hb; reflexivity|].
      right. assert (Hne : sdeps w f <> []).
      { unfold lastflag in Hb. destruct (sdeps w f); [discriminate|discriminate]. }
      split; [exact Hne|]. split; [exact Hne|].
      destruct (G2 f Hfin Hne) as [ds' Hrep]. destruct (G1 f ds' Hrep) as [-> _].
      pose proof (GR f _ Hrep) as Hin1.
      assert (Hin2 : In (TPp f true, RPp f (Some (PDeps ds))) tr).
      { apply (proj1 (passes_of_In f tr _)). rewrite H. left. reflexivity. }
      pose proof (nodup_fst_fun _ _ _ _ ND Hin1 Hin2) as E. inversion E; subst ds. exact H.
Qed.

(* F1 as the task words it: every reached file has a pass that answered POk and that pass is its last pass *)
Corollary ok_run_last_pass orc cfg fuel sched w f :
  cfg_mode cfg <> Clean -> raw_ok w -> cycle_static w ->
  let x := txtpp_run orc cfg fuel sched w in
  verdict_of x = VOk -> reached cfg w f ->
  exists b, In (TPp f b, RPp f (Some POk)) (trace_of x) /\
            last_pass f (trace_of x) = Some (TPp f b, RPp f (Some POk)) /\
            forall b' r', In (TPp f b', r') (trace_of x) -> ~ is_err r'.
Proof.
  intros Hmd N HS x Hv Hre. subst x.
  destruct (ok_run_every_pass_ok_static orc cfg fuel sched w Hmd N HS Hv) as (_ & _ & H3).
  destruct (H3 f Hre) as [Hl _]. exists (lastflag w f). split; [|split; [exact Hl|]].
  - unfold last_pass in Hl.
    destruct (rev (passes_of f (trace_of (txtpp_run orc cfg fuel sched w)))) as [|y l] eqn:E; [discriminate|].
    inversion Hl; subst y.
    assert (Hin : In (TPp f (lastflag w f), RPp f (Some POk)) (passes_of f (trace_of (txtpp_run orc cfg fuel sched w)))).
    { apply in_rev. rewrite E. left. reflexivity. }
    apply passes_of_In in Hin. apply Hin.
  - intros b' r' Hin. apply (ok_run_no_task_error orc cfg fuel sched w Hv _ _ Hin).
Qed.

(* ================================================================================================
   PART C' — the contrast: Clean ignores directive errors
   ================================================================================================ *)
Section CleanPass.
Variable orc : oracle.
Variable src base : path.
Variable le : str.

(* the clean sink, still executing *)
Definition KC (s : pst) : Prop := snk s = SClean /\ exec_ok s.
Definition good_res (r : step_res) : Prop :=
  match r with StOk s' => KC s' | StErr _ _ => False | StPanic => True end.

Lemma emit_KC s o ht : KC s -> good_res (emit le s o ht).
Proof.
  intros [Hk Hx]. destruct (CleanVerifyFacts.emit_clean le s o ht Hk) as (s2 & E & _ & K2 & P2 & _).
  rewrite E. split; [exact K2|]. intros deps P. apply (Hx deps). congruence.
Qed.

Lemma step_fresh_KC l s : KC s -> good_res (step_fresh Clean le l s).
Proof.
  intros HK.
  assert (T : forall l0, good_res (if is_execute (pmode s)
                                   then match inject (tg s) l0 le with
                                        | None => StPanic
                                        | Some (l', t') => emit le (set_tg s t') (Some l') false
                                        end
                                   else emit le s (Some l0) false)).
  { intros l0. destruct (is_execute (pmode s)); [|apply emit_KC; exact HK].
    destruct (inject (tg s) l0 le) as [[l' t']|]; [|exact I]. apply emit_KC. exact HK. }
  unfold step_fresh. destruct (detect_from l) as [d|]; [|apply T].
  destruct (multi (d_ty d) && match d_prefix d with [] => true | _ :: _ => false end); [apply T|exact HK].
Qed.

Lemma run_directive_KC d ht s : KC s -> good_res (run_directive orc Clean src base le d ht s).
Proof.
  intros HK. unfold run_directive, exec_directive.
  assert (Hs : forall w', KC (set_wld s w')) by (intros w'; exact HK).
  destruct (d_ty d); try (apply emit_KC; exact HK).
  destruct (exec_temp src le (d_args d) true (wld s)) as [w'|k]; apply emit_KC; [apply Hs|exact HK].
Qed.

Lemma step_line_KC l s : KC s -> good_res (step_line orc Clean src base le l s).
Proof.
  intros HK. unfold step_line. destruct (cur s) as [d|] eqn:Ec; [|apply step_fresh_KC; exact HK].
  destruct (add_line d l) as [d'| |]; [exact HK| |exact I].
  pose proof (run_directive_KC d true (set_cur s None) HK) as H.
  destruct (run_directive orc Clean src base le d true (set_cur s None)) as [s'|k w|]; [|exact H|exact I].
  apply step_fresh_KC. exact H.
Qed.

Lemma run_lines_KC ls : forall s, KC s -> good_res (run_lines orc Clean src base le ls s).
Proof.
  induction ls as [|l r IH]; intros s HK; [exact HK|].
  cbn [run_lines]. pose proof (step_line_KC l s HK) as H.
  destruct (step_line orc Clean src base le l s) as [s'|k w|]; [apply IH; exact H|exact H|exact I].
Qed.

Lemma finish_KC tn s : KC s -> match finish orc Clean src base le tn s with PpOk _ | PpPanic => True | _ => False end.
Proof.
  intros HK. unfold finish.
  assert (H : good_res (match cur s with Some d => run_directive orc Clean src base le d false (set_cur s None) | None => StOk s end)).
  { destruct (cur s) as [d|]; [apply (run_directive_KC d false (set_cur s None) HK)|exact HK]. }
  destruct (match cur s with Some d => run_directive orc Clean src base le d false (set_cur s None) | None => StOk s end)
    as [s1|k w|]; [|destruct H|exact I].
  destruct H as [Hk Hx]. destruct (pmode s1) as [| |deps] eqn:P; [| |exact (Hx deps P)];
    cbn [mode_eqb negb]; rewrite andb_false_r, Hk; cbn [sink_write sink_done]; destruct (flag s1 && tn); exact I.
Qed.
End CleanPass.

(* the rest of a Clean pass (after the old output has been removed) *)
Lemma clean_rest_outcome orc base f b tn raw w0 :
  (snd (take_valid (lines raw)) = false -> exists w', pp_rest orc Clean base f b tn raw SClean w0 = PpOk w') /\
  (snd (take_valid (lines raw)) = true -> exists w1, pp_rest orc Clean base f b tn raw SClean w0 = PpErr KRead w1).
Proof.
  unfold pp_rest.
  pose proof (take_valid_ok (lines raw) (lines_no_lf raw)) as HF.
  destruct (take_valid (lines raw)) as [ls bad]. cbn [fst snd] in *.
  set (s0 := mkP None false (if b then PFirst else PExec) tags_new SClean w0).
  assert (HK : KC s0).
  { split; [reflexivity|]. intros deps P. cbn in P. destruct b; discriminate. }
  pose proof (run_lines_KC orc f base (detect_le raw) ls s0 HK) as H.
  pose proof (run_lines_no_panic orc Clean f base (detect_le raw) ls s0 HF I) as HP.
  destruct (run_lines orc Clean f base (detect_le raw) ls s0) as [s1|k w1|]; [|destruct H|congruence].
  split; intros ->; [|eexists; reflexivity].
  pose proof (finish_KC orc f base (detect_le raw) tn s1 H) as Hf.
  pose proof (finish_no_panic orc Clean f base (detect_le raw) tn s1) as Hfp.
  destruct (finish orc Clean f base (detect_le raw) tn s1) as [w'|ds w'|k w'|]; try destruct Hf; [|congruence].
  exists w'. reflexivity.
Qed.

Lemma sink_new_clean_cases w out :
  ((exists w0, sink_new Clean w out = inl (SClean, w0)) /\ (exists_ (w_fs w) out = true -> w_remove_file w out <> None)) \/
  (sink_new Clean w out = inr KDelete /\ exists_ (w_fs w) out = true /\ w_remove_file w out = None).
Proof.
  unfold sink_new. destruct (exists_ (w_fs w) out).
  - destruct (w_remove_file w out) as [w'|].
    + left. split; [exists w'; reflexivity|discriminate].
    + right. repeat split; reflexivity.
  - left. split; [exists w; reflexivity|discriminate].
Qed.

(* a Clean pass never answers a directive error, a write error or a verify error, and never reports dependencies:
   it succeeds, or it fails because the source cannot be opened (KOpen), is not UTF-8 (KRead), or the old output cannot
   be removed (KDelete) *)
Theorem clean_pass_never_directive_error orc base f b tn w :
  match pp_run orc Clean base f b tn w with
  | PpOk _ => True
  | PpErr k _ => k = KOpen \/ k = KRead \/ k = KDelete
  | PpHasDeps _ _ => False
  | PpPanic => False
  end.
Proof.
  rewrite pp_run_unfold. destruct (read_file (w_fs w) f) as [raw|]; [|left; reflexivity].
  destruct (remove_txtpp f) as [out|]; [|left; reflexivity].
  destruct (is_txtpp_file out); [left; reflexivity|].
  destruct (sink_new_clean_cases w out) as [[[w0 ->] _]|[-> _]]; [|right; right; reflexivity].
  destruct (clean_rest_outcome orc base f b tn raw w0) as [H1 H2].
  destruct (snd (take_valid (lines raw))).
  - destruct (H2 eq_refl) as [w1 ->]. right. left. reflexivity.
  - destruct (H1 eq_refl) as [w' ->]. exact I.
Qed.

(* the same, as an iff on success: a Clean pass succeeds exactly when the source is readable, all its lines are UTF-8,
   its output name is usable, and the old output (if any) can be removed — WHATEVER its directives say: the static
   errors of PART A (and failing commands: Clean runs none) do not matter *)
Theorem clean_ignores_directive_errors orc base f b tn w :
  (exists w', pp_run orc Clean base f b tn w = PpOk w') <->
  exists raw out,
    read_file (w_fs w) f = Some raw /\ snd (take_valid (lines raw)) = false /\
    remove_txtpp f = Some out /\ is_txtpp_file out = false /\
    (exists_ (w_fs w) out = true -> w_remove_file w out <> None).
Proof.
  rewrite pp_run_unfold. split.
  - intros [w' H].
    destruct (read_file (w_fs w) f) as [raw|]; [|discriminate].
    destruct (remove_txtpp f) as [out|]; [|discriminate].
    destruct (is_txtpp_file out) eqn:Eo; [discriminate|].
    destruct (sink_new_clean_cases w out) as [[[w0 E] Hr]|[E _]]; rewrite E in H; [|discriminate].
    exists raw, out. split; [reflexivity|]. split; [|split; [reflexivity|split; [exact Eo|exact Hr]]].
    destruct (snd (take_valid (lines raw))) eqn:Eb; [|reflexivity].
    destruct (proj2 (clean_rest_outcome orc base f b tn raw w0) Eb) as [w1 E1]. rewrite E1 in H. discriminate.
  - intros (raw & out & -> & Hb & -> & -> & Hr).
    destruct (sink_new_clean_cases w out) as [[[w0 ->] _]|[_ [He Hn]]]; [|exfalso; exact (Hr He Hn)].
    apply (proj1 (clean_rest_outcome orc base f b tn raw w0) Hb).
Qed.

(* ================================================================================================
   PART D — F3: no false failure: every VErr verdict has a cause
   ================================================================================================ *)
(* a task that answered an error is a directory scan that failed or a pass that failed *)
Lemma err_task_shape orc cfg fuel sched w t r :
  In (t, r) (trace_of (txtpp_run orc cfg fuel sched w)) -> is_err r ->
  (exists d, t = TScan d /\ r = RScan None) \/ (exists f b, t = TPp f b /\ r = RPp f None).
Proof.
  intros Hin He. destruct (run_trace_facts orc cfg fuel sched w) as (_ & _ & Hans).
  pose proof (Hans t r Hin) as Ha. destruct t as [d|f b]; destruct r as [[y|]|g [res|]]; cbn in Ha, He;
    try contradiction.
  - left. exists d. split; reflexivity.
  - right. destruct Ha as [-> _]. exists f, b. split; reflexivity.
Qed.

(* a pass of the trace that answered an error was executed in a world that holds the sources of the initial tree, and
   the per-file machine returned an error kind there (ExtraFactsB.machine_err_iff then names the prescribed error) *)
Theorem failing_pass_has_error_kind orc cfg fuel sched w f b :
  raw_ok w -> legal_names (w_fs w) ->
  In (TPp f b, RPp f None) (trace_of (txtpp_run orc cfg fuel sched w)) ->
  exists wt k w',
    txtpp_same w wt /\
    pp_run orc (cfg_mode cfg) (run_base cfg w) f b (cfg_trailing cfg) wt = PpErr k w'.
Proof.
  intros N L Hin.
  pose proof (txtpp_run_chain orc cfg fuel sched w) as HC. cbv zeta in HC.
  apply in_split in Hin. destruct Hin as (pre & post & E).
  rewrite E in HC. apply exec_chain_split in HC. destruct HC as (wt & Hpre & HC).
  inversion HC as [|w0 t0 r0 w2 rest w3 Hex _]; subst.
  assert (Hr : ran_in orc cfg (run_base cfg w) w (trace_of (txtpp_run orc cfg fuel sched w)) (TPp f b) (RPp f None) wt).
  { exists pre, post. split; [exact E|exact Hpre]. }
  destruct (ran_in_txtpp_same_legal orc cfg fuel sched w _ _ wt N L Hr) as [HS _].
  exists wt. cbn [exec_task] in Hex.
  destruct (pp_run orc (cfg_mode cfg) (run_base cfg w) f b (cfg_trailing cfg) wt) as [w1|deps w1|k w1|]; try discriminate.
  exists k, w1. split; [exact HS|reflexivity].
Qed.

(* F3.  A run in any mode but Clean, from a duplicate-free tree that satisfies `cycle_static`, ANY schedule, fuel,
   oracle.  A verdict VErr has one of three causes:
     (a) the configuration is unusable (no thread, the base directory or an input does not resolve);
     (b) some task of the trace answered an error: a directory scan, or a pass over a source (first or final);
     (c) some source reached from the inputs reaches a cycle of the static dependency graph. *)
Theorem error_verdict_has_a_cause orc cfg fuel sched w :
  cfg_mode cfg <> Clean -> raw_ok w -> cycle_static w ->
  let x := txtpp_run orc cfg fuel sched w in
  verdict_of x = VErr ->
  ~ started cfg w \/
  ((exists d, In (TScan d, RScan None) (trace_of x)) \/ (exists f b, In (TPp f b, RPp f None) (trace_of x))) \/
  (exists f, reached cfg w f /\ reaches_cycle w f).
Proof.
  intros Hmd N HS x Hv. subst x.
  destruct (verr_classification orc cfg fuel sched w Hv) as [H|[(t & r & Hin & He)|HC]].
  - left. exact H.
  - right. left. destruct (err_task_shape orc cfg fuel sched w t r Hin He) as [(d & -> & ->)|(f & b & -> & ->)].
    + left. exists d. exact Hin.
    + right. exists f, b. exact Hin.
  - right. right. pose proof HC as (_ & Hrem & Hne).
    destruct (CycleFacts.txtpp_run_cases orc cfg fuel sched w) as [[_ E]|(base & files & dirs & Ht & Eb & Ei & _)].
    + rewrite E in Hrem. cbn in Hrem. discriminate.
    + assert (Hst : started cfg w) by (split; [exact Ht|exists base, files, dirs; split; assumption]).
      assert (Hnf : verdict_of (txtpp_run orc cfg fuel sched w) <> VFuel) by congruence.
      destruct (cycle_iff_static orc cfg fuel sched w Hmd N HS Hst Hne Hnf) as (H1 & _).
      apply H1. exact HC.
Qed.

(* no false success and no false failure in one statement, with the static fuel bound: the verdict is VOk EXACTLY when
   the configuration is usable, no task answered an error and no reached source reaches a dependency cycle;
   otherwise it is VErr *)
Theorem verdict_ok_iff orc cfg fuel sched w :
  cfg_mode cfg <> Clean -> raw_ok w -> legal_names (w_fs w) -> cycle_static w ->
  (fuel > 2 * length (src_files (w_fs w)) + length (dir_entries (w_fs w)))%nat ->
  let x := txtpp_run orc cfg fuel sched w in
  (verdict_of x = VOk <->
   started cfg w /\ no_task_error x /\ (forall f, reached cfg w f -> ~ reaches_cycle w f)) /\
  (verdict_of x <> VOk -> verdict_of x = VErr).
Proof.
  intros Hmd N L HS Hfuel x. subst x. split; [split|].
  - intros Hv. split; [apply (ok_run_started orc cfg fuel sched w Hv)|].
    split; [apply (ok_run_no_task_error orc cfg fuel sched w Hv)|].
    apply (ok_run_every_pass_ok_static orc cfg fuel sched w Hmd N HS Hv).
  - intros (Hst & Hne & Hac).
    destruct (cycle_never_hangs orc cfg fuel sched w N L Hfuel) as [H|H]; [exact H|]. exfalso.
    destruct (error_verdict_has_a_cause orc cfg fuel sched w Hmd N HS H) as [Hc|[[(d & Hin)|(f & b & Hin)]|(f & Hf & Hc)]].
    + exact (Hc Hst).
    + apply (Hne _ _ Hin). exact I.
    + apply (Hne _ _ Hin). exact I.
    + exact (Hac f Hf Hc).
  - intros Hn. destruct (cycle_never_hangs orc cfg fuel sched w N L Hfuel) as [H|H]; [contradiction|exact H].
Qed.

(* F3 for Clean: a Clean run never reports a circular dependency (a Clean pass never reports dependencies), so a
   verdict VErr means an unusable configuration or a task that answered an error (KOpen / KRead / KDelete for a
   pass, by `clean_pass_never_directive_error`).  No hypothesis on the tree. *)
Theorem clean_error_verdict_has_a_cause orc cfg fuel sched w :
  cfg_mode cfg = Clean ->
  let x := txtpp_run orc cfg fuel sched w in
  verdict_of x = VErr ->
  ~ started cfg w \/
  (exists d, In (TScan d, RScan None) (trace_of x)) \/ (exists f b, In (TPp f b, RPp f None) (trace_of x)).
Proof.
  intros Hmd x Hv. subst x.
  destruct (CycleFacts.txtpp_run_cases orc cfg fuel sched w) as [[Hns _]|(base & files & dirs & _ & _ & _ & E)];
    [left; exact Hns|]. right.
  assert (Hcause : exists t r, In (t, r) (trace_of (txtpp_run orc cfg fuel sched w)) /\ is_err r).
  { rewrite E in *.
    pose proof (run_loop_exit_inv orc cfg base files dirs (fun g _ _ => inn (dm (gs g)) = [])) as H.
    assert (Hstep : forall g w0 (tr : list (task * result)) t rest r w' s2,
              greach files dirs g -> inn (dm (gs g)) = [] -> Permutation (inflight (gs g)) (t :: rest) ->
              exec_task orc cfg base t w0 = Some (r, w') -> handle (with_inflight (gs g) rest) r = Continue s2 ->
              inn (dm (gs (mkG s2 (report t r (reported g)) (history g ++ [t])))) = []).
    { intros g w0 tr t rest r w' s2 _ HJ _ Hex Hh. cbn [gs].
      assert (Hnd : forall f ds, r <> RPp f (Some (PDeps ds))).
      { intros f ds ->. destruct t as [d|f0 b0]; cbn [exec_task] in Hex; [discriminate|].
        rewrite Hmd in Hex. pose proof (clean_pass_never_directive_error orc base f0 b0 (cfg_trailing cfg) w0) as HC.
        destruct (pp_run orc Clean base f0 b0 (cfg_trailing cfg) w0); try discriminate. destruct HC. }
      destruct (handle_cases _ _ _ Hh) as
        [[fs [ds [-> ->]]]|[[f' [m [rel [-> [Hnf ->]]]]]|[[f' [ds [m [-> _]]]]|[f' [ds [m [-> _]]]]]]].
      - rewrite dm_fold_dir, dm_fold_file. exact HJ.
      - rewrite dm_fold_file. cbn [set_dm dm]. cbn [with_inflight dm] in Hnf.
        unfold notify_finish in Hnf. rewrite HJ in Hnf. cbn [aget] in Hnf. inversion Hnf; subst m. reflexivity.
      - exfalso. apply (Hnd f' ds). reflexivity.
      - exfalso. apply (Hnd f' ds). reflexivity. }
    specialize (H Hstep fuel sched (ginit files dirs) w [] (greach_init files dirs)).
    assert (H0 : inn (dm (gs (ginit files dirs))) = []).
    { unfold ginit. cbn [gs]. rewrite dm_fold_dir, dm_fold_file. reflexivity. }
    specialize (H H0). cbv zeta in H.
    destruct H as [(g & R & Es & HJ & [[Hnil Hv']|[_ Hv']])|(_ & Hc)]; [| congruence | exact Hc].
    exfalso. rewrite Hv' in Hv. unfold has_remaining in Hv. rewrite HJ in Hv. discriminate. }
  destruct Hcause as (t & r & Hin & He).
  destruct (err_task_shape orc cfg fuel sched w t r Hin He) as [(d & -> & ->)|(f & b & -> & ->)].
  - left. exists d. exact Hin.
  - right. exists f, b. exact Hin.
Qed.

(* ================================================================================================
   PART E — non-vacuity.  The tree of ScheduleTempFacts PART 6
       d/ ,
       d/a.txtpp = "// TXTPP#temp t\n// hello\nTXTPP#include t\nx\n"     (writes the temp file d/t, then includes it)
       d/b.txtpp = "TXTPP#include a\nz\n"                                  (includes the output of a.txtpp: two passes)
   and variants `e_w braw` of it in which d/b.txtpp = "TXTPP#include a\n" followed by an erroneous part, so that the
   dependency is real (b gets a first pass that reports a.txtpp) and the error lies AFTER the dependency directive;
   run with `txtpp -r d` (t_cfg: Build), `txtpp verify -r d`, `txtpp --needed -r d`, `txtpp clean -r d`.
   ================================================================================================ *)
Definition e_inc : str := [84; 88; 84; 80; 80; 35; 105; 110; 99; 108; 117; 100; 101; 32; 97; 10].     (* "TXTPP#include a\n" *)
Definition e_tag (c : N) : str := [84; 88; 84; 80; 80; 35; 116; 97; 103; 32; c; 10].                  (* "TXTPP#tag <c>\n" *)
Definition e_w (braw : str) : world := mkW [([[100]], Dir); (t_a, File t_araw); (t_b, File braw)] [].
(* "TXTPP#include a\nTXTPP#tag X\nz\n": the tag X is never used (nothing is stored in it, no line mentions it) *)
Definition e_b1 : str := e_inc ++ e_tag 88 ++ [122; 10].
(* "TXTPP#include a\nTXTPP#run x\n": a multi-line directive without prefix *)
Definition e_b2 : str := e_inc ++ [84; 88; 84; 80; 80; 35; 114; 117; 110; 32; 120; 10].
(* "TXTPP#include a\n-TXTPP#temp c.txtpp\nz\n": the temp target is a txtpp file *)
Definition e_b3 : str :=
  e_inc ++ [45; 84; 88; 84; 80; 80; 35; 116; 101; 109; 112; 32; 99; 46; 116; 120; 116; 112; 112; 10; 122; 10].
(* "TXTPP#include a\nTXTPP#tag X\nTXTPP#tag Y\nz\n": tag Y while tag X is listening *)
Definition e_b4 : str := e_inc ++ e_tag 88 ++ e_tag 89 ++ [122; 10].
(* "TXTPP#include a\n-TXTPP#run x\nz\n": a command (which the oracle cx_orc fails) *)
Definition e_b5 : str := e_inc ++ [45; 84; 88; 84; 80; 80; 35; 114; 117; 110; 32; 120; 10; 122; 10].
(* "TXTPP#include a\n\xff\n": a line that is not UTF-8 *)
Definition e_b6 : str := e_inc ++ [255; 10].

Definition e_vcfg : config := mkCfg [] [[100]] true 1 Verify false.
Definition e_ncfg : config := mkCfg [] [[100]] true 1 InMemoryBuild false.
Definition e_ccfg : config := mkCfg [] [[100]] true 1 Clean false.
Definition e_s2 : list nat := [0; 1; 0; 0]%nat.          (* b.txtpp is looked at before a.txtpp *)

Lemma e_raw_ok braw : raw_ok (e_w braw).
Proof. unfold raw_ok. cbn. repeat constructor; cbn; intuition discriminate. Qed.

Lemma e_legal braw : legal_names (w_fs (e_w braw)).
Proof.
  intros p nd H. unfold e_w in H. cbn [w_fs In] in H.
  repeat (destruct H as [H|H]; [inversion H; subst; repeat constructor; discriminate|]). destruct H.
Qed.

Lemma e_sources braw f out : is_source (e_w braw) f out -> (f = t_a /\ out = t_aout) \/ (f = t_b /\ out = t_bout).
Proof.
  intros [Ho [raw Er]]. apply read_file_In in Er. unfold e_w in Er. cbn [w_fs In] in Er.
  destruct Er as [Er|[Er|[Er|[]]]]; inversion Er; subst f; vm_compute in Ho; inversion Ho; auto.
Qed.

Lemma e_started braw cfg :
  cfg_threads cfg = 1 -> cfg_base cfg = [] -> cfg_inputs cfg = [[100]] -> started cfg (e_w braw).
Proof.
  intros H1 H2 H3. split; [rewrite H1; discriminate|]. exists [], [], [[[100]]]. rewrite H2, H3.
  split; vm_compute; reflexivity.
Qed.

Lemma e_run_base braw cfg : cfg_base cfg = [] -> run_base cfg (e_w braw) = [].
Proof. intros H. unfold run_base. rewrite H. reflexivity. Qed.

(* a.txtpp and b.txtpp are reached (both are found by the scan of d/) *)
Lemma e_reached braw cfg f : cfg_base cfg = [] -> cfg_inputs cfg = [[100]] ->
  In f [t_a; t_b] -> reached cfg (e_w braw) f.
Proof.
  intros H2 H3 Hf base files dirs Eb Ei S Dd Hcl. rewrite H2 in Eb. rewrite H3 in Ei.
  vm_compute in Eb. inversion Eb; subst base.
  vm_compute in Ei. inversion Ei; subst files dirs. destruct Hcl as (_ & Hd & Hscan & _).
  destruct (Hscan [[100]] [t_a; t_b] [] (Hd _ (or_introl eq_refl))) as [Hs _].
  - unfold scan_dir. vm_compute. reflexivity.
  - apply Hs. exact Hf.
Qed.

Ltac e_static :=
  let f := fresh "f" in let out := fresh "out" in let Hs := fresh "Hs" in let x := fresh "x" in let Hx := fresh "Hx" in
  intros f out Hs;
  destruct (e_sources _ f out Hs) as [[-> ->]|[-> ->]]; split;
    intros x Hx; vm_compute in Hx;
    repeat (destruct Hx as [<-|Hx]; [vm_compute; reflexivity|]); destruct Hx.

Lemma e_static1 : cycle_static (e_w e_b1). Proof. e_static. Qed.
Lemma e_static2 : cycle_static (e_w e_b2). Proof. e_static. Qed.
(* NOTE: `cycle_static (e_w e_b3)` is FALSE: `cycle_static` forbids temp targets with a `.txtpp` name (it asks that no
   source writes a `.txtpp` name, and the temp targets count as written whether or not the directive would be refused).
   For that error use `static_error_fails_run_input` / `static_error_fails_run_processed`, which do not need it. *)
Example e_not_static3 : ~ cycle_static (e_w e_b3).
Proof.
  intros H. destruct (H t_b t_bout) as [H1 _].
  - split; [vm_compute; reflexivity|exists e_b3; vm_compute; reflexivity].
  - specialize (H1 [[100]; [99; 46; 116; 120; 116; 112; 112]]). vm_compute in H1.
    assert (E : true = false) by (apply H1; right; right; left; reflexivity). discriminate.
Qed.
Lemma e_static4 : cycle_static (e_w e_b4). Proof. e_static. Qed.
Lemma e_static5 : cycle_static (e_w e_b5). Proof. e_static. Qed.
Lemma e_static6 : cycle_static (e_w e_b6). Proof. e_static. Qed.

(* the static errors of the six variants *)
Example e_static_errors :
  static_error (e_w e_b1) t_b /\ static_error (e_w e_b2) t_b /\ static_error (e_w e_b3) t_b /\
  static_error (e_w e_b4) t_b /\ command_error cx_orc [] (e_w e_b5) t_b /\ static_error (e_w e_b6) t_b /\
  ~ static_error t_w t_a /\ ~ static_error t_w t_b.
Proof.
  split; [|split; [|split; [|split; [|split; [|split; [|split]]]]]].
  - apply SErr_items.
    apply (SE_unused_tag _ [IDir (mkD [] [] DInclude [[97]]) true] (mkD [] [] DTag [[88]]) true [IText [122]]);
      [vm_compute; reflexivity|reflexivity|].
    intros l [H|[]]. inversion H; subst l. vm_compute. reflexivity.
  - apply SErr_items. apply SE_no_prefix. vm_compute. right. left. reflexivity.
  - apply SErr_items.
    apply (SE_temp_txtpp _ (mkD [] [45] DTemp [[99; 46; 116; 120; 116; 112; 112]]) true [99; 46; 116; 120; 116; 112; 112] []);
      [vm_compute; right; left; reflexivity|reflexivity|reflexivity|vm_compute; reflexivity].
  - apply SErr_items.
    apply (SE_tag_while_listening _ [IDir (mkD [] [] DInclude [[97]]) true; IDir (mkD [] [] DTag [[88]]) true]
             (mkD [] [] DTag [[89]]) true [IText [122]]); [vm_compute; reflexivity|reflexivity|vm_compute; reflexivity].
  - exists (mkD [] [45] DRun [[120]]), true. split; [vm_compute; right; left; reflexivity|]. split; reflexivity.
  - apply (SErr_not_utf8 _ _ e_b6); vm_compute; reflexivity.
  - (* the good tree: by the theorem, from a run that succeeds *)
    apply (ok_pass_in_run_no_static_error cx_orc t_cfg 9 [] t_w t_a true ltac:(discriminate) t_raw_ok
             VerifyRunFacts2.t_legal).
    vm_compute. right. left. reflexivity.
  - apply (ok_pass_in_run_no_static_error cx_orc t_cfg 9 [] t_w t_b false ltac:(discriminate) t_raw_ok
             VerifyRunFacts2.t_legal).
    vm_compute. right. right. right. left. reflexivity.
Qed.

(* ---- F1, non-vacuity: the good tree, two schedules (a.txtpp first / b.txtpp looked at first), Build ---- *)
Example ok_run_every_pass_ok_nonvacuous :
  forall sched, sched = [] \/ sched = e_s2 ->
  let x := txtpp_run cx_orc t_cfg 9 sched t_w in
  verdict_of x = VOk /\ no_task_error x /\
  (forall f, reached t_cfg t_w f <-> processed x f) /\
  one_pass t_a (trace_of x) /\ two_passes t_b [t_a] (trace_of x) /\
  last_pass t_a (trace_of x) = Some (TPp t_a true, RPp t_a (Some POk)) /\
  last_pass t_b (trace_of x) = Some (TPp t_b false, RPp t_b (Some POk)).
Proof.
  intros sched Hs x.
  assert (Hv : verdict_of x = VOk) by (subst x; destruct Hs as [-> | ->]; vm_compute; reflexivity).
  assert (HS : cycle_static t_w) by (apply sched_ok_temps_cycle_static; exact t_sched_ok).
  destruct (ok_run_every_pass_ok cx_orc t_cfg 9 sched t_w Hv) as (Hne & _).
  destruct (ok_run_every_pass_ok_static cx_orc t_cfg 9 sched t_w ltac:(discriminate) t_raw_ok HS Hv) as (H1 & _ & H3).
  fold x in Hne, H1, H3.
  destruct (H3 t_a (proj1 t_reached)) as [La [[_ Sa]|[Sa _]]]; [|exfalso; apply Sa; vm_compute; reflexivity].
  destruct (H3 t_b (proj2 t_reached)) as [Lb [[Sb _]|[_ Sb]]]; [vm_compute in Sb; discriminate|].
  split; [exact Hv|]. split; [exact Hne|]. split; [exact H1|]. split; [exact Sa|]. split; [exact Sb|].
  split; [exact La|exact Lb].
Qed.

(* the two schedules complete the tasks in different orders *)
Example ok_run_schedules_differ :
  map fst (trace_of (txtpp_run cx_orc t_cfg 9 [] t_w)) <> map fst (trace_of (txtpp_run cx_orc t_cfg 9 e_s2 t_w)).
Proof. vm_compute. discriminate. Qed.

(* ---- F2, non-vacuity ---- *)
(* (1) by the THEOREM: whatever the oracle, the configuration (mode Build / --needed / Verify, threads, trailing
   option), the fuel and the schedule, `txtpp [verify|--needed] -r d` does not succeed on the trees with an unused tag,
   a prefix-less multi-line directive, a tag while another is listening, a non-UTF-8 line — all AFTER the dependency
   directive of b.txtpp; and on the tree with a run directive, for every oracle that fails the command "x" *)
Example static_error_fails_run_nonvacuous :
  forall orc cfg fuel sched, cfg_mode cfg <> Clean -> cfg_base cfg = [] -> cfg_inputs cfg = [[100]] ->
  verdict_of (txtpp_run orc cfg fuel sched (e_w e_b1)) <> VOk /\
  verdict_of (txtpp_run orc cfg fuel sched (e_w e_b2)) <> VOk /\
  verdict_of (txtpp_run orc cfg fuel sched (e_w e_b4)) <> VOk /\
  verdict_of (txtpp_run orc cfg fuel sched (e_w e_b6)) <> VOk /\
  (orc [120] [[100]] (display_from_base [] t_b) = None ->
   verdict_of (txtpp_run orc cfg fuel sched (e_w e_b5)) <> VOk).
Proof.
  intros orc cfg fuel sched Hmd Hb Hi.
  destruct e_static_errors as (E1 & E2 & _ & E4 & _ & E6 & _).
  assert (Hre : forall braw, reached cfg (e_w braw) t_b).
  { intros braw. apply e_reached; [exact Hb|exact Hi|right; left; reflexivity]. }
  split; [|split; [|split; [|split]]].
  - apply (static_error_fails_run orc cfg fuel sched _ t_b Hmd (e_raw_ok _) (e_legal _) e_static1 (Hre _)). left. exact E1.
  - apply (static_error_fails_run orc cfg fuel sched _ t_b Hmd (e_raw_ok _) (e_legal _) e_static2 (Hre _)). left. exact E2.
  - apply (static_error_fails_run orc cfg fuel sched _ t_b Hmd (e_raw_ok _) (e_legal _) e_static4 (Hre _)). left. exact E4.
  - apply (static_error_fails_run orc cfg fuel sched _ t_b Hmd (e_raw_ok _) (e_legal _) e_static6 (Hre _)). left. exact E6.
  - intros Ho.
    apply (failing_command_fails_run orc cfg fuel sched _ t_b (mkD [] [45] DRun [[120]]) true Hmd (e_raw_ok _) (e_legal _)
             e_static5 (Hre _)); [vm_compute; right; left; reflexivity|reflexivity|].
    rewrite (e_run_base _ cfg Hb). exact Ho.
Qed.

(* (2) by COMPUTATION, the unused tag: under both schedules the first pass of b.txtpp reports its dependency, a.txtpp
   is built, and the FINAL pass of b.txtpp hits the error; the verdict is VErr (also given by the corollary with the
   static fuel bound) in the three modes *)
Example static_error_hit_by_final_pass :
  forall sched, sched = [] \/ sched = e_s2 ->
  let x := txtpp_run cx_orc t_cfg 9 sched (e_w e_b1) in
  verdict_of x = VErr /\
  In (TPp t_a true, RPp t_a (Some POk)) (trace_of x) /\
  In (TPp t_b true, RPp t_b (Some (PDeps [t_a]))) (trace_of x) /\
  In (TPp t_b false, RPp t_b None) (trace_of x) /\
  verdict_of (txtpp_run cx_orc e_ncfg 9 sched (e_w e_b1)) = VErr /\
  verdict_of (txtpp_run cx_orc e_vcfg 9 sched (e_w e_b1)) = VErr.
Proof.
  intros sched Hs x. subst x.
  assert (Hfuel : (9 > 2 * length (src_files (w_fs (e_w e_b1))) + length (dir_entries (w_fs (e_w e_b1))))%nat)
    by (vm_compute; lia).
  assert (HV : forall cfg, cfg_mode cfg <> Clean -> cfg_base cfg = [] -> cfg_inputs cfg = [[100]] ->
                           verdict_of (txtpp_run cx_orc cfg 9 sched (e_w e_b1)) = VErr).
  { intros cfg Hmd Hb Hi.
    apply (static_error_run_verdict_err cx_orc cfg 9 sched _ t_b Hmd (e_raw_ok _) (e_legal _) e_static1 Hfuel).
    - apply e_reached; [exact Hb|exact Hi|right; left; reflexivity].
    - left. apply e_static_errors. }
  split; [apply HV; [discriminate|reflexivity|reflexivity]|].
  split; [destruct Hs as [-> | ->]; vm_compute; tauto|].
  split; [destruct Hs as [-> | ->]; vm_compute; tauto|].
  split; [destruct Hs as [-> | ->]; vm_compute; tauto|].
  split; apply HV; try discriminate; reflexivity.
Qed.

(* (3) the prefix-less directive is hit by the FIRST pass already, although it lies after the dependency directive *)
Example no_prefix_hit_by_first_pass :
  forall sched, sched = [] \/ sched = e_s2 ->
  let x := txtpp_run cx_orc t_cfg 9 sched (e_w e_b2) in
  verdict_of x = VErr /\ In (TPp t_b true, RPp t_b None) (trace_of x) /\ forall r, ~ In (TPp t_b false, r) (trace_of x).
Proof.
  intros sched Hs x. subst x. destruct Hs as [-> | ->]; (split; [vm_compute; reflexivity|]);
    (split; [vm_compute; tauto|]); intros r Hin; vm_compute in Hin;
    repeat (destruct Hin as [Hin|Hin]; [discriminate Hin|]); destruct Hin.
Qed.

(* (4) a temp target that is a txtpp file: `txtpp d/b.txtpp` (the source is an input; `cycle_static` does not hold) *)
Definition e_icfg : config := mkCfg [] [[100; 47; 98; 46; 116; 120; 116; 112; 112]] false 1 Build false.
Example static_error_fails_run_input_nonvacuous :
  (forall orc fuel sched, verdict_of (txtpp_run orc e_icfg fuel sched (e_w e_b3)) <> VOk) /\
  verdict_of (txtpp_run cx_orc e_icfg 9 [] (e_w e_b3)) = VErr /\
  In (TPp t_b false, RPp t_b None) (trace_of (txtpp_run cx_orc e_icfg 9 [] (e_w e_b3))).
Proof.
  split; [|split; [vm_compute; reflexivity|vm_compute; tauto]].
  intros orc fuel sched.
  apply (static_error_fails_run_input orc e_icfg fuel sched (e_w e_b3) [] [t_b] [] t_b ltac:(discriminate)
           (e_raw_ok _) (e_legal _)); [vm_compute; reflexivity|vm_compute; reflexivity|left; reflexivity|].
  left. apply e_static_errors.
Qed.

(* (5) the contrast: `txtpp clean -r d` succeeds on the trees on which build / verify fail — by computation for the
   whole run, by the theorem for a single pass *)
Example clean_ignores_directive_errors_nonvacuous :
  verdict_of (txtpp_run cx_orc e_ccfg 9 [] (e_w e_b1)) = VOk /\
  verdict_of (txtpp_run cx_orc e_ccfg 9 [] (e_w e_b2)) = VOk /\
  verdict_of (txtpp_run cx_orc e_ccfg 9 [] (e_w e_b3)) = VOk /\
  verdict_of (txtpp_run cx_orc e_ccfg 9 [] (e_w e_b4)) = VOk /\
  verdict_of (txtpp_run cx_orc e_ccfg 9 [] (e_w e_b5)) = VOk /\
  verdict_of (txtpp_run cx_orc e_ccfg 9 [] (e_w e_b6)) = VErr /\          (* not UTF-8: clean fails too (KRead) *)
  (forall orc b tn, exists w', pp_run orc Clean [] t_b b tn (e_w e_b2) = PpOk w').
Proof.
  repeat (split; [vm_compute; reflexivity|]).
  intros orc b tn. apply clean_ignores_directive_errors. exists e_b2, t_bout.
  split; [vm_compute; reflexivity|]. split; [vm_compute; reflexivity|]. split; [vm_compute; reflexivity|].
  split; [vm_compute; reflexivity|]. intros H. vm_compute in H. discriminate.
Qed.

(* (6) a tag whose name extends the name of a tag that is still stored:
   "TXTPP#include a\nTXTPP#tag X\n-TXTPP#write v\nTXTPP#tag XY\nz\n" *)
Definition e_b7 : str :=
  e_inc ++ e_tag 88 ++ [45; 84; 88; 84; 80; 80; 35; 119; 114; 105; 116; 101; 32; 118; 10] ++
  [84; 88; 84; 80; 80; 35; 116; 97; 103; 32; 88; 89; 10; 122; 10].
Lemma e_static7 : cycle_static (e_w e_b7). Proof. e_static. Qed.
Example tag_clash_nonvacuous :
  static_item_error (items_of Build (e_w e_b7) t_b) /\
  (forall orc cfg fuel sched, cfg_mode cfg <> Clean -> cfg_base cfg = [] -> cfg_inputs cfg = [[100]] ->
     verdict_of (txtpp_run orc cfg fuel sched (e_w e_b7)) <> VOk) /\
  verdict_of (txtpp_run cx_orc t_cfg 9 e_s2 (e_w e_b7)) = VErr /\
  In (TPp t_b false, RPp t_b None) (trace_of (txtpp_run cx_orc t_cfg 9 e_s2 (e_w e_b7))).
Proof.
  assert (E : static_item_error (items_of Build (e_w e_b7) t_b)).
  { apply (SE_tag_clash _ [IDir (mkD [] [] DInclude [[97]]) true] (mkD [] [] DTag [[88]]) true
             [IDir (mkD [] [45] DWrite [[118]]) true] (mkD [] [] DTag [[88; 89]]) true [IText [122]]);
      [vm_compute; reflexivity|reflexivity|reflexivity|vm_compute; reflexivity|].
    intros l [H|[]]. discriminate H. }
  split; [exact E|]. split; [|split; [vm_compute; reflexivity|vm_compute; tauto]].
  intros orc cfg fuel sched Hmd Hb Hi.
  apply (static_error_fails_run orc cfg fuel sched _ t_b Hmd (e_raw_ok _) (e_legal _) e_static7).
  - apply e_reached; [exact Hb|exact Hi|right; left; reflexivity].
  - left. apply SErr_items. exact E.
Qed.

(* ---- F3, non-vacuity: one run for each cause ---- *)
Lemma e_reached_only1 cfg f : cfg_base cfg = [] -> cfg_inputs cfg = [[100]] -> cfg_recursive cfg = true ->
  reached cfg (e_w e_b1) f -> f = t_a \/ f = t_b.
Proof.
  intros Hb Hi Hr H.
  assert (Hcl : closed cfg (e_w e_b1) [] [[[100]]] [t_a; t_b] [[[100]]]).
  { split; [intros x []|]. split; [intros x Hx; exact Hx|]. split.
    - intros d fs ds [<-|[]] Hscan. rewrite Hr in Hscan. vm_compute in Hscan. inversion Hscan; subst fs ds.
      split; [intros x Hx; exact Hx|intros x []].
    - intros f0 [<-|[<-|[]]] q Hq; vm_compute in Hq.
      + destruct Hq.
      + destruct Hq as [<-|[]]. left. reflexivity. }
  specialize (H [] [] [[[100]]]). rewrite Hb, Hi in H.
  specialize (H ltac:(vm_compute; reflexivity) ltac:(vm_compute; reflexivity) _ _ Hcl).
  destruct H as [<-|[<-|[]]]; auto.
Qed.

Example error_verdict_has_a_cause_nonvacuous :
  (* (b) a task answered an error: the unused tag; not (a), not (c) *)
  (let x := txtpp_run cx_orc t_cfg 9 e_s2 (e_w e_b1) in
   verdict_of x = VErr /\ started t_cfg (e_w e_b1) /\
   (forall f, reached t_cfg (e_w e_b1) f -> ~ reaches_cycle (e_w e_b1) f) /\
   exists f b, In (TPp f b, RPp f None) (trace_of x)) /\
  (* (c) a dependency cycle (CycleFacts PART F): not (a), not (b) *)
  (let x := txtpp_run cx_orc t_cfg 13 cy_s2 cy_w in
   verdict_of x = VErr /\ started t_cfg cy_w /\ no_task_error x /\
   exists f, reached t_cfg cy_w f /\ reaches_cycle cy_w f) /\
  (* (a) an unusable configuration: `txtpp nosuchfile` *)
  (let cfg := mkCfg [] [[110]] false 1 Build false in
   let x := txtpp_run cx_orc cfg 9 [] t_w in
   verdict_of x = VErr /\ ~ started cfg t_w /\ trace_of x = []).
Proof.
  split; [|split].
  - intros x.
    assert (Hv : verdict_of x = VErr) by (subst x; vm_compute; reflexivity).
    assert (Hst : started t_cfg (e_w e_b1)) by (apply e_started; reflexivity).
    assert (Hac : forall f, reached t_cfg (e_w e_b1) f -> ~ reaches_cycle (e_w e_b1) f).
    { assert (Ha : Acc (fun d a => dep_edge (e_w e_b1) a d) t_a).
      { constructor. intros y Hy. vm_compute in Hy. destruct Hy. }
      assert (Hb : Acc (fun d a => dep_edge (e_w e_b1) a d) t_b).
      { constructor. intros y Hy. vm_compute in Hy. destruct Hy as [<-|[]]. exact Ha. }
      intros f Hf. apply (acc_not_reaches_cycle path (dep_edge (e_w e_b1))).
      destruct (e_reached_only1 t_cfg f eq_refl eq_refl eq_refl Hf) as [-> | ->]; assumption. }
    split; [exact Hv|]. split; [exact Hst|]. split; [exact Hac|].
    destruct (error_verdict_has_a_cause cx_orc t_cfg 9 e_s2 (e_w e_b1) ltac:(discriminate) (e_raw_ok _) e_static1 Hv)
      as [Hc|[[(d & Hin)|H]|(f & Hf & Hc)]].
    + contradiction.
    + exfalso. vm_compute in Hin. repeat (destruct Hin as [Hin|Hin]; [discriminate Hin|]). destruct Hin.
    + exact H.
    + exfalso. exact (Hac f Hf Hc).
  - intros x.
    assert (Hv : verdict_of x = VErr) by (subst x; vm_compute; reflexivity).
    assert (Hne : no_task_error x) by (subst x; solve_no_error).
    split; [exact Hv|]. split; [apply cy_started; reflexivity|]. split; [exact Hne|].
    destruct (error_verdict_has_a_cause cx_orc t_cfg 13 cy_s2 cy_w ltac:(discriminate) cy_raw_ok cy_static Hv)
      as [Hc|[[(d & Hin)|(f & b & Hin)]|H]].
    + exfalso. apply Hc. apply cy_started; reflexivity.
    + exfalso. apply (Hne _ _ Hin). exact I.
    + exfalso. apply (Hne _ _ Hin). exact I.
    + exact H.
  - intros cfg x. split; [vm_compute; reflexivity|]. split; [|vm_compute; reflexivity].
    intros [_ (base & files & dirs & Eb & Ei)]. vm_compute in Eb. inversion Eb; subst base. vm_compute in Ei. discriminate.
Qed.

(* the iff: on the good tree the run succeeds BECAUSE the configuration is usable, no task fails and there is no
   cycle; on the tree with the unused tag it fails because a task fails *)
Example verdict_ok_iff_nonvacuous :
  forall sched,
  (verdict_of (txtpp_run cx_orc t_cfg 9 sched t_w) = VOk <->
   started t_cfg t_w /\ no_task_error (txtpp_run cx_orc t_cfg 9 sched t_w) /\
   (forall f, reached t_cfg t_w f -> ~ reaches_cycle t_w f)) /\
  verdict_of (txtpp_run cx_orc t_cfg 9 sched (e_w e_b1)) = VErr.
Proof.
  intros sched. split.
  - apply (verdict_ok_iff cx_orc t_cfg 9 sched t_w ltac:(discriminate) t_raw_ok VerifyRunFacts2.t_legal
             (sched_ok_temps_cycle_static t_w t_sched_ok)). vm_compute. lia.
  - apply (verdict_ok_iff cx_orc t_cfg 9 sched (e_w e_b1) ltac:(discriminate) (e_raw_ok _) (e_legal _) e_static1);
      [vm_compute; lia|].
    apply (static_error_fails_run_nonvacuous cx_orc t_cfg 9 sched ltac:(discriminate) eq_refl eq_refl).
Qed.

(* ================================================================================================
   Assumptions
   ================================================================================================ *)
Print Assumptions ritems_ok_no_static_error.
Print Assumptions ok_pass_no_static_error.
Print Assumptions ok_pass_in_run_no_static_error.
Print Assumptions static_error_fails_run_processed.
Print Assumptions static_error_fails_run.
Print Assumptions static_error_run_verdict_err.
Print Assumptions static_error_fails_run_input.
Print Assumptions failing_command_fails_run.
Print Assumptions ok_run_every_pass_ok.
Print Assumptions ok_run_every_pass_ok_static.
Print Assumptions ok_run_last_pass.
Print Assumptions clean_pass_never_directive_error.
Print Assumptions clean_ignores_directive_errors.
Print Assumptions failing_pass_has_error_kind.
Print Assumptions error_verdict_has_a_cause.
Print Assumptions verdict_ok_iff.
Print Assumptions clean_error_verdict_has_a_cause.
Print Assumptions ok_run_every_pass_ok_nonvacuous.
Print Assumptions static_error_fails_run_nonvacuous.
Print Assumptions static_error_hit_by_final_pass.
Print Assumptions no_prefix_hit_by_first_pass.
Print Assumptions static_error_fails_run_input_nonvacuous.
Print Assumptions clean_ignores_directive_errors_nonvacuous.
Print Assumptions tag_clash_nonvacuous.
Print Assumptions error_verdict_has_a_cause_nonvacuous.
Print Assumptions verdict_ok_iff_nonvacuous.
