(* SinkFacts.v — theorems about the four output sinks and temp files (C06, C09, C08, C10).
   All statements proved, except three that are false as stated: they are kept in `(* FALSE: ... *)` comments
   with their counterexamples, next to the `_weaker` variants proved instead. *)
Require Import Txtpp.Str Txtpp.Path Txtpp.Fs Txtpp.Sink Txtpp.proofs.StrFacts.
From Coq Require Import Lia.

Lemma path_eqb_eq a b : path_eqb a b = true <-> a = b.
Proof.
  revert b; induction a as [|x a IH]; intros [|y b]; simpl; split; try congruence; try discriminate.
  - intros H. apply andb_true_iff in H as [H1 H2]. apply str_eqb_eq in H1. apply IH in H2. congruence.
  - intros H. inversion H; subst. rewrite str_eqb_refl. simpl. apply IH. reflexivity.
Qed.
Lemma path_eqb_refl a : path_eqb a a = true.
Proof. apply path_eqb_eq. reflexivity. Qed.

Lemma path_eqb_neq a b : a <> b -> path_eqb a b = false.
Proof. intros H. destruct (path_eqb a b) eqn:E; [|reflexivity]. apply path_eqb_eq in E. contradiction. Qed.

Lemma fs_get_cons q n r p : p <> [] ->
  fs_get ((q, n) :: r) p = if path_eqb q p then Some n else fs_get r p.
Proof. destruct p; [congruence|reflexivity]. Qed.
Lemma fs_get_nil_root f : fs_get f [] = Some Dir.
Proof. destruct f; reflexivity. Qed.

Lemma fs_get_del_same f p : p <> [] -> fs_get (fs_del f p) p = None.
Proof.
  intros Hp. induction f as [|[q n] r IH]; simpl.
  - destruct p; [congruence|reflexivity].
  - destruct (path_eqb q p) eqn:E; [exact IH|].
    rewrite fs_get_cons by exact Hp. rewrite E. exact IH.
Qed.
Lemma fs_get_del_other f p q : p <> q -> fs_get (fs_del f p) q = fs_get f q.
Proof.
  intros Hpq. destruct q as [|c q]; [rewrite !fs_get_nil_root; reflexivity|].
  induction f as [|[q0 n] r IH]; [reflexivity|].
  cbn [fs_del]. destruct (path_eqb q0 p) eqn:E.
  - apply path_eqb_eq in E. subst q0. rewrite fs_get_cons by discriminate.
    rewrite (path_eqb_neq _ _ Hpq). exact IH.
  - rewrite !fs_get_cons by discriminate. rewrite IH. reflexivity.
Qed.
Lemma fs_get_put_same f p n : p <> [] -> fs_get (fs_put f p n) p = Some n.
Proof. intros Hp. unfold fs_put. rewrite fs_get_cons by exact Hp. rewrite path_eqb_refl. reflexivity. Qed.
Lemma fs_get_put_other f p q n : p <> q -> fs_get (fs_put f p n) q = fs_get f q.
Proof.
  intros Hpq. destruct q as [|c q]; [rewrite !fs_get_nil_root; reflexivity|].
  unfold fs_put. rewrite fs_get_cons by discriminate. rewrite (path_eqb_neq _ _ Hpq).
  apply fs_get_del_other. exact Hpq.
Qed.

Fixpoint verify_chunks (s : sink) (w : world) (chunks : list str) : bool :=
  match chunks with
  | [] => match sink_done s w with inl _ => true | inr _ => false end
  | c :: cs => match sink_write s w c with
               | inl (s', w') => verify_chunks s' w' cs
               | inr _ => false
               end
  end.
Theorem verify_stream_iff p existing w chunks :
  verify_chunks (SVerify p existing) w chunks = true <-> concat chunks = existing.
Proof.
  revert existing; induction chunks as [|c cs IH]; intros ex; simpl.
  - destruct ex; split; congruence.
  - destruct (Nat.ltb_spec (length ex) (length c)) as [Hlt|Hge].
    + split; [discriminate|]. intros <-. rewrite app_length in Hlt. lia.
    + destruct (str_eqb (firstn (length c) ex) c) eqn:E.
      * apply str_eqb_eq in E. rewrite IH. split.
        -- intros ->. rewrite <- E at 1. apply firstn_skipn.
        -- intros <-. rewrite skipn_app, skipn_all, Nat.sub_diag. reflexivity.
      * split; [discriminate|]. intros <-.
        rewrite firstn_app, firstn_all, Nat.sub_diag, firstn_O, app_nil_r in E.
        rewrite str_eqb_refl in E. discriminate.
Qed.
Theorem verify_missing_is_err w out : fs_get (w_fs w) out = None -> sink_new Verify w out = inr KVerify.
Proof. intros H. unfold sink_new. rewrite H. reflexivity. Qed.
Theorem verify_new_ok w out c : fs_get (w_fs w) out = Some (File c) -> sink_new Verify w out = inl (SVerify out c, w).
Proof. intros H. unfold sink_new. rewrite H. reflexivity. Qed.
Theorem verify_sink_readonly :
  (forall w out k w', sink_new Verify w out = inl (k, w') -> w' = w /\ exists c, k = SVerify out c) /\
  (forall p rest w c k w', sink_write (SVerify p rest) w c = inl (k, w') -> w' = w /\ exists rest', k = SVerify p rest') /\
  (forall p rest w w', sink_done (SVerify p rest) w = inl w' -> w' = w).
Proof.
  split; [|split].
  - intros w out k w' H. unfold sink_new in H.
    destruct (fs_get (w_fs w) out) as [[c|]|]; try discriminate.
    inversion H; subst. split; [reflexivity|]. exists c. reflexivity.
  - intros p rest w c k w' H. simpl in H.
    destruct (Nat.ltb (length rest) (length c)); [discriminate|].
    destruct (str_eqb (firstn (length c) rest) c); [|discriminate].
    inversion H; subst. split; [reflexivity|]. eexists. reflexivity.
  - intros p rest w w' H. simpl in H. destruct rest; [|discriminate]. inversion H. reflexivity.
Qed.

Theorem mem_write_buffers p buf w c : sink_write (SMem p buf) w c = inl (SMem p (buf ++ c), w).
Proof. reflexivity. Qed.
Theorem needed_no_event_when_same p buf w :
  fs_get (w_fs w) p = Some (File buf) -> sink_done (SMem p buf) w = inl w.
Proof. intros H. simpl. rewrite H, str_eqb_refl. reflexivity. Qed.

(* ---- path resolution helpers ---- *)
Lemma str_eqb_neq a b : a <> b -> str_eqb a b = false.
Proof. intros H. destruct (str_eqb a b) eqn:E; [|reflexivity]. apply str_eqb_eq in E. contradiction. Qed.

Lemma in_removelast {A} (x : A) l : In x (removelast l) -> In x l.
Proof.
  induction l as [|a l IH]; simpl; [tauto|].
  destruct l as [|b l]; [simpl; tauto|]. intros [H|H]; [left; exact H|right; apply IH; exact H].
Qed.

Lemma os_walk_no_dotdot f comps : forall cur q,
  ~ In dotdot cur -> os_walk f cur comps = Some q -> ~ In dotdot q.
Proof.
  induction comps as [|c r IH]; intros cur q Hc H; simpl in H.
  - destruct (exists_ f cur); [|discriminate]. inversion H; subst. exact Hc.
  - destruct (negb (is_dir f cur)); [discriminate|].
    destruct (str_eqb c dotdot) eqn:E.
    + apply IH in H; [exact H|]. intros Hin. apply Hc. apply in_removelast. exact Hin.
    + apply IH in H; [exact H|]. intros Hin. apply in_app_or in Hin. destruct Hin as [Hin|[Hin|[]]].
      * apply Hc; exact Hin.
      * subst c. rewrite str_eqb_refl in E. discriminate.
Qed.

(* without `..` the walk is the identity *)
Lemma os_walk_canon f comps : forall cur q,
  ~ In dotdot comps -> os_walk f cur comps = Some q -> q = cur ++ comps.
Proof.
  induction comps as [|c r IH]; intros cur q Hc H; simpl in H.
  - destruct (exists_ f cur); [|discriminate]. inversion H. rewrite app_nil_r. reflexivity.
  - destruct (negb (is_dir f cur)); [discriminate|].
    rewrite str_eqb_neq in H by (intros ->; apply Hc; left; reflexivity).
    apply IH in H; [|intros Hin; apply Hc; right; exact Hin].
    rewrite <- app_assoc in H. exact H.
Qed.

Lemma rev_cons_eq {A} (p : list A) n rp : rev p = n :: rp -> p = rev rp ++ [n].
Proof. intros H. rewrite <- (rev_involutive p), H. reflexivity. Qed.

Lemma write_target_canon f p q : ~ In dotdot p -> write_target f p = Some q -> q = p.
Proof.
  intros Hp H. unfold write_target in H.
  destruct (rev p) as [|n rp] eqn:E; [discriminate|]. apply rev_cons_eq in E.
  destruct (is_normal n); [|discriminate].
  destruct (os_resolve f (rev rp)) as [d|] eqn:R; [|discriminate].
  destruct (is_dir f d); [|discriminate].
  destruct (is_dir f (d ++ [n])); [discriminate|]. inversion H; subst q.
  unfold os_resolve in R. apply os_walk_canon in R.
  - simpl in R. subst. reflexivity.
  - intros Hin. apply Hp. rewrite E. apply in_or_app. left. exact Hin.
Qed.
Lemma write_target_nonempty f p q : write_target f p = Some q -> q <> [].
Proof.
  unfold write_target. destruct (rev p) as [|n rp]; [discriminate|].
  destruct (is_normal n); [|discriminate].
  destruct (os_resolve f (rev rp)) as [d|]; [|discriminate].
  destruct (is_dir f d); [|discriminate].
  destruct (is_dir f (d ++ [n])); [discriminate|]. intros H; inversion H. destruct d; discriminate.
Qed.

Lemma w_write_read w p c w' q :
  w_write w p c = Some w' -> write_target (w_fs w) p = Some q -> read_file (w_fs w') q = Some c.
Proof.
  unfold w_write. intros H T. rewrite T in H. inversion H; subst; simpl.
  unfold read_file. rewrite fs_get_put_same by (eapply write_target_nonempty; eauto). reflexivity.
Qed.
Lemma w_write_target w p c w' : w_write w p c = Some w' -> exists q, write_target (w_fs w) p = Some q.
Proof. unfold w_write. destruct (write_target (w_fs w) p) as [q|]; [eauto|discriminate]. Qed.

(* FALSE: Theorem needed_updates_stale p buf w w' :
     sink_done (SMem p buf) w = inl w' -> read_file (w_fs w') p = Some buf.
   `p` ranges over all component lists, `..` included, and the OS resolves `..` when writing:
   with f = [([[97]], Dir)], p = [[97]; dotdot; [98]] ("a/../b"), buf = [1] the write lands at [[98]] and
   read_file (w_fs w') p = None (needed_updates_stale_cex below).  True for canonical paths (no `..` component): *)
Theorem needed_updates_stale_weaker p buf w w' :
  ~ In dotdot p ->
  sink_done (SMem p buf) w = inl w' -> read_file (w_fs w') p = Some buf.
Proof.
  intros Hp H. simpl in H.
  assert (W : forall w', w_write w p buf = Some w' -> read_file (w_fs w') p = Some buf).
  { intros w0 H0. destruct (w_write_target _ _ _ _ H0) as [q T].
    pose proof (write_target_canon _ _ _ Hp T); subst q. eapply w_write_read; eauto. }
  destruct (fs_get (w_fs w) p) as [[c|]|] eqn:G; try discriminate.
  - destruct (str_eqb c buf) eqn:E.
    + apply str_eqb_eq in E. inversion H; subst. unfold read_file. rewrite G. reflexivity.
    + destruct (w_write w p buf) as [w0|] eqn:E0; [|discriminate]. inversion H; subst. apply W. reflexivity.
  - destruct (w_write w p buf) as [w0|] eqn:E0; [|discriminate]. inversion H; subst. apply W. reflexivity.
Qed.

(* the counterexamples to the three FALSE statements *)
Definition cex_fs : fs := [([[97]], Dir)].
Definition cex_p : path := [[97]; dotdot; [98]].
Example needed_updates_stale_cex :
  exists w', sink_done (SMem cex_p [1]) (mkW cex_fs []) = inl w' /\ read_file (w_fs w') cex_p = None.
Proof. eexists. split; vm_compute; reflexivity. Qed.
Example build_new_truncates_cex :
  exists w', sink_new Build (mkW cex_fs []) cex_p = inl (SBuild cex_p, w') /\ read_file (w_fs w') cex_p = None.
Proof. eexists. split; vm_compute; reflexivity. Qed.
Example needed_stale_content_irrelevant_cex :
  (exists w1, sink_done (SMem [[97];[98]] []) (mkW (fs_put [] [[97];[98]] (File [])) []) = inl w1) /\
  sink_done (SMem [[97];[98]] []) (mkW (fs_put [] [[97];[98]] (File [1])) []) = inr KWrite.
Proof. split; [eexists|]; vm_compute; reflexivity. Qed.

(* two file systems with the same directories and the same existing paths resolve alike *)
Definition same_shape (f g : fs) : Prop :=
  forall q, is_dir f q = is_dir g q /\ exists_ f q = exists_ g q.
Lemma os_walk_shape f g comps : same_shape f g -> forall cur, os_walk f cur comps = os_walk g cur comps.
Proof.
  intros S. induction comps as [|c r IH]; intros cur; simpl.
  - rewrite (proj2 (S cur)). reflexivity.
  - rewrite (proj1 (S cur)). rewrite !IH. reflexivity.
Qed.
Lemma write_target_shape f g p : same_shape f g -> write_target f p = write_target g p.
Proof.
  intros S. unfold write_target, os_resolve. destruct (rev p) as [|n rp]; [reflexivity|].
  rewrite (os_walk_shape f g _ S). destruct (os_walk g [] (rev rp)) as [d|]; [|reflexivity].
  rewrite (proj1 (S d)), (proj1 (S (d ++ [n]))). reflexivity.
Qed.
Lemma same_shape_put_file f p c1 c2 : p <> [] -> same_shape (fs_put f p (File c1)) (fs_put f p (File c2)).
Proof.
  intros Hp q. unfold is_dir, exists_.
  destruct (list_eq_dec (list_eq_dec N.eq_dec) p q) as [->|Hne].
  - rewrite !fs_get_put_same by exact Hp. split; reflexivity.
  - rewrite !fs_get_put_other by exact Hne. split; reflexivity.
Qed.

(* FALSE: Theorem needed_stale_content_irrelevant p buf w c1 c2 :
     p <> [] ->
     (exists w1, sink_done (SMem p buf) (mkW (fs_put (w_fs w) p (File c1)) (w_log w)) = inl w1) <->
     (exists w2, sink_done (SMem p buf) (mkW (fs_put (w_fs w) p (File c2)) (w_log w)) = inl w2).
   The hypothesis "the parent directory exists" of the comment is missing from the statement: with
   w = mkW [] [], p = [[97];[98]], buf = [], c1 = [] (up to date: nothing to write, succeeds) and c2 = [1]
   (stale: the write fails with KWrite because [[97]] does not exist) the two sides differ (needed_stale_content_irrelevant_cex).
   True when both contents are stale (or both fresh), and when the output is writable: *)
Theorem needed_stale_content_irrelevant_weaker p buf w c1 c2 :
  p <> [] -> (c1 = buf <-> c2 = buf) ->
  (exists w1, sink_done (SMem p buf) (mkW (fs_put (w_fs w) p (File c1)) (w_log w)) = inl w1) <->
  (exists w2, sink_done (SMem p buf) (mkW (fs_put (w_fs w) p (File c2)) (w_log w)) = inl w2).
Proof.
  intros Hp Hc. cbn [sink_done w_fs]. rewrite !fs_get_put_same by exact Hp.
  unfold w_write; cbn [w_fs w_log].
  rewrite (write_target_shape _ _ p (same_shape_put_file (w_fs w) p c1 c2 Hp)).
  destruct (str_eqb c1 buf) eqn:E1; destruct (str_eqb c2 buf) eqn:E2.
  - split; intros _; eexists; reflexivity.
  - apply str_eqb_eq in E1. apply Hc in E1. apply str_eqb_eq in E1. congruence.
  - apply str_eqb_eq in E2. apply Hc in E2. apply str_eqb_eq in E2. congruence.
  - destruct (write_target (fs_put (w_fs w) p (File c2)) p) as [q|].
    + split; intros _; eexists; reflexivity.
    + split; intros [x Hx]; discriminate.
Qed.
(* ... and with any contents at all when the output can be opened for writing (its parent directory exists) *)
Theorem needed_stale_content_irrelevant_writable p buf w c1 c2 :
  p <> [] -> write_target (fs_put (w_fs w) p (File c1)) p <> None ->
  (exists w1, sink_done (SMem p buf) (mkW (fs_put (w_fs w) p (File c1)) (w_log w)) = inl w1) /\
  (exists w2, sink_done (SMem p buf) (mkW (fs_put (w_fs w) p (File c2)) (w_log w)) = inl w2).
Proof.
  intros Hp Hw. cbn [sink_done w_fs]. rewrite !fs_get_put_same by exact Hp.
  unfold w_write; cbn [w_fs w_log].
  rewrite <- (write_target_shape _ _ p (same_shape_put_file (w_fs w) p c1 c2 Hp)).
  destruct (write_target (fs_put (w_fs w) p (File c1)) p) as [q|]; [|congruence].
  split.
  - destruct (str_eqb c1 buf); eexists; reflexivity.
  - destruct (str_eqb c2 buf); eexists; reflexivity.
Qed.

(* FALSE: Theorem build_new_truncates w out k w' :
     sink_new Build w out = inl (k, w') -> exists q, k = SBuild q /\ read_file (w_fs w') q = Some [].
   Same `..` problem as needed_updates_stale: f = [([[97]], Dir)], out = [[97]; dotdot; [98]] creates [[98]]
   while k = SBuild out and read_file (w_fs w') out = None (build_new_truncates_cex). True for canonical paths: *)
Theorem build_new_truncates_weaker w out k w' :
  ~ In dotdot out ->
  sink_new Build w out = inl (k, w') -> exists q, k = SBuild q /\ read_file (w_fs w') q = Some [].
Proof.
  intros Hp H. unfold sink_new in H. destruct (w_write w out []) as [w0|] eqn:E; [|discriminate].
  inversion H; subst. exists out. split; [reflexivity|].
  destruct (w_write_target _ _ _ _ E) as [q T].
  pose proof (write_target_canon _ _ _ Hp T); subst q. eapply w_write_read; eauto.
Qed.
(* what does hold without the hypothesis: the file actually created (where the OS resolves `out`) is empty *)
Theorem build_new_truncates_target w out k w' :
  sink_new Build w out = inl (k, w') ->
  k = SBuild out /\ exists q, write_target (w_fs w) out = Some q /\ read_file (w_fs w') q = Some [].
Proof.
  intros H. unfold sink_new in H. destruct (w_write w out []) as [w0|] eqn:E; [|discriminate].
  inversion H; subst. split; [reflexivity|].
  destruct (w_write_target _ _ _ _ E) as [q T]. exists q. split; [exact T|]. eapply w_write_read; eauto.
Qed.

Theorem build_write_appends q w c old :
  read_file (w_fs w) q = Some old -> q <> [] ->
  exists w', sink_write (SBuild q) w c = inl (SBuild q, w') /\ read_file (w_fs w') q = Some (old ++ c) /\
             (forall p, p <> q -> fs_get (w_fs w') p = fs_get (w_fs w) p).
Proof.
  intros H Hq. unfold read_file in H.
  destruct (fs_get (w_fs w) q) as [[c0|]|] eqn:G; try discriminate. inversion H; subst c0.
  eexists. cbn [sink_write]. unfold w_append. rewrite G. split; [reflexivity|]. cbn [w_fs]. split.
  - unfold read_file. rewrite fs_get_put_same by exact Hq. reflexivity.
  - intros p Hp. apply fs_get_put_other. congruence.
Qed.

Theorem clean_new_removes w out k w' :
  sink_new Clean w out = inl (k, w') -> k = SClean /\ fs_get (w_fs w') out = None \/ out = [].
Proof.
  intros H. unfold sink_new in H. destruct (exists_ (w_fs w) out) eqn:E.
  - unfold w_remove_file in H. destruct (fs_get (w_fs w) out) as [[c|]|] eqn:G; try discriminate.
    inversion H; subst. cbn [w_fs]. destruct out as [|x out]; [right; reflexivity|].
    left. split; [reflexivity|]. apply fs_get_del_same. discriminate.
  - inversion H; subst. left. split; [reflexivity|]. unfold exists_ in E.
    destruct (fs_get (w_fs w') out); [discriminate|reflexivity].
Qed.
Theorem clean_sink_inert w c : sink_write SClean w c = inl (SClean, w) /\ sink_done SClean w = inl w.
Proof. split; reflexivity. Qed.

Theorem temp_no_event_when_same w lp q c :
  os_resolve (w_fs w) lp = Some q -> fs_get (w_fs w) q = Some (File c) -> write_temp w lp c = inl w.
Proof. intros R G. unfold write_temp. rewrite R, G, str_eqb_refl. reflexivity. Qed.

Theorem temp_stale_is_updated w lp q old c w' :
  os_resolve (w_fs w) lp = Some q -> fs_get (w_fs w) q = Some (File old) ->
  write_temp w lp c = inl w' -> read_file (w_fs w') q = Some c.
Proof.
  intros R G H. unfold write_temp in H. rewrite R, G in H.
  destruct (str_eqb old c) eqn:E.
  - apply str_eqb_eq in E. inversion H; subst. unfold read_file. rewrite G. reflexivity.
  - destruct (w_write w q c) as [w0|] eqn:E0; [|discriminate]. inversion H; subst.
    destruct (w_write_target _ _ _ _ E0) as [q' T].
    assert (Hq : ~ In dotdot q) by (eapply os_walk_no_dotdot; [|exact R]; simpl; tauto).
    pose proof (write_target_canon _ _ _ Hq T); subst q'. eapply w_write_read; eauto.
Qed.

(* every proper prefix of the path is a directory *)
Definition reach (f : fs) (cur : path) : Prop :=
  forall n, (n < length cur)%nat -> is_dir f (firstn n cur) = true.
Lemma removelast_firstn_pred {A} (l : list A) : removelast l = firstn (length l - 1) l.
Proof.
  destruct l as [|a l]; [reflexivity|].
  replace (length (a :: l) - 1)%nat with (length l) by (simpl; lia).
  change (a :: l) with ([a] ++ l). 
  assert (H : forall (l : list A) a, removelast (a :: l) = firstn (length l) (a :: l)).
  { clear. induction l as [|b l IH]; intros a; [reflexivity|].
    change (removelast (a :: b :: l)) with (a :: removelast (b :: l)). rewrite IH. reflexivity. }
  apply H.
Qed.
Lemma reach_removelast f cur : reach f cur -> reach f (removelast cur).
Proof.
  intros R n Hn. rewrite removelast_firstn_pred in *. rewrite firstn_length in Hn.
  rewrite firstn_firstn. replace (Nat.min n (length cur - 1)) with n by lia. apply R. lia.
Qed.
Lemma reach_snoc f cur c : reach f cur -> is_dir f cur = true -> reach f (cur ++ [c]).
Proof.
  intros R D n Hn. rewrite app_length in Hn. simpl in Hn.
  rewrite firstn_app. replace (n - length cur)%nat with 0%nat by lia. rewrite firstn_O, app_nil_r.
  destruct (Nat.eq_dec n (length cur)) as [->|Hne].
  - rewrite firstn_all. exact D.
  - apply R. lia.
Qed.
Lemma os_walk_reach f comps : forall cur q, reach f cur -> os_walk f cur comps = Some q -> reach f q.
Proof.
  induction comps as [|c r IH]; intros cur q R H; simpl in H.
  - destruct (exists_ f cur); [|discriminate]. inversion H; subst. exact R.
  - destruct (is_dir f cur) eqn:D; [|discriminate]. simpl in H.
    destruct (str_eqb c dotdot).
    + eapply IH; [|exact H]. apply reach_removelast. exact R.
    + eapply IH; [|exact H]. apply reach_snoc; assumption.
Qed.
Lemma os_walk_id f comps : forall cur,
  ~ In dotdot comps -> reach f (cur ++ comps) -> exists_ f (cur ++ comps) = true ->
  os_walk f cur comps = Some (cur ++ comps).
Proof.
  induction comps as [|c r IH]; intros cur Hc R E; simpl.
  - rewrite app_nil_r in *. rewrite E. reflexivity.
  - assert (D : is_dir f cur = true).
    { specialize (R (length cur)). rewrite firstn_app, firstn_all, Nat.sub_diag, firstn_O, app_nil_r in R.
      apply R. rewrite app_length. simpl. lia. }
    rewrite D. simpl. rewrite str_eqb_neq by (intros ->; apply Hc; left; reflexivity).
    replace (cur ++ c :: r) with ((cur ++ [c]) ++ r) in * by (rewrite <- app_assoc; reflexivity).
    apply IH; [intros Hin; apply Hc; right; exact Hin|exact R|exact E].
Qed.

(* an existing regular file the OS can resolve can always be rewritten *)
Lemma resolved_file_writable f lp q c :
  os_resolve f lp = Some q -> fs_get f q = Some (File c) -> write_target f q = Some q.
Proof.
  intros R G.
  assert (Hd : ~ In dotdot q) by (eapply os_walk_no_dotdot; [|exact R]; simpl; tauto).
  assert (Hr : reach f q) by (eapply os_walk_reach; [|exact R]; intros n Hn; simpl in Hn; lia).
  unfold write_target. destruct (rev q) as [|n rp] eqn:E.
  - destruct q as [|x q]; [|apply (f_equal (@length _)) in E; simpl in E; rewrite app_length in E; simpl in E; lia].
    rewrite fs_get_nil_root in G. discriminate.
  - apply rev_cons_eq in E.
    assert (Hn : is_normal n = true).
    { unfold is_normal. rewrite str_eqb_neq; [reflexivity|]. intros ->. apply Hd. rewrite E. apply in_or_app. right. left. reflexivity. }
    rewrite Hn.
    assert (Dp : is_dir f (rev rp) = true).
    { specialize (Hr (length (rev rp))). rewrite E in Hr. rewrite firstn_app, firstn_all, Nat.sub_diag, firstn_O, app_nil_r in Hr.
      apply Hr. rewrite app_length. simpl. lia. }
    unfold os_resolve. rewrite (os_walk_id f (rev rp) []).
    + cbn [app]. rewrite Dp. rewrite <- E. unfold is_dir. rewrite G. reflexivity.
    + intros Hin. apply Hd. rewrite E. apply in_or_app. left. exact Hin.
    + cbn [app]. intros k Hk. rewrite E in Hr. specialize (Hr k).
      rewrite firstn_app in Hr. replace (k - length (rev rp))%nat with 0%nat in Hr by lia.
      rewrite firstn_O, app_nil_r in Hr. apply Hr. rewrite app_length. simpl. lia.
    + cbn [app]. unfold exists_. unfold is_dir in Dp. destruct (fs_get f (rev rp)); [reflexivity|discriminate].
Qed.
Lemma temp_existing_file_succeeds w lp q old c :
  os_resolve (w_fs w) lp = Some q -> fs_get (w_fs w) q = Some (File old) -> exists a, write_temp w lp c = inl a.
Proof.
  intros R G. unfold write_temp. rewrite R, G. destruct (str_eqb old c); [eexists; reflexivity|].
  unfold w_write. rewrite (resolved_file_writable _ _ _ _ R G). eexists; reflexivity.
Qed.
Theorem temp_stale_content_irrelevant w lp q old1 old2 c :
  q <> [] -> os_resolve (w_fs w) lp = Some q ->
  let w1 := mkW (fs_put (w_fs w) q (File old1)) (w_log w) in
  let w2 := mkW (fs_put (w_fs w) q (File old2)) (w_log w) in
  os_resolve (w_fs w1) lp = Some q -> os_resolve (w_fs w2) lp = Some q ->
  (exists a, write_temp w1 lp c = inl a) <-> (exists b, write_temp w2 lp c = inl b).
Proof.
  intros Hq R w1 w2 R1 R2. split; intros _.
  - eapply temp_existing_file_succeeds; [exact R2|]. subst w2. cbn [w_fs]. apply fs_get_put_same. exact Hq.
  - eapply temp_existing_file_succeeds; [exact R1|]. subst w1. cbn [w_fs]. apply fs_get_put_same. exact Hq.
Qed.
