(* StrFacts.v — characterisations of the byte-string functions of Str.v.
   All statements below are proved (no admitted lemma); the
   statements were fixed before the proofs were written. *)
Require Import Txtpp.Str.
From Coq Require Import Lia.

Local Arguments N.add : simpl never.
Local Arguments N.sub : simpl never.
Local Arguments N.eqb : simpl never.
Local Arguments N.ltb : simpl never.
Local Arguments N.leb : simpl never.

(* ---- generic helpers ---- *)
Ltac b2p :=
  repeat match goal with
  | H : (_ && _) = true |- _ => apply andb_true_iff in H; destruct H
  | H : (_ || _) = false |- _ => apply orb_false_iff in H; destruct H
  | H : (_ && _) = false |- _ => apply andb_false_iff in H; destruct H
  | H : (_ || _) = true |- _ => apply orb_true_iff in H; destruct H
  | H : (_ <? _) = true |- _ => apply N.ltb_lt in H
  | H : (_ <? _) = false |- _ => apply N.ltb_ge in H
  | H : (_ <=? _) = true |- _ => apply N.leb_le in H
  | H : (_ <=? _) = false |- _ => apply N.leb_gt in H
  | H : (_ =? _) = true |- _ => apply N.eqb_eq in H
  | H : (_ =? _) = false |- _ => apply N.eqb_neq in H
  end.

Lemma skipn_app_exact (A : Type) (l1 l2 : list A) : skipn (length l1) (l1 ++ l2) = l2.
Proof. induction l1 as [|x l1 IH]; simpl; auto. Qed.
Lemma firstn_app_exact (A : Type) (l1 l2 : list A) : firstn (length l1) (l1 ++ l2) = l1.
Proof. induction l1 as [|x l1 IH]; simpl; [reflexivity | now rewrite IH]. Qed.

Lemma str_eqb_eq a b : str_eqb a b = true <-> a = b.
Proof.
  revert b. induction a as [|x a IH]; intros [|y b]; simpl; split; intros H;
    try reflexivity; try discriminate.
  - apply andb_true_iff in H as [H1 H2]. apply N.eqb_eq in H1. apply IH in H2. now subst.
  - injection H as -> ->. rewrite N.eqb_refl. simpl. now apply IH.
Qed.
Lemma str_eqb_refl a : str_eqb a a = true.
Proof. now apply str_eqb_eq. Qed.

Lemma starts_with_iff p s : starts_with p s = true <-> exists r, s = p ++ r.
Proof.
  revert s. induction p as [|x p IH]; intros s; simpl.
  - split; [intros _; now exists s | reflexivity].
  - destruct s as [|y s].
    + split; [discriminate | intros [r Hr]; discriminate].
    + split.
      * intros H. apply andb_true_iff in H as [H1 H2]. apply N.eqb_eq in H1.
        apply IH in H2 as [r ->]. exists r. now subst.
      * intros [r Hr]. injection Hr as -> ->. rewrite N.eqb_refl. simpl.
        apply IH. now exists r.
Qed.

(* p occurs in s at byte offset i *)
Definition occurs_at (p s : str) (i : nat) : Prop := exists a r, s = a ++ p ++ r /\ length a = i.

Lemma occurs_at_0 p s : occurs_at p s 0 <-> starts_with p s = true.
Proof.
  rewrite starts_with_iff. split.
  - intros (a & r & -> & Ha). destruct a; [|discriminate]. now exists r.
  - intros [r ->]. now exists [], r.
Qed.
Lemma occurs_at_S p c s i : occurs_at p (c :: s) (S i) <-> occurs_at p s i.
Proof.
  split.
  - intros (a & r & H & Ha). destruct a as [|x a]; [discriminate|].
    simpl in H. injection H as -> ->. simpl in Ha. exists a, r. split; [reflexivity | lia].
  - intros (a & r & -> & Ha). exists (c :: a), r. split; [reflexivity | simpl; lia].
Qed.
Lemma occurs_at_nil_S p i : ~ occurs_at p [] (S i).
Proof. intros (a & r & H & Ha). destruct a; discriminate. Qed.

Lemma find_sub_nil p : find_sub p [] = if starts_with p [] then Some 0%nat else None.
Proof. reflexivity. Qed.
Lemma find_sub_cons p c s :
  find_sub p (c :: s) = if starts_with p (c :: s) then Some 0%nat else option_map S (find_sub p s).
Proof. reflexivity. Qed.

Lemma find_sub_spec p s i :
  find_sub p s = Some i <-> occurs_at p s i /\ forall j, (j < i)%nat -> ~ occurs_at p s j.
Proof.
  revert i. induction s as [|c s IH]; intros i.
  - rewrite find_sub_nil. destruct (starts_with p []) eqn:E.
    + split.
      * intros H. injection H as <-. split; [now apply occurs_at_0 | intros j Hj; lia].
      * intros [H1 H2]. destruct i as [|i]; [reflexivity|]. now apply occurs_at_nil_S in H1.
    + split; [discriminate|]. intros [H1 H2]. destruct i as [|i].
      * apply (proj1 (occurs_at_0 _ _)) in H1. congruence.
      * now apply occurs_at_nil_S in H1.
  - rewrite find_sub_cons. destruct (starts_with p (c :: s)) eqn:E.
    + split.
      * intros H. injection H as <-. split; [now apply occurs_at_0 | intros j Hj; lia].
      * intros [H1 H2]. destruct i as [|i]; [reflexivity|].
        exfalso. apply (H2 0%nat); [lia | now apply occurs_at_0].
    + destruct i as [|i].
      * split.
        -- destruct (find_sub p s); discriminate.
        -- intros [H1 _]. apply (proj1 (occurs_at_0 _ _)) in H1. congruence.
      * split.
        -- intros H. destruct (find_sub p s) as [k|] eqn:F; [|discriminate].
           simpl in H. injection H as ->. destruct (proj1 (IH i) eq_refl) as [H1 H2].
           split; [now apply occurs_at_S|].
           intros [|j] Hj Hocc.
           ++ apply (proj1 (occurs_at_0 _ _)) in Hocc. congruence.
           ++ apply (proj1 (occurs_at_S _ _ _ _)) in Hocc. apply (H2 j); [lia | assumption].
        -- intros [H1 H2]. apply (proj1 (occurs_at_S _ _ _ _)) in H1.
           assert (F : find_sub p s = Some i).
           { apply IH. split; [assumption|]. intros j Hj Hocc.
             apply (H2 (S j)); [lia | now apply occurs_at_S]. }
           now rewrite F.
Qed.
Lemma find_sub_none p s : find_sub p s = None <-> forall i, ~ occurs_at p s i.
Proof.
  induction s as [|c s IH].
  - rewrite find_sub_nil. destruct (starts_with p []) eqn:E.
    + split; [discriminate|]. intros H. exfalso. apply (H 0%nat). now apply occurs_at_0.
    + split; [|reflexivity]. intros _ [|i] H.
      * apply (proj1 (occurs_at_0 _ _)) in H. congruence.
      * now apply occurs_at_nil_S in H.
  - rewrite find_sub_cons. destruct (starts_with p (c :: s)) eqn:E.
    + split; [discriminate|]. intros H. exfalso. apply (H 0%nat). now apply occurs_at_0.
    + split.
      * intros H [|i] Hocc.
        -- apply (proj1 (occurs_at_0 _ _)) in Hocc. congruence.
        -- apply (proj1 (occurs_at_S _ _ _ _)) in Hocc. destruct (find_sub p s); [discriminate|].
           now apply (proj1 IH eq_refl i).
      * intros H. assert (F : find_sub p s = None).
        { apply IH. intros i Hocc. apply (H (S i)). now apply occurs_at_S. }
        now rewrite F.
Qed.

(* the UTF-8 encodings of the 25 characters for which char::is_whitespace holds:
   U+0009-000D, U+0020, U+0085, U+00A0, U+1680, U+2000-200A, U+2028, U+2029, U+202F, U+205F, U+3000 *)
Definition ws_chars : list str :=
  [[9]; [10]; [11]; [12]; [13]; [32]; [194; 133]; [194; 160]; [225; 154; 128];
   [226; 128; 128]; [226; 128; 129]; [226; 128; 130]; [226; 128; 131]; [226; 128; 132];
   [226; 128; 133]; [226; 128; 134]; [226; 128; 135]; [226; 128; 136]; [226; 128; 137];
   [226; 128; 138]; [226; 128; 168]; [226; 128; 169]; [226; 128; 175]; [226; 129; 159];
   [227; 128; 128]].

(* ws_len recognises exactly the table *)
Ltac b2t :=
  repeat match goal with
  | H : (_ && _) = true |- _ => apply andb_true_iff in H; destruct H
  | H : (_ || _) = true |- _ => apply orb_true_iff in H; destruct H
  | H : (_ =? _) = true |- _ => apply N.eqb_eq in H
  end.
Ltac solve_in := cbn; repeat ((left; reflexivity) || right).
Ltac ws_fin := (split; [|split]); [ | reflexivity | reflexivity]; solve_in.

Lemma ascii_ws_cases b : ascii_ws b = true ->
  b = 9 \/ b = 10 \/ b = 11 \/ b = 12 \/ b = 13 \/ b = 32.
Proof. unfold ascii_ws. intros H. b2p; lia. Qed.
Lemma e2_80_ws_cases c : e2_80_ws c = true ->
  c = 128 \/ c = 129 \/ c = 130 \/ c = 131 \/ c = 132 \/ c = 133 \/ c = 134 \/ c = 135 \/
  c = 136 \/ c = 137 \/ c = 138 \/ c = 168 \/ c = 169 \/ c = 175.
Proof. unfold e2_80_ws. intros H. b2p; lia. Qed.

Lemma ws_chars_nonempty c : In c ws_chars -> (1 <= length c)%nat.
Proof.
  intros H. cbn in H.
  repeat (destruct H as [H|H]; [subst c; simpl; lia|]). contradiction.
Qed.

Lemma ws_len_sound s n : ws_len s = n -> n <> 0%nat ->
  exists c r, In c ws_chars /\ s = c ++ r /\ length c = n.
Proof.
  intros <- Hn. destruct s as [|b r]; [now simpl in Hn|].
  cbn [ws_len] in *.
  destruct (ascii_ws b) eqn:Ea.
  { apply ascii_ws_cases in Ea.
    repeat (destruct Ea as [Ea|Ea]); subst b; eexists [_], _; ws_fin. }
  destruct (b =? 194) eqn:E1.
  { destruct r as [|c r]; [congruence|].
    destruct ((c =? 133) || (c =? 160)) eqn:E2; [|congruence].
    b2t; subst; eexists [_; _], _; ws_fin. }
  destruct (b =? 225) eqn:E2.
  { destruct r as [|c1 [|c2 r]]; try congruence.
    destruct ((c1 =? 154) && (c2 =? 128)) eqn:E3; [|congruence].
    b2t; subst; eexists [_; _; _], _; ws_fin. }
  destruct (b =? 226) eqn:E3.
  { destruct r as [|c1 [|c2 r]]; try congruence.
    destruct ((c1 =? 128) && e2_80_ws c2) eqn:E4.
    { apply andb_true_iff in E4 as [E4 E5]. apply e2_80_ws_cases in E5.
      b2t. subst b c1.
      repeat (destruct E5 as [E5|E5]); subst c2; eexists [_; _; _], _; ws_fin. }
    destruct ((c1 =? 129) && (c2 =? 159)) eqn:E5; [|congruence].
    b2t; subst; eexists [_; _; _], _; ws_fin. }
  destruct (b =? 227) eqn:E4; [|congruence].
  destruct r as [|c1 [|c2 r]]; try congruence.
  destruct ((c1 =? 128) && (c2 =? 128)) eqn:E5; [|congruence].
  b2t; subst; eexists [_; _; _], _; ws_fin.
Qed.
Lemma ws_len_complete c r : In c ws_chars -> ws_len (c ++ r) = length c.
Proof.
  intros H. cbn in H.
  repeat (destruct H as [H|H]; [subst c; reflexivity|]). contradiction.
Qed.
Lemma ws_len_zero s : ws_len s = 0%nat <-> forall c r, In c ws_chars -> s <> c ++ r.
Proof.
  split.
  - intros H c r Hc ->. rewrite (ws_len_complete c r Hc) in H.
    apply ws_chars_nonempty in Hc. lia.
  - intros H. destruct (ws_len s) as [|k] eqn:E; [reflexivity|].
    destruct (ws_len_sound s (S k) E) as (c & r & Hc & Hs & _); [lia|].
    exfalso. now apply (H c r Hc).
Qed.
Lemma ws_len_rev_sound t n : ws_len_rev t = n -> n <> 0%nat ->
  exists c r, In c ws_chars /\ t = rev c ++ r /\ length c = n.
Proof.
  intros <- Hn. destruct t as [|b t]; [now simpl in Hn|].
  cbn [ws_len_rev] in *.
  destruct (ascii_ws b) eqn:Ea.
  { apply ascii_ws_cases in Ea.
    repeat (destruct Ea as [Ea|Ea]); subst b; eexists [_], _; ws_fin. }
  destruct t as [|c t]; [congruence|].
  destruct ((c =? 194) && ((b =? 133) || (b =? 160))) eqn:E1.
  { b2t; subst; eexists [_; _], _; ws_fin. }
  destruct t as [|d t]; [congruence|].
  destruct ((d =? 225) && (c =? 154) && (b =? 128)) eqn:E2.
  { b2t; subst; eexists [_; _; _], _; ws_fin. }
  destruct ((d =? 226) && (c =? 128) && e2_80_ws b) eqn:E3.
  { apply andb_true_iff in E3 as [E3 E5]. apply e2_80_ws_cases in E5.
    b2t. subst d c.
    repeat (destruct E5 as [E5|E5]); subst b; eexists [_; _; _], _; ws_fin. }
  destruct ((d =? 226) && (c =? 129) && (b =? 159)) eqn:E4.
  { b2t; subst; eexists [_; _; _], _; ws_fin. }
  destruct ((d =? 227) && (c =? 128) && (b =? 128)) eqn:E5; [|congruence].
  b2t; subst; eexists [_; _; _], _; ws_fin.
Qed.
Lemma ws_len_rev_complete c r : In c ws_chars -> ws_len_rev (rev c ++ r) = length c.
Proof.
  intros H. cbn in H.
  repeat (destruct H as [H|H]; [subst c; reflexivity|]). contradiction.
Qed.
Lemma ws_len_rev_zero t : ws_len_rev t = 0%nat <-> forall c r, In c ws_chars -> t <> rev c ++ r.
Proof.
  split.
  - intros H c r Hc ->. rewrite (ws_len_rev_complete c r Hc) in H.
    apply ws_chars_nonempty in Hc. lia.
  - intros H. destruct (ws_len_rev t) as [|k] eqn:E; [reflexivity|].
    destruct (ws_len_rev_sound t (S k) E) as (c & r & Hc & Hs & _); [lia|].
    exfalso. now apply (H c r Hc).
Qed.

(* a string made of white-space characters only *)
Inductive AllWs : str -> Prop :=
| AllWs_nil : AllWs []
| AllWs_cons c r : In c ws_chars -> AllWs r -> AllWs (c ++ r).

Lemma AllWs_app a b : AllWs a -> AllWs b -> AllWs (a ++ b).
Proof.
  intros Ha Hb. induction Ha as [|c r Hc Hr IH]; [exact Hb|].
  rewrite <- app_assoc. now constructor.
Qed.
Lemma AllWs_one c : In c ws_chars -> AllWs c.
Proof. intros H. rewrite <- (app_nil_r c). constructor; [assumption | constructor]. Qed.

(* every string splits into a white-space prefix and a rest that does not start with white space *)
Lemma ws_decomp_exists n : forall s, (length s <= n)%nat ->
  exists ws rest, s = ws ++ rest /\ AllWs ws /\ ws_len rest = 0%nat.
Proof.
  induction n as [|n IH]; intros s Hl.
  - destruct s; [|simpl in Hl; lia]. exists [], []. repeat split; constructor.
  - destruct (ws_len s) as [|k] eqn:E.
    + exists [], s. repeat split; [constructor | assumption].
    + destruct (ws_len_sound s (S k) E) as (c & r & Hc & -> & Hlen); [lia|].
      destruct (IH r) as (ws & rest & -> & Hws & Hrest).
      { rewrite app_length in Hl. lia. }
      exists (c ++ ws), rest. repeat split.
      * now rewrite app_assoc.
      * now constructor.
      * assumption.
Qed.

Lemma ws_prefix_len_unique ws : AllWs ws -> forall rest fuel,
  ws_len rest = 0%nat -> (length (ws ++ rest) <= fuel)%nat ->
  ws_prefix_len fuel (ws ++ rest) = length ws.
Proof.
  induction 1 as [|c r Hc Hr IH]; intros rest fuel H0 Hl.
  - simpl. destruct fuel; simpl; [reflexivity | now rewrite H0].
  - pose proof (ws_chars_nonempty c Hc) as Hc1.
    rewrite <- app_assoc in *.
    destruct fuel as [|f]; [rewrite app_length in Hl; lia|].
    cbn [ws_prefix_len]. rewrite (ws_len_complete c (r ++ rest) Hc).
    destruct (length c) as [|k] eqn:Ek; [lia|].
    rewrite <- Ek. rewrite skipn_app_exact. rewrite IH; [now rewrite app_length | assumption |].
    rewrite app_length in Hl. lia.
Qed.

Lemma split_ws_app ws rest : AllWs ws -> ws_len rest = 0%nat -> split_ws (ws ++ rest) = (ws, rest).
Proof.
  intros Hws H0. unfold split_ws.
  rewrite (ws_prefix_len_unique ws Hws rest _ H0 (le_n _)).
  now rewrite firstn_app_exact, skipn_app_exact.
Qed.

(* split_ws cuts at the first character that is not white space *)
Lemma split_ws_spec s ws rest :
  split_ws s = (ws, rest) <-> s = ws ++ rest /\ AllWs ws /\ ws_len rest = 0%nat.
Proof.
  split.
  - intros H. destruct (ws_decomp_exists (length s) s (le_n _)) as (ws' & rest' & -> & Hws & H0).
    rewrite (split_ws_app ws' rest' Hws H0) in H. injection H as <- <-. auto.
  - intros (-> & Hws & H0). now apply split_ws_app.
Qed.

(* white-space strings built from the right *)
Inductive AllWsR : str -> Prop :=
| AllWsR_nil : AllWsR []
| AllWsR_snoc r c : AllWsR r -> In c ws_chars -> AllWsR (r ++ c).

Lemma AllWsR_cons c r : In c ws_chars -> AllWsR r -> AllWsR (c ++ r).
Proof.
  intros Hc Hr. induction Hr as [|r c' Hr IH Hc'].
  - rewrite app_nil_r. apply (AllWsR_snoc [] c); [constructor | assumption].
  - rewrite app_assoc. now constructor.
Qed.
Lemma AllWs_AllWsR b : AllWs b -> AllWsR b.
Proof. induction 1; [constructor | now apply AllWsR_cons]. Qed.

Lemma drop_ws_rev_unique b : AllWsR b -> forall a fuel,
  ws_len_rev (rev a) = 0%nat -> (length b <= fuel)%nat ->
  drop_ws_rev fuel (rev (a ++ b)) = rev a.
Proof.
  induction 1 as [|r c Hr IH Hc]; intros a fuel H0 Hl.
  - rewrite app_nil_r. destruct fuel; simpl; [reflexivity | now rewrite H0].
  - pose proof (ws_chars_nonempty c Hc) as Hc1.
    rewrite app_length in Hl.
    destruct fuel as [|f]; [lia|].
    rewrite app_assoc, rev_app_distr.
    cbn [drop_ws_rev]. rewrite (ws_len_rev_complete c _ Hc).
    destruct (length c) as [|k] eqn:Ek; [lia|].
    rewrite <- Ek, <- (rev_length c), skipn_app_exact.
    apply IH; [assumption | lia].
Qed.

Lemma trim_end_unique s a b :
  s = a ++ b -> AllWs b -> ws_len_rev (rev a) = 0%nat -> trim_end s = a.
Proof.
  intros -> Hb H0. unfold trim_end.
  rewrite (drop_ws_rev_unique b (AllWs_AllWsR b Hb) a _ H0).
  - apply rev_involutive.
  - rewrite app_length. lia.
Qed.

Lemma trim_end_decomp n : forall s, (length s <= n)%nat ->
  exists a b, s = a ++ b /\ AllWs b /\ ws_len_rev (rev a) = 0%nat.
Proof.
  induction n as [|n IH]; intros s Hl.
  - destruct s; [|simpl in Hl; lia]. exists [], []. repeat split; constructor.
  - destruct (ws_len_rev (rev s)) as [|k] eqn:E.
    + exists s, []. rewrite app_nil_r. repeat split; [constructor | assumption].
    + destruct (ws_len_rev_sound (rev s) (S k) E) as (c & r & Hc & Hs & Hlen); [lia|].
      assert (Hs' : s = rev r ++ c).
      { rewrite <- (rev_involutive s), Hs, rev_app_distr, rev_involutive. reflexivity. }
      destruct (IH (rev r)) as (a & b & Hab & Hb & H0).
      { subst s. rewrite app_length in Hl. lia. }
      exists a, (b ++ c). repeat split.
      * rewrite app_assoc, <- Hab. assumption.
      * apply AllWs_app; [assumption | now apply AllWs_one].
      * assumption.
Qed.

(* trim_end removes a maximal white-space suffix *)
Lemma trim_end_spec s :
  exists b, s = trim_end s ++ b /\ AllWs b /\ ws_len_rev (rev (trim_end s)) = 0%nat.
Proof.
  destruct (trim_end_decomp (length s) s (le_n _)) as (a & b & Hab & Hb & H0).
  rewrite (trim_end_unique s a b Hab Hb H0). now exists b.
Qed.
Lemma trim_spec s :
  exists a b, s = a ++ trim s ++ b /\ AllWs a /\ AllWs b.
Proof.
  unfold trim, trim_start. destruct (split_ws s) as [ws rest] eqn:E.
  apply split_ws_spec in E as (-> & Hws & H0). simpl.
  destruct (trim_end_spec rest) as (b & Hb & HWb & _).
  exists ws, b. rewrite <- Hb. auto.
Qed.

Lemma split_once_sp_spec s a b :
  split_once_sp s = Some (a, b) <-> s = a ++ SPb :: b /\ ~ In SPb a.
Proof.
  revert a b. induction s as [|c s IH]; intros a b; cbn [split_once_sp].
  - split; [discriminate|]. intros [H _]. destruct a; discriminate.
  - destruct (c =? SPb) eqn:E.
    + apply N.eqb_eq in E. subst c. split.
      * intros H. injection H as <- <-. split; [reflexivity | intros []].
      * intros [H Hn]. destruct a as [|x a].
        -- simpl in H. injection H as ->. reflexivity.
        -- simpl in H. injection H as <- _. exfalso. apply Hn. now left.
    + apply N.eqb_neq in E. split.
      * intros H. destruct (split_once_sp s) as [[a' b']|] eqn:F; [|discriminate].
        injection H as <- <-. destruct (proj1 (IH a' b') eq_refl) as [-> Hn].
        split; [reflexivity|]. intros [Hx|Hx]; [congruence | contradiction].
      * intros [H Hn]. destruct a as [|x a].
        -- simpl in H. injection H as -> _. congruence.
        -- simpl in H. injection H as <- ->.
           assert (F : split_once_sp (a ++ SPb :: b) = Some (a, b)).
           { apply IH. split; [reflexivity|]. intros Hx. apply Hn. now right. }
           now rewrite F.
Qed.
Lemma split_once_sp_none s : split_once_sp s = None <-> ~ In SPb s.
Proof.
  induction s as [|c s IH]; cbn [split_once_sp].
  - split; [intros _ [] | reflexivity].
  - destruct (c =? SPb) eqn:E.
    + apply N.eqb_eq in E. subst c. split; [discriminate|]. intros H. exfalso. apply H. now left.
    + apply N.eqb_neq in E. split.
      * intros H. destruct (split_once_sp s) as [[a' b']|] eqn:F; [discriminate|].
        intros [Hx|Hx]; [congruence|]. now apply (proj1 IH eq_refl).
      * intros H. assert (F : split_once_sp s = None).
        { apply IH. intros Hx. apply H. now right. }
        now rewrite F.
Qed.

(* ---- UTF-8 ---- *)
Ltac andsplit :=
  repeat match goal with
  | H : (_ && _) = true |- _ => apply andb_true_iff in H; destruct H
  end.

Lemma is_cont_false c : c < 128 \/ 191 < c -> is_cont c = false.
Proof.
  intros H. unfold is_cont. apply andb_false_iff.
  destruct H as [H|H]; [left; apply N.leb_gt | right; apply N.leb_gt]; assumption.
Qed.

Lemma utf8_valid_app_n n : forall a b, (length a <= n)%nat ->
  utf8_valid a = true -> utf8_valid b = true -> utf8_valid (a ++ b) = true.
Proof.
  induction n as [|n IH]; intros a b Hl Ha Hb.
  - destruct a; [exact Hb | simpl in Hl; lia].
  - destruct a as [|x r]; [exact Hb|].
    cbn [app utf8_valid] in *.
    destruct (x <? 128).
    { apply IH; [simpl in Hl; lia | assumption | assumption]. }
    destruct ((194 <=? x) && (x <=? 223)).
    { destruct r as [|c1 r1]; [discriminate|]. cbn [app].
      apply andb_true_iff in Ha as [H1 H2]. rewrite H1. cbn [andb].
      apply IH; [simpl in Hl; lia | assumption | assumption]. }
    destruct ((224 <=? x) && (x <=? 239)).
    { destruct r as [|c1 [|c2 r2]]; try discriminate. cbn [app].
      apply andb_true_iff in Ha as [H1 H2]. rewrite H1. cbn [andb].
      apply IH; [simpl in Hl; lia | assumption | assumption]. }
    destruct ((240 <=? x) && (x <=? 244)); [|discriminate].
    destruct r as [|c1 [|c2 [|c3 r3]]]; try discriminate. cbn [app].
    apply andb_true_iff in Ha as [H1 H2]. rewrite H1. cbn [andb].
    apply IH; [simpl in Hl; lia | assumption | assumption].
Qed.
Lemma utf8_valid_app a b : utf8_valid a = true -> utf8_valid b = true -> utf8_valid (a ++ b) = true.
Proof. apply (utf8_valid_app_n (length a)). apply le_n. Qed.

Lemma utf8_valid_app_inv_n n : forall a b, (length a <= n)%nat ->
  utf8_valid (a ++ b) = true -> utf8_valid a = true -> utf8_valid b = true.
Proof.
  induction n as [|n IH]; intros a b Hl Hab Ha.
  - destruct a; [exact Hab | simpl in Hl; lia].
  - destruct a as [|x r]; [exact Hab|].
    cbn [app utf8_valid] in *.
    destruct (x <? 128).
    { apply (IH r); [simpl in Hl; lia | assumption | assumption]. }
    destruct ((194 <=? x) && (x <=? 223)).
    { destruct r as [|c1 r1]; [discriminate|]. cbn [app] in Hab.
      apply andb_true_iff in Ha as [H1 H2]. apply andb_true_iff in Hab as [H3 H4].
      apply (IH r1); [simpl in Hl; lia | assumption | assumption]. }
    destruct ((224 <=? x) && (x <=? 239)).
    { destruct r as [|c1 [|c2 r2]]; try discriminate. cbn [app] in Hab.
      apply andb_true_iff in Ha as [H1 H2]. apply andb_true_iff in Hab as [H3 H4].
      apply (IH r2); [simpl in Hl; lia | assumption | assumption]. }
    destruct ((240 <=? x) && (x <=? 244)); [|discriminate].
    destruct r as [|c1 [|c2 [|c3 r3]]]; try discriminate. cbn [app] in Hab.
    apply andb_true_iff in Ha as [H1 H2]. apply andb_true_iff in Hab as [H3 H4].
    apply (IH r3); [simpl in Hl; lia | assumption | assumption].
Qed.
(* a valid string split after a valid prefix leaves a valid rest *)
Lemma utf8_valid_app_inv a b : utf8_valid (a ++ b) = true -> utf8_valid a = true -> utf8_valid b = true.
Proof. apply (utf8_valid_app_inv_n (length a)). apply le_n. Qed.
(* ... and a valid string does not start with a continuation byte *)
Lemma utf8_valid_head s c r : utf8_valid s = true -> s = c :: r -> is_cont c = false.
Proof.
  intros H ->. cbn [utf8_valid] in H.
  destruct (c <? 128) eqn:E1.
  { clear H. apply is_cont_false. b2p. lia. }
  destruct ((194 <=? c) && (c <=? 223)) eqn:E2.
  { clear H. apply is_cont_false. b2p; lia. }
  destruct ((224 <=? c) && (c <=? 239)) eqn:E3.
  { clear H. apply is_cont_false. clear E2. b2p; lia. }
  destruct ((240 <=? c) && (c <=? 244)) eqn:E4; [|discriminate].
  clear H. apply is_cont_false. clear E2 E3. b2p; lia.
Qed.

Lemma utf8_valid_prefix_ascii_n n : forall a c r, (length a <= n)%nat ->
  utf8_valid (a ++ c :: r) = true -> (c <? 128) = true -> utf8_valid a = true.
Proof.
  induction n as [|n IH]; intros a c r Hl H Hc.
  - destruct a; [reflexivity | simpl in Hl; lia].
  - assert (Hcc : is_cont c = false).
    { apply is_cont_false. left. now apply N.ltb_lt. }
    destruct a as [|x a']; [reflexivity|].
    cbn [app utf8_valid] in *.
    destruct (x <? 128).
    { apply (IH a' c r); [simpl in Hl; lia | assumption | assumption]. }
    destruct ((194 <=? x) && (x <=? 223)).
    { destruct a' as [|c1 a1]; cbn [app] in H.
      - andsplit. congruence.
      - apply andb_true_iff in H as [H1 H2]. rewrite H1. cbn [andb].
        apply (IH a1 c r); [simpl in Hl; lia | assumption | assumption]. }
    destruct ((224 <=? x) && (x <=? 239)).
    { destruct a' as [|c1 [|c2 a2]]; cbn [app] in H.
      - destruct r as [|c2 r2]; [discriminate|]. andsplit. congruence.
      - andsplit. congruence.
      - apply andb_true_iff in H as [H1 H2]. rewrite H1. cbn [andb].
        apply (IH a2 c r); [simpl in Hl; lia | assumption | assumption]. }
    destruct ((240 <=? x) && (x <=? 244)); [|discriminate].
    destruct a' as [|c1 [|c2 [|c3 a3]]]; cbn [app] in H.
    + destruct r as [|c2 [|c3 r3]]; try discriminate. andsplit. congruence.
    + destruct r as [|c3 r3]; [discriminate|]. andsplit. congruence.
    + andsplit. congruence.
    + apply andb_true_iff in H as [H1 H2]. rewrite H1. cbn [andb].
      apply (IH a3 c r); [simpl in Hl; lia | assumption | assumption].
Qed.
(* cutting a valid string right before an ASCII byte leaves a valid prefix *)
Lemma utf8_valid_prefix_ascii a c r : utf8_valid (a ++ c :: r) = true -> (c <? 128) = true -> utf8_valid a = true.
Proof. apply (utf8_valid_prefix_ascii_n (length a)). apply le_n. Qed.
Lemma utf8_valid_ws c : In c ws_chars -> utf8_valid c = true.
Proof.
  intros H. cbn in H.
  repeat (destruct H as [H|H]; [subst c; reflexivity|]). contradiction.
Qed.
Lemma AllWs_utf8 s : AllWs s -> utf8_valid s = true.
Proof.
  induction 1 as [|c r Hc Hr IH]; [reflexivity|].
  apply utf8_valid_app; [now apply utf8_valid_ws | assumption].
Qed.
(* the slice after a valid prefix of a valid string is at a character boundary *)
Lemma boundary_after_valid_prefix p r :
  utf8_valid (p ++ r) = true -> utf8_valid p = true -> is_char_boundary (p ++ r) (length p) = true.
Proof.
  intros Hpr Hp. pose proof (utf8_valid_app_inv p r Hpr Hp) as Hr.
  unfold is_char_boundary. destruct r as [|c r'].
  - now rewrite app_nil_r, Nat.eqb_refl.
  - destruct (Nat.eqb (length p) (length (p ++ c :: r'))); [reflexivity|].
    rewrite nth_error_app2 by lia. rewrite Nat.sub_diag. cbn [nth_error].
    now rewrite (utf8_valid_head _ c r' Hr eq_refl).
Qed.
Lemma slice_from_app p r :
  utf8_valid (p ++ r) = true -> utf8_valid p = true -> slice_from (length p) (p ++ r) = Some r.
Proof.
  intros Hpr Hp. unfold slice_from.
  rewrite (boundary_after_valid_prefix p r Hpr Hp). now rewrite skipn_app_exact.
Qed.

(* ---- lines / join ---- *)
Lemma split_on_nonempty c s : split_on c s <> [].
Proof.
  destruct s as [|x r]; cbn [split_on]; [discriminate|].
  destruct (x =? c); [discriminate|]. destruct (split_on c r); discriminate.
Qed.
Lemma join_split_on c s : join [c] (split_on c s) = s.
Proof.
  induction s as [|x r IH]; [reflexivity|].
  cbn [split_on]. pose proof (split_on_nonempty c r) as Hne.
  destruct (split_on c r) as [|p ps]; [congruence|].
  destruct (x =? c) eqn:E.
  - apply N.eqb_eq in E. subst x.
    change (join [c] ([] :: p :: ps)) with ([] ++ [c] ++ join [c] (p :: ps)).
    rewrite IH. reflexivity.
  - destruct ps as [|q ps].
    + cbn [join] in *. now rewrite IH.
    + cbn [join] in *. rewrite <- IH. reflexivity.
Qed.
Lemma split_on_no_sep c s p : In p (split_on c s) -> ~ In c p.
Proof.
  revert p. induction s as [|x r IH]; intros p; cbn [split_on].
  - intros [<-|[]] [].
  - destruct (x =? c) eqn:E.
    + intros [<-|H]; [intros [] | now apply IH].
    + apply N.eqb_neq in E. destruct (split_on c r) as [|q qs].
      * intros [<-|[]] [H|[]]. congruence.
      * intros [<-|H].
        -- intros [H|H]; [congruence|]. apply (IH q); [now left | assumption].
        -- apply IH. now right.
Qed.

Lemma strip_cr_incl x p : In x (strip_cr p) -> In x p.
Proof.
  unfold strip_cr. destruct (rev p) as [|c r] eqn:E; [auto|].
  destruct (c =? CRb); [|auto].
  intros H. apply in_rev. rewrite E. right. now apply in_rev in H.
Qed.
Lemma lines_of_pieces_in l ps : In l (lines_of_pieces ps) ->
  exists p, In p ps /\ (l = p \/ l = strip_cr p).
Proof.
  induction ps as [|p ps IH]; [intros []|].
  cbn [lines_of_pieces]. destruct ps as [|q ps].
  - destruct p as [|x p]; [intros []|]. intros [<-|[]]. eexists; split; [now left | now left].
  - intros [<-|H].
    + exists p. split; [now left | now right].
    + destruct (IH H) as (p' & Hp' & Hl). exists p'. split; [now right | assumption].
Qed.
(* every line is free of LF *)
Lemma lines_no_lf s l : In l (lines s) -> ~ In LFb l.
Proof.
  unfold lines. intros H. apply lines_of_pieces_in in H as (p & Hp & [->| ->]).
  - now apply (split_on_no_sep LFb s).
  - intros H. apply strip_cr_incl in H. now apply (split_on_no_sep LFb s p).
Qed.
(* if CR occurs in s only immediately before LF, the lines are also free of CR *)
Definition cr_only_before_lf (s : str) : Prop :=
  forall a r, s = a ++ CRb :: r -> exists r', r = LFb :: r'.

Lemma cr_only_suffix x y : cr_only_before_lf (x ++ y) -> cr_only_before_lf y.
Proof.
  intros H a r ->. apply (H (x ++ a) r). now rewrite app_assoc.
Qed.
(* in a piece that is followed by LF, a CR can only be the last byte *)
Lemma cr_in_piece p rest a r1 :
  ~ In LFb p -> cr_only_before_lf (p ++ LFb :: rest) -> p = a ++ CRb :: r1 -> r1 = [].
Proof.
  intros Hlf Hcr ->. destruct r1 as [|y r2]; [reflexivity|]. exfalso.
  destruct (Hcr a ((y :: r2) ++ LFb :: rest)) as [r' Hr'].
  { rewrite <- app_assoc. reflexivity. }
  simpl in Hr'. injection Hr' as -> _.
  apply Hlf. apply in_or_app. right. right. now left.
Qed.
Lemma strip_cr_snoc a : strip_cr (a ++ [CRb]) = a.
Proof. unfold strip_cr. rewrite rev_app_distr. simpl. apply rev_involutive. Qed.

Lemma lines_of_pieces_no_cr ps :
  (forall p, In p ps -> ~ In LFb p) -> cr_only_before_lf (join [LFb] ps) ->
  forall l, In l (lines_of_pieces ps) -> ~ In CRb l.
Proof.
  induction ps as [|p ps IH]; intros Hlf Hcr l Hl; [destruct Hl|].
  destruct ps as [|q ps].
  - cbn [lines_of_pieces join] in *. destruct p as [|x p]; [destruct Hl|].
    destruct Hl as [<-|[]]. intros Hin.
    apply in_split in Hin as (a & r & Hs). destruct (Hcr a r Hs) as [r' ->].
    apply (Hlf (x :: p)); [now left|]. rewrite Hs. apply in_or_app. right. right. now left.
  - cbn [lines_of_pieces] in Hl.
    change (join [LFb] (p :: q :: ps)) with (p ++ LFb :: join [LFb] (q :: ps)) in Hcr.
    destruct Hl as [<-|Hl].
    + intros Hin. assert (Hp : ~ In LFb p) by (apply Hlf; now left).
      pose proof (strip_cr_incl _ _ Hin) as Hin'.
      apply in_split in Hin' as (a & r1 & Hs).
      pose proof (cr_in_piece p _ a r1 Hp Hcr Hs) as ->.
      rewrite Hs, strip_cr_snoc in Hin.
      apply in_split in Hin as (a1 & a2 & Ha).
      assert (Hs2 : p = a1 ++ CRb :: (a2 ++ [CRb])).
      { rewrite Hs, Ha, <- app_assoc. reflexivity. }
      pose proof (cr_in_piece p _ a1 _ Hp Hcr Hs2) as Hnil.
      destruct a2; discriminate.
    + apply IH; [| |assumption].
      * intros p' Hp'. apply Hlf. now right.
      * apply (cr_only_suffix (p ++ [LFb])). rewrite <- app_assoc. exact Hcr.
Qed.
Lemma lines_no_cr s l : cr_only_before_lf s -> In l (lines s) -> ~ In CRb l.
Proof.
  intros Hcr. unfold lines. apply lines_of_pieces_no_cr.
  - intros p. apply split_on_no_sep.
  - now rewrite join_split_on.
Qed.
