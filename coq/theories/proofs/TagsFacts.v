(* TagsFacts.v — theorems about the tag store (C14, C12, C18).
   Statements fixed before the proofs were written; nothing is admitted. *)
Require Import Txtpp.Str Txtpp.Tags Txtpp.proofs.StrFacts.
From Coq Require Import Lia Permutation.

(* pairwise prefix-free keys (which also makes them pairwise distinct; the empty key is a prefix of everything) *)
Inductive prefix_free : list (str * str) -> Prop :=
| pf_nil : prefix_free []
| pf_cons k v r : (forall k' v', In (k', v') r -> prefix_related k' k = false) -> prefix_free r -> prefix_free ((k, v) :: r).

(* the states a TagState can be in: reachable from TagState::new by create / try_store / inject_tags *)
Inductive reachable : tags -> Prop :=
| r_new : reachable tags_new
| r_create t n t' : reachable t -> create t n = Some t' -> reachable t'
| r_store t c t' : reachable t -> try_store t c = Some t' -> reachable t'
| r_inject t l le o t' : reachable t -> inject t l le = Some (o, t') -> reachable t'.

Definition tags_inv (t : tags) : Prop :=
  prefix_free (stored t) /\
  match listening t with
  | Some n => forall k v, In (k, v) (stored t) -> prefix_related k n = false
  | None => True
  end.


(* ------------------------------------------------------------------ *)
(* helper lemmas                                                      *)
(* ------------------------------------------------------------------ *)
Section Helpers.
Local Open Scope nat_scope.

Lemma prefix_related_sym a b : prefix_related a b = prefix_related b a.
Proof. unfold prefix_related. apply orb_comm. Qed.

Lemma prefix_related_refl a : prefix_related a a = true.
Proof.
  unfold prefix_related.
  assert (starts_with a a = true) as E.
  { apply starts_with_iff. exists []. now rewrite app_nil_r. }
  rewrite E. reflexivity.
Qed.

Lemma prefix_related_nil k : prefix_related [] k = true.
Proof. destruct k; reflexivity. Qed.

Lemma prefix_related_iff a b :
  prefix_related a b = true <-> (exists r, b = a ++ r) \/ (exists r, a = b ++ r).
Proof.
  unfold prefix_related. rewrite orb_true_iff, !starts_with_iff. tauto.
Qed.

Lemma In_store_remove k l k' v' :
  In (k', v') (store_remove k l) <-> In (k', v') l /\ k' <> k.
Proof.
  induction l as [|[k0 v0] r IH]; simpl.
  - tauto.
  - destruct (str_eqb k k0) eqn:E.
    + apply str_eqb_eq in E. subst k0. rewrite IH. split.
      * intros [H1 H2]. auto.
      * intros [[H1|H1] H2]; auto. inversion H1. congruence.
    + assert (k <> k0) as Hne.
      { intros ->. rewrite str_eqb_refl in E. discriminate. }
      simpl. rewrite IH. split.
      * intros [H1|[H1 H2]]; auto. inversion H1; subst. split; auto.
      * intros [[H1|H1] H2]; auto.
Qed.

Lemma prefix_free_remove k l : prefix_free l -> prefix_free (store_remove k l).
Proof.
  induction 1 as [|k0 v0 r Hk Hr IH]; simpl.
  - constructor.
  - destruct (str_eqb k k0); auto.
    constructor; auto.
    intros k' v' Hin. apply In_store_remove in Hin. destruct Hin as [Hin _].
    eapply Hk; eauto.
Qed.

Lemma prefix_free_fold rem : forall l,
  prefix_free l -> prefix_free (fold_left (fun s k => store_remove k s) rem l).
Proof.
  induction rem as [|k rem IH]; intros l H; simpl; auto.
  apply IH. apply prefix_free_remove. exact H.
Qed.

Lemma In_fold_remove rem : forall l kv,
  In kv (fold_left (fun s k => store_remove k s) rem l) -> In kv l.
Proof.
  induction rem as [|k rem IH]; intros l kv H; simpl in H; auto.
  apply IH in H. destruct kv as [k' v']. apply In_store_remove in H. tauto.
Qed.

Lemma inject_form t l le o t' :
  inject t l le = Some (o, t') ->
  exists removed, t' = mkTags (listening t)
                         (fold_left (fun s k => store_remove k s) removed (stored t)).
Proof.
  unfold inject. cbv zeta.
  destruct (ends_with_lf l); [discriminate|].
  destruct (inject_loop le l (stable_sort_occ (occurrences (stored t) l)) 0 [] [])
    as [[[out le'] rem]|]; [|discriminate].
  destruct (Nat.leb le' (length l)); [|discriminate].
  intros H. inversion H. eauto.
Qed.

Lemma pf_pair st : prefix_free st -> forall k1 v1 k2 v2,
  In (k1, v1) st -> In (k2, v2) st -> prefix_related k1 k2 = true -> (k1, v1) = (k2, v2).
Proof.
  induction 1 as [|k v r Hk Hr IH]; intros k1 v1 k2 v2 H1 H2 P.
  - destruct H1.
  - destruct H1 as [H1|H1]; destruct H2 as [H2|H2].
    + congruence.
    + inversion H1; subst. rewrite prefix_related_sym in P.
      rewrite (Hk k2 v2 H2) in P. discriminate.
    + inversion H2; subst. rewrite (Hk k1 v1 H1) in P. discriminate.
    + eapply IH; eauto.
Qed.

Lemma pf_key_unique st k v v' :
  prefix_free st -> In (k, v) st -> In (k, v') st -> v = v'.
Proof.
  intros Hpf H1 H2.
  pose proof (pf_pair st Hpf k v k v' H1 H2 (prefix_related_refl k)) as E.
  congruence.
Qed.

Lemma prefix_free_perm s1 s2 : Permutation s1 s2 -> prefix_free s1 -> prefix_free s2.
Proof.
  induction 1 as [| [k v] l l' HP IH | [k1 v1] [k2 v2] l | l l' l'' HP1 IH1 HP2 IH2]; intros Hpf.
  - constructor.
  - inversion Hpf as [|k0 v0 r0 Hk Hr]; subst. constructor; auto.
    intros k' v' Hin. apply (Hk k' v').
    eapply Permutation_in; [apply Permutation_sym; exact HP | exact Hin].
  - inversion Hpf as [|k0 v0 r0 Hk Hr]; subst.
    inversion Hr as [|k0 v0 r0 Hk' Hr']; subst.
    constructor.
    + intros k' v' [E|Hin].
      * inversion E; subst. rewrite prefix_related_sym. apply (Hk k1 v1). left. reflexivity.
      * apply (Hk' k' v' Hin).
    + constructor; auto. intros k' v' Hin. apply (Hk k' v'). right. exact Hin.
  - auto.
Qed.

Lemma store_remove_perm k s1 s2 :
  Permutation s1 s2 -> Permutation (store_remove k s1) (store_remove k s2).
Proof.
  induction 1 as [| [k0 v0] l l' HP IH | [k1 v1] [k2 v2] l | l l' l'' HP1 IH1 HP2 IH2]; simpl.
  - constructor.
  - destruct (str_eqb k k0); auto.
  - destruct (str_eqb k k1); destruct (str_eqb k k2); auto. apply perm_swap.
  - eapply Permutation_trans; eauto.
Qed.

Lemma fold_remove_perm rem : forall s1 s2,
  Permutation s1 s2 ->
  Permutation (fold_left (fun s k => store_remove k s) rem s1)
              (fold_left (fun s k => store_remove k s) rem s2).
Proof.
  induction rem as [|k rem IH]; intros s1 s2 HP; simpl; auto.
  apply IH. apply store_remove_perm. exact HP.
Qed.

(* ---- occurrences ---- *)
Lemma In_occurrences st line i k v :
  In (i, (k, v)) (occurrences st line) <-> In (k, v) st /\ find_sub k line = Some i.
Proof.
  induction st as [|[k0 v0] r IH]; simpl.
  - tauto.
  - destruct (find_sub k0 line) as [i0|] eqn:F; simpl; rewrite IH.
    + split.
      * intros [H|[H1 H2]]; auto. inversion H; subst. auto.
      * intros [[H|H] H2]; auto. inversion H; subst. left. congruence.
    + split.
      * intros [H1 H2]; auto.
      * intros [[H|H] H2]; auto. inversion H; subst. congruence.
Qed.

Lemma occurrences_none st line :
  (forall k v, In (k, v) st -> find_sub k line = None) -> occurrences st line = [].
Proof.
  induction st as [|[k0 v0] r IH]; intros H; simpl; auto.
  rewrite (H k0 v0) by (left; reflexivity). apply IH.
  intros k v Hin. apply (H k v). right. exact Hin.
Qed.

Lemma occ_bound k line i : find_sub k line = Some i -> i + length k <= length line.
Proof.
  intros H. apply find_sub_spec in H. destruct H as [[a [r [E L]]] _].
  subst. rewrite !app_length. lia.
Qed.

Lemma app_eq_len {A} (a : list A) : forall a' x y,
  a ++ x = a' ++ y -> length a = length a' -> a = a' /\ x = y.
Proof.
  induction a as [|c a IH]; intros [|c' a'] x y H L; simpl in *; try discriminate.
  - auto.
  - inversion H; subst. destruct (IH a' x y) as [E1 E2]; auto. subst. auto.
Qed.

Lemma app_prefix_cases {A} (k : list A) : forall k' r r',
  k ++ r = k' ++ r' -> (exists t, k' = k ++ t) \/ (exists t, k = k' ++ t).
Proof.
  induction k as [|c k IH]; intros k' r r' H.
  - left. exists k'. reflexivity.
  - destruct k' as [|c' k'].
    + right. exists (c :: k). reflexivity.
    + simpl in H. inversion H; subst.
      destruct (IH _ _ _ H2) as [[t E]|[t E]]; subst; [left|right]; exists t; reflexivity.
Qed.

Lemma same_index k k' line i :
  find_sub k line = Some i -> find_sub k' line = Some i -> prefix_related k k' = true.
Proof.
  intros H H'. apply find_sub_spec in H. apply find_sub_spec in H'.
  destruct H as [[a [r [E L]]] _]. destruct H' as [[a' [r' [E' L']]] _].
  rewrite E in E'. destruct (app_eq_len a a' _ _ E') as [_ E2]; [congruence|].
  apply prefix_related_iff. eapply app_prefix_cases. exact E2.
Qed.

Lemma occurrences_nodup st line : prefix_free st -> NoDup (map fst (occurrences st line)).
Proof.
  induction 1 as [|k v r Hk Hr IH]; simpl.
  - constructor.
  - destruct (find_sub k line) as [i|] eqn:F; simpl; auto.
    constructor; auto. intros Hin. apply in_map_iff in Hin.
    destruct Hin as [[j [k' v']] [E Hin]]. simpl in E. subst j.
    apply In_occurrences in Hin. destruct Hin as [Hin F'].
    pose proof (Hk k' v' Hin) as P.
    rewrite (same_index k' k line i F' F) in P. discriminate.
Qed.

(* ---- sorting ---- *)
Inductive ssorted : list occ -> Prop :=
| ss_nil : ssorted []
| ss_cons x l : (forall y, In y l -> fst x < fst y) -> ssorted l -> ssorted (x :: l).

Lemma In_insert_occ x l z : In z (insert_occ x l) <-> z = x \/ In z l.
Proof.
  induction l as [|y r IH]; simpl.
  - split; intros [H|H]; auto.
  - destruct (Nat.leb (fst x) (fst y)); simpl.
    + split; intros [H|H]; auto.
    + rewrite IH. split; intros H; tauto.
Qed.

Lemma In_sort_occ l z : In z (sort_occ l) <-> In z l.
Proof.
  induction l as [|x r IH]; simpl.
  - tauto.
  - rewrite In_insert_occ, IH. split; intros [H|H]; auto.
Qed.

Lemma ssorted_insert x l :
  ssorted l -> (forall y, In y l -> fst y <> fst x) -> ssorted (insert_occ x l).
Proof.
  induction 1 as [|y r Hy Hr IH]; intros Hne; simpl.
  - constructor. { intros y []. } constructor.
  - destruct (Nat.leb (fst x) (fst y)) eqn:E.
    + apply Nat.leb_le in E.
      assert (fst x < fst y) as Hlt.
      { assert (fst y <> fst x) by (apply Hne; left; reflexivity). lia. }
      constructor.
      * intros z [Hz|Hz]. { subst. exact Hlt. } specialize (Hy z Hz). lia.
      * constructor; auto.
    + apply Nat.leb_gt in E. constructor.
      * intros z Hz. apply In_insert_occ in Hz. destruct Hz as [Hz|Hz].
        { subst. exact E. } apply Hy. exact Hz.
      * apply IH. intros z Hz. apply Hne. right. exact Hz.
Qed.

Lemma ssorted_sort_occ l : NoDup (map fst l) -> ssorted (sort_occ l).
Proof.
  induction l as [|x r IH]; simpl; intros H.
  - constructor.
  - inversion H as [|a b Hnin Hnd]; subst.
    apply ssorted_insert; auto.
    intros y Hy E. apply (proj1 (In_sort_occ _ _)) in Hy. apply Hnin. rewrite <- E.
    apply in_map. exact Hy.
Qed.

Lemma ssorted_unique l1 : forall l2,
  ssorted l1 -> ssorted l2 -> (forall x, In x l1 <-> In x l2) -> l1 = l2.
Proof.
  induction l1 as [|x l1 IH]; intros l2 S1 S2 Heq.
  - destruct l2 as [|y l2]; auto.
    exfalso. apply (Heq y). left. reflexivity.
  - destruct l2 as [|y l2].
    + exfalso. apply (Heq x). left. reflexivity.
    + inversion S1 as [|? ? Hx S1']; subst. inversion S2 as [|? ? Hy S2']; subst.
      assert (x = y) as Exy.
      { assert (In x (y :: l2)) as H1 by (apply Heq; left; reflexivity).
        assert (In y (x :: l1)) as H2 by (apply Heq; left; reflexivity).
        destruct H1 as [H1|H1]; auto. destruct H2 as [H2|H2]; auto.
        specialize (Hx y H2). specialize (Hy x H1). lia. }
      subst y. f_equal. apply IH; auto.
      intros z. split; intros Hz.
      * assert (In z (x :: l2)) as H1 by (apply Heq; right; exact Hz).
        destruct H1 as [H1|H1]; auto. subst z. specialize (Hx x Hz). lia.
      * assert (In z (x :: l1)) as H1 by (apply Heq; right; exact Hz).
        destruct H1 as [H1|H1]; auto. subst z. specialize (Hy x Hz). lia.
Qed.

Lemma sorted_occ_char st line L :
  prefix_free st -> ssorted L -> (forall x, In x L <-> In x (occurrences st line)) ->
  sort_occ (occurrences st line) = L.
Proof.
  intros Hpf HS Heq. apply ssorted_unique; auto.
  - apply ssorted_sort_occ. apply occurrences_nodup. exact Hpf.
  - intros x. rewrite In_sort_occ. symmetry. apply Heq.
Qed.

Lemma one_sorted st line k v i :
  prefix_free st -> In (k, v) st -> find_sub k line = Some i ->
  (forall k' v', In (k', v') st -> k' <> k -> find_sub k' line = None) ->
  sort_occ (occurrences st line) = [(i, (k, v))].
Proof.
  intros Hpf Hin F Hoth. apply sorted_occ_char; auto.
  - constructor. { intros y []. } constructor.
  - intros [j [k' v']]. rewrite In_occurrences. split.
    + intros [H|[]]. inversion H; subst. auto.
    + intros [Hin' F']. left.
      destruct (str_eqb k' k) eqn:E.
      * apply str_eqb_eq in E. subst k'.
        rewrite (pf_key_unique st k v v' Hpf Hin Hin'). congruence.
      * assert (k' <> k) as Hne.
        { intros ->. rewrite str_eqb_refl in E. discriminate. }
        rewrite (Hoth k' v' Hin' Hne) in F'. discriminate.
Qed.

Lemma two_sorted st line k1 v1 k2 v2 i1 i2 :
  prefix_free st -> In (k1, v1) st -> In (k2, v2) st ->
  find_sub k1 line = Some i1 -> find_sub k2 line = Some i2 -> i1 < i2 ->
  (forall k' v', In (k', v') st -> k' <> k1 -> k' <> k2 -> find_sub k' line = None) ->
  sort_occ (occurrences st line) = [(i1, (k1, v1)); (i2, (k2, v2))].
Proof.
  intros Hpf Hin1 Hin2 F1 F2 Hlt Hoth. apply sorted_occ_char; auto.
  - constructor.
    + intros y [Hy|[]]. subst y. exact Hlt.
    + constructor. { intros y []. } constructor.
  - intros [j [k' v']]. rewrite In_occurrences. split.
    + intros [H|[H|[]]]; inversion H; subst; auto.
    + intros [Hin' F'].
      destruct (str_eqb k' k1) eqn:E1.
      * apply str_eqb_eq in E1. subst k'. left.
        rewrite (pf_key_unique st k1 v1 v' Hpf Hin1 Hin'). congruence.
      * destruct (str_eqb k' k2) eqn:E2.
        { apply str_eqb_eq in E2. subst k'. right. left.
          rewrite (pf_key_unique st k2 v2 v' Hpf Hin2 Hin'). congruence. }
        assert (k' <> k1) as Hne1.
        { intros ->. rewrite str_eqb_refl in E1. discriminate. }
        assert (k' <> k2) as Hne2.
        { intros ->. rewrite str_eqb_refl in E2. discriminate. }
        rewrite (Hoth k' v' Hin' Hne1 Hne2) in F'. discriminate.
Qed.

(* ---- the loop ---- *)
Lemma inject_loop_cons_take le line i k v r last_end out removed :
  last_end <= i -> i <= length line ->
  inject_loop le line ((i, (k, v)) :: r) last_end out removed =
  inject_loop le line r (i + length k)
    (out ++ firstn (i - last_end) (skipn last_end line) ++ replace_line_ending v le false)
    (removed ++ [k]).
Proof.
  intros H1 H2. cbn [inject_loop].
  rewrite (proj2 (Nat.ltb_ge i last_end) H1), (proj2 (Nat.leb_le i (length line)) H2).
  reflexivity.
Qed.

Lemma inject_loop_cons_skip le line i k v r last_end out removed :
  i < last_end ->
  inject_loop le line ((i, (k, v)) :: r) last_end out removed =
  inject_loop le line r last_end out removed.
Proof.
  intros H1. cbn [inject_loop].
  rewrite (proj2 (Nat.ltb_lt i last_end) H1). reflexivity.
Qed.

Lemma inject_loop_ok le line L :
  Forall (fun x : occ => fst x + length (fst (snd x)) <= length line) L ->
  forall last_end out removed, last_end <= length line ->
  exists out' le' rem',
    inject_loop le line L last_end out removed = Some (out', le', rem') /\ le' <= length line.
Proof.
  induction 1 as [|[i [k v]] L Hx HL IH]; intros last_end out removed Hle.
  - simpl. eauto.
  - simpl in Hx. destruct (Nat.ltb i last_end) eqn:E.
    + apply Nat.ltb_lt in E. rewrite inject_loop_cons_skip by exact E. apply IH. exact Hle.
    + apply Nat.ltb_ge in E. rewrite inject_loop_cons_take by lia. apply IH. lia.
Qed.

Lemma firstn_len_app {A} n (a b : list A) : n = length a -> firstn n (a ++ b) = a.
Proof.
  intros ->. induction a as [|c a IH]; simpl; [destruct b; reflexivity | congruence].
Qed.

Lemma skipn_len_app {A} n (a b : list A) : n = length a -> skipn n (a ++ b) = b.
Proof.
  intros ->. induction a as [|c a IH]; simpl; auto.
Qed.

(* ---- line endings ---- *)
Inductive crlf_good : str -> Prop :=
| cg_nil : crlf_good []
| cg_char c r : c <> CRb -> c <> LFb -> crlf_good r -> crlf_good (c :: r)
| cg_crlf r : crlf_good r -> crlf_good (CRb :: LFb :: r).

Lemma LF_ne_CR : LFb <> CRb.
Proof. unfold LFb, CRb. discriminate. Qed.

Lemma cg_app a b : crlf_good a -> crlf_good b -> crlf_good (a ++ b).
Proof.
  induction 1 as [|c r Hc1 Hc2 Hr IH|r Hr IH]; intros Hb; simpl.
  - exact Hb.
  - apply cg_char; auto.
  - apply cg_crlf; auto.
Qed.

Lemma cg_plain s : ~ In CRb s -> ~ In LFb s -> crlf_good s.
Proof.
  induction s as [|c s IH]; simpl; intros H1 H2.
  - constructor.
  - constructor.
    + intros E. apply H1. left. exact E.
    + intros E. apply H2. left. exact E.
    + apply IH; tauto.
Qed.

Lemma cg_join ls :
  (forall x, In x ls -> crlf_good x) -> crlf_good (join [CRb; LFb] ls).
Proof.
  induction ls as [|x r IH]; intros H.
  - constructor.
  - destruct r as [|y r'].
    + simpl. apply H. left. reflexivity.
    + change (join [CRb; LFb] (x :: y :: r'))
        with (x ++ [CRb; LFb] ++ join [CRb; LFb] (y :: r')).
      apply cg_app.
      * apply H. left. reflexivity.
      * simpl app. apply cg_crlf. apply IH. intros z Hz. apply H. right. exact Hz.
Qed.

Lemma cg_lf s : crlf_good s ->
  forall a r, s = a ++ LFb :: r -> exists a', a = a' ++ [CRb].
Proof.
  induction 1 as [|c s Hc1 Hc2 Hs IH|s Hs IH]; intros a r E.
  - destruct a; discriminate E.
  - destruct a as [|x a]; simpl in E; injection E as E1 E2.
    + contradiction.
    + destruct (IH a r E2) as [a' Ea]. subst a. exists (x :: a'). reflexivity.
  - destruct a as [|x a]; simpl in E; injection E as E1 E2.
    + exfalso. discriminate E1.
    + destruct a as [|y a]; simpl in E2.
      * exists []. subst x. reflexivity.
      * injection E2 as E3 E4.
        destruct (IH a r E4) as [a' Ea]. subst a x y. exists (CRb :: LFb :: a'). reflexivity.
Qed.

Lemma cg_cr s : crlf_good s ->
  forall a r, s = a ++ CRb :: r -> exists r', r = LFb :: r'.
Proof.
  induction 1 as [|c s Hc1 Hc2 Hs IH|s Hs IH]; intros a r E.
  - destruct a; discriminate E.
  - destruct a as [|x a]; simpl in E; injection E as E1 E2.
    + contradiction.
    + eapply IH. exact E2.
  - destruct a as [|x a]; simpl in E.
    + injection E as E2. eexists. symmetry. exact E2.
    + injection E as E1 E2. destruct a as [|y a]; simpl in E2.
      * exfalso. discriminate E2.
      * injection E2 as E3 E4. eapply IH. exact E4.
Qed.

Lemma In_join c sep ls :
  In c (join sep ls) -> In c sep \/ exists x, In x ls /\ In c x.
Proof.
  induction ls as [|x r IH]; intros H.
  - destruct H.
  - destruct r as [|y r'].
    + simpl in H. right. exists x. split; auto. left. reflexivity.
    + change (join sep (x :: y :: r')) with (x ++ sep ++ join sep (y :: r')) in H.
      apply in_app_or in H. destruct H as [H|H].
      * right. exists x. split; auto. left. reflexivity.
      * apply in_app_or in H. destruct H as [H|H]; auto.
        destruct (IH H) as [H'|[z [Hz1 Hz2]]]; auto.
        right. exists z. split; auto. right. exact Hz1.
Qed.

End Helpers.

(* stored names are pairwise prefix-free in every reachable state, and a listening name is
   prefix-unrelated to all of them (so storing it keeps the invariant) *)
Theorem prefix_free_invariant t : reachable t -> tags_inv t.
Proof.
  induction 1 as [|t n t' Hr IH Hc|t c t' Hr IH Hs|t l le o t' Hr IH Hi].
  - split; simpl; [constructor | exact I].
  - unfold create in Hc. destruct (listening t) eqn:L; [discriminate|].
    destruct (existsb (fun kv => prefix_related (fst kv) n) (stored t)) eqn:E; [discriminate|].
    inversion Hc; subst t'. destruct IH as [Hpf _]. split; simpl; auto.
    intros k v Hin. destruct (prefix_related k n) eqn:P; auto.
    exfalso. assert (existsb (fun kv => prefix_related (fst kv) n) (stored t) = true) as E'.
    { apply existsb_exists. exists (k, v). split; auto. }
    congruence.
  - unfold try_store in Hs. destruct (listening t) as [tag|] eqn:L; [|discriminate].
    inversion Hs; subst t'. destruct IH as [Hpf Hl]. rewrite L in Hl.
    split; simpl; auto. unfold store_put. constructor.
    + intros k' v' Hin. apply In_store_remove in Hin. destruct Hin as [Hin _].
      eapply Hl; eauto.
    + apply prefix_free_remove. exact Hpf.
  - destruct (inject_form _ _ _ _ _ Hi) as [rem ->]. destruct IH as [Hpf Hl].
    split; simpl.
    + apply prefix_free_fold. exact Hpf.
    + destruct (listening t) as [n|]; auto.
      intros k v Hin. apply In_fold_remove in Hin. eapply Hl; eauto.
Qed.

(* create fails exactly when a tag is listening, or the name equals / prefixes / is prefixed by a stored name *)
Theorem create_errors_iff t n :
  create t n = None <->
  listening t <> None \/
  exists k v, In (k, v) (stored t) /\ ((exists r, n = k ++ r) \/ (exists r, k = n ++ r)).
Proof.
  unfold create. split.
  - destruct (listening t) as [n0|] eqn:L.
    + intros _. left. discriminate.
    + destruct (existsb (fun kv => prefix_related (fst kv) n) (stored t)) eqn:E; [|discriminate].
      intros _. right. apply existsb_exists in E. destruct E as [[k v] [Hin P]].
      simpl in P. apply prefix_related_iff in P. exists k, v. split; auto.
  - intros [H|[k [v [Hin P]]]].
    + destruct (listening t); [reflexivity | congruence].
    + destruct (listening t); [reflexivity|].
      assert (existsb (fun kv => prefix_related (fst kv) n) (stored t) = true) as E.
      { apply existsb_exists. exists (k, v). split; auto. simpl.
        apply prefix_related_iff. exact P. }
      rewrite E. reflexivity.
Qed.
Theorem create_ok_effect t n t' : create t n = Some t' -> listening t' = Some n /\ stored t' = stored t.
Proof.
  unfold create. destruct (listening t); [discriminate|].
  destruct (existsb (fun kv => prefix_related (fst kv) n) (stored t)); [discriminate|].
  intros H. inversion H. simpl. auto.
Qed.
(* try_store succeeds exactly when a tag is listening, stores under that name and stops listening *)
Theorem try_store_iff t c :
  (try_store t c = None <-> listening t = None) /\
  (forall t', try_store t c = Some t' ->
     exists n, listening t = Some n /\ listening t' = None /\ In (n, c) (stored t')).
Proof.
  unfold try_store. split.
  - destruct (listening t); split; intros H; try discriminate; reflexivity.
  - intros t' H. destruct (listening t) as [n|]; [|discriminate].
    inversion H. exists n. simpl. repeat split. unfold store_put. left. reflexivity.
Qed.

(* inject never panics on a line without a final LF: the slices are in range (tag_state.rs:69-93) *)
Theorem inject_no_panic t l le : ends_with_lf l = false -> inject t l le <> None.
Proof.
  intros H. unfold inject, stable_sort_occ. rewrite H. cbv zeta.
  destruct (inject_loop_ok le l (sort_occ (occurrences (stored t) l))) with
    (last_end := 0%nat) (out := @nil byte) (removed := @nil str)
    as (out' & le' & rem' & E & B).
  - apply Forall_forall. intros [i [k v]] Hin. apply (proj1 (In_sort_occ _ _)) in Hin.
    apply In_occurrences in Hin. destruct Hin as [_ F]. simpl. apply occ_bound. exact F.
  - lia.
  - rewrite E. apply Nat.leb_le in B. rewrite B. discriminate.
Qed.

(* determinism: the result does not depend on the iteration order of the hash map *)
Theorem inject_perm_invariant lst s1 s2 l le o t1 :
  prefix_free s1 -> Permutation s1 s2 ->
  inject (mkTags lst s1) l le = Some (o, t1) ->
  exists t2, inject (mkTags lst s2) l le = Some (o, t2) /\
             listening t2 = listening t1 /\ Permutation (stored t1) (stored t2).
Proof.
  intros Hpf Hperm H.
  assert (sort_occ (occurrences s1 l) = sort_occ (occurrences s2 l)) as Es.
  { apply sorted_occ_char; auto.
    - apply ssorted_sort_occ. apply occurrences_nodup. eapply prefix_free_perm; eauto.
    - intros [i [k v]]. rewrite In_sort_occ, !In_occurrences. split; intros [Hin F]; split; auto.
      + eapply Permutation_in; [apply Permutation_sym; exact Hperm | exact Hin].
      + eapply Permutation_in; [exact Hperm | exact Hin]. }
  unfold inject, stable_sort_occ in *. cbv zeta in *. cbn [stored listening] in *.
  rewrite <- Es.
  destruct (ends_with_lf l); [discriminate|].
  destruct (inject_loop le l (sort_occ (occurrences s1 l)) 0 [] [])
    as [[[out le'] rem]|]; [|discriminate].
  destruct (Nat.leb le' (length l)); [|discriminate].
  inversion H; subst. eexists. split; [reflexivity|]. split; [reflexivity|].
  cbn [stored]. apply fold_remove_perm. exact Hperm.
Qed.

(* a line in which no stored tag occurs is unchanged and the store is untouched *)
Theorem inject_no_occurrence t l le :
  ends_with_lf l = false ->
  (forall k v, In (k, v) (stored t) -> find_sub k l = None) ->
  inject t l le = Some (l, t).
Proof.
  intros H Hn. unfold inject, stable_sort_occ. rewrite H. cbv zeta.
  rewrite (occurrences_none _ _ Hn). simpl. destruct t. reflexivity.
Qed.
Theorem inject_empty_store lst l le : ends_with_lf l = false -> inject (mkTags lst []) l le = Some (l, mkTags lst []).
Proof.
  intros H. unfold inject. rewrite H. reflexivity.
Qed.

(* exactly one stored tag occurs: its FIRST occurrence is replaced by its content with line endings
   normalised (nothing else added), later occurrences are left alone, and the tag is deleted *)
Theorem inject_single t l le k v a r :
  prefix_free (stored t) ->
  ends_with_lf l = false ->
  In (k, v) (stored t) ->
  l = a ++ k ++ r -> (forall j, (j < length a)%nat -> ~ occurs_at k l j) ->
  (forall k' v', In (k', v') (stored t) -> k' <> k -> find_sub k' l = None) ->
  exists t', inject t l le = Some (a ++ replace_line_ending v le false ++ r, t') /\
             listening t' = listening t /\
             (forall k' v', In (k', v') (stored t') <-> (In (k', v') (stored t) /\ k' <> k)).
Proof.
  intros Hpf Hlf Hin El Hfirst Hoth.
  assert (find_sub k l = Some (length a)) as F.
  { apply find_sub_spec. split; auto. exists a, r. split; auto. }
  pose proof (occ_bound _ _ _ F) as B.
  unfold inject, stable_sort_occ. rewrite Hlf. cbv zeta.
  rewrite (one_sorted _ _ _ _ _ Hpf Hin F Hoth).
  rewrite inject_loop_cons_take by lia. cbn [inject_loop].
  rewrite (proj2 (Nat.leb_le _ _) B).
  eexists. split; [|split].
  - apply f_equal. apply f_equal2; [|reflexivity].
    rewrite Nat.sub_0_r. change (skipn 0 l) with l. cbn [app]. subst l.
    rewrite firstn_len_app by reflexivity.
    rewrite (app_assoc a k r).
    rewrite skipn_len_app by (rewrite app_length; reflexivity).
    rewrite <- app_assoc. reflexivity.
  - reflexivity.
  - intros k' v'. cbn [stored app fold_left]. apply In_store_remove.
Qed.

(* what inject removes are exactly the substituted tags, and it only ever removes *)
Theorem inject_store_shrinks t l le o t' :
  inject t l le = Some (o, t') ->
  listening t' = listening t /\ forall kv, In kv (stored t') -> In kv (stored t).
Proof.
  intros H. destruct (inject_form _ _ _ _ _ H) as [rem ->]. simpl. split; auto.
  intros kv Hin. eapply In_fold_remove. exact Hin.
Qed.

(* two tags on one line, non-overlapping first occurrences: both are substituted, left to right *)
Theorem inject_two t l le k1 v1 k2 v2 a m r :
  prefix_free (stored t) -> ends_with_lf l = false ->
  In (k1, v1) (stored t) -> In (k2, v2) (stored t) -> k1 <> k2 ->
  l = a ++ k1 ++ m ++ k2 ++ r ->
  find_sub k1 l = Some (length a) -> find_sub k2 l = Some (length a + length k1 + length m)%nat ->
  (forall k' v', In (k', v') (stored t) -> k' <> k1 -> k' <> k2 -> find_sub k' l = None) ->
  exists t', inject t l le =
    Some (a ++ replace_line_ending v1 le false ++ m ++ replace_line_ending v2 le false ++ r, t').
Proof.
  intros Hpf Hlf Hin1 Hin2 Hne El F1 F2 Hoth.
  assert (length k1 > 0)%nat as Hk1.
  { destruct k1 as [|c k1]; [|simpl; lia]. exfalso. apply Hne.
    pose proof (pf_pair _ Hpf _ _ _ _ Hin1 Hin2 (prefix_related_nil k2)) as E. congruence. }
  pose proof (occ_bound _ _ _ F1) as B1. pose proof (occ_bound _ _ _ F2) as B2.
  unfold inject, stable_sort_occ. rewrite Hlf. cbv zeta.
  rewrite (two_sorted _ _ _ _ _ _ _ _ Hpf Hin1 Hin2 F1 F2) by (auto; lia).
  rewrite inject_loop_cons_take by lia.
  rewrite inject_loop_cons_take by lia.
  cbn [inject_loop].
  rewrite (proj2 (Nat.leb_le _ _) B2).
  eexists. apply f_equal. apply f_equal2; [|reflexivity].
  rewrite Nat.sub_0_r. change (skipn 0 l) with l. cbn [app].
  replace (length a + length k1 + length m - (length a + length k1))%nat
    with (length m) by lia.
  assert (skipn (length a + length k1) l = m ++ k2 ++ r) as E1.
  { subst l. rewrite (app_assoc a k1). apply skipn_len_app.
    rewrite app_length. reflexivity. }
  assert (skipn (length a + length k1 + length m + length k2) l = r) as E2.
  { subst l.
    replace (a ++ k1 ++ m ++ k2 ++ r) with ((a ++ k1 ++ m ++ k2) ++ r)
      by (rewrite <- !app_assoc; reflexivity).
    apply skipn_len_app. rewrite !app_length. lia. }
  rewrite E1, E2. rewrite (firstn_len_app (length m)) by reflexivity.
  rewrite El at 1. rewrite firstn_len_app by reflexivity.
  rewrite <- !app_assoc. reflexivity.
Qed.
(* an occurrence overlapped by an earlier substitution is left alone (and its tag stays stored) *)
Theorem inject_overlap t l le k1 v1 k2 v2 i1 i2 :
  prefix_free (stored t) -> ends_with_lf l = false ->
  In (k1, v1) (stored t) -> In (k2, v2) (stored t) ->
  find_sub k1 l = Some i1 -> find_sub k2 l = Some i2 ->
  (i1 < i2)%nat -> (i2 < i1 + length k1)%nat ->
  (forall k' v', In (k', v') (stored t) -> k' <> k1 -> k' <> k2 -> find_sub k' l = None) ->
  exists t', inject t l le =
    Some (firstn i1 l ++ replace_line_ending v1 le false ++ skipn (i1 + length k1)%nat l, t') /\ In (k2, v2) (stored t').
Proof.
  intros Hpf Hlf Hin1 Hin2 F1 F2 Hlt Hov Hoth.
  pose proof (occ_bound _ _ _ F1) as B1.
  assert (k2 <> k1) as Hne.
  { intros ->. rewrite F1 in F2. inversion F2. lia. }
  unfold inject, stable_sort_occ. rewrite Hlf. cbv zeta.
  rewrite (two_sorted _ _ _ _ _ _ _ _ Hpf Hin1 Hin2 F1 F2 Hlt Hoth).
  rewrite inject_loop_cons_take by lia.
  rewrite inject_loop_cons_skip by lia.
  cbn [inject_loop].
  rewrite (proj2 (Nat.leb_le _ _) B1).
  eexists. split.
  - apply f_equal. apply f_equal2; [|reflexivity].
    rewrite Nat.sub_0_r. change (skipn 0 l) with l. cbn [app].
    rewrite <- app_assoc. reflexivity.
  - cbn [stored app fold_left]. apply In_store_remove. auto.
Qed.

(* ---- line endings (C12) ---- *)
(* no CR in s; or: every LF preceded by CR and every CR followed by LF *)
Definition le_uniform (le s : str) : Prop :=
  if str_eqb le [LFb] then ~ In CRb s
  else (forall a r, s = a ++ LFb :: r -> exists a', a = a' ++ [CRb]) /\
       (forall a r, s = a ++ CRb :: r -> exists r', r = LFb :: r').
Theorem replace_line_ending_uniform s le force :
  (le = [LFb] \/ le = [CRb; LFb]) -> cr_only_before_lf s ->
  le_uniform le (replace_line_ending s le force).
Proof.
  intros [Hle|Hle] Hcr; subst le; unfold le_uniform, replace_line_ending.
  - assert (str_eqb [LFb] [LFb] = true) as E by reflexivity. rewrite E.
    intros Hin. apply in_app_or in Hin. destruct Hin as [Hin|Hin].
    + apply In_join in Hin. destruct Hin as [Hin|[x [Hx Hin]]].
      * destruct Hin as [Hin|[]]. revert Hin. apply LF_ne_CR.
      * revert Hin. eapply lines_no_cr; eauto.
    + destruct (force || ends_with_lf s).
      * destruct Hin as [Hin|[]]. revert Hin. apply LF_ne_CR.
      * destruct Hin.
  - assert (str_eqb [CRb; LFb] [LFb] = false) as E by reflexivity. rewrite E.
    assert (crlf_good (join [CRb; LFb] (lines s) ++
                       (if force || ends_with_lf s then [CRb; LFb] else []))) as G.
    { apply cg_app.
      - apply cg_join. intros x Hx. apply cg_plain.
        + eapply lines_no_cr; eauto.
        + eapply lines_no_lf; eauto.
      - destruct (force || ends_with_lf s); [apply cg_crlf|]; apply cg_nil. }
    split.
    + apply cg_lf. exact G.
    + apply cg_cr. exact G.
Qed.
