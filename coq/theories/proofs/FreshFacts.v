(* FreshFacts.v — whole-run statements of C02 (an include sees the complete, fresh output of its dependency) and of C06
   (verify passes exactly when the outputs are up to date: the converse of VerifyRunFacts1.verify_ok_means_all_fresh).
   Everything below is proved (nothing assumed); `Print Assumptions` of the deliverables is closed.

   PART 1  Y1 `build_result_is_all_fresh`: after a successful Build run every processed source's output holds exactly the
           text a pass over the FINAL tree produces.
   PART 2  the Verify run seen from its initial tree (`JY`): frame invariant of any Verify run; its set of seen files is
           closed and least; its dependency relation is well founded on the finished files.
   PART 3  Y2 `all_fresh_verify_ok` (<=), `verify_ok_all_reached_fresh` (=>), `verify_iff_all_fresh`.
   PART 4  non-vacuity, and the counterexample `all_fresh_but_cyclic` (why acyclicity is part of the right-hand side). *)
Require Import Txtpp.Str Txtpp.Consts Txtpp.Grammar Txtpp.Tags Txtpp.Path Txtpp.Fs Txtpp.Sink Txtpp.Pp Txtpp.Spec.
Require Import Txtpp.Dep Txtpp.Coord Txtpp.Run.
Require Import Txtpp.proofs.StrFacts Txtpp.proofs.SinkFacts Txtpp.proofs.PathFacts Txtpp.proofs.PpFacts Txtpp.proofs.EventFacts.
Require Import Txtpp.proofs.FrameFacts Txtpp.proofs.ConfluenceFacts Txtpp.proofs.DepFacts Txtpp.proofs.CoordFacts Txtpp.proofs.RunFacts.
Require Import Txtpp.proofs.ScheduleFacts Txtpp.proofs.RunEventsFacts Txtpp.proofs.ScheduleTempFacts Txtpp.proofs.CleanVerifyFacts.
Require Import Txtpp.proofs.IdemFacts Txtpp.proofs.VerifyRunFacts1 Txtpp.proofs.VerifyRunFacts2.
From Coq Require Import Lia Permutation.

Local Open Scope bool_scope.

(* ===================================================================================================================
   PART 1 — Y1 (C02): the result of a successful build is all fresh
   =================================================================================================================== *)
(* A Build run from w (any schedule, any fuel, any oracle, any inputs) that ends with VOk in w1: for every source f that
   was given a pass, the output of f in w1 holds exactly the fresh text of f evaluated in w1 ITSELF — the text a final
   pass over the final tree produces.  In particular every include of the output of a dependency shows the complete,
   final bytes of that output (whatever the schedule: the output of the dependency was complete when it was read, and
   has not changed since).  Static hypotheses, all on the tree BEFORE the build: those of
   VerifyRunFacts2.verify_after_build_passes without the conditions on the base directory and the inputs. *)
Theorem build_result_is_all_fresh orc cfg fuel sched w :
  cfg_mode cfg = Build ->
  raw_ok w -> legal_names (w_fs w) ->
  sched_ok_temps w -> outputs_unnamed w ->
  let x := txtpp_run orc cfg fuel sched w in
  verdict_of x = VOk ->
  let w1 := world_of x in
  forall f, processed x f ->
  exists out txt,
    remove_txtpp f = Some out /\
    read_file (w_fs w1) out = Some txt /\
    fresh_text orc (run_base cfg w) f (cfg_trailing cfg) w1 out = Some txt.
Proof.
  intros Hmd N WF HS HV x Hv w1 f Hp.
  destruct (ok_run_summary orc cfg fuel sched w Hmd N HS Hv) as (P1 & _). fold x in P1. apply P1 in Hp.
  destruct (VerifyRunFacts2.txtpp_run_ok_unfold orc cfg fuel sched w Hv) as (base & files & dirs & Et & Eb & Ri & Ex).
  subst w1 x. rewrite Ex in *. clear Ex.
  assert (Hbn : Forall (fun c => c <> []) base).
  { apply names_nonempty. apply (exists_names (w_fs w) WF). apply (os_walk_exists _ _ _ _ Eb). }
  destruct (resolve_inputs_good (w_fs w) N base (cfg_inputs cfg) [] [] files dirs Hbn (Forall_nil _) (Forall_nil _) Ri)
    as [Gf Gd].
  destruct (build_run_facts orc cfg base Hmd w HS N WF files dirs Gf Gd fuel sched Hv)
    as (A1 & _ & Hsrc & HFP & _).
  set (x1 := run_loop orc cfg base fuel sched (gs (ginit files dirs)) w []) in *.
  set (W1 := world_of x1) in *.
  destruct (Hsrc f Hp) as [out Hs]. pose proof Hs as [Ho _].
  destruct (HFP f out Hp Hs) as (w'' & E & Eq).
  assert (Ebf : pp_run orc Build base f false (cfg_trailing cfg) W1 = PpOk w'').
  { destruct (lastflag w f); [apply first_ok_is_final; [discriminate|exact E]|exact E]. }
  pose proof (side_in w HS HV W1 f out Hs A1 (build_ok_write_target _ _ _ _ _ _ _ _ Ebf Ho)) as Hside.
  destruct (build_ok_has_fresh_text orc base f (cfg_trailing cfg) W1 out w'' Hside Ebf) as (txt & Hr & Hf).
  exists out, txt. split; [exact Ho|]. split.
  - unfold read_file in *. rewrite <- (Eq out (out_in_fp w f out Ho)). exact Hr.
  - unfold run_base. rewrite Eb. exact Hf.
Qed.

(* the same, for the sources described statically (`IdemFacts.reached`: the inputs, the `.txtpp` files of the scanned
   directories, and their dependencies) *)
Corollary build_result_is_all_fresh_reached orc cfg fuel sched w :
  cfg_mode cfg = Build ->
  raw_ok w -> legal_names (w_fs w) ->
  sched_ok_temps w -> outputs_unnamed w ->
  let x := txtpp_run orc cfg fuel sched w in
  verdict_of x = VOk ->
  let w1 := world_of x in
  forall f, reached cfg w f ->
  exists out txt,
    remove_txtpp f = Some out /\
    read_file (w_fs w1) out = Some txt /\
    fresh_text orc (run_base cfg w) f (cfg_trailing cfg) w1 out = Some txt.
Proof.
  intros Hmd N WF HS HV x Hv w1 f Hr.
  apply (build_result_is_all_fresh orc cfg fuel sched w Hmd N WF HS HV Hv).
  destruct (ok_run_summary orc cfg fuel sched w Hmd N HS Hv) as (_ & P2 & _). apply P2. exact Hr.
Qed.

(* ===================================================================================================================
   PART 2 — a Verify run seen from its initial tree
   =================================================================================================================== *)
(* the static dependency relation of the tree w: d is a dependency of a *)
Definition dep_rel (w : world) : path -> path -> Prop := fun d a => In d (sdeps w a).

Section VerifyFromTree.
Variable orc : oracle.
Variable cfg : config.
Variable base : path.
Hypothesis Hmd : cfg_mode cfg = Verify.
Variable w : world.              (* the initial tree *)
Hypothesis N : raw_ok w.
Hypothesis WF : legal_names (w_fs w).
Hypothesis HS : sched_ok_temps w.
Variables files dirs : list path.

Let tn := cfg_trailing cfg.
Let T := all_temp_targets w.

Lemma exec_task_vf f b wv :
  exec_task orc cfg base (TPp f b) wv =
  match res_of_tag f (tag_of (pp_run orc Verify base f b tn wv)) with
  | Some r => Some (r, out_world (pp_run orc Verify base f b tn wv) wv)
  | None => None
  end.
Proof. pose proof (exec_task_pp orc cfg base f b wv) as H. cbv zeta in H. rewrite Hmd in H. exact H. Qed.

Lemma own_in_T f out p : In f (src_files (w_fs w)) -> is_source w f out -> In p (own_temps w f) -> In p T.
Proof.
  intros Hf Hs Hp. apply (in_all_temp_targets w f p Hf).
  rewrite (temp_targets_own w HS w f out Hs (agree_refl nt (w_fs w))). exact Hp.
Qed.

(* what a Verify pass does to a world that holds the sources and the directories of w: it changes temp targets only *)
Lemma vpass_world wv h b :
  In h (src_files (w_fs w)) ->
  agree nt (w_fs w) (w_fs wv) -> Scan w wv ->
  (forall p, ~ In p T -> fs_get (w_fs wv) p = fs_get (w_fs w) p) ->
  let w' := out_world (pp_run orc Verify base h b tn wv) wv in
  agree nt (w_fs w) (w_fs w') /\ Scan w w' /\ (forall p, ~ In p T -> fs_get (w_fs w') p = fs_get (w_fs w) p).
Proof.
  intros Hh A HSc HT w'. subst w'.
  destruct (read_file (w_fs wv) h) as [raw|] eqn:Er.
  2:{ rewrite (pp_run_unreadable _ _ _ _ _ _ wv Er). cbn [out_world]. auto. }
  destruct (remove_txtpp h) as [out|] eqn:Ho.
  2:{ rewrite (pp_run_no_out _ _ _ _ _ _ wv Ho). cbn [out_world]. auto. }
  pose proof (source_in_world w wv h out raw A Ho Er) as Hs.
  destruct (HS h out Hs) as (_ & _ & Hto & _).
  assert (Fr : forall p, ~ In p (own_temps w h) ->
            fs_get (w_fs (out_world (pp_run orc Verify base h b tn wv) wv)) p = fs_get (w_fs wv) p).
  { intros p Hp. apply (verify_pass_frame orc cfg base w HS wv h out b p Hs A Hp). }
  split; [|split].
  - apply (agree_trans nt _ (w_fs wv)); [exact A|]. split.
    + intros p Hp. symmetry. apply Fr. intros Hin. apply nt_false in Hp.
      rewrite (Hto p (own_in_fp w h out p Ho Hin)) in Hp. discriminate.
    + intros p. symmetry. apply (pp_run_same_dirs orc Verify base h b tn wv p).
  - destruct HSc as [Nv Sv]. destruct (src_sameT w HS wv h out A Hs) as (_ & _ & Ew & _).
    destruct (pp_run_scan orc Verify base h b tn wv Nv) as [N' S'].
    { change (writes_of Verify wv h) with (writes_of Build wv h). rewrite Ew. exact Hto. }
    split; [exact N'|]. rewrite S'. exact Sv.
  - intros p Hp. rewrite Fr; [apply HT; exact Hp|]. intros Hin. apply Hp. apply (own_in_T h out p Hh Hs Hin).
Qed.

(* what the result of a Verify pass says about the static dependencies of the source *)
Lemma vpass_deps wv h b ds a :
  agree nt (w_fs w) (w_fs wv) ->
  pp_run orc Verify base h b tn wv = PpHasDeps ds a -> b = true /\ ds = sdeps w h /\ ds <> [].
Proof.
  intros A E.
  assert (Hb : b = true).
  { destruct b; [reflexivity|]. exfalso. revert E. apply pp_run_final_no_deps. }
  subst b. split; [reflexivity|].
  destruct (pp_run_deps_readable _ _ _ _ _ _ _ _ _ E) as (raw & out & Erd & Ho).
  pose proof (source_in_world w wv h out raw A Ho Erd) as Hs.
  destruct (sdeps_verify w HS wv h out Hs A) as [Esd Hca].
  destruct (first_pass_reports_exactly orc Verify base h tn wv ds a ltac:(discriminate) Hca E) as (_ & H2 & H3).
  split; [rewrite H2; exact Esd|exact H3].
Qed.

Lemma vpass_first_ok wv h a :
  agree nt (w_fs w) (w_fs wv) ->
  pp_run orc Verify base h true tn wv = PpOk a -> sdeps w h = [].
Proof.
  intros A E.
  destruct (read_file (w_fs wv) h) as [raw|] eqn:Erd.
  2:{ rewrite (pp_run_unreadable _ _ _ _ _ _ wv Erd) in E. discriminate. }
  destruct (remove_txtpp h) as [out|] eqn:Ho.
  2:{ rewrite (pp_run_no_out _ _ _ _ _ _ wv Ho) in E. discriminate. }
  pose proof (source_in_world w wv h out raw A Ho Erd) as Hs.
  destruct (sdeps_verify w HS wv h out Hs A) as [Esd Hca]. rewrite <- Esd.
  apply (first_pass_ok_no_targets orc Verify base h tn wv a ltac:(discriminate) Hca E).
Qed.

(* The invariant of ANY Verify run from w (no assumption on the outputs): the world holds the sources and directories of
   w and differs from w on temp targets only; the reported dependencies are the static ones; the dependency relation is
   well founded below every finished file; every finished file has a pass of the trace that answered POk; the seen
   directories are scanned or have had their entries added; the seen files and directories are within every closed
   pair. *)
Definition JY (g : gstate) (wv : world) (tr : list (task * result)) : Prop :=
  agree nt (w_fs w) (w_fs wv) /\ Scan w wv /\
  (forall p, ~ In p T -> fs_get (w_fs wv) p = fs_get (w_fs w) p) /\
  (forall a ds, In (a, ds) (reported g) -> ds = sdeps w a /\ ds <> []) /\
  (forall f, finished g f -> sdeps w f <> [] -> exists ds, In (f, ds) (reported g)) /\
  (forall f, finished g f -> Acc (dep_rel w) f) /\
  (forall f, finished g f -> exists b, In (TPp f b, RPp f (Some POk)) tr) /\
  C1 cfg w g /\
  Jrun (w_fs w) (gs g) wv /\
  (forall S Dd, closed cfg w files dirs S Dd -> incl (seen (gs g)) S /\ incl (seen_dirs (gs g)) Dd).

Lemma JY_step g wv tr t rest r w' s2 :
  greach files dirs g -> JY g wv tr -> Permutation (inflight (gs g)) (t :: rest) ->
  exec_task orc cfg base t wv = Some (r, w') -> handle (with_inflight (gs g) rest) r = Continue s2 ->
  JY (mkG s2 (report t r (reported g)) (history g ++ [t])) w' (tr ++ [(t, r)]).
Proof.
  intros R (A & HSc & HT & G1 & G2 & G4 & G5 & HC & HJr & HL) HP Hex Hh.
  set (g2 := mkG s2 (report t r (reported g)) (history g ++ [t])).
  assert (Hans := exec_task_answers orc cfg base _ _ _ _ Hex).
  assert (Hstep : gstep g g2) by (apply (gstep_continue g t rest r s2); assumption).
  assert (Ht : In t (inflight (gs g))).
  { eapply Permutation_in; [apply Permutation_sym; exact HP|]. left. reflexivity. }
  destruct (inv_reach _ _ _ R) as [HPi _].
  assert (Hfin2 : forall f, finished g2 f -> finished g f \/ r = RPp f (Some POk)).
  { intros f Hf. unfold finished in *. cbn [g2 gs] in Hf. apply pmem_In in Hf.
    destruct (handle_fin (with_inflight (gs g) rest) r s2 f (i_dm HPi) Hh Hf) as [H|H]; [left; apply pmem_In; exact H|right; exact H]. }
  assert (HJr2 : Jrun (w_fs w) s2 w').
  { apply (Jrun_step (w_fs w) N WF orc cfg base files dirs g wv t rest r w' s2); assumption. }
  (* the world, and what the result adds to the seen sets *)
  assert (Hw : agree nt (w_fs w) (w_fs w') /\ Scan w w' /\
               (forall p, ~ In p T -> fs_get (w_fs w') p = fs_get (w_fs w) p) /\
               (forall S Dd, closed cfg w files dirs S Dd -> incl (res_files r) S /\ incl (res_dirs r) Dd) /\
               (forall a ds, In (a, ds) (report t r (reported g)) -> ds = sdeps w a /\ ds <> [])).
  { destruct t as [d|h b].
    - cbn [exec_task] in Hex. inversion Hex; subst r w'. clear Hex.
      split; [exact A|]. split; [exact HSc|]. split; [exact HT|]. split; [|exact G1].
      intros S Dd Hcl. rewrite (Scan_scan cfg w wv d A HSc).
      destruct (scan_dir (w_fs w) d (cfg_recursive cfg)) as [[fs ds]|] eqn:Es; cbn [res_files res_dirs].
      + pose proof Hcl as (_ & _ & Hscan & _). apply (Hscan d fs ds); [|exact Es].
        apply (proj2 (HL S Dd Hcl)). apply (i_fl_seen HPi (TScan d) Ht).
      + split; intros x [].
    - rewrite exec_task_vf in Hex.
      assert (Hhs : In h (seen (gs g))) by (apply (inflight_seen files dirs g (TPp h b) R Ht)).
      assert (Hg : In h (src_files (w_fs w))) by (apply (proj1 (proj2 HJr) h Hhs)).
      destruct (vpass_world wv h b Hg A HSc HT) as (A' & HSc' & HT').
      destruct (pp_run orc Verify base h b tn wv) as [a|ds a|k a|] eqn:E; cbn in Hex; try discriminate;
        inversion Hex; subst r w'; clear Hex; cbn [out_world] in A', HSc', HT'.
      + split; [exact A'|]. split; [exact HSc'|]. split; [exact HT'|]. split.
        * intros S Dd _. cbn [res_files res_dirs]. split; intros x [].
        * intros a0 ds Hin. apply (G1 a0 ds). destruct b; exact Hin.
      + destruct (vpass_deps wv h b ds a A E) as (-> & Eds & Hne).
        split; [exact A'|]. split; [exact HSc'|]. split; [exact HT'|]. split.
        * intros S Dd Hcl. cbn [res_files res_dirs]. split; [|intros x []].
          rewrite Eds. pose proof Hcl as (_ & _ & _ & Hdeps). apply Hdeps. apply (proj1 (HL S Dd Hcl)). exact Hhs.
        * cbn [report]. intros a0 ds0 [Hin|Hin]; [inversion Hin; subst a0 ds0; split; assumption|apply (G1 a0 ds0 Hin)].
      + exfalso. revert Hh. cbn [handle]. discriminate. }
  destruct Hw as (A' & HSc' & HT' & Hres & G1').
  destruct (handle_seen _ _ _ Hh) as [Hs1 Hs2]. cbn [with_inflight seen seen_dirs] in Hs1, Hs2.
  (* a file that the task finishes *)
  assert (Hnew : forall f, r = RPp f (Some POk) ->
            exists b a, t = TPp f b /\ pp_run orc Verify base f b tn wv = PpOk a).
  { intros f ->. destruct t as [d|h b]; [destruct Hans|]. destruct Hans as [<- _].
    rewrite exec_task_vf in Hex.
    destruct (pp_run orc Verify base f b tn wv) as [a|ds a|k a|] eqn:E; cbn in Hex; try discriminate.
    exists b, a. auto. }
  split; [exact A'|]. split; [exact HSc'|]. split; [exact HT'|]. split; [exact G1'|].
  split; [|split; [|split; [|split; [|split; [exact HJr2|]]]]].
  - (* G2 *)
    intros f Hf Hne. cbn [g2 reported]. destruct (Hfin2 f Hf) as [Hold|Hnw].
    + destruct (G2 f Hold Hne) as [ds Hd]. exists ds. apply report_mono. exact Hd.
    + destruct (Hnew f Hnw) as (b & a & -> & E). destruct b.
      * exfalso. apply Hne. apply (vpass_first_ok wv f a A E).
      * destruct (final_inflight_reported files dirs g f R Ht) as [ds Hd]. exists ds. apply report_mono. exact Hd.
  - (* G4 *)
    intros f Hf. destruct (Hfin2 f Hf) as [Hold|Hnw]; [apply (G4 f Hold)|].
    destruct (Hnew f Hnw) as (b & a & -> & E). constructor. intros q Hq. unfold dep_rel in Hq. destruct b.
    + rewrite (vpass_first_ok wv f a A E) in Hq. destruct Hq.
    + destruct (final_inflight_reported files dirs g f R Ht) as [ds Hd]. destruct (G1 f ds Hd) as [Eds _].
      apply G4. apply (final_pass_deps_finished files dirs g R f q Ht). exists ds. split; [exact Hd|rewrite Eds; exact Hq].
  - (* G5 *)
    intros f Hf. destruct (Hfin2 f Hf) as [Hold|Hnw].
    + destruct (G5 f Hold) as [b Hb]. exists b. apply in_or_app. left. exact Hb.
    + destruct (Hnew f Hnw) as (b & a & -> & E). exists b. apply in_or_app. right. left. rewrite Hnw. reflexivity.
  - (* C1 *)
    assert (Hrest : forall x, In x rest -> In x (inflight s2)).
    { intros x Hx. apply (handle_inflight_mono _ _ _ x Hh). exact Hx. }
    assert (Hsd : forall x, In x (seen_dirs (gs g)) -> In x (seen_dirs s2)).
    { intros x Hx. apply (handle_seen_dirs_mono _ _ _ x Hh). exact Hx. }
    intros d Hd. cbn [g2 gs] in *.
    destruct (pmem d (seen_dirs (gs g))) eqn:Eold.
    + apply pmem_In in Eold. destruct (HC d Eold) as [Hfl|Hcl].
      * assert (Hin : In (TScan d) (t :: rest)) by (eapply Permutation_in; [exact HP|exact Hfl]).
        destruct Hin as [Ht'|Hin]; [|left; apply Hrest; exact Hin].
        subst t. right. intros fs ds Es. cbn [exec_task] in Hex. inversion Hex; subst r w'. clear Hex.
        rewrite (Scan_scan cfg w wv d A HSc), Es in Hh. cbn [handle] in Hh. inversion Hh; subst s2. split.
        -- intros x Hx. apply seen_fold_dir. apply fold_first_all_seen. exact Hx.
        -- intros x Hx. apply fold_dir_all_seen. exact Hx.
      * right. intros fs ds Es. destruct (Hcl fs ds Es) as [H1 H2]. split.
        -- intros x Hx. apply (gstep_seen g g2 x Hstep). apply H1. exact Hx.
        -- intros x Hx. apply Hsd. apply H2. exact Hx.
    + apply pmem_nIn in Eold. left.
      destruct (handle_cases _ _ _ Hh) as
        [[fs [ds [-> ->]]]|[[f' [m [rel [-> [Hnf ->]]]]]|[[f' [ds [m [-> [Had ->]]]]]|[f' [ds [m [-> [Had ->]]]]]]]].
      * apply seen_dirs_fold_dir_inv in Hd. rewrite seen_dirs_fold_file in Hd.
        destruct Hd as [Hd|Hd]; [contradiction|].
        apply fold_dir_new; [exact Hd|]. rewrite seen_dirs_fold_file. exact Eold.
      * rewrite seen_dirs_fold_file in Hd. contradiction.
      * rewrite seen_dirs_fold_file in Hd. contradiction.
      * rewrite seen_dirs_exec_file in Hd. contradiction.
  - (* least *)
    intros S Dd Hcl. destruct (HL S Dd Hcl) as [H1 H2]. destruct (Hres S Dd Hcl) as [Hr1 Hr2]. cbn [g2 gs]. split.
    + intros x Hx. destruct (Hs1 x Hx) as [H|H]; [apply H1; exact H|apply Hr1; exact H].
    + intros x Hx. destruct (Hs2 x Hx) as [H|H]; [apply H2; exact H|apply Hr2; exact H].
Qed.

Hypothesis Gf : Forall (good_file (w_fs w)) files.
Hypothesis Gd : Forall (good_dir (w_fs w)) dirs.

Lemma JY_init : JY (ginit files dirs) w [].
Proof.
  split; [apply agree_refl|]. split; [split; [exact N|reflexivity]|]. split; [reflexivity|].
  assert (Hnf : forall f, ~ finished (ginit files dirs) f).
  { intros f Hf. unfold finished, ginit in Hf. cbn [gs] in Hf. rewrite dm_fold_dir, dm_fold_file in Hf. discriminate. }
  split; [intros a ds []|]. split; [intros f Hf; destruct (Hnf f Hf)|]. split; [intros f Hf; destruct (Hnf f Hf)|].
  split; [intros f Hf; destruct (Hnf f Hf)|]. split; [|split].
  - intros d Hd. left. unfold ginit in *. cbn [gs] in *.
    apply seen_dirs_fold_dir_inv in Hd. rewrite seen_dirs_fold_file in Hd. destruct Hd as [[]|Hd].
    apply fold_dir_new; [exact Hd|]. rewrite seen_dirs_fold_file. intros [].
  - apply (Jrun_init w files dirs Gf Gd w). destruct w as [F l]. apply (winv_init F).
  - intros S Dd (Hf & Hd & _). unfold ginit. cbn [gs]. split.
    + intros f Hin. rewrite seen_fold_dir_eq in Hin. apply seen_fold_file_inv in Hin.
      destruct Hin as [[]|[_ Hin]]. apply Hf. exact Hin.
    + intros d Hin. apply seen_dirs_fold_dir_inv in Hin. rewrite seen_dirs_fold_file in Hin.
      destruct Hin as [[]|Hin]. apply Hd. exact Hin.
Qed.

(* (=>) what a Verify run that ends with VOk has seen: a closed pair, every file of which got a pass that answered POk,
   and below every file of which the static dependency relation is well founded *)
Lemma verify_loop_closed fuel sched :
  let x := run_loop orc cfg base fuel sched (gs (ginit files dirs)) w [] in
  verdict_of x = VOk ->
  closed cfg w files dirs (seen (state_of x)) (seen_dirs (state_of x)) /\
  (forall f, In f (seen (state_of x)) ->
     Acc (dep_rel w) f /\ exists b, In (TPp f b, RPp f (Some POk)) (trace_of x)) /\
  (forall f, (forall S Dd, closed cfg w files dirs S Dd -> In f S) <-> In f (seen (state_of x))).
Proof.
  intros x Hv.
  destruct (run_loop_gen orc cfg base files dirs JY JY_step fuel sched (ginit files dirs) w []
              (greach_init files dirs) JY_init (or_introl Hv)) as (g & R & Es & HJ & Hfin).
  fold x in Es, HJ, Hfin. destruct (Hfin Hv) as [Hfl Hall].
  destruct HJ as (_ & _ & _ & G1 & G2 & G4 & G5 & HC & _ & HL).
  destruct (inv_reach _ _ _ R) as [HPi _]. rewrite <- Es.
  assert (Hff : forall f, In f (seen (gs g)) -> finished g f).
  { intros f Hf. apply Hall. unfold is_seen. apply pmem_In. exact Hf. }
  assert (Hcl : closed cfg w files dirs (seen (gs g)) (seen_dirs (gs g))).
  { split; [|split; [|split]].
    - intros f Hf. apply (greach_inputs_seen files dirs g R f Hf).
    - intros d Hd. apply (greach_dirs_seen files dirs g R d Hd).
    - intros d fs ds Hd Hscan. destruct (HC d Hd) as [H|H]; [rewrite Hfl in H; destruct H|]. apply (H fs ds Hscan).
    - intros f Hf q Hq. pose proof (Hff f Hf) as Hfin_f.
      assert (Hne : sdeps w f <> []) by (intros E; rewrite E in Hq; destruct Hq).
      destruct (G2 f Hfin_f Hne) as [ds Hd]. destruct (G1 f ds Hd) as [-> _].
      unfold finished in Hfin_f. apply pmem_In in Hfin_f.
      destruct (i_dep_status HPi f q) as [H|H]; [exists (sdeps w f); split; assumption|apply (i_fin_seen HPi); exact H|].
      exfalso. apply (i_w_nfin HPi f q H Hfin_f). }
  split; [exact Hcl|]. split.
  - intros f Hf. split; [apply G4|apply G5]; apply Hff; exact Hf.
  - intros f. split; [intros H; apply (H _ _ Hcl)|]. intros Hf S Dd HclS. apply (proj1 (HL S Dd HclS)). exact Hf.
Qed.

(* (<=) when the output of every file in every closed pair is fresh, no task of the Verify run fails *)
Hypothesis HVS : verify_static w.
Hypothesis HTP : temps_private w.
Hypothesis Hfresh : forall f, (forall S Dd, closed cfg w files dirs S Dd -> In f S) ->
  exists out txt, remove_txtpp f = Some out /\ fresh_text orc base f tn w out = Some txt /\ read_file (w_fs w) out = Some txt.
Hypothesis Hacc : forall f, (forall S Dd, closed cfg w files dirs S Dd -> In f S) -> Acc (dep_rel w) f.

(* the final Verify pass of a file whose output is fresh in w succeeds in every world of the run *)
Lemma vpass_fresh_ok wv f :
  good_file (w_fs w) f ->
  (forall S Dd, closed cfg w files dirs S Dd -> In f S) ->
  agree nt (w_fs w) (w_fs wv) ->
  (forall p, ~ In p T -> fs_get (w_fs wv) p = fs_get (w_fs w) p) ->
  exists wvv, pp_run orc Verify base f false tn wv = PpOk wvv.
Proof.
  intros Hg Hr A HT.
  destruct (Hfresh f Hr) as (out & txt & Ho & Hfr & Hrd).
  pose proof (verify_static_side w f out WF HVS Hg Ho) as Hside.
  assert (Ef : fs_get (w_fs wv) f = fs_get (w_fs w) f).
  { symmetry. apply (proj1 A). apply nt_false. eapply remove_txtpp_is_txtpp; eauto. }
  assert (Hside' : pass_side wv f out) by (apply (pass_side_transfer w); [exact Ef|exact (proj2 A)|exact Hside]).
  destruct (HTP f out (proj1 Hg) Ho) as [HfT Hro].
  destruct (HVS f out (proj1 Hg) Ho) as (_ & HoT & _).
  apply (fresh_text_is_build_output orc base f tn w out txt Hside) in Hfr. destruct Hfr as (wb & Eb & Hrb).
  assert (W : wR (in_paths T) w wv).
  { split; [|exact (proj2 A)]. intros p Hp. symmetry. apply HT. apply in_paths_false. exact Hp. }
  destruct (pass_converges_on_own_temps orc base f false tn T w wv out W (proj1 Hside)
              (proj1 (proj2 Hside)) HfT (fun e => ltac:(discriminate e)) Hro) as (Ht & _ & Hok).
  rewrite Eb in Ht, Hok. cbn [tag_of out_world] in Ht, Hok.
  destruct (pp_run orc Build base f false tn wv) as [wb'| | |] eqn:Eb'; try discriminate.
  cbn [out_world] in Hok. specialize (Hok eq_refl).
  assert (Esame : fs_get (w_fs wb') out = fs_get (w_fs wv) out).
  { rewrite <- (proj1 Hok out).
    - rewrite (HT out HoT). unfold read_file in Hrb, Hrd.
      destruct (fs_get (w_fs wb) out) as [[c1|]|]; try discriminate.
      destruct (fs_get (w_fs w) out) as [[c2|]|]; try discriminate. congruence.
    - apply in_paths_false. intros Hin. apply in_drop_paths in Hin. apply (proj2 Hin).
      unfold writes_of. rewrite Ho. right. left. reflexivity. }
  destruct (verify_of_build orc base f tn wv out wb' Hside' Eb' Esame) as (wvv & Ev & _).
  exists wvv. exact Ev.
Qed.

Lemma JY_noerr g wv tr t rest r w' :
  greach files dirs g -> JY g wv tr -> Permutation (inflight (gs g)) (t :: rest) ->
  exec_task orc cfg base t wv = Some (r, w') -> ~ is_err r.
Proof.
  intros R (A & HSc & HT & _ & _ & _ & _ & _ & HJr & HL) HP Hex.
  assert (Ht : In t (inflight (gs g))).
  { eapply Permutation_in; [apply Permutation_sym; exact HP|]. left. reflexivity. }
  destruct (inv_reach _ _ _ R) as [HPi _]. destruct HJr as (_ & Jf & Jd).
  destruct t as [d|f b].
  - cbn [exec_task] in Hex. inversion Hex; subst r w'. clear Hex.
    rewrite (Scan_scan cfg w wv d A HSc).
    assert (Hd : is_dir (w_fs w) d = true).
    { apply (good_dir_upto (w_fs w) N d). apply Jd. apply (i_fl_seen HPi (TScan d) Ht). }
    unfold scan_dir. rewrite Hd. intros H. exact H.
  - rewrite exec_task_vf in Hex.
    assert (Hfs : In f (seen (gs g))) by (apply (inflight_seen files dirs g (TPp f b) R Ht)).
    assert (Hr : forall S Dd, closed cfg w files dirs S Dd -> In f S).
    { intros S Dd Hcl. apply (proj1 (HL S Dd Hcl)). exact Hfs. }
    destruct (vpass_fresh_ok wv f (Jf f Hfs) Hr A HT) as [wvv Ev].
    destruct b.
    + destruct (final_ok_first_cases orc Verify base f tn wv wvv ltac:(discriminate) Ev) as [E1|(ds & w3 & E1)];
        rewrite E1 in Hex; cbn in Hex; inversion Hex; subst r w'; intros H; exact H.
    + rewrite Ev in Hex. cbn in Hex. inversion Hex; subst r w'. intros H; exact H.
Qed.

Lemma JY_exit g wv tr :
  greach files dirs g -> JY g wv tr -> inflight (gs g) = [] -> has_remaining (dm (gs g)) = false.
Proof.
  intros R (_ & _ & _ & G1 & _ & _ & _ & _ & _ & HL) Hnil.
  destruct (has_remaining (dm (gs g))) eqn:E; [|reflexivity]. exfalso.
  apply (cycle_verdict_iff files dirs g R Hnil) in E. destruct E as (f & Hseen & Hnf). apply Hnf.
  apply (acyclic_part_built files dirs g R f Hnil Hseen).
  assert (Hr : forall S Dd, closed cfg w files dirs S Dd -> In f S).
  { intros S Dd Hcl. apply (proj1 (HL S Dd Hcl)). apply pmem_In. exact Hseen. }
  pose proof (Hacc f Hr) as Ha. clear - Ha G1. induction Ha as [f _ IH]. constructor. intros d (ds & Hd & Hin).
  apply IH. unfold dep_rel. destruct (G1 f ds Hd) as [<- _]. exact Hin.
Qed.

Lemma verify_loop_ok fuel sched :
  let x := run_loop orc cfg base fuel sched (gs (ginit files dirs)) w [] in
  (verdict_of x = VOk \/ verdict_of x = VFuel) /\
  ((fuel > 2 * length (src_files (w_fs w)) + length (dir_entries (w_fs w)))%nat -> verdict_of x = VOk).
Proof.
  intros x.
  pose proof (run_loop_gen_ok orc cfg base files dirs JY JY_step JY_noerr JY_exit fuel sched (ginit files dirs) w []
                (greach_init files dirs) JY_init) as Hv. fold x in Hv.
  split; [exact Hv|]. intros Hfuel.
  assert (Hnf : verdict_of x <> VFuel).
  { apply (run_loop_fuel_enough_inv orc cfg base files dirs (Jrun (w_fs w)) (ginit files dirs) fuel sched
             w [] (src_files (w_fs w)) (dir_entries (w_fs w))).
    - intros g0 wa t rest r w' s2. apply (Jrun_step (w_fs w) N WF).
    - intros s wa. apply Jrun_bound.
    - apply greach_init.
    - apply (Jrun_init w files dirs Gf Gd w). destruct w as [F l]. apply (winv_init F).
    - cbn [ginit history length]. rewrite Nat.add_0_r. exact Hfuel. }
  destruct Hv as [H|H]; [exact H|contradiction].
Qed.
End VerifyFromTree.

(* ===================================================================================================================
   PART 3 — Y2 (C06): a Verify run succeeds exactly when every reached source is fresh
   =================================================================================================================== *)
(* the run gets past its prelude: at least one thread, the base directory and the inputs resolve *)
Definition inputs_resolve (cfg : config) (w : world) : Prop :=
  (cfg_threads cfg =? 0) = false /\
  exists base files dirs,
    os_resolve (w_fs w) (cfg_base cfg) = Some base /\
    resolve_inputs (w_fs w) base (cfg_inputs cfg) [] [] = Some (files, dirs).

(* the source f is readable, a pass over it (in the tree of w, with the oracle orc) ends without error, and the existing
   output of f holds exactly the text of that pass — everything evaluated in w *)
Definition output_fresh (orc : oracle) (cfg : config) (w : world) (f : path) : Prop :=
  exists out txt,
    remove_txtpp f = Some out /\
    fresh_text orc (run_base cfg w) f (cfg_trailing cfg) w out = Some txt /\
    read_file (w_fs w) out = Some txt.

Lemma reached_iff cfg w base files dirs f :
  os_resolve (w_fs w) (cfg_base cfg) = Some base ->
  resolve_inputs (w_fs w) base (cfg_inputs cfg) [] [] = Some (files, dirs) ->
  (reached cfg w f <-> forall S Dd, closed cfg w files dirs S Dd -> In f S).
Proof.
  intros Eb Ri. split.
  - intros H. apply (H base files dirs Eb Ri).
  - intros H b' f' d' Eb' Ri'. rewrite Eb in Eb'. inversion Eb'; subst b'. rewrite Ri in Ri'. inversion Ri'; subst f' d'.
    exact H.
Qed.

Lemma prelude_good w cfg base files dirs :
  raw_ok w -> legal_names (w_fs w) ->
  os_resolve (w_fs w) (cfg_base cfg) = Some base ->
  resolve_inputs (w_fs w) base (cfg_inputs cfg) [] [] = Some (files, dirs) ->
  Forall (good_file (w_fs w)) files /\ Forall (good_dir (w_fs w)) dirs.
Proof.
  intros N WF Eb Ri.
  assert (Hbn : Forall (fun c => c <> []) base).
  { apply names_nonempty. apply (exists_names (w_fs w) WF). apply (os_walk_exists _ _ _ _ Eb). }
  apply (resolve_inputs_good (w_fs w) N base (cfg_inputs cfg) [] [] files dirs Hbn (Forall_nil _) (Forall_nil _) Ri).
Qed.

(* Y2 (<=).  A tree w (NOT necessarily produced by a build) in which every reached source is fresh and reaches no
   dependency cycle: the Verify run (any schedule, any oracle, any fuel) never meets an error — its verdict is VOk, or
   VFuel when the fuel runs out; with the fuel bound of RunFacts.txtpp_run_terminates it is VOk. *)
Theorem all_fresh_verify_ok orc cfg fuel sched w :
  cfg_mode cfg = Verify ->
  raw_ok w -> legal_names (w_fs w) -> sched_ok_temps w -> verify_static w -> temps_private w ->
  inputs_resolve cfg w ->
  (forall f, reached cfg w f -> output_fresh orc cfg w f /\ Acc (dep_rel w) f) ->
  let x := txtpp_run orc cfg fuel sched w in
  (verdict_of x = VOk \/ verdict_of x = VFuel) /\
  ((fuel > 2 * length (src_files (w_fs w)) + length (dir_entries (w_fs w)))%nat -> verdict_of x = VOk).
Proof.
  intros Hmd N WF HS HVS HTP (Et & base & files & dirs & Eb & Ri) Hall x. subst x.
  destruct (prelude_good w cfg base files dirs N WF Eb Ri) as [Gf Gd].
  unfold txtpp_run. rewrite Et, Eb, Ri.
  change (fold_left exec_dir dirs (fold_left (fun s f => exec_file s f true) files c_init))
    with (gs (ginit files dirs)).
  apply (verify_loop_ok orc cfg base Hmd w N WF HS files dirs Gf Gd HVS HTP).
  - intros f Hr. apply (reached_iff cfg w base files dirs f Eb Ri) in Hr.
    destruct (Hall f Hr) as [(out & txt & Ho & Hf & Hrd) _]. unfold run_base in Hf. rewrite Eb in Hf.
    exists out, txt. auto.
  - intros f Hr. apply (reached_iff cfg w base files dirs f Eb Ri) in Hr. apply (Hall f Hr).
Qed.

(* Y2 (=>).  A Verify run that ends with VOk: the prelude succeeded, and every reached source was given a pass, is fresh
   (VerifyRunFacts1.verify_ok_means_all_fresh) and reaches no dependency cycle. *)
Theorem verify_ok_all_reached_fresh orc cfg fuel sched w :
  cfg_mode cfg = Verify ->
  raw_ok w -> legal_names (w_fs w) -> sched_ok_temps w -> verify_static w -> temps_private w ->
  let x := txtpp_run orc cfg fuel sched w in
  verdict_of x = VOk ->
  inputs_resolve cfg w /\
  forall f, reached cfg w f -> processed x f /\ output_fresh orc cfg w f /\ Acc (dep_rel w) f.
Proof.
  intros Hmd N WF HS HVS HTP x Hv.
  destruct (VerifyRunFacts2.txtpp_run_ok_unfold orc cfg fuel sched w Hv) as (base & files & dirs & Et & Eb & Ri & Ex).
  split; [split; [exact Et|exists base, files, dirs; auto]|].
  destruct (prelude_good w cfg base files dirs N WF Eb Ri) as [Gf Gd].
  pose proof (verify_loop_closed orc cfg base Hmd w N WF HS files dirs Gf Gd fuel sched) as H. cbv zeta in H.
  rewrite <- Ex in H. specialize (H Hv). destruct H as (_ & Hall & Hiff).
  intros f Hr0. pose proof (proj1 (Hiff f) (proj1 (reached_iff cfg w base files dirs f Eb Ri) Hr0)) as Hr.
  destruct (Hall f Hr) as [Ha [b Hb]].
  split; [exists b, (RPp f (Some POk)); exact Hb|]. split; [|exact Ha].
  destruct (verify_ok_means_all_fresh orc cfg fuel sched w Hmd N WF HVS HTP Hv f b _ Hb) as (out & txt & Ho & Hf & Hrd).
  exists out, txt. auto.
Qed.

(* Y2.  On a tree that satisfies the static hypotheses, with enough fuel: `txtpp verify` succeeds IF AND ONLY IF the
   inputs resolve and every source reached from them (inputs, scanned directories, dependencies) is readable, can be
   preprocessed without error, has an output that holds exactly its fresh text (all evaluated in w itself), and reaches
   no dependency cycle.  Any schedule, any oracle. *)
Theorem verify_iff_all_fresh orc cfg fuel sched w :
  cfg_mode cfg = Verify ->
  raw_ok w -> legal_names (w_fs w) -> sched_ok_temps w -> verify_static w -> temps_private w ->
  (fuel > 2 * length (src_files (w_fs w)) + length (dir_entries (w_fs w)))%nat ->
  (verdict_of (txtpp_run orc cfg fuel sched w) = VOk <->
   inputs_resolve cfg w /\ forall f, reached cfg w f -> output_fresh orc cfg w f /\ Acc (dep_rel w) f).
Proof.
  intros Hmd N WF HS HVS HTP Hfuel. split.
  - intros Hv. destruct (verify_ok_all_reached_fresh orc cfg fuel sched w Hmd N WF HS HVS HTP Hv) as [H1 H2].
    split; [exact H1|]. intros f Hr. destruct (H2 f Hr) as (_ & H3 & H4). auto.
  - intros [H1 H2]. apply (all_fresh_verify_ok orc cfg fuel sched w Hmd N WF HS HVS HTP H1 H2). exact Hfuel.
Qed.

(* the verdict of a Verify run does not depend on the schedule (with enough fuel) *)
Corollary verify_verdict_schedule_independent orc cfg fuel1 sched1 fuel2 sched2 w :
  cfg_mode cfg = Verify ->
  raw_ok w -> legal_names (w_fs w) -> sched_ok_temps w -> verify_static w -> temps_private w ->
  (fuel1 > 2 * length (src_files (w_fs w)) + length (dir_entries (w_fs w)))%nat ->
  (fuel2 > 2 * length (src_files (w_fs w)) + length (dir_entries (w_fs w)))%nat ->
  (verdict_of (txtpp_run orc cfg fuel1 sched1 w) = VOk <-> verdict_of (txtpp_run orc cfg fuel2 sched2 w) = VOk).
Proof.
  intros Hmd N WF HS HVS HTP F1 F2.
  rewrite (verify_iff_all_fresh orc cfg fuel1 sched1 w Hmd N WF HS HVS HTP F1),
          (verify_iff_all_fresh orc cfg fuel2 sched2 w Hmd N WF HS HVS HTP F2). reflexivity.
Qed.

(* ===================================================================================================================
   PART 4 — non-vacuity and the counterexample
   The tree of ScheduleTempFacts PART 6:
       d/a.txtpp = "// TXTPP#temp t\n// hello\nTXTPP#include t\nx\n"     (writes the temp file d/t, then includes it)
       d/b.txtpp = "TXTPP#include a\nz\n"                                  (includes the output of a.txtpp: two passes)
   =================================================================================================================== *)
(* ---- Y1 ---- *)
Example build_result_is_all_fresh_nonvacuous :
  forall sched, sched = [] \/ sched = [0; 1; 0; 0]%nat ->      (* a.txtpp first / b.txtpp looked at first *)
  let x := txtpp_run cx_orc t_cfg 9 sched t_w in
  let w1 := world_of x in
  verdict_of x = VOk /\ processed x t_a /\ processed x t_b /\
  In (TPp t_b true, RPp t_b (Some (PDeps [t_a]))) (trace_of x) /\ In (TPp t_b false, RPp t_b (Some POk)) (trace_of x) /\
  (* from the theorem: both outputs hold the text of a pass over the final tree *)
  (exists txt, read_file (w_fs w1) t_aout = Some txt /\ fresh_text cx_orc [] t_a false w1 t_aout = Some txt) /\
  (exists txt, read_file (w_fs w1) t_bout = Some txt /\ fresh_text cx_orc [] t_b false w1 t_bout = Some txt) /\
  (* concretely: d/b shows the complete output of d/a.txtpp *)
  read_file (w_fs w1) t_aout = Some (t_hello ++ [120]) /\ read_file (w_fs w1) t_bout = Some (t_hello ++ [120; 122]).
Proof.
  intros sched Hs x w1.
  assert (Hv : verdict_of x = VOk) by (destruct Hs as [-> | ->]; vm_compute; reflexivity).
  assert (Ha : processed x t_a).
  { exists true, (RPp t_a (Some POk)). destruct Hs as [-> | ->]; vm_compute; [right; left; reflexivity|right; right; left; reflexivity]. }
  assert (Hb : In (TPp t_b false, RPp t_b (Some POk)) (trace_of x)).
  { destruct Hs as [-> | ->]; vm_compute; do 3 right; left; reflexivity. }
  assert (Hb' : processed x t_b) by (exists false, (RPp t_b (Some POk)); exact Hb).
  split; [exact Hv|]. split; [exact Ha|]. split; [exact Hb'|].
  split; [destruct Hs as [-> | ->]; vm_compute; [right; right; left; reflexivity|right; left; reflexivity]|].
  split; [exact Hb|].
  pose proof (build_result_is_all_fresh cx_orc t_cfg 9 sched t_w eq_refl t_raw_ok t_legal t_sched_ok t_outputs_unnamed Hv)
    as H. fold x in H. cbv zeta in H. fold w1 in H.
  split; [|split; [|split]].
  - destruct (H t_a Ha) as (out & txt & Ho & Hr & Hf). vm_compute in Ho. inversion Ho; subst out. exists txt. split; assumption.
  - destruct (H t_b Hb') as (out & txt & Ho & Hr & Hf). vm_compute in Ho. inversion Ho; subst out. exists txt. split; assumption.
  - destruct Hs as [-> | ->]; vm_compute; reflexivity.
  - destruct Hs as [-> | ->]; vm_compute; reflexivity.
Qed.

(* ---- Y2 ---- *)
Lemma read_in_keys F f raw : read_file F f = Some raw -> In f (map fst F).
Proof.
  unfold read_file. destruct (fs_get F f) as [[c|]|] eqn:G; try discriminate. intros _.
  destruct f as [|n f']; [rewrite fs_get_nil in G; discriminate|].
  apply (in_map fst _ (n :: f', File c)). apply fs_get_in; [discriminate|exact G].
Qed.

(* `sched_ok_temps` on a concrete tree whose sources are d/a.txtpp and d/b.txtpp *)
Ltac solve_sched_ok Hsrc :=
  let f := fresh "f" in let out := fresh "out" in let Hs := fresh "Hs" in
  intros f out Hs; destruct (Hsrc f out Hs) as [[-> ->]|[-> ->]];
  (split; [repeat constructor|]; split; [vm_compute; reflexivity|]; split; [|split; [|split]];
   [ let p := fresh "p" in let Hp := fresh "Hp" in
     intros p Hp; vm_compute in Hp; repeat (destruct Hp as [<-|Hp]; [vm_compute; reflexivity|]); destruct Hp
   | let c := fresh "c" in let Hc := fresh "Hc" in
     intros c Hc; vm_compute in Hc; repeat (destruct Hc as [<-|Hc]; [vm_compute; reflexivity|]); destruct Hc
   | solve_ro
   | let g := fresh "g" in let outg := fresh "outg" in let Hg := fresh "Hg" in let Hne := fresh "Hne" in
     intros g outg Hg Hne; destruct (Hsrc g outg Hg) as [[-> ->]|[-> ->]]; try congruence;
     (split; [|split]; let p := fresh "p" in let Hp := fresh "Hp" in
      intros p Hp; vm_compute in Hp; repeat (destruct Hp as [<-|Hp]; [vm_compute; intuition discriminate|]); destruct Hp) ]).

Ltac solve_is_source :=
  let Ho := fresh "Ho" in let raw := fresh "raw" in let Er := fresh "Er" in
  intros [Ho [raw Er]]; apply read_in_keys in Er; vm_compute in Er;
  repeat (destruct Er as [<-|Er]; [try (vm_compute in Ho; discriminate); vm_compute in Ho; inversion Ho; auto|]); destruct Er.

Lemma t_built_is_source f out : is_source t_built f out -> (f = t_a /\ out = t_aout) \/ (f = t_b /\ out = t_bout).
Proof. solve_is_source. Qed.
Lemma t_built_sched_ok : sched_ok_temps t_built.
Proof. solve_sched_ok t_built_is_source. Qed.

Lemma t_tampered_is_source f out : is_source t_tampered f out -> (f = t_a /\ out = t_aout) \/ (f = t_b /\ out = t_bout).
Proof. solve_is_source. Qed.
Lemma t_tampered_sched_ok : sched_ok_temps t_tampered.
Proof. solve_sched_ok t_tampered_is_source. Qed.

(* `txtpp verify d` on a tree whose directory d holds the two sources: exactly d/a.txtpp and d/b.txtpp are reached *)
Ltac solve_reached_ab :=
  let base := fresh "base" in let files := fresh "files" in let dirs := fresh "dirs" in
  let Eb := fresh "Eb" in let Ei := fresh "Ei" in let S := fresh "S" in let Dd := fresh "Dd" in let Hcl := fresh "Hcl" in
  let Hd := fresh "Hd" in let Hscan := fresh "Hscan" in let Hs := fresh "Hs" in
  intros base files dirs Eb Ei S Dd Hcl; vm_compute in Eb; inversion Eb; subst base;
  vm_compute in Ei; inversion Ei; subst files dirs; destruct Hcl as (_ & Hd & Hscan & _);
  destruct (Hscan [[100]] [t_a; t_b] [] (Hd _ (or_introl eq_refl))) as [Hs _]; [vm_compute; reflexivity|];
  apply Hs; first [left; reflexivity|right; left; reflexivity].

Ltac solve_reached_only :=
  let H := fresh "H" in
  intros H; apply (H [] [] [[[100]]] ltac:(vm_compute; reflexivity) ltac:(vm_compute; reflexivity) [t_a; t_b] [[[100]]]);
  split; [intros x []|]; split; [intros x Hx; exact Hx|]; split;
  [ let d := fresh "d" in let fs := fresh "fs" in let ds := fresh "ds" in let Hd := fresh "Hd" in let Es := fresh "Es" in
    intros d fs ds [<-|[]] Es; vm_compute in Es; inversion Es; subst fs ds; split; [intros x Hx; exact Hx|intros x []]
  | let f := fresh "f" in let q := fresh "q" in let Hq := fresh "Hq" in
    intros f [<-|[<-|[]]] q Hq; vm_compute in Hq;
    repeat (destruct Hq as [<-|Hq]; [try (left; reflexivity); right; left; reflexivity|]); destruct Hq ].

Lemma t_built_reached : reached t_vcfg t_built t_a /\ reached t_vcfg t_built t_b.
Proof. split; solve_reached_ab. Qed.
Lemma t_built_reached_only f : reached t_vcfg t_built f -> f = t_a \/ f = t_b.
Proof. intros H. assert (Hin : In f [t_a; t_b]) by (revert H; solve_reached_only). destruct Hin as [<-|[<-|[]]]; auto. Qed.

Lemma t_built_inputs_resolve : inputs_resolve t_vcfg t_built.
Proof. split; [reflexivity|]. exists [], [], [[[100]]]. split; vm_compute; reflexivity. Qed.

(* the right-hand side of Y2 on the built tree, by computation *)
Lemma t_built_all_fresh f : reached t_vcfg t_built f -> output_fresh cx_orc t_vcfg t_built f /\ Acc (dep_rel t_built) f.
Proof.
  assert (Ha : Acc (dep_rel t_built) t_a).
  { constructor. intros q Hq. vm_compute in Hq. destruct Hq. }
  intros Hr. destruct (t_built_reached_only f Hr) as [-> | ->].
  - split; [|exact Ha]. exists t_aout, (t_hello ++ [120]). repeat split; vm_compute; reflexivity.
  - split.
    + exists t_bout, (t_hello ++ [120; 122]). repeat split; vm_compute; reflexivity.
    + constructor. intros q Hq. vm_compute in Hq. destruct Hq as [<-|[]]. exact Ha.
Qed.

(* Y2 (<=): `txtpp verify d` on the built tree succeeds under EVERY schedule and every fuel above the bound — from the
   theorem (the right-hand side is checked by computation on the tree alone, no run) *)
Example all_fresh_verify_ok_nonvacuous :
  forall sched fuel, (fuel > 6)%nat -> verdict_of (txtpp_run cx_orc t_vcfg fuel sched t_built) = VOk.
Proof.
  intros sched fuel Hfuel.
  apply (verify_iff_all_fresh cx_orc t_vcfg fuel sched t_built eq_refl t_built_nodup t_built_legal t_built_sched_ok
           t_built_static t_built_private).
  - vm_compute. vm_compute in Hfuel. exact Hfuel.
  - split; [exact t_built_inputs_resolve|exact t_built_all_fresh].
Qed.

(* Y2 (=>): one byte of d/a changed: d/a.txtpp is reached and not fresh, so NO schedule makes the run succeed *)
Lemma t_tampered_reached : reached t_vcfg t_tampered t_a.
Proof. solve_reached_ab. Qed.

Example verify_iff_all_fresh_nonvacuous :
  (* the two directions on the built tree, two concrete schedules: a real dependency, two passes for b.txtpp *)
  (forall sched, sched = [] \/ sched = [0; 1; 0; 0]%nat ->
     let x := txtpp_run cx_orc t_vcfg 9 sched t_built in
     verdict_of x = VOk /\
     In (TPp t_b true, RPp t_b (Some (PDeps [t_a]))) (trace_of x) /\ In (TPp t_b false, RPp t_b (Some POk)) (trace_of x) /\
     (inputs_resolve t_vcfg t_built /\
      forall f, reached t_vcfg t_built f -> output_fresh cx_orc t_vcfg t_built f /\ Acc (dep_rel t_built) f)) /\
  (* the tampered tree *)
  ~ output_fresh cx_orc t_vcfg t_tampered t_a /\
  (forall sched fuel, (fuel > 6)%nat -> verdict_of (txtpp_run cx_orc t_vcfg fuel sched t_tampered) <> VOk).
Proof.
  split; [|split].
  - intros sched Hs x.
    assert (Hv : verdict_of x = VOk) by (apply all_fresh_verify_ok_nonvacuous; repeat constructor).
    split; [exact Hv|].
    split; [destruct Hs as [-> | ->]; vm_compute; [right; right; left; reflexivity|right; left; reflexivity]|].
    split; [destruct Hs as [-> | ->]; vm_compute; do 3 right; left; reflexivity|].
    apply (verify_iff_all_fresh cx_orc t_vcfg 9 sched t_built eq_refl t_built_nodup t_built_legal t_built_sched_ok
             t_built_static t_built_private); [vm_compute; repeat constructor|exact Hv].
  - intros (out & txt & Ho & Hf & Hr). vm_compute in Ho. inversion Ho; subst out.
    vm_compute in Hf. vm_compute in Hr. congruence.
  - intros sched fuel Hfuel Hv.
    apply (verify_iff_all_fresh cx_orc t_vcfg fuel sched t_tampered eq_refl t_tampered_nodup t_tampered_legal
             t_tampered_sched_ok t_tampered_static t_tampered_private) in Hv.
    2:{ vm_compute. vm_compute in Hfuel. exact Hfuel. }
    destruct Hv as [_ Hall]. destruct (Hall t_a t_tampered_reached) as [(out & txt & Ho & Hf & Hr) _].
    vm_compute in Ho. inversion Ho; subst out. vm_compute in Hf. vm_compute in Hr. congruence.
Qed.

(* Y2 (<=) on a tree that is NOT the result of a build: the built tree with the temp file d/t overwritten by "stale".
   Every output is still fresh (a.txtpp rewrites d/t before it includes it), so `txtpp verify d` succeeds under every
   schedule — by the theorem — and the run rewrites d/t. *)
Definition t_stale_temp : world := mkW (fs_put (w_fs t_built) t_t (File t_stale)) [].

Lemma t_stale_temp_nodup : raw_ok t_stale_temp.
Proof. unfold raw_ok. vm_compute. repeat constructor; cbn; intuition discriminate. Qed.
Lemma t_stale_temp_legal : legal_names (w_fs t_stale_temp).
Proof.
  intros p nd H. vm_compute in H.
  repeat (destruct H as [H|H]; [inversion H; subst; repeat constructor; discriminate|]). destruct H.
Qed.
Lemma t_stale_temp_is_source f out :
  is_source t_stale_temp f out -> (f = t_a /\ out = t_aout) \/ (f = t_b /\ out = t_bout).
Proof. solve_is_source. Qed.
Lemma t_stale_temp_sched_ok : sched_ok_temps t_stale_temp.
Proof. solve_sched_ok t_stale_temp_is_source. Qed.
Lemma t_stale_temp_sources f : In f (src_files (w_fs t_stale_temp)) -> f = t_a \/ f = t_b.
Proof. intros H. vm_compute in H. destruct H as [<-|[<-|[]]]; [left|right]; reflexivity. Qed.
Lemma t_stale_temp_static : verify_static t_stale_temp.
Proof.
  intros f out Hf Ho. destruct (t_stale_temp_sources f Hf) as [-> | ->]; vm_compute in Ho; inversion Ho; subst out;
    (split; [vm_compute; intuition discriminate|split; [vm_compute; intuition discriminate|vm_compute; discriminate]]).
Qed.
Lemma t_stale_temp_private : temps_private t_stale_temp.
Proof.
  intros f out Hf Ho. destruct (t_stale_temp_sources f Hf) as [-> | ->]; vm_compute in Ho; inversion Ho; subst out;
    (split; [vm_compute; intuition discriminate|solve_ro]).
Qed.
Lemma t_stale_temp_reached_only f : reached t_vcfg t_stale_temp f -> f = t_a \/ f = t_b.
Proof. intros H. assert (Hin : In f [t_a; t_b]) by (revert H; solve_reached_only). destruct Hin as [<-|[<-|[]]]; auto. Qed.

Example all_fresh_verify_ok_stale_temp :
  read_file (w_fs t_stale_temp) t_t = Some t_stale /\
  (forall sched fuel, (fuel > 6)%nat -> verdict_of (txtpp_run cx_orc t_vcfg fuel sched t_stale_temp) = VOk) /\
  read_file (w_fs (world_of (txtpp_run cx_orc t_vcfg 9 [] t_stale_temp))) t_t = Some t_hello.
Proof.
  split; [vm_compute; reflexivity|]. split; [|vm_compute; reflexivity].
  intros sched fuel Hfuel.
  apply (verify_iff_all_fresh cx_orc t_vcfg fuel sched t_stale_temp eq_refl t_stale_temp_nodup t_stale_temp_legal
           t_stale_temp_sched_ok t_stale_temp_static t_stale_temp_private).
  - vm_compute. vm_compute in Hfuel. exact Hfuel.
  - split; [split; [reflexivity|exists [], [], [[[100]]]; split; vm_compute; reflexivity]|].
    assert (Ha : Acc (dep_rel t_stale_temp) t_a).
    { constructor. intros q Hq. vm_compute in Hq. destruct Hq. }
    intros f Hr. destruct (t_stale_temp_reached_only f Hr) as [-> | ->].
    + split; [|exact Ha]. exists t_aout, (t_hello ++ [120]). repeat split; vm_compute; reflexivity.
    + split.
      * exists t_bout, (t_hello ++ [120; 122]). repeat split; vm_compute; reflexivity.
      * constructor. intros q Hq. vm_compute in Hq. destruct Hq as [<-|[]]. exact Ha.
Qed.

(* ---- the counterexample: "every reached output is fresh" alone does not make verify succeed ----
   d/a.txtpp = "TXTPP#include b\n",  d/b.txtpp = "TXTPP#include a\n",  d/a = d/b = "x\n".
   Each source includes the output of the other: a dependency cycle.  Both outputs hold exactly their fresh text (a pass
   over a.txtpp in this tree writes the content of d/b, i.e. "x\n", and conversely), every static hypothesis of Y2
   holds, and `txtpp verify d` fails under every schedule: both first passes report their dependency and nothing can
   proceed (the circular-dependency error, property C05).  This is the prescribed behaviour, not a defect; it is why
   the right-hand side of `verify_iff_all_fresh` contains `Acc (dep_rel w) f`. *)
Definition c_araw : str := [84; 88; 84; 80; 80; 35; 105; 110; 99; 108; 117; 100; 101; 32; 98; 10].
Definition c_braw : str := [84; 88; 84; 80; 80; 35; 105; 110; 99; 108; 117; 100; 101; 32; 97; 10].
Definition c_x : str := [120; 10].
Definition c_fs : fs := [([[100]], Dir); (t_a, File c_araw); (t_b, File c_braw); (t_aout, File c_x); (t_bout, File c_x)].
Definition c_w : world := mkW c_fs [].

Lemma c_nodup : raw_ok c_w.
Proof. unfold raw_ok. vm_compute. repeat constructor; cbn; intuition discriminate. Qed.
Lemma c_legal : legal_names (w_fs c_w).
Proof.
  intros p nd H. vm_compute in H.
  repeat (destruct H as [H|H]; [inversion H; subst; repeat constructor; discriminate|]). destruct H.
Qed.
Lemma c_is_source f out : is_source c_w f out -> (f = t_a /\ out = t_aout) \/ (f = t_b /\ out = t_bout).
Proof. solve_is_source. Qed.
Lemma c_sched_ok : sched_ok_temps c_w.
Proof. solve_sched_ok c_is_source. Qed.
Lemma c_sources f : In f (src_files (w_fs c_w)) -> f = t_a \/ f = t_b.
Proof. intros H. vm_compute in H. destruct H as [<-|[<-|[]]]; [left|right]; reflexivity. Qed.
Lemma c_static : verify_static c_w.
Proof.
  intros f out Hf Ho. destruct (c_sources f Hf) as [-> | ->]; vm_compute in Ho; inversion Ho; subst out;
    (split; [vm_compute; intuition discriminate|split; [vm_compute; intuition discriminate|vm_compute; discriminate]]).
Qed.
Lemma c_private : temps_private c_w.
Proof.
  intros f out Hf Ho. destruct (c_sources f Hf) as [-> | ->]; vm_compute in Ho; inversion Ho; subst out;
    (split; [vm_compute; intuition discriminate|solve_ro]).
Qed.
Lemma c_reached : reached t_vcfg c_w t_a /\ reached t_vcfg c_w t_b.
Proof. split; solve_reached_ab. Qed.
Lemma c_reached_only f : reached t_vcfg c_w f -> f = t_a \/ f = t_b.
Proof. intros H. assert (Hin : In f [t_a; t_b]) by (revert H; solve_reached_only). destruct Hin as [<-|[<-|[]]]; auto. Qed.

Example all_fresh_but_cyclic :
  raw_ok c_w /\ legal_names (w_fs c_w) /\ sched_ok_temps c_w /\ verify_static c_w /\ temps_private c_w /\
  inputs_resolve t_vcfg c_w /\
  (forall f, reached t_vcfg c_w f -> output_fresh cx_orc t_vcfg c_w f) /\
  sdeps c_w t_a = [t_b] /\ sdeps c_w t_b = [t_a] /\ ~ Acc (dep_rel c_w) t_a /\
  verdict_of (txtpp_run cx_orc t_vcfg 9 [] c_w) = VErr /\
  verdict_of (txtpp_run cx_orc t_vcfg 9 [1; 1; 1; 1]%nat c_w) = VErr /\
  (* from the theorem: no schedule succeeds *)
  (forall sched fuel, (fuel > 6)%nat -> verdict_of (txtpp_run cx_orc t_vcfg fuel sched c_w) <> VOk).
Proof.
  assert (Hna : ~ Acc (dep_rel c_w) t_a).
  { assert (H : forall x, Acc (dep_rel c_w) x -> x = t_a \/ x = t_b -> False).
    { induction 1 as [x _ IH]. intros [-> | ->].
      - apply (IH t_b); [vm_compute; left; reflexivity|right; reflexivity].
      - apply (IH t_a); [vm_compute; left; reflexivity|left; reflexivity]. }
    intros Ha. apply (H t_a Ha). left. reflexivity. }
  split; [exact c_nodup|]. split; [exact c_legal|]. split; [exact c_sched_ok|]. split; [exact c_static|].
  split; [exact c_private|].
  split; [split; [reflexivity|exists [], [], [[[100]]]; split; vm_compute; reflexivity]|].
  split.
  { intros f Hr. destruct (c_reached_only f Hr) as [-> | ->].
    - exists t_aout, c_x. repeat split; vm_compute; reflexivity.
    - exists t_bout, c_x. repeat split; vm_compute; reflexivity. }
  split; [vm_compute; reflexivity|]. split; [vm_compute; reflexivity|]. split; [exact Hna|].
  split; [vm_compute; reflexivity|]. split; [vm_compute; reflexivity|].
  intros sched fuel Hfuel Hv.
  apply (verify_iff_all_fresh cx_orc t_vcfg fuel sched c_w eq_refl c_nodup c_legal c_sched_ok c_static c_private) in Hv.
  2:{ vm_compute. vm_compute in Hfuel. exact Hfuel. }
  destruct Hv as [_ Hall]. apply Hna. apply (Hall t_a (proj1 c_reached)).
Qed.


(* ---- `temps_private` cannot be dropped from (<=) either (the mirror image of
   VerifyRunFacts1.naive_all_fresh_counterexample) ----
   d/a.txtpp = "// TXTPP#temp t\n// hello\nTXTPP#include t\nx\n"   (writes the temp file d/t = "hello", includes it)
   d/c.txtpp = "TXTPP#include a\nTXTPP#include t\n"                (depends on a.txtpp; includes a's temp file d/t)
   with d/a = "hellox", d/t = "stale" and d/c = "helloxstale".  Evaluated in this tree, both outputs are fresh (a pass
   over c.txtpp reads d/t = "stale").  But `txtpp verify d` fails under every schedule: c.txtpp waits for a.txtpp, whose
   Verify pass REWRITES d/t = "hello"; the text of c.txtpp is then "helloxhello", which is not what d/c holds.  Not a
   defect: a build of this tree would write d/c = "helloxhello" too, so d/c IS out of date; it is the fresh text
   evaluated in the initial tree that is not the text of the build, because c.txtpp reads a temp file of another
   source (what `temps_private` forbids). *)
Definition x_stale2 : world := mkW (fs_put (w_fs x_stale) x_cout (File (t_hello ++ [120] ++ t_stale))) [].

Lemma x_stale2_is_source f out : is_source x_stale2 f out -> (f = t_a /\ out = t_aout) \/ (f = x_c /\ out = x_cout).
Proof. solve_is_source. Qed.
Lemma x_stale2_sources f : In f (src_files (w_fs x_stale2)) -> f = t_a \/ f = x_c.
Proof. intros H. vm_compute in H. destruct H as [<-|[<-|[]]]; [left|right]; reflexivity. Qed.

Example all_fresh_but_foreign_temp :
  raw_ok x_stale2 /\ legal_names (w_fs x_stale2) /\ sched_ok_temps x_stale2 /\ verify_static x_stale2 /\
  ~ temps_private x_stale2 /\
  inputs_resolve t_vcfg x_stale2 /\
  output_fresh cx_orc t_vcfg x_stale2 t_a /\ output_fresh cx_orc t_vcfg x_stale2 x_c /\
  sdeps x_stale2 t_a = [] /\ sdeps x_stale2 x_c = [t_a] /\
  (forall sched, sched = [] \/ sched = [0; 1; 0; 0]%nat ->
     let x := txtpp_run cx_orc t_vcfg 9 sched x_stale2 in
     verdict_of x = VErr /\ In (TPp x_c false, RPp x_c None) (trace_of x) /\
     read_file (w_fs (world_of x)) t_t = Some t_hello).
Proof.
  split; [unfold raw_ok; vm_compute; repeat constructor; cbn; intuition discriminate|].
  split.
  { intros p nd H. vm_compute in H.
    repeat (destruct H as [H|H]; [inversion H; subst; repeat constructor; discriminate|]). destruct H. }
  split; [solve_sched_ok x_stale2_is_source|].
  split.
  { intros f out Hf Ho. destruct (x_stale2_sources f Hf) as [-> | ->]; vm_compute in Ho; inversion Ho; subst out;
      (split; [vm_compute; intuition discriminate|split; [vm_compute; intuition discriminate|vm_compute; discriminate]]). }
  split.
  { intros H. destruct (H x_c x_cout) as [_ Hro]; [vm_compute; right; left; reflexivity|vm_compute; reflexivity|].
    vm_compute in Hro. destruct Hro as (_ & (_ & Hr) & _). apply (Hr (or_introl eq_refl) t_t); left; reflexivity. }
  split; [split; [reflexivity|exists [], [], [[[100]]]; split; vm_compute; reflexivity]|].
  split; [exists t_aout, (t_hello ++ [120]); repeat split; vm_compute; reflexivity|].
  split; [exists x_cout, (t_hello ++ [120] ++ t_stale); repeat split; vm_compute; reflexivity|].
  split; [vm_compute; reflexivity|]. split; [vm_compute; reflexivity|].
  intros sched Hs x. split; [destruct Hs as [-> | ->]; vm_compute; reflexivity|].
  split; [destruct Hs as [-> | ->]; vm_compute; do 3 right; left; reflexivity|].
  destruct Hs as [-> | ->]; vm_compute; reflexivity.
Qed.
