(* OnceFacts.v — property C03 for WHOLE runs: every required file is completed exactly once (one first pass, and one
   final pass exactly when the first pass reported dependencies), and its commands run the prescribed number of times,
   for ANY schedule, fuel and oracle (V1: any mode and ANY verdict; V2: any mode, verdict VOk; V3: modes other than Clean,
   verdict VOk, legal tree).  Everything below is proved (nothing assumed); `Print Assumptions` of the deliverables is closed.

   PART 0  list helpers; `pp_run_deps_nonempty` (a pass never reports an EMPTY list of dependencies).
   PART 1  `run_loop_all`: a generic induction on the coordinator loop with an invariant over (ghost state, world, trace)
           that describes EVERY exit of the loop: the normal exits (VOk, the circular-dependency VErr, VFuel) and the
           exit through a failed task followed by the draining of the tasks still in flight.
   PART 2  the invariant `OJ` and its preservation.
   PART 3  V1: `trace_nodup_any` (no task completes twice, whatever the verdict), `final_pass_follows_deps`,
           `final_pass_has_first_pass`, `first_pass_ok_is_only_pass`, `first_pass_err_is_only_pass`, `pass_results`.
   PART 4  V2: `ok_run_passes` (+ `ok_run_pass_seen`, `ok_run_passes_of_processed`, `ok_run_passes_exclusive`).
   PART 5  `first_pass_static`: on a legal tree the answer of a first pass is determined by the INITIAL tree.
   PART 6  V3: `commands_exactly_once` (the command events of the whole log, file by file) and
           `commands_permutation` (the log's commands are a permutation of the commands prescribed by the sources).
   PART 7  non-vacuity: `passes_nonvacuous_t` (V1, V2 on the tree of ScheduleTempFacts PART 6, two schedules),
           `commands_exactly_once_nonvacuous` (V2, V3 on a tree with commands, a temp directive and a dependency),
           `final_pass_follows_deps_failing_run` (V1 in a failing run, with a drained final pass). *)
Require Import Txtpp.Str Txtpp.Consts Txtpp.Grammar Txtpp.Tags Txtpp.Path Txtpp.Fs Txtpp.Sink Txtpp.Pp Txtpp.Spec.
Require Import Txtpp.Dep Txtpp.Coord Txtpp.Run.
Require Import Txtpp.proofs.StrFacts Txtpp.proofs.SinkFacts Txtpp.proofs.PathFacts Txtpp.proofs.PpFacts Txtpp.proofs.EventFacts.
Require Import Txtpp.proofs.FrameFacts Txtpp.proofs.ConfluenceFacts Txtpp.proofs.DepFacts Txtpp.proofs.CoordFacts Txtpp.proofs.RunFacts Txtpp.proofs.ScheduleFacts.
Require Import Txtpp.proofs.RunEventsFacts Txtpp.proofs.ScheduleTempFacts Txtpp.proofs.MoreFacts3.
From Coq Require Import Lia Permutation.

Local Open Scope bool_scope.

(* ===================================================================================================================
   PART 0 — helpers
   =================================================================================================================== *)
Lemma snoc_eq_split {A} (l : list A) x pre y post :
  l ++ [x] = pre ++ y :: post ->
  (post = [] /\ pre = l /\ x = y) \/ (exists post', post = post' ++ [x] /\ l = pre ++ y :: post').
Proof.
  revert l. induction pre as [|p pre IH]; intros l H.
  - destruct l as [|a l]; cbn [app] in H.
    + inversion H; subst. left. auto.
    + inversion H; subst. right. exists l. split; reflexivity.
  - destruct l as [|a l]; cbn [app] in H.
    + inversion H as [[H1 H2]]. destruct pre; discriminate.
    + inversion H as [[H1 H2]]. subst a. destruct (IH l H2) as [(E1 & E2 & E3)|(post' & E1 & E2)].
      * left. subst. auto.
      * right. exists post'. subst. split; reflexivity.
Qed.

Lemma nodup_fst_fun {A B} (l : list (A * B)) a b1 b2 :
  NoDup (map fst l) -> In (a, b1) l -> In (a, b2) l -> b1 = b2.
Proof.
  induction l as [|[x y] l IH]; intros ND H1 H2; [destruct H1|].
  cbn [map fst] in ND. inversion ND as [|? ? Hn ND']; subst.
  destruct H1 as [H1|H1], H2 as [H2|H2].
  - congruence.
  - inversion H1; subst. exfalso. apply Hn. apply (in_map fst _ _ H2).
  - inversion H2; subst. exfalso. apply Hn. apply (in_map fst _ _ H1).
  - apply IH; assumption.
Qed.

Lemma NoDup_app_l {A} (l l' : list A) : NoDup (l ++ l') -> NoDup l.
Proof.
  induction l as [|x l IH]; intros H; [constructor|]. cbn [app] in H. inversion H as [|? ? Hn H']; subst.
  constructor; [intros Hi; apply Hn; apply in_or_app; left; exact Hi|apply IH; exact H'].
Qed.

(* ---- a pass never reports an empty list of dependencies ---- *)
Definition mode_ne (m : ppmode) : Prop := match m with PCollect [] => False | _ => True end.

Lemma next_mode_ne f src m it : mode_ne m -> mode_ne (next_mode f src m it).
Proof.
  intros H. destruct it as [l|d fol| |]; cbn [next_mode]; try exact H.
  unfold next_mode_d. destruct m as [| |ds]; [exact I| |].
  - destruct (dep_target f src d); exact I.
  - destruct (dep_target f src d) as [q|]; [|exact H]. destruct ds; exact I.
Qed.

Lemma ritems_mode_ne orc md src base le its : forall s s',
  ritems orc md src base le its s = StOk s' -> mode_ne (pmode s) -> mode_ne (pmode s').
Proof.
  assert (Hc : md = Clean \/ md <> Clean) by (destruct md; auto; right; discriminate).
  destruct Hc as [Hc|Hc].
  - intros s s' H Hm. unfold ritems in H.
    destruct (run_items orc md src base le its s) as [res cs] eqn:E. cbn [fst] in H. subst res.
    rewrite (run_items_clean_pmode orc md src base le its s s' cs Hc E). exact Hm.
  - induction its as [|it r IH]; intros s s' H Hm.
    + rewrite ritems_nil in H. inversion H; subst. exact Hm.
    + rewrite ritems_cons in H. destruct (do_item orc md src base le it s) as [s2|k w|] eqn:E; try discriminate.
      apply (IH s2 s' H). rewrite (do_item_mode orc md src base le it s s2 Hc E). apply next_mode_ne. exact Hm.
Qed.

Theorem pp_run_deps_nonempty orc md base src first tn w deps w' :
  pp_run orc md base src first tn w = PpHasDeps deps w' -> deps <> [].
Proof.
  rewrite pp_run_unfold.
  destruct (read_file (w_fs w) src) as [raw|]; [|discriminate].
  destruct (remove_txtpp src) as [out|]; [|discriminate].
  destruct (is_txtpp_file out); [discriminate|].
  destruct (sink_new md w out) as [[k0 w0]|k]; [|discriminate].
  rewrite pp_rest_items. cbv zeta.
  set (le := detect_le raw).
  set (sp := lsplit (mode_eqb md Clean) None (fst (take_valid (lines raw)))).
  set (s0 := mkP None false (if first then PFirst else PExec) tags_new k0 w0).
  assert (H0 : mode_ne (pmode s0)) by (destruct first; exact I).
  destruct (ritems orc md src base le (fst sp) s0) as [a|k a|] eqn:E1; try discriminate.
  destruct (snd (take_valid (lines raw))); [discriminate|].
  destruct (ritems orc md src base le (pend (snd sp)) a) as [b|k b|] eqn:E2; try discriminate.
  intros H. apply epilogue_deps in H. destruct H as [Hm _].
  pose proof (ritems_mode_ne _ _ _ _ _ _ _ _ E2 (ritems_mode_ne _ _ _ _ _ _ _ _ E1 H0)) as Hb.
  rewrite Hm in Hb. intros ->. exact Hb.
Qed.

Lemma exec_task_deps_nonempty orc cfg base t w f ds w' :
  exec_task orc cfg base t w = Some (RPp f (Some (PDeps ds)), w') -> ds <> [].
Proof.
  destruct t as [d|g b]; cbn [exec_task]; [discriminate|].
  destruct (pp_run orc (cfg_mode cfg) base g b (cfg_trailing cfg) w) as [w1|deps w1|k w1|] eqn:E; try discriminate.
  intros H. inversion H; subst. eapply pp_run_deps_nonempty; eauto.
Qed.

(* ===================================================================================================================
   PART 1 — every exit of the loop
   =================================================================================================================== *)
(* draining: the tasks drained are distinct in-flight tasks, each answered according to the protocol *)
Lemma remove_nth_perm {A} (l : list A) k d : (k < length l)%nat -> Permutation l (nth k l d :: remove_nth k l).
Proof.
  revert k. induction l as [|x r IH]; intros k H; simpl in H; [lia|].
  destruct k as [|k]; cbn [nth remove_nth]; [apply Permutation_refl|].
  eapply perm_trans; [apply perm_skip; apply (IH k); lia|apply perm_swap].
Qed.

Lemma drain_spec orc cfg base fuel : forall sched l w tr w' tr',
  drain orc cfg base fuel sched l w tr = Some (w', tr') ->
  exists added l', tr' = tr ++ added /\ Permutation l (map fst added ++ l') /\
                   forall t r, In (t, r) added -> answers t r.
Proof.
  induction fuel as [|fuel IH]; intros sched l w tr w' tr' HD; cbn [drain] in HD.
  - inversion HD; subst. exists [], l. rewrite app_nil_r. split; [reflexivity|]. split; [apply Permutation_refl|intros t r []].
  - destruct (sort_tasks l) as [|t0 sl'] eqn:E.
    + inversion HD; subst. exists [], l. rewrite app_nil_r. split; [reflexivity|]. split; [apply Permutation_refl|intros t r []].
    + cbv zeta in HD. set (sl := t0 :: sl') in *. set (k := pick sched sl) in *. set (t1 := nth k sl t0) in *.
      destruct (exec_task orc cfg base t1 w) as [[r1 w1]|] eqn:E1; [|discriminate].
      destruct (IH _ _ _ _ _ _ HD) as (added & l' & Ht & HP & Hans).
      exists ((t1, r1) :: added), l'. split; [rewrite Ht, <- app_assoc; reflexivity|]. split.
      * cbn [map fst app]. eapply perm_trans; [apply sort_tasks_perm|]. rewrite E. fold sl.
        eapply perm_trans; [apply (remove_nth_perm sl k t0); apply pick_lt|]. fold t1. apply perm_skip. exact HP.
      * intros t r [Hin|Hin]; [|apply Hans; exact Hin]. inversion Hin; subst.
        eapply exec_task_answers; eauto.
Qed.

Section AllLoop.
Variable orc : oracle.
Variable cfg : config.
Variable base : path.
Variables files dirs : list path.
Variable J : gstate -> world -> list (task * result) -> Prop.
Hypothesis J_step : forall g w tr t rest r w' s2,
  greach files dirs g -> J g w tr -> Permutation (inflight (gs g)) (t :: rest) ->
  exec_task orc cfg base t w = Some (r, w') -> handle (with_inflight (gs g) rest) r = Continue s2 ->
  J (mkG s2 (report t r (reported g)) (history g ++ [t])) w' (tr ++ [(t, r)]).

(* what the loop returns:
   `LA_live`: the loop left through its own exit test (nothing in flight: VOk, or VErr when files are left waiting —
              the circular-dependency error) or ran out of fuel; the final state is reachable and satisfies J;
   `LA_fail`: the task t, executed in a reachable state that satisfies J, answered an error; the tasks still in flight
              (`rest`) were then drained: their completions follow (t, r) in the trace, the verdict is VErr. *)
Inductive loop_all (x : verdict * world * list (task * result) * cstate) : Prop :=
| LA_live g' :
    greach files dirs g' -> gs g' = state_of x -> J g' (world_of x) (trace_of x) ->
    ((inflight (gs g') = [] /\ verdict_of x = (if has_remaining (dm (gs g')) then VErr else VOk)) \/
     (inflight (gs g') <> [] /\ verdict_of x = VFuel)) ->
    loop_all x
| LA_fail g' w1 tr1 t r rest w2 tr2 l' :
    greach files dirs g' -> J g' w1 tr1 -> Permutation (inflight (gs g')) (t :: rest) ->
    exec_task orc cfg base t w1 = Some (r, w2) -> is_err r ->
    trace_of x = tr1 ++ (t, r) :: tr2 ->
    Permutation rest (map fst tr2 ++ l') ->
    (forall t' r', In (t', r') tr2 -> answers t' r') ->
    verdict_of x = VErr ->
    loop_all x.

Lemma run_loop_all fuel : forall sched g w tr,
  greach files dirs g -> J g w tr -> loop_all (run_loop orc cfg base fuel sched (gs g) w tr).
Proof.
  assert (Hexit : forall g w tr, greach files dirs g -> J g w tr -> sort_tasks (inflight (gs g)) = [] ->
            loop_all ((if has_remaining (dm (gs g)) then VErr else VOk), w, tr, gs g)).
  { intros g w tr R HJ E. apply (LA_live _ g); [exact R|reflexivity|exact HJ|].
    left. split; [apply sort_tasks_nil; exact E|reflexivity]. }
  assert (Hfuel : forall g w tr t0 sl, greach files dirs g -> J g w tr -> sort_tasks (inflight (gs g)) = t0 :: sl ->
            loop_all (VFuel, w, tr, gs g)).
  { intros g w tr t0 sl R HJ E. apply (LA_live _ g); [exact R|reflexivity|exact HJ|].
    right. split; [|reflexivity]. intros Hn. rewrite Hn in E. discriminate E. }
  induction fuel as [|fuel IH]; intros sched g w tr R HJ.
  - destruct (sort_tasks (inflight (gs g))) as [|t0 sl'] eqn:E.
    + rewrite (run_loop_exit _ _ _ _ _ _ _ _ E). apply Hexit; assumption.
    + rewrite (run_loop_nofuel _ _ _ _ _ _ _ _ _ E). eapply Hfuel; eauto.
  - destruct (sort_tasks (inflight (gs g))) as [|t0 sl'] eqn:E.
    + rewrite (run_loop_exit _ _ _ _ _ _ _ _ E). apply Hexit; assumption.
    + rewrite (run_loop_step _ _ _ _ _ _ _ _ _ _ E). cbv zeta.
      set (sl := t0 :: sl'). set (k := pick sched sl). set (t := nth k sl t0). set (rest := remove_nth k sl).
      assert (HP : Permutation (inflight (gs g)) (t :: rest)).
      { eapply perm_trans; [apply sort_tasks_perm|]. rewrite E. apply pick_split. apply pick_lt. }
      destruct (exec_task_total orc cfg base t w) as (r & w' & Hex). rewrite Hex.
      pose proof (exec_task_answers orc cfg base _ _ _ _ Hex) as Hans.
      destruct (handle (with_inflight (gs g) rest) r) as [s2| |] eqn:Hh.
      * set (g2 := mkG s2 (report t r (reported g)) (history g ++ [t])).
        assert (R2 : greach files dirs g2).
        { eapply greach_step; [exact R|]. apply (gstep_continue g t rest r s2); assumption. }
        assert (HJ2 : J g2 w' (tr ++ [(t, r)])) by (apply (J_step g w tr t rest r w' s2); assumption).
        apply (IH (tl sched) g2 w' (tr ++ [(t, r)]) R2 HJ2).
      * cbn [with_inflight inflight].
        destruct (drain orc cfg base (length rest) (tl sched) rest w' (tr ++ [(t, r)])) as [[w2 tr2]|] eqn:Hd.
        -- destruct (drain_spec _ _ _ _ _ _ _ _ _ _ Hd) as (added & l' & Ht & HPd & Hansd).
           apply (LA_fail _ g w tr t r rest w' added l'); try assumption.
           ++ apply (handle_fail_is_err _ _ Hh).
           ++ cbn [trace_of fst snd]. rewrite Ht, <- app_assoc. reflexivity.
           ++ reflexivity.
        -- exfalso. destruct (drain_total orc cfg base (length rest) (tl sched) rest w' (tr ++ [(t, r)])) as (wd & trd & Hdt).
           rewrite Hdt in Hd. discriminate.
      * exfalso. exact (handle_no_panic files dirs g R t rest r HP Hans Hh).
Qed.
End AllLoop.

(* the whole run: either it stopped before the loop (empty trace), or it is the loop started in `ginit` *)
Lemma txtpp_run_cases orc cfg fuel sched w :
  (trace_of (txtpp_run orc cfg fuel sched w) = [] /\ verdict_of (txtpp_run orc cfg fuel sched w) = VErr) \/
  exists base files dirs,
    os_resolve (w_fs w) (cfg_base cfg) = Some base /\
    resolve_inputs (w_fs w) base (cfg_inputs cfg) [] [] = Some (files, dirs) /\
    txtpp_run orc cfg fuel sched w = run_loop orc cfg base fuel sched (gs (ginit files dirs)) w [].
Proof.
  unfold txtpp_run. destruct (cfg_threads cfg =? 0); [left; split; reflexivity|].
  destruct (os_resolve (w_fs w) (cfg_base cfg)) as [base|] eqn:Eb; [|left; split; reflexivity].
  destruct (resolve_inputs (w_fs w) base (cfg_inputs cfg) [] []) as [[files dirs]|] eqn:Ei; [|left; split; reflexivity].
  right. exists base, files, dirs. split; [reflexivity|]. split; [exact Ei|reflexivity].
Qed.

(* ===================================================================================================================
   PART 2 — the invariant
   =================================================================================================================== *)
(* "every final pass of the trace is preceded by the first pass of the same file, which reported dependencies" *)
Definition follows (tr : list (task * result)) : Prop :=
  forall pre f r post, tr = pre ++ (TPp f false, r) :: post ->
    exists ds, ds <> [] /\ In (TPp f true, RPp f (Some (PDeps ds))) pre.

Definition OJ (g : gstate) (w : world) (tr : list (task * result)) : Prop :=
  history g = map fst tr /\
  (forall t r, In (t, r) tr -> answers t r /\ ~ is_err r) /\
  (forall f ds, In (f, ds) (reported g) <-> In (TPp f true, RPp f (Some (PDeps ds))) tr) /\
  (forall f, In (TPp f false) (inflight (gs g)) ->
     exists ds, ds <> [] /\ In (TPp f true, RPp f (Some (PDeps ds))) tr) /\
  follows tr.

Lemma inflight_exec_file_final s g b f :
  In (TPp f false) (inflight (exec_file s g b)) -> In (TPp f false) (inflight s) \/ (b = false /\ f = g).
Proof.
  unfold exec_file. destruct (b && pmem g (seen s)); [intros H; left; exact H|].
  cbn [inflight]. intros H. apply in_app_or in H. destruct H as [H|[H|[]]]; [left; exact H|].
  inversion H; subst. right. split; reflexivity.
Qed.
Lemma inflight_fold_first_final fs f : forall s,
  In (TPp f false) (inflight (fold_left (fun s g => exec_file s g true) fs s)) -> In (TPp f false) (inflight s).
Proof.
  induction fs as [|g r IH]; intros s H; [exact H|]. cbn [fold_left] in H. apply IH in H.
  apply inflight_exec_file_final in H. destruct H as [H|[H _]]; [exact H|discriminate].
Qed.
Lemma inflight_exec_dir_final s d f : In (TPp f false) (inflight (exec_dir s d)) -> In (TPp f false) (inflight s).
Proof.
  unfold exec_dir. destruct (pmem d (seen_dirs s)); [intros H; exact H|].
  cbn [inflight]. intros H. apply in_app_or in H. destruct H as [H|[H|[]]]; [exact H|discriminate].
Qed.
Lemma inflight_fold_dir_final ds f : forall s,
  In (TPp f false) (inflight (fold_left exec_dir ds s)) -> In (TPp f false) (inflight s).
Proof.
  induction ds as [|d r IH]; intros s H; [exact H|]. cbn [fold_left] in H. apply IH in H.
  apply inflight_exec_dir_final in H. exact H.
Qed.
Lemma inflight_fold_final_final rel f : forall s,
  In (TPp f false) (inflight (fold_left (fun s g => exec_file s g false) rel s)) ->
  In (TPp f false) (inflight s) \/ In f rel.
Proof.
  induction rel as [|g r IH]; intros s H; [left; exact H|]. cbn [fold_left] in H. apply IH in H.
  destruct H as [H|H]; [|right; right; exact H].
  apply inflight_exec_file_final in H. destruct H as [H|[_ H]]; [left; exact H|right; left; symmetry; exact H].
Qed.

Lemma OJ_init files dirs w : OJ (ginit files dirs) w [].
Proof.
  split; [reflexivity|]. split; [intros t r []|]. split; [intros f ds; split; intros []|]. split.
  - intros f H. exfalso. cbn [ginit gs] in H. apply inflight_fold_dir_final in H. apply inflight_fold_first_final in H.
    destruct H.
  - intros pre f r post H. destruct pre; discriminate.
Qed.

Lemma OJ_step orc cfg base files dirs g w tr t rest r w' s2 :
  greach files dirs g -> OJ g w tr -> Permutation (inflight (gs g)) (t :: rest) ->
  exec_task orc cfg base t w = Some (r, w') -> handle (with_inflight (gs g) rest) r = Continue s2 ->
  OJ (mkG s2 (report t r (reported g)) (history g ++ [t])) w' (tr ++ [(t, r)]).
Proof.
  intros R (H1 & H2 & H3 & H4 & H5) HP Hex Hh.
  pose proof (exec_task_answers orc cfg base _ _ _ _ Hex) as Hans.
  pose proof (handle_continue_not_err _ _ _ Hh) as Hne.
  assert (Hin_t : In t (inflight (gs g))) by (apply (Permutation_in t (Permutation_sym HP)); left; reflexivity).
  assert (Hrest : forall x, In x rest -> In x (inflight (gs g))).
  { intros x Hx. apply (Permutation_in x (Permutation_sym HP)). right. exact Hx. }
  split; [|split; [|split; [|split]]]; cbn [history reported gs].
  - rewrite map_app, H1. reflexivity.
  - intros t1 r1 Hin. apply in_app_or in Hin. destruct Hin as [Hin|[Hin|[]]]; [apply H2; exact Hin|].
    inversion Hin; subst t1 r1. split; assumption.
  - intros f ds. rewrite in_app_iff. split.
    + intros Hin. destruct t as [d|f' [|]]; cbn [report] in Hin; try (left; apply H3; exact Hin).
      destruct r as [x|f'' [[|ds']|]]; cbn [report] in Hin; try (left; apply H3; exact Hin).
      destruct Hin as [Hin|Hin]; [|left; apply H3; exact Hin].
      inversion Hin; subst f' ds'. cbn [answers] in Hans. destruct Hans as [-> _]. right. left. reflexivity.
    + intros [Hin|[Hin|[]]].
      * apply report_mono. apply H3. exact Hin.
      * inversion Hin; subst t r. cbn [report]. left. reflexivity.
  - (* final passes in flight *)
    intros f Hf.
    assert (Hold : In (TPp f false) rest -> exists ds, ds <> [] /\ In (TPp f true, RPp f (Some (PDeps ds))) (tr ++ [(t, r)])).
    { intros Hi. destruct (H4 f (Hrest _ Hi)) as (ds & Hd & Hin). exists ds. split; [exact Hd|].
      apply in_or_app. left. exact Hin. }
    destruct (handle_cases _ _ _ Hh) as [(fs & ds & Er & Es)|[(f0 & m & rel & Er & En & Es)|
                                         [(f0 & ds & m & Er & Ea & Es)|(f0 & ds & m & Er & Ea & Es)]]]; subst s2.
    + apply inflight_fold_dir_final in Hf. apply inflight_fold_first_final in Hf. apply Hold. exact Hf.
    + apply inflight_fold_final_final in Hf. destruct Hf as [Hf|Hf]; [apply Hold; exact Hf|].
      destruct (inv_reach _ _ _ R) as [HI _].
      change (dm (with_inflight (gs g) rest)) with (dm (gs g)) in En.
      destruct (notify_finish_spec (dm (gs g)) f0 (i_dm HI)) as (m' & out & En' & _ & _ & _ & _ & Hout).
      rewrite En in En'. inversion En'; subst m' out.
      destruct (proj1 (Hout f) Hf) as [Hw _].
      destruct (i_w_dep HI f f0 Hw) as (ds & Hrep & Hd).
      exists ds. split; [intros ->; destruct Hd|]. apply in_or_app. left. apply H3. exact Hrep.
    + apply inflight_fold_first_final in Hf. apply Hold. exact Hf.
    + apply inflight_exec_file_final in Hf. destruct Hf as [Hf|[_ ->]]; [apply Hold; exact Hf|].
      subst r. exists ds. split; [eapply exec_task_deps_nonempty; eauto|].
      apply in_or_app. right. left.
      destruct t as [d|f' b]; cbn [answers] in Hans; [destruct Hans|]. destruct Hans as [<- Hb].
      destruct b; [reflexivity|]. exfalso. apply (Hb eq_refl ds). reflexivity.
  - (* follows *)
    intros pre f r0 post E. apply snoc_eq_split in E.
    destruct E as [(_ & -> & Ex)|(post' & _ & E)].
    + inversion Ex; subst t r0. apply (H4 f Hin_t).
    + apply (H5 pre f r0 post' E).
Qed.

(* ===================================================================================================================
   PART 3 — V1: the trace of ANY run
   =================================================================================================================== *)
(* the three facts, for the loop started in the initial coordinator state *)
Lemma loop_trace_facts orc cfg base files dirs fuel sched w :
  let x := run_loop orc cfg base fuel sched (gs (ginit files dirs)) w [] in
  NoDup (map fst (trace_of x)) /\ follows (trace_of x) /\ (forall t r, In (t, r) (trace_of x) -> answers t r).
Proof.
  intros x.
  destruct (run_loop_all orc cfg base files dirs OJ (OJ_step orc cfg base files dirs) fuel sched (ginit files dirs) w []
              (greach_init files dirs) (OJ_init files dirs w))
    as [g' R' Es (H1 & H2 & H3 & H4 & H5) _ | g' w1 tr1 t r rest w2 tr2 l' R' (H1 & H2 & H3 & H4 & H5) HP Hex Herr Ht HPd Hans Hv];
    subst x.
  - split; [|split].
    + rewrite <- H1. apply (history_nodup files dirs g' R').
    + exact H5.
    + intros t r Hin. apply (H2 t r Hin).
  - destruct (inv_reach _ _ _ R') as [HI _].
    assert (Hfl : forall y, In y (t :: map fst tr2) -> In y (inflight (gs g'))).
    { intros y Hy. apply (Permutation_in y (Permutation_sym HP)). destruct Hy as [Hy|Hy]; [left; exact Hy|right].
      apply (Permutation_in y (Permutation_sym HPd)). apply in_or_app. left. exact Hy. }
    rewrite Ht. split; [|split].
    + rewrite map_app. cbn [map fst]. rewrite <- H1. apply NoDup_app_intro.
      * apply (i_hist_nodup HI).
      * pose proof (Permutation_NoDup HP (i_fl_nodup HI)) as ND.
        assert (HP2 : Permutation (t :: rest) ((t :: map fst tr2) ++ l')) by (cbn [app]; apply perm_skip; exact HPd).
        apply (Permutation_NoDup HP2) in ND. apply NoDup_app_l in ND. exact ND.
      * intros y Hy Hy2. apply (i_hist_nfl HI y Hy). apply Hfl. exact Hy2.
    + intros pre f r0 post E. apply app_eq_app in E. destruct E as (l & [[E1 E2]|[E1 E2]]).
      * (* the final pass is in tr1, or it is the failed task *)
        destruct l as [|y l].
        -- rewrite app_nil_r in E1. subst pre. cbn [app] in E2. inversion E2; subst t r0.
           apply (H4 f). apply Hfl. left. reflexivity.
        -- cbn [app] in E2. inversion E2; subst y. destruct (H5 pre f r0 l E1) as (ds & Hd & Hin).
           exists ds. split; assumption.
      * (* the final pass is the failed task or a drained task *)
        assert (Hf : In (TPp f false) (t :: map fst tr2)).
        { change (t :: map fst tr2) with (map fst ((t, r) :: tr2)). rewrite E2.
          rewrite map_app. apply in_or_app. right. left. reflexivity. }
        destruct (H4 f (Hfl _ Hf)) as (ds & Hd & Hin). exists ds. split; [exact Hd|].
        rewrite E1. apply in_or_app. left. exact Hin.
    + intros t0 r0 Hin. apply in_app_or in Hin. destruct Hin as [Hin|[Hin|Hin]].
      * apply (H2 t0 r0 Hin).
      * inversion Hin; subst. eapply exec_task_answers; eauto.
      * apply (Hans t0 r0 Hin).
Qed.

Lemma run_trace_facts orc cfg fuel sched w :
  let x := txtpp_run orc cfg fuel sched w in
  NoDup (map fst (trace_of x)) /\ follows (trace_of x) /\ (forall t r, In (t, r) (trace_of x) -> answers t r).
Proof.
  cbv zeta. destruct (txtpp_run_cases orc cfg fuel sched w) as [[E _]|(base & files & dirs & _ & _ & E)]; rewrite E.
  - split; [constructor|]. split; [|intros t r []]. intros pre f r post H. destruct pre; discriminate.
  - apply loop_trace_facts.
Qed.

(* C03, any verdict: no task (pass of a file, scan of a directory) completes twice in a run — including the tasks that
   are drained after a failure *)
Theorem trace_nodup_any orc cfg fuel sched w :
  NoDup (map fst (trace_of (txtpp_run orc cfg fuel sched w))).
Proof. apply run_trace_facts. Qed.

(* every completed pass answered for its own file, and a final pass never answers with dependencies *)
Theorem pass_results orc cfg fuel sched w f b r :
  In (TPp f b, r) (trace_of (txtpp_run orc cfg fuel sched w)) ->
  r = RPp f None \/ r = RPp f (Some POk) \/ (b = true /\ exists ds, ds <> [] /\ r = RPp f (Some (PDeps ds))).
Proof.
  intros Hin. destruct (run_trace_facts orc cfg fuel sched w) as (_ & _ & Hans).
  pose proof (Hans _ _ Hin) as Ha. destruct r as [y|g res]; cbn [answers] in Ha; [destruct Ha|].
  destruct Ha as [-> Hb]. destruct res as [[|ds]|]; auto.
  right. right. destruct b; [|exfalso; apply (Hb eq_refl ds); reflexivity]. split; [reflexivity|].
  exists ds. split; [|reflexivity].
  (* non-empty: the pass was executed *)
  pose proof (RunEventsFacts.txtpp_run_chain orc cfg fuel sched w) as HC. cbv zeta in HC.
  apply in_split in Hin. destruct Hin as (pre & post & E). rewrite E in HC.
  apply RunEventsFacts.exec_chain_split in HC. destruct HC as (w1 & _ & HC).
  inversion HC as [|w0 t0 r0 w2 rest w3 Hex _]; subst.
  eapply exec_task_deps_nonempty; eauto.
Qed.

(* V1, first half: in ANY run — whatever the schedule, the fuel, the oracle, the mode and the verdict, the tasks
   drained after a failure included — a final pass of f completes only AFTER the first pass of f has completed and
   reported a non-empty list of dependencies *)
Theorem final_pass_follows_deps orc cfg fuel sched w pre f r post :
  trace_of (txtpp_run orc cfg fuel sched w) = pre ++ (TPp f false, r) :: post ->
  exists ds, ds <> [] /\ In (TPp f true, RPp f (Some (PDeps ds))) pre.
Proof. intros E. destruct (run_trace_facts orc cfg fuel sched w) as (_ & F & _). apply (F pre f r post E). Qed.

Corollary final_pass_has_first_pass orc cfg fuel sched w f r :
  In (TPp f false, r) (trace_of (txtpp_run orc cfg fuel sched w)) ->
  exists ds, ds <> [] /\ In (TPp f true, RPp f (Some (PDeps ds))) (trace_of (txtpp_run orc cfg fuel sched w)).
Proof.
  intros Hin. apply in_split in Hin. destruct Hin as (pre & post & E).
  destruct (final_pass_follows_deps orc cfg fuel sched w pre f r post E) as (ds & Hd & Hin).
  exists ds. split; [exact Hd|]. rewrite E. apply in_or_app. left. exact Hin.
Qed.

(* V1, second half: a file whose first pass answered POk (or failed) gets no further pass: that first pass is the only
   task of the file in the whole trace *)
Theorem first_pass_ok_is_only_pass orc cfg fuel sched w f :
  In (TPp f true, RPp f (Some POk)) (trace_of (txtpp_run orc cfg fuel sched w)) ->
  forall b r, In (TPp f b, r) (trace_of (txtpp_run orc cfg fuel sched w)) -> b = true /\ r = RPp f (Some POk).
Proof.
  intros H1 b r H2. pose proof (trace_nodup_any orc cfg fuel sched w) as ND. destruct b.
  - split; [reflexivity|]. apply (nodup_fst_fun _ _ _ _ ND H2 H1).
  - exfalso. destruct (final_pass_has_first_pass orc cfg fuel sched w f r H2) as (ds & _ & H3).
    pose proof (nodup_fst_fun _ _ _ _ ND H1 H3) as E. discriminate E.
Qed.

Theorem first_pass_err_is_only_pass orc cfg fuel sched w f :
  In (TPp f true, RPp f None) (trace_of (txtpp_run orc cfg fuel sched w)) ->
  forall b r, In (TPp f b, r) (trace_of (txtpp_run orc cfg fuel sched w)) -> b = true /\ r = RPp f None.
Proof.
  intros H1 b r H2. pose proof (trace_nodup_any orc cfg fuel sched w) as ND. destruct b.
  - split; [reflexivity|]. apply (nodup_fst_fun _ _ _ _ ND H2 H1).
  - exfalso. destruct (final_pass_has_first_pass orc cfg fuel sched w f r H2) as (ds & _ & H3).
    pose proof (nodup_fst_fun _ _ _ _ ND H1 H3) as E. discriminate E.
Qed.

(* ===================================================================================================================
   PART 4 — V2: the passes of a file in a successful run
   =================================================================================================================== *)
(* the passes of the file f in a trace, in completion order *)
Definition pass_of (f : path) (x : task * result) : bool :=
  match fst x with TPp g _ => path_eqb g f | TScan _ => false end.
Definition passes_of (f : path) (tr : list (task * result)) : list (task * result) := filter (pass_of f) tr.

Lemma passes_of_app f a b : passes_of f (a ++ b) = passes_of f a ++ passes_of f b.
Proof. apply filter_app. Qed.
Lemma passes_of_cons_same f b r l : passes_of f ((TPp f b, r) :: l) = (TPp f b, r) :: passes_of f l.
Proof. unfold passes_of. cbn [filter pass_of fst]. rewrite DepFacts.path_eqb_refl. reflexivity. Qed.
Lemma passes_of_In f l y : In y (passes_of f l) <-> In y l /\ exists b, fst y = TPp f b.
Proof.
  unfold passes_of. rewrite filter_In. unfold pass_of. split; intros [H1 H2]; (split; [exact H1|]).
  - destruct (fst y) as [d|g b]; [discriminate|]. apply DepFacts.path_eqb_eq in H2. subst g. exists b. reflexivity.
  - destruct H2 as [b ->]. apply DepFacts.path_eqb_refl.
Qed.
Lemma passes_none f l : (forall b r, ~ In (TPp f b, r) l) -> passes_of f l = [].
Proof.
  intros H. destruct (passes_of f l) as [|y r] eqn:E; [reflexivity|]. exfalso.
  assert (Hy : In y (passes_of f l)) by (rewrite E; left; reflexivity).
  apply passes_of_In in Hy. destruct Hy as [Hy [b Hb]]. destruct y as [t r0]. cbn [fst] in Hb. subst t.
  apply (H b r0 Hy).
Qed.

Lemma nodup_fst_once {A B} (l l1 l2 : list (A * B)) a x y :
  NoDup (map fst l) -> l = l1 ++ (a, x) :: l2 -> ~ In (a, y) l1 /\ ~ In (a, y) l2.
Proof.
  intros ND ->. rewrite map_app in ND. cbn [map fst] in ND. apply NoDup_remove_2 in ND.
  split; intros H; apply ND; apply in_or_app; [left|right]; apply (in_map fst _ _ H).
Qed.

(* the two shapes *)
Definition one_pass (f : path) (tr : list (task * result)) : Prop :=
  passes_of f tr = [(TPp f true, RPp f (Some POk))].
Definition two_passes (f : path) (ds : list file) (tr : list (task * result)) : Prop :=
  ds <> [] /\ passes_of f tr = [(TPp f true, RPp f (Some (PDeps ds))); (TPp f false, RPp f (Some POk))].

Lemma ok_loop_passes orc cfg base files dirs fuel sched w :
  let x := run_loop orc cfg base fuel sched (gs (ginit files dirs)) w [] in
  verdict_of x = VOk ->
  (forall f, In f (seen (state_of x)) -> one_pass f (trace_of x) \/ exists ds, two_passes f ds (trace_of x)) /\
  (forall f b r, In (TPp f b, r) (trace_of x) -> In f (seen (state_of x))).
Proof.
  intros x Hv.
  pose proof (loop_trace_facts orc cfg base files dirs fuel sched w) as (ND & HF & _). fold x in ND, HF.
  destruct (run_loop_all orc cfg base files dirs OJ (OJ_step orc cfg base files dirs) fuel sched (ginit files dirs) w []
              (greach_init files dirs) (OJ_init files dirs w))
    as [g' R' Es (H1 & H2 & H3 & H4 & H5) Hex | g' w1 tr1 t r rest w2 tr2 l' R' _ HP Hex Herr Ht HPd Hans Hv'];
    fold x in Es, H1, H2, H3, H5, Hex || fold x in Hv'; [|congruence].
  destruct Hex as [[Hfl Hv']|[_ Hv']]; [|congruence].
  destruct (exit_verdict_cases _ _ Hv') as [[Hc _]|[_ Hrem]]; [congruence|].
  destruct (inv_reach _ _ _ R') as [HI _].
  split.
  2:{ intros f b r Hin. rewrite <- Es. apply (i_hist_seen HI (TPp f b)). rewrite H1. apply (in_map fst _ _ Hin). }
  intros f Hseen. rewrite <- Es in Hseen.
  assert (Hfin : finished g' f).
  { unfold finished. destruct (pmem f (fin (dm (gs g')))) eqn:Ef; [reflexivity|]. exfalso.
    assert (Ht' : has_remaining (dm (gs g')) = true).
    { apply (cycle_verdict_iff files dirs g' R' Hfl). exists f. split; [unfold is_seen; apply pmem_In; exact Hseen|].
      unfold finished. rewrite Ef. discriminate. }
    congruence. }
  (* the result of a completed pass of the live part *)
  assert (Hres : forall b r, In (TPp f b, r) (trace_of x) ->
            r = RPp f (Some POk) \/ (b = true /\ exists ds, r = RPp f (Some (PDeps ds)))).
  { intros b r Hin. destruct (H2 _ _ Hin) as [Ha Hne]. destruct r as [y|g res]; cbn [answers] in Ha; [destruct Ha|].
    destruct Ha as [-> Hb]. destruct res as [[|ds]|]; [left; reflexivity| |exfalso; apply Hne; exact I].
    right. destruct b; [split; [reflexivity|exists ds; reflexivity]|exfalso; apply (Hb eq_refl ds); reflexivity]. }
  destruct (finished_in_history files dirs g' R' f Hfin) as [Hh|[Hh Hnr]]; rewrite H1 in Hh;
    apply in_map_iff in Hh; destruct Hh as ([t1 r1] & Et & Hin1); cbn [fst] in Et; subst t1.
  - (* two passes *)
    right. destruct (Hres _ _ Hin1) as [->|[Hb _]]; [|discriminate].
    pose proof Hin1 as Hs. apply in_split in Hs. destruct Hs as (pre & post & E).
    destruct (HF pre f _ post E) as (ds & Hd & Hin0).
    apply in_split in Hin0. destruct Hin0 as (p1 & p2 & E0).
    exists ds. split; [exact Hd|].
    assert (E' : trace_of x = (p1 ++ (TPp f true, RPp f (Some (PDeps ds))) :: p2) ++ (TPp f false, RPp f (Some POk)) :: post)
      by (rewrite <- E0; exact E).
    assert (E'' : trace_of x = p1 ++ (TPp f true, RPp f (Some (PDeps ds))) :: (p2 ++ (TPp f false, RPp f (Some POk)) :: post))
      by (rewrite E', <- app_assoc; reflexivity).
    assert (Hno : forall l, (forall y, In y l -> In y (trace_of x)) ->
              (forall r', ~ In (TPp f true, r') l) -> (forall r', ~ In (TPp f false, r') l) -> passes_of f l = []).
    { intros l _ Ht Hf. apply passes_none. intros [|] r'; [apply Ht|apply Hf]. }
    rewrite E'', passes_of_app, passes_of_cons_same, passes_of_app, passes_of_cons_same.
    rewrite (Hno p1), (Hno p2), (Hno post); [reflexivity| | | | | | | | |].
    + intros y Hy. rewrite E''. apply in_or_app. right. right. apply in_or_app. right. right. exact Hy.
    + intros r' Hi. apply (proj2 (nodup_fst_once _ _ _ _ _ r' ND E'')). apply in_or_app. right. right. exact Hi.
    + intros r' Hi. apply (proj2 (nodup_fst_once _ _ _ _ _ r' ND E')). exact Hi.
    + intros y Hy. rewrite E''. apply in_or_app. right. right. apply in_or_app. left. exact Hy.
    + intros r' Hi. apply (proj2 (nodup_fst_once _ _ _ _ _ r' ND E'')). apply in_or_app. left. exact Hi.
    + intros r' Hi. apply (proj1 (nodup_fst_once _ _ _ _ _ r' ND E')). apply in_or_app. right. right. exact Hi.
    + intros y Hy. rewrite E''. apply in_or_app. left. exact Hy.
    + intros r' Hi. apply (proj1 (nodup_fst_once _ _ _ _ _ r' ND E'')). exact Hi.
    + intros r' Hi. apply (proj1 (nodup_fst_once _ _ _ _ _ r' ND E')). apply in_or_app. left. exact Hi.
  - (* one pass *)
    left. destruct (Hres _ _ Hin1) as [->|[_ [ds ->]]]; [|exfalso; apply (Hnr ds); apply H3; exact Hin1].
    pose proof Hin1 as Hs. apply in_split in Hs. destruct Hs as (p1 & p2 & E).
    assert (Hnf : forall r', ~ In (TPp f false, r') (trace_of x)).
    { intros r' Hi. apply in_split in Hi. destruct Hi as (pre & post & E2).
      destruct (HF pre f r' post E2) as (ds & _ & Hi0).
      assert (Hi1 : In (TPp f true, RPp f (Some (PDeps ds))) (trace_of x)) by (rewrite E2; apply in_or_app; left; exact Hi0).
      pose proof (nodup_fst_fun _ _ _ _ ND Hin1 Hi1) as Eq. discriminate Eq. }
    unfold one_pass. rewrite E, passes_of_app, passes_of_cons_same.
    rewrite (passes_none f p1), (passes_none f p2); [reflexivity| |].
    + intros [|] r' Hi.
      * apply (proj2 (nodup_fst_once _ _ _ _ _ r' ND E)). exact Hi.
      * apply (Hnf r'). rewrite E. apply in_or_app. right. right. exact Hi.
    + intros [|] r' Hi.
      * apply (proj1 (nodup_fst_once _ _ _ _ _ r' ND E)). exact Hi.
      * apply (Hnf r'). rewrite E. apply in_or_app. left. exact Hi.
Qed.

(* V2: in a run with verdict VOk every seen file has been given EXACTLY
   (a) the one pass `(TPp f true, POk)`, or
   (b) the two passes `(TPp f true, PDeps ds)` (ds non-empty) THEN `(TPp f false, POk)`, in this order;
   and there is no other pass of f in the trace (`passes_of f` keeps ALL the passes of f, in completion order) *)
Theorem ok_run_passes orc cfg fuel sched w :
  let x := txtpp_run orc cfg fuel sched w in
  verdict_of x = VOk ->
  forall f, In f (seen (state_of x)) ->
    one_pass f (trace_of x) \/ exists ds, two_passes f ds (trace_of x).
Proof.
  cbv zeta. intros Hv. destruct (txtpp_run_cases orc cfg fuel sched w) as [[_ E]|(base & files & dirs & _ & _ & E)];
    [congruence|]. rewrite E in *. apply (ok_loop_passes orc cfg base files dirs fuel sched w Hv).
Qed.

(* ... the seen files are exactly the files with a pass in the trace *)
Theorem ok_run_pass_seen orc cfg fuel sched w :
  let x := txtpp_run orc cfg fuel sched w in
  verdict_of x = VOk ->
  forall f, In f (seen (state_of x)) <-> exists b r, In (TPp f b, r) (trace_of x).
Proof.
  cbv zeta. intros Hv. destruct (txtpp_run_cases orc cfg fuel sched w) as [[_ E]|(base & files & dirs & _ & _ & E)];
    [congruence|]. rewrite E in *.
  destruct (ok_loop_passes orc cfg base files dirs fuel sched w Hv) as [HA HB]. intros f. split.
  - intros Hs. destruct (HA f Hs) as [H|[ds [_ H]]].
    + exists true, (RPp f (Some POk)). apply (proj1 (passes_of_In f _ _)). rewrite H. left. reflexivity.
    + exists false, (RPp f (Some POk)). apply (proj1 (passes_of_In f _ _)). rewrite H. right. left. reflexivity.
  - intros (b & r & Hin). apply (HB f b r Hin).
Qed.

(* ... stated for every file that has a pass in the trace *)
Corollary ok_run_passes_of_processed orc cfg fuel sched w :
  let x := txtpp_run orc cfg fuel sched w in
  verdict_of x = VOk ->
  forall f b r, In (TPp f b, r) (trace_of x) ->
    one_pass f (trace_of x) \/ exists ds, two_passes f ds (trace_of x).
Proof.
  cbv zeta. intros Hv f b r Hin. apply (ok_run_passes orc cfg fuel sched w Hv).
  apply (ok_run_pass_seen orc cfg fuel sched w Hv). exists b, r. exact Hin.
Qed.

(* "exactly one of": the two shapes exclude each other *)
Lemma ok_run_passes_exclusive f ds tr : one_pass f tr -> two_passes f ds tr -> False.
Proof. unfold one_pass, two_passes. intros H1 [_ H2]. rewrite H1 in H2. discriminate H2. Qed.

(* ===================================================================================================================
   PART 5 — the answer of a first pass, read off the initial tree
   =================================================================================================================== *)
Lemma first_pass_static orc cfg fuel sched w f r :
  cfg_mode cfg <> Clean -> NoDup (map fst (w_fs w)) -> legal_names (w_fs w) ->
  (forall f, In f (src_files (w_fs w)) -> cands_ok cfg w f) ->
  In (TPp f true, r) (trace_of (txtpp_run orc cfg fuel sched w)) ->
  (r = RPp f (Some POk) -> dep_targets (w_fs w) f (items_of (cfg_mode cfg) w f) = []) /\
  (forall ds, r = RPp f (Some (PDeps ds)) -> ds = dep_targets (w_fs w) f (items_of (cfg_mode cfg) w f)).
Proof.
  intros Hmd ND WF Hok Hin. set (md := cfg_mode cfg) in *.
  pose proof (txtpp_run_chain orc cfg fuel sched w) as HC. cbv zeta in HC.
  pose proof Hin as Hs. apply in_split in Hs. destruct Hs as (pre & post & E).
  rewrite E in HC. apply exec_chain_split in HC. destruct HC as (wt & Hpre & HC).
  inversion HC as [|w0 t0 r0 w2 rest w3 Hex _]; subst.
  assert (Hr : ran_in orc cfg (run_base cfg w) w (trace_of (txtpp_run orc cfg fuel sched w)) (TPp f true) r wt).
  { exists pre, post. split; [exact E|exact Hpre]. }
  assert (Hg : In f (src_files (w_fs w))).
  { apply (txtpp_run_trace_good orc cfg fuel sched w ND WF (TPp f true) r Hin). }
  destruct (ran_in_txtpp_same_legal orc cfg fuel sched w (TPp f true) r wt ND WF Hr) as [HS HD].
  assert (Ef : fs_get (w_fs wt) f = fs_get (w_fs w) f) by (apply HS; apply (src_files_txtpp _ _ Hg)).
  assert (Ha : agree (fun p => negb (is_txtpp_file p)) (w_fs w) (w_fs wt)).
  { split.
    - intros p Hp. symmetry. apply HS. destruct (is_txtpp_file p); [reflexivity|discriminate].
    - intros p. symmetry. apply HD. }
  destruct (Hok f Hg) as [Hca Hct]. fold md in Hca, Hct.
  assert (Hca' : cands_apart md wt f).
  { unfold cands_apart. rewrite (items_of_same md w wt f Ef), (writes_of_same md w wt f Ef). exact Hca. }
  assert (Hdt : dep_targets (w_fs w) f (items_of md w f) = dep_targets (w_fs wt) f (items_of md wt f)).
  { rewrite (items_of_same md w wt f Ef).
    apply (dep_targets_agree (fun p => negb (is_txtpp_file p)) _ _ f _ Ha).
    intros c Hc. rewrite (Hct c Hc). reflexivity. }
  cbn [exec_task] in Hex. fold md in Hex.
  destruct (pp_run orc md (run_base cfg w) f true (cfg_trailing cfg) wt) as [w1|deps w1|k w1|] eqn:Ep;
    inversion Hex; subst; (split; [intros Hr0|intros ds Hr0]); try discriminate.
  - rewrite Hdt. apply (first_pass_ok_no_targets orc md _ f _ wt w2 Hmd Hca' Ep).
  - inversion Hr0; subst ds. rewrite Hdt.
    apply (first_pass_reports_exactly orc md _ f _ wt deps w2 Hmd Hca' Ep).
Qed.

(* ===================================================================================================================
   PART 6 — V3: how many times each command of a source is executed by a successful run
   =================================================================================================================== *)
(* the commands attributed to the source f by the trace: what its passes logged, in completion order, each pass
   evaluated in the INITIAL tree w (MoreFacts3.task_runs: all the run directives for a pass that answered POk, the run
   directives before the first dependency directive for a first pass that answered with dependencies) *)
Definition attributed (cfg : config) (base : path) (w : world) (f : path) (tr : list (task * result)) : list event :=
  flat_map (fun x => task_runs cfg base (fst x) (snd x) w) (passes_of f tr).

Lemma all_runs_app src base a b : all_runs src base (a ++ b) = all_runs src base a ++ all_runs src base b.
Proof. unfold all_runs. apply flat_map_app. Qed.

Lemma dep_target_not_run f src base d fol q :
  dep_target f src d = Some q -> item_runs src base PExec (IDir d fol) = [].
Proof. unfold dep_target. cbn [item_runs]. destruct (d_ty d); try discriminate; reflexivity. Qed.

(* V3.  A successful run in a mode other than Clean, on a legal tree whose include/after candidates are `.txtpp` paths
   apart from what the passes write (MoreFacts3.cands_ok: static).  With its := the items of f in the INITIAL tree:
   - the command events of the whole log are, in order, the concatenation over the trace of the commands of each task
     (run_commands_legal);
   - a seen file WITHOUT dependency target got exactly one pass, and that pass logged `all_runs its`: each of its run
     directives is executed exactly once, in source order;
   - a seen file WITH a dependency target, its = pre ++ [first dependency directive d] ++ post, got exactly two passes:
     the first pass logged `all_runs pre`, the final pass logged `all_runs its = all_runs pre ++ all_runs post`:
     the run directives that precede the first dependency directive are executed exactly TWICE, those that follow it
     exactly ONCE. *)
Theorem commands_exactly_once orc cfg fuel sched w :
  let x := txtpp_run orc cfg fuel sched w in
  let base := run_base cfg w in
  let md := cfg_mode cfg in
  md <> Clean -> NoDup (map fst (w_fs w)) -> legal_names (w_fs w) ->
  (forall f, In f (src_files (w_fs w)) -> cands_ok cfg w f) ->
  verdict_of x = VOk ->
  (exists evs, w_log (world_of x) = w_log w ++ evs /\
     runs_of evs = flat_map (fun tr => task_runs cfg base (fst tr) (snd tr) w) (trace_of x)) /\
  forall f, In f (seen (state_of x)) ->
    let its := items_of md w f in
    (dep_targets (w_fs w) f its = [] /\
     one_pass f (trace_of x) /\
     attributed cfg base w f (trace_of x) = all_runs f base its) \/
    (exists pre d fol post q,
       its = pre ++ IDir d fol :: post /\ dep_targets (w_fs w) f pre = [] /\ dep_target (w_fs w) f d = Some q /\
       two_passes f (q :: dep_targets (w_fs w) f post) (trace_of x) /\
       all_runs f base its = all_runs f base pre ++ all_runs f base post /\
       attributed cfg base w f (trace_of x) = all_runs f base pre ++ (all_runs f base pre ++ all_runs f base post)).
Proof.
  cbv zeta. intros Hmd ND WF Hok Hv.
  destruct (run_commands_legal orc cfg Hmd fuel sched w ND WF Hok Hv) as (R & _ & _).
  split; [exact R|]. intros f Hseen.
  assert (Hin_of : forall y, In y (passes_of f (trace_of (txtpp_run orc cfg fuel sched w))) ->
                             In y (trace_of (txtpp_run orc cfg fuel sched w))).
  { intros y Hy. apply passes_of_In in Hy. apply Hy. }
  destruct (ok_run_passes orc cfg fuel sched w Hv f Hseen) as [H1|[ds [Hd H2]]].
  - left. assert (Hin : In (TPp f true, RPp f (Some POk)) (trace_of (txtpp_run orc cfg fuel sched w))).
    { apply Hin_of. rewrite H1. left. reflexivity. }
    destruct (first_pass_static orc cfg fuel sched w f _ Hmd ND WF Hok Hin) as [Hs _].
    split; [apply Hs; reflexivity|]. split; [exact H1|].
    unfold attributed. rewrite H1. cbn [flat_map fst snd task_runs]. apply app_nil_r.
  - right. assert (Hin : In (TPp f true, RPp f (Some (PDeps ds))) (trace_of (txtpp_run orc cfg fuel sched w))).
    { apply Hin_of. rewrite H2. left. reflexivity. }
    destruct (first_pass_static orc cfg fuel sched w f _ Hmd ND WF Hok Hin) as [_ Hs].
    pose proof (Hs ds eq_refl) as Eds.
    destruct (exp_runs_first f (run_base cfg w) (w_fs w) (items_of (cfg_mode cfg) w f))
      as [[I1 _]|(pre & d & fol & post & q & I1 & I2 & I3 & I4)]; [exfalso; apply Hd; rewrite Eds; exact I1|].
    exists pre, d, fol, post, q. split; [exact I1|]. split; [exact I2|]. split; [exact I3|].
    assert (Eds' : ds = q :: dep_targets (w_fs w) f post).
    { rewrite Eds, I1, dep_targets_app, I2. cbn [app dep_targets]. rewrite I3. reflexivity. }
    assert (Eall : all_runs f (run_base cfg w) (items_of (cfg_mode cfg) w f) =
                   all_runs f (run_base cfg w) pre ++ all_runs f (run_base cfg w) post).
    { rewrite I1, all_runs_app. f_equal. unfold all_runs at 1. cbn [flat_map].
      rewrite (dep_target_not_run _ _ _ _ _ _ I3). reflexivity. }
    split; [rewrite <- Eds'; split; [exact Hd|exact H2]|]. split; [exact Eall|].
    unfold attributed. rewrite H2. cbn [flat_map fst snd task_runs]. rewrite app_nil_r, I4, Eall. reflexivity.
Qed.

(* ---- the same, as ONE statement about the log: its commands are a permutation of the commands prescribed by the
   sources that were seen ---- *)
(* what the source f of the initial tree prescribes: its run directives once, plus a second time those that precede its
   first dependency directive *)
Definition prescribed (cfg : config) (base : path) (w : world) (f : path) : list event :=
  let its := items_of (cfg_mode cfg) w f in
  match dep_targets (w_fs w) f its with
  | [] => all_runs f base its
  | _ :: _ => exp_runs f base (w_fs w) PFirst its ++ all_runs f base its
  end.

Lemma flat_map_nil_all {A B} (l : list A) : flat_map (fun _ : A => @nil B) l = [].
Proof. induction l as [|a l IH]; [reflexivity|exact IH]. Qed.

Lemma flat_map_ext_in {A B} (f g : A -> list B) l : (forall a, In a l -> f a = g a) -> flat_map f l = flat_map g l.
Proof.
  induction l as [|a l IH]; intros H; [reflexivity|]. cbn [flat_map]. rewrite (H a (or_introl eq_refl)). f_equal.
  apply IH. intros b Hb. apply H. right. exact Hb.
Qed.

Lemma passes_of_cons_other f x l : (forall b, fst x <> TPp f b) -> passes_of f (x :: l) = passes_of f l.
Proof.
  intros H. unfold passes_of. cbn [filter]. unfold pass_of at 1. destruct (fst x) as [d|g b]; [reflexivity|].
  destruct (path_eqb g f) eqn:E; [|reflexivity]. apply DepFacts.path_eqb_eq in E. subst g. exfalso. apply (H b). reflexivity.
Qed.

(* regrouping a trace by file *)
Lemma regroup_by_file {B} (g : task * result -> list B) (K : list path) : NoDup K ->
  forall tr, (forall d r, g (TScan d, r) = []) -> (forall f b r, In (TPp f b, r) tr -> In f K) ->
  Permutation (flat_map g tr) (flat_map (fun f => flat_map g (passes_of f tr)) K).
Proof.
  intros NK tr Hscan. induction tr as [|[t r] tr IH]; intros HK.
  - cbn [flat_map]. unfold passes_of. cbn [filter flat_map]. rewrite flat_map_nil_all. apply Permutation_refl.
  - assert (IH' := IH (fun f b r0 Hi => HK f b r0 (or_intror Hi))). cbn [flat_map]. destruct t as [d|f0 b].
    + rewrite Hscan. cbn [app]. exact IH'.
    + assert (Hf0 : In f0 K) by (apply (HK f0 b r); left; reflexivity).
      apply in_split in Hf0. destruct Hf0 as (K1 & K2 & EK). subst K.
      pose proof (NoDup_remove_2 _ _ _ NK) as Hn.
      assert (Hother : forall l : list file, ~ In f0 l ->
                @flat_map file B (fun f : path => flat_map g (passes_of f ((TPp f0 b, r) :: tr))) l =
                @flat_map file B (fun f : path => flat_map g (passes_of f tr)) l).
      { intros l Hl. apply flat_map_ext_in. intros f Hf. rewrite passes_of_cons_other; [reflexivity|].
        intros b0. cbn [fst]. intros Eq. inversion Eq; subst f. apply Hl. exact Hf. }
      rewrite !flat_map_app in *. cbn [flat_map] in *.
      rewrite (Hother K1) by (intros Hi; apply Hn; apply in_or_app; left; exact Hi).
      rewrite (Hother K2) by (intros Hi; apply Hn; apply in_or_app; right; exact Hi).
      rewrite passes_of_cons_same. cbn [flat_map].
      eapply perm_trans; [apply Permutation_app_head; exact IH'|].
      rewrite <- !app_assoc. apply Permutation_app_swap_app.
Qed.

Theorem commands_permutation orc cfg fuel sched w :
  let x := txtpp_run orc cfg fuel sched w in
  let base := run_base cfg w in
  cfg_mode cfg <> Clean -> NoDup (map fst (w_fs w)) -> legal_names (w_fs w) ->
  (forall f, In f (src_files (w_fs w)) -> cands_ok cfg w f) ->
  verdict_of x = VOk ->
  exists evs, w_log (world_of x) = w_log w ++ evs /\
    Permutation (runs_of evs) (flat_map (prescribed cfg base w) (seen (state_of x))).
Proof.
  cbv zeta. intros Hmd ND WF Hok Hv.
  destruct (commands_exactly_once orc cfg fuel sched w Hmd ND WF Hok Hv) as ((evs & L & Rn) & Hf).
  exists evs. split; [exact L|]. rewrite Rn.
  destruct (txtpp_run_cases orc cfg fuel sched w) as [[_ E]|(base & files & dirs & _ & _ & E)]; [congruence|].
  assert (NK : NoDup (seen (state_of (txtpp_run orc cfg fuel sched w)))).
  { rewrite E in *.
    destruct (ok_means_all_finished orc cfg base files dirs (ginit files dirs) fuel sched w [] (greach_init _ _) Hv)
      as (g' & R' & Es & _). rewrite <- Es. apply (seen_nodup files dirs g' R'). }
  eapply perm_trans.
  - apply (regroup_by_file _ _ NK).
    + intros d r. reflexivity.
    + intros f b r Hin. apply (ok_run_pass_seen orc cfg fuel sched w Hv). exists b, r. exact Hin.
  - rewrite (flat_map_ext_in _ (prescribed cfg (run_base cfg w) w)); [apply Permutation_refl|].
    intros f Hs. unfold prescribed.
    destruct (Hf f Hs) as [(I1 & _ & I3)|(pre & d & fol & post & q & I1 & I2 & I3 & _ & I5 & I6)].
    + rewrite I1. exact I3.
    + fold (attributed cfg (run_base cfg w) w f (trace_of (txtpp_run orc cfg fuel sched w))). rewrite I6.
      assert (Ed : dep_targets (w_fs w) f (items_of (cfg_mode cfg) w f) = q :: dep_targets (w_fs w) f post).
      { rewrite I1, dep_targets_app, I2. cbn [app dep_targets]. rewrite I3. reflexivity. }
      rewrite Ed.
      destruct (exp_runs_first f (run_base cfg w) (w_fs w) (items_of (cfg_mode cfg) w f))
        as [[J1 _]|(pre' & d' & fol' & post' & q' & J1 & J2 & J3 & J4)]; [congruence|].
      (* the decomposition at the first dependency directive is unique *)
      assert (Epre : all_runs f (run_base cfg w) pre' = all_runs f (run_base cfg w) pre).
      { clear -I1 I2 I3 J1 J2 J3. rewrite I1 in J1. clear I1. revert pre' J1 J2.
        induction pre as [|it pre IH]; intros pre' J1 J2.
        - destruct pre' as [|it' pre']; [reflexivity|]. exfalso. cbn [app] in J1. inversion J1; subst it'.
          cbn [dep_targets] in J2. rewrite I3 in J2. discriminate.
        - destruct pre' as [|it' pre'].
          + exfalso. cbn [app] in J1. inversion J1; subst it. cbn [dep_targets] in I2. rewrite J3 in I2. discriminate.
          + cbn [app] in J1. inversion J1; subst it'. unfold all_runs. cbn [flat_map]. f_equal.
            apply IH.
            * destruct it as [l|d0 fol0| |]; cbn [dep_targets] in I2; try exact I2.
              destruct (dep_target (w_fs w) f d0); [discriminate|exact I2].
            * assumption.
            * destruct it as [l|d0 fol0| |]; cbn [dep_targets] in J2; try exact J2.
              destruct (dep_target (w_fs w) f d0); [discriminate|exact J2]. }
      rewrite J4, Epre, I5. reflexivity.
Qed.


(* ===================================================================================================================
   PART 7 — non-vacuity
   =================================================================================================================== *)
(* ---- 7a: V1 and V2 on the tree of ScheduleTempFacts PART 6 (d/a.txtpp: `temp t` then `include t`;
        d/b.txtpp: `include a`, a real dependency: two passes), under two schedules ---- *)
Example passes_nonvacuous_t :
  let x1 := txtpp_run cx_orc t_cfg 10 [] t_w in
  let x2 := txtpp_run cx_orc t_cfg 10 [0; 1]%nat t_w in
  (verdict_of x1 = VOk /\ map fst (trace_of x1) = [TScan [[100]]; TPp t_a true; TPp t_b true; TPp t_b false]) /\
  (verdict_of x2 = VOk /\ map fst (trace_of x2) = [TScan [[100]]; TPp t_b true; TPp t_a true; TPp t_b false]) /\
  (* V1, through the theorem, in both runs *)
  (exists ds, ds <> [] /\ In (TPp t_b true, RPp t_b (Some (PDeps ds))) (firstn 3 (trace_of x1))) /\
  (exists ds, ds <> [] /\ In (TPp t_b true, RPp t_b (Some (PDeps ds))) (firstn 3 (trace_of x2))) /\
  (forall b r, In (TPp t_a b, r) (trace_of x2) -> b = true /\ r = RPp t_a (Some POk)) /\
  (* V2, through the theorem: the two shapes occur *)
  one_pass t_a (trace_of x1) /\ two_passes t_b [t_a] (trace_of x1) /\
  one_pass t_a (trace_of x2) /\ two_passes t_b [t_a] (trace_of x2).
Proof.
  cbv zeta.
  assert (V1 : verdict_of (txtpp_run cx_orc t_cfg 10 [] t_w) = VOk) by (vm_compute; reflexivity).
  assert (V2 : verdict_of (txtpp_run cx_orc t_cfg 10 [0; 1]%nat t_w) = VOk) by (vm_compute; reflexivity).
  split; [split; [exact V1|vm_compute; reflexivity]|]. split; [split; [exact V2|vm_compute; reflexivity]|].
  split; [|split; [|split]].
  - apply (final_pass_follows_deps cx_orc t_cfg 10 [] t_w _ t_b (RPp t_b (Some POk)) []). vm_compute. reflexivity.
  - apply (final_pass_follows_deps cx_orc t_cfg 10 [0; 1]%nat t_w _ t_b (RPp t_b (Some POk)) []). vm_compute. reflexivity.
  - apply (first_pass_ok_is_only_pass cx_orc t_cfg 10 [0; 1]%nat t_w t_a). vm_compute. tauto.
  - assert (S1 : forall f, In f [t_b; t_a] -> In f (seen (state_of (txtpp_run cx_orc t_cfg 10 [] t_w))))
      by (intros f Hf; vm_compute; vm_compute in Hf; tauto).
    assert (S2 : forall f, In f [t_b; t_a] -> In f (seen (state_of (txtpp_run cx_orc t_cfg 10 [0; 1]%nat t_w))))
      by (intros f Hf; vm_compute; vm_compute in Hf; tauto).
    assert (Hone : forall tr, In (TPp t_a true, RPp t_a (Some POk)) tr ->
              (one_pass t_a tr \/ exists ds, two_passes t_a ds tr) -> one_pass t_a tr).
    { intros tr Hin [H|[ds [_ H]]]; [exact H|]. exfalso.
      assert (Hi : In (TPp t_a true, RPp t_a (Some POk)) (passes_of t_a tr)).
      { apply passes_of_In. split; [exact Hin|exists true; reflexivity]. }
      rewrite H in Hi. destruct Hi as [Hi|[Hi|[]]]; discriminate Hi. }
    assert (Htwo : forall tr, In (TPp t_b true, RPp t_b (Some (PDeps [t_a]))) tr ->
              (one_pass t_b tr \/ exists ds, two_passes t_b ds tr) -> two_passes t_b [t_a] tr).
    { intros tr Hin [H|[ds [Hd H]]];
        assert (Hi : In (TPp t_b true, RPp t_b (Some (PDeps [t_a]))) (passes_of t_b tr))
          by (apply passes_of_In; split; [exact Hin|exists true; reflexivity]);
        rewrite H in Hi.
      - destruct Hi as [Hi|[]]; discriminate Hi.
      - destruct Hi as [Hi|[Hi|[]]]; [|discriminate Hi]. inversion Hi; subst ds. split; [exact Hd|exact H]. }
    split; [|split; [|split]].
    + apply Hone; [vm_compute; tauto|]. apply (ok_run_passes cx_orc t_cfg 10 [] t_w V1). apply S1. right. left. reflexivity.
    + apply Htwo; [vm_compute; tauto|]. apply (ok_run_passes cx_orc t_cfg 10 [] t_w V1). apply S1. left. reflexivity.
    + apply Hone; [vm_compute; tauto|]. apply (ok_run_passes cx_orc t_cfg 10 [0; 1]%nat t_w V2). apply S2. right. left. reflexivity.
    + apply Htwo; [vm_compute; tauto|]. apply (ok_run_passes cx_orc t_cfg 10 [0; 1]%nat t_w V2). apply S2. left. reflexivity.
Qed.

(* ---- 7b: a tree with commands.
       d/ ,
       d/a.txtpp = "-- TXTPP#run X\nx\n-- TXTPP#temp t\n-- hello\nTXTPP#include b\n-- TXTPP#run Y\n"
                   (a command, a text line, a temp directive, a dependency on b.txtpp, a command)
       d/b.txtpp = "-- TXTPP#run Z\nz\n"                                    (a command, a text line: no dependency)
       d/c.txtpp = "TXTPP#include no\n"           (only in o_w3: the include fails, there is no d/no)
   with the oracle of MoreFacts3 that answers "o\n" to every command ---- *)
Definition o_a : path := [[100]; [97; 46; 116; 120; 116; 112; 112]].     (* d/a.txtpp *)
Definition o_b : path := [[100]; [98; 46; 116; 120; 116; 112; 112]].     (* d/b.txtpp *)
Definition o_c : path := [[100]; [99; 46; 116; 120; 116; 112; 112]].     (* d/c.txtpp *)
Definition o_araw : str :=
  c3_run 88 ++ [120; 10] ++
  [45; 45; 32] ++ c_txtpp_hash ++ [116; 101; 109; 112; 32; 116; 10; 45; 45; 32; 104; 101; 108; 108; 111; 10] ++
  c_txtpp_hash ++ [105; 110; 99; 108; 117; 100; 101; 32; 98; 10] ++ c3_run 89.
Definition o_braw : str := c3_run 90 ++ [122; 10].
Definition o_craw : str := c_txtpp_hash ++ [105; 110; 99; 108; 117; 100; 101; 32; 110; 111; 10].
Definition o_fs : fs := [([[100]], Dir); (o_a, File o_araw); (o_b, File o_braw)].
Definition o_w : world := mkW o_fs [].
Definition o_fs3 : fs := [([[100]], Dir); (o_a, File o_araw); (o_b, File o_braw); (o_c, File o_craw)].
Definition o_w3 : world := mkW o_fs3 [].

Lemma o_nodup : NoDup (map fst (w_fs o_w)).
Proof. cbn. repeat constructor; cbn; intuition discriminate. Qed.
Lemma o_legal : legal_names (w_fs o_w).
Proof. intros p nd [H|[H|[H|[]]]]; inversion H; subst; repeat constructor; discriminate. Qed.
Lemma o_cands_ok f : In f (src_files (w_fs o_w)) -> cands_ok c3_cfg o_w f.
Proof.
  intros Hf. vm_compute in Hf. destruct Hf as [<-|[<-|[]]]; split.
  - intros c Hc Hw. vm_compute in Hc, Hw. destruct Hc as [<-|[]]. intuition discriminate.
  - intros c Hc. vm_compute in Hc. destruct Hc as [<-|[]]. reflexivity.
  - intros c Hc Hw. vm_compute in Hc. destruct Hc.
  - intros c Hc. vm_compute in Hc. destruct Hc.
Qed.

(* V3 through the theorems, schedule [0; 1] (b.txtpp is processed BEFORE a.txtpp): the log holds Z; X; X; Y.
   Z (file without dependency) and Y (after the dependency directive) are executed once, X (before it) twice. *)
Example commands_exactly_once_nonvacuous :
  let x := txtpp_run c3_orc c3_cfg 10 [0; 1]%nat o_w in
  verdict_of x = VOk /\
  map fst (trace_of x) = [TScan [[100]]; TPp o_b true; TPp o_a true; TPp o_a false] /\
  runs_of (w_log (world_of x)) = [c3_ev o_b 90; c3_ev o_a 88; c3_ev o_a 88; c3_ev o_a 89] /\
  (* b.txtpp: one pass, its only command once *)
  (one_pass o_b (trace_of x) /\ attributed c3_cfg [] o_w o_b (trace_of x) = [c3_ev o_b 90]) /\
  (* a.txtpp: two passes; X twice, Y once *)
  (two_passes o_a [o_b] (trace_of x) /\
   attributed c3_cfg [] o_w o_a (trace_of x) = [c3_ev o_a 88] ++ ([c3_ev o_a 88] ++ [c3_ev o_a 89])) /\
  Permutation (runs_of (w_log (world_of x))) ([c3_ev o_b 90] ++ [c3_ev o_a 88] ++ [c3_ev o_a 88; c3_ev o_a 89]).
Proof.
  cbv zeta.
  assert (Hv : verdict_of (txtpp_run c3_orc c3_cfg 10 [0; 1]%nat o_w) = VOk) by (vm_compute; reflexivity).
  assert (Hmd : cfg_mode c3_cfg <> Clean) by discriminate.
  assert (Eb : run_base c3_cfg o_w = []) by (vm_compute; reflexivity).
  split; [exact Hv|]. split; [vm_compute; reflexivity|].
  destruct (commands_exactly_once c3_orc c3_cfg 10 [0; 1]%nat o_w Hmd o_nodup o_legal o_cands_ok Hv)
    as ((evs & L & Rn) & Hf).
  rewrite Eb in *. cbn [w_log o_w app] in L.
  split; [rewrite L, Rn; vm_compute; reflexivity|]. split; [|split].
  - destruct (Hf o_b) as [(_ & I2 & I3)|(pre & d & fol & post & q & I1 & I2 & I3 & _)]; [vm_compute; tauto| |].
    + split; [exact I2|]. rewrite I3. vm_compute. reflexivity.
    + exfalso. vm_compute in I1.
      destruct pre as [|x1 [|x2 [|x3 pre']]]; inversion I1; subst;
        try (match goal with H : _ ++ _ :: _ = [] |- _ => destruct pre'; discriminate H end).
      vm_compute in I3. discriminate I3.
  - destruct (Hf o_a) as [(I1 & _)|(pre & d & fol & post & q & I1 & I2 & I3 & I4 & _ & I6)]; [vm_compute; tauto| |].
    + vm_compute in I1. discriminate I1.
    + vm_compute in I1.
      destruct pre as [|x1 [|x2 [|x3 [|x4 [|x5 pre']]]]]; inversion I1; subst;
        try (match goal with H : _ ++ _ :: _ = [] |- _ => destruct pre'; discriminate H end);
        try (vm_compute in I3; discriminate I3); try (vm_compute in I2; discriminate I2).
      split.
      * vm_compute in I3. inversion I3; subst q. exact I4.
      * rewrite I6. vm_compute. reflexivity.
  - destruct (commands_permutation c3_orc c3_cfg 10 [0; 1]%nat o_w Hmd o_nodup o_legal o_cands_ok Hv) as (evs' & L' & P).
    cbn [w_log o_w app] in L'. rewrite L'.
    assert (E : flat_map (prescribed c3_cfg (run_base c3_cfg o_w) o_w) (seen (state_of (txtpp_run c3_orc c3_cfg 10 [0; 1]%nat o_w))) =
                [c3_ev o_b 90] ++ [c3_ev o_a 88] ++ [c3_ev o_a 88; c3_ev o_a 89]) by (vm_compute; reflexivity).
    rewrite E in P. exact P.
Qed.

(* ---- 7c: V1 in a FAILING run: d/c.txtpp fails while the final pass of a.txtpp is in flight; that final pass is
        drained after the failure and still comes after the first pass of a.txtpp and its dependencies ---- *)
Example final_pass_follows_deps_failing_run :
  let x := txtpp_run c3_orc c3_cfg 10 [0; 0; 0; 1]%nat o_w3 in
  verdict_of x = VErr /\
  map fst (trace_of x) = [TScan [[100]]; TPp o_a true; TPp o_b true; TPp o_c true; TPp o_a false] /\
  In (TPp o_c true, RPp o_c None) (trace_of x) /\
  NoDup (map fst (trace_of x)) /\
  (exists ds, ds <> [] /\ In (TPp o_a true, RPp o_a (Some (PDeps ds))) (firstn 4 (trace_of x))) /\
  (forall b r, In (TPp o_b b, r) (trace_of x) -> b = true /\ r = RPp o_b (Some POk)) /\
  (forall b r, In (TPp o_c b, r) (trace_of x) -> b = true /\ r = RPp o_c None).
Proof.
  cbv zeta. split; [vm_compute; reflexivity|]. split; [vm_compute; reflexivity|]. split; [vm_compute; tauto|].
  split; [apply trace_nodup_any|]. split; [|split].
  - apply (final_pass_follows_deps c3_orc c3_cfg 10 [0; 0; 0; 1]%nat o_w3 _ o_a (RPp o_a (Some POk)) []).
    vm_compute. reflexivity.
  - apply first_pass_ok_is_only_pass. vm_compute. tauto.
  - apply first_pass_err_is_only_pass. vm_compute. tauto.
Qed.
