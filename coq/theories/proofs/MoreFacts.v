(* MoreFacts.v — remaining pass-level and run-level statements (C13, C09, C03, C18, C08).
   TASK: DESIGN-and-prove each goal: state precisely, test with vm_compute on a concrete example (keep `Example`s), prove.
   Nothing is left unproved; report the exact final statements. *)
Require Import Txtpp.Str Txtpp.Consts Txtpp.Grammar Txtpp.Tags Txtpp.Path Txtpp.Fs Txtpp.Sink Txtpp.Pp Txtpp.Spec.
Require Import Txtpp.Dep Txtpp.Coord Txtpp.Run.
Require Import Txtpp.proofs.StrFacts Txtpp.proofs.GrammarFacts Txtpp.proofs.TagsFacts Txtpp.proofs.SinkFacts Txtpp.proofs.PathFacts.
Require Import Txtpp.proofs.PpFacts Txtpp.proofs.EventFacts Txtpp.proofs.FrameFacts Txtpp.proofs.ConfluenceFacts.
Require Import Txtpp.proofs.DepFacts Txtpp.proofs.CoordFacts Txtpp.proofs.RunFacts Txtpp.proofs.ScheduleFacts.
Require Import Txtpp.proofs.RunEventsFacts Txtpp.proofs.ScheduleTempFacts Txtpp.proofs.CleanVerifyFacts.
From Coq Require Import Lia Permutation.

(* GOAL 1 (C13, Build mode, one source, fixed environment): the trailing-newline option changes at most one final line ending
   of the OUTPUT FILE and nothing else.  For a final pass (first = false) in Build mode on the same world w:
     pp_run .. Build .. false true  w = PpOk w_on  ->  pp_run .. Build .. false false w = PpOk w_off ->
     exists txt, read_file (w_fs w_off) out = Some txt /\
                 (read_file (w_fs w_on) out = Some txt \/ read_file (w_fs w_on) out = Some (txt ++ le)) /\
                 forall p, p <> out -> fs_get (w_fs w_on) p = fs_get (w_fs w_off) p
   where le := detect_le raw for the source's content raw. Also: the two passes have the same verdict constructor whenever one of them
   succeeds, up to the sink failing on the extra write (state what is true). Route: PpFacts.trailing_only_final_le is for the in-memory
   sink; FrameFacts.needed_pass_vs_build_pass / needed_pass_ok_iff_build_pass_ok transfer between InMemoryBuild and Build (side conditions:
   canonical source directory, no include/temp argument names the output, parent of the output exists); or prove it directly on the
   Build sink (run_lines does not depend on tn — PpFacts.trailing_option_only_in_epilogue — and `finish` appends le iff the flag is set).
   And `ends_with_text_line`: if the last item of the parsed source is an ordinary text line `IText l` and the pass succeeds, the output
   with the option on ends with (the tag-substituted) l followed by le, and with the option off ends with it without le
   (PpFacts.file_text_is_splice + splice on a last text chunk). *)

(* GOAL 2 (C09): `needed_pass_no_event_when_fresh`: if the output already holds exactly the fresh text
   (CleanVerifyFacts.fresh_text) then a final --needed pass that succeeds logs NO event on the output path (it may log temp writes),
   and the output keeps its node; conversely if the output is stale or missing, afterwards it holds the fresh text. *)

(* GOAL 3 (C03): commands.  (a) a FIRST pass logs ERun events only for run directives that precede the first dependency directive
   (the first include/after with a .txtpp source): after it, nothing is executed (PpFacts.collect_mode_inert) — state it on the log of
   the outcome world: the ERun events of a first pass that returns PpHasDeps are exactly those of the items before the first
   dependency item. (b) a pass of a file WITHOUT dependencies, and a final pass, log one ERun per executed run directive, in order
   (if no command fails). (c) run level: in a successful run every file is given at most one first and at most one final pass
   (RunFacts.trace_nodup), hence a run directive placed after a dependency directive, or in a file without dependencies, contributes
   exactly one ERun event to the log of the whole run. Formulate (c) with a counting function over `w_log` restricted to
   (command, cwd, file) triples attributed to the pass by RunEventsFacts.exec_chain / ran_in, or in whichever way is cleanest; a weaker
   but clear statement is fine: "the log of the run is the concatenation, in trace order, of the logs of the passes in the trace, each
   (file, pass) occurring at most once". *)

(* GOAL 4 (C18): `txtpp_run_ok_or_err`: under the hypotheses of RunFacts.txtpp_run_terminates (NoDup keys, legal_names, enough fuel) the
   verdict of txtpp_run is VOk or VErr (never VPanic, never VFuel), for every oracle, configuration (any mode, any thread count
   including zero), schedule. *)

(* GOAL 5 (C08 crash clause with temp files): combine RunEventsFacts.interrupted_stale_rel / interrupted_then_rebuild with
   ScheduleTempFacts.stale_outputs_and_temps_irrelevant: `interrupted_then_rebuild_temps`: if a build is interrupted after k completed
   tasks and the disturbed paths D (outputs AND temp targets) satisfy static_ok_temps D w, rebuilding from the interrupted tree gives the
   same verdict/trace/state as building from the initial tree and the final trees agree on every rewritten path. *)


(* -------------------------------------------------------------------------------------------------------------------
   WHERE THE GOALS ARE PROVED (everything Qed, no axiom; `Example`s are non-vacuity checks by vm_compute)
   GOAL 4 (C18)  this file:  txtpp_run_no_panic, txtpp_run_zero_threads, txtpp_run_ok_or_err.
   GOAL 5 (C08)  this file:  stale_afterT_sub / _rewritten / _rewritten_deps, stale_rel_afterT_agree,
                             interrupted_then_rebuild_temps, interrupted_then_rebuild_temps_exact.
   GOAL 1 (C13)  MoreFacts1.v: trailing_newline_build, trailing_newline_build_same_verdict, trailing_newline_build_files,
                             build_creates_output, trailing_newline_build_canonical, build_ends_with_text_line.
   GOAL 2 (C09)  MoreFacts2.v: needed_pass_vs_absent, needed_pass_makes_fresh, needed_pass_split,
                             needed_pass_no_event_when_fresh, needed_pass_event_when_stale.
   GOAL 3 (C03)  MoreFacts3.v: do_item_runs, ritems_runs_execute, exp_runs_first, ritems_runs_static, pass_ok_runs,
                             first_pass_deps_runs_exp, first_pass_deps_runs, exec_chain_runs, run_commands,
                             run_commands_legal.
   ------------------------------------------------------------------------------------------------------------------- *)

(* ===================================================================================================================
   GOAL 4 (C18) — the verdict of a run is VOk or VErr
   =================================================================================================================== *)
(* no hypothesis at all is needed to exclude VPanic: no worker panics (RunFacts.pp_run_no_panic) and the coordinator's
   unwrap never fails (RunFacts.run_loop_no_panic) *)
Theorem txtpp_run_no_panic orc cfg fuel sched w :
  verdict_of (txtpp_run orc cfg fuel sched w) <> VPanic.
Proof.
  unfold txtpp_run.
  destruct (cfg_threads cfg =? 0); [discriminate|].
  destruct (os_resolve (w_fs w) (cfg_base cfg)) as [base|]; [|discriminate].
  destruct (resolve_inputs (w_fs w) base (cfg_inputs cfg) [] []) as [[files dirs]|]; [|discriminate].
  change (fold_left exec_dir dirs (fold_left (fun s f => exec_file s f true) files c_init))
    with (gs (ginit files dirs)).
  apply (run_loop_no_panic orc cfg base files dirs). apply greach_init.
Qed.

(* with a zero thread count the run is refused at once: VErr, nothing executed, nothing logged *)
Theorem txtpp_run_zero_threads orc cfg fuel sched w :
  cfg_threads cfg = 0 -> txtpp_run orc cfg fuel sched w = (VErr, w, [], c_init).
Proof. intros H. unfold txtpp_run. rewrite H. reflexivity. Qed.

Theorem txtpp_run_ok_or_err orc cfg fuel sched w :
  NoDup (map fst (w_fs w)) -> legal_names (w_fs w) ->
  (fuel > 2 * length (src_files (w_fs w)) + length (dir_entries (w_fs w)))%nat ->
  verdict_of (txtpp_run orc cfg fuel sched w) = VOk \/ verdict_of (txtpp_run orc cfg fuel sched w) = VErr.
Proof.
  intros ND WF Hf.
  pose proof (txtpp_run_terminates orc cfg fuel sched w ND WF Hf) as H1.
  pose proof (txtpp_run_no_panic orc cfg fuel sched w) as H2.
  destruct (verdict_of (txtpp_run orc cfg fuel sched w)); auto; congruence.
Qed.

(* non-vacuity: both verdicts occur under the hypotheses (RunFacts.ex_w: the tree d/, d/a.txtpp = "hi\n"):
   a recursive build of d succeeds, a build with zero threads and a build of a missing input fail *)
Example txtpp_run_ok_or_err_nonvacuous :
  NoDup (map fst (w_fs ex_w)) /\ legal_names (w_fs ex_w) /\
  (5 > 2 * length (src_files (w_fs ex_w)) + length (dir_entries (w_fs ex_w)))%nat /\
  verdict_of (txtpp_run cx_orc ex_cfg 5 [] ex_w) = VOk /\
  verdict_of (txtpp_run cx_orc (mkCfg [] [[100]] true 0 Build true) 5 [] ex_w) = VErr /\
  verdict_of (txtpp_run cx_orc (mkCfg [] [[120]] true 4 Verify true) 5 [3; 1]%nat ex_w) = VErr.
Proof.
  destruct txtpp_run_terminates_nonvacuous as (H1 & H2 & H3 & H4).
  repeat (split; [assumption|]). split; vm_compute; reflexivity.
Qed.

(* ===================================================================================================================
   GOAL 5 (C08, crash clause with temp files)
   =================================================================================================================== *)
(* reading `stale_afterT`: what is still stale after a trace was stale initially ... *)
Lemma stale_afterT_sub w0 tr : forall D p, In p (stale_afterT w0 D tr) -> In p D.
Proof.
  unfold stale_afterT, upd_trace. induction tr as [|[t r] tr IH]; intros D p; cbn [fold_left fst snd]; [auto|].
  intros H. apply IH in H. eapply stale_updT_sub; exact H.
Qed.
(* ... and is neither in the footprint (output, temp targets) of a source of which some pass succeeded, nor the output
   of a source of which the first pass reported dependencies *)
Lemma stale_afterT_rewritten w0 tr : forall D p f b g,
  In (TPp f b, RPp g (Some POk)) tr -> In p (writes_of Build w0 f) -> ~ In p (stale_afterT w0 D tr).
Proof.
  unfold stale_afterT, upd_trace. induction tr as [|[t r] tr IH]; intros D p f b g Hin Hp; cbn [fold_left fst snd]; [destruct Hin|].
  destruct Hin as [Hin|Hin]; [|eapply IH; eauto].
  inversion Hin; subst t r. cbn [stale_updT]. intros H. apply (stale_afterT_sub w0 tr) in H.
  apply in_drop_paths in H. apply (proj2 H Hp).
Qed.
Lemma stale_afterT_rewritten_deps w0 tr : forall D f b g ds out,
  In (TPp f b, RPp g (Some (PDeps ds))) tr -> remove_txtpp f = Some out -> ~ In out (stale_afterT w0 D tr).
Proof.
  unfold stale_afterT, upd_trace. induction tr as [|[t r] tr IH]; intros D f b g ds out Hin Ho; cbn [fold_left fst snd]; [destruct Hin|].
  destruct Hin as [Hin|Hin]; [|eapply IH; eauto].
  inversion Hin; subst t r. cbn [stale_updT]. rewrite Ho. intros H. apply (stale_afterT_sub w0 tr) in H.
  apply in_drop_path in H. apply (proj2 H). reflexivity.
Qed.

(* the two final trees hold the same node at every path that was not disturbed, and at every path of the footprint of
   a source of which some pass succeeded *)
Corollary stale_rel_afterT_agree w0 D tr w1 w2 p :
  stale_rel (stale_afterT w0 D tr) w1 w2 ->
  (~ In p D \/ exists f b g, In (TPp f b, RPp g (Some POk)) tr /\ In p (writes_of Build w0 f)) ->
  fs_get (w_fs w1) p = fs_get (w_fs w2) p.
Proof.
  intros HR Hp. apply (proj1 (sr_agree _ _ _ HR)). apply in_paths_false. intros Hin.
  destruct Hp as [Hp|(f & b & g & Hi & Hw)].
  - apply Hp. eapply stale_afterT_sub; exact Hin.
  - exact (stale_afterT_rewritten w0 tr D p f b g Hi Hw Hin).
Qed.

(* C08, crash clause, with temp files.  A first run (any oracle, configuration, schedule) is interrupted after k
   completed tasks; D contains the disturbed paths — outputs AND temp targets.  Under the static condition of
   ScheduleTempFacts on the INITIAL tree (D holds no `.txtpp` path; every pass probes no path of D except its own
   output, its own temp targets and, for a final pass, the footprints of its dependencies), a Build run from the
   interrupted tree has the same verdict, trace and final coordinator state as the same run from the initial tree,
   and the final trees differ at most on the disturbed paths that no successful pass has rewritten. *)
Theorem interrupted_then_rebuild_temps orc0 cfg0 k sched0 orc cfg fuel sched w D :
  let wk := world_of (txtpp_run orc0 cfg0 k sched0 w) in
  cfg_mode cfg = Build ->
  raw_ok w ->
  (forall e q, In e (skipn (length (w_log w)) (w_log wk)) -> ev_path e = Some q -> In q D) ->
  ~ In (lex_normalize (cfg_base cfg)) D ->
  Forall (input_safe D (lex_normalize (cfg_base cfg))) (cfg_inputs cfg) ->
  static_ok_temps D w ->
  let x1 := txtpp_run orc cfg fuel sched w in
  let x2 := txtpp_run orc cfg fuel sched wk in
  verdict_of x1 = verdict_of x2 /\ trace_of x1 = trace_of x2 /\ state_of x1 = state_of x2 /\
  stale_rel (stale_afterT w D (trace_of x1)) (world_of x1) (world_of x2) /\
  (forall p, ~ In p D -> fs_get (w_fs (world_of x1)) p = fs_get (w_fs (world_of x2)) p) /\
  (forall f b g p, In (TPp f b, RPp g (Some POk)) (trace_of x1) -> In p (writes_of Build w f) ->
     fs_get (w_fs (world_of x1)) p = fs_get (w_fs (world_of x2)) p).
Proof.
  cbv zeta. intros Hmd ND Hev Hb Hin HS.
  destruct (stale_outputs_and_temps_irrelevant orc cfg fuel sched D w (world_of (txtpp_run orc0 cfg0 k sched0 w))
              Hmd (interrupted_stale_rel orc0 cfg0 k sched0 w D ND (proj1 HS) Hev) Hb Hin HS) as (Hv & Ht & Hs & HR).
  repeat (split; [assumption|]). split.
  - intros p Hp. eapply stale_rel_afterT_agree; [exact HR|left; exact Hp].
  - intros f b g p Hi Hp. eapply stale_rel_afterT_agree; [exact HR|right; exists f, b, g; split; assumption].
Qed.

(* the set of disturbed paths itself can be taken for D *)
Corollary interrupted_then_rebuild_temps_exact orc0 cfg0 k sched0 orc cfg fuel sched w :
  let wk := world_of (txtpp_run orc0 cfg0 k sched0 w) in
  let D := disturbed w wk in
  cfg_mode cfg = Build ->
  raw_ok w ->
  ~ In (lex_normalize (cfg_base cfg)) D ->
  Forall (input_safe D (lex_normalize (cfg_base cfg))) (cfg_inputs cfg) ->
  static_ok_temps D w ->
  let x1 := txtpp_run orc cfg fuel sched w in
  let x2 := txtpp_run orc cfg fuel sched wk in
  verdict_of x1 = verdict_of x2 /\ trace_of x1 = trace_of x2 /\ state_of x1 = state_of x2 /\
  stale_rel (stale_afterT w D (trace_of x1)) (world_of x1) (world_of x2) /\
  (forall p, ~ In p D -> fs_get (w_fs (world_of x1)) p = fs_get (w_fs (world_of x2)) p) /\
  (forall f b g p, In (TPp f b, RPp g (Some POk)) (trace_of x1) -> In p (writes_of Build w f) ->
     fs_get (w_fs (world_of x1)) p = fs_get (w_fs (world_of x2)) p).
Proof.
  cbv zeta. intros Hmd ND Hb Hin HS.
  apply (interrupted_then_rebuild_temps orc0 cfg0 k sched0 orc cfg fuel sched w _ Hmd ND); try assumption.
  intros e q. apply disturbed_spec.
Qed.

(* non-vacuity (the tree of ScheduleTempFacts PART 6: d/a.txtpp writes the temp file d/t and includes it, d/b.txtpp
   includes the output d/a).  The build is interrupted after 2 tasks (the scan of d and the pass of a.txtpp): the temp
   file d/t and the output d/a have been written; rebuilding from there, with another schedule, gives the same
   verdict and trace as from the clean tree, and the same final tree *)
Example interrupted_then_rebuild_temps_example :
  let xk := txtpp_run cx_orc t_cfg 2 [] t_w in
  let x1 := txtpp_run cx_orc t_cfg 9 [0; 1; 0; 0]%nat t_w in
  let x2 := txtpp_run cx_orc t_cfg 9 [0; 1; 0; 0]%nat (world_of xk) in
  verdict_of xk = VFuel /\
  disturbed t_w (world_of xk) = [t_aout; t_t; t_t; t_aout; t_aout] /\
  fs_get (w_fs (world_of xk)) t_t = Some (File t_hello) /\
  verdict_of x1 = VOk /\ verdict_of x2 = VOk /\ trace_of x1 = trace_of x2 /\
  stale_afterT t_w [t_t; t_aout] (trace_of x1) = [] /\ w_eq (world_of x1) (world_of x2).
Proof.
  cbv zeta.
  assert (Hev : forall e q, In e (skipn (length (w_log t_w)) (w_log (world_of (txtpp_run cx_orc t_cfg 2 [] t_w)))) ->
                            ev_path e = Some q -> In q [t_t; t_aout]).
  { intros e q He Hq. vm_compute in He.
    repeat (destruct He as [<-|He]; [inversion Hq; cbn; tauto|]). destruct He. }
  assert (Hb : ~ In (lex_normalize (cfg_base t_cfg)) [t_t; t_aout]) by (vm_compute; intuition discriminate).
  assert (Hi : Forall (input_safe [t_t; t_aout] (lex_normalize (cfg_base t_cfg))) (cfg_inputs t_cfg)).
  { constructor; [|constructor]. split; [vm_compute; intuition discriminate|].
    intros c Hc. vm_compute in Hc. destruct Hc as [<-|[]]. vm_compute. intuition discriminate. }
  destruct (interrupted_then_rebuild_temps cx_orc t_cfg 2 [] cx_orc t_cfg 9 [0; 1; 0; 0]%nat t_w [t_t; t_aout]
              eq_refl t_raw_ok Hev Hb Hi t_static) as (Hv & Ht & _ & HR & _).
  assert (E1 : verdict_of (txtpp_run cx_orc t_cfg 9 [0; 1; 0; 0]%nat t_w) = VOk) by (vm_compute; reflexivity).
  assert (Es : stale_afterT t_w [t_t; t_aout] (trace_of (txtpp_run cx_orc t_cfg 9 [0; 1; 0; 0]%nat t_w)) = [])
    by (vm_compute; reflexivity).
  split; [vm_compute; reflexivity|]. split; [vm_compute; reflexivity|]. split; [vm_compute; reflexivity|].
  split; [exact E1|]. split; [rewrite <- Hv; exact E1|]. split; [exact Ht|]. split; [exact Es|].
  rewrite Es in HR. apply wR_noX. destruct (sr_agree _ _ _ HR) as [A B]. split; [|exact B].
  intros p _. apply A. reflexivity.
Qed.
