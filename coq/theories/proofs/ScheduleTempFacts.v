(* ScheduleTempFacts.v — schedule independence (C02) and stale leftovers (C08) for projects WITH temp directives.
   ScheduleFacts.schedule_independence requires `temp_args (items_of Build w0 f) = []` for every source. TASK: remove that
   restriction (DESIGN-and-prove), leave NO Admitted, report the exact final statements. *)
Require Import Txtpp.Str Txtpp.Consts Txtpp.Grammar Txtpp.Tags Txtpp.Path Txtpp.Fs Txtpp.Sink Txtpp.Pp Txtpp.Spec.
Require Import Txtpp.Dep Txtpp.Coord Txtpp.Run.
Require Import Txtpp.proofs.StrFacts Txtpp.proofs.SinkFacts Txtpp.proofs.PathFacts Txtpp.proofs.PpFacts Txtpp.proofs.EventFacts.
Require Import Txtpp.proofs.FrameFacts Txtpp.proofs.ConfluenceFacts Txtpp.proofs.DepFacts Txtpp.proofs.CoordFacts Txtpp.proofs.RunFacts Txtpp.proofs.ScheduleFacts.
From Coq Require Import Lia Permutation.

(* The obstacle named by the author of ScheduleFacts: a frame theorem in which a pass's OWN temp targets may differ between the two
   worlds (X shrinks along the pass, because a temp target is written — with content that does not depend on the world — before it can be
   read by an `include` of the same source). Plan:
   1. `write_temp` with the same content from two worlds that agree outside X ∪ {q} (q = the temp target, a regular file or absent in
      both, parent directory the same) yields worlds that agree outside X \ {q}: afterwards q holds the same content in both
      (whether the write was skipped because the content was already right, or performed).
   2. a pass-level theorem `pass_converges_on_own_temps`: two worlds that agree outside (D ∪ own temp targets ∪ own output), where the source's
      includes do not read an own temp target BEFORE the temp directive that writes it (state this order condition on the item list:
      for every prefix `pre ++ [IDir d _]` with d an include whose normalised target is an own temp target t, some temp directive in `pre`
      has target t), give the same tag and worlds that agree outside D minus the own footprint.
   3. redo ScheduleFacts' FP / QB argument with this theorem: `schedule_independence_temps` with a static hypothesis `sched_ok_temps`
      (pairwise disjoint footprints between different sources, temp targets not `.txtpp`, not a directory, own temp targets read only after
      being written). Also `stale_outputs_and_temps_irrelevant`: ConfluenceFacts/ScheduleFacts' stale theorem where D may contain temp
      targets of processed sources.
   If step 3 is out of reach prove steps 1–2 and say what is missing. Give vm_compute `Example`s of non-vacuity (a source with a temp
   directive followed by an include of that temp file, two schedules). *)

(* ================================================================================================
   RESULTS (everything below is proved: no Admitted, no axiom; `Print Assumptions` is closed for the four deliverables).
   PART 1  `temp_ok f lp` (the temp file lp can be created and rewritten: a property of the DIRECTORIES of the tree,
           `temp_ok_dirs`; for a path without `..` it is just "write_target succeeds", `temp_ok_canon`),
           `write_temp_spec` (one world) and DELIVERABLE 1 `write_temp_converges` (+ `write_temp_converges_list`).
   PART 2  the congruence with a shrinking set D: `temp_in`, `D_after`, `item_condT`, `do_item_convT`, `items_condT`, `D_run`,
           `ritems_convT`, `D_run_temps`, `pp_rest_convT`; the static order condition `reads_ok f src m D its`
           (`static_items_condT`: static => dynamic), and DELIVERABLE 2 `pass_converges_gen` / `pass_converges_on_own_temps`.
   PART 3  `rprobes` (= ScheduleFacts.pass_probes, `rprobes_pass_probes`), `reads_ok_restrict`, `reads_ok_mono`, `reads_ok_agree`.
   PART 4  `stale_updT`, `stale_safeT`, `stale_stepT`, `static_ok_temps` and DELIVERABLE 3 `stale_outputs_and_temps_irrelevant`.
   PART 5  `sched_ok_temps` (footprints `fp` = output + temp targets), `FPT`, `QBT`, `run_closedT` / `run_leastT`,
           `schedule_independence_temps_loop` and DELIVERABLE 4 `schedule_independence_temps`.
   PART 6  non-vacuity: `write_temp_converges_ex`, `pass_converges_on_own_temps_ex`, `order_condition_needed` (the order
           condition cannot be dropped), `stale_outputs_and_temps_irrelevant_nonvacuous`, `schedule_independence_temps_nonvacuous`
           (two schedules, a source with `temp t` then `include t`, a second source depending on the first),
           `t_not_sched_ok` (ScheduleFacts.sched_ok fails on that tree).
   ================================================================================================ *)

Local Open Scope bool_scope.

(* ================================================================================================
   PART 1 — `write_temp` of the same content in two worlds: the target converges.
   ================================================================================================ *)
(* the temp file `lp` (lexical) can be created, and once it exists it can be rewritten: the parent of `lp` resolves to a
   directory, the last component is an ordinary name and the target is not a directory — and the same holds for the
   normalised path (for a path without `..` the two statements coincide, see `temp_ok_canon`).  It depends on the
   directories of the tree only (`temp_ok_dirs`), and no pass creates or removes a directory. *)
Definition temp_ok (f : fs) (lp : lexpath) : Prop :=
  write_target f lp = Some (lex_normalize lp) /\ write_target f (lex_normalize lp) = Some (lex_normalize lp).

Lemma temp_ok_dirs f g lp : (forall q, is_dir f q = is_dir g q) -> temp_ok f lp -> temp_ok g lp.
Proof. intros D [H1 H2]. split; rewrite <- (write_target_dirs f g _ D); assumption. Qed.

Lemma temp_ok_canon f lp : lex_normalize lp = lp -> write_target f lp <> None -> temp_ok f lp.
Proof.
  intros E H. destruct (write_target f lp) as [q|] eqn:Ew; [|congruence].
  pose proof (write_target_normalize _ _ _ Ew) as Eq. rewrite E in Eq. subst q.
  split; rewrite E; exact Ew.
Qed.

Lemma os_walk_snoc f a : forall cur d n,
  os_walk f cur a = Some d -> is_dir f d = true -> is_normal n = true ->
  os_walk f cur (a ++ [n]) = if exists_ f (d ++ [n]) then Some (d ++ [n]) else None.
Proof.
  induction a as [|c r IH]; intros cur d n H Hd Hn.
  - cbn [os_walk] in H. destruct (exists_ f cur); [|discriminate]. inversion H; subst d.
    cbn [app os_walk]. rewrite Hd. cbn [negb]. unfold is_normal in Hn.
    destruct (str_eqb n dotdot); [discriminate|]. reflexivity.
  - cbn [app os_walk] in *. destruct (negb (is_dir f cur)); [discriminate|].
    destruct (str_eqb c dotdot); apply IH; assumption.
Qed.

(* how a writable temp target resolves *)
Lemma temp_ok_resolve f lp : write_target f lp = Some (lex_normalize lp) ->
  os_resolve f lp = if exists_ f (lex_normalize lp) then Some (lex_normalize lp) else None.
Proof.
  intros H. pose proof H as H0. unfold write_target in H.
  destruct (rev lp) as [|n rp] eqn:E; [discriminate|].
  destruct (is_normal n) eqn:Hn; [|discriminate].
  destruct (os_resolve f (rev rp)) as [d|] eqn:Hr; [|discriminate].
  destruct (is_dir f d) eqn:Hd; [|discriminate].
  destruct (is_dir f (d ++ [n])); [discriminate|]. inversion H as [Hq]. 
  apply rev_cons_eq in E. subst lp. unfold os_resolve in *.
  rewrite (os_walk_snoc f (rev rp) [] d n Hr Hd Hn). rewrite Hq. reflexivity.
Qed.

(* what `write_temp` does to a writable temp target, in one world: it always succeeds; afterwards the target holds the
   content, everything else is untouched *)
Lemma write_temp_spec w lp c : temp_ok (w_fs w) lp ->
  exists w', write_temp w lp c = inl w' /\
    fs_get (w_fs w') (lex_normalize lp) = Some (File c) /\
    (forall p, p <> lex_normalize lp -> fs_get (w_fs w') p = fs_get (w_fs w) p) /\
    (forall p, is_dir (w_fs w') p = is_dir (w_fs w) p).
Proof.
  intros [Ht Hq].
  pose proof (write_target_nonempty _ _ _ Ht) as Hne.
  pose proof (write_target_not_dir _ _ _ Ht) as Hnd.
  unfold write_temp. rewrite (temp_ok_resolve _ _ Ht).
  remember (lex_normalize lp) as q eqn:Eq. clear Eq.
  assert (Hput : forall f0 c0, is_dir f0 q = false ->
            forall p, is_dir (fs_put f0 q (File c0)) p = is_dir f0 p).
  { intros f0 c0 H0 p. rewrite is_dir_put_file by exact Hne. destruct (path_eqb q p) eqn:E; [|reflexivity].
    apply SinkFacts.path_eqb_eq in E. subst p. symmetry. exact H0. }
  unfold exists_. destruct (fs_get (w_fs w) q) as [[c0|]|] eqn:G; cbv iota; rewrite ?G.
  - destruct (str_eqb c0 c) eqn:Ec.
    + apply str_eqb_eq in Ec. subst c0. exists w. split; [reflexivity|]. split; [exact G|]. split; intros; reflexivity.
    + unfold w_write. rewrite Hq. eexists. split; [reflexivity|]. cbn [w_fs]. split; [|split].
      * apply fs_get_put_same. exact Hne.
      * intros p Hp. apply fs_get_put_other. congruence.
      * apply (Hput _ _ Hnd).
  - unfold is_dir in Hnd. rewrite G in Hnd. discriminate.
  - unfold w_write at 1. rewrite Ht. cbn [w_fs w_log].
    destruct c as [|x c].
    + eexists. split; [reflexivity|]. cbn [w_fs]. split; [|split].
      * apply fs_get_put_same. exact Hne.
      * intros p Hp. apply fs_get_put_other. congruence.
      * apply (Hput _ _ Hnd).
    + unfold w_write. cbn [w_fs w_log].
      rewrite (write_target_dirs _ (w_fs w) lp (Hput _ [] Hnd)), Ht.
      eexists. split; [reflexivity|]. cbn [w_fs]. split; [|split].
      * apply fs_get_put_same. exact Hne.
      * intros p Hp. rewrite !fs_get_put_other by congruence. reflexivity.
      * intros p. rewrite (Hput (fs_put (w_fs w) q (File [])) (x :: c)).
        -- apply (Hput _ _ Hnd).
        -- rewrite (Hput _ [] Hnd). exact Hnd.
Qed.

(* X without the path q *)
Definition Xdrop (X : path -> bool) (q : path) : path -> bool := fun p => X p && negb (path_eqb q p).
Lemma Xdrop_false X q p : Xdrop X q p = false <-> X p = false \/ p = q.
Proof.
  unfold Xdrop. destruct (X p); cbn [andb]; [|tauto]. destruct (path_eqb q p) eqn:E; cbn [negb].
  - apply SinkFacts.path_eqb_eq in E. subst p. tauto.
  - split; [discriminate|]. intros [H|H]; [discriminate|]. subst p. rewrite SinkFacts.path_eqb_refl in E. discriminate.
Qed.

(* DELIVERABLE 1.  Two worlds that agree outside X (and have the same directories); the temp target q = normalised lp
   may be in X, i.e. may hold different contents, or exist in one world only.  If it can be written (`temp_ok`, a
   property of the directories, hence of both worlds), `write_temp` of the same content succeeds in both worlds and the
   results agree outside X \ {q}: afterwards q holds the content in both, whether the write was skipped (the content
   was already right), performed on the existing file, or the file was created.  Each world changes at q only. *)
Theorem write_temp_converges (X : path -> bool) w1 w2 lp c :
  wR X w1 w2 -> temp_ok (w_fs w1) lp ->
  exists a b, write_temp w1 lp c = inl a /\ write_temp w2 lp c = inl b /\
    wR (Xdrop X (lex_normalize lp)) a b /\
    fs_get (w_fs a) (lex_normalize lp) = Some (File c) /\ fs_get (w_fs b) (lex_normalize lp) = Some (File c) /\
    (forall p, p <> lex_normalize lp -> fs_get (w_fs a) p = fs_get (w_fs w1) p /\ fs_get (w_fs b) p = fs_get (w_fs w2) p) /\
    (forall p, is_dir (w_fs a) p = is_dir (w_fs w1) p /\ is_dir (w_fs b) p = is_dir (w_fs w2) p).
Proof.
  intros [A Dd] T1. pose proof (temp_ok_dirs _ _ lp Dd T1) as T2.
  destruct (write_temp_spec w1 lp c T1) as (a & Ea & Ga & Oa & Da).
  destruct (write_temp_spec w2 lp c T2) as (b & Eb & Gb & Ob & Db).
  exists a, b. split; [exact Ea|]. split; [exact Eb|]. split; [|split; [exact Ga|split; [exact Gb|split]]].
  - split.
    + intros p Hp. apply Xdrop_false in Hp. destruct (path_dec p (lex_normalize lp)) as [->|Hne].
      * rewrite Ga, Gb. reflexivity.
      * rewrite (Oa p Hne), (Ob p Hne). apply A. destruct Hp as [Hp|Hp]; [exact Hp|contradiction].
    + intros p. rewrite Da, Db. apply Dd.
  - intros p Hp. split; [apply Oa|apply Ob]; exact Hp.
  - intros p. split; [apply Da|apply Db].
Qed.

(* ================================================================================================
   PART 2 — a congruence for Build passes in which the set D of paths on which the two worlds may differ SHRINKS:
   a temp directive whose target is in D (and can be written) removes it from D.
   ================================================================================================ *)
Lemma in_paths_sub D D' p : (forall x, In x D' -> In x D) -> in_paths D p = false -> in_paths D' p = false.
Proof. intros H Hp. apply in_paths_false. intros Hin. apply in_paths_false in Hp. apply Hp. apply H. exact Hin. Qed.
Lemma in_paths_drop q D p : in_paths (drop_path q D) p = false <-> in_paths D p = false \/ p = q.
Proof.
  rewrite !in_paths_false, in_drop_path. split.
  - intros H. destruct (path_dec p q) as [->|Hne]; [right; reflexivity|]. left. intros Hin. apply H. split; assumption.
  - intros [H|H] [H1 H2]; [exact (H H1)|exact (H2 H)].
Qed.
Lemma wR_weaken (X X' : path -> bool) w1 w2 : (forall p, X' p = false -> X p = false) -> wR X w1 w2 -> wR X' w1 w2.
Proof. intros H [A B]. split; [|exact B]. intros p Hp. apply A. apply H. exact Hp. Qed.
Lemma sink_ok_weaken (X X' : path -> bool) k : (forall p, X p = false -> X' p = false) ->
  FrameFacts.sink_ok X k -> FrameFacts.sink_ok X' k.
Proof. intros H. destruct k; cbn; auto. intros [H1 H2]. split; apply H; assumption. Qed.

(* DELIVERABLE 1, list form *)
Corollary write_temp_converges_list D w1 w2 lp c :
  wR (in_paths D) w1 w2 -> temp_ok (w_fs w1) lp ->
  exists a b, write_temp w1 lp c = inl a /\ write_temp w2 lp c = inl b /\
    wR (in_paths (drop_path (lex_normalize lp) D)) a b.
Proof.
  intros W T. destruct (write_temp_converges (in_paths D) w1 w2 lp c W T) as (a & b & Ea & Eb & W' & _).
  exists a, b. split; [exact Ea|]. split; [exact Eb|].
  apply (wR_weaken (Xdrop (in_paths D) (lex_normalize lp))); [|exact W'].
  intros p Hp. apply Xdrop_false. apply in_paths_drop. exact Hp.
Qed.

Section Conv.
Variable orc : oracle.
Variables src base : path.
Variable le : str.
Variable first : bool.

Local Notation PSd D := (PS (in_paths D) (SKsame (in_paths D)) first).
Local Notation SRd D := (SR (in_paths D) (SKsame (in_paths D)) first).
Local Notation doit := (do_item orc Build src base le).

(* the directive is `temp a ...`, a is not a `.txtpp` name and its target is one of the paths of D *)
Definition temp_in (D : list path) (d : directive) : option str :=
  match d_ty d, d_args d with
  | DTemp, a :: _ =>
    if negb (is_txtpp_file (lex_components a)) && in_paths D (tpath src a) then Some a else None
  | _, _ => None
  end.
(* D after the item, executed in pass mode m: an executed temp directive removes its target *)
Definition D_after (D : list path) (m : ppmode) (it : item) : list path :=
  match it with
  | IDir d _ => match temp_in D d with
                | Some a => if is_execute m then drop_path (tpath src a) D else D
                | None => D
                end
  | _ => D
  end.

Lemma temp_in_spec D d a : temp_in D d = Some a ->
  d_ty d = DTemp /\ (exists rest, d_args d = a :: rest) /\ is_txtpp_file (lex_components a) = false /\ In (tpath src a) D.
Proof.
  unfold temp_in. destruct (d_ty d); try discriminate. destruct (d_args d) as [|a0 rest]; [discriminate|].
  destruct (negb (is_txtpp_file (lex_components a0)) && in_paths D (tpath src a0)) eqn:E; [|discriminate].
  intros H. inversion H; subst a0. apply andb_prop in E. destruct E as [E1 E2].
  split; [reflexivity|]. split; [exists rest; reflexivity|]. split.
  - destruct (is_txtpp_file (lex_components a)); [discriminate|reflexivity].
  - apply in_paths_true. exact E2.
Qed.
Lemma D_after_sub D m it p : In p (D_after D m it) -> In p D.
Proof.
  destruct it as [l|d fol| |]; cbn [D_after]; try (intros H; exact H).
  destruct (temp_in D d); [|intros H; exact H]. destruct (is_execute m); [|intros H; exact H].
  intros H. apply in_drop_path in H. apply H.
Qed.

(* what is asked of a directive that is not an absorbing temp directive: the conditions of FrameFacts (final pass) /
   ScheduleFacts (first pass, fine) *)
Definition dcondG (D : list path) (s : pst) (d : directive) : Prop :=
  if first then dcond1 (in_paths D) Build src s d else dcond (in_paths D) false Build src d.
Definition item_condT (D : list path) (s : pst) (it : item) : Prop :=
  forall d fol, it = IDir d fol ->
    match temp_in D d with
    | Some a => is_execute (pmode s) = true -> temp_ok (w_fs (wld s)) (lex_join (parent src) a)
    | None => dcondG D s d
    end.

(* a temp directive, in one world *)
Lemma do_item_temp_eq d fol a rest s : d_ty d = DTemp -> d_args d = a :: rest ->
  is_txtpp_file (lex_components a) = false ->
  doit (IDir d fol) s =
  if is_execute (pmode s)
  then match write_temp (wld s) (lex_join (parent src) a) (format_output le [] rest false) with
       | inl w' => StOk (set_wld s w')
       | inr k => StErr k (wld s)
       end
  else StOk s.
Proof.
  intros Ety Ea Etx. unfold do_item, item_output, exec_directive, collect_deps. rewrite Ety.
  destruct (pmode s) eqn:Em; cbn [is_execute]; unfold exec_temp; rewrite ?Ea, ?Etx; unfold work_dir;
    try (destruct (write_temp (wld s) (lex_join (parent src) a) (format_output le [] rest false)) as [w'|k];
         [|reflexivity]; unfold emit; cbn; rewrite Em; reflexivity).
  unfold emit. rewrite Em. reflexivity.
Qed.

Lemma do_item_temp D d fol a s1 s2 :
  PSd D s1 s2 -> temp_in D d = Some a ->
  (is_execute (pmode s1) = true -> temp_ok (w_fs (wld s1)) (lex_join (parent src) a)) ->
  SRd (D_after D (pmode s1) (IDir d fol)) (doit (IDir d fol) s1) (doit (IDir d fol) s2).
Proof.
  intros P Hti Hok. pose proof P as (C & F & M & T & W & K & V).
  cbn [D_after]. rewrite Hti.
  destruct (temp_in_spec D d a Hti) as (Ety & [rest Ea] & Etx & Hin).
  rewrite !(do_item_temp_eq d fol a rest _ Ety Ea Etx), <- M.
  destruct (is_execute (pmode s1)) eqn:Ex; [|exact P].
  destruct (write_temp_converges_list D (wld s1) (wld s2) (lex_join (parent src) a) (format_output le [] rest false)
              W (Hok eq_refl)) as (a' & b' & Ea' & Eb' & W').
  rewrite Ea', Eb'. fold (tpath src a) in W'.
  unfold SR, PS. cbn. repeat split; auto; try apply W'.
  - destruct K as [K1 K2]. exact K1.
  - destruct K as [K1 K2]. apply (sink_ok_weaken (in_paths D)); [|exact K2].
    intros p Hp. apply in_paths_drop. left. exact Hp.
Qed.

Lemma do_item_convT D it s1 s2 : PSd D s1 s2 -> item_condT D s1 it ->
  SRd (D_after D (pmode s1) it) (doit it s1) (doit it s2).
Proof.
  intros P Hc. destruct it as [l|d fol| |].
  - cbn [D_after]. rewrite <- !(as_text_do_item orc Build src base le).
    change (as_text le l s1) with (as_text_def le s1 l). change (as_text le l s2) with (as_text_def le s2 l).
    apply as_text_cong; [apply SKsame_write|exact P].
  - specialize (Hc d fol eq_refl). destruct (temp_in D d) as [a|] eqn:Et.
    + apply (do_item_temp D d fol a s1 s2 P Et Hc).
    + cbn [D_after]. rewrite Et. unfold dcondG in Hc. destruct first eqn:Ef.
      * apply do_item_cong1; [exact P|]. intros d' fol' E. inversion E; subst. exact Hc.
      * rewrite <- !run_directive_do_item.
        apply (run_directive_cong (in_paths D) (SKsame (in_paths D)) false orc Build src base le
                 (SKsame_write _) (SKsame_stable _)); assumption.
  - cbn [D_after]. unfold do_item, item_output. cbn. split; [reflexivity|]. apply (PS_wR _ _ _ _ _ P).
  - exact I.
Qed.

(* the condition along the execution of the items in the first world, and the set D at the end *)
Fixpoint items_condT (D : list path) (its : list item) (s : pst) : Prop :=
  match its with
  | [] => True
  | it :: r => item_condT D s it /\ (forall s', doit it s = StOk s' -> items_condT (D_after D (pmode s) it) r s')
  end.
Fixpoint D_run (D : list path) (its : list item) (s : pst) : list path :=
  match its with
  | [] => D
  | it :: r => match doit it s with
               | StOk s' => D_run (D_after D (pmode s) it) r s'
               | _ => D_after D (pmode s) it
               end
  end.

Lemma D_run_sub its : forall D s p, In p (D_run D its s) -> In p D.
Proof.
  induction its as [|it r IH]; intros D s p H; [exact H|]. cbn [D_run] in H.
  destruct (doit it s) as [s'|k w|]; [apply IH in H|idtac|idtac]; eapply D_after_sub; eauto.
Qed.

Lemma ritems_convT its : forall D s1 s2, PSd D s1 s2 -> items_condT D its s1 ->
  SRd (D_run D its s1) (ritems orc Build src base le its s1) (ritems orc Build src base le its s2).
Proof.
  induction its as [|it r IH]; intros D s1 s2 P Hc.
  - rewrite !ritems_nil. exact P.
  - rewrite !ritems_cons. cbn [D_run]. destruct Hc as [Hd Hr].
    pose proof (do_item_convT D it s1 s2 P Hd) as H.
    destruct (doit it s1) as [a|k1 a|] eqn:E1, (doit it s2) as [b|k2 b|]; simpl in H; try contradiction.
    + apply IH; [exact H|]. apply Hr. reflexivity.
    + exact H.
    + exact I.
Qed.

Lemma items_condT_app a : forall b D s,
  items_condT D (a ++ b) s <->
  items_condT D a s /\ (forall s', ritems orc Build src base le a s = StOk s' -> items_condT (D_run D a s) b s').
Proof.
  induction a as [|it a IH]; intros b D s.
  - cbn [app items_condT D_run]. split.
    + intros H. split; [exact I|]. intros s' E. rewrite ritems_nil in E. inversion E; subst. exact H.
    + intros [_ H]. apply H. apply ritems_nil.
  - cbn [app items_condT]. split.
    + intros [H1 H2]. split; [split; [exact H1|]|].
      * intros s' E. apply (IH b _ s'). apply H2. exact E.
      * intros s' E. rewrite ritems_cons in E. cbn [D_run].
        destruct (doit it s) as [s2|k w|] eqn:E2; try discriminate.
        apply (proj1 (IH b _ s2) (H2 s2 eq_refl)). exact E.
    + intros [[H1 H2] H3]. split; [exact H1|]. intros s' E. apply (IH b _ s'). split; [apply H2; exact E|].
      intros s'' E'. specialize (H3 s''). rewrite ritems_cons in H3. cbn [D_run] in H3. rewrite E in H3. apply H3. exact E'.
Qed.
Lemma D_run_app a : forall b D s s', ritems orc Build src base le a s = StOk s' ->
  D_run D (a ++ b) s = D_run (D_run D a s) b s'.
Proof.
  induction a as [|it a IH]; intros b D s s' E.
  - rewrite ritems_nil in E. inversion E; subst. reflexivity.
  - rewrite ritems_cons in E. cbn [app D_run]. destruct (doit it s) as [s2|k w|] eqn:E2; try discriminate.
    apply IH. exact E.
Qed.

Lemma next_mode_execute f m it : is_execute (next_mode f src m it) = true -> is_execute m = true.
Proof.
  destruct it as [l|d fol| |]; cbn [next_mode]; try (intros H; exact H).
  unfold next_mode_d. destruct m; [reflexivity|reflexivity|]. destruct (dep_target f src d); intros H; exact H.
Qed.
Lemma ritems_execute its : forall s s', ritems orc Build src base le its s = StOk s' ->
  is_execute (pmode s') = true -> is_execute (pmode s) = true.
Proof.
  induction its as [|it r IH]; intros s s' E H.
  - rewrite ritems_nil in E. inversion E; subst. exact H.
  - rewrite ritems_cons in E. destruct (doit it s) as [s2|k w|] eqn:E2; try discriminate.
    specialize (IH s2 s' E H). rewrite (do_item_mode orc Build src base le it s s2 ltac:(discriminate) E2) in IH.
    eapply next_mode_execute; eauto.
Qed.

(* after a successful run of the items that ends in an executing mode, no temp target is left in D *)
Lemma D_run_temps its : forall D s s', ritems orc Build src base le its s = StOk s' ->
  is_execute (pmode s') = true ->
  forall a, In a (temp_args its) -> ~ In (tpath src a) (D_run D its s).
Proof.
  induction its as [|it r IH]; intros D s s' E Hx a Ha; [destruct Ha|].
  rewrite ritems_cons in E. cbn [D_run]. destruct (doit it s) as [s2|k w|] eqn:E2; try discriminate.
  assert (Hx2 : is_execute (pmode s2) = true) by (eapply ritems_execute; eauto).
  assert (Hxs : is_execute (pmode s) = true).
  { rewrite (do_item_mode orc Build src base le it s s2 ltac:(discriminate) E2) in Hx2. eapply next_mode_execute; eauto. }
  assert (Hr : In a (temp_args r) -> ~ In (tpath src a) (D_run (D_after D (pmode s) it) r s2)).
  { intros H. eapply IH; eauto. }
  destruct it as [l|d fol| |]; cbn [temp_args] in Ha; try (apply Hr; exact Ha).
  destruct (d_ty d) eqn:Ety; try (apply Hr; exact Ha).
  destruct (d_args d) as [|a0 rest] eqn:Ea; [apply Hr; exact Ha|].
  destruct Ha as [<-|Ha]; [|apply Hr; exact Ha].
  intros Hin. apply D_run_sub in Hin.
  assert (Etx : is_txtpp_file (lex_components a0) = false).
  { destruct (is_txtpp_file (lex_components a0)) eqn:Etx; [|reflexivity]. exfalso.
    unfold do_item, item_output, exec_directive, collect_deps in E2. rewrite Ety in E2.
    destruct (pmode s) eqn:Em; try discriminate; unfold exec_temp in E2; rewrite Ea, Etx in E2; discriminate. }
  cbn [D_after] in Hin. unfold temp_in in Hin. rewrite Ety, Ea, Etx in Hin. cbn [negb andb] in Hin.
  destruct (in_paths D (tpath src a0)) eqn:Ei.
  - rewrite Hxs in Hin. apply in_drop_path in Hin. apply (proj2 Hin). reflexivity.
  - apply in_paths_false in Ei. exact (Ei Hin).
Qed.
End Conv.

Definition mode0 (first : bool) : ppmode := if first then PFirst else PExec.

(* the rest of a Build pass from two worlds that agree outside D, with the same sink: the outcomes agree outside some
   D' ⊆ D, and after a successful pass D' contains no temp target of the source *)
Lemma pp_rest_convT orc base src first tn raw k D w1 w2 :
  wR (in_paths D) w1 w2 -> FrameFacts.sink_ok (in_paths D) k ->
  items_condT orc src base (detect_le raw) first D (items_of' Build raw) (mkP None false (mode0 first) tags_new k w1) ->
  exists D', (forall p, In p D' -> In p D) /\
    OR (in_paths D') (wR (in_paths D')) (pp_rest orc Build base src first tn raw k w1)
                                        (pp_rest orc Build base src first tn raw k w2) /\
    (forall b, pp_rest orc Build base src first tn raw k w1 = PpOk b ->
       forall a, In a (temp_args (items_of' Build raw)) -> ~ In (tpath src a) D').
Proof.
  intros W Hk Hc. rewrite !pp_rest_items. cbv zeta.
  unfold items_of' in *. rewrite lsplit_parse in *. unfold mode0 in Hc.
  set (sp := lsplit (mode_eqb Build Clean) None (fst (take_valid (lines raw)))) in *.
  set (s1 := mkP None false (if first then PFirst else PExec) tags_new k w1) in *.
  set (s2 := mkP None false (if first then PFirst else PExec) tags_new k w2).
  set (le := detect_le raw) in *.
  apply items_condT_app in Hc. destruct Hc as [Hc1 Hc2].
  assert (P : PS (in_paths D) (SKsame (in_paths D)) first s1 s2).
  { unfold PS; simpl. repeat split; auto; try apply W. intros ->. reflexivity. }
  pose proof (ritems_convT orc src base le first (fst sp) D s1 s2 P Hc1) as H.
  set (D1 := D_run orc src base le D (fst sp) s1) in *.
  assert (S1 : forall p, In p D1 -> In p D) by (intros p Hp; eapply D_run_sub; eauto).
  destruct (ritems orc Build src base le (fst sp) s1) as [a|k1 a|] eqn:E1,
           (ritems orc Build src base le (fst sp) s2) as [b|k2 b|]; simpl in H; try contradiction.
  - destruct (snd (take_valid (lines raw))).
    + exists D1. split; [exact S1|]. split; [|discriminate]. split; [reflexivity|]. apply (PS_wR _ _ _ _ _ H).
    + pose proof (ritems_convT orc src base le first (pend (snd sp)) D1 a b H (Hc2 a eq_refl)) as H2.
      set (D2 := D_run orc src base le D1 (pend (snd sp)) a) in *.
      assert (S2 : forall p, In p D2 -> In p D) by (intros p Hp; apply S1; eapply D_run_sub; eauto).
      destruct (ritems orc Build src base le (pend (snd sp)) a) as [a'|k1 a'|] eqn:E2,
               (ritems orc Build src base le (pend (snd sp)) b) as [b'|k2 b'|]; simpl in H2; try contradiction.
      * exists D2. split; [exact S2|]. split.
        -- apply (epilogue_cong (in_paths D2) (SKsame (in_paths D2)) (wR (in_paths D2)) first Build le
                    (SKsame_write _) (SKsame_done _)). exact H2.
        -- intros w' Ew' x Hx.
           assert (Hexe : is_execute (pmode a') = true).
           { unfold epilogue in Ew'. destruct (pmode a'); [reflexivity|reflexivity|discriminate]. }
           assert (Eall : ritems orc Build src base le (fst sp ++ pend (snd sp)) s1 = StOk a')
             by (rewrite ritems_app, E1; exact E2).
           pose proof (D_run_temps orc src base le _ D s1 a' Eall Hexe x Hx) as Hn.
           rewrite (D_run_app orc src base le (fst sp) (pend (snd sp)) D s1 a E1) in Hn. exact Hn.
      * exists D2. split; [exact S2|]. split; [exact H2|discriminate].
      * exists D2. split; [exact S2|]. split; [exact I|discriminate].
  - exists D1. split; [exact S1|]. split; [exact H|discriminate].
  - exists D1. split; [exact S1|]. split; [exact I|discriminate].
Qed.

(* ---- the static condition ---- *)
(* the directive is executed by a pass that is in mode m when it reaches it (f: the tree in which the `.txtpp` candidates
   are evaluated) *)
Definition executes (f : fs) (src : path) (m : ppmode) (d : directive) : Prop :=
  m = PExec \/ (m = PFirst /\ dep_target f src d = None).

(* `reads_ok f src m D its`: a pass over the items `its` of `src`, starting in mode m (PFirst: a first pass, PExec: a final
   pass), may be run in two worlds that differ on D.  Along the items, with the set D of the paths that may still differ:
     - no `.txtpp` candidate probed (first passes only) is in D;
     - an executed `temp a ...` whose target is in D must be able to write it (`temp_ok`) — and removes it from D;
     - every other executed directive looks at nothing in D: an `include` does not read a path of D.  In particular an
       own temp target that is in D can only be included AFTER the temp directive that writes it. *)
Fixpoint reads_ok (f : fs) (src : path) (m : ppmode) (D : list path) (its : list item) : Prop :=
  match its with
  | [] => True
  | it :: r =>
    match it with
    | IDir d _ =>
      (m <> PExec -> forall c, In c (cprobes src d) -> ~ In c D) /\
      (executes f src m d ->
         match temp_in src D d with
         | Some a => temp_ok f (lex_join (parent src) a)
         | None => forall p, In p (xprobes src d) -> ~ In p D
         end)
    | _ => True
    end /\ reads_ok f src (next_mode f src m it) (D_after src D m it) r
  end.

Definition mode_fits (first : bool) (m : ppmode) : Prop :=
  if first then first_or_collect m else m = PExec.
Lemma next_mode_pexec f src it : next_mode f src PExec it = PExec.
Proof. destruct it; reflexivity. Qed.
Lemma mode_fits_next first f src m it : mode_fits first m -> mode_fits first (next_mode f src m it).
Proof.
  destruct first; cbn [mode_fits].
  - apply first_or_collect_next.
  - intros ->. apply next_mode_pexec.
Qed.

Section StaticT.
Variable orc : oracle.
Variables src base : path.
Variable le : str.
Variable first : bool.
Variable W : list path.
Variable w00 : world.
Variable k0 : sink.
Hypothesis Hk0 : forall e, skw_ev k0 e -> ev_allowed W e.

Lemma static_items_condT its : forall D s, Ch W w00 k0 s ->
  (forall d fol e, In (IDir d fol) its -> dir_ev Build src d e -> ev_allowed W e) ->
  (first = true -> forall d fol c, In (IDir d fol) its -> In c (cprobes src d) -> ~ In c W) ->
  mode_fits first (pmode s) ->
  reads_ok (w_fs w00) src (pmode s) D its ->
  items_condT orc src base le first D its s.
Proof.
  induction its as [|it r IH]; intros D s C Hev Hcp Hm Hr; [exact I|].
  cbn [items_condT reads_ok] in *. destruct Hr as [Hr1 Hr2].
  assert (Hnm : next_mode (w_fs (wld s)) src (pmode s) it = next_mode (w_fs w00) src (pmode s) it).
  { destruct first eqn:Ef.
    - apply (Ch_next_mode src W w00 k0 it s C). intros d fol c -> Hc. apply (Hcp eq_refl d fol c); [left; reflexivity|exact Hc].
    - cbn [mode_fits] in Hm. rewrite Hm, !next_mode_pexec. reflexivity. }
  split.
  - intros d fol ->. destruct Hr1 as [Hc1 Hx1]. destruct (temp_in src D d) as [a|] eqn:Et.
    + intros Hexe. destruct (temp_in_spec src D d a Et) as (Ety & _).
      assert (Hx : executes (w_fs w00) src (pmode s) d).
      { destruct (pmode s); [left; reflexivity|right; split; [reflexivity|]|discriminate].
        unfold dep_target. rewrite Ety. reflexivity. }
      destruct C as (_ & _ & Sd). apply (temp_ok_dirs (w_fs w00)); [|apply Hx1; exact Hx].
      intros q. symmetry. apply Sd.
    + unfold dcondG. destruct first eqn:Ef.
      * cbn [mode_fits] in Hm. split; [intros Ec; discriminate|]. intros _. split.
        -- intros p Hin. apply in_paths_false. apply Hc1; [|exact Hin].
           intros E. destruct Hm as [Hm|[ds Hm]]; congruence.
        -- intros s' Ecd p Hin. apply in_paths_false.
           assert (Hx : executes (w_fs w00) src (pmode s) d).
           { destruct (collect_deps_normal _ _ _ _ Ecd) as [Hx|[Hf Hn]]; [left; exact Hx|right].
             split; [exact Hf|]. rewrite <- (Ch_dep_target src W w00 k0 s d C); [exact Hn|].
             intros c Hc. apply (Hcp eq_refl d fol c); [left; reflexivity|exact Hc]. }
           specialize (Hx1 Hx). apply Hx1. exact Hin.
      * cbn [mode_fits] in Hm. intros p Hp. change (dprobes false Build src d) with (xprobes src d) in Hp.
        apply in_paths_false. assert (Hx : executes (w_fs w00) src (pmode s) d) by (left; exact Hm).
        specialize (Hx1 Hx). apply Hx1. exact Hp.
  - intros s' E.
    assert (C2 : Ch W w00 k0 s').
    { apply (Ch_step orc Build src base le W w00 k0 Hk0 it s s' C); [|exact E].
      intros d fol e -> He. apply (Hev d fol e); [left; reflexivity|exact He]. }
    assert (M : pmode s' = next_mode (w_fs w00) src (pmode s) it).
    { rewrite (do_item_mode orc Build src base le it s s' ltac:(discriminate) E). exact Hnm. }
    apply IH; [exact C2| | |rewrite M; apply mode_fits_next; exact Hm|rewrite M; exact Hr2].
    + intros d fol e Hin. apply (Hev d fol e). right. exact Hin.
    + intros Ef d fol c Hin. apply (Hcp Ef d fol c). right. exact Hin.
Qed.
End StaticT.

(* D without the paths of W *)
Definition drop_paths (W D : list path) : list path := filter (fun p => negb (in_paths W p)) D.
Lemma in_drop_paths W D p : In p (drop_paths W D) <-> In p D /\ ~ In p W.
Proof.
  unfold drop_paths. rewrite filter_In. split; intros [H1 H2]; (split; [exact H1|]).
  - apply in_paths_false. destruct (in_paths W p); [discriminate|reflexivity].
  - apply in_paths_false in H2. rewrite H2. reflexivity.
Qed.

(* ================================================================================================
   DELIVERABLE 2 — one Build pass (first or final) of f in two worlds that differ on a set D that may contain the
   output AND temp targets of f.
   ================================================================================================ *)
(* general form: the resulting worlds agree outside some D' ⊆ D \ {out}; after a successful pass D' contains nothing the
   pass may write *)
Theorem pass_converges_gen orc base f first tn (D : list path) w1 w2 out :
  wR (in_paths D) w1 w2 ->
  remove_txtpp f = Some out ->
  all_normal (parent f) ->
  ~ In f D ->
  (first = true -> cands_apart Build w1 f) ->
  reads_ok (w_fs w1) f (mode0 first) (drop_path out D) (items_of Build w1 f) ->
  let o1 := pp_run orc Build base f first tn w1 in
  let o2 := pp_run orc Build base f first tn w2 in
  tag_of o1 = tag_of o2 /\
  ((o1 = PpErr KOpen w1 /\ o2 = PpErr KOpen w2) \/
   exists D', (forall p, In p D' -> In p D /\ p <> out) /\
     wR (in_paths D') (out_world o1 w1) (out_world o2 w2) /\
     (tag_of o1 = TOk -> forall p, In p (writes_of Build w1 f) -> ~ In p D')).
Proof.
  intros W Hrm Hnorm Hf Hca Hro o1 o2. subst o1 o2.
  destruct (remove_txtpp_shape f out Hrm) as (dir & n & m & Es & Eo).
  assert (Hdir : all_normal dir).
  { unfold parent in Hnorm. rewrite Es, removelast_last in Hnorm. exact Hnorm. }
  destruct W as [WA WD].
  pose proof (pp_run_no_panic orc Build base f first tn w1) as NP. revert NP.
  rewrite !pp_run_unfold. unfold read_file in *.
  rewrite <- (WA f) by (apply in_paths_false; exact Hf).
  destruct (fs_get (w_fs w1) f) as [[raw|]|] eqn:Er; try (intros _; split; [reflexivity|left; split; reflexivity]).
  assert (Er' : read_file (w_fs w1) f = Some raw) by (unfold read_file; rewrite Er; reflexivity).
  rewrite Hrm. destruct (is_txtpp_file out); [intros _; split; [reflexivity|left; split; reflexivity]|].
  assert (En : forall w, sink_new Build w out =
                 match write_target (w_fs w) out with
                 | Some q => inl (SBuild out, mkW (fs_put (w_fs w) q (File [])) (w_log w ++ [EWrite q]))
                 | None => inr KOpen
                 end).
  { intros w. unfold sink_new, w_write. destruct (write_target (w_fs w) out); reflexivity. }
  rewrite !En.
  rewrite (write_target_dirs (w_fs w1) (w_fs w2) out WD).
  destruct (write_target (w_fs w2) out) as [q|] eqn:Ew; [|intros _; split; [reflexivity|left; split; reflexivity]].
  assert (q = out).
  { destruct (write_target_shape _ _ _ Ew) as (rp & n' & Ep & _ & Eq).
    rewrite Eo in Ep. apply app_inj_tail in Ep. destruct Ep as [<- <-].
    rewrite Eq, Eo. rewrite (lex_normalize_normal dir Hdir). reflexivity. }
  subst q. intros NP.
  assert (Hno : lex_normalize out = out) by (symmetry; eapply write_target_normalize; eauto).
  assert (Hnd : is_dir (w_fs w2) out = false) by (eapply write_target_not_dir; eauto).
  assert (out_ne : out <> []) by (intros ->; rewrite is_dir_nil in Hnd; discriminate).
  set (D0 := drop_path out D) in *.
  set (a1 := mkW (fs_put (w_fs w1) out (File [])) (w_log w1 ++ [EWrite out])) in *.
  set (a2 := mkW (fs_put (w_fs w2) out (File [])) (w_log w2 ++ [EWrite out])).
  assert (W' : wR (in_paths D0) a1 a2).
  { split; cbn [a1 a2 w_fs].
    - intros p Hp. destruct (path_dec out p) as [<-|Hne].
      + rewrite !fs_get_put_same by exact out_ne. reflexivity.
      + rewrite !fs_get_put_other by exact Hne. apply WA. apply in_paths_false. intros Hin.
        apply in_paths_false in Hp. apply Hp. apply in_drop_path. split; [exact Hin|congruence].
    - intros p. rewrite !is_dir_put_file by exact out_ne. rewrite WD. reflexivity. }
  assert (Hk : FrameFacts.sink_ok (in_paths D0) (SBuild out)).
  { cbn. apply in_paths_false. intros Hin. apply in_drop_path in Hin. destruct Hin as [_ Hin]. apply Hin. reflexivity. }
  assert (En1 : sink_new Build w1 out = inl (SBuild out, a1)).
  { rewrite En, (write_target_dirs (w_fs w1) (w_fs w2) out WD), Ew. reflexivity. }
  assert (Hic : items_condT orc f base (detect_le raw) first D0 (items_of' Build raw)
                  (mkP None false (mode0 first) tags_new (SBuild out) a1)).
  { apply (static_items_condT orc f base (detect_le raw) first (writes_of Build w1 f) w1 (SBuild out)
             (start_k0 Build f w1 a1 out raw (SBuild out) Hrm Er' En1)).
    - exact (start_Ch Build f w1 a1 out raw (SBuild out) Hrm Er' En1).
    - intros d fol e Hin He. rewrite (start_W Build f w1 out raw Hrm Er').
      pose proof (dir_ev_allowed Build f out d fol _ e Hin He) as Y.
      unfold ev_allowed in *. destruct (ev_path e); [right; exact Y|exact I].
    - intros Ef d fol c Hin Hc. apply (Hca Ef). rewrite (start_items Build f w1 raw Er'). eapply cand_probes_in; eauto.
    - unfold mode0. destruct first; cbn; [left; reflexivity|reflexivity].
    - rewrite <- (start_items Build f w1 raw Er'). exact Hro. }
  destruct (pp_rest_convT orc base f first tn raw (SBuild out) D0 a1 a2 W' Hk Hic) as (D' & Hsub & H & Htmp).
  assert (Hsub' : forall p, In p D' -> In p D /\ p <> out).
  { intros p Hp. apply Hsub in Hp. apply in_drop_path in Hp. exact Hp. }
  assert (Hok : forall b1, pp_rest orc Build base f first tn raw (SBuild out) a1 = PpOk b1 ->
            forall p, In p (writes_of Build w1 f) -> ~ In p D').
  { intros b1 Eb p Hp Hin. rewrite (start_W Build f w1 out raw Hrm Er'), Hno in Hp.
    destruct Hp as [<-|[<-|Hp]]; try (apply (proj2 (Hsub' _ Hin)); reflexivity).
    apply in_map_iff in Hp. destruct Hp as (a & <- & Ha). exact (Htmp b1 Eb a Ha Hin). }
  destruct (pp_rest orc Build base f first tn raw (SBuild out) a1) as [b1|d1 b1|k1 b1|],
           (pp_rest orc Build base f first tn raw (SBuild out) a2) as [b2|d2 b2|k2 b2|]; simpl in H; try contradiction; simpl.
  - split; [reflexivity|right]. exists D'. split; [exact Hsub'|]. split; [exact H|]. intros _. apply (Hok b1 eq_refl).
  - destruct H as [-> H]. split; [reflexivity|right]. exists D'. split; [exact Hsub'|]. split; [exact H|discriminate].
  - destruct H as [-> H]. split; [reflexivity|right]. exists D'. split; [exact Hsub'|]. split; [exact H|discriminate].
Qed.

(* DELIVERABLE 2.  A Build pass of f (first = true: a first pass, first = false: a final pass) in two worlds that agree
   outside D, where D may contain the output of f and temp targets of f, under the order condition `reads_ok` on the items
   (evaluated on D without the output, which both passes truncate at once):
     - the two passes give the same tag (verdict / reported dependencies);
     - unless both failed with KOpen before touching anything, the resulting worlds agree outside D \ {output};
     - after a successful pass (tag TOk) they agree outside D \ footprint, the footprint being everything the pass may
       write: the output and ALL the temp targets of the source. *)
Theorem pass_converges_on_own_temps orc base f first tn (D : list path) w1 w2 out :
  wR (in_paths D) w1 w2 ->
  remove_txtpp f = Some out ->
  all_normal (parent f) ->
  ~ In f D ->
  (first = true -> cands_apart Build w1 f) ->
  reads_ok (w_fs w1) f (mode0 first) (drop_path out D) (items_of Build w1 f) ->
  let o1 := pp_run orc Build base f first tn w1 in
  let o2 := pp_run orc Build base f first tn w2 in
  tag_of o1 = tag_of o2 /\
  ((o1 = PpErr KOpen w1 /\ o2 = PpErr KOpen w2) \/
   wR (in_paths (drop_path out D)) (out_world o1 w1) (out_world o2 w2)) /\
  (tag_of o1 = TOk -> wR (in_paths (drop_paths (writes_of Build w1 f) D)) (out_world o1 w1) (out_world o2 w2)).
Proof.
  intros W Hrm Hnorm Hf Hca Hro o1 o2.
  destruct (pass_converges_gen orc base f first tn D w1 w2 out W Hrm Hnorm Hf Hca Hro) as [Ht H].
  fold o1 o2 in Ht, H. split; [exact Ht|]. split.
  - destruct H as [H|(D' & Hsub & HW & _)]; [left; exact H|right].
    apply (wR_mono (drop_path out D) D'); [|exact HW]. intros p Hp. apply in_drop_path. apply Hsub. exact Hp.
  - intros Etag. destruct H as [[H _]|(D' & Hsub & HW & Hok)]; [rewrite H in Etag; discriminate|].
    apply (wR_mono (drop_paths (writes_of Build w1 f) D) D'); [|exact HW].
    intros p Hp. apply in_drop_paths. split; [apply (Hsub p Hp)|]. intros Hin. exact (Hok Etag p Hin Hp).
Qed.

(* ================================================================================================
   PART 3 — properties of `reads_ok`: what the pass looks at (`rprobes`), monotonicity, change of tree.
   ================================================================================================ *)
(* what a pass that starts in mode m looks at besides its source and output: the `.txtpp` candidates (not in a final
   pass), and the include / temp targets of the directives that are executed *)
Fixpoint rprobes (f : fs) (src : path) (m : ppmode) (its : list item) : list path :=
  match its with
  | [] => []
  | it :: r =>
    match it with
    | IDir d _ => match m with PExec => [] | _ => cprobes src d end ++
                  match m, dep_target f src d with
                  | PExec, _ => xprobes src d
                  | PFirst, None => xprobes src d
                  | _, _ => []
                  end
    | _ => []
    end ++ rprobes f src (next_mode f src m it) r
  end.

Lemma rprobes_first f src its : forall m, first_or_collect m -> rprobes f src m its = probes1 f src m its.
Proof.
  induction its as [|it r IH]; intros m Hm; [reflexivity|]. cbn [rprobes probes1].
  rewrite (IH _ (first_or_collect_next src f m it Hm)). f_equal.
  destruct it as [l|d fol| |]; try reflexivity.
  destruct Hm as [->|[ds ->]]; reflexivity.
Qed.
Lemma rprobes_final f src its : rprobes f src PExec its = probes false Build src its.
Proof.
  induction its as [|it r IH]; [reflexivity|]. cbn [rprobes probes]. rewrite next_mode_pexec, IH.
  destruct it as [l|d fol| |]; reflexivity.
Qed.
Lemma rprobes_pass_probes b w f : pass_probes b w f = rprobes (w_fs w) f (mode0 b) (items_of Build w f).
Proof.
  unfold pass_probes, mode0. destruct b.
  - symmetry. apply rprobes_first. left. reflexivity.
  - symmetry. apply rprobes_final.
Qed.

Lemma executes_in_rprobes f src m d fol r p : executes f src m d -> In p (xprobes src d) ->
  In p (rprobes f src m (IDir d fol :: r)).
Proof.
  intros Hx Hp. cbn [rprobes]. apply in_or_app. left. apply in_or_app. right.
  destruct Hx as [->|[-> ->]]; exact Hp.
Qed.

Lemma temp_in_xprobes src D d a : temp_in src D d = Some a -> xprobes src d = [tpath src a].
Proof.
  intros H. destruct (temp_in_spec src D d a H) as (Ety & [rest Ea] & _). unfold xprobes. rewrite Ety, Ea. reflexivity.
Qed.
Lemma temp_in_change src D T d a : temp_in src D d = Some a -> In (tpath src a) T -> temp_in src T d = Some a.
Proof.
  intros H Hin. destruct (temp_in_spec src D d a H) as (Ety & [rest Ea] & Etx & _).
  unfold temp_in. rewrite Ety, Ea, Etx. apply in_paths_true in Hin. rewrite Hin. reflexivity.
Qed.
Lemma temp_in_none_change src D T d a : temp_in src T d = Some a -> temp_in src D d = None -> ~ In (tpath src a) D.
Proof.
  intros H HN Hin. rewrite (temp_in_change src T D d a H Hin) in HN. discriminate.
Qed.

(* the condition for T gives the condition for every D that meets what the pass looks at inside T only *)
Lemma reads_ok_restrict f src its : forall m T D,
  reads_ok f src m T its ->
  (forall p, In p (rprobes f src m its) -> In p D -> In p T) ->
  reads_ok f src m D its.
Proof.
  induction its as [|it r IH]; intros m T D HT HP; [exact I|].
  cbn [reads_ok] in *. destruct HT as [HT1 HT2]. split.
  - destruct it as [l|d fol| |]; try exact I. destruct HT1 as [Hc Hx]. split.
    + intros Hm c Hin HD. apply (Hc Hm c Hin). apply HP; [|exact HD].
      cbn [rprobes]. apply in_or_app. left. apply in_or_app. left. destruct m; [congruence|exact Hin|exact Hin].
    + intros Hex. specialize (Hx Hex). destruct (temp_in src D d) as [a|] eqn:Et.
      * destruct (temp_in_spec src D d a Et) as (_ & _ & _ & HinD).
        assert (HinT : In (tpath src a) T).
        { apply HP; [|exact HinD]. apply (executes_in_rprobes f src m d fol r _ Hex).
          rewrite (temp_in_xprobes src D d a Et). left. reflexivity. }
        rewrite (temp_in_change src D T d a Et HinT) in Hx. exact Hx.
      * intros p Hp HD.
        assert (HinT : In p T) by (apply HP; [apply (executes_in_rprobes f src m d fol r _ Hex); exact Hp|exact HD]).
        destruct (temp_in src T d) as [a|] eqn:EtT.
        -- rewrite (temp_in_xprobes src T d a EtT) in Hp. destruct Hp as [<-|[]].
           exact (temp_in_none_change src D T d a EtT Et HD).
        -- exact (Hx p Hp HinT).
  - apply (IH _ (D_after src T m it)); [exact HT2|].
    intros p Hp HD.
    assert (HinD : In p D) by (eapply D_after_sub; eauto).
    assert (HinT : In p T).
    { apply HP; [|exact HinD]. cbn [rprobes]. apply in_or_app. right. exact Hp. }
    destruct it as [l|d fol| |]; cbn [D_after] in *; try exact HinT.
    destruct (temp_in src T d) as [a|] eqn:EtT; [|exact HinT].
    destruct (is_execute m) eqn:Ex; [|exact HinT].
    apply in_drop_path. split; [exact HinT|]. intros ->.
    destruct (temp_in src D d) as [a'|] eqn:EtD.
    + destruct (temp_in_spec src T d a EtT) as (_ & [r1 E1] & _). destruct (temp_in_spec src D d a' EtD) as (_ & [r2 E2] & _).
      assert (a' = a) by congruence. subst a'. apply in_drop_path in HD. apply (proj2 HD). reflexivity.
    + exact (temp_in_none_change src D T d a EtT EtD HinD).
Qed.

Corollary reads_ok_mono f src m D D' its :
  (forall p, In p D -> In p D') -> reads_ok f src m D' its -> reads_ok f src m D its.
Proof. intros H HR. apply (reads_ok_restrict f src its m D' D HR). intros p _. apply H. Qed.

(* the condition depends on the tree through the dependency targets and the directories only *)
Lemma reads_ok_agree X f1 f2 src its : agree X f1 f2 ->
  forall m D, (forall c, In c (cand_probes src its) -> X c = false) ->
  reads_ok f1 src m D its -> reads_ok f2 src m D its.
Proof.
  intros A. induction its as [|it r IH]; intros m D Hc HR; [exact I|].
  cbn [reads_ok] in *. destruct HR as [H1 H2].
  assert (Hnm : next_mode f1 src m it = next_mode f2 src m it).
  { destruct it as [l|d fol| |]; try reflexivity. cbn [next_mode cand_probes] in *. unfold next_mode_d.
    rewrite (dep_target_agree X f1 f2 src d A) by (intros c Hin; apply Hc; apply in_or_app; left; exact Hin). reflexivity. }
  split.
  - destruct it as [l|d fol| |]; try exact I. destruct H1 as [Hc1 Hx1]. split; [exact Hc1|].
    cbn [cand_probes] in Hc.
    intros Hex.
    assert (Hex1 : executes f1 src m d).
    { destruct Hex as [->|[-> Hn]]; [left; reflexivity|right; split; [reflexivity|]].
      rewrite (dep_target_agree X f1 f2 src d A); [exact Hn|]. intros c Hin. apply Hc. apply in_or_app. left. exact Hin. }
    specialize (Hx1 Hex1). destruct (temp_in src D d); [|exact Hx1].
    apply (temp_ok_dirs f1); [apply (proj2 A)|exact Hx1].
  - rewrite <- Hnm. apply IH; [|exact H2]. intros c Hin. apply Hc.
    destruct it as [l|d fol| |]; cbn [cand_probes]; try exact Hin. apply in_or_app. right. exact Hin.
Qed.

(* ================================================================================================
   PART 4 — DELIVERABLE 3: stale outputs AND stale temp files are irrelevant (same schedule, two initial worlds).
   ================================================================================================ *)
(* the stale set after a task of the run: a successful pass of f has rewritten everything f may write (its output and
   all its temp targets, read off the source in the tree w0); a first pass that reported dependencies has rewritten the
   output (and possibly some temp targets, which we do not count) *)
Definition stale_updT (w0 : world) (D : list path) (t : task) (r : result) : list path :=
  match t, r with
  | TPp f _, RPp _ (Some POk) => drop_paths (writes_of Build w0 f) D
  | TPp f _, RPp _ (Some (PDeps _)) => match remove_txtpp f with Some out => drop_path out D | None => D end
  | _, _ => D
  end.
Lemma stale_updT_sub w0 D t r p : In p (stale_updT w0 D t r) -> In p D.
Proof.
  unfold stale_updT. destruct t as [d|f b]; [auto|]. destruct r as [x|g [[|ds]|]]; auto.
  - intros H. apply in_drop_paths in H. apply H.
  - destruct (remove_txtpp f); [|auto]. intros H. apply in_drop_path in H. apply H.
Qed.

(* what is asked of a pass of the first run, executed in the world w while D is still stale *)
Definition stale_safeT (w0 : world) (D : list path) (t : task) (w : world) : Prop :=
  match t with
  | TScan _ => True
  | TPp f first =>
    match remove_txtpp f with
    | None => True
    | Some out =>
      ~ In f D /\
      (forall raw, read_file (w_fs w) f = Some raw ->
         fs_get (w_fs w) f = fs_get (w_fs w0) f /\
         all_normal (parent f) /\
         (first = true -> cands_apart Build w f) /\
         reads_ok (w_fs w) f (mode0 first) (drop_path out D) (items_of Build w f) /\
         (forall q, In q (writes_of Build w f) -> is_txtpp_file q = false))
    end
  end.

Lemma stale_stepT orc cfg base w0 D t w1 w2 r w1' :
  cfg_mode cfg = Build ->
  stale_rel D w1 w2 -> stale_safeT w0 D t w1 ->
  exec_task orc cfg base t w1 = Some (r, w1') ->
  exists w2', exec_task orc cfg base t w2 = Some (r, w2') /\ stale_rel (stale_updT w0 D t r) w1' w2'.
Proof.
  intros Hmd [HA HN1 HN2 HS] Hsafe Hex. destruct t as [d|f first].
  - cbn [exec_task] in *. inversion Hex; subst. exists w2. split.
    + rewrite (scan_dir_ext (w_fs w1') (w_fs w2) d (cfg_recursive cfg) HS (proj2 HA d)). reflexivity.
    + cbn. split; assumption.
  - rewrite exec_task_pp in *. rewrite Hmd in *. cbv zeta in *. cbn [stale_safeT] in Hsafe.
    destruct (remove_txtpp f) as [out|] eqn:Ho.
    + destruct Hsafe as (Hf & Hsafe).
      assert (Esrc : fs_get (w_fs w2) f = fs_get (w_fs w1) f).
      { symmetry. apply (proj1 HA). apply in_paths_false. exact Hf. }
      destruct (read_file (w_fs w1) f) as [raw|] eqn:Er.
      2:{ assert (Er2 : read_file (w_fs w2) f = None) by (unfold read_file in *; rewrite Esrc; exact Er).
          rewrite (pp_run_unreadable _ _ _ _ _ _ w1 Er) in Hex. rewrite (pp_run_unreadable _ _ _ _ _ _ w2 Er2).
          cbn in *. inversion Hex; subst. exists w2. split; [reflexivity|]. split; assumption. }
      destruct (Hsafe raw eq_refl) as (E0 & Hn & Hca & Hro & Htx).
      destruct (pass_converges_on_own_temps orc base f first (cfg_trailing cfg) D w1 w2 out HA Ho Hn Hf Hca Hro)
        as (Ht & Hw & Hok).
      set (o1 := pp_run orc Build base f first (cfg_trailing cfg) w1) in *.
      set (o2 := pp_run orc Build base f first (cfg_trailing cfg) w2) in *.
      rewrite <- Ht.
      destruct (res_of_tag f (tag_of o1)) as [r'|] eqn:Er'; [|discriminate]. inversion Hex; subst r' w1'. clear Hex.
      exists (out_world o2 w2). split; [reflexivity|].
      destruct (pp_run_scan orc Build base f first (cfg_trailing cfg) w1 HN1 Htx) as [N1' S1'].
      destruct (pp_run_scan orc Build base f first (cfg_trailing cfg) w2 HN2) as [N2' S2'].
      { rewrite (writes_of_same Build w1 w2 f Esrc). exact Htx. }
      fold o1 in N1', S1'. fold o2 in N2', S2'.
      split; try assumption; [|rewrite S1', S2'; exact HS].
      assert (HD : wR (in_paths D) (out_world o1 w1) (out_world o2 w2)).
      { destruct Hw as [[E1 E2]|Hw]; [rewrite E1, E2; exact HA|].
        apply (wR_mono D (drop_path out D)); [|exact Hw]. intros p Hp. apply in_drop_path in Hp. apply Hp. }
      destruct (tag_of o1) as [|ds|k|] eqn:Etag; cbn in Er'; inversion Er'; subst r; cbn [stale_updT]; rewrite ?Ho;
        try exact HD.
      * rewrite <- (writes_of_same Build w0 w1 f E0). apply Hok. reflexivity.
      * destruct Hw as [[E1 _]|Hw]; [rewrite E1 in Etag; discriminate|exact Hw].
    + rewrite (pp_run_no_out _ _ _ _ _ _ w1 Ho) in Hex. rewrite (pp_run_no_out _ _ _ _ _ _ w2 Ho).
      cbn in *. inversion Hex; subst. exists w2. split; [reflexivity|]. split; assumption.
Qed.

Definition stale_afterT (w0 : world) (D : list path) (tr : list (task * result)) : list path :=
  upd_trace (list path) (stale_updT w0) D tr.
Definition loop_stale_safeT (orc : oracle) (cfg : config) (base : path) (w0 : world) :=
  loop_safe orc cfg base (list path) (stale_updT w0) (stale_safeT w0).

Theorem stale_temps_irrelevant_loop orc cfg base fuel sched s w0 D w1 w2 :
  cfg_mode cfg = Build ->
  stale_rel D w1 w2 ->
  loop_stale_safeT orc cfg base w0 D fuel sched s w1 ->
  let x1 := run_loop orc cfg base fuel sched s w1 [] in
  let x2 := run_loop orc cfg base fuel sched s w2 [] in
  verdict_of x1 = verdict_of x2 /\ trace_of x1 = trace_of x2 /\ state_of x1 = state_of x2 /\
  stale_rel (stale_afterT w0 D (trace_of x1)) (world_of x1) (world_of x2).
Proof.
  intros Hmd HR HS.
  destruct (loop_sim orc cfg base (list path) stale_rel (stale_updT w0) (stale_safeT w0)
              (fun i t w1 w2 r w1' => stale_stepT orc cfg base w0 i t w1 w2 r w1' Hmd)
              fuel D sched s w1 w2 [] HR HS) as (Hv & Ht & Hs & added & Ea & HRa).
  cbv zeta. split; [exact Hv|]. split; [exact Ht|]. split; [exact Hs|].
  rewrite Ea. exact HRa.
Qed.

(* the footprints (outputs and temp targets) of the dependencies of a source *)
Definition dep_foot (w : world) (f : path) : list path := flat_map (writes_of Build w) (sdeps w f).

(* The static condition, on the first initial tree w.  No stale path has a `.txtpp` name.  Every readable source f is
   canonical, writes no `.txtpp` name, probes only `.txtpp` names as candidates; its FIRST pass may be run while D
   (minus its own output) is stale, its FINAL pass while D minus its own output and minus the footprints of its
   dependencies is stale (`reads_ok`: a stale temp target of f is read only after f has rewritten it, and can be written). *)
Definition static_ok_temps (D : list path) (w : world) : Prop :=
  (forall p, In p D -> is_txtpp_file p = false) /\
  forall f out raw, remove_txtpp f = Some out -> read_file (w_fs w) f = Some raw ->
    all_normal (parent f) /\
    (forall q, In q (writes_of Build w f) -> is_txtpp_file q = false) /\
    (forall c, In c (cand_probes f (items_of Build w f)) -> is_txtpp_file c = true) /\
    reads_ok (w_fs w) f PFirst (drop_path out D) (items_of Build w f) /\
    reads_ok (w_fs w) f PExec (drop_paths (out :: dep_foot w f) D) (items_of Build w f).

Section StaticTemps.
Variable orc : oracle.
Variable cfg : config.
Variable base : path.
Hypothesis Hmd : cfg_mode cfg = Build.
Variable D : list path.
Variable w0 : world.
Hypothesis HS : static_ok_temps D w0.

Definition WiT (D' : list path) (w : world) : Prop :=
  (forall p, In p D' -> In p D) /\ agree nt (w_fs w0) (w_fs w).
(* the footprints of the dependencies of f are not stale any more *)
Definition deps_freshT (D' : list path) (f : path) : Prop :=
  forall q p, In q (sdeps w0 f) -> In p (writes_of Build w0 q) -> ~ In p D'.

Lemma WiT_source D' w f out raw : WiT D' w -> remove_txtpp f = Some out -> read_file (w_fs w) f = Some raw ->
  read_file (w_fs w0) f = Some raw /\
  fs_get (w_fs w) f = fs_get (w_fs w0) f /\
  items_of Build w f = items_of Build w0 f /\
  writes_of Build w f = writes_of Build w0 f /\
  cands_apart Build w f /\
  sdeps w f = sdeps w0 f.
Proof.
  intros [_ A] Ho Er.
  assert (Ht : is_txtpp_file f = true) by (eapply remove_txtpp_is_txtpp; eauto).
  assert (E0 : fs_get (w_fs w) f = fs_get (w_fs w0) f) by (symmetry; apply (proj1 A); apply nt_false; exact Ht).
  assert (Er0 : read_file (w_fs w0) f = Some raw) by (unfold read_file in *; rewrite <- E0; exact Er).
  destruct (proj2 HS f out raw Ho Er0) as (_ & Hw & Hc & _ & _).
  pose proof (items_of_same Build w0 w f E0) as Ei. pose proof (writes_of_same Build w0 w f E0) as Ew.
  assert (Hc' : forall c, In c (cand_probes f (items_of Build w0 f)) -> nt c = false).
  { intros c Hin. apply nt_false. apply Hc. exact Hin. }
  split; [exact Er0|]. split; [exact E0|]. split; [exact Ei|]. split; [exact Ew|]. split.
  - intros c Hin Hwr. rewrite Ei in Hin. rewrite Ew in Hwr. specialize (Hc c Hin).
    rewrite (Hw c Hwr) in Hc. discriminate.
  - unfold sdeps. rewrite Ei. symmetry. apply (dep_targets_agree nt); assumption.
Qed.

Lemma WiT_safe D' w f first : WiT D' w -> (first = false -> deps_freshT D' f) -> stale_safeT w0 D' (TPp f first) w.
Proof.
  intros HW Hfr. cbn [stale_safeT]. destruct (remove_txtpp f) as [out|] eqn:Ho; [|exact I].
  pose proof (remove_txtpp_is_txtpp f out Ho) as Ht. split.
  - intros Hin. rewrite (proj1 HS f (proj1 HW f Hin)) in Ht. discriminate.
  - intros raw Er. destruct (WiT_source D' w f out raw HW Ho Er) as (Er0 & E0 & Ei & Ew & Hca & Esd).
    destruct (proj2 HS f out raw Ho Er0) as (Hn & Hw & Hc & Hp1 & Hp2).
    split; [exact E0|]. split; [exact Hn|]. split; [intros _; exact Hca|]. split; [|rewrite Ew; exact Hw].
    rewrite Ei. apply (reads_ok_agree nt (w_fs w0)); [apply HW| |].
    { intros c Hin. apply nt_false. apply Hc. exact Hin. }
    destruct first; cbn [mode0].
    + apply (reads_ok_mono _ _ _ _ (drop_path out D)); [|exact Hp1].
      intros p Hp. apply in_drop_path in Hp. apply in_drop_path. split; [apply (proj1 HW); apply Hp|apply Hp].
    + apply (reads_ok_mono _ _ _ _ (drop_paths (out :: dep_foot w0 f) D)); [|exact Hp2].
      intros p Hp. apply in_drop_path in Hp. destruct Hp as [Hp Hne]. apply in_drop_paths.
      split; [apply (proj1 HW); exact Hp|]. intros [E|Hin]; [congruence|].
      unfold dep_foot in Hin. apply in_flat_map in Hin. destruct Hin as (q & Hq & Hpq).
      exact (Hfr eq_refl q p Hq Hpq Hp).
Qed.

Lemma WiT_step D' w t r w' : WiT D' w -> exec_task orc cfg base t w = Some (r, w') -> WiT (stale_updT w0 D' t r) w'.
Proof.
  intros [Hsub A] Hex. split.
  - intros p Hp. apply Hsub. eapply stale_updT_sub; eauto.
  - apply (agree_trans nt _ (w_fs w)); [exact A|].
    destruct t as [d|f first].
    + cbn in Hex. inversion Hex; subst. apply agree_refl.
    + rewrite exec_task_pp in Hex. rewrite Hmd in Hex. cbv zeta in Hex.
      destruct (res_of_tag f _) as [r'|]; [|discriminate]. inversion Hex; subst r' w'. clear Hex.
      split.
      * intros g Hg. apply nt_false in Hg.
        destruct (read_file (w_fs w) f) as [raw|] eqn:Er.
        2:{ rewrite (pp_run_unreadable _ _ _ _ _ _ w Er). reflexivity. }
        symmetry. apply pass_footprint. intros Hin.
        destruct (remove_txtpp f) as [out|] eqn:Ho; [|unfold writes_of in Hin; rewrite Ho in Hin; destruct Hin].
        destruct (WiT_source D' w f out raw (conj Hsub A) Ho Er) as (Er0 & _ & _ & Ew & _).
        destruct (proj2 HS f out raw Ho Er0) as (_ & Hw & _).
        rewrite Ew in Hin. rewrite (Hw g Hin) in Hg. discriminate.
      * intros p. symmetry. apply (pp_run_same_dirs orc Build base f first (cfg_trailing cfg) w p).
Qed.

Definition JgT (D' : list path) (g : gstate) (w : world) : Prop :=
  WiT D' w /\
  (forall a ds, In (a, ds) (reported g) -> ds = sdeps w0 a) /\
  (forall f p, finished g f -> In p (writes_of Build w0 f) -> ~ In p D').
Definition JdT (D' : list path) (l : list task) (w : world) : Prop :=
  WiT D' w /\ forall f, In (TPp f false) l -> deps_freshT D' f.

Variables files dirs : list path.

Lemma JgT_fresh D' g w f : greach files dirs g -> JgT D' g w ->
  In (TPp f false) (inflight (gs g)) -> deps_freshT D' f.
Proof.
  intros R (_ & Hrep & Hfin) Hin q p Hq Hp.
  destruct (final_inflight_reported files dirs g f R Hin) as [ds Hd].
  pose proof (Hrep f ds Hd) as ->.
  apply (Hfin q p); [|exact Hp].
  apply (final_pass_deps_finished files dirs g R f q Hin). exists (sdeps w0 f). split; assumption.
Qed.

Lemma deps_freshT_upd D' t r f : deps_freshT D' f -> deps_freshT (stale_updT w0 D' t r) f.
Proof. intros H q p Hq Hp Hin. apply (H q p Hq Hp). eapply stale_updT_sub; eauto. Qed.

Lemma JgT_safe D' g w t : greach files dirs g -> JgT D' g w -> In t (inflight (gs g)) -> stale_safeT w0 D' t w.
Proof.
  intros R HJ Hin. destruct t as [d|f first]; [exact I|].
  apply WiT_safe; [apply HJ|]. intros ->. eapply JgT_fresh; eauto.
Qed.

Lemma JgT_step D' g w t rest r w' s2 :
  greach files dirs g -> JgT D' g w -> Permutation (inflight (gs g)) (t :: rest) ->
  exec_task orc cfg base t w = Some (r, w') -> handle (with_inflight (gs g) rest) r = Continue s2 ->
  JgT (stale_updT w0 D' t r) (mkG s2 (report t r (reported g)) (history g ++ [t])) w'.
Proof.
  intros R (HW & Hrep & Hfin) HP Hex Hh. split; [eapply WiT_step; eauto|]. split.
  - cbn [reported]. intros a ds Hin.
    destruct t as [d|f [|]]; cbn [report] in Hin; try (apply (Hrep a ds Hin)).
    destruct r as [y|g' [[|ds']|]]; try (apply (Hrep a ds Hin)).
    destruct Hin as [Hin|Hin]; [|apply (Hrep a ds Hin)]. inversion Hin; subst a ds'. clear Hin.
    rewrite exec_task_pp in Hex. rewrite Hmd in Hex. cbv zeta in Hex.
    destruct (pp_run orc Build base f true (cfg_trailing cfg) w) as [a|ds' a|k a|] eqn:E; cbn in Hex; try discriminate.
    inversion Hex; subst g' ds' w'. clear Hex.
    destruct (pp_run_deps_readable _ _ _ _ _ _ _ _ _ E) as (raw & out & Er & Ho).
    destruct (WiT_source D' w f out raw HW Ho Er) as (_ & _ & _ & _ & Hca & Esd).
    destruct (first_pass_reports_exactly orc Build base f (cfg_trailing cfg) w ds a ltac:(discriminate) Hca E) as (_ & H2 & _).
    rewrite H2. exact Esd.
  - cbn [gs]. intros f p Hf Hp Hin. unfold finished in Hf. cbn [gs] in Hf. apply pmem_In in Hf.
    destruct (inv_reach _ _ _ R) as [HPi _].
    destruct (handle_fin (with_inflight (gs g) rest) r s2 f (i_dm HPi) Hh Hf) as [Hold|Hnew].
    + apply (Hfin f p); [unfold finished; apply pmem_In; exact Hold|exact Hp|]. eapply stale_updT_sub; eauto.
    + subst r. pose proof (exec_task_answers orc cfg base _ _ _ _ Hex) as Hans.
      destruct t as [d|f0 b0]; [destruct Hans|]. destruct Hans as [-> _].
      cbn [stale_updT] in Hin. apply in_drop_paths in Hin. apply (proj2 Hin). exact Hp.
Qed.

Lemma JgT_fail D' g w t rest r w' :
  greach files dirs g -> JgT D' g w -> Permutation (inflight (gs g)) (t :: rest) ->
  exec_task orc cfg base t w = Some (r, w') -> JdT (stale_updT w0 D' t r) rest w'.
Proof.
  intros R HJ HP Hex. split; [eapply WiT_step; [apply HJ|exact Hex]|].
  intros f Hin. apply deps_freshT_upd. apply (JgT_fresh D' g w f R HJ).
  eapply Permutation_in; [apply Permutation_sym; exact HP|]. right. exact Hin.
Qed.

Lemma JdT_safe D' l w t : JdT D' l w -> In t l -> stale_safeT w0 D' t w.
Proof.
  intros [HW Hfr] Hin. destruct t as [d|f first]; [exact I|].
  apply WiT_safe; [exact HW|]. intros ->. apply Hfr. exact Hin.
Qed.
Lemma JdT_step D' l w t r w' l' :
  JdT D' l w -> In t l -> exec_task orc cfg base t w = Some (r, w') -> (forall x, In x l' -> In x l) ->
  JdT (stale_updT w0 D' t r) l' w'.
Proof.
  intros [HW Hfr] _ Hex Hsub. split; [eapply WiT_step; eauto|].
  intros f Hin. apply deps_freshT_upd. apply Hfr. apply Hsub. exact Hin.
Qed.

Lemma static_temps_loop_safe fuel sched w :
  WiT D w -> loop_stale_safeT orc cfg base w0 D fuel sched (gs (ginit files dirs)) w.
Proof.
  intros HW.
  apply (loop_safe_intro_g orc cfg base files dirs (list path) (stale_updT w0) (stale_safeT w0) JgT JdT
           JgT_safe JgT_step JgT_fail JdT_safe JdT_step fuel D sched (ginit files dirs) w (greach_init files dirs)).
  split; [exact HW|]. split.
  - intros a ds [].
  - intros f p Hf. exfalso. unfold finished, ginit in Hf. cbn [gs] in Hf.
    rewrite dm_fold_dir, dm_fold_file in Hf. discriminate.
Qed.
End StaticTemps.

(* DELIVERABLE 3.  Two initial worlds that differ on a set D of stale paths — outputs of sources AND temp targets of
   sources, possibly present in one world only —, the same schedule: same verdict, same trace, same final coordinator
   state, and the final worlds differ at most on what is still stale after the trace (`stale_afterT`: a successful pass
   removes the whole footprint of its source from the stale set). *)
Theorem stale_outputs_and_temps_irrelevant orc cfg fuel sched D w1 w2 :
  cfg_mode cfg = Build ->
  stale_rel D w1 w2 ->
  ~ In (lex_normalize (cfg_base cfg)) D ->
  Forall (input_safe D (lex_normalize (cfg_base cfg))) (cfg_inputs cfg) ->
  static_ok_temps D w1 ->
  let x1 := txtpp_run orc cfg fuel sched w1 in
  let x2 := txtpp_run orc cfg fuel sched w2 in
  verdict_of x1 = verdict_of x2 /\ trace_of x1 = trace_of x2 /\ state_of x1 = state_of x2 /\
  stale_rel (stale_afterT w1 D (trace_of x1)) (world_of x1) (world_of x2).
Proof.
  intros Hmd HR Hb Hin HS. unfold txtpp_run.
  destruct (cfg_threads cfg =? 0); [cbn; split; [reflexivity|split; [reflexivity|split; [reflexivity|exact HR]]]|].
  pose proof (sr_agree _ _ _ HR) as HA.
  rewrite <- (os_resolve_agree _ (w_fs w1) (w_fs w2) (cfg_base cfg) HA (proj2 (in_paths_false D _) Hb)).
  destruct (os_resolve (w_fs w1) (cfg_base cfg)) as [base|] eqn:Eb; [|cbn; split; [reflexivity|split; [reflexivity|split; [reflexivity|exact HR]]]].
  apply os_resolve_normalize in Eb. subst base.
  rewrite <- (resolve_inputs_agree D (w_fs w1) (w_fs w2) _ _ HA Hin [] []).
  destruct (resolve_inputs (w_fs w1) (lex_normalize (cfg_base cfg)) (cfg_inputs cfg) [] []) as [[files dirs]|];
    [|cbn; split; [reflexivity|split; [reflexivity|split; [reflexivity|exact HR]]]].
  apply stale_temps_irrelevant_loop; try assumption.
  apply (static_temps_loop_safe orc cfg _ Hmd D w1 HS files dirs fuel sched w1).
  split; [intros p Hp; exact Hp|apply agree_refl].
Qed.

(* ================================================================================================
   PART 5 — DELIVERABLE 4: schedule independence for projects WITH temp directives.
   The argument of ScheduleFacts (PART F) redone with footprints (output + temp targets) instead of outputs.
   ================================================================================================ *)
Section SchedT.
Variable orc : oracle.
Variable cfg : config.
Variable base : path.
Hypothesis Hmd : cfg_mode cfg = Build.
Variable w0 : world.          (* the initial world *)

Local Notation is_src := (is_source w0).
Local Notation lastf := (lastflag w0).

(* the footprint of a source: everything a pass over it may write (its output and its temp targets) *)
Definition fp (f : path) : list path := writes_of Build w0 f.
Definition own_temps (f : path) : list path := map (tpath f) (temp_args (items_of Build w0 f)).
(* the footprints of all the sources of the initial tree *)
Definition foots : list path :=
  flat_map (fun e => match read_file (w_fs w0) (fst e), remove_txtpp (fst e) with
                     | Some _, Some _ => fp (fst e)
                     | _, _ => []
                     end) (w_fs w0).
Lemma foots_in f out p : is_src f out -> In p (fp f) -> In p foots.
Proof.
  intros [Ho [raw Er]] Hp. unfold foots. apply in_flat_map.
  assert (Hne : f <> []) by (intros ->; unfold read_file in Er; rewrite fs_get_nil in Er; discriminate).
  unfold read_file in Er. destruct (fs_get (w_fs w0) f) as [[c|]|] eqn:G; try discriminate.
  exists (f, File c). split; [apply fs_get_in; assumption|].
  cbn [fst]. unfold read_file. rewrite G, Ho. exact Hp.
Qed.
Lemma in_foots p : In p foots -> exists f out, is_src f out /\ In p (fp f).
Proof.
  unfold foots. intros H. apply in_flat_map in H. destruct H as ([f nd] & _ & H). cbn [fst] in H.
  destruct (read_file (w_fs w0) f) as [raw|] eqn:Er; [|destruct H].
  destruct (remove_txtpp f) as [o|] eqn:Ho; [|destruct H].
  exists f, o. split; [split; [exact Ho|exists raw; exact Er]|exact H].
Qed.
Lemma fp_shape f out : remove_txtpp f = Some out -> fp f = lex_normalize out :: out :: own_temps f.
Proof. intros Ho. unfold fp, writes_of, allowed_paths, own_temps, tpath. rewrite Ho. reflexivity. Qed.

(* The static hypothesis.  Every source f is canonical, has a canonical output, writes no `.txtpp` name (output, temp
   targets), probes only `.txtpp` names as candidates; its LAST pass satisfies the order condition `reads_ok` on its own
   temp targets (an own temp target is included only after the temp directive that writes it; own temp targets can be
   written); and for every OTHER source g: the footprints are disjoint, the first pass of f does not look (finely) at
   the footprint of g, and the final pass of f looks at the footprint of g only if g is one of its dependencies. *)
Definition sched_ok_temps : Prop :=
  forall f out, is_src f out ->
    all_normal (parent f) /\ lex_normalize out = out /\
    (forall p, In p (fp f) -> is_txtpp_file p = false) /\
    (forall c, In c (cand_probes f (items_of Build w0 f)) -> is_txtpp_file c = true) /\
    reads_ok (w_fs w0) f (mode0 (lastf f)) (own_temps f) (items_of Build w0 f) /\
    (forall g outg, is_src g outg -> g <> f ->
       (forall p, In p (fp g) -> ~ In p (fp f)) /\
       (forall p, In p (fp g) -> ~ In p (pass_probes true w0 f)) /\
       (forall p, In p (fp g) -> In p (pass_probes false w0 f) -> In g (sdeps w0 f))).
Hypothesis HS : sched_ok_temps.

Lemma src_sameT w f out : agree nt (w_fs w0) (w_fs w) -> is_src f out ->
  fs_get (w_fs w) f = fs_get (w_fs w0) f /\
  items_of Build w f = items_of Build w0 f /\
  writes_of Build w f = fp f /\
  cands_apart Build w f /\
  sdeps w f = sdeps w0 f /\
  (forall b, pass_probes b w f = pass_probes b w0 f).
Proof.
  intros A Hsrc. pose proof Hsrc as [Ho [raw Er]].
  assert (Ht : is_txtpp_file f = true) by (eapply remove_txtpp_is_txtpp; eauto).
  assert (E0 : fs_get (w_fs w) f = fs_get (w_fs w0) f) by (symmetry; apply (proj1 A); apply nt_false; exact Ht).
  destruct (HS f out Hsrc) as (_ & Hno & Hto & Hc & _).
  pose proof (items_of_same Build w0 w f E0) as Ei.
  pose proof (writes_of_same Build w0 w f E0) as Ew. fold (fp f) in Ew.
  assert (Hc' : forall c, In c (cand_probes f (items_of Build w0 f)) -> nt c = false).
  { intros c Hin. apply nt_false. apply Hc. exact Hin. }
  split; [exact E0|]. split; [exact Ei|]. split; [exact Ew|]. split; [|split].
  - intros c Hin Hwr. rewrite Ei in Hin. rewrite Ew in Hwr. specialize (Hc c Hin).
    rewrite (Hto c Hwr) in Hc. discriminate.
  - unfold sdeps. rewrite Ei. symmetry. apply (dep_targets_agree nt); assumption.
  - intros b. unfold pass_probes. rewrite Ei. destruct b; [|reflexivity]. symmetry. apply (probes1_agree nt); assumption.
Qed.

(* what a pass of h does to the world: nothing outside the footprint of h *)
Lemma pass_effectT w h b : agree nt (w_fs w0) (w_fs w) ->
  let w' := out_world (pp_run orc Build base h b (cfg_trailing cfg) w) w in
  (forall p, (forall outh, is_src h outh -> ~ In p (fp h)) -> fs_get (w_fs w') p = fs_get (w_fs w) p) /\
  agree nt (w_fs w) (w_fs w').
Proof.
  intros A w'. subst w'.
  assert (G : forall p, (forall outh, is_src h outh -> ~ In p (fp h)) ->
              fs_get (w_fs (out_world (pp_run orc Build base h b (cfg_trailing cfg) w) w)) p = fs_get (w_fs w) p).
  { intros p Hp.
    destruct (read_file (w_fs w) h) as [raw|] eqn:Er.
    2:{ rewrite (pp_run_unreadable _ _ _ _ _ _ w Er). reflexivity. }
    destruct (remove_txtpp h) as [outh|] eqn:Ho.
    2:{ rewrite (pp_run_no_out _ _ _ _ _ _ w Ho). reflexivity. }
    pose proof (source_in_world w0 w h outh raw A Ho Er) as Hsrc.
    destruct (src_sameT w h outh A Hsrc) as (_ & _ & Ew & _).
    apply pass_footprint. rewrite Ew. apply (Hp outh Hsrc). }
  split; [exact G|]. split.
  - intros p Hp. symmetry. apply G. intros outh Hsrc Hin.
    destruct (HS h outh Hsrc) as (_ & _ & Hto & _). apply nt_false in Hp. rewrite (Hto p Hin) in Hp. discriminate.
  - intros p. symmetry. apply (pp_run_same_dirs orc Build base h b (cfg_trailing cfg) w p).
Qed.

Lemma foots_not_txtpp p : In p foots -> is_txtpp_file p = false.
Proof.
  intros H. destruct (in_foots p H) as (f & out & Hsrc & Hp). destruct (HS f out Hsrc) as (_ & _ & Hto & _). apply Hto. exact Hp.
Qed.

Variables files dirs : list path.

(* the world and the ghost state *)
Definition BsT (g : gstate) (w : world) : Prop :=
  agree nt (w_fs w0) (w_fs w) /\
  (forall p, ~ In p foots -> fs_get (w_fs w) p = fs_get (w_fs w0) p) /\
  (forall f out, is_src f out -> ~ In f (seen (gs g)) ->
     forall p, In p (fp f) -> fs_get (w_fs w) p = fs_get (w_fs w0) p) /\
  (forall a ds, In (a, ds) (reported g) -> ds = sdeps w0 a /\ ds <> []) /\
  (forall f, finished g f -> sdeps w0 f <> [] -> exists ds, In (f, ds) (reported g)) /\
  (forall f, finished g f -> exists out, is_src f out).

Lemma fin_deps_finT g w f q : greach files dirs g -> BsT g w ->
  finished g f -> In q (sdeps w0 f) -> finished g q.
Proof.
  intros R (_ & _ & _ & G1 & G2 & _) Hf Hq.
  assert (Hne : sdeps w0 f <> []) by (intros E; rewrite E in Hq; destruct Hq).
  destruct (G2 f Hf Hne) as [ds Hd]. destruct (G1 f ds Hd) as [-> _].
  destruct (inv_reach _ _ _ R) as [HP _]. unfold finished in *. apply pmem_In in Hf. apply pmem_In.
  destruct (i_dep_status HP f q) as [H|H]; [exists (sdeps w0 f); split; assumption|exact H|].
  exfalso. apply (i_w_nfin HP f q H Hf).
Qed.

Section WithQT.
Variable Q : path -> path -> world -> Prop.
Hypothesis Q_stable : forall g w f out h b,
  greach files dirs g -> BsT g w -> finished g f -> is_src f out ->
  In (TPp h b) (inflight (gs g)) -> Q f out w ->
  Q f out (out_world (pp_run orc Build base h b (cfg_trailing cfg) w) w).
Hypothesis Q_intro : forall g w f out w'',
  greach files dirs g -> BsT g w -> is_src f out ->
  In (TPp f (lastf f)) (inflight (gs g)) ->
  (forall q outq, finished g q -> is_src q outq -> Q q outq w) ->
  pp_run orc Build base f (lastf f) (cfg_trailing cfg) w = PpOk w'' ->
  Q f out w''.

Definition JQT (g : gstate) (w : world) : Prop :=
  BsT g w /\ forall f out, finished g f -> is_src f out -> Q f out w.

Lemma JQT_step g w t rest r w' s2 :
  greach files dirs g -> JQT g w -> Permutation (inflight (gs g)) (t :: rest) ->
  exec_task orc cfg base t w = Some (r, w') -> handle (with_inflight (gs g) rest) r = Continue s2 ->
  JQT (mkG s2 (report t r (reported g)) (history g ++ [t])) w'.
Proof.
  intros R [HB HQ] HP Hex Hh.
  pose proof HB as (A & B2 & B3 & G1 & G2 & G3).
  set (g2 := mkG s2 (report t r (reported g)) (history g ++ [t])).
  assert (Hans := exec_task_answers orc cfg base _ _ _ _ Hex).
  assert (R2 : greach files dirs g2).
  { eapply greach_step; [exact R|]. apply (gstep_continue g t rest r s2); assumption. }
  assert (Hstep : gstep g g2) by (apply (gstep_continue g t rest r s2); assumption).
  assert (Ht : In t (inflight (gs g))).
  { eapply Permutation_in; [apply Permutation_sym; exact HP|]. left. reflexivity. }
  assert (Hfin2 : forall f, finished g2 f -> finished g f \/ r = RPp f (Some POk)).
  { intros f Hf. unfold finished in *. cbn [g2 gs] in Hf. apply pmem_In in Hf.
    destruct (inv_reach _ _ _ R) as [HPi _].
    destruct (handle_fin (with_inflight (gs g) rest) r s2 f (i_dm HPi) Hh Hf) as [H|H]; [left; apply pmem_In; exact H|right; exact H]. }
  assert (Hseen2 : forall f, ~ In f (seen (gs g2)) -> ~ In f (seen (gs g))).
  { intros f Hn Hs. apply Hn. apply (gstep_seen g g2 f Hstep Hs). }
  destruct t as [d|h b].
  - cbn [exec_task] in Hex. inversion Hex; subst r w'. clear Hex.
    assert (Hfin : forall f, finished g2 f -> finished g f).
    { intros f Hf. destruct (Hfin2 f Hf) as [H|H]; [exact H|discriminate]. }
    split; [split; [exact A|split; [exact B2|split; [|split; [|split]]]]|].
    + intros f out Hsrc Hn. apply (B3 f out Hsrc). apply Hseen2. exact Hn.
    + exact G1.
    + intros f Hf Hne. apply (G2 f (Hfin f Hf) Hne).
    + intros f Hf. apply (G3 f (Hfin f Hf)).
    + intros f out Hf Hsrc. apply (HQ f out (Hfin f Hf) Hsrc).
  - rewrite exec_task_pp in Hex. rewrite Hmd in Hex. cbv zeta in Hex.
    set (o := pp_run orc Build base h b (cfg_trailing cfg) w) in *.
    destruct (res_of_tag h (tag_of o)) as [r'|] eqn:Er'; [|discriminate]. inversion Hex; subst r' w'. clear Hex.
    destruct (pass_effectT w h b A) as [Eff A']. fold o in Eff, A'.
    assert (Hh_seen : In h (seen (gs g))) by (apply (inflight_seen files dirs g (TPp h b) R Ht)).
    assert (G1' : forall a ds, In (a, ds) (reported g2) -> ds = sdeps w0 a /\ ds <> []).
    { cbn [g2 reported]. intros a ds Hin.
      destruct b; cbn [report] in Hin; try (apply (G1 a ds Hin)).
      destruct r as [y|g' [[|ds']|]]; try (apply (G1 a ds Hin)).
      destruct Hin as [Hin|Hin]; [|apply (G1 a ds Hin)]. inversion Hin; subst a ds'. clear Hin.
      destruct o as [a|ds' a|k a|] eqn:E; cbn in Er'; try discriminate. inversion Er'; subst ds'.
      destruct (pp_run_deps_readable _ _ _ _ _ _ _ _ _ E) as (raw & out & Erd & Ho).
      pose proof (source_in_world w0 w h out raw A Ho Erd) as Hsrc.
      destruct (src_sameT w h out A Hsrc) as (_ & _ & _ & Hca & Esd & _).
      destruct (first_pass_reports_exactly orc Build base h (cfg_trailing cfg) w ds a ltac:(discriminate) Hca E) as (_ & H2 & H3).
      subst g'. split; [rewrite H2; exact Esd|exact H3]. }
    assert (Hnew : r = RPp h (Some POk) ->
              exists out w'', is_src h out /\ b = lastf h /\ o = PpOk w'').
    { intros ->. destruct o as [a|ds' a|k a|] eqn:E; cbn in Er'; try discriminate.
      destruct (read_file (w_fs w) h) as [raw|] eqn:Erd.
      2:{ unfold o in E. rewrite (pp_run_unreadable _ _ _ _ _ _ w Erd) in E. discriminate. }
      destruct (remove_txtpp h) as [out|] eqn:Ho.
      2:{ unfold o in E. rewrite (pp_run_no_out _ _ _ _ _ _ w Ho) in E. discriminate. }
      pose proof (source_in_world w0 w h out raw A Ho Erd) as Hsrc.
      exists out, a. split; [exact Hsrc|]. split; [|reflexivity].
      destruct (src_sameT w h out A Hsrc) as (_ & _ & _ & Hca & Esd & _).
      destruct b.
      - symmetry. apply lastflag_true. rewrite <- Esd.
        apply (first_pass_ok_no_targets orc Build base h (cfg_trailing cfg) w a ltac:(discriminate) Hca E).
      - destruct (final_inflight_reported files dirs g h R Ht) as [ds Hd].
        destruct (G1 h ds Hd) as [Hds Hne]. unfold lastflag. rewrite <- Hds.
        destruct ds; [congruence|reflexivity]. }
    split; [split; [apply (agree_trans nt _ (w_fs w)); assumption|split; [|split; [|split; [|split]]]]|].
    + intros p Hp. rewrite <- (B2 p Hp). apply Eff. intros outh Hsrc Hin. apply Hp. eapply foots_in; eauto.
    + intros f out Hsrc Hn p Hp. pose proof (Hseen2 f Hn) as Hn0. rewrite <- (B3 f out Hsrc Hn0 p Hp). apply Eff.
      intros outh Hsrch Hin. assert (Hne : h <> f) by (intros ->; exact (Hn0 Hh_seen)).
      destruct (HS f out Hsrc) as (_ & _ & _ & _ & _ & Hx). destruct (Hx h outh Hsrch Hne) as [Hd _]. exact (Hd p Hin Hp).
    + exact G1'.
    + intros f Hf Hne. cbn [g2 reported]. destruct (Hfin2 f Hf) as [Hold|Hnw].
      * destruct (G2 f Hold Hne) as [ds Hd]. exists ds. apply report_mono. exact Hd.
      * assert (f = h) by (rewrite Hnw in Hans; destruct Hans as [E _]; exact E). subst f.
        destruct (Hnew Hnw) as (out & w'' & Hsrc & Hb & _).
        destruct b.
        -- symmetry in Hb. apply lastflag_true in Hb. contradiction.
        -- destruct (final_inflight_reported files dirs g h R Ht) as [ds Hd]. exists ds. apply report_mono. exact Hd.
    + intros f Hf. destruct (Hfin2 f Hf) as [Hold|Hnw]; [apply (G3 f Hold)|].
      assert (f = h) by (rewrite Hnw in Hans; destruct Hans as [E _]; exact E). subst f.
      destruct (Hnew Hnw) as (out & w'' & Hsrc & _). exists out. exact Hsrc.
    + intros f out Hf Hsrc. destruct (Hfin2 f Hf) as [Hold|Hnw].
      * apply (Q_stable g w f out h b R HB Hold Hsrc Ht). apply (HQ f out Hold Hsrc).
      * assert (f = h) by (rewrite Hnw in Hans; destruct Hans as [E _]; exact E). subst f.
        destruct (Hnew Hnw) as (out' & w'' & Hsrc' & Hb & Eo).
        assert (out' = out) by (destruct Hsrc as [H1 _], Hsrc' as [H2 _]; congruence). subst out'.
        rewrite Eo. cbn [out_world]. subst b.
        apply (Q_intro g w h out w'' R HB Hsrc Ht HQ). exact Eo.
Qed.
End WithQT.

(* ---- the LAST pass of a source in two worlds that differ on a part D of the footprints ---- *)
Lemma pass_two_worldsT f out D wa wb :
  is_src f out -> agree nt (w_fs w0) (w_fs wa) -> agree nt (w_fs w0) (w_fs wb) ->
  (forall p, In p D -> In p foots) ->
  (forall p, ~ In p D -> fs_get (w_fs wa) p = fs_get (w_fs wb) p) ->
  (forall p, In p (pass_probes (lastf f) w0 f) -> In p D -> In p (fp f)) ->
  forall wa'', pp_run orc Build base f (lastf f) (cfg_trailing cfg) wa = PpOk wa'' ->
  exists wb'', pp_run orc Build base f (lastf f) (cfg_trailing cfg) wb = PpOk wb'' /\
               forall p, In p (fp f) -> fs_get (w_fs wb'') p = fs_get (w_fs wa'') p.
Proof.
  intros Hsrc Aa Ab HD Hag Hpr wa'' Ea.
  pose proof Hsrc as [Ho _].
  destruct (HS f out Hsrc) as (Hn & Hno & _ & Hc & Hro & _).
  destruct (src_sameT wa f out Aa Hsrc) as (_ & Ei & Ew & Hca & _ & Ep).
  assert (W : wR (in_paths D) wa wb).
  { split; [intros p Hp; apply Hag; apply in_paths_false; exact Hp|].
    intros p. rewrite <- (proj2 Aa p). apply (proj2 Ab p). }
  assert (Hf : ~ In f D).
  { intros Hin. apply HD in Hin. apply foots_not_txtpp in Hin.
    rewrite (remove_txtpp_is_txtpp f out Ho) in Hin. discriminate. }
  assert (Hro' : reads_ok (w_fs wa) f (mode0 (lastf f)) (drop_path out D) (items_of Build wa f)).
  { rewrite Ei. apply (reads_ok_restrict _ _ _ _ (own_temps f)).
    - apply (reads_ok_agree nt (w_fs w0)); [exact Aa| |exact Hro]. intros c Hin. apply nt_false. apply Hc. exact Hin.
    - intros p Hp HpD. apply in_drop_path in HpD. destruct HpD as [HpD Hne].
      rewrite <- Ei, <- rprobes_pass_probes, Ep in Hp. specialize (Hpr p Hp HpD).
      rewrite (fp_shape f out Ho), Hno in Hpr. destruct Hpr as [E|[E|Hpr]]; [congruence|congruence|exact Hpr]. }
  destruct (pass_converges_on_own_temps orc base f (lastf f) (cfg_trailing cfg) D wa wb out W Ho Hn Hf (fun _ => Hca) Hro')
    as (Ht & _ & Hok).
  rewrite Ea in Ht, Hok. cbn [tag_of out_world] in *.
  destruct (pp_run orc Build base f (lastf f) (cfg_trailing cfg) wb) as [wb''|d2 b2|k2 b2|] eqn:Eb; try discriminate.
  exists wb''. split; [reflexivity|]. cbn [out_world] in Hok. specialize (Hok eq_refl).
  intros p Hp. symmetry. apply (proj1 Hok). apply in_paths_false. intros Hin. apply in_drop_paths in Hin.
  apply (proj2 Hin). rewrite Ew. exact Hp.
Qed.

(* ---- the final world of a successful run is a fixpoint of the last pass of every finished file ---- *)
Definition FPT (f out : path) (w : world) : Prop :=
  exists w'', pp_run orc Build base f (lastf f) (cfg_trailing cfg) w = PpOk w'' /\
              forall p, In p (fp f) -> fs_get (w_fs w'') p = fs_get (w_fs w) p.

Lemma FPT_stable g w f out h b :
  greach files dirs g -> BsT g w -> finished g f -> is_src f out ->
  In (TPp h b) (inflight (gs g)) -> FPT f out w ->
  FPT f out (out_world (pp_run orc Build base h b (cfg_trailing cfg) w) w).
Proof.
  intros R HB Hf Hsrc Hin (w'' & E & Eq).
  pose proof HB as (A & _).
  destruct (pass_effectT w h b A) as [Eff A'].
  set (w' := out_world (pp_run orc Build base h b (cfg_trailing cfg) w) w) in *.
  assert (Hne : h <> f) by (intros ->; exact (finished_not_inflight files dirs g R f b Hf Hin)).
  assert (Aw' : agree nt (w_fs w0) (w_fs w')) by (apply (agree_trans nt _ (w_fs w)); assumption).
  destruct (HS f out Hsrc) as (_ & _ & _ & _ & _ & Hx).
  assert (Eout : forall p, In p (fp f) -> fs_get (w_fs w') p = fs_get (w_fs w) p).
  { intros p Hp. apply Eff. intros outh Hsrch Hph. destruct (Hx h outh Hsrch Hne) as [Hd _]. exact (Hd p Hph Hp). }
  set (Dh := match remove_txtpp h, read_file (w_fs w0) h with Some o, Some _ => fp h | _, _ => [] end).
  assert (HDh : forall p, In p Dh -> exists o, is_src h o /\ In p (fp h)).
  { intros p Hp. unfold Dh in Hp. destruct (remove_txtpp h) as [o|] eqn:Ho; [|destruct Hp].
    destruct (read_file (w_fs w0) h) as [raw|] eqn:Er; [|destruct Hp].
    exists o. split; [split; [exact Ho|exists raw; exact Er]|exact Hp]. }
  destruct (pass_two_worldsT f out Dh w w' Hsrc A Aw') with (wa'' := w'') as (wb'' & Eb & Eqb).
  - intros p Hp. destruct (HDh p Hp) as (o & Hso & Hpo). eapply foots_in; eauto.
  - intros p Hp. symmetry. apply Eff. intros outh Hsrch Hph. apply Hp. unfold Dh.
    destruct Hsrch as [Ho [raw Er]]. rewrite Ho, Er. exact Hph.
  - intros p Hp HpD. exfalso. destruct (HDh p HpD) as (o & Hso & Hpo). destruct (Hx h o Hso Hne) as (_ & H1 & H2).
    destruct (lastf f) eqn:El; [exact (H1 p Hpo Hp)|].
    apply (finished_not_inflight files dirs g R h b); [|exact Hin].
    apply (fin_deps_finT g w f h R HB Hf). apply (H2 p Hpo Hp).
  - exact E.
  - exists wb''. split; [exact Eb|]. intros p Hp. rewrite (Eqb p Hp), (Eq p Hp), (Eout p Hp). reflexivity.
Qed.

Lemma FPT_intro g w f out w'' :
  greach files dirs g -> BsT g w -> is_src f out ->
  In (TPp f (lastf f)) (inflight (gs g)) ->
  (forall q outq, finished g q -> is_src q outq -> FPT q outq w) ->
  pp_run orc Build base f (lastf f) (cfg_trailing cfg) w = PpOk w'' ->
  FPT f out w''.
Proof.
  intros R HB Hsrc _ _ E. pose proof HB as (A & _).
  destruct (pass_effectT w f (lastf f) A) as [Eff A']. rewrite E in Eff, A'. cbn [out_world] in Eff, A'.
  destruct (pass_two_worldsT f out (fp f) w w'' Hsrc A) with (wa'' := w'') as (wb'' & Eb & Eqb).
  - apply (agree_trans nt _ (w_fs w)); assumption.
  - intros p Hp. eapply foots_in; eauto.
  - intros p Hp. symmetry. apply Eff. intros outf Hsrcf. exact Hp.
  - intros p _ Hp. exact Hp.
  - exact E.
  - exists wb''. split; [exact Eb|exact Eqb].
Qed.

(* ---- a second run ends, on the footprints of the files it finished, where the first run ended ---- *)
Section SecondT.
Variable SA : list path.
Variable WA : world.
Hypothesis HA_agree : agree nt (w_fs w0) (w_fs WA).
Hypothesis HA_foots : forall p, ~ In p foots -> fs_get (w_fs WA) p = fs_get (w_fs w0) p.
Hypothesis HA_FP : forall f out, In f SA -> is_src f out -> FPT f out WA.
Hypothesis HA_closed : forall f q, In f SA -> In q (sdeps w0 f) -> In q SA.

Definition QBT (f out : path) (w : world) : Prop :=
  In f SA -> forall p, In p (fp f) -> fs_get (w_fs w) p = fs_get (w_fs WA) p.

Lemma QBT_stable g w f out h b :
  greach files dirs g -> BsT g w -> finished g f -> is_src f out ->
  In (TPp h b) (inflight (gs g)) -> QBT f out w ->
  QBT f out (out_world (pp_run orc Build base h b (cfg_trailing cfg) w) w).
Proof.
  intros R HB Hf Hsrc Hin HQ HSA p Hp. rewrite <- (HQ HSA p Hp). pose proof HB as (A & _).
  destruct (pass_effectT w h b A) as [Eff _]. apply Eff.
  assert (Hne : h <> f) by (intros ->; exact (finished_not_inflight files dirs g R f b Hf Hin)).
  intros outh Hsrch Hph. destruct (HS f out Hsrc) as (_ & _ & _ & _ & _ & Hx).
  destruct (Hx h outh Hsrch Hne) as [Hd _]. exact (Hd p Hph Hp).
Qed.

Definition dep_feet (f : path) : list path := flat_map fp (sdeps w0 f).

Lemma QBT_intro g w f out w'' :
  greach files dirs g -> BsT g w -> is_src f out ->
  In (TPp f (lastf f)) (inflight (gs g)) ->
  (forall q outq, finished g q -> is_src q outq -> QBT q outq w) ->
  pp_run orc Build base f (lastf f) (cfg_trailing cfg) w = PpOk w'' ->
  QBT f out w''.
Proof.
  intros R HB Hsrc Hin HQ E HSA. pose proof HB as (A & B2 & _ & G1 & _ & G3).
  set (Df := filter (fun p => negb (in_paths (dep_feet f) p)) foots).
  destruct (HS f out Hsrc) as (_ & _ & _ & _ & _ & Hx).
  destruct (pass_two_worldsT f out Df w WA Hsrc A HA_agree) with (wa'' := w'') as (wb'' & Eb & Eqb).
  - intros p Hp. apply filter_In in Hp. apply Hp.
  - intros p Hp. destruct (in_paths foots p) eqn:Eo.
    + apply in_paths_true in Eo. destruct (in_paths (dep_feet f) p) eqn:Ed.
      * apply in_paths_true in Ed. unfold dep_feet in Ed. apply in_flat_map in Ed. destruct Ed as (q & Hq & Hpq).
        assert (El : lastf f = false).
        { unfold lastflag. destruct (sdeps w0 f); [destruct Hq|reflexivity]. }
        rewrite El in Hin.
        destruct (final_inflight_reported files dirs g f R Hin) as [ds Hd].
        destruct (G1 f ds Hd) as [-> _].
        assert (Hfq : finished g q).
        { apply (final_pass_deps_finished files dirs g R f q Hin). exists (sdeps w0 f). split; assumption. }
        destruct (G3 q Hfq) as [oq Hsq].
        apply (HQ q oq Hfq Hsq); [apply (HA_closed f q HSA Hq)|exact Hpq].
      * exfalso. apply Hp. apply filter_In. split; [exact Eo|]. rewrite Ed. reflexivity.
    + apply in_paths_false in Eo. rewrite (B2 p Eo), (HA_foots p Eo). reflexivity.
  - intros p Hp HpD. apply filter_In in HpD. destruct HpD as [Ho Hnd].
    destruct (in_foots p Ho) as (g' & og & Hsg & Hpg).
    destruct (path_dec g' f) as [->|Hne]; [exact Hpg|].
    exfalso. destruct (Hx g' og Hsg Hne) as (_ & H1 & H2).
    destruct (lastf f) eqn:El; [exact (H1 p Hpg Hp)|].
    assert (Hd : In p (dep_feet f)).
    { unfold dep_feet. apply in_flat_map. exists g'. split; [apply (H2 p Hpg Hp)|exact Hpg]. }
    apply in_paths_true in Hd. rewrite Hd in Hnd. discriminate.
  - exact E.
  - destruct (HA_FP f out HSA Hsrc) as (w3 & E3 & Eq3). rewrite E3 in Eb. inversion Eb; subst w3.
    intros p Hp. rewrite <- (Eqb p Hp). apply Eq3. exact Hp.
Qed.
End SecondT.

Lemma JQT_init Q : JQT Q (ginit files dirs) w0.
Proof.
  assert (Hnf : forall f, ~ finished (ginit files dirs) f).
  { intros f Hf. unfold finished, ginit in Hf. cbn [gs] in Hf. rewrite dm_fold_dir, dm_fold_file in Hf. discriminate. }
  split; [split; [apply agree_refl|split; [reflexivity|split; [reflexivity|split; [|split]]]]|].
  - intros a ds [].
  - intros f Hf. destruct (Hnf f Hf).
  - intros f Hf. destruct (Hnf f Hf).
  - intros f out Hf. destruct (Hnf f Hf).
Qed.

Theorem schedule_independence_temps_same_seen fuel1 fuel2 sched1 sched2 :
  let x1 := run_loop orc cfg base fuel1 sched1 (gs (ginit files dirs)) w0 [] in
  let x2 := run_loop orc cfg base fuel2 sched2 (gs (ginit files dirs)) w0 [] in
  verdict_of x1 = VOk -> verdict_of x2 = VOk ->
  (forall f, In f (seen (state_of x1)) <-> In f (seen (state_of x2))) ->
  w_eq (world_of x1) (world_of x2).
Proof.
  intros x1 x2 Hv1 Hv2 Hseen.
  destruct (run_loop_inv_g orc cfg base files dirs (JQT FPT) (JQT_step FPT FPT_stable FPT_intro)
              fuel1 sched1 (ginit files dirs) w0 [] (greach_init files dirs) (JQT_init FPT) Hv1)
    as (gA & RA & EsA & _ & HfinA & [HBA HQA]).
  fold x1 in EsA, HBA, HQA.
  set (SA := seen (gs gA)). set (WA := world_of x1) in *.
  pose proof HBA as (AA & B2A & B3A & _).
  assert (HsA : forall f, In f SA -> finished gA f).
  { intros f Hf. apply HfinA. unfold is_seen. apply pmem_In. exact Hf. }
  assert (HA_FP : forall f out, In f SA -> is_src f out -> FPT f out WA).
  { intros f out Hf Hsrc. apply HQA; [apply HsA; exact Hf|exact Hsrc]. }
  assert (HA_closed : forall f q, In f SA -> In q (sdeps w0 f) -> In q SA).
  { intros f q Hf Hq. pose proof (fin_deps_finT gA WA f q RA HBA (HsA f Hf) Hq) as Hfq.
    destruct (inv_reach _ _ _ RA) as [HP _]. apply (i_fin_seen HP). apply pmem_In. exact Hfq. }
  destruct (run_loop_inv_g orc cfg base files dirs (JQT (QBT SA WA))
              (JQT_step (QBT SA WA) (QBT_stable SA WA) (QBT_intro SA WA AA B2A HA_FP HA_closed))
              fuel2 sched2 (ginit files dirs) w0 [] (greach_init files dirs) (JQT_init (QBT SA WA)) Hv2)
    as (gB & RB & EsB & _ & HfinB & [HBB HQB]).
  fold x2 in EsB, HBB, HQB. set (WB := world_of x2) in *.
  pose proof HBB as (AB & B2B & B3B & _).
  intros p. destruct (in_paths foots p) eqn:Eo.
  - apply in_paths_true in Eo. destruct (in_foots p Eo) as (f & out & Hsrc & Hp).
    destruct (pmem f (seen (gs gB))) eqn:Es.
    + assert (HfB : finished gB f) by (apply HfinB; exact Es).
      apply pmem_In in Es. rewrite EsB in Es. apply Hseen in Es. rewrite <- EsA in Es.
      symmetry. apply (HQB f out HfB Hsrc Es p Hp).
    + apply pmem_nIn in Es. rewrite (B3B f out Hsrc Es p Hp).
      assert (EsA' : ~ In f (seen (gs gA))).
      { intros H. apply Es. rewrite EsB. apply Hseen. rewrite <- EsA. exact H. }
      apply (B3A f out Hsrc EsA' p Hp).
  - apply in_paths_false in Eo. rewrite (B2A p Eo), (B2B p Eo). reflexivity.
Qed.

(* ---- the set of files a successful run sees does not depend on the schedule (ScheduleFacts F8 with footprints) ---- *)
Lemma ScanT_step w t r w' : agree nt (w_fs w0) (w_fs w) -> Scan w0 w ->
  exec_task orc cfg base t w = Some (r, w') -> Scan w0 w'.
Proof.
  intros A [N S] Hex. destruct t as [d|h b].
  - cbn in Hex. inversion Hex; subst. split; assumption.
  - rewrite exec_task_pp in Hex. rewrite Hmd in Hex. cbv zeta in Hex.
    destruct (res_of_tag h _) as [r'|]; [|discriminate]. inversion Hex; subst r' w'. clear Hex.
    destruct (read_file (w_fs w) h) as [raw|] eqn:Er.
    2:{ rewrite (pp_run_unreadable _ _ _ _ _ _ w Er). split; assumption. }
    destruct (remove_txtpp h) as [outh|] eqn:Ho.
    2:{ rewrite (pp_run_no_out _ _ _ _ _ _ w Ho). split; assumption. }
    pose proof (source_in_world w0 w h outh raw A Ho Er) as Hsrc.
    destruct (src_sameT w h outh A Hsrc) as (_ & _ & Ew & _).
    destruct (HS h outh Hsrc) as (_ & _ & Hto & _).
    destruct (pp_run_scan orc Build base h b (cfg_trailing cfg) w N) as [N' S'].
    { rewrite Ew. exact Hto. }
    split; [exact N'|]. rewrite S'. exact S.
Qed.

Local Notation closedT := (closed cfg w0 files dirs).
Definition JCT (g : gstate) (w : world) : Prop := JQT QT g w /\ Scan w0 w /\ C1 cfg w0 g.

Lemma JCT_step g w t rest r w' s2 :
  greach files dirs g -> JCT g w -> Permutation (inflight (gs g)) (t :: rest) ->
  exec_task orc cfg base t w = Some (r, w') -> handle (with_inflight (gs g) rest) r = Continue s2 ->
  JCT (mkG s2 (report t r (reported g)) (history g ++ [t])) w'.
Proof.
  intros R (HJ & HSc & HC) HP Hex Hh.
  split; [apply (JQT_step QT (fun _ _ _ _ _ _ _ _ _ _ _ _ => I) (fun _ _ _ _ _ _ _ _ _ _ _ => I) g w t rest r w' s2); assumption|].
  pose proof (proj1 (proj1 HJ)) as A.
  split; [eapply ScanT_step; eauto|].
  set (g2 := mkG s2 (report t r (reported g)) (history g ++ [t])).
  assert (Hstep : gstep g g2).
  { apply (gstep_continue g t rest r s2); try assumption. eapply exec_task_answers; eauto. }
  assert (Hrest : forall x, In x rest -> In x (inflight s2)).
  { intros x Hx. apply (handle_inflight_mono _ _ _ x Hh). exact Hx. }
  assert (Hsd : forall x, In x (seen_dirs (gs g)) -> In x (seen_dirs s2)).
  { intros x Hx. apply (handle_seen_dirs_mono _ _ _ x Hh). exact Hx. }
  intros d Hd. cbn [g2 gs] in *.
  destruct (pmem d (seen_dirs (gs g))) eqn:Eold.
  - apply pmem_In in Eold. destruct (HC d Eold) as [Hfl|Hcl].
    + assert (Hin : In (TScan d) (t :: rest)) by (eapply Permutation_in; [exact HP|exact Hfl]).
      destruct Hin as [Ht|Hin]; [|left; apply Hrest; exact Hin].
      subst t. right. intros fs ds Es. cbn [exec_task] in Hex. inversion Hex; subst r w'. clear Hex.
      rewrite (Scan_scan cfg w0 w d A HSc), Es in Hh. cbn [handle] in Hh. inversion Hh; subst s2. split.
      * intros x Hx. apply seen_fold_dir. apply fold_first_all_seen. exact Hx.
      * intros x Hx. apply fold_dir_all_seen. exact Hx.
    + right. intros fs ds Es. destruct (Hcl fs ds Es) as [H1 H2]. split.
      * intros x Hx. apply (gstep_seen g g2 x Hstep). apply H1. exact Hx.
      * intros x Hx. apply Hsd. apply H2. exact Hx.
  - apply pmem_nIn in Eold. left.
    destruct (handle_cases _ _ _ Hh) as
      [[fs [ds [-> ->]]]|[[f' [m [rel [-> [Hnf ->]]]]]|[[f' [ds [m [-> [Had ->]]]]]|[f' [ds [m [-> [Had ->]]]]]]]].
    + apply seen_dirs_fold_dir_inv in Hd. rewrite seen_dirs_fold_file in Hd.
      destruct Hd as [Hd|Hd]; [contradiction|].
      apply fold_dir_new; [exact Hd|]. rewrite seen_dirs_fold_file. exact Eold.
    + rewrite seen_dirs_fold_file in Hd. contradiction.
    + rewrite seen_dirs_fold_file in Hd. contradiction.
    + rewrite seen_dirs_exec_file in Hd. contradiction.
Qed.

Lemma JCT_init : raw_ok w0 -> JCT (ginit files dirs) w0.
Proof.
  intros N. split; [apply JQT_init|]. split; [split; [exact N|reflexivity]|].
  intros d Hd. left. unfold ginit in *. cbn [gs] in *.
  apply seen_dirs_fold_dir_inv in Hd. rewrite seen_dirs_fold_file in Hd. destruct Hd as [[]|Hd].
  apply fold_dir_new; [exact Hd|]. rewrite seen_dirs_fold_file. intros [].
Qed.

Theorem run_closedT fuel sched :
  raw_ok w0 ->
  let x := run_loop orc cfg base fuel sched (gs (ginit files dirs)) w0 [] in
  verdict_of x = VOk -> closedT (seen (state_of x)) (seen_dirs (state_of x)).
Proof.
  intros N x Hv.
  destruct (run_loop_inv_g orc cfg base files dirs JCT JCT_step fuel sched (ginit files dirs) w0 []
              (greach_init files dirs) (JCT_init N) Hv) as (g & R & Es & Hfl & Hfin & ([HB _] & _ & HC)).
  fold x in Es. rewrite <- Es. split; [|split; [|split]].
  - intros f Hf. apply (greach_inputs_seen files dirs g R f Hf).
  - intros d Hd. apply (greach_dirs_seen files dirs g R d Hd).
  - intros d fs ds Hd Hscan. destruct (HC d Hd) as [H|H]; [rewrite Hfl in H; destruct H|]. apply (H fs ds Hscan).
  - intros f Hf q Hq.
    assert (Hff : finished g f) by (apply Hfin; unfold is_seen; apply pmem_In; exact Hf).
    pose proof (fin_deps_finT g (world_of x) f q R HB Hff Hq) as Hfq.
    destruct (inv_reach _ _ _ R) as [HP _]. apply (i_fin_seen HP). apply pmem_In. exact Hfq.
Qed.

Section LeastT.
Variables S Dd : list path.
Hypothesis Hcl : closedT S Dd.

Definition JLT (g : gstate) (w : world) : Prop :=
  JQT QT g w /\ Scan w0 w /\ incl (seen (gs g)) S /\ incl (seen_dirs (gs g)) Dd.

Lemma JLT_step g w t rest r w' s2 :
  greach files dirs g -> JLT g w -> Permutation (inflight (gs g)) (t :: rest) ->
  exec_task orc cfg base t w = Some (r, w') -> handle (with_inflight (gs g) rest) r = Continue s2 ->
  JLT (mkG s2 (report t r (reported g)) (history g ++ [t])) w'.
Proof.
  intros R (HJ & HSc & H1 & H2) HP Hex Hh.
  split; [apply (JQT_step QT (fun _ _ _ _ _ _ _ _ _ _ _ _ => I) (fun _ _ _ _ _ _ _ _ _ _ _ => I) g w t rest r w' s2); assumption|].
  pose proof (proj1 (proj1 HJ)) as A.
  split; [eapply ScanT_step; eauto|].
  destruct Hcl as (_ & _ & Hscan & Hdeps).
  assert (Ht : In t (inflight (gs g))).
  { eapply Permutation_in; [apply Permutation_sym; exact HP|]. left. reflexivity. }
  destruct (handle_seen _ _ _ Hh) as [Hs1 Hs2]. cbn [with_inflight seen seen_dirs] in Hs1, Hs2.
  assert (Hres : incl (res_files r) S /\ incl (res_dirs r) Dd).
  { destruct t as [d|h b].
    - cbn [exec_task] in Hex. inversion Hex; subst r w'. clear Hex.
      rewrite (Scan_scan cfg w0 w d A HSc).
      destruct (scan_dir (w_fs w0) d (cfg_recursive cfg)) as [[fs ds]|] eqn:Es; cbn [res_files res_dirs].
      + apply (Hscan d fs ds); [|exact Es]. apply H2.
        destruct (inv_reach _ _ _ R) as [HPi _]. apply (i_fl_seen HPi (TScan d) Ht).
      + split; intros x [].
    - rewrite exec_task_pp in Hex. rewrite Hmd in Hex. cbv zeta in Hex.
      destruct (pp_run orc Build base h b (cfg_trailing cfg) w) as [a|ds a|k a|] eqn:E; cbn in Hex; try discriminate;
        inversion Hex; subst r w'; cbn [res_files res_dirs]; try (split; intros x []).
      split; [|intros x []].
      assert (Hb : b = true).
      { destruct b; [reflexivity|]. exfalso. revert E. apply pp_run_final_no_deps. }
      subst b.
      destruct (pp_run_deps_readable _ _ _ _ _ _ _ _ _ E) as (raw & out & Erd & Ho).
      pose proof (source_in_world w0 w h out raw A Ho Erd) as Hsrc.
      destruct (src_sameT w h out A Hsrc) as (_ & _ & _ & Hca & Esd & _).
      destruct (first_pass_reports_exactly orc Build base h (cfg_trailing cfg) w ds a ltac:(discriminate) Hca E) as (_ & E2 & _).
      rewrite E2. fold (sdeps w h). rewrite Esd. apply Hdeps. apply H1.
      apply (inflight_seen files dirs g (TPp h true) R Ht). }
  destruct Hres as [Hr1 Hr2]. split.
  - intros x Hx. destruct (Hs1 x Hx) as [H|H]; [apply H1; exact H|apply Hr1; exact H].
  - intros x Hx. destruct (Hs2 x Hx) as [H|H]; [apply H2; exact H|apply Hr2; exact H].
Qed.

Theorem run_leastT fuel sched :
  raw_ok w0 ->
  let x := run_loop orc cfg base fuel sched (gs (ginit files dirs)) w0 [] in
  verdict_of x = VOk -> incl (seen (state_of x)) S /\ incl (seen_dirs (state_of x)) Dd.
Proof.
  intros N x Hv.
  assert (J0 : JLT (ginit files dirs) w0).
  { split; [apply JQT_init|]. split; [split; [exact N|reflexivity]|]. destruct Hcl as (Hf & Hd & _).
    unfold ginit. cbn [gs]. split.
    - intros f Hin. rewrite seen_fold_dir_eq in Hin. apply seen_fold_file_inv in Hin.
      destruct Hin as [[]|[_ Hin]]. apply Hf. exact Hin.
    - intros d Hin. apply seen_dirs_fold_dir_inv in Hin. rewrite seen_dirs_fold_file in Hin.
      destruct Hin as [[]|Hin]. apply Hd. exact Hin. }
  destruct (run_loop_inv_g orc cfg base files dirs JLT JLT_step fuel sched (ginit files dirs) w0 []
              (greach_init files dirs) J0 Hv) as (g & R & Es & _ & _ & (_ & _ & H1 & H2)).
  fold x in Es. rewrite <- Es. split; assumption.
Qed.
End LeastT.

Theorem schedule_independence_temps_loop fuel1 fuel2 sched1 sched2 :
  raw_ok w0 ->
  let x1 := run_loop orc cfg base fuel1 sched1 (gs (ginit files dirs)) w0 [] in
  let x2 := run_loop orc cfg base fuel2 sched2 (gs (ginit files dirs)) w0 [] in
  verdict_of x1 = VOk -> verdict_of x2 = VOk ->
  w_eq (world_of x1) (world_of x2).
Proof.
  intros N x1 x2 Hv1 Hv2. apply schedule_independence_temps_same_seen; try assumption.
  pose proof (run_closedT fuel1 sched1 N Hv1) as C1'. pose proof (run_closedT fuel2 sched2 N Hv2) as C2'.
  destruct (run_leastT _ _ C2' fuel1 sched1 N Hv1) as [L1 _].
  destruct (run_leastT _ _ C1' fuel2 sched2 N Hv2) as [L2 _].
  intros f. split; [apply L1|apply L2].
Qed.

End SchedT.

(* DELIVERABLE 4.  Two successful Build runs from the same world, with any two schedules (and any fuel), end in the same
   tree — for projects whose sources may contain temp directives (`sched_ok_temps`). *)
Theorem schedule_independence_temps orc cfg fuel1 fuel2 sched1 sched2 w :
  cfg_mode cfg = Build ->
  raw_ok w ->
  sched_ok_temps w ->
  let x1 := txtpp_run orc cfg fuel1 sched1 w in
  let x2 := txtpp_run orc cfg fuel2 sched2 w in
  verdict_of x1 = VOk -> verdict_of x2 = VOk ->
  w_eq (world_of x1) (world_of x2).
Proof.
  intros Hmd N HS. unfold txtpp_run.
  destruct (cfg_threads cfg =? 0); [cbn; intros _ _ p; reflexivity|].
  destruct (os_resolve (w_fs w) (cfg_base cfg)) as [base|]; [|cbn; intros _ _ p; reflexivity].
  destruct (resolve_inputs (w_fs w) base (cfg_inputs cfg) [] []) as [[files dirs]|]; [|cbn; intros _ _ p; reflexivity].
  apply (schedule_independence_temps_loop orc cfg base Hmd w HS files dirs fuel1 fuel2 sched1 sched2 N).
Qed.

(* ================================================================================================
   PART 6 — non-vacuity.  The tree
       d/ ,
       d/a.txtpp = "// TXTPP#temp t\n// hello\nTXTPP#include t\nx\n"     (writes the temp file d/t, then includes it)
       d/b.txtpp = "TXTPP#include a\nz\n"                                  (includes the output of a.txtpp: a dependency)
   once clean (t_w), once with a stale temp file d/t (t_wmid), once with a stale d/t and a stale output d/a (t_w2).
   ================================================================================================ *)
Definition t_a : path := [[100]; [97; 46; 116; 120; 116; 112; 112]].     (* d/a.txtpp *)
Definition t_b : path := [[100]; [98; 46; 116; 120; 116; 112; 112]].     (* d/b.txtpp *)
Definition t_aout : path := [[100]; [97]].                               (* d/a *)
Definition t_bout : path := [[100]; [98]].                               (* d/b *)
Definition t_t : path := [[100]; [116]].                                 (* d/t *)
Definition t_araw : str :=
  [47; 47; 32; 84; 88; 84; 80; 80; 35; 116; 101; 109; 112; 32; 116; 10; 47; 47; 32; 104; 101; 108; 108; 111; 10;
   84; 88; 84; 80; 80; 35; 105; 110; 99; 108; 117; 100; 101; 32; 116; 10; 120; 10].
Definition t_braw : str := [84; 88; 84; 80; 80; 35; 105; 110; 99; 108; 117; 100; 101; 32; 97; 10; 122; 10].
Definition t_fs : fs := [([[100]], Dir); (t_a, File t_araw); (t_b, File t_braw)].
Definition t_w : world := mkW t_fs [].
Definition t_cfg : config := mkCfg [] [[100]] true 1 Build false.
Definition t_stale : str := [115; 116; 97; 108; 101].
Definition t_old : str := [111; 108; 100].
Definition t_hello : str := [104; 101; 108; 108; 111].
Definition t_wmid : world := mkW (fs_put t_fs t_t (File t_stale)) [].
Definition t_w2 : world := mkW (fs_put (fs_put t_fs t_t (File t_stale)) t_aout (File t_old)) [].

Ltac solve_ro :=
  vm_compute; repeat split; intros;
  repeat match goal with H : _ \/ _ |- _ => destruct H | H : _ /\ _ |- _ => destruct H | H : False |- _ => destruct H end;
  subst; try discriminate; try congruence; try tauto.

Lemma t_raw_ok : raw_ok t_w.
Proof. unfold raw_ok. cbn. repeat constructor; cbn; intuition discriminate. Qed.

Lemma t_rel_mid : stale_rel [t_t] t_w t_wmid.
Proof.
  apply (stale_rel_put t_fs [] [] t_t (Some t_stale)); [exact t_raw_ok|vm_compute; reflexivity|vm_compute; reflexivity].
Qed.
Lemma t_rel : stale_rel [t_t; t_aout] t_w t_w2.
Proof.
  apply (stale_rel_trans _ _ t_wmid).
  - apply (stale_rel_mono [t_t]); [intros p [<-|[]]; left; reflexivity|exact t_rel_mid].
  - apply (stale_rel_mono [t_aout]); [intros p [<-|[]]; right; left; reflexivity|].
    apply (stale_rel_put (fs_put t_fs t_t (File t_stale)) [] [] t_aout (Some t_old));
      [exact (sr_raw2 _ _ _ t_rel_mid)|vm_compute; reflexivity|vm_compute; reflexivity].
Qed.

(* DELIVERABLE 1: d/t absent in one world, "stale" in the other; after `write_temp` of "hello" the two worlds are the same *)
Example write_temp_converges_ex :
  let lp := lex_join (parent t_a) [116] in
  wR (in_paths [t_t]) t_w t_wmid /\ temp_ok (w_fs t_w) lp /\
  fs_get (w_fs t_w) t_t = None /\ fs_get (w_fs t_wmid) t_t = Some (File t_stale) /\
  exists a b, write_temp t_w lp t_hello = inl a /\ write_temp t_wmid lp t_hello = inl b /\ w_eq a b.
Proof.
  cbv zeta. pose proof (sr_agree _ _ _ t_rel_mid) as W.
  assert (T : temp_ok (w_fs t_w) (lex_join (parent t_a) [116])) by (split; vm_compute; reflexivity).
  split; [exact W|]. split; [exact T|]. split; [vm_compute; reflexivity|]. split; [vm_compute; reflexivity|].
  destruct (write_temp_converges (in_paths [t_t]) t_w t_wmid _ t_hello W T) as (a & b & Ea & Eb & W' & _).
  exists a, b. split; [exact Ea|]. split; [exact Eb|]. apply wR_noX.
  apply (wR_weaken (Xdrop (in_paths [t_t]) (lex_normalize (lex_join (parent t_a) [116])))); [|exact W'].
  intros p _. apply Xdrop_false. destruct (in_paths [t_t] p) eqn:E; [|left; reflexivity].
  apply in_paths_true in E. destruct E as [<-|[]]. right. vm_compute. reflexivity.
Qed.

(* DELIVERABLE 2: the (first and last) pass of d/a.txtpp in the clean world and in the world with a stale d/t and a stale
   d/a: both succeed and leave the same tree *)
Example pass_converges_on_own_temps_ex :
  let D := [t_t; t_aout] in
  wR (in_paths D) t_w t_w2 /\
  reads_ok (w_fs t_w) t_a PFirst (drop_path t_aout D) (items_of Build t_w t_a) /\
  exists a b, pp_run cx_orc Build [] t_a true false t_w = PpOk a /\
              pp_run cx_orc Build [] t_a true false t_w2 = PpOk b /\ w_eq a b.
Proof.
  cbv zeta. pose proof (sr_agree _ _ _ t_rel) as W.
  assert (Hro : reads_ok (w_fs t_w) t_a (mode0 true) (drop_path t_aout [t_t; t_aout]) (items_of Build t_w t_a)) by solve_ro.
  split; [exact W|]. split; [exact Hro|].
  destruct (pass_converges_on_own_temps cx_orc [] t_a true false [t_t; t_aout] t_w t_w2 t_aout W) as (Ht & _ & Hok);
    [vm_compute; reflexivity|repeat constructor|vm_compute; intuition discriminate| |exact Hro|].
  { intros _ c Hc Hw. vm_compute in Hc, Hw. destruct Hc as [<-|[]]. intuition discriminate. }
  destruct (pp_run cx_orc Build [] t_a true false t_w) as [a|ds a|k a|] eqn:E1; try (vm_compute in E1; discriminate).
  destruct (pp_run cx_orc Build [] t_a true false t_w2) as [b|ds b|k b|] eqn:E2; try discriminate.
  exists a, b. split; [reflexivity|]. split; [reflexivity|]. cbn [out_world tag_of] in Hok.
  apply wR_noX. apply (wR_weaken (in_paths (drop_paths (writes_of Build t_w t_a) [t_t; t_aout]))); [|apply Hok; reflexivity].
  intros p _. vm_compute. reflexivity.
Qed.

(* ... and the order condition is needed: d/c.txtpp = "TXTPP#include t\n// TXTPP#temp t\n// hello\n" reads d/t BEFORE writing
   it; its pass fails in the clean world and succeeds when a stale d/t is lying around *)
Definition n_c : path := [[100]; [99; 46; 116; 120; 116; 112; 112]].
Definition n_craw : str :=
  [84; 88; 84; 80; 80; 35; 105; 110; 99; 108; 117; 100; 101; 32; 116; 10; 47; 47; 32; 84; 88; 84; 80; 80; 35;
   116; 101; 109; 112; 32; 116; 10; 47; 47; 32; 104; 101; 108; 108; 111; 10].
Definition n_fs : fs := [([[100]], Dir); (n_c, File n_craw)].
Definition n_w : world := mkW n_fs [].
Definition n_w2 : world := mkW (fs_put n_fs t_t (File t_stale)) [].
Example order_condition_needed :
  wR (in_paths [t_t]) n_w n_w2 /\
  tag_of (pp_run cx_orc Build [] n_c true false n_w) <> tag_of (pp_run cx_orc Build [] n_c true false n_w2) /\
  ~ reads_ok (w_fs n_w) n_c PFirst [t_t] (items_of Build n_w n_c).
Proof.
  split; [|split].
  - apply (sr_agree [t_t] n_w n_w2). apply (stale_rel_put n_fs [] [] t_t (Some t_stale));
      [unfold raw_ok; cbn; repeat constructor; cbn; intuition discriminate|vm_compute; reflexivity|vm_compute; reflexivity].
  - vm_compute. discriminate.
  - vm_compute. intros [[_ H] _]. apply (H (or_intror (conj eq_refl eq_refl)) t_t); left; reflexivity.
Qed.

Lemma t_sources f raw : read_file (w_fs t_w) f = Some raw -> f = t_a \/ f = t_b.
Proof.
  unfold read_file, t_w, t_fs. cbn [w_fs]. intros Er.
  destruct f as [|x f']; [cbn in Er; discriminate|]. cbn [fs_get] in Er.
  destruct (path_eqb [[100]] (x :: f')) eqn:E1; [discriminate|].
  destruct (path_eqb t_a (x :: f')) eqn:E2; [left; apply SinkFacts.path_eqb_eq in E2; symmetry; exact E2|].
  destruct (path_eqb t_b (x :: f')) eqn:E3; [right; apply SinkFacts.path_eqb_eq in E3; symmetry; exact E3|discriminate].
Qed.

(* DELIVERABLE 3 *)
Lemma t_static : static_ok_temps [t_t; t_aout] t_w.
Proof.
  split.
  - intros p [<-|[<-|[]]]; vm_compute; reflexivity.
  - intros f out raw Ho Er. destruct (t_sources f raw Er) as [-> | ->]; vm_compute in Ho; inversion Ho; subst out.
    + split; [repeat constructor|]. split; [|split; [|split]].
      * intros q Hq. vm_compute in Hq. destruct Hq as [<-|[<-|[<-|[]]]]; vm_compute; reflexivity.
      * intros c Hc. vm_compute in Hc. destruct Hc as [<-|[]]. vm_compute. reflexivity.
      * solve_ro.
      * solve_ro.
    + split; [repeat constructor|]. split; [|split; [|split]].
      * intros q Hq. vm_compute in Hq. destruct Hq as [<-|[<-|[]]]; vm_compute; reflexivity.
      * intros c Hc. vm_compute in Hc. destruct Hc as [<-|[]]. vm_compute. reflexivity.
      * solve_ro.
      * solve_ro.
Qed.

Example stale_outputs_and_temps_irrelevant_nonvacuous :
  (* for every schedule: same verdict, same trace, same final coordinator state *)
  (forall fuel sched,
     let x1 := txtpp_run cx_orc t_cfg fuel sched t_w in
     let x2 := txtpp_run cx_orc t_cfg fuel sched t_w2 in
     verdict_of x1 = verdict_of x2 /\ trace_of x1 = trace_of x2 /\ state_of x1 = state_of x2) /\
  (* for two schedules: success, nothing is stale at the end, the final trees are the same *)
  (forall sched, sched = [] \/ sched = [0; 1; 0; 0]%nat ->
     let x1 := txtpp_run cx_orc t_cfg 9 sched t_w in
     let x2 := txtpp_run cx_orc t_cfg 9 sched t_w2 in
     verdict_of x1 = VOk /\ verdict_of x2 = VOk /\ w_eq (world_of x1) (world_of x2)).
Proof.
  assert (Hb : ~ In (lex_normalize (cfg_base t_cfg)) [t_t; t_aout]) by (vm_compute; intuition discriminate).
  assert (Hi : Forall (input_safe [t_t; t_aout] (lex_normalize (cfg_base t_cfg))) (cfg_inputs t_cfg)).
  { constructor; [|constructor]. split; [vm_compute; intuition discriminate|].
    intros c Hc. vm_compute in Hc. destruct Hc as [<-|[]]. vm_compute. intuition discriminate. }
  split.
  - intros fuel sched.
    destruct (stale_outputs_and_temps_irrelevant cx_orc t_cfg fuel sched [t_t; t_aout] t_w t_w2 eq_refl t_rel Hb Hi t_static)
      as (Hv & Ht & Hs & _). cbv zeta. auto.
  - intros sched Hsched.
    destruct (stale_outputs_and_temps_irrelevant cx_orc t_cfg 9 sched [t_t; t_aout] t_w t_w2 eq_refl t_rel Hb Hi t_static)
      as (Hv & Ht & _ & HR). cbv zeta.
    assert (E1 : verdict_of (txtpp_run cx_orc t_cfg 9 sched t_w) = VOk)
      by (destruct Hsched as [-> | ->]; vm_compute; reflexivity).
    assert (Es : stale_afterT t_w [t_t; t_aout] (trace_of (txtpp_run cx_orc t_cfg 9 sched t_w)) = [])
      by (destruct Hsched as [-> | ->]; vm_compute; reflexivity).
    split; [exact E1|]. split; [rewrite <- Hv; exact E1|].
    rewrite Es in HR. apply wR_noX. destruct (sr_agree _ _ _ HR) as [A B]. split; [|exact B].
    intros p _. apply A. reflexivity.
Qed.

(* DELIVERABLE 4 *)
Lemma t_sched_ok : sched_ok_temps t_w.
Proof.
  assert (Hsrc : forall f out, is_source t_w f out -> (f = t_a /\ out = t_aout) \/ (f = t_b /\ out = t_bout)).
  { intros f out [Ho [raw Er]]. destruct (t_sources f raw Er) as [-> | ->]; vm_compute in Ho; inversion Ho; auto. }
  intros f out Hs. destruct (Hsrc f out Hs) as [[-> ->]|[-> ->]].
  - split; [repeat constructor|]. split; [vm_compute; reflexivity|]. split; [|split; [|split]].
    + intros p Hp. vm_compute in Hp. destruct Hp as [<-|[<-|[<-|[]]]]; vm_compute; reflexivity.
    + intros c Hc. vm_compute in Hc. destruct Hc as [<-|[]]. vm_compute. reflexivity.
    + solve_ro.
    + intros g outg Hg Hne. destruct (Hsrc g outg Hg) as [[-> ->]|[-> ->]]; [congruence|].
      split; [|split]; intros p Hp; vm_compute in Hp; destruct Hp as [<-|[<-|[]]]; vm_compute; intuition discriminate.
  - split; [repeat constructor|]. split; [vm_compute; reflexivity|]. split; [|split; [|split]].
    + intros p Hp. vm_compute in Hp. destruct Hp as [<-|[<-|[]]]; vm_compute; reflexivity.
    + intros c Hc. vm_compute in Hc. destruct Hc as [<-|[]]. vm_compute. reflexivity.
    + solve_ro.
    + intros g outg Hg Hne. destruct (Hsrc g outg Hg) as [[-> ->]|[-> ->]]; [|congruence].
      split; [|split]; intros p Hp; vm_compute in Hp; destruct Hp as [<-|[<-|[<-|[]]]]; vm_compute; intuition discriminate.
Qed.

Example schedule_independence_temps_nonvacuous :
  let x1 := txtpp_run cx_orc t_cfg 9 [] t_w in                 (* a.txtpp is processed first *)
  let x2 := txtpp_run cx_orc t_cfg 9 [0; 1; 0; 0]%nat t_w in   (* b.txtpp is looked at first *)
  verdict_of x1 = VOk /\ verdict_of x2 = VOk /\ map fst (trace_of x1) <> map fst (trace_of x2) /\
  fs_get (w_fs (world_of x1)) t_t = Some (File t_hello) /\
  w_eq (world_of x1) (world_of x2).
Proof.
  cbv zeta.
  assert (E1 : verdict_of (txtpp_run cx_orc t_cfg 9 [] t_w) = VOk) by (vm_compute; reflexivity).
  assert (E2 : verdict_of (txtpp_run cx_orc t_cfg 9 [0; 1; 0; 0]%nat t_w) = VOk) by (vm_compute; reflexivity).
  split; [exact E1|]. split; [exact E2|]. split; [vm_compute; discriminate|]. split; [vm_compute; reflexivity|].
  apply schedule_independence_temps; [reflexivity|exact t_raw_ok|exact t_sched_ok|exact E1|exact E2].
Qed.

(* the hypothesis of ScheduleFacts.schedule_independence fails on this tree: a.txtpp has a temp directive *)
Lemma t_not_sched_ok : ~ sched_ok t_w.
Proof.
  intros H. destruct (H t_a t_aout) as (_ & _ & _ & Ht & _).
  - split; [vm_compute; reflexivity|exists t_araw; vm_compute; reflexivity].
  - vm_compute in Ht. discriminate.
Qed.
