(* CycleFacts.v — property C05 for WHOLE runs: dependency cycles are reported, never hang, and spare the acyclic part.
   Everything below is proved (nothing assumed); `Print Assumptions` of the deliverables is closed.

   The static dependency graph of a project is read off the INITIAL world w:
       dep_edge w f g      :=  In g (sdeps w f)                  (g is a dependency target of the source f)
       reaches_cycle w f   :=  exists g, f ->* g  /\  g ->+ g    (some dependency chain from f runs into a cycle)
   The circular-dependency error of the model is `circular_error x`: verdict VErr, no completed task answered an error,
   and the dependency manager of the final coordinator state still holds waiting files (`has_remaining`): this is
   exactly the exit `take_remaining() non-empty` of Txtpp::run (`circular_error_normal_exit`, `verr_classification`).

   PART A  finite graphs: a non-empty finite set in which every node has a successor contains a cycle reachable from
           each of its nodes (`finite_successors_cycle`); `Acc` excludes reaching a cycle (`acc_not_reaches_cycle`).
   PART B  `run_loop_exit_inv`: an invariant over (ghost state, world, trace) carried to EVERY exit of the loop
           (normal exit with VOk or VErr, out of fuel), or else some task of the trace answered an error.
   PART C  the invariant `JX` of a run in ANY mode but Clean, under the static hypothesis `cycle_static` (implied by
           `sched_ok_temps` and by `sched_ok`): the sources are unchanged, the reported dependencies are the static
           ones, a finished file has all its dependencies finished and is on no cycle, ...
   PART D  the analysis of a normal exit (`exit_facts`).
   PART E  the theorems on `txtpp_run`:
             X1  `cycle_iff_static`, `cycle_iff_static_fuel` (with the static fuel bound), `cyclic_part_first_pass_only`
             X2  `no_cycle_no_circular_error`, `no_cycle_no_circular_error_acc`, `acyclic_run_ok`
             C05 "never hang": `cycle_never_hangs`.
   PART F  X3, non-vacuity: a project with an acyclic part (a.txtpp with a temp directive, b.txtpp including the output
           of a.txtpp) and a cyclic part (p.txtpp <-> q.txtpp, r.txtpp -> p.txtpp): `cycle_reported_nonvacuous` (Build,
           two schedules), `cycle_reported_fuel_nonvacuous`, `cycle_reported_needed_nonvacuous` (--needed),
           `cycle_reported_verify_nonvacuous` (verify), `no_cycle_no_circular_error_nonvacuous` (X2 on the acyclic tree
           of ScheduleTempFacts PART 6), `cycle_never_hangs_nonvacuous`, and the observation
           `cycle_truncates_outputs_of_cyclic_part`. *)
Require Import Txtpp.Str Txtpp.Consts Txtpp.Grammar Txtpp.Tags Txtpp.Path Txtpp.Fs Txtpp.Sink Txtpp.Pp Txtpp.Spec.
Require Import Txtpp.Dep Txtpp.Coord Txtpp.Run.
Require Import Txtpp.proofs.StrFacts Txtpp.proofs.SinkFacts Txtpp.proofs.PathFacts Txtpp.proofs.PpFacts Txtpp.proofs.EventFacts.
Require Import Txtpp.proofs.FrameFacts Txtpp.proofs.ConfluenceFacts Txtpp.proofs.DepFacts Txtpp.proofs.CoordFacts Txtpp.proofs.RunFacts Txtpp.proofs.ScheduleFacts.
Require Import Txtpp.proofs.RunEventsFacts Txtpp.proofs.ScheduleTempFacts Txtpp.proofs.IdemFacts.
From Coq Require Import Lia Permutation Relations.

Local Open Scope bool_scope.

(* ================================================================================================
   PART A — finite graphs
   ================================================================================================ *)
Section Graph.
Variable A : Type.
Hypothesis eq_dec : forall a b : A, {a = b} + {a <> b}.
Variable R : A -> A -> Prop.

(* x -> l1 -> l2 -> ... *)
Fixpoint chain (x : A) (l : list A) : Prop :=
  match l with [] => True | y :: r => R x y /\ chain y r end.

Lemma chain_split l1 : forall x a r, chain x (l1 ++ a :: r) -> clos_trans A R x a /\ chain a r.
Proof.
  induction l1 as [|y l1 IH]; intros x a r H; cbn [app chain] in H.
  - destruct H as [H1 H2]. split; [apply t_step; exact H1|exact H2].
  - destruct H as [H1 H2]. destruct (IH y a r H2) as [H3 H4]. split; [|exact H4].
    eapply t_trans; [apply t_step; exact H1|exact H3].
Qed.

Lemma dup_split (l : list A) : ~ NoDup l -> exists a l1 l2 l3, l = l1 ++ a :: l2 ++ a :: l3.
Proof.
  induction l as [|a l IH]; intros H.
  - exfalso. apply H. constructor.
  - destruct (in_dec eq_dec a l) as [Hin|Hn].
    + apply in_split in Hin. destruct Hin as (l2 & l3 & ->). exists a, [], l2, l3. reflexivity.
    + destruct IH as (b & l1 & l2 & l3 & ->).
      * intros ND. apply H. constructor; assumption.
      * exists b, (a :: l1), l2, l3. reflexivity.
Qed.

Lemma long_chain (P : A -> Prop) :
  (forall x, P x -> exists y, R x y /\ P y) ->
  forall n x, P x -> exists l, length l = n /\ chain x l /\ Forall P l.
Proof.
  intros Hs. induction n as [|n IH]; intros x Hx.
  - exists []. split; [reflexivity|]. split; [exact I|constructor].
  - destruct (Hs x Hx) as (y & Hxy & Hy). destruct (IH y Hy) as (l & Hl & Hc & Hp).
    exists (y :: l). split; [cbn; rewrite Hl; reflexivity|]. split; [split; assumption|constructor; assumption].
Qed.

(* the pigeonhole argument *)
Lemma finite_successors_cycle (U : list A) (P : A -> Prop) :
  (forall x, P x -> In x U) ->
  (forall x, P x -> exists y, R x y /\ P y) ->
  forall x, P x -> exists y, clos_trans A R x y /\ clos_trans A R y y.
Proof.
  intros HU Hs x Hx.
  destruct (long_chain P Hs (S (length U)) x Hx) as (l & Hl & Hc & Hp).
  assert (HN : ~ NoDup l).
  { intros ND. assert (Hi : incl l U).
    { intros y Hy. apply HU. rewrite Forall_forall in Hp. apply Hp. exact Hy. }
    pose proof (NoDup_incl_length ND Hi) as Hle. lia. }
  destruct (dup_split l HN) as (a & l1 & l2 & l3 & ->).
  destruct (chain_split l1 x a (l2 ++ a :: l3) Hc) as [H1 H2].
  destruct (chain_split l2 a a l3 H2) as [H3 _].
  exists a. split; assumption.
Qed.

Lemma clos_t_rt x y : clos_trans A R x y -> clos_refl_trans A R x y.
Proof.
  induction 1 as [x y H|x y z _ IH1 _ IH2]; [apply rt_step; exact H|eapply rt_trans; eassumption].
Qed.

Lemma clos_trans_first x z : clos_trans A R x z -> exists y, R x y /\ clos_refl_trans A R y z.
Proof.
  induction 1 as [x y H|x y z _ IH1 H2 _].
  - exists y. split; [exact H|apply rt_refl].
  - destruct IH1 as (u & Hxu & Huy). exists u. split; [exact Hxu|].
    eapply rt_trans; [exact Huy|apply clos_t_rt; exact H2].
Qed.

(* a set closed under successors is closed under chains *)
Lemma closed_rt (F : A -> Prop) : (forall x y, F x -> R x y -> F y) ->
  forall x y, clos_refl_trans A R x y -> F x -> F y.
Proof.
  intros HF x y H. induction H as [x y H|x|x y z _ IH1 _ IH2]; intros Hx.
  - apply (HF x y Hx H).
  - exact Hx.
  - apply IH2. apply IH1. exact Hx.
Qed.

Lemma acc_no_cycle x : Acc (fun d a => R a d) x -> ~ clos_trans A R x x.
Proof.
  induction 1 as [x _ IH]. intros C.
  destruct (clos_trans_first x x C) as (y & Hxy & Hyx).
  apply (IH y Hxy). eapply clos_rt_t; [exact Hyx|apply t_step; exact Hxy].
Qed.

Lemma acc_not_reaches_cycle x :
  Acc (fun d a => R a d) x -> ~ exists g, clos_refl_trans A R x g /\ clos_trans A R g g.
Proof.
  intros Hacc (g & Hxg & Hgg).
  assert (Hg : Acc (fun d a => R a d) g).
  { apply (closed_rt (fun y => Acc (fun d a => R a d) y)) with (x := x); [|exact Hxg|exact Hacc].
    intros a b Ha Hab. apply (Acc_inv Ha). exact Hab. }
  exact (acc_no_cycle g Hg Hgg).
Qed.
End Graph.

(* ================================================================================================
   PART B — an invariant over (ghost state, world, trace) carried to every exit of the loop
   ================================================================================================ *)
Section RunInvExit.
Variable orc : oracle.
Variable cfg : config.
Variable base : path.
Variables files dirs : list path.
Variable J : gstate -> world -> list (task * result) -> Prop.
Hypothesis J_step : forall g w tr t rest r w' s2,
  greach files dirs g -> J g w tr -> Permutation (inflight (gs g)) (t :: rest) ->
  exec_task orc cfg base t w = Some (r, w') -> handle (with_inflight (gs g) rest) r = Continue s2 ->
  J (mkG s2 (report t r (reported g)) (history g ++ [t])) w' (tr ++ [(t, r)]).

Lemma run_loop_exit_inv fuel : forall sched g w tr,
  greach files dirs g -> J g w tr ->
  let x := run_loop orc cfg base fuel sched (gs g) w tr in
  (exists g', greach files dirs g' /\ gs g' = state_of x /\ J g' (world_of x) (trace_of x) /\
     ((inflight (gs g') = [] /\ verdict_of x = (if has_remaining (dm (gs g')) then VErr else VOk)) \/
      (inflight (gs g') <> [] /\ verdict_of x = VFuel))) \/
  (verdict_of x = VErr /\ exists t r, In (t, r) (trace_of x) /\ is_err r).
Proof.
  induction fuel as [|fuel IH]; intros sched g w tr R HJ x; subst x.
  - destruct (sort_tasks (inflight (gs g))) as [|t0 sl'] eqn:E.
    + rewrite (run_loop_exit _ _ _ _ _ _ _ _ E). left. exists g. cbn.
      split; [exact R|]. split; [reflexivity|]. split; [exact HJ|]. left.
      split; [apply sort_tasks_nil; exact E|reflexivity].
    + rewrite (run_loop_nofuel _ _ _ _ _ _ _ _ _ E). left. exists g. cbn.
      split; [exact R|]. split; [reflexivity|]. split; [exact HJ|]. right.
      split; [|reflexivity]. intros Hn. rewrite Hn in E. discriminate E.
  - destruct (sort_tasks (inflight (gs g))) as [|t0 sl'] eqn:E.
    + rewrite (run_loop_exit _ _ _ _ _ _ _ _ E). left. exists g. cbn.
      split; [exact R|]. split; [reflexivity|]. split; [exact HJ|]. left.
      split; [apply sort_tasks_nil; exact E|reflexivity].
    + rewrite (run_loop_step _ _ _ _ _ _ _ _ _ _ E). cbv zeta.
      set (sl := t0 :: sl'). set (k := pick sched sl). set (t := nth k sl t0). set (rest := remove_nth k sl).
      assert (HP : Permutation (inflight (gs g)) (t :: rest)).
      { eapply perm_trans; [apply sort_tasks_perm|]. rewrite E. apply pick_split. apply pick_lt. }
      destruct (exec_task_total orc cfg base t w) as (r & w' & Hex). rewrite Hex.
      pose proof (exec_task_answers orc cfg base _ _ _ _ Hex) as Hans.
      destruct (handle (with_inflight (gs g) rest) r) as [s2| |] eqn:Hh.
      * set (g2 := mkG s2 (report t r (reported g)) (history g ++ [t])).
        assert (R2 : greach files dirs g2).
        { eapply greach_step; [exact R|]. apply (gstep_continue g t rest r s2); assumption. }
        assert (HJ2 : J g2 w' (tr ++ [(t, r)])) by (apply (J_step g w tr t rest r w' s2); assumption).
        apply (IH (tl sched) g2 w' (tr ++ [(t, r)]) R2 HJ2).
      * destruct (drain_total orc cfg base (length (inflight (with_inflight (gs g) rest))) (tl sched)
                    (inflight (with_inflight (gs g) rest)) w' (tr ++ [(t, r)])) as (w2 & tr2 & Hd).
        rewrite Hd. right. cbn. split; [reflexivity|]. exists t, r. split; [|apply (handle_fail_is_err _ _ Hh)].
        apply in_or_app. left. apply in_or_app. right. left. reflexivity.
      * exfalso. exact (handle_no_panic files dirs g R t rest r HP Hans Hh).
Qed.
End RunInvExit.

(* ================================================================================================
   PART C — the static graph, the static hypothesis, the invariant of a run (any mode but Clean)
   ================================================================================================ *)
(* the static dependency graph, read off the world w *)
Definition dep_edge (w : world) (f g : path) : Prop := In g (sdeps w f).
Definition reaches_cycle (w : world) (f : path) : Prop :=
  exists g, clos_refl_trans path (dep_edge w) f g /\ clos_trans path (dep_edge w) g g.

(* The static hypothesis: every readable source of the tree writes no `.txtpp` name (output, temp targets) and probes
   only `.txtpp` names as candidates of its include/after arguments.  (The first two per-source clauses of
   `sched_ok_temps` that speak about names; nothing is asked about disjointness of footprints, order of temp
   directives, canonical paths.) *)
Definition cycle_static (w : world) : Prop :=
  forall f out, is_source w f out ->
    (forall p, In p (fp w f) -> is_txtpp_file p = false) /\
    (forall c, In c (cand_probes f (items_of Build w f)) -> is_txtpp_file c = true).

Lemma sched_ok_temps_cycle_static w : sched_ok_temps w -> cycle_static w.
Proof. intros H f out Hs. destruct (H f out Hs) as (_ & _ & H1 & H2 & _). split; assumption. Qed.

Lemma sched_ok_cycle_static w : sched_ok w -> cycle_static w.
Proof.
  intros H f out Hs. destruct (H f out Hs) as (_ & Hn & Ht & Htmp & Hc & _). split; [|exact Hc].
  intros p Hp. pose proof Hs as [Ho _]. unfold fp, writes_of, allowed_paths in Hp. rewrite Ho, Htmp, Hn in Hp.
  cbn in Hp. destruct Hp as [<-|[<-|[]]]; exact Ht.
Qed.

Lemma items_of_mode md w f : md <> Clean -> items_of md w f = items_of Build w f.
Proof. intros H. unfold items_of. destruct md; try reflexivity. congruence. Qed.
Lemma writes_of_mode md w f : md <> Clean -> writes_of md w f = writes_of Build w f.
Proof. intros H. unfold writes_of. rewrite (items_of_mode md w f H). reflexivity. Qed.

Lemma handle_ok_finished s h s2 : handle s (RPp h (Some POk)) = Continue s2 -> In h (fin (dm s2)).
Proof.
  unfold handle. destruct (notify_finish (dm (add_done s)) h) as [[m rel]|] eqn:E; [|discriminate].
  intros H. inversion H; subst s2. rewrite dm_fold_file. cbn [set_dm dm].
  unfold notify_finish in E.
  assert (G : In h (if pmem h (fin (dm (add_done s))) then fin (dm (add_done s)) else h :: fin (dm (add_done s)))).
  { destruct (pmem h (fin (dm (add_done s)))) eqn:P; [apply pmem_In; exact P|left; reflexivity]. }
  destruct (aget (inn (dm (add_done s))) h) as [l|].
  - destruct (release (cnt (dm (add_done s))) l []) as [[c' out]|]; [|discriminate].
    inversion E; subst m. exact G.
  - inversion E; subst m. exact G.
Qed.

Section CycleLoop.
Variable orc : oracle.
Variable cfg : config.
Variable base : path.
Hypothesis Hmd : cfg_mode cfg <> Clean.
Variable w0 : world.          (* the initial world *)
Hypothesis HS : cycle_static w0.
Variables files dirs : list path.

Local Notation md := (cfg_mode cfg).
Local Notation tn := (cfg_trailing cfg).
Local Notation is_src := (is_source w0).

(* a source in a world that has the `.txtpp` files and the directories of w0 *)
Lemma src_sameX w f out : agree nt (w_fs w0) (w_fs w) -> is_src f out ->
  items_of Build w f = items_of Build w0 f /\
  writes_of md w f = fp w0 f /\
  cands_apart md w f /\
  sdeps w f = sdeps w0 f.
Proof.
  intros A Hsrc. pose proof Hsrc as [Ho [raw Er]].
  assert (Ht : is_txtpp_file f = true) by (eapply remove_txtpp_is_txtpp; eauto).
  assert (E0 : fs_get (w_fs w) f = fs_get (w_fs w0) f) by (symmetry; apply (proj1 A); apply nt_false; exact Ht).
  destruct (HS f out Hsrc) as (Hto & Hc).
  pose proof (items_of_same Build w0 w f E0) as Ei.
  assert (Ew : writes_of md w f = fp w0 f).
  { rewrite (writes_of_mode md w f Hmd). apply (writes_of_same Build w0 w f E0). }
  split; [exact Ei|]. split; [exact Ew|]. split.
  - intros c Hin Hwr. rewrite (items_of_mode md w f Hmd), Ei in Hin. rewrite Ew in Hwr. specialize (Hc c Hin).
    rewrite (Hto c Hwr) in Hc. discriminate.
  - unfold sdeps. rewrite Ei. symmetry. apply (dep_targets_agree nt); [exact A|].
    intros c Hin. apply nt_false. apply Hc. exact Hin.
Qed.

(* a pass leaves the `.txtpp` files and the directories alone *)
Lemma pass_agreeX w h b : agree nt (w_fs w0) (w_fs w) ->
  agree nt (w_fs w) (w_fs (out_world (pp_run orc md base h b tn w) w)).
Proof.
  intros A. split.
  - intros p Hp. symmetry.
    destruct (read_file (w_fs w) h) as [raw|] eqn:Er.
    2:{ rewrite (pp_run_unreadable _ _ _ _ _ _ w Er). reflexivity. }
    destruct (remove_txtpp h) as [outh|] eqn:Ho.
    2:{ rewrite (pp_run_no_out _ _ _ _ _ _ w Ho). reflexivity. }
    pose proof (source_in_world w0 w h outh raw A Ho Er) as Hsrc.
    destruct (src_sameX w h outh A Hsrc) as (_ & Ew & _).
    apply pass_footprint. rewrite Ew. intros Hin.
    destruct (HS h outh Hsrc) as (Hto & _). apply nt_false in Hp. rewrite (Hto p Hin) in Hp. discriminate.
  - intros p. symmetry. apply (pp_run_same_dirs orc md base h b tn w p).
Qed.

Lemma world_stepX w t r w' : agree nt (w_fs w0) (w_fs w) -> Scan w0 w ->
  exec_task orc cfg base t w = Some (r, w') -> agree nt (w_fs w0) (w_fs w') /\ Scan w0 w'.
Proof.
  intros A [N S] Hex. destruct t as [d|h b].
  - cbn in Hex. inversion Hex; subst. split; [exact A|split; assumption].
  - rewrite exec_task_pp in Hex. cbv zeta in Hex.
    destruct (res_of_tag h _) as [r'|]; [|discriminate]. inversion Hex; subst r' w'. clear Hex.
    split; [apply (agree_trans nt _ (w_fs w)); [exact A|apply pass_agreeX; exact A]|].
    destruct (read_file (w_fs w) h) as [raw|] eqn:Er.
    2:{ rewrite (pp_run_unreadable _ _ _ _ _ _ w Er). split; assumption. }
    destruct (remove_txtpp h) as [outh|] eqn:Ho.
    2:{ rewrite (pp_run_no_out _ _ _ _ _ _ w Ho). split; assumption. }
    pose proof (source_in_world w0 w h outh raw A Ho Er) as Hsrc.
    destruct (src_sameX w h outh A Hsrc) as (_ & Ew & _).
    destruct (HS h outh Hsrc) as (Hto & _).
    destruct (pp_run_scan orc md base h b tn w N) as [N' S'].
    { rewrite Ew. exact Hto. }
    split; [exact N'|]. rewrite S'. exact S.
Qed.

(* what a pass that reports dependencies / success tells about the static graph *)
Lemma pass_deps_static w h b ds w'' : agree nt (w_fs w0) (w_fs w) ->
  pp_run orc md base h b tn w = PpHasDeps ds w'' ->
  b = true /\ ds = sdeps w0 h /\ ds <> [] /\ exists out, is_src h out.
Proof.
  intros A E.
  assert (Hb : b = true).
  { destruct b; [reflexivity|]. exfalso. revert E. apply pp_run_final_no_deps. }
  subst b. split; [reflexivity|].
  destruct (pp_run_deps_readable _ _ _ _ _ _ _ _ _ E) as (raw & out & Erd & Ho).
  pose proof (source_in_world w0 w h out raw A Ho Erd) as Hsrc.
  destruct (src_sameX w h out A Hsrc) as (_ & _ & Hca & Esd).
  destruct (first_pass_reports_exactly orc md base h tn w ds w'' Hmd Hca E) as (_ & H2 & H3).
  split; [|split; [exact H3|exists out; exact Hsrc]].
  rewrite H2, (items_of_mode md w h Hmd). exact Esd.
Qed.

Lemma pass_ok_static w h b w'' : agree nt (w_fs w0) (w_fs w) ->
  pp_run orc md base h b tn w = PpOk w'' ->
  (exists out, is_src h out) /\ (b = true -> sdeps w0 h = []).
Proof.
  intros A E.
  destruct (read_file (w_fs w) h) as [raw|] eqn:Erd.
  2:{ rewrite (pp_run_unreadable _ _ _ _ _ _ w Erd) in E. discriminate. }
  destruct (remove_txtpp h) as [out|] eqn:Ho.
  2:{ rewrite (pp_run_no_out _ _ _ _ _ _ w Ho) in E. discriminate. }
  pose proof (source_in_world w0 w h out raw A Ho Erd) as Hsrc.
  split; [exists out; exact Hsrc|]. intros ->.
  destruct (src_sameX w h out A Hsrc) as (_ & _ & Hca & Esd).
  rewrite <- Esd. unfold sdeps. rewrite <- (items_of_mode md w h Hmd).
  apply (first_pass_ok_no_targets orc md base h tn w w'' Hmd Hca E).
Qed.

(* ---- the invariant ---- *)
Definition JX (g : gstate) (w : world) (tr : list (task * result)) : Prop :=
  agree nt (w_fs w0) (w_fs w) /\ Scan w0 w /\
  (forall a ds, In (a, ds) (reported g) -> ds = sdeps w0 a /\ ds <> []) /\
  (forall f, finished g f -> sdeps w0 f <> [] -> exists ds, In (f, ds) (reported g)) /\
  (forall f, finished g f -> exists out, is_src f out) /\
  (forall f, finished g f -> ~ clos_trans path (dep_edge w0) f f) /\
  (forall f, finished g f -> In (TPp f (lastflag w0 f), RPp f (Some POk)) tr) /\
  (forall f b f', In (TPp f b, RPp f' (Some POk)) tr -> finished g f) /\
  (forall a ds, In (a, ds) (reported g) -> In (TPp a true, RPp a (Some (PDeps ds))) tr) /\
  history g = map fst tr /\
  C1 cfg w0 g /\
  (forall S Dd, closed cfg w0 files dirs S Dd -> incl (seen (gs g)) S /\ incl (seen_dirs (gs g)) Dd).

(* when a file is finished, so are its dependencies *)
Lemma fin_depsX g : greach files dirs g ->
  (forall a ds, In (a, ds) (reported g) -> ds = sdeps w0 a /\ ds <> []) ->
  (forall f, finished g f -> sdeps w0 f <> [] -> exists ds, In (f, ds) (reported g)) ->
  forall f q, finished g f -> dep_edge w0 f q -> finished g q.
Proof.
  intros R G1 G2 f q Hf Hq. unfold dep_edge in Hq.
  assert (Hne : sdeps w0 f <> []) by (intros E; rewrite E in Hq; destruct Hq).
  destruct (G2 f Hf Hne) as [ds Hd]. destruct (G1 f ds Hd) as [-> _].
  destruct (inv_reach _ _ _ R) as [HP _]. unfold finished in *. apply pmem_In in Hf. apply pmem_In.
  destruct (i_dep_status HP f q) as [H|H]; [exists (sdeps w0 f); split; assumption|exact H|].
  exfalso. apply (i_w_nfin HP f q H Hf).
Qed.

(* closedness under scans: every seen directory is being scanned or has had its entries added *)
Lemma C1_stepX g w t rest r w' s2 :
  greach files dirs g -> agree nt (w_fs w0) (w_fs w) -> Scan w0 w -> C1 cfg w0 g ->
  Permutation (inflight (gs g)) (t :: rest) ->
  exec_task orc cfg base t w = Some (r, w') -> handle (with_inflight (gs g) rest) r = Continue s2 ->
  C1 cfg w0 (mkG s2 (report t r (reported g)) (history g ++ [t])).
Proof.
  intros R A HSc HC HP Hex Hh.
  set (g2 := mkG s2 (report t r (reported g)) (history g ++ [t])).
  assert (Hstep : gstep g g2).
  { apply (gstep_continue g t rest r s2); try assumption. eapply exec_task_answers; eauto. }
  assert (Hrest : forall x, In x rest -> In x (inflight s2)).
  { intros x Hx. apply (handle_inflight_mono _ _ _ x Hh). exact Hx. }
  assert (Hsd : forall x, In x (seen_dirs (gs g)) -> In x (seen_dirs s2)).
  { intros x Hx. apply (handle_seen_dirs_mono _ _ _ x Hh). exact Hx. }
  intros d Hd. cbn [g2 gs] in *.
  destruct (pmem d (seen_dirs (gs g))) eqn:Eold.
  - apply pmem_In in Eold. destruct (HC d Eold) as [Hfl|Hcl].
    + assert (Hin : In (TScan d) (t :: rest)) by (eapply Permutation_in; [exact HP|exact Hfl]).
      destruct Hin as [Ht|Hin]; [|left; apply Hrest; exact Hin].
      subst t. right. intros fs ds Es. cbn [exec_task] in Hex. inversion Hex; subst r w'. clear Hex.
      rewrite (Scan_scan cfg w0 w d A HSc), Es in Hh. cbn [handle] in Hh. inversion Hh; subst s2. split.
      * intros x Hx. apply seen_fold_dir. apply fold_first_all_seen. exact Hx.
      * intros x Hx. apply fold_dir_all_seen. exact Hx.
    + right. intros fs ds Es. destruct (Hcl fs ds Es) as [H1 H2]. split.
      * intros x Hx. apply (gstep_seen g g2 x Hstep). apply H1. exact Hx.
      * intros x Hx. apply Hsd. apply H2. exact Hx.
  - apply pmem_nIn in Eold. left.
    destruct (handle_cases _ _ _ Hh) as
      [[fs [ds [-> ->]]]|[[f' [m [rel [-> [Hnf ->]]]]]|[[f' [ds [m [-> [Had ->]]]]]|[f' [ds [m [-> [Had ->]]]]]]]].
    + apply seen_dirs_fold_dir_inv in Hd. rewrite seen_dirs_fold_file in Hd.
      destruct Hd as [Hd|Hd]; [contradiction|].
      apply fold_dir_new; [exact Hd|]. rewrite seen_dirs_fold_file. exact Eold.
    + rewrite seen_dirs_fold_file in Hd. contradiction.
    + rewrite seen_dirs_fold_file in Hd. contradiction.
    + rewrite seen_dirs_exec_file in Hd. contradiction.
Qed.

(* leastness: the seen files / directories stay inside every closed pair *)
Lemma least_stepX S Dd g w t rest r w' s2 :
  closed cfg w0 files dirs S Dd ->
  greach files dirs g -> agree nt (w_fs w0) (w_fs w) -> Scan w0 w ->
  incl (seen (gs g)) S -> incl (seen_dirs (gs g)) Dd ->
  Permutation (inflight (gs g)) (t :: rest) ->
  exec_task orc cfg base t w = Some (r, w') -> handle (with_inflight (gs g) rest) r = Continue s2 ->
  incl (seen s2) S /\ incl (seen_dirs s2) Dd.
Proof.
  intros Hcl R A HSc H1 H2 HP Hex Hh.
  destruct Hcl as (_ & _ & Hscan & Hdeps).
  assert (Ht : In t (inflight (gs g))).
  { eapply Permutation_in; [apply Permutation_sym; exact HP|]. left. reflexivity. }
  destruct (handle_seen _ _ _ Hh) as [Hs1 Hs2]. cbn [with_inflight seen seen_dirs] in Hs1, Hs2.
  assert (Hres : incl (res_files r) S /\ incl (res_dirs r) Dd).
  { destruct t as [d|h b].
    - cbn [exec_task] in Hex. inversion Hex; subst r w'. clear Hex.
      rewrite (Scan_scan cfg w0 w d A HSc).
      destruct (scan_dir (w_fs w0) d (cfg_recursive cfg)) as [[fs ds]|] eqn:Es; cbn [res_files res_dirs].
      + apply (Hscan d fs ds); [|exact Es]. apply H2.
        destruct (inv_reach _ _ _ R) as [HPi _]. apply (i_fl_seen HPi (TScan d) Ht).
      + split; intros x [].
    - cbn [exec_task] in Hex.
      destruct (pp_run orc md base h b tn w) as [a|ds a|k a|] eqn:E; try discriminate;
        inversion Hex; subst r w'; cbn [res_files res_dirs]; try (split; intros x []).
      split; [|intros x []].
      destruct (pass_deps_static w h b ds a A E) as (_ & -> & _ & _).
      apply Hdeps. apply H1. apply (inflight_seen files dirs g (TPp h b) R Ht). }
  destruct Hres as [Hr1 Hr2]. split.
  - intros x Hx. destruct (Hs1 x Hx) as [H|H]; [apply H1; exact H|apply Hr1; exact H].
  - intros x Hx. destruct (Hs2 x Hx) as [H|H]; [apply H2; exact H|apply Hr2; exact H].
Qed.

Lemma JX_step g w tr t rest r w' s2 :
  greach files dirs g -> JX g w tr -> Permutation (inflight (gs g)) (t :: rest) ->
  exec_task orc cfg base t w = Some (r, w') -> handle (with_inflight (gs g) rest) r = Continue s2 ->
  JX (mkG s2 (report t r (reported g)) (history g ++ [t])) w' (tr ++ [(t, r)]).
Proof.
  intros R (A & HSc & G1 & G2 & G3 & GA & GT & GF & GR & GH & HC & HL) HP Hex Hh.
  set (g2 := mkG s2 (report t r (reported g)) (history g ++ [t])).
  assert (Hans := exec_task_answers orc cfg base _ _ _ _ Hex).
  assert (Hstep : gstep g g2) by (apply (gstep_continue g t rest r s2); assumption).
  assert (Ht : In t (inflight (gs g))).
  { eapply Permutation_in; [apply Permutation_sym; exact HP|]. left. reflexivity. }
  assert (Hfin2 : forall f, finished g2 f -> finished g f \/ r = RPp f (Some POk)).
  { intros f Hf. unfold finished in *. cbn [g2 gs] in Hf. apply pmem_In in Hf.
    destruct (inv_reach _ _ _ R) as [HPi _].
    destruct (handle_fin (with_inflight (gs g) rest) r s2 f (i_dm HPi) Hh Hf) as [H|H]; [left; apply pmem_In; exact H|right; exact H]. }
  assert (Hmono : forall f, finished g f -> finished g2 f).
  { intros f Hf. apply (finished_monotone files dirs g R g2 f Hstep Hf). }
  destruct (world_stepX w t r w' A HSc Hex) as [A' HSc'].
  assert (GH' : history g2 = map fst (tr ++ [(t, r)])).
  { cbn [g2 history]. rewrite map_app, GH. reflexivity. }
  assert (HC' : C1 cfg w0 g2) by (apply (C1_stepX g w t rest r w' s2); assumption).
  assert (HL' : forall S Dd, closed cfg w0 files dirs S Dd -> incl (seen (gs g2)) S /\ incl (seen_dirs (gs g2)) Dd).
  { intros S Dd Hcl. destruct (HL S Dd Hcl) as [H1 H2]. cbn [g2 gs].
    apply (least_stepX S Dd g w t rest r w' s2); assumption. }
  (* the generic part: when r is not a success report, nothing new is finished *)
  assert (Gen : (forall f, r <> RPp f (Some POk)) ->
                (forall a ds, In (a, ds) (reported g2) -> ds = sdeps w0 a /\ ds <> []) ->
                (forall a ds, In (a, ds) (reported g2) -> In (TPp a true, RPp a (Some (PDeps ds))) (tr ++ [(t, r)])) ->
                (forall a ds, In (a, ds) (reported g) -> In (a, ds) (reported g2)) ->
                JX g2 w' (tr ++ [(t, r)])).
  { intros Hnok G1' GR' Hrm.
    assert (Hold : forall f, finished g2 f -> finished g f).
    { intros f Hf. destruct (Hfin2 f Hf) as [H|H]; [exact H|]. exfalso. apply (Hnok f H). }
    split; [exact A'|]. split; [exact HSc'|]. split; [exact G1'|]. split; [|split; [|split; [|split; [|split; [|split]]]]].
    - intros f Hf Hne. destruct (G2 f (Hold f Hf) Hne) as [ds Hd]. exists ds. apply Hrm. exact Hd.
    - intros f Hf. apply (G3 f (Hold f Hf)).
    - intros f Hf. apply (GA f (Hold f Hf)).
    - intros f Hf. apply in_or_app. left. apply (GT f (Hold f Hf)).
    - intros f b f' Hin. apply in_app_or in Hin. destruct Hin as [Hin|[Hin|[]]].
      + apply Hmono. apply (GF f b f' Hin).
      + inversion Hin; subst t r. exfalso. apply (Hnok f'). reflexivity.
    - exact GR'.
    - split; [exact GH'|]. split; [exact HC'|exact HL']. }
  destruct t as [d|h b].
  - (* a scan *)
    cbn [exec_task] in Hex. inversion Hex; subst r w'. clear Hex.
    apply Gen.
    + intros f. discriminate.
    + exact G1.
    + intros a ds Hin. apply in_or_app. left. apply (GR a ds Hin).
    + intros a ds Hin. exact Hin.
  - (* a pass of h *)
    assert (Hex0 := Hex). cbn [exec_task] in Hex.
    destruct (pp_run orc md base h b tn w) as [a|ds a|k a|] eqn:E; try discriminate; inversion Hex; subst r w'; clear Hex.
    + (* success: h is finished *)
      assert (Hrep : reported g2 = reported g) by (cbn [g2 reported]; destruct b; reflexivity).
      destruct (pass_ok_static w h b a A E) as [[out Hsrc] Hb1].
      assert (Hlast : b = lastflag w0 h).
      { destruct b.
        - symmetry. apply lastflag_true. apply Hb1. reflexivity.
        - destruct (final_inflight_reported files dirs g h R Ht) as [ds Hd].
          destruct (G1 h ds Hd) as [Hds Hne]. unfold lastflag. rewrite <- Hds.
          destruct ds; [congruence|reflexivity]. }
      assert (Hnew : forall f, finished g2 f -> finished g f \/ f = h).
      { intros f Hf. destruct (Hfin2 f Hf) as [H|H]; [left; exact H|right]. inversion H. reflexivity. }
      (* the dependencies of h were finished before h *)
      assert (Hdeps : forall d, dep_edge w0 h d -> finished g d).
      { intros d Hd. unfold dep_edge in Hd.
        assert (Hne : sdeps w0 h <> []) by (intros E0; rewrite E0 in Hd; destruct Hd).
        assert (Hbf : b = false).
        { rewrite Hlast. unfold lastflag. destruct (sdeps w0 h); [congruence|reflexivity]. }
        assert (Ht' : In (TPp h false) (inflight (gs g))) by (rewrite <- Hbf; exact Ht).
        destruct (final_inflight_reported files dirs g h R Ht') as [ds Hds].
        destruct (G1 h ds Hds) as [-> _].
        apply (final_pass_deps_finished files dirs g R h d Ht'). exists (sdeps w0 h). split; assumption. }
      split; [exact A'|]. split; [exact HSc'|]. rewrite Hrep.
      split; [exact G1|]. split; [|split; [|split; [|split; [|split; [|split]]]]].
      * intros f Hf Hne. destruct (Hnew f Hf) as [Hold| ->]; [apply (G2 f Hold Hne)|].
        destruct b.
        -- exfalso. apply Hne. apply Hb1. reflexivity.
        -- apply (final_inflight_reported files dirs g h R Ht).
      * intros f Hf. destruct (Hnew f Hf) as [Hold| ->]; [apply (G3 f Hold)|exists out; exact Hsrc].
      * intros f Hf. destruct (Hnew f Hf) as [Hold| ->]; [apply (GA f Hold)|].
        intros C. destruct (clos_trans_first path (dep_edge w0) h h C) as (d & Hhd & Hdh).
        assert (Hfh : finished g h).
        { apply (closed_rt path (dep_edge w0) (finished g)) with (x := d); [|exact Hdh|apply Hdeps; exact Hhd].
          intros x y Hx Hxy. apply (fin_depsX g R G1 G2 x y Hx Hxy). }
        apply (finished_not_inflight files dirs g R h b Hfh Ht).
      * intros f Hf. apply in_or_app. destruct (Hnew f Hf) as [Hold| ->]; [left; apply (GT f Hold)|].
        right. left. rewrite <- Hlast. reflexivity.
      * intros f b' f' Hin. apply in_app_or in Hin. destruct Hin as [Hin|[Hin|[]]].
        -- apply Hmono. apply (GF f b' f' Hin).
        -- inversion Hin; subst f b' f'. unfold finished. cbn [g2 gs]. apply pmem_In.
           apply (handle_ok_finished _ _ _ Hh).
      * intros a0 ds Hin. apply in_or_app. left. apply (GR a0 ds Hin).
      * split; [exact GH'|]. split; [exact HC'|exact HL'].
    + (* dependencies reported *)
      destruct (pass_deps_static w h b ds a A E) as (-> & Hds & Hne & _).
      apply Gen.
      * intros f. discriminate.
      * cbn [g2 reported report]. intros a0 ds0 [Hin|Hin]; [|apply (G1 a0 ds0 Hin)].
        inversion Hin; subst a0 ds0. split; assumption.
      * cbn [g2 reported report]. intros a0 ds0 [Hin|Hin].
        -- inversion Hin; subst a0 ds0. apply in_or_app. right. left. reflexivity.
        -- apply in_or_app. left. apply (GR a0 ds0 Hin).
      * cbn [g2 reported report]. intros a0 ds0 Hin. right. exact Hin.
    + (* an error: the coordinator does not continue *)
      cbn in Hh. discriminate.
Qed.

Lemma JX_init : raw_ok w0 -> JX (ginit files dirs) w0 [].
Proof.
  intros N.
  assert (Hnf : forall f, ~ finished (ginit files dirs) f).
  { intros f Hf. unfold finished, ginit in Hf. cbn [gs] in Hf. rewrite dm_fold_dir, dm_fold_file in Hf. discriminate. }
  split; [apply agree_refl|]. split; [split; [exact N|reflexivity]|].
  split; [intros a ds []|]. split; [intros f Hf; destruct (Hnf f Hf)|]. split; [intros f Hf; destruct (Hnf f Hf)|].
  split; [intros f Hf; destruct (Hnf f Hf)|]. split; [intros f Hf; destruct (Hnf f Hf)|].
  split; [intros f b f' []|]. split; [intros a ds []|]. split; [reflexivity|]. split.
  - intros d Hd. left. unfold ginit in *. cbn [gs] in *.
    apply seen_dirs_fold_dir_inv in Hd. rewrite seen_dirs_fold_file in Hd. destruct Hd as [[]|Hd].
    apply fold_dir_new; [exact Hd|]. rewrite seen_dirs_fold_file. intros [].
  - intros S Dd (Hf & Hd & _). unfold ginit. cbn [gs]. split.
    + intros f Hin. rewrite seen_fold_dir_eq in Hin. apply seen_fold_file_inv in Hin.
      destruct Hin as [[]|[_ Hin]]. apply Hf. exact Hin.
    + intros d Hin. apply seen_dirs_fold_dir_inv in Hin. rewrite seen_dirs_fold_file in Hin.
      destruct Hin as [[]|Hin]. apply Hd. exact Hin.
Qed.

(* ================================================================================================
   PART D — the analysis of a normal exit of the loop (nothing in flight)
   ================================================================================================ *)
(* the seen files / directories are closed under scans and static dependencies ... *)
Lemma exit_closed g w tr : greach files dirs g -> JX g w tr -> inflight (gs g) = [] ->
  closed cfg w0 files dirs (seen (gs g)) (seen_dirs (gs g)).
Proof.
  intros R (A & HSc & G1 & G2 & G3 & GA & GT & GF & GR & GH & HC & HL) Hnil.
  destruct (inv_reach _ _ _ R) as [HP HD].
  split; [|split; [|split]].
  - intros f Hf. apply (greach_inputs_seen files dirs g R f Hf).
  - intros d Hd. apply (greach_dirs_seen files dirs g R d Hd).
  - intros d fs ds Hd Hscan. destruct (HC d Hd) as [H|H]; [rewrite Hnil in H; destruct H|]. apply (H fs ds Hscan).
  - intros f Hf q Hq.
    (* f is finished or waiting: in both cases its first pass reported sdeps w0 f *)
    assert (Hrep : In (f, sdeps w0 f) (reported g)).
    { assert (Hne : sdeps w0 f <> []) by (intros E; rewrite E in Hq; destruct Hq).
      destruct (exit_classification files dirs g R f Hnil) as [Hfin|[d Hw]].
      - unfold is_seen. apply pmem_In. exact Hf.
      - destruct (G2 f Hfin Hne) as [ds Hd]. destruct (G1 f ds Hd) as [-> _]. exact Hd.
      - destruct (waits_for_is_dep files dirs g R f d Hw) as [[ds [Hd _]] _]. destruct (G1 f ds Hd) as [-> _]. exact Hd. }
    apply (HD f q). exists (sdeps w0 f). split; assumption.
Qed.

(* ... hence they are exactly the least closed pair *)
Lemma exit_seen_least g w tr : greach files dirs g -> JX g w tr -> inflight (gs g) = [] ->
  forall f, In f (seen (gs g)) <-> (forall S Dd, closed cfg w0 files dirs S Dd -> In f S).
Proof.
  intros R HJ Hnil f. split.
  - intros Hf S Dd Hcl. destruct HJ as (_ & _ & _ & _ & _ & _ & _ & _ & _ & _ & _ & HL).
    apply (proj1 (HL S Dd Hcl)). exact Hf.
  - intros H. apply (H _ _ (exit_closed g w tr R HJ Hnil)).
Qed.

(* a seen file is finished iff it does not reach a cycle of the static graph *)
Lemma exit_finished_iff g w tr : greach files dirs g -> JX g w tr -> inflight (gs g) = [] ->
  forall f, In f (seen (gs g)) -> (finished g f <-> ~ reaches_cycle w0 f).
Proof.
  intros R (A & HSc & G1 & G2 & G3 & GA & GT & GF & GR & GH & HC & HL) Hnil f Hf. split.
  - intros Hfin (g' & Hfg & Hgg).
    assert (Hg' : finished g g').
    { apply (closed_rt path (dep_edge w0) (finished g)) with (x := f); [|exact Hfg|exact Hfin].
      intros x y Hx Hxy. apply (fin_depsX g R G1 G2 x y Hx Hxy). }
    exact (GA g' Hg' Hgg).
  - intros Hn. unfold finished. destruct (pmem f (fin (dm (gs g)))) eqn:Ef; [reflexivity|]. exfalso. apply Hn.
    set (P := fun x => is_seen g x /\ ~ finished g x).
    destruct (finite_successors_cycle path path_eq_dec (dep_edge w0) (seen (gs g)) P) with (x := f) as (y & Hfy & Hyy).
    + intros x [Hx _]. apply pmem_In. exact Hx.
    + intros x [Hx Hnx].
      destruct (unfinished_has_unfinished_dep files dirs g R x Hnil Hx Hnx) as (d & [ds [Hd Hin]] & Hsd & Hnd).
      exists d. split; [|split; assumption]. unfold dep_edge. destruct (G1 x ds Hd) as [-> _]. exact Hin.
    + split; [unfold is_seen; apply pmem_In; exact Hf|]. unfold finished. rewrite Ef. discriminate.
    + exists y. split; [apply clos_t_rt; exact Hfy|exact Hyy].
Qed.

(* the circular-dependency test of the coordinator is exact for the static graph *)
Lemma exit_remaining_iff g w tr : greach files dirs g -> JX g w tr -> inflight (gs g) = [] ->
  (has_remaining (dm (gs g)) = true <-> exists f, In f (seen (gs g)) /\ reaches_cycle w0 f).
Proof.
  intros R HJ Hnil. rewrite (cycle_verdict_iff files dirs g R Hnil). split.
  - intros (f & Hs & Hnf). unfold is_seen in Hs. apply pmem_In in Hs. exists f. split; [exact Hs|].
    destruct (pmem f (fin (dm (gs g)))) eqn:Ef; [exfalso; apply Hnf; exact Ef|].
    (* not finished, so not (not reaches_cycle); reaches_cycle is obtained constructively as in exit_finished_iff *)
    pose proof HJ as (A & HSc & G1 & G2 & G3 & GA & GT & GF & GR & GH & HC & HL).
    set (P := fun x => is_seen g x /\ ~ finished g x).
    destruct (finite_successors_cycle path path_eq_dec (dep_edge w0) (seen (gs g)) P) with (x := f) as (y & Hfy & Hyy).
    + intros x [Hx _]. apply pmem_In. exact Hx.
    + intros x [Hx Hnx].
      destruct (unfinished_has_unfinished_dep files dirs g R x Hnil Hx Hnx) as (d & [ds [Hd Hin]] & Hsd & Hnd).
      exists d. split; [|split; assumption]. unfold dep_edge. destruct (G1 x ds Hd) as [-> _]. exact Hin.
    + split; [unfold is_seen; apply pmem_In; exact Hs|exact Hnf].
    + exists y. split; [apply clos_t_rt; exact Hfy|exact Hyy].
  - intros (f & Hs & Hc). exists f. split; [unfold is_seen; apply pmem_In; exact Hs|].
    intros Hfin. apply (proj1 (exit_finished_iff g w tr R HJ Hnil f Hs) Hfin). exact Hc.
Qed.

(* ---- the loop: what a run that ended and in which no task answered an error looks like ---- *)
Lemma cycle_loop fuel sched : raw_ok w0 ->
  let x := run_loop orc cfg base fuel sched (gs (ginit files dirs)) w0 [] in
  (forall t r, In (t, r) (trace_of x) -> ~ is_err r) -> verdict_of x <> VFuel ->
  exists g, greach files dirs g /\ gs g = state_of x /\ inflight (gs g) = [] /\
            verdict_of x = (if has_remaining (dm (gs g)) then VErr else VOk) /\
            JX g (world_of x) (trace_of x).
Proof.
  intros N x Hne Hnf.
  pose proof (run_loop_exit_inv orc cfg base files dirs JX JX_step fuel sched (ginit files dirs) w0 []
                (greach_init files dirs) (JX_init N)) as H.
  cbv zeta in H. fold x in H.
  destruct H as [(g & R & Es & HJ & [[Hnil Hv]|[_ Hv]])|(_ & t & r & Hin & He)].
  - exists g. repeat (split; [assumption|]). exact HJ.
  - congruence.
  - exfalso. apply (Hne t r Hin He).
Qed.
End CycleLoop.

(* ================================================================================================
   PART E — the theorems on whole runs
   ================================================================================================ *)
Definition run_result := (verdict * world * list (task * result) * cstate)%type.

(* no completed task of the run answered an error *)
Definition no_task_error (x : run_result) : Prop := forall t r, In (t, r) (trace_of x) -> ~ is_err r.

(* the circular-dependency error: the run failed although no task failed, and the dependency manager still holds
   waiting files (mod.rs: `take_remaining()` is not empty after the loop) *)
Definition circular_error (x : run_result) : Prop :=
  verdict_of x = VErr /\ has_remaining (dm (state_of x)) = true /\ no_task_error x.

(* the configuration is usable: at least one thread, the base directory and the inputs resolve (STATIC: a property of
   the configuration and of the initial tree) *)
Definition started (cfg : config) (w : world) : Prop :=
  cfg_threads cfg <> 0 /\
  exists base files dirs,
    os_resolve (w_fs w) (cfg_base cfg) = Some base /\
    resolve_inputs (w_fs w) base (cfg_inputs cfg) [] [] = Some (files, dirs).

Lemma txtpp_run_cases orc cfg fuel sched w :
  (~ started cfg w /\ txtpp_run orc cfg fuel sched w = (VErr, w, [], c_init)) \/
  (exists base files dirs,
     cfg_threads cfg <> 0 /\
     os_resolve (w_fs w) (cfg_base cfg) = Some base /\
     resolve_inputs (w_fs w) base (cfg_inputs cfg) [] [] = Some (files, dirs) /\
     txtpp_run orc cfg fuel sched w = run_loop orc cfg base fuel sched (gs (ginit files dirs)) w []).
Proof.
  unfold txtpp_run. destruct (cfg_threads cfg =? 0) eqn:Et.
  - left. split; [|reflexivity]. intros [H _]. apply N.eqb_eq in Et. contradiction.
  - apply N.eqb_neq in Et. destruct (os_resolve (w_fs w) (cfg_base cfg)) as [base|] eqn:Eb.
    + destruct (resolve_inputs (w_fs w) base (cfg_inputs cfg) [] []) as [[files dirs]|] eqn:Ei.
      * right. exists base, files, dirs. split; [exact Et|]. split; [reflexivity|]. split; [exact Ei|reflexivity].
      * left. split; [|reflexivity]. intros [_ (b & f & d & Eb' & Ei')].
        rewrite Eb in Eb'. inversion Eb'; subst b. rewrite Ei in Ei'. discriminate.
    + left. split; [|reflexivity]. intros [_ (b & f & d & Eb' & _)]. rewrite Eb in Eb'. discriminate.
Qed.

Lemma reached_resolved cfg w base files dirs f :
  os_resolve (w_fs w) (cfg_base cfg) = Some base ->
  resolve_inputs (w_fs w) base (cfg_inputs cfg) [] [] = Some (files, dirs) ->
  (reached cfg w f <-> forall S Dd, closed cfg w files dirs S Dd -> In f S).
Proof.
  intros Eb Ei. split.
  - intros H. apply (H base files dirs Eb Ei).
  - intros H b' f' d' Eb' Ei'. rewrite Eb in Eb'. inversion Eb'; subst b'. rewrite Ei in Ei'. inversion Ei'; subst f' d'.
    exact H.
Qed.

(* ---- what `circular_error` means, for ANY configuration and tree (no static hypothesis) ---- *)
(* it is the normal exit of the coordinator loop with files still waiting *)
Theorem circular_error_normal_exit orc cfg fuel sched w :
  let x := txtpp_run orc cfg fuel sched w in
  circular_error x ->
  exists base files dirs g,
    os_resolve (w_fs w) (cfg_base cfg) = Some base /\
    resolve_inputs (w_fs w) base (cfg_inputs cfg) [] [] = Some (files, dirs) /\
    greach files dirs g /\ gs g = state_of x /\ inflight (gs g) = [] /\
    (exists f, is_seen g f /\ ~ finished g f).
Proof.
  intros x (Hv & Hrem & Hne). subst x.
  destruct (txtpp_run_cases orc cfg fuel sched w) as [[_ E]|(base & files & dirs & _ & Eb & Ei & E)]; rewrite E in *.
  - cbn in Hrem. discriminate.
  - exists base, files, dirs.
    pose proof (run_loop_exit_inv orc cfg base files dirs (fun _ _ _ => True) (fun _ _ _ _ _ _ _ _ _ _ _ _ _ => I)
                  fuel sched (ginit files dirs) w [] (greach_init files dirs) I) as H.
    cbv zeta in H.
    destruct H as [(g & R & Es & _ & [[Hnil Hv']|[_ Hv']])|(_ & t & r & Hin & He)].
    + exists g. repeat (split; [assumption|]). apply (cycle_verdict_iff files dirs g R Hnil). rewrite Es. exact Hrem.
    + congruence.
    + exfalso. apply (Hne t r Hin He).
Qed.

(* every VErr verdict is: an unusable configuration, a task that answered an error, or the circular-dependency error *)
Theorem verr_classification orc cfg fuel sched w :
  let x := txtpp_run orc cfg fuel sched w in
  verdict_of x = VErr ->
  ~ started cfg w \/ (exists t r, In (t, r) (trace_of x) /\ is_err r) \/ circular_error x.
Proof.
  intros x Hv. subst x.
  destruct (txtpp_run_cases orc cfg fuel sched w) as [[Hns _]|(base & files & dirs & _ & Eb & Ei & E)]; [left; exact Hns|].
  rewrite E in *.
  pose proof (run_loop_exit_inv orc cfg base files dirs
                (fun _ _ tr => forall t r, In (t, r) tr -> ~ is_err r)) as H.
  specialize (H (fun g w tr t rest r w' s2 _ HJ _ _ Hh t1 r1 Hin =>
                   match in_app_or _ _ _ Hin with
                   | or_introl H1 => HJ t1 r1 H1
                   | or_intror H2 =>
                       match H2 with
                       | or_introl E1 => eq_ind (t, r) (fun p => ~ is_err (snd p)) (handle_continue_not_err _ _ _ Hh) (t1, r1) E1
                       | or_intror F => False_ind _ F
                       end
                   end)).
  specialize (H fuel sched (ginit files dirs) w [] (greach_init files dirs) (fun t r F => False_ind _ F)).
  cbv zeta in H.
  destruct H as [(g & R & Es & HJ & [[Hnil Hv']|[_ Hv']])|(_ & t & r & Hin & He)].
  - right. right. split; [exact Hv|]. split; [|exact HJ].
    rewrite Hv' in Hv. rewrite <- Es. destruct (has_remaining (dm (gs g))); [reflexivity|discriminate].
  - congruence.
  - right. left. exists t, r. split; assumption.
Qed.

Lemma run_no_panic orc cfg fuel sched w : verdict_of (txtpp_run orc cfg fuel sched w) <> VPanic.
Proof.
  destruct (txtpp_run_cases orc cfg fuel sched w) as [[_ E]|(base & files & dirs & _ & _ & _ & E)]; rewrite E.
  - discriminate.
  - apply (run_loop_no_panic orc cfg base files dirs (ginit files dirs)). apply greach_init.
Qed.

(* ---- the summary behind X1 / X2 ---- *)
Lemma cycle_run_summary orc cfg fuel sched w base files dirs :
  cfg_mode cfg <> Clean -> raw_ok w -> cycle_static w ->
  cfg_threads cfg <> 0 ->
  os_resolve (w_fs w) (cfg_base cfg) = Some base ->
  resolve_inputs (w_fs w) base (cfg_inputs cfg) [] [] = Some (files, dirs) ->
  let x := txtpp_run orc cfg fuel sched w in
  no_task_error x -> verdict_of x <> VFuel ->
  exists g, greach files dirs g /\ gs g = state_of x /\ inflight (gs g) = [] /\
            verdict_of x = (if has_remaining (dm (gs g)) then VErr else VOk) /\
            JX cfg w files dirs g (world_of x) (trace_of x) /\
            (forall f, reached cfg w f <-> In f (seen (gs g))).
Proof.
  intros Hmd N HS Ht Eb Ei x Hne Hnf. subst x.
  assert (E : txtpp_run orc cfg fuel sched w = run_loop orc cfg base fuel sched (gs (ginit files dirs)) w []).
  { unfold txtpp_run. apply N.eqb_neq in Ht. rewrite Ht, Eb, Ei. reflexivity. }
  rewrite E in *.
  destruct (cycle_loop orc cfg base Hmd w HS files dirs fuel sched N Hne Hnf) as (g & R & Es & Hnil & Hv & HJ).
  exists g. repeat (split; [assumption|]). intros f.
  rewrite (reached_resolved cfg w base files dirs f Eb Ei). symmetry.
  apply (exit_seen_least cfg w files dirs g _ _ R HJ Hnil).
Qed.

(* X1.  A run in any mode but Clean (Build, Verify, --needed) of a usable configuration, from a duplicate-free tree that
   satisfies `cycle_static`; ANY schedule, fuel, oracle.  If no completed task answered an error and the run did not
   run out of fuel, then
     (1) the verdict is the circular-dependency error IFF some source reached from the inputs reaches a cycle of the
         static dependency graph;
     (2) the verdict is VOk IFF no reached source reaches a cycle;
     (3) every reached source that does NOT reach a cycle was given its last pass (the first pass if it has no
         dependency, else the final pass), which reported success: the acyclic part is built;
     (4) every reached source that reaches a cycle was given its first pass, which reported exactly its static
         dependencies, and nothing else: no final pass, no pass that reported success. *)
Theorem cycle_iff_static orc cfg fuel sched w :
  cfg_mode cfg <> Clean -> raw_ok w -> cycle_static w -> started cfg w ->
  let x := txtpp_run orc cfg fuel sched w in
  no_task_error x -> verdict_of x <> VFuel ->
  (circular_error x <-> exists f, reached cfg w f /\ reaches_cycle w f) /\
  (verdict_of x = VOk <-> forall f, reached cfg w f -> ~ reaches_cycle w f) /\
  (forall f, reached cfg w f -> ~ reaches_cycle w f ->
     In (TPp f (lastflag w f), RPp f (Some POk)) (trace_of x)) /\
  (forall f, reached cfg w f -> reaches_cycle w f ->
     In (TPp f true, RPp f (Some (PDeps (sdeps w f)))) (trace_of x) /\
     (forall r, ~ In (TPp f false, r) (trace_of x)) /\
     (forall b f', ~ In (TPp f b, RPp f' (Some POk)) (trace_of x))).
Proof.
  intros Hmd N HS [Ht (base & files & dirs & Eb & Ei)] x Hne Hnf.
  destruct (cycle_run_summary orc cfg fuel sched w base files dirs Hmd N HS Ht Eb Ei Hne Hnf)
    as (g & R & Es & Hnil & Hv & HJ & Hre).
  fold x in Es, Hv, HJ.
  pose proof (exit_remaining_iff cfg w files dirs g _ _ R HJ Hnil) as Hrem.
  pose proof (exit_finished_iff cfg w files dirs g _ _ R HJ Hnil) as Hfin.
  assert (Hrem' : has_remaining (dm (gs g)) = true <-> exists f, reached cfg w f /\ reaches_cycle w f).
  { rewrite Hrem. split; intros (f & H1 & H2); exists f; (split; [apply Hre; exact H1|exact H2]). }
  split; [|split; [|split]].
  - split.
    + intros (_ & Hr & _). apply Hrem'. rewrite Es. exact Hr.
    + intros H. apply Hrem' in H. split; [rewrite Hv, H; reflexivity|]. split; [rewrite <- Es; exact H|exact Hne].
  - split.
    + intros Hok f Hf Hc.
      assert (Hr : has_remaining (dm (gs g)) = true) by (apply Hrem'; exists f; split; assumption).
      rewrite Hv, Hr in Hok. discriminate.
    + intros H. rewrite Hv. destruct (has_remaining (dm (gs g))) eqn:Hr; [|reflexivity].
      exfalso. destruct (proj1 Hrem' eq_refl) as (f & Hf & Hc). apply (H f Hf Hc).
  - intros f Hf Hnc. apply Hre in Hf.
    destruct HJ as (_ & _ & _ & _ & _ & _ & GT & _). apply GT. apply (Hfin f Hf). exact Hnc.
  - intros f Hf Hc. apply Hre in Hf.
    assert (Hnfin : ~ finished g f) by (intros H; apply (proj1 (Hfin f Hf) H); exact Hc).
    pose proof HJ as (_ & _ & G1 & _ & _ & _ & _ & GF & GR & GH & _).
    destruct (inv_reach _ _ _ R) as [HP _].
    split; [|split].
    + destruct (exit_classification files dirs g R f Hnil) as [H|[d Hw]].
      * unfold is_seen. apply pmem_In. exact Hf.
      * contradiction.
      * destruct (waits_for_is_dep files dirs g R f d Hw) as [[ds [Hd _]] _].
        pose proof (GR f ds Hd) as Hin. destruct (G1 f ds Hd) as [-> _]. exact Hin.
    + intros r Hin. apply Hnfin. unfold finished. apply pmem_In. apply (i_hist_final HP f).
      rewrite GH. apply (in_map fst _ _ Hin).
    + intros b f' Hin. apply Hnfin. apply (GF f b f' Hin).
Qed.

(* X1 with the static fuel bound of RunFacts.txtpp_run_terminates instead of "did not run out of fuel" *)
Corollary cycle_iff_static_fuel orc cfg fuel sched w :
  cfg_mode cfg <> Clean -> raw_ok w -> legal_names (w_fs w) -> cycle_static w -> started cfg w ->
  (fuel > 2 * length (src_files (w_fs w)) + length (dir_entries (w_fs w)))%nat ->
  let x := txtpp_run orc cfg fuel sched w in
  no_task_error x ->
  (verdict_of x = VErr <-> exists f, reached cfg w f /\ reaches_cycle w f) /\
  (verdict_of x = VOk <-> forall f, reached cfg w f -> ~ reaches_cycle w f) /\
  (forall f, reached cfg w f -> ~ reaches_cycle w f ->
     In (TPp f (lastflag w f), RPp f (Some POk)) (trace_of x)).
Proof.
  intros Hmd N L HS Hst Hfuel x Hne.
  pose proof (txtpp_run_terminates orc cfg fuel sched w N L Hfuel) as Hnf. fold x in Hnf.
  destruct (cycle_iff_static orc cfg fuel sched w Hmd N HS Hst Hne Hnf) as (H1 & H2 & H3 & _). fold x in H1, H2, H3.
  split; [|split; [exact H2|exact H3]].
  rewrite <- H1. split; [|intros (H & _); exact H].
  intros Hv. destruct (verr_classification orc cfg fuel sched w Hv) as [H|[(t & r & Hin & He)|H]].
  - contradiction.
  - exfalso. apply (Hne t r Hin He).
  - exact H.
Qed.

(* X2.  A project whose static graph has no cycle that can be reached from a reached source never gets the
   circular-dependency error: ANY schedule, fuel, oracle; tasks may fail or not. *)
Theorem no_cycle_no_circular_error orc cfg fuel sched w :
  cfg_mode cfg <> Clean -> raw_ok w -> cycle_static w ->
  (forall f, reached cfg w f -> ~ reaches_cycle w f) ->
  ~ circular_error (txtpp_run orc cfg fuel sched w).
Proof.
  intros Hmd N HS Hac HC. pose proof HC as (Hv & Hrem & Hne).
  destruct (txtpp_run_cases orc cfg fuel sched w) as [[_ E]|(base & files & dirs & Ht & Eb & Ei & _)].
  - rewrite E in Hrem. cbn in Hrem. discriminate.
  - assert (Hst : started cfg w) by (split; [exact Ht|exists base, files, dirs; split; assumption]).
    assert (Hnf : verdict_of (txtpp_run orc cfg fuel sched w) <> VFuel) by congruence.
    destruct (cycle_iff_static orc cfg fuel sched w Hmd N HS Hst Hne Hnf) as (H1 & _).
    destruct (proj1 H1 HC) as (f & Hf & Hc). exact (Hac f Hf Hc).
Qed.

(* ... in particular when the static graph is well-founded on the reached sources *)
Corollary no_cycle_no_circular_error_acc orc cfg fuel sched w :
  cfg_mode cfg <> Clean -> raw_ok w -> cycle_static w ->
  (forall f, reached cfg w f -> Acc (fun d a => dep_edge w a d) f) ->
  ~ circular_error (txtpp_run orc cfg fuel sched w).
Proof.
  intros Hmd N HS Hacc. apply no_cycle_no_circular_error; try assumption.
  intros f Hf. apply (acc_not_reaches_cycle path (dep_edge w) f). apply Hacc. exact Hf.
Qed.

(* ... and then, when no task fails, the run succeeds *)
Corollary acyclic_run_ok orc cfg fuel sched w :
  cfg_mode cfg <> Clean -> raw_ok w -> cycle_static w -> started cfg w ->
  (forall f, reached cfg w f -> Acc (fun d a => dep_edge w a d) f) ->
  let x := txtpp_run orc cfg fuel sched w in
  no_task_error x -> verdict_of x <> VFuel -> verdict_of x = VOk.
Proof.
  intros Hmd N HS Hst Hacc x Hne Hnf.
  destruct (cycle_iff_static orc cfg fuel sched w Hmd N HS Hst Hne Hnf) as (_ & H2 & _). apply H2.
  intros f Hf. apply (acc_not_reaches_cycle path (dep_edge w) f). apply Hacc. exact Hf.
Qed.

(* C05 "never hangs": with the fuel of RunFacts.txtpp_run_terminates every run — cyclic project or not, whatever the
   mode, the schedule and the oracle — ends with VOk or VErr *)
Theorem cycle_never_hangs orc cfg fuel sched w :
  raw_ok w -> legal_names (w_fs w) ->
  (fuel > 2 * length (src_files (w_fs w)) + length (dir_entries (w_fs w)))%nat ->
  let x := txtpp_run orc cfg fuel sched w in
  verdict_of x = VOk \/ verdict_of x = VErr.
Proof.
  intros N L Hfuel x.
  pose proof (txtpp_run_terminates orc cfg fuel sched w N L Hfuel) as H1.
  pose proof (run_no_panic orc cfg fuel sched w) as H2. fold x in H1, H2.
  destruct (verdict_of x); [left; reflexivity|right; reflexivity|congruence|congruence].
Qed.

(* the same statements under the static hypotheses used in the rest of the development *)
Corollary cycle_iff_static_sched_ok_temps orc cfg fuel sched w :
  cfg_mode cfg <> Clean -> raw_ok w -> sched_ok_temps w -> started cfg w ->
  let x := txtpp_run orc cfg fuel sched w in
  no_task_error x -> verdict_of x <> VFuel ->
  (circular_error x <-> exists f, reached cfg w f /\ reaches_cycle w f) /\
  (verdict_of x = VOk <-> forall f, reached cfg w f -> ~ reaches_cycle w f) /\
  (forall f, reached cfg w f -> ~ reaches_cycle w f ->
     In (TPp f (lastflag w f), RPp f (Some POk)) (trace_of x)).
Proof.
  intros Hmd N HS Hst x Hne Hnf.
  destruct (cycle_iff_static orc cfg fuel sched w Hmd N (sched_ok_temps_cycle_static w HS) Hst Hne Hnf)
    as (H1 & H2 & H3 & _).
  split; [exact H1|]. split; [exact H2|exact H3].
Qed.

(* ================================================================================================
   PART F — X3, non-vacuity.  The tree (ScheduleTempFacts PART 6 plus a cyclic part)
       d/ ,
       d/a.txtpp = "// TXTPP#temp t\n// hello\nTXTPP#include t\nx\n"     (writes the temp file d/t, then includes it)
       d/b.txtpp = "TXTPP#include a\nz\n"                                  (includes the output of a.txtpp: two passes)
       d/p.txtpp = "TXTPP#include q\nP\n"                                  (p -> q)
       d/q.txtpp = "TXTPP#include p\nQ\n"                                  (q -> p: a cycle)
       d/r.txtpp = "TXTPP#include p\nR\n"                                  (r -> p: not on the cycle, but reaches it)
   run with `txtpp -r d` (t_cfg: Build), `txtpp --needed -r d` and `txtpp verify -r d`.
   ================================================================================================ *)
Definition cy_inc : str := [84; 88; 84; 80; 80; 35; 105; 110; 99; 108; 117; 100; 101; 32].     (* "TXTPP#include " *)
Definition cy_ext : str := [46; 116; 120; 116; 112; 112].                                       (* ".txtpp" *)
Definition cy_p : path := [[100]; 112 :: cy_ext].
Definition cy_q : path := [[100]; 113 :: cy_ext].
Definition cy_r : path := [[100]; 114 :: cy_ext].
Definition cy_pout : path := [[100]; [112]].
Definition cy_qout : path := [[100]; [113]].
Definition cy_rout : path := [[100]; [114]].
Definition cy_praw : str := cy_inc ++ [113; 10; 80; 10].
Definition cy_qraw : str := cy_inc ++ [112; 10; 81; 10].
Definition cy_rraw : str := cy_inc ++ [112; 10; 82; 10].
Definition cy_fs : fs :=
  [([[100]], Dir); (t_a, File t_araw); (t_b, File t_braw); (cy_p, File cy_praw); (cy_q, File cy_qraw); (cy_r, File cy_rraw)].
Definition cy_w : world := mkW cy_fs [].
Definition cy_ncfg : config := mkCfg [] [[100]] true 1 InMemoryBuild false.
Definition cy_vcfg : config := mkCfg [] [[100]] true 1 Verify false.
(* two schedules: "always the first task in flight", and one that looks at q, p, b before a *)
Definition cy_s1 : list nat := [].
Definition cy_s2 : list nat := [4; 3; 2; 1; 0; 1; 0; 2; 1]%nat.

Lemma read_file_In F f raw : read_file F f = Some raw -> In (f, File raw) F.
Proof.
  unfold read_file. destruct (fs_get F f) as [[c|]|] eqn:G; try discriminate. intros H. inversion H; subst c.
  apply fs_get_in; [|exact G]. intros ->. exact (file_not_root F raw G).
Qed.

Lemma cy_raw_ok : raw_ok cy_w.
Proof. unfold raw_ok. cbn. repeat constructor; cbn; intuition discriminate. Qed.

Lemma cy_legal : legal_names (w_fs cy_w).
Proof.
  intros p nd H. unfold cy_w, cy_fs in H. cbn [w_fs In] in H.
  repeat (destruct H as [H|H]; [inversion H; subst; repeat constructor; discriminate|]). destruct H.
Qed.

Lemma cy_sources f out : is_source cy_w f out ->
  (f = t_a /\ out = t_aout) \/ (f = t_b /\ out = t_bout) \/ (f = cy_p /\ out = cy_pout) \/
  (f = cy_q /\ out = cy_qout) \/ (f = cy_r /\ out = cy_rout).
Proof.
  intros [Ho [raw Er]]. apply read_file_In in Er. unfold cy_w, cy_fs in Er. cbn [w_fs In] in Er.
  destruct Er as [Er|[Er|[Er|[Er|[Er|[Er|[]]]]]]]; inversion Er; subst f; vm_compute in Ho; inversion Ho; auto 10.
Qed.

Lemma cy_static : cycle_static cy_w.
Proof.
  intros f out Hs.
  destruct (cy_sources f out Hs) as [[-> ->]|[[-> ->]|[[-> ->]|[[-> ->]|[-> ->]]]]]; split;
    intros x Hx; vm_compute in Hx;
    repeat (destruct Hx as [<-|Hx]; [vm_compute; reflexivity|]); destruct Hx.
Qed.

Lemma cy_started cfg : cfg_threads cfg = 1 -> cfg_base cfg = [] -> cfg_inputs cfg = [[100]] -> started cfg cy_w.
Proof.
  intros H1 H2 H3. split; [rewrite H1; discriminate|]. exists [], [], [[[100]]]. rewrite H2, H3.
  split; vm_compute; reflexivity.
Qed.

(* the five sources are reached (all are found by the scan of d/) *)
Lemma cy_reached cfg f : cfg_base cfg = [] -> cfg_inputs cfg = [[100]] ->
  In f [t_a; t_b; cy_p; cy_q; cy_r] -> reached cfg cy_w f.
Proof.
  intros H2 H3 Hf base files dirs Eb Ei S Dd Hcl. rewrite H2 in Eb. rewrite H3 in Ei.
  vm_compute in Eb. inversion Eb; subst base.
  vm_compute in Ei. inversion Ei; subst files dirs. destruct Hcl as (_ & Hd & Hscan & _).
  destruct (Hscan [[100]] [t_a; t_b; cy_p; cy_q; cy_r] [] (Hd _ (or_introl eq_refl))) as [Hs _].
  - unfold scan_dir. vm_compute. reflexivity.
  - apply Hs. exact Hf.
Qed.

(* the static graph: a has no dependency, b -> a, p -> q, q -> p, r -> p *)
Example cy_graph :
  sdeps cy_w t_a = [] /\ sdeps cy_w t_b = [t_a] /\ sdeps cy_w cy_p = [cy_q] /\ sdeps cy_w cy_q = [cy_p] /\
  sdeps cy_w cy_r = [cy_p].
Proof. repeat split; vm_compute; reflexivity. Qed.

Lemma cy_cyclic : reaches_cycle cy_w cy_p /\ reaches_cycle cy_w cy_q /\ reaches_cycle cy_w cy_r.
Proof.
  assert (Epq : dep_edge cy_w cy_p cy_q) by (vm_compute; left; reflexivity).
  assert (Eqp : dep_edge cy_w cy_q cy_p) by (vm_compute; left; reflexivity).
  assert (Erp : dep_edge cy_w cy_r cy_p) by (vm_compute; left; reflexivity).
  assert (Cp : clos_trans path (dep_edge cy_w) cy_p cy_p).
  { eapply t_trans; apply t_step; eassumption. }
  assert (Cq : clos_trans path (dep_edge cy_w) cy_q cy_q).
  { eapply t_trans; apply t_step; eassumption. }
  split; [|split].
  - exists cy_p. split; [apply rt_refl|exact Cp].
  - exists cy_q. split; [apply rt_refl|exact Cq].
  - exists cy_p. split; [apply rt_step; exact Erp|exact Cp].
Qed.

Lemma cy_acyclic : ~ reaches_cycle cy_w t_a /\ ~ reaches_cycle cy_w t_b.
Proof.
  assert (Ha : Acc (fun d a => dep_edge cy_w a d) t_a).
  { constructor. intros y Hy. vm_compute in Hy. destruct Hy. }
  assert (Hb : Acc (fun d a => dep_edge cy_w a d) t_b).
  { constructor. intros y Hy. vm_compute in Hy. destruct Hy as [<-|[]]. exact Ha. }
  split; apply (acc_not_reaches_cycle path (dep_edge cy_w)); assumption.
Qed.

(* membership in a concrete list, without `auto` (which would try to unify with hypotheses about runs) *)
Ltac in_list := cbn [In]; repeat (first [left; reflexivity | right]).

Ltac solve_no_error :=
  let t := fresh "t" in let r := fresh "r" in let Hin := fresh "Hin" in
  intros t r Hin; vm_compute in Hin;
  repeat (destruct Hin as [Hin|Hin]; [inversion Hin; subst; intros He; exact He|]); destruct Hin.

(* X3 (Build): under both schedules no task fails, the run ends, and the theorem gives: the verdict is the circular
   error; a.txtpp and b.txtpp got their last pass, which succeeded; p, q, r only got their first pass.  By
   computation: the verdict is VErr, d/t, d/a and d/b are built (b's output contains a's), the two schedules complete
   the tasks in different orders. *)
Example cycle_reported_nonvacuous :
  forall sched, sched = cy_s1 \/ sched = cy_s2 ->
  let x := txtpp_run cx_orc t_cfg 13 sched cy_w in
  no_task_error x /\ verdict_of x <> VFuel /\
  circular_error x /\ verdict_of x = VErr /\
  In (TPp t_a true, RPp t_a (Some POk)) (trace_of x) /\
  In (TPp t_b false, RPp t_b (Some POk)) (trace_of x) /\
  (forall f, In f [cy_p; cy_q; cy_r] ->
     In (TPp f true, RPp f (Some (PDeps (sdeps cy_w f)))) (trace_of x) /\
     (forall r, ~ In (TPp f false, r) (trace_of x)) /\
     (forall b f', ~ In (TPp f b, RPp f' (Some POk)) (trace_of x))) /\
  fs_get (w_fs (world_of x)) t_t = Some (File t_hello) /\
  fs_get (w_fs (world_of x)) t_aout = Some (File (t_hello ++ [120])) /\
  fs_get (w_fs (world_of x)) t_bout = Some (File (t_hello ++ [120; 122])).
Proof.
  intros sched Hsched x.
  assert (Hne : no_task_error x) by (subst x; destruct Hsched as [-> | ->]; solve_no_error).
  assert (Hnf : verdict_of x <> VFuel) by (subst x; destruct Hsched as [-> | ->]; vm_compute; discriminate).
  destruct (cycle_iff_static cx_orc t_cfg 13 sched cy_w ltac:(discriminate) cy_raw_ok cy_static
              (cy_started t_cfg eq_refl eq_refl eq_refl) Hne Hnf) as (H1 & _ & H3 & H4).
  fold x in H1, H3, H4.
  assert (HC : circular_error x).
  { apply H1. exists cy_p. split; [apply cy_reached; try reflexivity; in_list|apply cy_cyclic]. }
  split; [exact Hne|]. split; [exact Hnf|]. split; [exact HC|]. split; [exact (proj1 HC)|].
  split; [|split; [|split]].
  - apply (H3 t_a); [apply cy_reached; try reflexivity; in_list|apply cy_acyclic].
  - apply (H3 t_b); [apply cy_reached; try reflexivity; in_list|apply cy_acyclic].
  - intros f Hf. apply H4.
    + apply cy_reached; try reflexivity. simpl in Hf. simpl. tauto.
    + destruct Hf as [<-|[<-|[<-|[]]]]; apply cy_cyclic.
  - subst x. destruct Hsched as [-> | ->]; vm_compute; repeat split; reflexivity.
Qed.

Example cycle_schedules_differ :
  map fst (trace_of (txtpp_run cx_orc t_cfg 13 cy_s1 cy_w)) <> map fst (trace_of (txtpp_run cx_orc t_cfg 13 cy_s2 cy_w)).
Proof. vm_compute. discriminate. Qed.

(* the same with the static fuel bound (2 * 5 sources + 2 directories < 13): VErr iff a reached source reaches a cycle *)
Example cycle_reported_fuel_nonvacuous :
  forall sched, sched = cy_s1 \/ sched = cy_s2 ->
  verdict_of (txtpp_run cx_orc t_cfg 13 sched cy_w) = VErr.
Proof.
  intros sched Hsched.
  assert (Hne : no_task_error (txtpp_run cx_orc t_cfg 13 sched cy_w)) by (destruct Hsched as [-> | ->]; solve_no_error).
  assert (Hfuel : (13 > 2 * length (src_files (w_fs cy_w)) + length (dir_entries (w_fs cy_w)))%nat) by (vm_compute; lia).
  destruct (cycle_iff_static_fuel cx_orc t_cfg 13 sched cy_w ltac:(discriminate) cy_raw_ok cy_legal cy_static
              (cy_started t_cfg eq_refl eq_refl eq_refl) Hfuel Hne) as (H1 & _).
  apply H1. exists cy_r. split; [apply cy_reached; try reflexivity; in_list|apply cy_cyclic].
Qed.

(* --needed: the same theorem applies (mode InMemoryBuild) *)
Example cycle_reported_needed_nonvacuous :
  let x := txtpp_run cx_orc cy_ncfg 13 cy_s2 cy_w in
  circular_error x /\ In (TPp t_b false, RPp t_b (Some POk)) (trace_of x).
Proof.
  intros x.
  assert (Hne : no_task_error x) by (subst x; solve_no_error).
  assert (Hnf : verdict_of x <> VFuel) by (subst x; vm_compute; discriminate).
  destruct (cycle_iff_static cx_orc cy_ncfg 13 cy_s2 cy_w ltac:(discriminate) cy_raw_ok cy_static
              (cy_started cy_ncfg eq_refl eq_refl eq_refl) Hne Hnf) as (H1 & _ & H3 & _).
  fold x in H1, H3. split.
  - apply H1. exists cy_q. split; [apply cy_reached; try reflexivity; in_list|apply cy_cyclic].
  - apply (H3 t_b); [apply cy_reached; try reflexivity; in_list|apply cy_acyclic].
Qed.

(* verify: on the tree left by the failed build above (d/t, d/a, d/b built; d/p, d/q, d/r created empty by the first
   passes) `txtpp verify -r d` accepts a and b, and reports the cycle p <-> q again *)
Definition cy_built : world := mkW (w_fs (world_of (txtpp_run cx_orc t_cfg 13 cy_s1 cy_w))) [].

Lemma cy_built_raw_ok : raw_ok cy_built.
Proof. unfold raw_ok. vm_compute. repeat constructor; cbn; intuition discriminate. Qed.

Lemma cy_built_sources f out : is_source cy_built f out ->
  (f = t_a /\ out = t_aout) \/ (f = t_b /\ out = t_bout) \/ (f = cy_p /\ out = cy_pout) \/
  (f = cy_q /\ out = cy_qout) \/ (f = cy_r /\ out = cy_rout).
Proof.
  intros [Ho [raw Er]]. apply read_file_In in Er. vm_compute in Er.
  repeat (destruct Er as [Er|Er];
          [inversion Er; subst f; vm_compute in Ho; first [discriminate Ho|inversion Ho; auto 10]|]).
  destruct Er.
Qed.

Lemma cy_built_static : cycle_static cy_built.
Proof.
  intros f out Hs.
  destruct (cy_built_sources f out Hs) as [[-> ->]|[[-> ->]|[[-> ->]|[[-> ->]|[-> ->]]]]]; split;
    intros x Hx; vm_compute in Hx;
    repeat (destruct Hx as [<-|Hx]; [vm_compute; reflexivity|]); destruct Hx.
Qed.

Example cycle_reported_verify_nonvacuous :
  let x := txtpp_run cx_orc cy_vcfg 13 cy_s1 cy_built in
  circular_error x /\
  In (TPp t_a true, RPp t_a (Some POk)) (trace_of x) /\ In (TPp t_b false, RPp t_b (Some POk)) (trace_of x).
Proof.
  intros x.
  assert (Hne : no_task_error x) by (subst x; solve_no_error).
  assert (Hnf : verdict_of x <> VFuel) by (subst x; vm_compute; discriminate).
  assert (Hst : started cy_vcfg cy_built).
  { split; [discriminate|]. exists [], [], [[[100]]]. split; vm_compute; reflexivity. }
  assert (Hre : forall f, In f [t_a; t_b; cy_p; cy_q; cy_r] -> reached cy_vcfg cy_built f).
  { intros f Hf base files dirs Eb Ei S Dd Hcl.
    vm_compute in Eb. inversion Eb; subst base.
    vm_compute in Ei. inversion Ei; subst files dirs. destruct Hcl as (_ & Hd & Hscan & _).
    destruct (Hscan [[100]] [t_a; t_b; cy_p; cy_q; cy_r] [] (Hd _ (or_introl eq_refl))) as [Hs _].
    - vm_compute. reflexivity.
    - apply Hs. exact Hf. }
  destruct (cycle_iff_static cx_orc cy_vcfg 13 cy_s1 cy_built ltac:(discriminate) cy_built_raw_ok cy_built_static
              Hst Hne Hnf) as (H1 & _ & H3 & _).
  fold x in H1, H3.
  assert (Epq : dep_edge cy_built cy_p cy_q) by (vm_compute; left; reflexivity).
  assert (Eqp : dep_edge cy_built cy_q cy_p) by (vm_compute; left; reflexivity).
  assert (Ha : Acc (fun d a => dep_edge cy_built a d) t_a).
  { constructor. intros y Hy. vm_compute in Hy. destruct Hy. }
  assert (Hb : Acc (fun d a => dep_edge cy_built a d) t_b).
  { constructor. intros y Hy. vm_compute in Hy. destruct Hy as [<-|[]]. exact Ha. }
  split; [|split].
  - apply H1. exists cy_p. split; [apply Hre; in_list|].
    exists cy_p. split; [apply rt_refl|]. eapply t_trans; apply t_step; eassumption.
  - apply (H3 t_a); [apply Hre; in_list|apply (acc_not_reaches_cycle path (dep_edge cy_built)); exact Ha].
  - apply (H3 t_b); [apply Hre; in_list|apply (acc_not_reaches_cycle path (dep_edge cy_built)); exact Hb].
Qed.

(* X2, non-vacuity: the acyclic tree t_w of ScheduleTempFacts PART 6 (a.txtpp with a temp directive, b.txtpp -> a.txtpp)
   never gets the circular-dependency error, whatever the schedule and the fuel; with the two schedules of PART 6 the
   run succeeds (by the theorem, from "no task failed") *)
Lemma t_reached_only f : reached t_cfg t_w f -> f = t_a \/ f = t_b.
Proof.
  intros H.
  assert (Hcl : closed t_cfg t_w [] [[[100]]] [t_a; t_b] [[[100]]]).
  { split; [intros x []|]. split; [intros x Hx; exact Hx|]. split.
    - intros d fs ds [<-|[]] Hscan. vm_compute in Hscan. inversion Hscan; subst fs ds.
      split; [intros x Hx; exact Hx|intros x []].
    - intros f0 [<-|[<-|[]]] q Hq; vm_compute in Hq.
      + destruct Hq.
      + destruct Hq as [<-|[]]. left. reflexivity. }
  specialize (H [] [] [[[100]]] ltac:(vm_compute; reflexivity) ltac:(vm_compute; reflexivity) _ _ Hcl).
  destruct H as [<-|[<-|[]]]; auto.
Qed.

Lemma t_acc f : reached t_cfg t_w f -> Acc (fun d a => dep_edge t_w a d) f.
Proof.
  assert (Ha : Acc (fun d a => dep_edge t_w a d) t_a).
  { constructor. intros y Hy. vm_compute in Hy. destruct Hy. }
  assert (Hb : Acc (fun d a => dep_edge t_w a d) t_b).
  { constructor. intros y Hy. vm_compute in Hy. destruct Hy as [<-|[]]. exact Ha. }
  intros H. destruct (t_reached_only f H) as [-> | ->]; assumption.
Qed.

Example no_cycle_no_circular_error_nonvacuous :
  (forall orc fuel sched, ~ circular_error (txtpp_run orc t_cfg fuel sched t_w)) /\
  (forall sched, sched = [] \/ sched = [0; 1; 0; 0]%nat ->
     let x := txtpp_run cx_orc t_cfg 9 sched t_w in no_task_error x /\ verdict_of x <> VFuel /\ verdict_of x = VOk).
Proof.
  split.
  - intros orc fuel sched.
    apply (no_cycle_no_circular_error_acc orc t_cfg fuel sched t_w ltac:(discriminate) t_raw_ok
             (sched_ok_temps_cycle_static t_w t_sched_ok) t_acc).
  - intros sched Hsched x.
    assert (Hne : no_task_error x) by (subst x; destruct Hsched as [-> | ->]; solve_no_error).
    assert (Hnf : verdict_of x <> VFuel) by (subst x; destruct Hsched as [-> | ->]; vm_compute; discriminate).
    split; [exact Hne|]. split; [exact Hnf|].
    apply (acyclic_run_ok cx_orc t_cfg 9 sched t_w ltac:(discriminate) t_raw_ok
             (sched_ok_temps_cycle_static t_w t_sched_ok)); try assumption.
    + split; [discriminate|]. exists [], [], [[[100]]]. split; vm_compute; reflexivity.
    + exact t_acc.
Qed.

(* "never hangs", on the cyclic project: any mode, schedule, oracle *)
Example cycle_never_hangs_nonvacuous :
  forall orc cfg sched, let x := txtpp_run orc cfg 13 sched cy_w in verdict_of x = VOk \/ verdict_of x = VErr.
Proof.
  intros orc cfg sched. apply cycle_never_hangs; [exact cy_raw_ok|exact cy_legal|vm_compute; lia].
Qed.

(* OBSERVATION (not a counterexample to anything above; behaviour of the model worth knowing): in Build mode the first
   pass of a source creates / truncates its output before it stops at the first dependency directive.  So after the
   circular-dependency error the outputs of the sources that reach the cycle (p, q, r) exist as EMPTY files — and an
   output d/p = "old" that existed before the run (e.g. built before the cycle was introduced) is destroyed, although
   p.txtpp never gets a successful pass.  The acyclic part (d/t, d/a, d/b) is built normally. *)
Definition cy_w_old : world := mkW (fs_put cy_fs cy_pout (File t_old)) [].
Example cycle_truncates_outputs_of_cyclic_part :
  let x := txtpp_run cx_orc t_cfg 13 cy_s2 cy_w in
  let y := txtpp_run cx_orc t_cfg 13 cy_s2 cy_w_old in
  fs_get (w_fs cy_w) cy_pout = None /\ fs_get (w_fs cy_w) cy_qout = None /\ fs_get (w_fs cy_w) cy_rout = None /\
  fs_get (w_fs (world_of x)) cy_pout = Some (File []) /\ fs_get (w_fs (world_of x)) cy_qout = Some (File []) /\
  fs_get (w_fs (world_of x)) cy_rout = Some (File []) /\
  fs_get (w_fs cy_w_old) cy_pout = Some (File t_old) /\
  verdict_of y = VErr /\ fs_get (w_fs (world_of y)) cy_pout = Some (File []) /\
  fs_get (w_fs (world_of y)) t_bout = Some (File (t_hello ++ [120; 122])).
Proof. vm_compute. repeat split; reflexivity. Qed.
