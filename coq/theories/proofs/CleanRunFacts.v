(* CleanRunFacts.v — whole-run statements of C07: clean removes exactly what build generated and never executes
   anything (round W, task U).  Everything below is proved: nothing assumed; `Print Assumptions` of the theorems
   and of the examples is closed.

   U2  clean_run_no_command (+ clean_run_no_command_fresh_log): ANY Clean run, from any world, whatever its verdict, logs
       only ERemove events: no ERun (no command is ever executed), no EWrite.
   U1  clean_after_build_restores (+ corollary clean_after_build_restores_ok): a successful Build run from w followed by a
       Clean run (same base/inputs/-r, ANY schedule, fuel, oracle, threads >= 1, trailing option) from the world it
       left: the Clean run cannot fail (VOk, or VFuel when it is given too little fuel), and when it ends the tree is
       `w_eq` to the tree w before the build; fuel > 2|sources|+|directories| suffices.
       Static hypotheses: raw_ok w, sched_ok_temps w (ScheduleTempFacts, verbatim), the two conditions on the base directory
       and on the inputs of ScheduleTempFacts.stale_outputs_and_temps_irrelevant with D := foots w (they do not name a
       generated path), `footprints_absent` (nothing lies at the outputs / temp targets of the processed sources) and
       `deps_cleaned`: every dependency of a source that Clean processes is processed by Clean (an input, or found by the
       scans) — Clean does not follow dependencies.
       clean_does_not_follow_dependencies: the machine-checked counterexample when `deps_cleaned` is dropped.
   U3  clean_idempotent_run (+ corollary clean_idempotent_run_weq): a Clean run from the world left by a SUCCESSFUL Clean run
       cannot fail and changes nothing at all: `world_of x2 = world_of x1` (same tree, same representation, same log: not a
       single event is logged).  Static hypotheses: NoDup keys, legal_names (those of txtpp_run_terminates), the base is a
       directory.  clean_idempotent_needs_success: counterexample when the first run FAILED.

   PART A  one Clean pass cannot fail on a readable, UTF-8 source whose output is not a directory (clean_pass_total)
   PART B  `cleaned_src f w` ("f has been cleaned in w"): established by a successful Clean pass, stable under further
           removals, makes a Clean pass a no-op
   PART C  loop tools: run_loop_noerr; the STATIC description of what a Clean run processes (`scanned_dir`, `cleaned_file`);
           the closure invariant `Cl` and the invariant `Lim` of runs that never report dependencies
   PART D  what a successful Build pass (first or final) establishes about its source (`good_src`)
   PART E  the Build run (invariant JB, build_exit);  PART F  the Clean run that follows (invariant Jc, clean_side) *)
Require Import Txtpp.Str Txtpp.Consts Txtpp.Grammar Txtpp.Tags Txtpp.Path Txtpp.Fs Txtpp.Sink Txtpp.Pp Txtpp.Spec.
Require Import Txtpp.Dep Txtpp.Coord Txtpp.Run.
Require Import Txtpp.proofs.StrFacts Txtpp.proofs.SinkFacts Txtpp.proofs.PathFacts Txtpp.proofs.PpFacts Txtpp.proofs.EventFacts.
Require Import Txtpp.proofs.FrameFacts Txtpp.proofs.ConfluenceFacts Txtpp.proofs.DepFacts Txtpp.proofs.CoordFacts Txtpp.proofs.RunFacts.
Require Import Txtpp.proofs.ScheduleFacts Txtpp.proofs.RunEventsFacts Txtpp.proofs.ScheduleTempFacts Txtpp.proofs.CleanVerifyFacts.
Require Import Txtpp.proofs.ExtraFactsC.
From Coq Require Import Lia Permutation.

Local Open Scope bool_scope.

(* ===================================================================================================================
   U2 — a Clean run never runs a command and never writes
   =================================================================================================================== *)
Theorem clean_run_no_command orc cfg fuel sched w :
  cfg_mode cfg = Clean ->
  let x := txtpp_run orc cfg fuel sched w in
  exists evs, w_log (world_of x) = w_log w ++ evs /\
    Forall (fun e => exists p, e = ERemove p) evs /\
    (forall c cwd f, ~ In (ERun c cwd f) evs) /\
    (forall p, ~ In (EWrite p) evs).
Proof.
  intros Hmd. cbv zeta. destruct (clean_run_removes_only orc cfg fuel sched w Hmd) as (evs & HL & HA).
  exists evs. split; [exact HL|]. split; [exact HA|]. rewrite Forall_forall in HA. split.
  - intros c cwd f Hin. destruct (HA _ Hin) as [p Hp]. discriminate.
  - intros p Hin. destruct (HA _ Hin) as [q Hq]. discriminate.
Qed.

Corollary clean_run_no_command_fresh_log orc cfg fuel sched w :
  cfg_mode cfg = Clean -> w_log w = [] ->
  forall e, In e (w_log (world_of (txtpp_run orc cfg fuel sched w))) -> exists p, e = ERemove p.
Proof.
  intros Hmd Hl e He. destruct (clean_run_no_command orc cfg fuel sched w Hmd) as (evs & HL & HA & _).
  rewrite HL, Hl in He. cbn [app] in He. rewrite Forall_forall in HA. apply HA. exact He.
Qed.

(* ===================================================================================================================
   PART A — one Clean pass: it cannot fail once the source is readable, well formed and its output is not a directory
   =================================================================================================================== *)
Lemma parse_true_no_bad ls : forall c, ~ In IBad (parse true c ls).
Proof.
  induction ls as [|l r IH]; intros c.
  - cbn [parse]. destruct c; [intros [H|[]]; discriminate|intros []].
  - change (parse true c (l :: r)) with (parse (mode_eqb Clean Clean) c (l :: r)). rewrite parse_cons.
    assert (F : ~ In IBad (fresh_items Clean l r)).
    { unfold fresh_items. cbn [mode_eqb]. destruct (detect_from l) as [d|].
      - destruct (needs_prefix_err d); [|apply IH]. intros [H|H]; [discriminate|exact (IH _ H)].
      - intros [H|H]; [discriminate|exact (IH _ H)]. }
    destruct c as [d|]; [|exact F]. cbn [mode_eqb].
    destruct (add_line d l).
    + apply IH.
    + intros [H|H]; [discriminate|exact (F H)].
    + intros [H|[]]. discriminate.
Qed.

Lemma items_clean_no_bad raw : ~ In IBad (items_of' Clean raw).
Proof. unfold items_of'. cbn [mode_eqb]. apply parse_true_no_bad. Qed.

(* a Clean item on the clean sink: it is executed (world = clean_step) or the machine panics; it never errs *)
Lemma do_item_clean_cases orc src base le it s : snk s = SClean -> is_execute (pmode s) = true -> it <> IBad ->
  (exists s2, do_item orc Clean src base le it s = StOk s2) \/ do_item orc Clean src base le it s = StPanic.
Proof.
  intros Hk Hx Hb. unfold do_item. destruct it as [l|d fol| |]; cbn [item_output]; try congruence.
  - rewrite Hx. destruct (inject (tg s) l le) as [[l' t']|]; [|right; reflexivity].
    destruct (emit_clean le (set_tg s t') (Some l') false Hk) as (x & Ex & _). left. exists x. exact Ex.
  - left. unfold exec_directive.
    assert (E : forall s1, exists s2, emit le s1 None (item_tail (IDir d fol)) = StOk s2).
    { intros s1. unfold emit. destruct (is_execute (pmode s1)); eexists; reflexivity. }
    destruct (d_ty d); try apply E.
    destruct (exec_temp src le (d_args d) true (wld s)); apply E.
  - right. reflexivity.
Qed.

Lemma clean_spec_out_cases orc src base le tn its : forall s,
  snk s = SClean -> is_execute (pmode s) = true -> ~ In IBad its ->
  spec_out orc Clean src base le tn its s = PpOk (clean_fold src its (wld s)) \/
  spec_out orc Clean src base le tn its s = PpPanic.
Proof.
  induction its as [|it r IH]; intros s Hk Hx Hb.
  - left. rewrite spec_out_nil. apply epilogue_clean; assumption.
  - rewrite spec_out_cons.
    destruct (do_item_clean_cases orc src base le it s Hk Hx) as [[s2 E]|E].
    + intros ->. apply Hb. left. reflexivity.
    + rewrite E. destruct (do_item_clean src orc base le it s s2 Hk Hx E) as (W2 & K2 & X2 & _).
      rewrite clean_fold_cons, <- W2. apply IH; try assumption. intros H. apply Hb. right. exact H.
    + rewrite E. right. reflexivity.
Qed.

(* the rest of a pass whose source is valid UTF-8, in terms of the items *)
Lemma pp_rest_spec_out orc md base src first tn raw k0 w0 :
  snd (take_valid (lines raw)) = false ->
  pp_rest orc md base src first tn raw k0 w0 =
  spec_out orc md src base (detect_le raw) tn (items_of' md raw)
    (mkP None false (if first then PFirst else PExec) tags_new k0 w0).
Proof.
  intros Hb. unfold pp_rest, items_of'. destruct (take_valid (lines raw)) as [ls bad]. cbn [fst snd] in *. subst bad.
  set (s0 := mkP None false (if first then PFirst else PExec) tags_new k0 w0).
  pose proof (fusion orc md src base (detect_le raw) tn ls s0) as F.
  change (cur s0) with (@None directive) in F. change (set_cur s0 None) with s0 in F.
  rewrite <- F. unfold outcome_of.
  destruct (run_lines orc md src base (detect_le raw) ls s0); reflexivity.
Qed.

Lemma sink_new_clean_ok w out : is_dir (w_fs w) out = false ->
  exists w0, sink_new Clean w out = inl (SClean, w0).
Proof.
  intros Hd. unfold sink_new, exists_, w_remove_file, is_dir in *.
  destruct (fs_get (w_fs w) out) as [[c|]|]; try discriminate; eexists; reflexivity.
Qed.

(* A Clean pass succeeds as soon as the source can be read, is valid UTF-8, strips to a non-`.txtpp` output that is not
   a directory. *)
Lemma clean_pass_total orc base f first tn wc raw out :
  read_file (w_fs wc) f = Some raw -> remove_txtpp f = Some out -> is_txtpp_file out = false ->
  is_dir (w_fs wc) out = false -> snd (take_valid (lines raw)) = false ->
  exists w', pp_run orc Clean base f first tn wc = PpOk w'.
Proof.
  intros Er Ho Et Hd Hb.
  pose proof (pp_run_no_panic orc Clean base f first tn wc) as NP.
  rewrite pp_run_unfold, Er, Ho, Et in *.
  destruct (sink_new_clean_ok wc out Hd) as [w0 En]. rewrite En in *.
  rewrite (pp_rest_spec_out orc Clean base f first tn raw SClean w0 Hb) in *.
  destruct (clean_spec_out_cases orc f base (detect_le raw) tn (items_of' Clean raw)
              (mkP None false (if first then PFirst else PExec) tags_new SClean w0) eq_refl
              ltac:(destruct first; reflexivity) (items_clean_no_bad raw)) as [E|E].
  - eexists. exact E.
  - exfalso. exact (NP E).
Qed.

(* ===================================================================================================================
   PART B — the state "f has been cleaned": a Clean pass over f is then a no-op, and stays one while files are only removed
   =================================================================================================================== *)
Definition temp_clear (f : path) (wc : world) (a : str) : Prop :=
  is_txtpp_file (lex_components a) = false ->
  os_resolve (w_fs wc) (tlex f a) = Some (lex_normalize (tlex f a)) ->
  is_file (w_fs wc) (lex_normalize (tlex f a)) = false.

Definition cleaned_src (f : path) (wc : world) : Prop :=
  exists out raw, remove_txtpp f = Some out /\ is_txtpp_file out = false /\ read_file (w_fs wc) f = Some raw /\
    snd (take_valid (lines raw)) = false /\
    fs_get (w_fs wc) out = None /\
    forall a, In a (temp_args (items_of' Clean raw)) -> temp_clear f wc a.

Lemma clean_fold_noop f its : forall wc,
  (forall a, In a (temp_args its) -> temp_clear f wc a) -> clean_fold f its wc = wc.
Proof.
  induction its as [|it r IH]; intros wc H; [reflexivity|].
  rewrite clean_fold_cons.
  assert (E : clean_step f it wc = wc).
  { apply clean_step_noop. intros d fol a rest -> Hty Ha Htx R. apply H; [|exact Htx|exact R].
    cbn [temp_args]. rewrite Hty, Ha. left. reflexivity. }
  rewrite E. apply IH. intros a Ha. apply H.
  destruct it as [l|d fol| |]; cbn [temp_args]; try exact Ha.
  destruct (d_ty d); try exact Ha. destruct (d_args d); [exact Ha|right; exact Ha].
Qed.

Lemma sink_new_clean_shr w out k w0 : sink_new Clean w out = inl (k, w0) -> shr w w0.
Proof.
  unfold sink_new. destruct (exists_ (w_fs w) out).
  - destruct (w_remove_file w out) as [w1|] eqn:E; [|discriminate]. intros H. inversion H; subst.
    eapply w_remove_shr; eauto.
  - intros H. inversion H; subst. apply shr_refl.
Qed.

Lemma clean_pass_shr orc base f b tn w w' out :
  remove_txtpp f = Some out -> pp_run orc Clean base f b tn w = PpOk w' -> shr w w'.
Proof.
  intros Ho H. destruct (clean_pass_char f orc base b tn w w' out Ho H) as (raw & w0 & _ & _ & En & -> & _).
  eapply shr_trans; [eapply sink_new_clean_shr; eauto|apply clean_fold_shr].
Qed.

Lemma clean_pass_bad_false orc base f b tn w w' :
  pp_run orc Clean base f b tn w = PpOk w' ->
  exists raw, read_file (w_fs w) f = Some raw /\ snd (take_valid (lines raw)) = false.
Proof.
  rewrite pp_run_unfold. destruct (read_file (w_fs w) f) as [raw|]; [|discriminate].
  destruct (remove_txtpp f) as [out|]; [|discriminate]. destruct (is_txtpp_file out); [discriminate|].
  destruct (sink_new Clean w out) as [[k0 w0]|k]; [|discriminate].
  intros H. apply pp_rest_ok_iff in H. exists raw. split; [reflexivity|apply H].
Qed.

(* after a successful Clean pass that has not touched its own source, the source is in the cleaned state *)
Lemma clean_pass_cleaned orc base f b tn w w' out :
  remove_txtpp f = Some out -> read_file (w_fs w') f = read_file (w_fs w) f ->
  pp_run orc Clean base f b tn w = PpOk w' -> cleaned_src f w'.
Proof.
  intros Ho Hsame H.
  destruct (clean_pass_bad_false _ _ _ _ _ _ _ H) as (raw0 & Er0 & Hbad).
  destruct (clean_pass_char f orc base b tn w w' out Ho H) as (raw & w0 & Er & Eto & En & E1 & _).
  rewrite Er in Er0. inversion Er0; subst raw0.
  exists out, raw. split; [exact Ho|]. split; [exact Eto|]. split; [rewrite Hsame; exact Er|]. split; [exact Hbad|].
  split; [eapply clean_pass_removes_output; eauto|].
  intros a Hin Htx R.
  destruct (is_file (w_fs w') (lex_normalize (tlex f a))) eqn:Ef; [exfalso|reflexivity].
  destruct (temp_args_in _ _ Hin) as (d & fol & rest & Hi & Hty & Ha).
  assert (Hok : CleanVerifyFacts.temp_ok f w0 a).
  { split; [exact Htx|]. exists w'. split; [|left; exact R].
    apply same_dirs_sym. rewrite E1. apply (clean_fold_shr f (items_of' Clean raw) w0). }
  pose proof (clean_fold_removes f _ w0 d fol a rest Hi Hty Ha Hok) as Hn. rewrite <- E1 in Hn. congruence.
Qed.

(* the cleaned state survives further removals that leave the source alone *)
Lemma cleaned_src_shr f wc wc' :
  cleaned_src f wc -> shr wc wc' -> read_file (w_fs wc') f = read_file (w_fs wc) f -> cleaned_src f wc'.
Proof.
  intros (out & raw & Ho & Eto & Er & Hbad & Hout & Ht) S Hsame.
  exists out, raw. split; [exact Ho|]. split; [exact Eto|]. split; [rewrite Hsame; exact Er|]. split; [exact Hbad|].
  split.
  - destruct (proj1 S out) as [E|E]; [rewrite E; exact Hout|exact E].
  - intros a Hin Htx R.
    destruct (is_file (w_fs wc') (lex_normalize (tlex f a))) eqn:Ef; [exfalso|reflexivity].
    pose proof (shr_file _ _ _ S Ef) as Ef0.
    assert (R0 : os_resolve (w_fs wc) (tlex f a) = Some (lex_normalize (tlex f a))).
    { unfold os_resolve in *. eapply os_walk_same_dirs; [|exact R|apply is_file_exists; exact Ef0].
      intros q. symmetry. apply (proj2 S). }
    rewrite (Ht a Hin Htx R0) in Ef0. discriminate.
Qed.

(* in the cleaned state a Clean pass changes nothing: neither the tree nor the log *)
Lemma cleaned_src_noop orc base f first tn wc :
  cleaned_src f wc -> pp_run orc Clean base f first tn wc = PpOk wc.
Proof.
  intros (out & raw & Ho & Eto & Er & Hbad & Hout & Ht).
  assert (Hd : is_dir (w_fs wc) out = false) by (unfold is_dir; rewrite Hout; reflexivity).
  destruct (clean_pass_total orc base f first tn wc raw out Er Ho Eto Hd Hbad) as [w' H].
  destruct (clean_pass_char f orc base first tn wc w' out Ho H) as (raw' & w0 & Er' & _ & En & E1 & _).
  rewrite Er in Er'. inversion Er'; subst raw'.
  unfold sink_new, exists_ in En. rewrite Hout in En. inversion En; subst w0.
  rewrite H, E1. f_equal. apply clean_fold_noop. exact Ht.
Qed.

(* ===================================================================================================================
   PART C — tools about the coordinator loop
   =================================================================================================================== *)
(* ---- C1: a run all of whose tasks succeed: it ends with nothing in flight (VOk or a reported cycle) or out of fuel ---- *)
Section LoopNoErr.
Variable orc : oracle.
Variable cfg : config.
Variable base : path.
Variables files dirs : list path.
Variable J : gstate -> world -> Prop.
Hypothesis J_step : forall g w t rest r w' s2,
  greach files dirs g -> J g w -> Permutation (inflight (gs g)) (t :: rest) ->
  exec_task orc cfg base t w = Some (r, w') -> handle (with_inflight (gs g) rest) r = Continue s2 ->
  J (mkG s2 (report t r (reported g)) (history g ++ [t])) w'.
Hypothesis J_noerr : forall g w t r w',
  greach files dirs g -> J g w -> In t (inflight (gs g)) ->
  exec_task orc cfg base t w = Some (r, w') -> ~ is_err r.

Lemma run_loop_noerr fuel : forall sched g w tr,
  greach files dirs g -> J g w ->
  let x := run_loop orc cfg base fuel sched (gs g) w tr in
  exists g', greach files dirs g' /\ gs g' = state_of x /\ J g' (world_of x) /\
    ((inflight (gs g') = [] /\ verdict_of x = (if has_remaining (dm (gs g')) then VErr else VOk)) \/
     (inflight (gs g') <> [] /\ verdict_of x = VFuel /\ length (history g') = (length (history g) + fuel)%nat)).
Proof.
  induction fuel as [|fuel IH]; intros sched g w tr R HJ.
  - destruct (sort_tasks (inflight (gs g))) as [|t0 sl'] eqn:E.
    + rewrite (run_loop_exit _ _ _ _ _ _ _ _ E). cbn. exists g. split; [exact R|]. split; [reflexivity|].
      split; [exact HJ|]. left. split; [apply sort_tasks_nil; exact E|reflexivity].
    + rewrite (run_loop_nofuel _ _ _ _ _ _ _ _ _ E). cbn. exists g. split; [exact R|]. split; [reflexivity|].
      split; [exact HJ|]. right. split; [intros Hn; rewrite Hn in E; discriminate E|]. split; [reflexivity|lia].
  - destruct (sort_tasks (inflight (gs g))) as [|t0 sl'] eqn:E.
    + rewrite (run_loop_exit _ _ _ _ _ _ _ _ E). cbn. exists g. split; [exact R|]. split; [reflexivity|].
      split; [exact HJ|]. left. split; [apply sort_tasks_nil; exact E|reflexivity].
    + rewrite (run_loop_step _ _ _ _ _ _ _ _ _ _ E). cbv zeta.
      set (sl := t0 :: sl'). set (k := pick sched sl). set (t := nth k sl t0). set (rest := remove_nth k sl).
      assert (HP : Permutation (inflight (gs g)) (t :: rest)).
      { eapply perm_trans; [apply sort_tasks_perm|]. rewrite E. apply pick_split. apply pick_lt. }
      assert (Ht : In t (inflight (gs g))).
      { eapply Permutation_in; [apply Permutation_sym; exact HP|]. left. reflexivity. }
      destruct (exec_task_total orc cfg base t w) as [r [w' Hex]]. rewrite Hex.
      pose proof (exec_task_answers _ _ _ _ _ _ _ Hex) as Hans.
      pose proof (J_noerr g w t r w' R HJ Ht Hex) as Hne.
      destruct (handle (with_inflight (gs g) rest) r) as [s2| |] eqn:Hh.
      * set (g2 := mkG s2 (report t r (reported g)) (history g ++ [t])).
        assert (R2 : greach files dirs g2).
        { eapply greach_step; [exact R|]. apply (gstep_continue g t rest r s2); assumption. }
        assert (HJ2 : J g2 w') by (apply (J_step g w t rest r w' s2); assumption).
        destruct (IH (tl sched) g2 w' (tr ++ [(t, r)]) R2 HJ2) as (g' & R' & Es & HJ' & Hc).
        change (gs g2) with s2 in Es, Hc. exists g'. split; [exact R'|]. split; [exact Es|]. split; [exact HJ'|].
        destruct Hc as [Hc|(H1 & H2 & H3)]; [left; exact Hc|right].
        split; [exact H1|]. split; [exact H2|]. rewrite H3. cbn [g2 history]. rewrite app_length. cbn. lia.
      * exfalso. apply Hne. apply (handle_fail_is_err _ _ Hh).
      * exfalso. exact (handle_no_panic files dirs g R t rest r HP Hans Hh).
Qed.
End LoopNoErr.

(* ---- C2: what a Clean run processes: the inputs and what the directory scans find (a STATIC description, in the tree F) ---- *)
Section Reach.
Variable F : fs.
Variable rec : bool.
Variables files dirs : list path.

Inductive scanned_dir : path -> Prop :=
| sd_input d : In d dirs -> scanned_dir d
| sd_sub d fs ds d' : scanned_dir d -> scan_dir F d rec = Some (fs, ds) -> In d' ds -> scanned_dir d'.

Definition cleaned_file (f : path) : Prop :=
  In f files \/ exists d fs ds, scanned_dir d /\ scan_dir F d rec = Some (fs, ds) /\ In f fs.

(* a pair (files, directories) closed under scans *)
Definition scan_closed (S Dd : list path) : Prop :=
  forall d fs ds, In d Dd -> scan_dir F d rec = Some (fs, ds) -> incl fs S /\ incl ds Dd.

Lemma scanned_least S Dd : incl dirs Dd -> scan_closed S Dd -> forall d, scanned_dir d -> In d Dd.
Proof.
  intros Hd Hc d H. induction H as [d Hin|d fs ds d' _ IH Hs Hin]; [apply Hd; exact Hin|].
  apply (proj2 (Hc d fs ds IH Hs)). exact Hin.
Qed.
Lemma cleaned_least S Dd : incl files S -> incl dirs Dd -> scan_closed S Dd -> forall f, cleaned_file f -> In f S.
Proof.
  intros Hf Hd Hc f [H|(d & fs & ds & Hsd & Hs & Hin)]; [apply Hf; exact H|].
  apply (proj1 (Hc d fs ds (scanned_least S Dd Hd Hc d Hsd) Hs)). exact Hin.
Qed.

(* the coordinator side: every seen directory is being scanned or has had its entries added *)
Definition Cl (g : gstate) : Prop :=
  forall d, In d (seen_dirs (gs g)) ->
    In (TScan d) (inflight (gs g)) \/
    forall fs ds, scan_dir F d rec = Some (fs, ds) -> incl fs (seen (gs g)) /\ incl ds (seen_dirs (gs g)).

Lemma Cl_init : Cl (ginit files dirs).
Proof.
  intros d Hd. left. unfold ginit in *. cbn [gs] in *.
  apply seen_dirs_fold_dir_inv in Hd. rewrite seen_dirs_fold_file in Hd. destruct Hd as [[]|Hd].
  apply fold_dir_new; [exact Hd|]. rewrite seen_dirs_fold_file. intros [].
Qed.

Lemma Cl_step g t rest r s2 :
  greach files dirs g -> Cl g -> Permutation (inflight (gs g)) (t :: rest) -> answers t r ->
  handle (with_inflight (gs g) rest) r = Continue s2 ->
  (forall d, t = TScan d -> r = RScan (scan_dir F d rec)) ->
  Cl (mkG s2 (report t r (reported g)) (history g ++ [t])).
Proof.
  intros R HC HP Hans Hh Hscan.
  set (g2 := mkG s2 (report t r (reported g)) (history g ++ [t])).
  assert (Hstep : gstep g g2) by (apply (gstep_continue g t rest r s2); assumption).
  assert (Hrest : forall x, In x rest -> In x (inflight s2)).
  { intros x Hx. apply (handle_inflight_mono _ _ _ x Hh). exact Hx. }
  assert (Hsd : forall x, In x (seen_dirs (gs g)) -> In x (seen_dirs s2)).
  { intros x Hx. apply (handle_seen_dirs_mono _ _ _ x Hh). exact Hx. }
  intros d Hd. cbn [g2 gs] in *.
  destruct (pmem d (seen_dirs (gs g))) eqn:Eold.
  - apply pmem_In in Eold. destruct (HC d Eold) as [Hfl|Hcl].
    + assert (Hin : In (TScan d) (t :: rest)) by (eapply Permutation_in; [exact HP|exact Hfl]).
      destruct Hin as [Ht|Hin]; [|left; apply Hrest; exact Hin].
      subst t. right. intros fs ds Es. rewrite (Hscan d eq_refl), Es in Hh. cbn [handle] in Hh.
      inversion Hh; subst s2. split.
      * intros x Hx. apply seen_fold_dir. apply fold_first_all_seen. exact Hx.
      * intros x Hx. apply fold_dir_all_seen. exact Hx.
    + right. intros fs ds Es. destruct (Hcl fs ds Es) as [H1 H2]. split.
      * intros x Hx. apply (gstep_seen g g2 x Hstep). apply H1. exact Hx.
      * intros x Hx. apply Hsd. apply H2. exact Hx.
  - apply pmem_nIn in Eold. left.
    destruct (handle_cases _ _ _ Hh) as
      [[fs [ds [-> ->]]]|[[f' [m [rel [-> [Hnf ->]]]]]|[[f' [ds [m [-> [Had ->]]]]]|[f' [ds [m [-> [Had ->]]]]]]]].
    + apply seen_dirs_fold_dir_inv in Hd. rewrite seen_dirs_fold_file in Hd.
      destruct Hd as [Hd|Hd]; [contradiction|].
      apply fold_dir_new; [exact Hd|]. rewrite seen_dirs_fold_file. exact Eold.
    + rewrite seen_dirs_fold_file in Hd. contradiction.
    + rewrite seen_dirs_fold_file in Hd. contradiction.
    + rewrite seen_dirs_exec_file in Hd. contradiction.
Qed.

(* at exit the seen sets are closed under scans and contain the inputs *)
Lemma Cl_exit g : greach files dirs g -> Cl g -> inflight (gs g) = [] ->
  incl files (seen (gs g)) /\ incl dirs (seen_dirs (gs g)) /\ scan_closed (seen (gs g)) (seen_dirs (gs g)).
Proof.
  intros R HC Hfl. split; [|split].
  - intros f Hf. apply (greach_inputs_seen files dirs g R f Hf).
  - intros d Hd. apply (greach_dirs_seen files dirs g R d Hd).
  - intros d fs ds Hd Hs. destruct (HC d Hd) as [H|H]; [rewrite Hfl in H; destruct H|]. apply (H fs ds Hs).
Qed.

(* a run whose passes never report dependencies (a Clean run) sees nothing but the inputs and what the scans find, and
   never has a dependency edge *)
Definition Lim (g : gstate) : Prop :=
  (forall f, In f (seen (gs g)) -> cleaned_file f) /\ (forall d, In d (seen_dirs (gs g)) -> scanned_dir d) /\
  inn (dm (gs g)) = [].

Lemma Lim_init : Lim (ginit files dirs).
Proof.
  unfold Lim, ginit. cbn [gs]. split; [|split].
  - intros f Hin. rewrite seen_fold_dir_eq in Hin. apply seen_fold_file_inv in Hin.
    destruct Hin as [[]|[_ Hin]]. left. exact Hin.
  - intros d Hin. apply seen_dirs_fold_dir_inv in Hin. rewrite seen_dirs_fold_file in Hin.
    destruct Hin as [[]|Hin]. apply sd_input. exact Hin.
  - rewrite dm_fold_dir, dm_fold_file. reflexivity.
Qed.

Lemma Lim_step g t rest r s2 :
  greach files dirs g -> Lim g -> Permutation (inflight (gs g)) (t :: rest) ->
  handle (with_inflight (gs g) rest) r = Continue s2 ->
  match t with TScan d => r = RScan (scan_dir F d rec) | TPp f _ => r = RPp f (Some POk) end ->
  Lim (mkG s2 (report t r (reported g)) (history g ++ [t])).
Proof.
  intros R (L1 & L2 & L3) HP Hh Hr.
  assert (Ht : In t (inflight (gs g))).
  { eapply Permutation_in; [apply Permutation_sym; exact HP|]. left. reflexivity. }
  destruct (inv_reach _ _ _ R) as [HPi _]. pose proof (i_fl_seen HPi t Ht) as Hts.
  destruct (handle_seen _ _ _ Hh) as [Hs1 Hs2]. cbn [with_inflight seen seen_dirs] in Hs1, Hs2.
  unfold Lim. cbn [gs]. split; [|split].
  - intros x Hx. destruct (Hs1 x Hx) as [H|H]; [apply L1; exact H|].
    destruct t as [d|f b]; subst r; cbn [res_files] in H; [|destruct H].
    destruct (scan_dir F d rec) as [[fs ds]|] eqn:Es; [|destruct H].
    right. exists d, fs, ds. split; [apply L2; exact Hts|]. split; [exact Es|exact H].
  - intros x Hx. destruct (Hs2 x Hx) as [H|H]; [apply L2; exact H|].
    destruct t as [d|f b]; subst r; cbn [res_dirs] in H; [|destruct H].
    destruct (scan_dir F d rec) as [[fs ds]|] eqn:Es; [|destruct H].
    apply (sd_sub d fs ds x); [apply L2; exact Hts|exact Es|exact H].
  - destruct (handle_cases _ _ _ Hh) as
      [[fs [ds [-> ->]]]|[[f' [m [rel [-> [Hnf ->]]]]]|[[f' [ds [m [-> [Had ->]]]]]|[f' [ds [m [-> [Had ->]]]]]]]].
    + rewrite dm_fold_dir, dm_fold_file. exact L3.
    + rewrite dm_fold_file. cbn [set_dm dm]. cbn [with_inflight dm] in Hnf.
      unfold notify_finish in Hnf. rewrite L3 in Hnf. cbn [aget] in Hnf. inversion Hnf; subst m. reflexivity.
    + destruct t as [d|f b]; [discriminate Hr|]. inversion Hr.
    + destruct t as [d|f b]; [discriminate Hr|]. inversion Hr.
Qed.

Lemma Lim_no_remaining g : Lim g -> has_remaining (dm (gs g)) = false.
Proof. intros (_ & _ & L3). unfold has_remaining. rewrite L3. reflexivity. Qed.
End Reach.

(* ===================================================================================================================
   PART D — what a SUCCESSFUL Build pass (first or final) guarantees about its source: CleanVerifyFacts.build_items_inv
   for passes that start in any executing mode (a first pass that meets no dependency stays in PFirst)
   =================================================================================================================== *)
Section BuildOk.
Variable orc : oracle.
Variable src base : path.
Variable le : str.

Lemma exec_directive_build_x d s o s' : is_execute (pmode s) = true ->
  exec_directive orc Build src base le d s = XOut o s' -> is_execute (pmode s') = true ->
  CleanVerifyFacts.same_dirs (wld s) (wld s') /\
  (forall a rest, d_ty d = DTemp -> d_args d = a :: rest -> CleanVerifyFacts.temp_ok src (wld s) a).
Proof.
  intros Hx H Hx'. destruct (pmode s) eqn:Hp; [apply (exec_directive_build orc src base le d s o s' Hp H)| |discriminate].
  revert H. unfold exec_directive, collect_deps. rewrite Hp.
  assert (Inc : forall (k : xres),
            (match get_txtpp_file (w_fs (wld s)) (lex_join (work_dir src) (hd [] (d_args d))) with
             | Some x => match os_resolve (w_fs (wld s)) x with
                         | Some q => XOut None (set_pmode s (PCollect [q]))
                         | None => XErr KDirective (wld s)
                         end
             | None => k
             end) = XOut o s' -> k = XOut o s').
  { intros k. destruct (get_txtpp_file (w_fs (wld s)) (lex_join (work_dir src) (hd [] (d_args d)))) as [x|]; [|auto].
    destruct (os_resolve (w_fs (wld s)) x) as [q|]; [|discriminate].
    intros H. inversion H; subst s'. cbn in Hx'. discriminate. }
  destruct (d_ty d) eqn:Hty.
  - intros H. inversion H; subst. split; [apply same_dirs_refl|discriminate].
  - intros H.
    assert (H2 : match os_resolve (w_fs (wld s)) (lex_join (work_dir src) (hd [] (d_args d))) with
                 | Some q => match read_file (w_fs (wld s)) q with
                             | Some c => if utf8_valid c then XOut (Some c) s else XErr KDirective (wld s)
                             | None => XErr KDirective (wld s)
                             end
                 | None => XErr KDirective (wld s)
                 end = XOut o s').
    { apply Inc. destruct (get_txtpp_file (w_fs (wld s)) (lex_join (work_dir src) (hd [] (d_args d)))) as [x|];
        [destruct (os_resolve (w_fs (wld s)) x)|]; exact H. }
    destruct (os_resolve (w_fs (wld s)) (lex_join (work_dir src) (hd [] (d_args d)))) as [q|]; [|discriminate].
    destruct (read_file (w_fs (wld s)) q) as [c0|]; [|discriminate].
    destruct (utf8_valid c0); [|discriminate].
    inversion H2; subst. split; [apply same_dirs_refl|discriminate].
  - intros H.
    assert (H2 : XOut None s = XOut o s').
    { apply Inc. destruct (get_txtpp_file (w_fs (wld s)) (lex_join (work_dir src) (hd [] (d_args d)))) as [x|];
        [destruct (os_resolve (w_fs (wld s)) x)|]; exact H. }
    inversion H2; subst. split; [apply same_dirs_refl|discriminate].
  - destruct (orc (join [SPb] (d_args d)) (work_dir src) (input_display src base)); [|discriminate].
    intros H. inversion H; subst. split; [intros p; reflexivity|discriminate].
  - destruct (create (tg s) (hd [] (d_args d))); [|discriminate].
    intros H. inversion H; subst. split; [apply same_dirs_refl|discriminate].
  - destruct (exec_temp src le (d_args d) false (wld s)) as [w1|k] eqn:E; [|discriminate].
    intros H. inversion H; subst. cbn [wld set_wld].
    unfold exec_temp in E. destruct (d_args d) as [|a rest]; [discriminate|].
    destruct (is_txtpp_file (lex_components a)) eqn:Et; [discriminate|].
    split; [eapply write_temp_dirs; eauto|].
    intros a0 rest0 _ Ea. inversion Ea; subst a0 rest0. split; [exact Et|].
    exists (wld s). split; [apply same_dirs_refl|]. eapply write_temp_target; eauto.
  - intros H. inversion H; subst. split; [apply same_dirs_refl|discriminate].
Qed.

Lemma do_item_build_x it s s2 : is_execute (pmode s) = true ->
  do_item orc Build src base le it s = StOk s2 -> is_execute (pmode s2) = true ->
  CleanVerifyFacts.same_dirs (wld s) (wld s2) /\ it <> IBad /\
  (forall d fol a rest, it = IDir d fol -> d_ty d = DTemp -> d_args d = a :: rest ->
     CleanVerifyFacts.temp_ok src (wld s) a).
Proof.
  intros Hx. unfold do_item.
  destruct (item_output orc Build src base le it s) as [o s1|k w1|] eqn:Ei; try discriminate.
  intros He Hx2. pose proof (emit_dirs _ _ _ _ _ He) as D2. apply emit_pmode in He. destruct He as [Hp2 _].
  destruct it as [l|d fol| |]; cbn [item_output] in Ei; try discriminate.
  - assert (wld s1 = wld s) as Ew.
    { rewrite Hx in Ei. destruct (inject (tg s) l le) as [[l' t']|]; [|discriminate]. inversion Ei; reflexivity. }
    rewrite <- Ew. split; [exact D2|]. split; [discriminate|]. intros; discriminate.
  - destruct (exec_directive orc Build src base le d s) as [o1 s3|k w1] eqn:Ex; [|discriminate].
    assert (wld s1 = wld s3 /\ pmode s1 = pmode s3) as [Ew Ep].
    { destruct o1 as [raw|]; [destruct (try_store (tg s3) raw)|]; inversion Ei; split; reflexivity. }
    assert (Hx3 : is_execute (pmode s3) = true) by (rewrite <- Ep, <- Hp2; exact Hx2).
    destruct (exec_directive_build_x d s o1 s3 Hx Ex Hx3) as [D1 Ht].
    split; [eapply same_dirs_trans; [exact D1|rewrite <- Ew; exact D2]|].
    split; [discriminate|]. intros d0 fol0 a rest E. inversion E; subst. apply Ht.
Qed.

Lemma collecting_never_ok tn its : forall s ds w',
  pmode s = PCollect ds -> spec_out orc Build src base le tn its s <> PpOk w'.
Proof.
  induction its as [|it r IH]; intros s ds w' Hp.
  - rewrite spec_out_nil. unfold epilogue. rewrite Hp. discriminate.
  - rewrite spec_out_cons. destruct (do_item orc Build src base le it s) as [s2|k w1|] eqn:E; try discriminate.
    apply do_item_mode in E; [|discriminate]. rewrite Hp in E.
    assert (exists ds', pmode s2 = PCollect ds') as [ds' Hp2].
    { rewrite E. destruct it as [l|d fol| |]; cbn [next_mode]; try (eexists; reflexivity).
      unfold next_mode_d. destruct (dep_target (w_fs (wld s)) src d); eexists; reflexivity. }
    apply (IH s2 ds' w' Hp2).
Qed.

Lemma build_items_inv_x tn its : forall s w', is_execute (pmode s) = true ->
  spec_out orc Build src base le tn its s = PpOk w' ->
  CleanVerifyFacts.same_dirs (wld s) w' /\ ~ In IBad its /\
  (forall d fol a rest, In (IDir d fol) its -> d_ty d = DTemp -> d_args d = a :: rest ->
     CleanVerifyFacts.temp_ok src (wld s) a).
Proof.
  induction its as [|it r IH]; intros s w' Hx.
  - rewrite spec_out_nil. intros H. split; [eapply epilogue_dirs; eauto|]. split; [intros []|intros d fol a rest []].
  - rewrite spec_out_cons. destruct (do_item orc Build src base le it s) as [s2|k w1|] eqn:E; try discriminate.
    intros H.
    assert (Hx2 : is_execute (pmode s2) = true).
    { destruct (pmode s2) eqn:Hp2; try reflexivity. exfalso. exact (collecting_never_ok tn r s2 _ w' Hp2 H). }
    destruct (do_item_build_x it s s2 Hx E Hx2) as (D1 & Hnb & Ht).
    destruct (IH s2 w' Hx2 H) as (D2 & Hb & Ht2).
    split; [eapply same_dirs_trans; eauto|]. split.
    + intros [Hi|Hi]; [apply Hnb; exact Hi|apply Hb; exact Hi].
    + intros d fol a rest [Hi|Hi] Hty Ha.
      * eapply Ht; eauto.
      * eapply CleanVerifyFacts.temp_ok_dirs; [apply same_dirs_sym; exact D1|]. eapply Ht2; eauto.
Qed.
End BuildOk.

(* the facts about a source that a successful Build pass over it establishes *)
Definition good_src (w : world) (f : path) : Prop :=
  exists out raw, remove_txtpp f = Some out /\ is_txtpp_file out = false /\ read_file (w_fs w) f = Some raw /\
    snd (take_valid (lines raw)) = false /\ ~ In IBad (items_of' Build raw) /\
    forall a, In a (temp_args (items_of' Build raw)) -> CleanVerifyFacts.temp_ok f w a.

Lemma build_pass_ok_facts orc base f b tn w w' :
  pp_run orc Build base f b tn w = PpOk w' -> good_src w f.
Proof.
  rewrite pp_run_unfold. destruct (read_file (w_fs w) f) as [raw|] eqn:Er; [|discriminate].
  destruct (remove_txtpp f) as [out|] eqn:Ho; [|discriminate].
  destruct (is_txtpp_file out) eqn:Eto; [discriminate|].
  unfold sink_new. destruct (w_write w out []) as [wa|] eqn:Ea; [|discriminate].
  intros H. apply pp_rest_ok_iff in H. destruct H as [Hbad Hs].
  apply build_items_inv_x in Hs; [|destruct b; reflexivity]. cbn [wld] in Hs. destruct Hs as (_ & Hnb & Hok).
  exists out, raw. split; [exact Ho|]. split; [exact Eto|]. split; [exact Er|]. split; [exact Hbad|].
  split; [exact Hnb|]. intros a Hin.
  destruct (temp_args_in _ _ Hin) as (d & fol & rest & Hi & Hty & Ha).
  eapply CleanVerifyFacts.temp_ok_dirs; [apply same_dirs_sym; eapply w_write_dirs; exact Ea|].
  eapply Hok; eauto.
Qed.

Lemma good_src_transfer w w' f :
  fs_get (w_fs w') f = fs_get (w_fs w) f -> (forall p, is_dir (w_fs w) p = is_dir (w_fs w') p) ->
  good_src w f -> good_src w' f.
Proof.
  intros Hf Hd (out & raw & Ho & Eto & Er & Hbad & Hnb & Hok).
  exists out, raw. split; [exact Ho|]. split; [exact Eto|]. split; [unfold read_file in *; rewrite Hf; exact Er|].
  split; [exact Hbad|]. split; [exact Hnb|]. intros a Ha.
  eapply CleanVerifyFacts.temp_ok_dirs; [|apply Hok; exact Ha]. exact Hd.
Qed.

(* ===================================================================================================================
   PART E — the Build run (hypotheses of ScheduleTempFacts: raw_ok, sched_ok_temps), when every dependency of a file
   that Clean processes is itself processed by Clean: what is known at a successful exit
   =================================================================================================================== *)
Section BuildSide.
Variable orc : oracle.
Variable cfg : config.
Variable base : path.
Hypothesis Hmd : cfg_mode cfg = Build.
Variable w0 : world.
Hypothesis HS : sched_ok_temps w0.
Hypothesis N : raw_ok w0.
Variables files dirs : list path.

Local Notation cleanedf := (cleaned_file (w_fs w0) (cfg_recursive cfg) files dirs).
Local Notation scannedd := (scanned_dir (w_fs w0) (cfg_recursive cfg) dirs).
Hypothesis Hcov : forall f, cleanedf f -> forall q, In q (sdeps w0 f) -> cleanedf q.

Definition GoodQ (f out : path) (w : world) : Prop := good_src w0 f.
Definition LimB (g : gstate) : Prop :=
  (forall f, In f (seen (gs g)) -> cleanedf f) /\ (forall d, In d (seen_dirs (gs g)) -> scannedd d).
Definition JB (g : gstate) (w : world) : Prop := JQT w0 GoodQ g w /\ JCT cfg w0 g w /\ LimB g.

Lemma JB_init : JB (ginit files dirs) w0.
Proof.
  split; [apply JQT_init|]. split; [apply JCT_init; exact N|].
  destruct (Lim_init (w_fs w0) (cfg_recursive cfg) files dirs) as (L1 & L2 & _). split; assumption.
Qed.

Lemma JB_step g w t rest r w' s2 :
  greach files dirs g -> JB g w -> Permutation (inflight (gs g)) (t :: rest) ->
  exec_task orc cfg base t w = Some (r, w') -> handle (with_inflight (gs g) rest) r = Continue s2 ->
  JB (mkG s2 (report t r (reported g)) (history g ++ [t])) w'.
Proof.
  intros R (HQ & HC & (L1 & L2)) HP Hex Hh.
  assert (HQ2 : JQT w0 GoodQ (mkG s2 (report t r (reported g)) (history g ++ [t])) w').
  { apply (JQT_step orc cfg base Hmd w0 HS files dirs GoodQ) with (g := g) (w := w) (rest := rest); try assumption.
    - intros g0 w1 f out h b _ _ _ _ _ H. exact H.
    - intros g0 w1 f out w'' _ HB [Ho _] _ _ E. unfold GoodQ. apply build_pass_ok_facts in E.
      destruct HB as ((A1 & A2) & _).
      apply (good_src_transfer w1 w0 f); [|intros p; symmetry; apply A2|exact E].
      apply A1. apply nt_false. eapply remove_txtpp_is_txtpp; eauto. }
  split; [exact HQ2|].
  split; [apply (JCT_step orc cfg base Hmd w0 HS files dirs g w t rest r w' s2); assumption|].
  assert (Ht : In t (inflight (gs g))).
  { eapply Permutation_in; [apply Permutation_sym; exact HP|]. left. reflexivity. }
  destruct (inv_reach _ _ _ R) as [HPi _]. pose proof (i_fl_seen HPi t Ht) as Hts.
  pose proof (exec_task_answers _ _ _ _ _ _ _ Hex) as Hans.
  destruct (handle_seen _ _ _ Hh) as [Hs1 Hs2]. cbn [with_inflight seen seen_dirs] in Hs1, Hs2.
  destruct HC as ((HB & _) & HSc & _). pose proof (proj1 HB) as A.
  unfold LimB. cbn [gs]. split.
  - intros x Hx. destruct (Hs1 x Hx) as [H|H]; [apply L1; exact H|].
    destruct t as [d|f b].
    + cbn [exec_task] in Hex. inversion Hex; subst r w'. rewrite (Scan_scan cfg w0 w d A HSc) in H.
      cbn [res_files] in H. destruct (scan_dir (w_fs w0) d (cfg_recursive cfg)) as [[fs ds]|] eqn:Es; [|destruct H].
      right. exists d, fs, ds. split; [apply L2; exact Hts|]. split; [exact Es|exact H].
    + destruct r as [sr|f' res]; [destruct Hans|]. destruct Hans as [-> Hfin].
      destruct res as [[|ds]|]; cbn [res_files] in H; try destruct H.
      assert (b = true) as -> by (destruct b; [reflexivity|]; exfalso; apply (Hfin eq_refl ds); reflexivity).
      destruct HQ2 as [(_ & _ & _ & G1 & _) _]. cbn [reported report] in G1.
      destruct (G1 f ds (or_introl eq_refl)) as [-> _].
      apply (Hcov f); [apply L1; exact Hts|exact H].
  - intros x Hx. destruct (Hs2 x Hx) as [H|H]; [apply L2; exact H|].
    destruct t as [d|f b].
    + cbn [exec_task] in Hex. inversion Hex; subst r w'. rewrite (Scan_scan cfg w0 w d A HSc) in H.
      cbn [res_dirs] in H. destruct (scan_dir (w_fs w0) d (cfg_recursive cfg)) as [[fs ds]|] eqn:Es; [|destruct H].
      apply (sd_sub _ _ _ d fs ds x); [apply L2; exact Hts|exact Es|exact H].
    + destruct r as [sr|f' res]; [destruct Hans|]. cbn [res_dirs] in H. destruct H.
Qed.

(* what a successful Build run leaves behind *)
Lemma build_exit fuel sched :
  let x := run_loop orc cfg base fuel sched (gs (ginit files dirs)) w0 [] in
  verdict_of x = VOk ->
  agree nt (w_fs w0) (w_fs (world_of x)) /\ raw_ok (world_of x) /\
  scanpart (w_fs (world_of x)) = scanpart (w_fs w0) /\
  (forall p, ~ In p (foots w0) -> fs_get (w_fs (world_of x)) p = fs_get (w_fs w0) p) /\
  (forall f, cleanedf f -> exists out, is_source w0 f out /\ good_src w0 f) /\
  (forall p, fs_get (w_fs (world_of x)) p = fs_get (w_fs w0) p \/ exists f, cleanedf f /\ In p (fp w0 f)).
Proof.
  intros x Hv.
  destruct (run_loop_inv_g orc cfg base files dirs JB JB_step fuel sched (ginit files dirs) w0 []
              (greach_init files dirs) JB_init Hv) as (g & R & Es & Hfl & Hfin & (HQ & HC & (L1 & L2))).
  fold x in Es. destruct HQ as [HB HG]. destruct HB as (A & B2 & B3 & _ & _ & G3).
  destruct HC as (_ & (N1 & S1) & HC1).
  split; [exact A|]. split; [exact N1|]. split; [exact S1|]. split; [exact B2|].
  destruct (Cl_exit (w_fs w0) (cfg_recursive cfg) files dirs g R HC1 Hfl) as (If & Id & Icl).
  split.
  - intros f Hf.
    assert (Hs : In f (seen (gs g))) by (apply (cleaned_least _ _ _ _ _ _ If Id Icl f Hf)).
    assert (Hff : finished g f) by (apply Hfin; unfold is_seen; apply pmem_In; exact Hs).
    destruct (G3 f Hff) as [out Hsrc]. exists out. split; [exact Hsrc|]. apply (HG f out Hff Hsrc).
  - intros p. destruct (in_paths_dec (foots w0) p) as [Hin|Hn]; [|left; apply B2; exact Hn].
    destruct (in_foots w0 p Hin) as (f & out & Hsrc & Hp).
    destruct (pmem f (seen (gs g))) eqn:Ef.
    + right. exists f. split; [apply L1; apply pmem_In; exact Ef|exact Hp].
    + left. apply (B3 f out Hsrc); [apply pmem_nIn; exact Ef|exact Hp].
Qed.
End BuildSide.

(* ===================================================================================================================
   PART F — the Clean run that follows: its invariant, from what PART E established
   =================================================================================================================== *)
Lemma scanned_dir_is_dir F rec dirs : NoDup (map fst F) -> (forall d, In d dirs -> is_dir F d = true) ->
  forall d, scanned_dir F rec dirs d -> is_dir F d = true.
Proof.
  intros ND Hd d H. induction H as [d Hin|d fs ds d' _ IH Hs Hin]; [apply Hd; exact Hin|].
  unfold scan_dir in Hs. rewrite IH in Hs. inversion Hs; subst fs ds. clear Hs.
  apply in_flat_map in Hin. destruct Hin as ([n nd] & Hc & Hin). cbn [fst snd] in Hin.
  destruct nd as [c|]; [destruct Hin|]. destruct rec; [|destruct Hin]. destruct Hin as [<-|[]].
  apply children_in in Hc. unfold is_dir. rewrite (in_nodup_fs_get F (d ++ [n]) Dir ND); [reflexivity| |exact Hc].
  intros E. destruct d; discriminate.
Qed.

Lemma resolve_inputs_dirs F base inputs : forall files dirs files' dirs',
  resolve_inputs F base inputs files dirs = Some (files', dirs') ->
  (forall d, In d dirs -> is_dir F d = true) -> forall d, In d dirs' -> is_dir F d = true.
Proof.
  induction inputs as [|i r IH]; intros files dirs files' dirs' H Hd.
  - cbn in H. inversion H; subst. exact Hd.
  - cbn [resolve_inputs] in H. cbv zeta in H.
    destruct (lex_is_dir F (lex_join base i)) eqn:El.
    + destruct (os_resolve F (lex_join base i)) as [d0|] eqn:Er; [|discriminate].
      apply (IH _ _ _ _ H). intros d Hin. apply in_app_or in Hin. destruct Hin as [Hin|[<-|[]]]; [apply Hd; exact Hin|].
      unfold lex_is_dir in El. rewrite Er in El. exact El.
    + destruct (negb (is_txtpp_file (lex_join base i))).
      * destruct (get_txtpp_file F (lex_join base i)) as [x|]; [|discriminate].
        destruct (os_resolve F x); [|discriminate]. apply (IH _ _ _ _ H). exact Hd.
      * destruct (os_resolve F (lex_join base i)); [|discriminate]. apply (IH _ _ _ _ H). exact Hd.
Qed.

Section CleanSide.
Variable orc : oracle.
Variable cfgc : config.
Variable base : path.
Hypothesis Hmc : cfg_mode cfgc = Clean.
Variables w0 w1 : world.
Variables files dirs : list path.

Local Notation cleanedf := (cleaned_file (w_fs w0) (cfg_recursive cfgc) files dirs).
Local Notation scannedd := (scanned_dir (w_fs w0) (cfg_recursive cfgc) dirs).

Hypothesis N0 : raw_ok w0.
Hypothesis HA : agree nt (w_fs w0) (w_fs w1).
Hypothesis N1 : raw_ok w1.
Hypothesis S1 : scanpart (w_fs w1) = scanpart (w_fs w0).
Hypothesis Hgood : forall f, cleanedf f -> exists out, is_source w0 f out /\ good_src w0 f.
Hypothesis Hfr : forall p, fs_get (w_fs w1) p = fs_get (w_fs w0) p \/ exists f, cleanedf f /\ In p (writes_of Build w0 f).
Hypothesis Habs : forall f, cleanedf f -> forall p, In p (writes_of Build w0 f) -> fs_get (w_fs w0) p = None.
Hypothesis Hplain : forall f, cleanedf f -> forall p, In p (writes_of Build w0 f) -> is_txtpp_file p = false.
Hypothesis Hcanon : forall f out, cleanedf f -> remove_txtpp f = Some out -> lex_normalize out = out.
Hypothesis Hdirs : forall d, In d dirs -> is_dir (w_fs w0) d = true.

(* every path is as the build left it, or has been removed and did not exist before the build *)
Definition Pc (wc : world) : Prop :=
  forall p, fs_get (w_fs wc) p = fs_get (w_fs w1) p \/ (fs_get (w_fs wc) p = None /\ fs_get (w_fs w0) p = None).

Lemma Pc_txtpp wc q : Pc wc -> is_txtpp_file q = true -> fs_get (w_fs wc) q = fs_get (w_fs w0) q.
Proof.
  intros HP Hq. destruct (HP q) as [E|[E1 E2]]; [|congruence].
  rewrite E. symmetry. apply (proj1 HA). apply nt_false. exact Hq.
Qed.
Lemma Pc_dirs wc p : Pc wc -> is_dir (w_fs wc) p = is_dir (w_fs w0) p.
Proof.
  intros HP. destruct (HP p) as [E|[E1 E2]].
  - rewrite (proj2 HA p). unfold is_dir. rewrite E. reflexivity.
  - unfold is_dir. rewrite E1, E2. reflexivity.
Qed.

Lemma good_items f out raw :
  remove_txtpp f = Some out -> read_file (w_fs w0) f = Some raw -> ~ In IBad (items_of' Build raw) ->
  forall wc, read_file (w_fs wc) f = Some raw ->
  items_of' Clean raw = items_of' Build raw /\ writes_of Clean wc f = writes_of Build w0 f.
Proof.
  intros Ho Er Hnb wc Erc.
  assert (Ei : items_of' Clean raw = items_of' Build raw).
  { unfold items_of'. cbn [mode_eqb]. apply parse_clean_eq_build. exact Hnb. }
  split; [exact Ei|]. unfold writes_of. rewrite Ho. unfold items_of. rewrite Er, Erc.
  change (parse (mode_eqb Clean Clean) None (fst (take_valid (lines raw)))) with (items_of' Clean raw).
  change (parse (mode_eqb Build Clean) None (fst (take_valid (lines raw)))) with (items_of' Build raw).
  rewrite Ei. reflexivity.
Qed.

(* one Clean pass over a file that Clean processes, in a world of the invariant *)
Lemma clean_task_in wc f b : Pc wc -> raw_ok wc -> cleanedf f ->
  exists wc', pp_run orc Clean base f b (cfg_trailing cfgc) wc = PpOk wc' /\
    Pc wc' /\ raw_ok wc' /\ scanpart (w_fs wc') = scanpart (w_fs wc) /\ shr wc wc' /\ cleaned_src f wc' /\
    (forall q, is_txtpp_file q = true -> fs_get (w_fs wc') q = fs_get (w_fs wc) q).
Proof.
  intros HP Nc Hf.
  destruct (Hgood f Hf) as (out & [Ho _] & (out' & raw & Ho' & Eto & Er & Hbad & Hnb & _)).
  rewrite Ho in Ho'. inversion Ho'; subst out'. clear Ho'.
  assert (Hft : is_txtpp_file f = true) by (eapply remove_txtpp_is_txtpp; eauto).
  assert (Erc : read_file (w_fs wc) f = Some raw) by (unfold read_file in *; rewrite (Pc_txtpp wc f HP Hft); exact Er).
  assert (Hout : In out (writes_of Build w0 f)) by (unfold writes_of; rewrite Ho; right; left; reflexivity).
  assert (Hd : is_dir (w_fs wc) out = false).
  { rewrite (Pc_dirs wc out HP). unfold is_dir. rewrite (Habs f Hf out Hout). reflexivity. }
  destruct (clean_pass_total orc base f b (cfg_trailing cfgc) wc raw out Erc Ho Eto Hd Hbad) as [wc' H].
  destruct (good_items f out raw Ho Er Hnb wc Erc) as [_ Ew].
  assert (Fr : forall p, ~ In p (writes_of Build w0 f) -> fs_get (w_fs wc') p = fs_get (w_fs wc) p).
  { intros p Hp. pose proof (pass_footprint orc Clean base f b (cfg_trailing cfgc) wc p) as X.
    rewrite H, Ew in X. apply X. exact Hp. }
  pose proof (clean_pass_shr orc base f b (cfg_trailing cfgc) wc wc' out Ho H) as Sh.
  assert (Tx : forall q, is_txtpp_file q = true -> fs_get (w_fs wc') q = fs_get (w_fs wc) q).
  { intros q Hq. apply Fr. intros Hin. rewrite (Hplain f Hf q Hin) in Hq. discriminate. }
  exists wc'. split; [exact H|]. split; [|split; [|split; [|split; [exact Sh|split; [|exact Tx]]]]].
  - intros p. destruct (in_paths_dec (writes_of Build w0 f) p) as [Hin|Hn].
    + destruct (proj1 Sh p) as [E|E]; [rewrite E; apply HP|]. right. split; [exact E|apply (Habs f Hf p Hin)].
    + rewrite (Fr p Hn). apply HP.
  - pose proof (pp_run_scan orc Clean base f b (cfg_trailing cfgc) wc Nc) as X. rewrite H in X. apply X.
    rewrite Ew. apply (Hplain f Hf).
  - pose proof (pp_run_scan orc Clean base f b (cfg_trailing cfgc) wc Nc) as X. rewrite H in X. apply X.
    rewrite Ew. apply (Hplain f Hf).
  - apply (clean_pass_cleaned orc base f b (cfg_trailing cfgc) wc wc' out Ho); [|exact H].
    unfold read_file. rewrite (Tx f Hft). reflexivity.
Qed.

Definition Jc (g : gstate) (wc : world) : Prop :=
  Pc wc /\ raw_ok wc /\ scanpart (w_fs wc) = scanpart (w_fs w0) /\
  Cl (w_fs w0) (cfg_recursive cfgc) g /\ Lim (w_fs w0) (cfg_recursive cfgc) files dirs g /\
  (forall f, finished g f -> cleaned_src f wc).

Lemma Jc_init : Jc (ginit files dirs) w1.
Proof.
  split; [intros p; left; reflexivity|]. split; [exact N1|]. split; [exact S1|].
  split; [apply Cl_init|]. split; [apply Lim_init|].
  intros f Hf. unfold finished, ginit in Hf. cbn [gs] in Hf. rewrite dm_fold_dir, dm_fold_file in Hf. discriminate.
Qed.

Lemma Jc_scan wc d : Pc wc -> scanpart (w_fs wc) = scanpart (w_fs w0) ->
  scan_dir (w_fs wc) d (cfg_recursive cfgc) = scan_dir (w_fs w0) d (cfg_recursive cfgc).
Proof. intros HP HSc. apply scan_dir_ext; [exact HSc|apply Pc_dirs; exact HP]. Qed.

(* what a task of the Clean run answers *)
Lemma Jc_task g wc t r wc' :
  greach files dirs g -> Jc g wc -> In t (inflight (gs g)) -> exec_task orc cfgc base t wc = Some (r, wc') ->
  match t with
  | TScan d => r = RScan (scan_dir (w_fs w0) d (cfg_recursive cfgc)) /\ wc' = wc /\
               scan_dir (w_fs w0) d (cfg_recursive cfgc) <> None
  | TPp f b => r = RPp f (Some POk) /\ pp_run orc Clean base f b (cfg_trailing cfgc) wc = PpOk wc' /\ cleanedf f
  end.
Proof.
  intros R (HP & Nc & HSc & HCl & (L1 & L2 & L3) & HF) Ht Hex.
  destruct (inv_reach _ _ _ R) as [HPi _]. pose proof (i_fl_seen HPi t Ht) as Hts.
  destruct t as [d|f b]; cbn [tseen] in Hts.
  - cbn [exec_task] in Hex. inversion Hex; subst r wc'. rewrite (Jc_scan wc d HP HSc).
    split; [reflexivity|]. split; [reflexivity|].
    unfold scan_dir. rewrite (scanned_dir_is_dir _ _ _ N0 Hdirs d (L2 d Hts)). discriminate.
  - destruct (clean_task_in wc f b HP Nc (L1 f Hts)) as (wc2 & H & _).
    rewrite exec_task_pp in Hex. rewrite Hmc in Hex. cbv zeta in Hex. rewrite H in Hex. cbn in Hex.
    inversion Hex; subst r wc'. split; [reflexivity|]. split; [exact H|apply L1; exact Hts].
Qed.

Lemma Jc_noerr g wc t r wc' :
  greach files dirs g -> Jc g wc -> In t (inflight (gs g)) -> exec_task orc cfgc base t wc = Some (r, wc') -> ~ is_err r.
Proof.
  intros R HJ Ht Hex. pose proof (Jc_task g wc t r wc' R HJ Ht Hex) as X. destruct t as [d|f b].
  - destruct X as (-> & _ & Hn). destruct (scan_dir (w_fs w0) d (cfg_recursive cfgc)) as [[fs ds]|]; [intros []|congruence].
  - destruct X as (-> & _). intros [].
Qed.

Lemma Jc_step g wc t rest r wc' s2 :
  greach files dirs g -> Jc g wc -> Permutation (inflight (gs g)) (t :: rest) ->
  exec_task orc cfgc base t wc = Some (r, wc') -> handle (with_inflight (gs g) rest) r = Continue s2 ->
  Jc (mkG s2 (report t r (reported g)) (history g ++ [t])) wc'.
Proof.
  intros R HJ HP Hex Hh.
  assert (Ht : In t (inflight (gs g))).
  { eapply Permutation_in; [apply Permutation_sym; exact HP|]. left. reflexivity. }
  pose proof (Jc_task g wc t r wc' R HJ Ht Hex) as X.
  pose proof (exec_task_answers _ _ _ _ _ _ _ Hex) as Hans.
  destruct HJ as (HPc & Nc & HSc & HCl & HL & HF).
  destruct (inv_reach _ _ _ R) as [HPi _].
  assert (Hfin2 : forall f, finished (mkG s2 (report t r (reported g)) (history g ++ [t])) f ->
                            finished g f \/ r = RPp f (Some POk)).
  { intros f Hf. unfold finished in *. cbn [gs] in Hf. apply pmem_In in Hf.
    destruct (handle_fin (with_inflight (gs g) rest) r s2 f (i_dm HPi) Hh Hf) as [H|H]; [left; apply pmem_In; exact H|right; exact H]. }
  assert (HCl2 : Cl (w_fs w0) (cfg_recursive cfgc) (mkG s2 (report t r (reported g)) (history g ++ [t]))).
  { apply (Cl_step (w_fs w0) (cfg_recursive cfgc) files dirs g t rest r s2 R HCl HP Hans Hh).
    intros d ->. apply X. }
  assert (HL2 : Lim (w_fs w0) (cfg_recursive cfgc) files dirs (mkG s2 (report t r (reported g)) (history g ++ [t]))).
  { apply (Lim_step (w_fs w0) (cfg_recursive cfgc) files dirs g t rest r s2 R HL HP Hh).
    destruct t as [d|f b]; apply X. }
  destruct t as [d|f b].
  - destruct X as (-> & -> & _).
    split; [exact HPc|]. split; [exact Nc|]. split; [exact HSc|]. split; [exact HCl2|]. split; [exact HL2|].
    intros f Hf. destruct (Hfin2 f Hf) as [H|H]; [apply HF; exact H|].
    destruct (scan_dir (w_fs w0) d (cfg_recursive cfgc)); discriminate.
  - destruct X as (-> & H & Hcf).
    destruct (clean_task_in wc f b HPc Nc Hcf) as (wc2 & H2 & P2 & N2 & Sc2 & Sh2 & Cs2 & Tx2).
    rewrite H in H2. inversion H2; subst wc2. clear H2.
    split; [exact P2|]. split; [exact N2|]. split; [rewrite Sc2; exact HSc|]. split; [exact HCl2|]. split; [exact HL2|].
    intros h Hh2. destruct (Hfin2 h Hh2) as [Hfh|E].
    + apply (cleaned_src_shr h wc wc' (HF h Hfh) Sh2).
      destruct (HF h Hfh) as (outh & _ & Hoh & _). unfold read_file. rewrite Tx2; [reflexivity|].
      eapply remove_txtpp_is_txtpp; eauto.
    + inversion E; subst h. exact Cs2.
Qed.

(* the Clean run: it cannot fail; when it has enough fuel it ends with VOk in a tree equal to the one before the build *)
Lemma clean_side fuel sched :
  let x := run_loop orc cfgc base fuel sched (gs (ginit files dirs)) w1 [] in
  (verdict_of x = VOk \/ verdict_of x = VFuel) /\
  (verdict_of x = VOk -> w_eq (world_of x) w0) /\
  ((fuel > 2 * length (src_files (w_fs w0)) + length (dir_entries (w_fs w0)))%nat -> verdict_of x = VOk).
Proof.
  intros x.
  destruct (run_loop_noerr orc cfgc base files dirs Jc Jc_step Jc_noerr fuel sched (ginit files dirs) w1 []
              (greach_init files dirs) Jc_init) as (g & R & Es & HJ & Hc).
  fold x in Es, HJ, Hc. destruct HJ as (HPc & Nc & HSc & HCl & HL & HF).
  pose proof (Lim_no_remaining _ _ _ _ g HL) as Hrem.
  split; [|split].
  - destruct Hc as [[_ Hv]|(_ & Hv & _)]; [left; rewrite Hv, Hrem; reflexivity|right; exact Hv].
  - intros Hv. destruct Hc as [[Hfl _]|(_ & Hv2 & _)]; [|congruence].
    assert (Hfin : forall f, In f (seen (gs g)) -> finished g f).
    { intros f Hs. unfold finished. destruct (pmem f (fin (dm (gs g)))) eqn:Ef; [reflexivity|].
      assert (Ht' : has_remaining (dm (gs g)) = true).
      { apply (cycle_verdict_iff files dirs g R Hfl). exists f. split; [unfold is_seen; apply pmem_In; exact Hs|].
        unfold finished. rewrite Ef. discriminate. }
      congruence. }
    destruct (Cl_exit _ _ files dirs g R HCl Hfl) as (If & Id & Icl).
    intros p. destruct (HPc p) as [E|[E1 E2]]; [|congruence].
    rewrite E. destruct (Hfr p) as [E1|(f & Hf & Hp)]; [exact E1|].
    rewrite (Habs f Hf p Hp). rewrite <- E.
    (* p is in the footprint of a file that Clean has processed *)
    assert (Hs : In f (seen (gs g))) by (apply (cleaned_least _ _ _ _ _ _ If Id Icl f Hf)).
    destruct (HF f (Hfin f Hs)) as (out & raw & Ho & _ & Erc & _ & Hout & Hclr).
    destruct (Hgood f Hf) as (out' & _ & (out'' & raw' & Ho'' & _ & Er & _ & Hnb & Hok)).
    rewrite Ho in Ho''. inversion Ho''; subst out''. clear Ho''.
    assert (Hft : is_txtpp_file f = true) by (eapply remove_txtpp_is_txtpp; eauto).
    assert (raw' = raw).
    { unfold read_file in Erc, Er. rewrite (Pc_txtpp _ f HPc Hft), Er in Erc. inversion Erc. reflexivity. }
    subst raw'. destruct (good_items f out raw Ho Er Hnb _ Erc) as [Ei _].
    unfold writes_of in Hp. rewrite Ho in Hp. unfold items_of in Hp. rewrite Er in Hp.
    change (parse (mode_eqb Build Clean) None (fst (take_valid (lines raw)))) with (items_of' Build raw) in Hp.
    destruct Hp as [Hp|[Hp|Hp]].
    + rewrite <- Hp, (Hcanon f out Hf Ho). exact Hout.
    + rewrite <- Hp. exact Hout.
    + apply in_map_iff in Hp. destruct Hp as (a & <- & Ha).
      fold (tlex f a).
      destruct (fs_get (w_fs (world_of x)) (lex_normalize (tlex f a))) as [[c|]|] eqn:G; [exfalso| |reflexivity].
      * assert (Ef : is_file (w_fs (world_of x)) (lex_normalize (tlex f a)) = true) by (unfold is_file; rewrite G; reflexivity).
        assert (Hok' : CleanVerifyFacts.temp_ok f (world_of x) a).
        { eapply CleanVerifyFacts.temp_ok_dirs; [|apply Hok; exact Ha]. intros q. symmetry. apply Pc_dirs. exact HPc. }
        pose proof (temp_ok_resolves f _ a Hok' Ef) as Rs.
        rewrite <- Ei in Ha. rewrite (Hclr a Ha (proj1 Hok') Rs) in Ef. discriminate.
      * exfalso. assert (Hd : is_dir (w_fs (world_of x)) (lex_normalize (tlex f a)) = true) by (unfold is_dir; rewrite G; reflexivity).
        rewrite (Pc_dirs _ _ HPc) in Hd. unfold is_dir in Hd.
        rewrite (Habs f Hf (lex_normalize (tlex f a))) in Hd; [discriminate|].
        unfold writes_of. rewrite Ho. right. right. unfold items_of. rewrite Er.
        apply (in_map (fun a0 => lex_normalize (lex_join (parent f) a0))). exact Ha.
  - intros Hfuel. destruct Hc as [[_ Hv]|(Hfl & _ & Hlen)]; [rewrite Hv, Hrem; reflexivity|exfalso].
    destruct HL as (L1 & L2 & _).
    assert (I1 : incl (seen (gs g)) (src_files (w_fs w0))).
    { intros f Hs. destruct (Hgood f (L1 f Hs)) as (out & [Ho [raw Er]] & _).
      unfold read_file in Er. destruct (fs_get (w_fs w0) f) as [[c|]|] eqn:G; try discriminate.
      apply (in_src_files _ f c); [|eapply remove_txtpp_is_txtpp; eauto].
      apply fs_get_in; [|exact G]. intros ->. rewrite fs_get_nil_root in G. discriminate. }
    assert (I2 : incl (seen_dirs (gs g)) (dir_entries (w_fs w0))).
    { intros d Hs. pose proof (scanned_dir_is_dir _ _ _ N0 Hdirs d (L2 d Hs)) as Hd.
      destruct d as [|c d']; [left; reflexivity|]. apply in_dir_entries. apply fs_get_in; [discriminate|].
      apply is_dir_get. exact Hd. }
    pose proof (history_lt_bound files dirs g _ _ R I1 I2 Hfl) as HB.
    rewrite Hlen in HB. unfold ginit in HB. cbn [history length] in HB. unfold file in *. lia.
Qed.
End CleanSide.

(* ===================================================================================================================
   U1 — clean after a successful build restores the tree
   =================================================================================================================== *)
(* the resolved inputs of a run from w: the input files and the input directories *)
Definition run_inputs (cfg : config) (w : world) : option (list path * list path) :=
  match os_resolve (w_fs w) (cfg_base cfg) with
  | Some b => resolve_inputs (w_fs w) b (cfg_inputs cfg) [] []
  | None => None
  end.
(* `cleaned cfg w f`: f is one of the files that a Clean run from w processes: an input file, or a `.txtpp` file found by
   scanning an input directory (and, with -r, its sub-directories) — Clean does not follow dependencies *)
Definition cleaned (cfg : config) (w : world) (f : path) : Prop :=
  exists files dirs, run_inputs cfg w = Some (files, dirs) /\
                     cleaned_file (w_fs w) (cfg_recursive cfg) files dirs f.
(* every dependency of a file that Clean processes is itself processed by Clean *)
Definition deps_cleaned (cfg : config) (w : world) : Prop :=
  forall f, cleaned cfg w f -> forall q, In q (sdeps w f) -> cleaned cfg w q.
(* nothing lies at the output and at the temp targets of the files that are processed *)
Definition footprints_absent (cfg : config) (w : world) : Prop :=
  forall f, cleaned cfg w f -> forall p, In p (writes_of Build w f) -> fs_get (w_fs w) p = None.

Theorem clean_after_build_restores orc orc' cfg cfgc fuel fuel' sched sched' w :
  cfg_mode cfg = Build -> cfg_mode cfgc = Clean ->
  cfg_base cfgc = cfg_base cfg -> cfg_inputs cfgc = cfg_inputs cfg -> cfg_recursive cfgc = cfg_recursive cfg ->
  cfg_threads cfgc <> 0 ->
  raw_ok w -> sched_ok_temps w ->
  ~ In (lex_normalize (cfg_base cfg)) (foots w) ->
  Forall (input_safe (foots w) (lex_normalize (cfg_base cfg))) (cfg_inputs cfg) ->
  deps_cleaned cfg w -> footprints_absent cfg w ->
  let x1 := txtpp_run orc cfg fuel sched w in
  verdict_of x1 = VOk ->
  let x2 := txtpp_run orc' cfgc fuel' sched' (world_of x1) in
  (verdict_of x2 = VOk \/ verdict_of x2 = VFuel) /\
  (verdict_of x2 = VOk -> w_eq (world_of x2) w) /\
  ((fuel' > 2 * length (src_files (w_fs w)) + length (dir_entries (w_fs w)))%nat -> verdict_of x2 = VOk).
Proof.
  intros Hmd Hmc Eb Ei Er Hth N HS Hbase Hinp Hcov Habs. cbv zeta.
  destruct cfgc as [cb ci cr ct cm ctr]. cbn [cfg_mode cfg_base cfg_inputs cfg_recursive cfg_threads] in *. subst cb ci cr cm.
  unfold txtpp_run at 1 3 5 7 9 11. unfold deps_cleaned, footprints_absent, cleaned, run_inputs in *.
  destruct (cfg_threads cfg =? 0); [cbn; discriminate|].
  destruct (os_resolve (w_fs w) (cfg_base cfg)) as [base|] eqn:Eb; [|cbn; discriminate].
  pose proof (os_resolve_normalize _ _ _ Eb) as Ebn. subst base.
  destruct (resolve_inputs (w_fs w) (lex_normalize (cfg_base cfg)) (cfg_inputs cfg) [] []) as [[files dirs]|] eqn:Eri; [|cbn; discriminate].
  change (fold_left exec_dir dirs (fold_left (fun s f => exec_file s f true) files c_init))
    with (gs (ginit files dirs)).
  set (x1 := run_loop orc cfg (lex_normalize (cfg_base cfg)) fuel sched (gs (ginit files dirs)) w []).
  intros Hv.
  assert (Hcov' : forall f, cleaned_file (w_fs w) (cfg_recursive cfg) files dirs f ->
                  forall q, In q (sdeps w f) -> cleaned_file (w_fs w) (cfg_recursive cfg) files dirs q).
  { intros f Hf q Hq. destruct (Hcov f (ex_intro _ files (ex_intro _ dirs (conj eq_refl Hf))) q Hq)
      as (fs' & ds' & E & H). inversion E; subst. exact H. }
  destruct (build_exit orc cfg _ Hmd w HS N files dirs Hcov' fuel sched Hv) as (A & N1 & S1 & B2 & Hgood & Hfr).
  fold x1 in A, N1, S1, B2, Hfr. set (w1 := world_of x1) in *.
  assert (Aag : agree (in_paths (foots w)) (w_fs w) (w_fs w1)).
  { split; [|apply (proj2 A)]. intros p Hp. symmetry. apply B2. apply in_paths_false. exact Hp. }
  unfold txtpp_run. cbn [cfg_threads cfg_base cfg_inputs].
  destruct (ct =? 0) eqn:Ect; [apply N.eqb_eq in Ect; congruence|].
  rewrite <- (os_resolve_agree _ _ _ (cfg_base cfg) Aag (proj2 (in_paths_false _ _) Hbase)), Eb.
  rewrite <- (resolve_inputs_agree _ _ _ _ _ Aag Hinp [] []), Eri.
  change (fold_left exec_dir dirs (fold_left (fun s f => exec_file s f true) files c_init))
    with (gs (ginit files dirs)).
  apply (clean_side orc' (mkCfg (cfg_base cfg) (cfg_inputs cfg) (cfg_recursive cfg) ct Clean ctr)
           (lex_normalize (cfg_base cfg)) eq_refl w w1 files dirs N A N1 S1).
  - exact Hgood.
  - exact Hfr.
  - intros f Hf. apply (Habs f). exists files, dirs. split; [reflexivity|exact Hf].
  - intros f Hf p Hp. destruct (Hgood f Hf) as (out & Hsrc & _).
    destruct (HS f out Hsrc) as (_ & _ & Hto & _). apply Hto. exact Hp.
  - intros f out Hf Ho. destruct (Hgood f Hf) as (out' & Hsrc & _).
    destruct (HS f out' Hsrc) as (_ & Hc & _). destruct Hsrc as [Ho' _]. congruence.
  - apply (resolve_inputs_dirs _ _ _ _ _ _ _ Eri). intros d [].
Qed.

(* with enough fuel: verdict VOk and the tree is restored *)
Corollary clean_after_build_restores_ok orc orc' cfg cfgc fuel fuel' sched sched' w :
  cfg_mode cfg = Build -> cfg_mode cfgc = Clean ->
  cfg_base cfgc = cfg_base cfg -> cfg_inputs cfgc = cfg_inputs cfg -> cfg_recursive cfgc = cfg_recursive cfg ->
  cfg_threads cfgc <> 0 ->
  raw_ok w -> sched_ok_temps w ->
  ~ In (lex_normalize (cfg_base cfg)) (foots w) ->
  Forall (input_safe (foots w) (lex_normalize (cfg_base cfg))) (cfg_inputs cfg) ->
  deps_cleaned cfg w -> footprints_absent cfg w ->
  (fuel' > 2 * length (src_files (w_fs w)) + length (dir_entries (w_fs w)))%nat ->
  let x1 := txtpp_run orc cfg fuel sched w in
  verdict_of x1 = VOk ->
  let x2 := txtpp_run orc' cfgc fuel' sched' (world_of x1) in
  verdict_of x2 = VOk /\ w_eq (world_of x2) w.
Proof.
  intros H1 H2 H3 H4 H5 H6 H7 H8 H9 H10 H11 H12 Hf x1 Hv x2.
  destruct (clean_after_build_restores orc orc' cfg cfgc fuel fuel' sched sched' w H1 H2 H3 H4 H5 H6 H7 H8 H9 H10 H11 H12 Hv)
    as (_ & A & B).
  fold x1 in A, B. fold x2 in A, B. split; [apply B; exact Hf|apply A; apply B; exact Hf].
Qed.


(* ===================================================================================================================
   U3 — cleaning twice: the second Clean run changes nothing
   =================================================================================================================== *)
(* a pass in a world where the directory of the source is a directory leaves the scan part alone *)
Lemma pass_scan_plain orc md base f b tn w :
  raw_ok w -> is_dir (w_fs w) (lex_normalize (parent f)) = true ->
  let w' := out_world (pp_run orc md base f b tn w) w in
  raw_ok w' /\ scanpart (w_fs w') = scanpart (w_fs w).
Proof.
  intros ND Hd w'. subst w'.
  destruct (pp_run_by_ops orc md base f b tn w) as (ops & Hok & Hrun).
  destruct (pass_plain_events orc md base f b tn w Hd) as (evs & HL & HA & _).
  rewrite Hrun in HL. rewrite run_ops_log in HL. apply app_inv_head in HL. subst evs.
  rewrite Hrun. apply run_ops_scan; [exact ND|exact Hok|].
  intros o q Hin Hq. rewrite Forall_forall in HA. apply (HA (op_event o) (in_map op_event ops o Hin) q).
  destruct o as [q' c|q'|e]; cbn in Hq |- *; [exact Hq|exact Hq|discriminate].
Qed.

(* two trees with the same directories and the same `.txtpp` files resolve the inputs alike *)
Section SameInputs.
Variables f1 f2 : fs.
Hypothesis HT : forall q, is_txtpp_file q = true -> fs_get f1 q = fs_get f2 q.
Hypothesis HD : forall p, is_dir f1 p = is_dir f2 p.

Lemma os_resolve_dir_same_aux g1 g2 ip q : (forall p, is_dir g1 p = is_dir g2 p) ->
  os_resolve g1 ip = Some q -> is_dir g1 q = true -> os_resolve g2 ip = Some q.
Proof.
  intros D R Hq. unfold os_resolve in *. eapply os_walk_same_dirs; [exact D|exact R|].
  unfold exists_. rewrite D in Hq. unfold is_dir in Hq. destruct (fs_get g2 q) as [[c|]|]; try discriminate. reflexivity.
Qed.

Lemma lex_is_dir_same ip : lex_is_dir f1 ip = lex_is_dir f2 ip /\
  (lex_is_dir f1 ip = true -> os_resolve f1 ip = os_resolve f2 ip).
Proof.
  assert (G : forall g1 g2, (forall p, is_dir g1 p = is_dir g2 p) -> lex_is_dir g1 ip = true ->
              lex_is_dir g2 ip = true /\ os_resolve g1 ip = os_resolve g2 ip).
  { intros g1 g2 D H. unfold lex_is_dir in *. destruct (os_resolve g1 ip) as [q|] eqn:R; [|discriminate].
    rewrite (os_resolve_dir_same_aux g1 g2 ip q D R H). rewrite <- D. split; [exact H|reflexivity]. }
  destruct (lex_is_dir f1 ip) eqn:E1.
  - destruct (G f1 f2 HD E1) as [E2 Er]. split; [symmetry; exact E2|intros _; exact Er].
  - split; [|discriminate]. destruct (lex_is_dir f2 ip) eqn:E2; [|reflexivity].
    destruct (G f2 f1 (fun p => eq_sym (HD p)) E2) as [E1' _]. congruence.
Qed.

(* a lexical path that resolves to a file with a `.txtpp` name *)
Lemma resolve_txtpp_file_same_aux g1 g2 x q :
  (forall p, is_dir g1 p = is_dir g2 p) -> (forall p, is_txtpp_file p = true -> fs_get g1 p = fs_get g2 p) ->
  is_txtpp_file x = true -> os_resolve g1 x = Some q -> is_file g1 q = true ->
  os_resolve g2 x = Some q /\ is_file g2 q = true.
Proof.
  intros D T Hx R Hf.
  destruct (resolved_file_shape _ _ _ R Hf) as (a & d & c & -> & -> & Hc).
  assert (Hq : is_txtpp_file (d ++ [c]) = true) by (rewrite (is_txtpp_last d a c); exact Hx).
  assert (Hf2 : is_file g2 (d ++ [c]) = true) by (unfold is_file in *; rewrite <- (T _ Hq); exact Hf).
  split; [|exact Hf2]. unfold os_resolve in *. eapply os_walk_same_dirs; [exact D|exact R|].
  apply is_file_exists. exact Hf2.
Qed.

Lemma lex_is_file_txtpp_same x : is_txtpp_file x = true ->
  lex_is_file f1 x = lex_is_file f2 x /\ (lex_is_file f1 x = true -> os_resolve f1 x = os_resolve f2 x).
Proof.
  intros Hx.
  assert (G : forall g1 g2, (forall p, is_dir g1 p = is_dir g2 p) ->
              (forall p, is_txtpp_file p = true -> fs_get g1 p = fs_get g2 p) -> lex_is_file g1 x = true ->
              lex_is_file g2 x = true /\ os_resolve g1 x = os_resolve g2 x).
  { intros g1 g2 D T H. unfold lex_is_file in *. destruct (os_resolve g1 x) as [q|] eqn:R; [|discriminate].
    destruct (resolve_txtpp_file_same_aux g1 g2 x q D T Hx R H) as [R2 F2]. rewrite R2. split; [exact F2|reflexivity]. }
  destruct (lex_is_file f1 x) eqn:E1.
  - destruct (G f1 f2 HD HT E1) as [E2 Er]. split; [symmetry; exact E2|intros _; exact Er].
  - split; [|discriminate]. destruct (lex_is_file f2 x) eqn:E2; [|reflexivity].
    destruct (G f2 f1 (fun p => eq_sym (HD p)) (fun p Hp => eq_sym (HT p Hp)) E2) as [E1' _]. congruence.
Qed.

(* candidates that are not `.txtpp` names are never files *)
Lemma candidate_is_file g lp x : (forall dir n, lp = dir ++ [n] -> n <> []) ->
  In x (txtpp_candidates lp) -> lex_is_file g x = true -> is_txtpp_file x = true.
Proof.
  intros Hne Hin Hf. unfold lex_is_file in Hf. destruct (os_resolve g x) as [q|] eqn:R; [|discriminate].
  destruct (resolved_file_shape _ _ _ R Hf) as (a & d & c & Hx & _ & Hc).
  apply (candidates_txtpp lp x a c Hin Hx Hc Hne).
Qed.

Lemma find_candidates_same lp : (forall dir n, lp = dir ++ [n] -> n <> []) ->
  forall l, (forall x, In x l -> In x (txtpp_candidates lp)) ->
  find (lex_is_file f1) l = find (lex_is_file f2) l.
Proof.
  intros Hne. induction l as [|x l IH]; intros Hsub; [reflexivity|]. cbn [find].
  assert (E : lex_is_file f1 x = lex_is_file f2 x).
  { destruct (lex_is_file f1 x) eqn:E1.
    - pose proof (candidate_is_file f1 lp x Hne (Hsub x (or_introl eq_refl)) E1) as Hx.
      rewrite <- (proj1 (lex_is_file_txtpp_same x Hx)). symmetry. exact E1.
    - destruct (lex_is_file f2 x) eqn:E2; [|reflexivity].
      pose proof (candidate_is_file f2 lp x Hne (Hsub x (or_introl eq_refl)) E2) as Hx.
      rewrite (proj1 (lex_is_file_txtpp_same x Hx)) in E1. congruence. }
  rewrite E. destruct (lex_is_file f2 x); [reflexivity|]. apply IH. intros y Hy. apply Hsub. right. exact Hy.
Qed.

Lemma resolve_inputs_same base inputs : Forall (fun c => c <> []) base ->
  forall files dirs, resolve_inputs f1 base inputs files dirs = resolve_inputs f2 base inputs files dirs.
Proof.
  intros Hb. induction inputs as [|i r IH]; intros files dirs; [reflexivity|].
  cbn [resolve_inputs]. cbv zeta. set (ip := lex_join base i).
  assert (Hne : forall dir n, ip = dir ++ [n] -> n <> []) by (apply lex_join_last_nonempty; exact Hb).
  destruct (lex_is_dir_same ip) as [Ed Erd]. rewrite <- Ed.
  destruct (lex_is_dir f1 ip) eqn:E1.
  - rewrite <- (Erd eq_refl). destruct (os_resolve f1 ip); [apply IH|reflexivity].
  - destruct (negb (is_txtpp_file ip)) eqn:Nt.
    + unfold get_txtpp_file. rewrite <- (find_candidates_same ip Hne _ (fun x H => H)).
      destruct (find (lex_is_file f1) (txtpp_candidates ip)) as [x|] eqn:G; [|reflexivity].
      apply find_some in G. destruct G as [Hin Hf].
      pose proof (candidate_is_file f1 ip x Hne Hin Hf) as Hx.
      rewrite <- (proj2 (lex_is_file_txtpp_same x Hx) Hf).
      destruct (os_resolve f1 x); [apply IH|reflexivity].
    + assert (Hx : is_txtpp_file ip = true) by (destruct (is_txtpp_file ip); [reflexivity|discriminate]).
      assert (Er : os_resolve f1 ip = os_resolve f2 ip).
      { assert (G : forall g1 g2, (forall p, is_dir g1 p = is_dir g2 p) ->
                    (forall p, is_txtpp_file p = true -> fs_get g1 p = fs_get g2 p) ->
                    lex_is_dir g1 ip = false -> forall q, os_resolve g1 ip = Some q -> os_resolve g2 ip = Some q).
        { intros g1 g2 D T Ld q R. unfold lex_is_dir in Ld. rewrite R in Ld.
          assert (Hf : is_file g1 q = true).
          { pose proof (os_walk_exists _ _ _ _ R) as He. unfold exists_ in He. unfold is_dir in Ld. unfold is_file.
            destruct (fs_get g1 q) as [[c|]|]; [reflexivity|discriminate|discriminate]. }
          apply (resolve_txtpp_file_same_aux g1 g2 ip q D T Hx R Hf). }
        destruct (os_resolve f1 ip) as [q|] eqn:R1.
        - symmetry. apply (G f1 f2 HD HT E1 q R1).
        - destruct (os_resolve f2 ip) as [q|] eqn:R2; [|reflexivity].
          rewrite (G f2 f1 (fun p => eq_sym (HD p)) (fun p Hp => eq_sym (HT p Hp)) (eq_sym Ed) q R2) in R1.
          discriminate. }
      rewrite <- Er. destruct (os_resolve f1 ip); [apply IH|reflexivity].
Qed.
End SameInputs.

Lemma pp_run_ok_out orc md base f b tn w w' : pp_run orc md base f b tn w = PpOk w' -> exists out, remove_txtpp f = Some out.
Proof.
  rewrite pp_run_unfold. destruct (read_file (w_fs w) f); [|discriminate].
  destruct (remove_txtpp f) as [out|]; [|discriminate]. intros _. exists out. reflexivity.
Qed.

Section CleanTwice.
Variables orc1 orc2 : oracle.
Variables cfg1 cfg2 : config.
Variable base : path.
Hypothesis Hm1 : cfg_mode cfg1 = Clean.
Hypothesis Hm2 : cfg_mode cfg2 = Clean.
Hypothesis Hrec : cfg_recursive cfg2 = cfg_recursive cfg1.
Variable w : world.
Hypothesis ND : NoDup (map fst (w_fs w)).
Hypothesis WF : legal_names (w_fs w).
Variables files dirs : list path.
Hypothesis Hfiles : Forall (good_file (w_fs w)) files.
Hypothesis Hdirs : Forall (good_dir (w_fs w)) dirs.

Local Notation F0 := (w_fs w).
Local Notation rc := (cfg_recursive cfg1).
Local Notation cleanedf := (cleaned_file (w_fs w) (cfg_recursive cfg1) files dirs).

(* the sources, the directories and what the scans see are those of the initial tree *)
Definition Tw (wc : world) : Prop :=
  (forall q, is_txtpp_file q = true -> fs_get (w_fs wc) q = fs_get F0 q) /\
  (forall p, is_dir (w_fs wc) p = is_dir F0 p) /\ raw_ok wc /\ scanpart (w_fs wc) = scanpart F0.

Lemma Tw_scan wc d rec : Tw wc -> scan_dir (w_fs wc) d rec = scan_dir F0 d rec.
Proof. intros (_ & D & _ & S). apply scan_dir_ext; [exact S|apply D]. Qed.

Lemma good_dirs_are_dirs : forall d, In d dirs -> is_dir F0 d = true.
Proof.
  intros d Hd. rewrite Forall_forall in Hdirs. apply (good_dir_upto F0 ND d (Hdirs d Hd)).
Qed.

Definition J1 (g : gstate) (wc : world) : Prop :=
  Jrun F0 (gs g) wc /\ Tw wc /\ Cl F0 rc g /\ Lim F0 rc files dirs g /\ (forall f, finished g f -> cleaned_src f wc).

Lemma J1_init : J1 (ginit files dirs) w.
Proof.
  split; [|split; [|split; [apply Cl_init|split; [apply Lim_init|]]]].
  - split; [|split].
    + destruct w as [F l]. apply (winv_init F).
    + intros f Hf. cbn [ginit gs] in Hf. rewrite seen_fold_dir_eq in Hf.
      apply seen_fold_file_inv in Hf. destruct Hf as [[]|[_ Hf]]. rewrite Forall_forall in Hfiles. apply Hfiles. exact Hf.
    + intros d Hd. cbn [ginit gs] in Hd. apply seen_dirs_fold_dir_inv in Hd.
      destruct Hd as [Hd|Hd]; [rewrite seen_dirs_fold_file in Hd; destruct Hd|].
      rewrite Forall_forall in Hdirs. apply Hdirs. exact Hd.
  - split; [reflexivity|]. split; [reflexivity|]. split; [exact ND|reflexivity].
  - intros f Hf. unfold finished, ginit in Hf. cbn [gs] in Hf. rewrite dm_fold_dir, dm_fold_file in Hf. discriminate.
Qed.

Lemma J1_step g wc t rest r wc' s2 :
  greach files dirs g -> J1 g wc -> Permutation (inflight (gs g)) (t :: rest) ->
  exec_task orc1 cfg1 base t wc = Some (r, wc') -> handle (with_inflight (gs g) rest) r = Continue s2 ->
  J1 (mkG s2 (report t r (reported g)) (history g ++ [t])) wc'.
Proof.
  intros R (HJ & HT & HCl & HL & HF) HP Hex Hh.
  assert (Ht : In t (inflight (gs g))).
  { eapply Permutation_in; [apply Permutation_sym; exact HP|]. left. reflexivity. }
  pose proof (exec_task_answers _ _ _ _ _ _ _ Hex) as Hans.
  pose proof (handle_continue_not_err _ _ _ Hh) as Hne.
  destruct (inv_reach _ _ _ R) as [HPi _]. pose proof (i_fl_seen HPi t Ht) as Hts.
  assert (Hfin2 : forall f, finished (mkG s2 (report t r (reported g)) (history g ++ [t])) f ->
                            finished g f \/ r = RPp f (Some POk)).
  { intros f Hf. unfold finished in *. cbn [gs] in Hf. apply pmem_In in Hf.
    destruct (handle_fin (with_inflight (gs g) rest) r s2 f (i_dm HPi) Hh Hf) as [H|H]; [left; apply pmem_In; exact H|right; exact H]. }
  split; [apply (Jrun_step F0 ND WF orc1 cfg1 base files dirs g wc t rest r wc' s2); assumption|].
  destruct t as [d|f b].
  - cbn [exec_task] in Hex. inversion Hex; subst r wc'. rewrite (Tw_scan wc d _ HT) in *.
    split; [exact HT|]. split; [|split].
    + apply (Cl_step F0 rc files dirs g (TScan d) rest _ s2 R HCl HP Hans Hh). intros d0 E. inversion E; subst. reflexivity.
    + apply (Lim_step F0 rc files dirs g (TScan d) rest _ s2 R HL HP Hh). reflexivity.
    + intros f Hf. destruct (Hfin2 f Hf) as [H|H]; [apply HF; exact H|].
      destruct (scan_dir F0 d rc); discriminate.
  - cbn [tseen] in Hts. destruct HJ as (_ & Jf & _).
    pose proof (good_file_dir F0 f WF (Jf f Hts)) as Hd0.
    destruct HT as (T1 & T2 & T3 & T4).
    assert (Hd : is_dir (w_fs wc) (lex_normalize (parent f)) = true) by (rewrite T2; exact Hd0).
    rewrite exec_task_pp in Hex. rewrite Hm1 in Hex. cbv zeta in Hex.
    destruct (pp_run orc1 Clean base f b (cfg_trailing cfg1) wc) as [wa|ds wa|k wa|] eqn:E; cbn in Hex;
      [|exfalso; exact (pp_run_clean_no_deps _ _ _ _ _ _ _ _ E)|inversion Hex; subst r; exfalso; apply Hne; exact I|discriminate].
    inversion Hex; subst r wc'. clear Hex.
    destruct (pp_run_ok_out _ _ _ _ _ _ _ _ E) as [out Ho].
    pose proof (pass_txtpp_same orc1 Clean base f b (cfg_trailing cfg1) wc Hd) as X1. rewrite E in X1. cbn [out_world] in X1.
    pose proof (pp_run_same_dirs orc1 Clean base f b (cfg_trailing cfg1) wc) as X2. rewrite E in X2. cbn [out_world] in X2.
    pose proof (pass_scan_plain orc1 Clean base f b (cfg_trailing cfg1) wc T3 Hd) as X3. rewrite E in X3. cbn [out_world] in X3.
    pose proof (clean_pass_shr orc1 base f b (cfg_trailing cfg1) wc wa out Ho E) as Sh.
    split; [|split; [|split]].
    + split; [intros q Hq; rewrite (X1 q Hq); apply T1; exact Hq|].
      split; [intros p; rewrite (X2 p); apply T2|]. split; [apply X3|]. rewrite (proj2 X3). exact T4.
    + apply (Cl_step F0 rc files dirs g (TPp f b) rest _ s2 R HCl HP Hans Hh). intros d0 E0. discriminate E0.
    + apply (Lim_step F0 rc files dirs g (TPp f b) rest _ s2 R HL HP Hh). reflexivity.
    + intros h Hh2. destruct (Hfin2 h Hh2) as [Hfh|Eh].
      * apply (cleaned_src_shr h wc wa (HF h Hfh) Sh).
        destruct (HF h Hfh) as (outh & _ & Hoh & _). unfold read_file. rewrite X1; [reflexivity|].
        eapply remove_txtpp_is_txtpp; eauto.
      * inversion Eh; subst h. apply (clean_pass_cleaned orc1 base f b (cfg_trailing cfg1) wc wa out Ho); [|exact E].
        unfold read_file. rewrite X1; [reflexivity|]. eapply remove_txtpp_is_txtpp; eauto.
Qed.

(* ---- the second run, from the final world w1 of the first ---- *)
Variable w1 : world.
Hypothesis HT1 : Tw w1.
Hypothesis Hcl1 : forall f, cleanedf f -> cleaned_src f w1.

Definition J2 (g : gstate) (wc : world) : Prop := wc = w1 /\ Lim F0 rc files dirs g.

Lemma J2_task g wc t r wc' :
  greach files dirs g -> J2 g wc -> In t (inflight (gs g)) -> exec_task orc2 cfg2 base t wc = Some (r, wc') ->
  wc' = w1 /\
  match t with
  | TScan d => r = RScan (scan_dir F0 d rc) /\ scan_dir F0 d rc <> None
  | TPp f b => r = RPp f (Some POk)
  end.
Proof.
  intros R (-> & (L1 & L2 & L3)) Ht Hex.
  destruct (inv_reach _ _ _ R) as [HPi _]. pose proof (i_fl_seen HPi t Ht) as Hts.
  destruct t as [d|f b]; cbn [tseen] in Hts.
  - cbn [exec_task] in Hex. inversion Hex; subst r wc'. split; [reflexivity|]. rewrite Hrec, (Tw_scan w1 d _ HT1).
    split; [reflexivity|]. unfold scan_dir. rewrite (scanned_dir_is_dir _ _ _ ND good_dirs_are_dirs d (L2 d Hts)). discriminate.
  - rewrite exec_task_pp in Hex. rewrite Hm2 in Hex. cbv zeta in Hex.
    rewrite (cleaned_src_noop orc2 base f b (cfg_trailing cfg2) w1 (Hcl1 f (L1 f Hts))) in Hex. cbn in Hex.
    inversion Hex; subst r wc'. split; reflexivity.
Qed.

Lemma J2_noerr g wc t r wc' :
  greach files dirs g -> J2 g wc -> In t (inflight (gs g)) -> exec_task orc2 cfg2 base t wc = Some (r, wc') -> ~ is_err r.
Proof.
  intros R HJ Ht Hex. destruct (J2_task g wc t r wc' R HJ Ht Hex) as [_ X]. destruct t as [d|f b].
  - destruct X as [-> Hn]. destruct (scan_dir F0 d rc) as [[fs ds]|]; [intros []|congruence].
  - subst r. intros [].
Qed.

Lemma J2_step g wc t rest r wc' s2 :
  greach files dirs g -> J2 g wc -> Permutation (inflight (gs g)) (t :: rest) ->
  exec_task orc2 cfg2 base t wc = Some (r, wc') -> handle (with_inflight (gs g) rest) r = Continue s2 ->
  J2 (mkG s2 (report t r (reported g)) (history g ++ [t])) wc'.
Proof.
  intros R HJ HP Hex Hh.
  assert (Ht : In t (inflight (gs g))).
  { eapply Permutation_in; [apply Permutation_sym; exact HP|]. left. reflexivity. }
  destruct (J2_task g wc t r wc' R HJ Ht Hex) as [-> X]. split; [reflexivity|].
  apply (Lim_step F0 rc files dirs g t rest r s2 R (proj2 HJ) HP Hh). destruct t as [d|f b]; apply X.
Qed.
End CleanTwice.

Lemma clean_twice_loop orc1 orc2 cfg1 cfg2 base w files dirs fuel1 fuel2 sched1 sched2 :
  cfg_mode cfg1 = Clean -> cfg_mode cfg2 = Clean -> cfg_recursive cfg2 = cfg_recursive cfg1 ->
  NoDup (map fst (w_fs w)) -> legal_names (w_fs w) ->
  Forall (good_file (w_fs w)) files -> Forall (good_dir (w_fs w)) dirs ->
  let x1 := run_loop orc1 cfg1 base fuel1 sched1 (gs (ginit files dirs)) w [] in
  verdict_of x1 = VOk ->
  Tw w (world_of x1) /\
  let x2 := run_loop orc2 cfg2 base fuel2 sched2 (gs (ginit files dirs)) (world_of x1) [] in
  (verdict_of x2 = VOk \/ verdict_of x2 = VFuel) /\ world_of x2 = world_of x1 /\
  ((fuel2 > 2 * length (src_files (w_fs w)) + length (dir_entries (w_fs w)))%nat -> verdict_of x2 = VOk).
Proof.
  intros Hm1 Hm2 Hrec ND WF Hfiles Hdirs x1 Hv.
  destruct (run_loop_inv_g orc1 cfg1 base files dirs (J1 cfg1 w files dirs)
              (J1_step orc1 cfg1 base Hm1 w ND WF files dirs) fuel1 sched1 (ginit files dirs) w []
              (greach_init files dirs) (J1_init cfg1 w ND WF files dirs Hfiles Hdirs) Hv)
    as (g1 & R1 & Es1 & Hfl1 & Hfin1 & (HJr & HT & HCl & HL & HF)).
  fold x1 in Es1, HJr, HT, HF. split; [exact HT|].
  destruct (Cl_exit _ _ files dirs g1 R1 HCl Hfl1) as (If & Id & Icl).
  assert (Hcl1 : forall f, cleaned_file (w_fs w) (cfg_recursive cfg1) files dirs f -> cleaned_src f (world_of x1)).
  { intros f Hf. apply HF. apply Hfin1. unfold is_seen. apply pmem_In.
    apply (cleaned_least _ _ _ _ _ _ If Id Icl f Hf). }
  intros x2.
  destruct (run_loop_noerr orc2 cfg2 base files dirs (J2 cfg1 w files dirs (world_of x1))
              (J2_step orc2 cfg1 cfg2 base Hm2 Hrec w ND files dirs Hdirs (world_of x1) HT Hcl1)
              (J2_noerr orc2 cfg1 cfg2 base Hm2 Hrec w ND files dirs Hdirs (world_of x1) HT Hcl1)
              fuel2 sched2 (ginit files dirs) (world_of x1) [] (greach_init files dirs))
    as (g2 & R2 & Es2 & (Hw & HL2) & Hc).
  { split; [reflexivity|apply Lim_init]. }
  fold x2 in Es2, Hw, Hc. pose proof (Lim_no_remaining _ _ _ _ g2 HL2) as Hrem.
  split; [|split; [exact Hw|]].
  - destruct Hc as [[_ Hv2]|(_ & Hv2 & _)]; [left; rewrite Hv2, Hrem; reflexivity|right; exact Hv2].
  - intros Hfuel. destruct Hc as [[_ Hv2]|(Hfl2 & _ & Hlen)]; [rewrite Hv2, Hrem; reflexivity|exfalso].
    destruct HL2 as (L1 & L2 & _). destruct (Jrun_bound _ _ _ HJr) as [B1 B2].
    assert (I1 : incl (seen (gs g2)) (src_files (w_fs w))).
    { intros f Hs. apply B1. apply (cleaned_least _ _ _ _ _ _ If Id Icl f (L1 f Hs)). }
    assert (I2 : incl (seen_dirs (gs g2)) (dir_entries (w_fs w))).
    { intros d Hs. apply B2. apply (scanned_least _ _ _ _ _ Id Icl d (L2 d Hs)). }
    pose proof (history_lt_bound files dirs g2 _ _ R2 I1 I2 Hfl2) as HB.
    rewrite Hlen in HB. unfold ginit in HB. cbn [history length] in HB. unfold file in *. lia.
Qed.

(* U3.  A Clean run from the world left by a successful Clean run (same inputs, ANY schedule, fuel, oracle, trailing
   option, number of threads) cannot fail and changes nothing: neither the tree (not even its representation) nor the
   log — no file is removed a second time.  Hypotheses: the initial tree has no duplicate entry and legal names
   (those of RunFacts.txtpp_run_terminates), and the base directory is a directory. *)
Theorem clean_idempotent_run orc orc' cfg cfg' fuel fuel' sched sched' w :
  cfg_mode cfg = Clean -> cfg_mode cfg' = Clean ->
  cfg_base cfg' = cfg_base cfg -> cfg_inputs cfg' = cfg_inputs cfg -> cfg_recursive cfg' = cfg_recursive cfg ->
  cfg_threads cfg' <> 0 ->
  NoDup (map fst (w_fs w)) -> legal_names (w_fs w) ->
  lex_is_dir (w_fs w) (cfg_base cfg) = true ->
  let x1 := txtpp_run orc cfg fuel sched w in
  verdict_of x1 = VOk ->
  let x2 := txtpp_run orc' cfg' fuel' sched' (world_of x1) in
  (verdict_of x2 = VOk \/ verdict_of x2 = VFuel) /\
  world_of x2 = world_of x1 /\
  ((fuel' > 2 * length (src_files (w_fs w)) + length (dir_entries (w_fs w)))%nat -> verdict_of x2 = VOk).
Proof.
  intros Hm1 Hm2 Eb Ei Er Hth ND WF Hbd. cbv zeta.
  destruct cfg' as [cb ci cr ct cm ctr]. cbn [cfg_mode cfg_base cfg_inputs cfg_recursive cfg_threads] in *. subst cb ci cr cm.
  unfold txtpp_run at 1 3 5 7 8 10.
  destruct (cfg_threads cfg =? 0); [cbn; discriminate|].
  destruct (os_resolve (w_fs w) (cfg_base cfg)) as [base|] eqn:Rb; [|cbn; discriminate].
  destruct (resolve_inputs (w_fs w) base (cfg_inputs cfg) [] []) as [[files dirs]|] eqn:Ri; [|cbn; discriminate].
  change (fold_left exec_dir dirs (fold_left (fun s f => exec_file s f true) files c_init))
    with (gs (ginit files dirs)).
  assert (Hb : Forall (fun c => c <> []) base).
  { apply names_nonempty. apply (exists_names (w_fs w) WF). apply (os_walk_exists _ _ _ _ Rb). }
  destruct (resolve_inputs_good (w_fs w) ND base (cfg_inputs cfg) [] [] files dirs Hb (Forall_nil _) (Forall_nil _) Ri)
    as [Gf Gd].
  intros Hv.
  destruct (clean_twice_loop orc orc' cfg (mkCfg (cfg_base cfg) (cfg_inputs cfg) (cfg_recursive cfg) ct Clean ctr)
              base w files dirs fuel fuel' sched sched' Hm1 eq_refl eq_refl ND WF Gf Gd Hv) as [HT H2].
  set (w1 := world_of (run_loop orc cfg base fuel sched (gs (ginit files dirs)) w [])) in *.
  destruct HT as (T1 & T2 & _ & _).
  unfold txtpp_run. cbn [cfg_threads cfg_base cfg_inputs].
  destruct (ct =? 0) eqn:Ect; [apply N.eqb_eq in Ect; congruence|].
  rewrite <- (proj2 (lex_is_dir_same (w_fs w) (w_fs w1) (fun p => eq_sym (T2 p)) (cfg_base cfg)) Hbd), Rb.
  rewrite <- (resolve_inputs_same (w_fs w) (w_fs w1) (fun q Hq => eq_sym (T1 q Hq)) (fun p => eq_sym (T2 p))
                base (cfg_inputs cfg) Hb [] []), Ri.
  exact H2.
Qed.

(* in the words of the task: with enough fuel the verdict is the same and the tree is unchanged *)
Corollary clean_idempotent_run_weq orc orc' cfg cfg' fuel fuel' sched sched' w :
  cfg_mode cfg = Clean -> cfg_mode cfg' = Clean ->
  cfg_base cfg' = cfg_base cfg -> cfg_inputs cfg' = cfg_inputs cfg -> cfg_recursive cfg' = cfg_recursive cfg ->
  cfg_threads cfg' <> 0 ->
  NoDup (map fst (w_fs w)) -> legal_names (w_fs w) ->
  lex_is_dir (w_fs w) (cfg_base cfg) = true ->
  (fuel' > 2 * length (src_files (w_fs w)) + length (dir_entries (w_fs w)))%nat ->
  let x1 := txtpp_run orc cfg fuel sched w in
  verdict_of x1 = VOk ->
  let x2 := txtpp_run orc' cfg' fuel' sched' (world_of x1) in
  verdict_of x2 = verdict_of x1 /\ w_eq (world_of x2) (world_of x1) /\ w_log (world_of x2) = w_log (world_of x1).
Proof.
  intros H1 H2 H3 H4 H5 H6 H7 H8 H9 Hf x1 Hv x2.
  destruct (clean_idempotent_run orc orc' cfg cfg' fuel fuel' sched sched' w H1 H2 H3 H4 H5 H6 H7 H8 H9 Hv) as (_ & A & B).
  fold x1 in A, B. fold x2 in A, B. split; [rewrite Hv; apply B; exact Hf|]. rewrite A. split; [intros p; reflexivity|reflexivity].
Qed.


(* ===================================================================================================================
   EXAMPLES — non-vacuity of U1, U2, U3 and the counterexample to U1 without `deps_cleaned`
   =================================================================================================================== *)
(* ---- U1, non-vacuity: the tree of ScheduleTempFacts PART 6
       d/a.txtpp = "// TXTPP#temp t\n// hello\nTXTPP#include t\nx\n"   (writes the temp file d/t, then includes it)
       d/b.txtpp = "TXTPP#include a\nz\n"                                (includes the output of a.txtpp: two passes)
   built with `txtpp -r d` (b.txtpp looked at first), then cleaned with `txtpp clean -r d`. ---- *)
Definition u_clean_cfg : config := mkCfg [] [[100]] true 1 Clean false.

Lemma u_run_inputs : run_inputs t_cfg t_w = Some ([], [[[100]]]).
Proof. vm_compute. reflexivity. Qed.

Lemma u_scanned d : scanned_dir (w_fs t_w) true [[[100]]] d -> d = [[100]].
Proof.
  intros H. induction H as [d Hin|d fs ds d' _ IH Hs Hin].
  - destruct Hin as [<-|[]]. reflexivity.
  - subst d. vm_compute in Hs. inversion Hs; subst. destruct Hin.
Qed.

Lemma u_cleaned f : cleaned t_cfg t_w f <-> f = t_a \/ f = t_b.
Proof.
  unfold cleaned. rewrite u_run_inputs. split.
  - intros (files & dirs & E & H). inversion E; subst files dirs. clear E.
    destruct H as [[]|(d & fs & ds & Hd & Hs & Hin)]. apply u_scanned in Hd. subst d.
    vm_compute in Hs. inversion Hs; subst. destruct Hin as [<-|[<-|[]]]; auto.
  - intros H. exists [], [[[100]]]. split; [reflexivity|]. right.
    exists [[100]], [t_a; t_b], []. split; [apply sd_input; left; reflexivity|]. split; [vm_compute; reflexivity|].
    destruct H as [-> | ->]; [left|right; left]; reflexivity.
Qed.

Lemma u_deps_cleaned : deps_cleaned t_cfg t_w.
Proof.
  intros f Hf q Hq. apply u_cleaned. apply u_cleaned in Hf. destruct Hf as [-> | ->]; vm_compute in Hq.
  - destruct Hq.
  - destruct Hq as [<-|[]]. left. reflexivity.
Qed.

Lemma u_footprints_absent : footprints_absent t_cfg t_w.
Proof.
  intros f Hf p Hp. apply u_cleaned in Hf. destruct Hf as [-> | ->]; vm_compute in Hp.
  - destruct Hp as [<-|[<-|[<-|[]]]]; vm_compute; reflexivity.
  - destruct Hp as [<-|[<-|[]]]; vm_compute; reflexivity.
Qed.

Lemma u_base_safe : ~ In (lex_normalize (cfg_base t_cfg)) (foots t_w).
Proof. vm_compute. intuition discriminate. Qed.

Lemma u_inputs_safe : Forall (input_safe (foots t_w) (lex_normalize (cfg_base t_cfg))) (cfg_inputs t_cfg).
Proof.
  constructor; [|constructor]. split.
  - vm_compute. intuition discriminate.
  - intros c Hc. vm_compute in Hc. destruct Hc as [<-|[]]. vm_compute. intuition discriminate.
Qed.

Example clean_after_build_restores_nonvacuous :
  let x1 := txtpp_run cx_orc t_cfg 9 [0; 1; 0; 0]%nat t_w in          (* b.txtpp is looked at first: it gets two passes *)
  let x2 := txtpp_run cx_orc u_clean_cfg 9 [0; 1]%nat (world_of x1) in (* another schedule, another (irrelevant) oracle *)
  verdict_of x1 = VOk /\
  In (TPp t_b false, RPp t_b (Some POk)) (trace_of x1) /\
  fs_get (w_fs (world_of x1)) t_aout = Some (File [104; 101; 108; 108; 111; 120]) /\
  fs_get (w_fs (world_of x1)) t_bout = Some (File [104; 101; 108; 108; 111; 120; 122]) /\
  fs_get (w_fs (world_of x1)) t_t = Some (File t_hello) /\
  verdict_of x2 = VOk /\ w_eq (world_of x2) t_w /\
  (forall fuel' sched' orc', (fuel' > 6)%nat ->
     verdict_of (txtpp_run orc' u_clean_cfg fuel' sched' (world_of x1)) = VOk /\
     w_eq (world_of (txtpp_run orc' u_clean_cfg fuel' sched' (world_of x1))) t_w).
Proof.
  cbv zeta.
  assert (E1 : verdict_of (txtpp_run cx_orc t_cfg 9 [0; 1; 0; 0]%nat t_w) = VOk) by (vm_compute; reflexivity).
  assert (T : forall fuel' sched' orc',
            let x2 := txtpp_run orc' u_clean_cfg fuel' sched' (world_of (txtpp_run cx_orc t_cfg 9 [0; 1; 0; 0]%nat t_w)) in
            (verdict_of x2 = VOk \/ verdict_of x2 = VFuel) /\ (verdict_of x2 = VOk -> w_eq (world_of x2) t_w) /\
            ((fuel' > 2 * length (src_files (w_fs t_w)) + length (dir_entries (w_fs t_w)))%nat -> verdict_of x2 = VOk)).
  { intros fuel' sched' orc'.
    apply (clean_after_build_restores cx_orc orc' t_cfg u_clean_cfg 9 fuel' [0; 1; 0; 0]%nat sched' t_w);
      [reflexivity|reflexivity|reflexivity|reflexivity|reflexivity|discriminate|exact t_raw_ok|exact t_sched_ok
      |exact u_base_safe|exact u_inputs_safe|exact u_deps_cleaned|exact u_footprints_absent|exact E1]. }
  split; [exact E1|]. split; [vm_compute; tauto|]. split; [vm_compute; reflexivity|].
  split; [vm_compute; reflexivity|]. split; [vm_compute; reflexivity|].
  assert (E2 : verdict_of (txtpp_run cx_orc u_clean_cfg 9 [0; 1]%nat
                 (world_of (txtpp_run cx_orc t_cfg 9 [0; 1; 0; 0]%nat t_w))) = VOk) by (vm_compute; reflexivity).
  split; [exact E2|]. split; [apply (T 9%nat [0; 1]%nat cx_orc); exact E2|].
  intros fuel' sched' orc' Hf. destruct (T fuel' sched' orc') as (_ & H2 & H3).
  assert (Hv : verdict_of (txtpp_run orc' u_clean_cfg fuel' sched'
                 (world_of (txtpp_run cx_orc t_cfg 9 [0; 1; 0; 0]%nat t_w))) = VOk).
  { apply H3. change (2 * length (src_files (w_fs t_w)) + length (dir_entries (w_fs t_w)))%nat with 6%nat. exact Hf. }
  split; [exact Hv|apply H2; exact Hv].
Qed.

(* ---- U1, the counterexample announced in the task: Clean does not follow dependencies.  Same tree, but only
   d/b.txtpp is given on the command line (`txtpp d/b.txtpp`, then `txtpp clean d/b.txtpp`): the build also processes the
   dependency d/a.txtpp (it creates d/a and the temp file d/t), the clean run only processes d/b.txtpp: d/a and d/t are
   left behind.  Every hypothesis of the theorem holds except `deps_cleaned`. ---- *)
Definition u_in_b : str := [100; 47; 98; 46; 116; 120; 116; 112; 112].       (* "d/b.txtpp" *)
Definition u_cfg_b : config := mkCfg [] [u_in_b] false 1 Build false.
Definition u_clean_cfg_b : config := mkCfg [] [u_in_b] false 1 Clean false.

Lemma u_cleaned_b f : cleaned u_cfg_b t_w f <-> f = t_b.
Proof.
  unfold cleaned. replace (run_inputs u_cfg_b t_w) with (Some ([t_b], @nil path)) by (vm_compute; reflexivity). split.
  - intros (files & dirs & E & H). inversion E; subst files dirs. clear E.
    destruct H as [[<-|[]]|(d & fs & ds & Hd & _)]; [reflexivity|].
    exfalso. induction Hd as [d []|d fs' ds' d' _ IH _ _]; exact IH.
  - intros ->. exists [t_b], []. split; [reflexivity|]. left. left. reflexivity.
Qed.

Example clean_does_not_follow_dependencies :
  let x1 := txtpp_run cx_orc u_cfg_b 9 [] t_w in
  let x2 := txtpp_run cx_orc u_clean_cfg_b 9 [] (world_of x1) in
  raw_ok t_w /\ sched_ok_temps t_w /\
  ~ In (lex_normalize (cfg_base u_cfg_b)) (foots t_w) /\
  Forall (input_safe (foots t_w) (lex_normalize (cfg_base u_cfg_b))) (cfg_inputs u_cfg_b) /\
  footprints_absent u_cfg_b t_w /\
  ~ deps_cleaned u_cfg_b t_w /\
  verdict_of x1 = VOk /\ verdict_of x2 = VOk /\
  map fst (trace_of x1) = [TPp t_b true; TPp t_a true; TPp t_b false] /\
  map fst (trace_of x2) = [TPp t_b true] /\
  fs_get (w_fs t_w) t_aout = None /\ fs_get (w_fs t_w) t_t = None /\
  fs_get (w_fs (world_of x2)) t_bout = None /\
  fs_get (w_fs (world_of x2)) t_aout = Some (File [104; 101; 108; 108; 111; 120]) /\
  fs_get (w_fs (world_of x2)) t_t = Some (File t_hello) /\
  ~ w_eq (world_of x2) t_w.
Proof.
  cbv zeta. split; [exact t_raw_ok|]. split; [exact t_sched_ok|].
  split; [vm_compute; intuition discriminate|]. split.
  { constructor; [|constructor]. split.
    - vm_compute. intuition discriminate.
    - intros c Hc. vm_compute in Hc. destruct Hc. }
  split.
  { intros f Hf p Hp. apply u_cleaned_b in Hf. subst f. vm_compute in Hp.
    destruct Hp as [<-|[<-|[]]]; vm_compute; reflexivity. }
  split.
  { intros H. assert (Ha : cleaned u_cfg_b t_w t_a).
    { apply (H t_b); [apply u_cleaned_b; reflexivity|vm_compute; left; reflexivity]. }
    apply u_cleaned_b in Ha. discriminate Ha. }
  repeat (split; [vm_compute; reflexivity|]).
  intros H. specialize (H t_aout). vm_compute in H. discriminate H.
Qed.

(* ---- U2, on the same project: the log of the clean run that follows the build consists of three removals ---- *)
Example clean_run_no_command_example :
  let x1 := txtpp_run cx_orc t_cfg 9 [0; 1; 0; 0]%nat t_w in
  let x2 := txtpp_run cx_orc u_clean_cfg 9 [0; 1]%nat (world_of x1) in
  w_log (world_of x2) = w_log (world_of x1) ++ [ERemove t_bout; ERemove t_aout; ERemove t_t] /\
  (exists evs, w_log (world_of x2) = w_log (world_of x1) ++ evs /\
     (forall c cwd f, ~ In (ERun c cwd f) evs) /\ (forall p, ~ In (EWrite p) evs)).
Proof.
  cbv zeta. split; [vm_compute; reflexivity|].
  destruct (clean_run_no_command cx_orc u_clean_cfg 9 [0; 1]%nat
              (world_of (txtpp_run cx_orc t_cfg 9 [0; 1; 0; 0]%nat t_w)) eq_refl) as (evs & HL & _ & H1 & H2).
  exists evs. split; [exact HL|]. split; assumption.
Qed.

(* ---- U3, non-vacuity: the project of U1 is built, then cleaned twice (different schedules) ---- *)
Example clean_idempotent_run_nonvacuous :
  let wb := world_of (txtpp_run cx_orc t_cfg 9 [0; 1; 0; 0]%nat t_w) in      (* the built tree: d/a, d/b, d/t exist *)
  let x1 := txtpp_run cx_orc u_clean_cfg 9 [0; 1]%nat wb in
  let x2 := txtpp_run cx_orc u_clean_cfg 9 [1]%nat (world_of x1) in
  NoDup (map fst (w_fs wb)) /\ legal_names (w_fs wb) /\ lex_is_dir (w_fs wb) (cfg_base u_clean_cfg) = true /\
  verdict_of x1 = VOk /\
  w_log (world_of x1) = w_log wb ++ [ERemove t_bout; ERemove t_aout; ERemove t_t] /\
  verdict_of x2 = VOk /\ world_of x2 = world_of x1 /\
  (forall fuel' sched' orc', (fuel' > 6)%nat ->
     verdict_of (txtpp_run orc' u_clean_cfg fuel' sched' (world_of x1)) = VOk /\
     world_of (txtpp_run orc' u_clean_cfg fuel' sched' (world_of x1)) = world_of x1).
Proof.
  cbv zeta. set (wb := world_of (txtpp_run cx_orc t_cfg 9 [0; 1; 0; 0]%nat t_w)).
  assert (ND : NoDup (map fst (w_fs wb))) by (vm_compute; repeat constructor; cbn; intuition discriminate).
  assert (WF : legal_names (w_fs wb)).
  { intros p nd H. vm_compute in H.
    repeat (destruct H as [H|H]; [inversion H; subst; repeat constructor; discriminate|]). destruct H. }
  assert (Hb : lex_is_dir (w_fs wb) (cfg_base u_clean_cfg) = true) by (vm_compute; reflexivity).
  assert (E1 : verdict_of (txtpp_run cx_orc u_clean_cfg 9 [0; 1]%nat wb) = VOk) by (vm_compute; reflexivity).
  assert (T : forall fuel' sched' orc',
            let x2 := txtpp_run orc' u_clean_cfg fuel' sched' (world_of (txtpp_run cx_orc u_clean_cfg 9 [0; 1]%nat wb)) in
            (verdict_of x2 = VOk \/ verdict_of x2 = VFuel) /\
            world_of x2 = world_of (txtpp_run cx_orc u_clean_cfg 9 [0; 1]%nat wb) /\
            ((fuel' > 2 * length (src_files (w_fs wb)) + length (dir_entries (w_fs wb)))%nat -> verdict_of x2 = VOk)).
  { intros fuel' sched' orc'.
    apply (clean_idempotent_run cx_orc orc' u_clean_cfg u_clean_cfg 9 fuel' [0; 1]%nat sched' wb);
      [reflexivity|reflexivity|reflexivity|reflexivity|reflexivity|discriminate|exact ND|exact WF|exact Hb|exact E1]. }
  split; [exact ND|]. split; [exact WF|]. split; [exact Hb|]. split; [exact E1|].
  split; [vm_compute; reflexivity|]. split; [vm_compute; reflexivity|].
  split; [apply (T 9%nat [1]%nat cx_orc)|].
  intros fuel' sched' orc' Hf. destruct (T fuel' sched' orc') as (_ & H2 & H3).
  split; [|exact H2]. apply H3.
  replace (2 * length (src_files (w_fs wb)) + length (dir_entries (w_fs wb)))%nat with 6%nat by (vm_compute; reflexivity).
  exact Hf.
Qed.

(* ---- U3, the hypothesis "the first Clean run succeeded" cannot be dropped.  Tree: d1/x.txtpp.txtpp (its output would be
   the `.txtpp` name d1/x.txtpp: every pass over it fails with KOpen), d2/b.txtpp with an existing output d2/b;
   `txtpp clean d1 d2`.  First run: d1 is scanned, the pass over x.txtpp.txtpp fails, the coordinator stops (the scan of
   d2 that was in flight is drained, its result is discarded): d2/b is NOT removed.  Second run, another schedule: d2 is
   scanned first and d2/b.txtpp is cleaned before the failure: d2/b is removed.  Both verdicts are VErr, the second run has
   changed the tree. ---- *)
Definition v_d1 : name := [100; 49].
Definition v_d2 : name := [100; 50].
Definition v_x : name := [120; 46; 116; 120; 116; 112; 112; 46; 116; 120; 116; 112; 112].      (* x.txtpp.txtpp *)
Definition v_bsrc : name := [98; 46; 116; 120; 116; 112; 112].                                  (* b.txtpp *)
Definition v_fs : fs := [([v_d1], Dir); ([v_d2], Dir); ([v_d1; v_x], File [113; 10]);
                         ([v_d2; v_bsrc], File [122; 10]); ([v_d2; [98]], File [122; 10])].
Definition v_w : world := mkW v_fs [].
Definition v_cfg : config := mkCfg [] [v_d1; v_d2] false 1 Clean false.

Example clean_idempotent_needs_success :
  let x1 := txtpp_run cx_orc v_cfg 9 [0; 1]%nat v_w in
  let x2 := txtpp_run cx_orc v_cfg 9 [1; 1]%nat (world_of x1) in
  NoDup (map fst (w_fs v_w)) /\ legal_names (w_fs v_w) /\ lex_is_dir (w_fs v_w) (cfg_base v_cfg) = true /\
  verdict_of x1 = VErr /\ verdict_of x2 = VErr /\
  fs_get (w_fs (world_of x1)) [v_d2; [98]] = Some (File [122; 10]) /\
  fs_get (w_fs (world_of x2)) [v_d2; [98]] = None /\
  ~ w_eq (world_of x2) (world_of x1).
Proof.
  cbv zeta. split; [vm_compute; repeat constructor; cbn; intuition discriminate|].
  split.
  { intros p nd H. vm_compute in H.
    repeat (destruct H as [H|H]; [inversion H; subst; repeat constructor; discriminate|]). destruct H. }
  repeat (split; [vm_compute; reflexivity|]).
  intros H. specialize (H [v_d2; [98]]). vm_compute in H. discriminate H.
Qed.
