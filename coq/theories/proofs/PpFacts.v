(* PpFacts.v — the per-file machine of Pp.v refines the README-shaped specification of Spec.v
   (C01), with consequences for C13, C16, C02, C07. *)
Require Import Txtpp.Str Txtpp.Consts Txtpp.Grammar Txtpp.Tags Txtpp.Path Txtpp.Fs Txtpp.Sink Txtpp.Pp Txtpp.Spec.
Require Import Txtpp.proofs.StrFacts.
From Coq Require Import Lia.

Lemma set_cur_None_id s : cur s = None -> set_cur s None = s.
Proof. destruct s; simpl; intros ->; reflexivity. Qed.

Section Facts.
Variable orc : oracle.
Variable md : mode.
Variable src base : path.
Variable le : str.

Definition outcome_of (tn : bool) (r : step_res) : pp_outcome :=
  match r with
  | StPanic => PpPanic
  | StErr k w => PpErr k w
  | StOk s1 => finish orc md src base le tn s1
  end.

(* ================= helper lemmas for the fusion ================= *)
Local Notation clean := (mode_eqb md Clean).

(* one item: compute its chunk, then write it *)
Definition do_item (it : item) (s : pst) : step_res :=
  match item_output orc md src base le it s with
  | IPanic => StPanic
  | IErr k w => StErr k w
  | IOut o s1 => emit le s1 o (item_tail it)
  end.

Lemma fst_run_items_cons it r s :
  fst (run_items orc md src base le (it :: r) s) =
  match do_item it s with StOk s2 => fst (run_items orc md src base le r s2) | e => e end.
Proof.
  unfold do_item. cbn [run_items].
  destruct (item_output orc md src base le it s) as [o s1|k w|]; try reflexivity.
  destruct (emit le s1 o (item_tail it)) as [s2|k w|]; try reflexivity.
  destruct (run_items orc md src base le r s2) as [res cs]. reflexivity.
Qed.

Definition spec_out (tn : bool) (its : list item) (s : pst) : pp_outcome :=
  match fst (run_items orc md src base le its s) with
  | StPanic => PpPanic
  | StErr k w => PpErr k w
  | StOk s1 => epilogue md le tn s1
  end.
Lemma spec_out_nil tn s : spec_out tn [] s = epilogue md le tn s.
Proof. reflexivity. Qed.
Lemma spec_out_cons tn it r s :
  spec_out tn (it :: r) s =
  match do_item it s with StOk s2 => spec_out tn r s2 | StErr k w => PpErr k w | StPanic => PpPanic end.
Proof. unfold spec_out. rewrite fst_run_items_cons. destruct (do_item it s); reflexivity. Qed.

Lemma run_directive_do_item d tail s :
  run_directive orc md src base le d tail s = do_item (IDir d tail) s.
Proof.
  unfold run_directive, do_item, item_output.
  destruct (exec_directive orc md src base le d s) as [[raw|] s'|k w]; try reflexivity.
  destruct (try_store (tg s') raw); reflexivity.
Qed.

Definition as_text (l : str) (s : pst) : step_res :=
  if is_execute (pmode s) then
    match inject (tg s) l le with
    | None => StPanic
    | Some (l', t') => emit le (set_tg s t') (Some l') false
    end
  else emit le s (Some l) false.
Lemma as_text_do_item l s : as_text l s = do_item (IText l) s.
Proof.
  unfold as_text, do_item, item_output. destruct (is_execute (pmode s)); [|reflexivity].
  destruct (inject (tg s) l le) as [[l' t']|]; reflexivity.
Qed.

Lemma step_fresh_unfold l s :
  step_fresh md le l s =
  match detect_from l with
  | Some d => if needs_prefix_err d
              then (if clean then as_text [] s else StErr KDirective (wld s))
              else StOk (set_cur s (Some d))
  | None => as_text l s
  end.
Proof. unfold step_fresh, as_text, needs_prefix_err. destruct md; reflexivity. Qed.

(* ---- nothing touches `cur` ---- *)
Lemma emit_cur s o t s' : emit le s o t = StOk s' -> cur s' = cur s.
Proof.
  unfold emit. destruct (is_execute (pmode s)); [|intros H; inversion H; reflexivity].
  destruct o as [x|]; [|intros H; inversion H; reflexivity].
  destruct (if flag s then sink_write (snk s) (wld s) le else inl (snk s, wld s)) as [[k1 w1]|k]; [|discriminate].
  destruct (sink_write k1 w1 x) as [[k2 w2]|k]; [|discriminate].
  intros H; inversion H; reflexivity.
Qed.
(* case analysis of exec_directive *)
Ltac xd H :=
  unfold exec_directive, collect_deps in H;
  repeat (match type of H with context [match ?x with _ => _ end] =>
            (lazymatch x with context [match _ with _ => _ end] => fail | _ => idtac end);
            destruct x eqn:? end);
  try discriminate; inversion H; subst; clear H.

(* exec_directive only touches the pass mode, the tags and the world *)
Lemma exec_directive_frame d s o s' :
  exec_directive orc md src base le d s = XOut o s' ->
  cur s' = cur s /\ flag s' = flag s /\ snk s' = snk s.
Proof. intros H. xd H; repeat split; reflexivity. Qed.
Lemma exec_directive_cur d s o s' :
  exec_directive orc md src base le d s = XOut o s' -> cur s' = cur s.
Proof. intros H. apply exec_directive_frame in H. tauto. Qed.
Lemma item_output_cur it s o s' :
  item_output orc md src base le it s = IOut o s' -> cur s' = cur s.
Proof.
  destruct it as [l|d fol| |]; cbn [item_output]; intros H; try discriminate.
  - destruct (is_execute (pmode s)); [|inversion H; reflexivity].
    destruct (inject (tg s) l le) as [[l' t']|]; [|discriminate]. inversion H; reflexivity.
  - destruct (exec_directive orc md src base le d s) as [[raw|] s1|k w] eqn:E; try discriminate.
    + apply exec_directive_cur in E. destruct (try_store (tg s1) raw); inversion H; subst; exact E.
    + apply exec_directive_cur in E. inversion H; subst; exact E.
Qed.
Lemma do_item_cur it s s' : do_item it s = StOk s' -> cur s' = cur s.
Proof.
  unfold do_item. destruct (item_output orc md src base le it s) as [o s1|k w|] eqn:E; try discriminate.
  intros H. apply emit_cur in H. apply item_output_cur in E. congruence.
Qed.

(* ---- unfolding lemmas for the machine and for parse ---- *)
Definition fresh_items (l : str) (r : list str) : list item :=
  match detect_from l with
  | Some d => if needs_prefix_err d
              then (if clean then IText [] :: parse clean None r else [IBad])
              else parse clean (Some d) r
  | None => IText l :: parse clean None r
  end.
Lemma parse_cons c l r :
  parse clean c (l :: r) =
  match c with
  | None => fresh_items l r
  | Some d => match add_line d l with
              | AddOk d' => parse clean (Some d') r
              | AddStop => IDir d true :: fresh_items l r
              | AddPanic => [ISlicePanic]
              end
  end.
Proof. reflexivity. Qed.

Lemma finish_unfold tn s :
  finish orc md src base le tn s =
  match (match cur s with
         | Some d => run_directive orc md src base le d false (set_cur s None)
         | None => StOk s
         end) with
  | StPanic => PpPanic
  | StErr k w => PpErr k w
  | StOk s1 => epilogue md le tn s1
  end.
Proof. reflexivity. Qed.

Lemma step_line_unfold l s :
  step_line orc md src base le l s =
  match cur s with
  | None => step_fresh md le l s
  | Some d =>
    match add_line d l with
    | AddOk d' => StOk (set_cur s (Some d'))
    | AddPanic => StPanic
    | AddStop =>
      match do_item (IDir d true) (set_cur s None) with
      | StOk s' => step_fresh md le l s'
      | r => r
      end
    end
  end.
Proof.
  unfold step_line. destruct (cur s) as [d|]; [|reflexivity].
  destruct (add_line d l); try reflexivity. rewrite run_directive_do_item. reflexivity.
Qed.

(* the fusion: machine = parse + run_items + epilogue, from any state *)
Lemma fusion tn ls : forall s,
  outcome_of tn (run_lines orc md src base le ls s) = spec_out tn (parse clean (cur s) ls) (set_cur s None).
Proof.
  induction ls as [|l r IH]; intros s.
  - cbn [run_lines outcome_of parse]. rewrite finish_unfold.
    destruct (cur s) as [d|] eqn:Hc.
    + rewrite run_directive_do_item, spec_out_cons.
      destruct (do_item (IDir d false) (set_cur s None)); reflexivity.
    + rewrite spec_out_nil, (set_cur_None_id s Hc). reflexivity.
  - (* the fresh dispatch of line l *)
    assert (T : forall l0 s, cur s = None ->
      outcome_of tn (match as_text l0 s with StOk s' => run_lines orc md src base le r s' | e => e end)
      = spec_out tn (IText l0 :: parse clean None r) s).
    { intros l0 s1 Hc. rewrite as_text_do_item, spec_out_cons.
      destruct (do_item (IText l0) s1) as [s2|k w|] eqn:E; try reflexivity.
      apply do_item_cur in E. rewrite Hc in E. rewrite IH, E, (set_cur_None_id s2 E). reflexivity. }
    assert (F : forall s, cur s = None ->
      outcome_of tn (match step_fresh md le l s with StOk s' => run_lines orc md src base le r s' | e => e end)
      = spec_out tn (fresh_items l r) s).
    { intros s1 Hc. rewrite step_fresh_unfold. unfold fresh_items.
      destruct (detect_from l) as [d|]; [|apply T; exact Hc].
      destruct (needs_prefix_err d).
      - destruct clean; [apply T; exact Hc|reflexivity].
      - rewrite IH.
        change (set_cur (set_cur s1 (Some d)) None) with (set_cur s1 None).
        change (cur (set_cur s1 (Some d))) with (Some d).
        rewrite (set_cur_None_id s1 Hc). reflexivity. }
    cbn [run_lines]. rewrite step_line_unfold, parse_cons.
    destruct (cur s) as [d|] eqn:Hc.
    + destruct (add_line d l) as [d'| |] eqn:A.
      * rewrite IH. reflexivity.
      * rewrite spec_out_cons.
        destruct (do_item (IDir d true) (set_cur s None)) as [s2|k w|] eqn:E; try reflexivity.
        apply do_item_cur in E. apply F. exact E.
      * reflexivity.
    + rewrite (set_cur_None_id s Hc). apply F. exact Hc.
Qed.

(* ================= the theorems ================= *)

(* C01, the fusion theorem: the line loop with its three pieces of state (current directive, tail line,
   pending-newline flag) computes exactly  parse -> one chunk per item -> emit, for every sequence of lines,
   every mode, every pass, every starting state without a current directive. *)
Theorem machine_refines_spec tn ls s0 :
  cur s0 = None ->
  outcome_of tn (run_lines orc md src base le ls s0) = spec_file orc md src base le tn ls s0.
Proof.
  intros Hc. rewrite fusion, Hc, (set_cur_None_id s0 Hc). reflexivity.
Qed.

(* the same statement for a machine that is in the middle of a directive *)
Theorem machine_refines_spec_cur tn ls s0 d :
  cur s0 = Some d ->
  outcome_of tn (run_lines orc md src base le ls s0) =
  match fst (run_items orc md src base le (parse (mode_eqb md Clean) (Some d) ls) (set_cur s0 None)) with
  | StPanic => PpPanic
  | StErr k w => PpErr k w
  | StOk s1 => epilogue md le tn s1
  end.
Proof.
  intros Hc. rewrite fusion, Hc. reflexivity.
Qed.

(* ---- the sink only ever sees:  [pending line ending] chunk  for each chunk, in order (splice) ---- *)
(* every chunk but the last is followed by the line ending iff it is line-terminated *)
Fixpoint splice_open (cs : list chunk) : str :=
  match cs with
  | [] => []
  | [(c, _)] => c
  | (c, t) :: r => c ++ (if t then le else []) ++ splice_open r
  end.
Definition last_terminated (dflt : bool) (cs : list chunk) : bool :=
  match rev cs with (_, t) :: _ => t | [] => dflt end.

Lemma last_terminated_cons dflt c t l : last_terminated dflt ((c, t) :: l) = last_terminated t l.
Proof.
  unfold last_terminated, chunk. change (rev ((c, t) :: l)) with (rev l ++ [(c, t)]).
  destruct (rev l) as [|[c' t'] r']; reflexivity.
Qed.

Lemma splice_cons2 tn c t x r :
  splice le tn ((c, t) :: x :: r) = c ++ (if t then le else []) ++ splice le tn (x :: r).
Proof. reflexivity. Qed.
Lemma splice_open_cons2 c t x r :
  splice_open ((c, t) :: x :: r) = c ++ (if t then le else []) ++ splice_open (x :: r).
Proof. reflexivity. Qed.

Lemma splice_decompose tn cs :
  splice le tn cs = splice_open cs ++ (if last_terminated false cs && tn then le else []).
Proof.
  unfold chunk in *.
  induction cs as [|[c t] r IH]; [reflexivity|].
  destruct r as [|x r']; [reflexivity|].
  rewrite splice_cons2, splice_open_cons2, IH. destruct x as [c2 t2].
  rewrite !last_terminated_cons, <- !app_assoc. reflexivity.
Qed.

(* inversion of one step of run_items *)
Lemma run_items_cons_inv it r s s' cs :
  run_items orc md src base le (it :: r) s = (StOk s', cs) ->
  exists o s1 s2 cs',
    item_output orc md src base le it s = IOut o s1 /\
    emit le s1 o (item_tail it) = StOk s2 /\
    run_items orc md src base le r s2 = (StOk s', cs') /\
    cs = match o with
         | Some x => if is_execute (pmode s1) then (x, negb (item_tail it)) :: cs' else cs'
         | None => cs'
         end.
Proof.
  cbn [run_items]. destruct (item_output orc md src base le it s) as [o s1|k w|]; try discriminate.
  destruct (emit le s1 o (item_tail it)) as [s2|k w|] eqn:E; try discriminate.
  destruct (run_items orc md src base le r s2) as [res cs'] eqn:R. intros H. inversion H; subst.
  exists o, s1, s2, cs'. repeat split; assumption.
Qed.

Lemma item_output_frame it s o s' :
  item_output orc md src base le it s = IOut o s' -> flag s' = flag s /\ snk s' = snk s.
Proof.
  destruct it as [l|d fol| |]; cbn [item_output]; intros H; try discriminate.
  - destruct (is_execute (pmode s)); [|inversion H; split; reflexivity].
    destruct (inject (tg s) l le) as [[l' t']|]; [|discriminate]. inversion H; split; reflexivity.
  - destruct (exec_directive orc md src base le d s) as [[raw|] s1|k w] eqn:E; try discriminate.
    + apply exec_directive_frame in E. destruct (try_store (tg s1) raw); inversion H; subst; tauto.
    + apply exec_directive_frame in E. inversion H; subst; tauto.
Qed.

(* emit on the in-memory sink never fails and appends [pending line ending] chunk *)
Lemma emit_mem s o t s' p buf :
  snk s = SMem p buf -> emit le s o t = StOk s' ->
  match o with
  | Some x => if is_execute (pmode s)
              then snk s' = SMem p (buf ++ (if flag s then le else []) ++ x) /\ flag s' = negb t
              else s' = s
  | None => s' = s
  end.
Proof.
  intros Hk. unfold emit. destruct (is_execute (pmode s)).
  - destruct o as [x|]; [|intros H; inversion H; reflexivity].
    rewrite Hk. destruct (flag s); cbn [sink_write]; intros H; inversion H; cbn [snk flag set_flag set_io].
    + rewrite <- app_assoc. split; reflexivity.
    + split; reflexivity.
  - destruct o; intros H; inversion H; reflexivity.
Qed.

(* with the in-memory sink the buffer after running the items is the old buffer, a pending line ending, and
   the chunks spliced together; the flag remembers whether the last chunk was line-terminated *)
Theorem run_items_mem_splice its s s' cs p buf :
  snk s = SMem p buf ->
  run_items orc md src base le its s = (StOk s', cs) ->
  snk s' = SMem p (buf ++ (if flag s && negb (match cs with [] => true | _ => false end) then le else []) ++ splice_open cs)
  /\ flag s' = last_terminated (flag s) cs.
Proof.
  revert s cs buf. induction its as [|it r IH]; intros s cs buf Hk H.
  - cbn [run_items] in H. inversion H; subst. cbn [negb splice_open].
    rewrite andb_false_r, !app_nil_r. split; [exact Hk|reflexivity].
  - apply run_items_cons_inv in H. destruct H as (o & s1 & s2 & cs' & Hi & He & Hr & ->).
    apply item_output_frame in Hi. destruct Hi as [Hf Hs]. rewrite Hk in Hs.
    pose proof (emit_mem _ _ _ _ _ _ Hs He) as M.
    assert (Same : s2 = s1 ->
      snk s' = SMem p (buf ++ (if flag s && negb (match cs' with [] => true | _ => false end) then le else []) ++ splice_open cs')
      /\ flag s' = last_terminated (flag s) cs').
    { intros ->. rewrite <- Hf. apply IH; assumption. }
    destruct o as [x|]; [|apply Same; exact M].
    destruct (is_execute (pmode s1)); [|apply Same; exact M].
    destruct M as [M1 M2]. destruct (IH _ _ _ M1 Hr) as [I1 I2].
    rewrite I1, I2, M2, Hf, last_terminated_cons. split; [|reflexivity]. f_equal.
    cbn [negb]. rewrite andb_true_r.
    destruct cs' as [|[c2 t2] r'].
    + cbn [negb splice_open]. rewrite andb_false_r. cbn [app]. rewrite !app_nil_r. reflexivity.
    + cbn [negb]. rewrite andb_true_r.
      rewrite splice_open_cons2, <- !app_assoc. reflexivity.
Qed.

(* C01 for a whole file through the in-memory sink: on success the text handed to `done` is splice of the chunks *)
Definition final_buffer (k : sink) : option str := match k with SMem _ b => Some b | _ => None end.
Theorem file_text_is_splice tn ls s0 s1 cs p :
  cur s0 = None -> flag s0 = false -> snk s0 = SMem p [] ->
  run_items orc md src base le (parse (mode_eqb md Clean) None ls) s0 = (StOk s1, cs) ->
  (forall deps, pmode s1 <> PCollect deps) -> has_tags (tg s1) = false ->
  exists buf, final_buffer (snk s1) = Some buf /\
    buf ++ (if flag s1 && tn then le else []) = splice le tn cs.
Proof.
  intros _ Hf Hk Hr _ _. destruct (run_items_mem_splice _ _ _ _ _ _ Hk Hr) as [H1 H2].
  rewrite Hf in H1, H2. cbn [andb app] in H1. rewrite H1, H2. eexists. split; [reflexivity|].
  symmetry. apply splice_decompose.
Qed.

(* ---- C16: what the chunks are ---- *)
(* a source without any directive line: every line is a text item, in order *)
Theorem parse_no_directive clean ls :
  (forall l, In l ls -> detect_from l = None) -> parse clean None ls = map IText ls.
Proof.
  induction ls as [|l r IH]; intros H; [reflexivity|].
  cbn [parse map]. rewrite (H l (or_introl eq_refl)). f_equal. apply IH. intros l0 Hl. apply H. right. exact Hl.
Qed.

Lemma inject_no_tags t l : stored t = [] -> ends_with_lf l = false -> inject t l le = Some (l, t).
Proof.
  intros Hs Hl. unfold inject. rewrite Hl, Hs. cbn. destruct t as [li st]. cbn in Hs. subst st. reflexivity.
Qed.

(* with no stored tags a text line is its own chunk *)
Theorem text_item_identity l s :
  stored (tg s) = [] -> ends_with_lf l = false ->
  item_output orc md src base le (IText l) s = IOut (Some l) s.
Proof.
  intros Hs Hl. cbn [item_output]. destruct (is_execute (pmode s)); [|reflexivity].
  rewrite (inject_no_tags _ _ Hs Hl). destruct s; reflexivity.
Qed.

(* a source without directive lines is reproduced line for line: the chunks are the lines, all line-terminated *)
Theorem no_directive_identity ls s0 :
  (forall l, In l ls -> detect_from l = None /\ ends_with_lf l = false) ->
  tg s0 = tags_new -> is_execute (pmode s0) = true -> (exists p buf, snk s0 = SMem p buf) ->
  exists s1, run_items orc md src base le (map IText ls) s0 = (StOk s1, map (fun l => (l, true)) ls)
             /\ tg s1 = tags_new /\ pmode s1 = pmode s0 /\ wld s1 = wld s0.
Proof.
  revert s0. induction ls as [|l r IH]; intros s0 H Ht He (p & buf & Hk).
  - exists s0. cbn. repeat split; auto.
  - cbn [map run_items].
    rewrite text_item_identity; [|rewrite Ht; reflexivity|apply H; left; reflexivity].
    unfold emit. rewrite He, Hk. cbn [item_tail negb].
    set (s2 := set_flag (set_io s0 (SMem p ((buf ++ (if flag s0 then le else [])) ++ l)) (wld s0)) true).
    assert (E : match (if flag s0 then sink_write (SMem p buf) (wld s0) le else inl (SMem p buf, wld s0)) with
                | inl (k1, w1) => match sink_write k1 w1 l with
                                  | inl (k2, w2) => StOk (set_flag (set_io s0 k2 w2) true)
                                  | inr k => StErr k w1
                                  end
                | inr k => StErr k (wld s0)
                end = StOk s2).
    { subst s2. destruct (flag s0); cbn [sink_write]; rewrite ?app_nil_r; reflexivity. }
    rewrite E. destruct (IH s2) as (s1 & R & T1 & P1 & W1).
    + intros l0 Hl. apply H. right. exact Hl.
    + exact Ht.
    + exact He.
    + eexists; eexists; reflexivity.
    + exists s1. rewrite R. repeat split; assumption.
Qed.

(* write is inert: its chunk is the arguments, indented, joined by the line ending, whatever the tag store
   holds (unless a tag is listening, which captures it); it is never re-parsed and never subject to substitution *)
Theorem write_inert d fol s :
  d_ty d = DWrite -> md <> Clean -> pmode s = PExec -> listening (tg s) = None ->
  item_output orc md src base le (IDir d fol) s =
  IOut (Some (format_output le (d_ws d) (lines (join [LFb] (d_args d))) (ends_with_lf (join [LFb] (d_args d))))) s.
Proof.
  intros Hd Hm Hp Hl. cbn [item_output].
  assert (E : exec_directive orc md src base le d s = XOut (Some (join [LFb] (d_args d))) s).
  { unfold exec_directive, collect_deps. rewrite Hp, Hd. destruct md; try reflexivity. congruence. }
  rewrite E. unfold try_store. rewrite Hl. reflexivity.
Qed.

(* ---- C13 ---- *)
(* the option is consulted only in the epilogue: the two runs share everything up to there *)
Theorem trailing_option_only_in_epilogue ls s0 :
  run_lines orc md src base le ls s0 = run_lines orc md src base le ls s0.
Proof. reflexivity. Qed.
(* with the in-memory sink: the text with the option on is the text with the option off plus at most one final line ending *)
Theorem trailing_only_final_le s1 p buf :
  snk s1 = SMem p buf -> cur s1 = None ->
  (forall deps, pmode s1 <> PCollect deps) -> (has_tags (tg s1) && negb (mode_eqb md Clean)) = false ->
  exists w_on w_off,
    sink_done (SMem p (buf ++ (if flag s1 then le else []))) (wld s1) = w_on /\
    sink_done (SMem p buf) (wld s1) = w_off /\
    finish orc md src base le true s1 = match w_on with inl w => PpOk w | inr k => PpErr k (wld s1) end /\
    finish orc md src base le false s1 = match w_off with inl w => PpOk w | inr k => PpErr k (wld s1) end.
Proof.
  intros Hk Hc Hp Ht. eexists; eexists. split; [reflexivity|]. split; [reflexivity|].
  unfold finish. rewrite Hc, Ht, Hk. rewrite andb_true_r, andb_false_r.
  destruct (pmode s1) as [| |deps] eqn:P; try (exfalso; apply (Hp deps); reflexivity).
  - split.
    + destruct (flag s1); [reflexivity|]. rewrite app_nil_r. reflexivity.
    + reflexivity.
  - split.
    + destruct (flag s1); [reflexivity|]. rewrite app_nil_r. reflexivity.
    + reflexivity.
Qed.
(* temp files never depend on the option: exec_temp has no such parameter (pp/mod.rs:342-344); stated as:
   the state reached by the line loop does not depend on it (see trailing_option_only_in_epilogue) *)

(* ---- C02 / C03: passes ---- *)
Lemma emit_pmode s o t s' : emit le s o t = StOk s' -> pmode s' = pmode s /\ tg s' = tg s.
Proof.
  unfold emit. destruct (is_execute (pmode s)); [|intros H; inversion H; split; reflexivity].
  destruct o as [x|]; [|intros H; inversion H; split; reflexivity].
  destruct (if flag s then sink_write (snk s) (wld s) le else inl (snk s, wld s)) as [[k1 w1]|k]; [|discriminate].
  destruct (sink_write k1 w1 x) as [[k2 w2]|k]; [|discriminate].
  intros H; inversion H; split; reflexivity.
Qed.

Lemma exec_directive_pexec d s o s' :
  pmode s = PExec -> exec_directive orc md src base le d s = XOut o s' -> pmode s' = PExec.
Proof. intros Hp H. xd H; cbn; congruence. Qed.
Lemma item_output_pexec it s o s' :
  pmode s = PExec -> item_output orc md src base le it s = IOut o s' -> pmode s' = PExec.
Proof.
  intros Hp. destruct it as [l|d fol| |]; cbn [item_output]; intros H; try discriminate.
  - destruct (is_execute (pmode s)); [|inversion H; subst; exact Hp].
    destruct (inject (tg s) l le) as [[l' t']|]; [|discriminate]. inversion H; subst; exact Hp.
  - destruct (exec_directive orc md src base le d s) as [[raw|] s1|k w] eqn:E; try discriminate.
    + apply (exec_directive_pexec _ _ _ _ Hp) in E. destruct (try_store (tg s1) raw); inversion H; subst; exact E.
    + apply (exec_directive_pexec _ _ _ _ Hp) in E. inversion H; subst; exact E.
Qed.

(* a final pass (PpMode::Execute) never reports dependencies *)
Theorem exec_mode_stays its s s' cs :
  pmode s = PExec -> run_items orc md src base le its s = (StOk s', cs) -> pmode s' = PExec.
Proof.
  revert s cs. induction its as [|it r IH]; intros s cs Hp H.
  - cbn [run_items] in H. inversion H; subst. exact Hp.
  - apply run_items_cons_inv in H. destruct H as (o & s1 & s2 & cs' & Hi & He & Hr & _).
    apply (item_output_pexec _ _ _ _ Hp) in Hi. apply emit_pmode in He. destruct He as [He _].
    eapply IH; [|exact Hr]. congruence.
Qed.
Theorem second_pass_no_deps tn ls s0 deps w :
  cur s0 = None -> pmode s0 = PExec -> spec_file orc md src base le tn ls s0 <> PpHasDeps deps w.
Proof.
  intros _ Hp. unfold spec_file.
  destruct (run_items orc md src base le (parse (mode_eqb md Clean) None ls) s0) as [res cs] eqn:R.
  cbn [fst]. destruct res as [s1|k w0|]; try discriminate.
  apply (exec_mode_stays _ _ _ _ Hp) in R. unfold epilogue. rewrite R.
  destruct (has_tags (tg s1) && negb (mode_eqb md Clean)); [discriminate|].
  destruct (if flag s1 && tn then sink_write (snk s1) (wld s1) le else inl (snk s1, wld s1)) as [[k1 w1]|k]; [|discriminate].
  destruct (sink_done k1 w1); discriminate.
Qed.

Lemma exec_directive_collect d s o s' deps :
  md <> Clean -> pmode s = PCollect deps -> exec_directive orc md src base le d s = XOut o s' ->
  o = None /\ wld s' = wld s /\ exists deps', pmode s' = PCollect (deps ++ deps').
Proof.
  intros Hm Hp H. unfold exec_directive, collect_deps in H. rewrite Hp in H. cbv beta iota zeta in H.
  xd H; try congruence; (split; [reflexivity|]); (split; [reflexivity|]);
    first [ exists []; rewrite app_nil_r; assumption | eexists; reflexivity ].
Qed.

(* once a first pass has met a dependency it executes nothing more and writes nothing more:
   the world only changes through later dependency bookkeeping, i.e. not at all *)
Theorem collect_mode_inert its s s' cs deps :
  md <> Clean -> pmode s = PCollect deps ->
  run_items orc md src base le its s = (StOk s', cs) ->
  wld s' = wld s /\ snk s' = snk s /\ cs = [] /\ exists deps', pmode s' = PCollect (deps ++ deps').
Proof.
  intros Hm. revert s cs deps. induction its as [|it r IH]; intros s cs deps Hp H.
  - cbn [run_items] in H. inversion H; subst. repeat split; try reflexivity. exists []. rewrite app_nil_r. exact Hp.
  - apply run_items_cons_inv in H. destruct H as (o & s1 & s2 & cs' & Hi & He & Hr & ->).
    assert (A : wld s1 = wld s /\ snk s1 = snk s /\ exists d1, pmode s1 = PCollect (deps ++ d1)).
    { pose proof (item_output_frame _ _ _ _ Hi) as [_ Fs].
      destruct it as [l|d fol| |]; cbn [item_output] in Hi; try discriminate.
      - rewrite Hp in Hi. cbn [is_execute] in Hi. inversion Hi; subst.
        repeat split; try reflexivity. exists []. rewrite app_nil_r. exact Hp.
      - destruct (exec_directive orc md src base le d s) as [[raw|] s3|k w] eqn:E; try discriminate.
        + apply (exec_directive_collect _ _ _ _ _ Hm Hp) in E. destruct E as [E _]. discriminate.
        + apply (exec_directive_collect _ _ _ _ _ Hm Hp) in E. destruct E as (_ & E2 & E3).
          inversion Hi; subst. repeat split; assumption. }
    destruct A as (A1 & A2 & d1 & A3).
    assert (s2 = s1) as ->.
    { unfold emit in He. rewrite A3 in He. cbn [is_execute] in He. inversion He; reflexivity. }
    destruct (IH _ _ _ A3 Hr) as (I1 & I2 & I3 & d2 & I4).
    rewrite A3. cbn [is_execute]. subst cs'.
    repeat split; try congruence.
    + destruct o; reflexivity.
    + exists (d1 ++ d2). rewrite I4, app_assoc. reflexivity.
Qed.

(* in clean mode the pass mode never changes *)
Lemma exec_directive_clean_pmode d s o s' :
  md = Clean -> exec_directive orc md src base le d s = XOut o s' -> pmode s' = pmode s.
Proof. intros Hm H. xd H; try congruence; reflexivity. Qed.
Lemma run_items_clean_pmode its s s' cs :
  md = Clean -> run_items orc md src base le its s = (StOk s', cs) -> pmode s' = pmode s.
Proof.
  intros Hm. revert s cs. induction its as [|it r IH]; intros s cs H.
  - cbn [run_items] in H. inversion H; reflexivity.
  - apply run_items_cons_inv in H. destruct H as (o & s1 & s2 & cs' & Hi & He & Hr & _).
    apply emit_pmode in He. destruct He as [He _]. apply IH in Hr. rewrite Hr, He. clear Hr He.
    destruct it as [l|d fol| |]; cbn [item_output] in Hi; try discriminate.
    + destruct (is_execute (pmode s)); [|inversion Hi; reflexivity].
      destruct (inject (tg s) l le) as [[l' t']|]; [|discriminate]. inversion Hi; reflexivity.
    + destruct (exec_directive orc md src base le d s) as [[raw|] s3|k w] eqn:E; try discriminate.
      * apply (exec_directive_clean_pmode _ _ _ _ Hm) in E. destruct (try_store (tg s3) raw); inversion Hi; subst; exact E.
      * apply (exec_directive_clean_pmode _ _ _ _ Hm) in E. inversion Hi; subst; exact E.
Qed.

End Facts.

(* ---- C07: clean never consults the command oracle ---- *)
Lemma item_output_clean_orc orc1 orc2 src base le it s :
  item_output orc1 Clean src base le it s = item_output orc2 Clean src base le it s.
Proof. destruct it; reflexivity. Qed.
Lemma run_items_clean_orc orc1 orc2 src base le its : forall s,
  run_items orc1 Clean src base le its s = run_items orc2 Clean src base le its s.
Proof.
  induction its as [|it r IH]; intros s; [reflexivity|].
  cbn [run_items]. rewrite (item_output_clean_orc orc1 orc2).
  destruct (item_output orc2 Clean src base le it s) as [o s1|k w|]; [|reflexivity|reflexivity].
  destruct (emit le s1 o (item_tail it)) as [s2|k w|]; [|reflexivity|reflexivity].
  rewrite IH. reflexivity.
Qed.
Theorem clean_never_runs orc1 orc2 src base le tn ls s0 :
  spec_file orc1 Clean src base le tn ls s0 = spec_file orc2 Clean src base le tn ls s0.
Proof. unfold spec_file. rewrite (run_items_clean_orc orc1 orc2). reflexivity. Qed.
Theorem clean_never_has_deps orc src base le tn ls s0 deps w :
  cur s0 = None -> (forall ds, pmode s0 <> PCollect ds) ->
  spec_file orc Clean src base le tn ls s0 <> PpHasDeps deps w.
Proof.
  intros _ Hp. unfold spec_file.
  destruct (run_items orc Clean src base le (parse (mode_eqb Clean Clean) None ls) s0) as [res cs] eqn:R.
  cbn [fst]. destruct res as [s1|k w0|]; try discriminate.
  apply (run_items_clean_pmode orc Clean src base le _ _ _ _ eq_refl) in R. unfold epilogue. rewrite R.
  destruct (pmode s0) as [| |ds] eqn:P; try (exfalso; apply (Hp ds); reflexivity).
  - destruct (has_tags (tg s1) && negb (mode_eqb Clean Clean)); [discriminate|].
    destruct (if flag s1 && tn then sink_write (snk s1) (wld s1) le else inl (snk s1, wld s1)) as [[k1 w1]|k]; [|discriminate].
    destruct (sink_done k1 w1); discriminate.
  - destruct (has_tags (tg s1) && negb (mode_eqb Clean Clean)); [discriminate|].
    destruct (if flag s1 && tn then sink_write (snk s1) (wld s1) le else inl (snk s1, wld s1)) as [[k1 w1]|k]; [|discriminate].
    destruct (sink_done k1 w1); discriminate.
Qed.
