(* ExtraFacts.v — further property theorems: C16 (write round trip), C01 (the build fails exactly for the prescribed
   errors), C11 (exactly the required sources are processed), C14 (an independent left-to-right scanner).
   TASK: DESIGN-and-prove each goal: write the statement as precisely as you can, test it on a concrete example with
   vm_compute, prove it. Leave NO Admitted; report the exact final statements. *)
Require Import Txtpp.Str Txtpp.Consts Txtpp.Grammar Txtpp.Tags Txtpp.Path Txtpp.Fs Txtpp.Sink Txtpp.Pp Txtpp.Spec.
Require Import Txtpp.Dep Txtpp.Coord Txtpp.Run.
Require Import Txtpp.proofs.StrFacts Txtpp.proofs.GrammarFacts Txtpp.proofs.TagsFacts Txtpp.proofs.SinkFacts Txtpp.proofs.PathFacts.
Require Import Txtpp.proofs.PpFacts Txtpp.proofs.EventFacts Txtpp.proofs.DepFacts Txtpp.proofs.CoordFacts Txtpp.proofs.RunFacts.
From Coq Require Import Lia Permutation.

(* GOAL A (C16) — write round trip.  "Any sequence of lines (no leading blank on the first, no trailing blanks) is
   reproduced exactly by escaping it with write."  Define
     escape (p : str) (ls : list str) : list str := (p ++ TXTPP_HASH ++ "write" ++ " " ++ l1) :: map (fun l => p ++ l) rest
   for a one-character ASCII prefix p such as "-" (a non-empty prefix that is not white space, contains no TXTPP#, and is such
   that no line of ls can be mistaken... state what you need), and a predicate `escapable ls`: ls non-empty, every line free of
   CR and LF and valid UTF-8, no line ends with a white-space character, the first line does not start with one, the last line
   is non-empty (an empty last line is dropped by `lines`: say so, or handle it).
   Theorem write_roundtrip: the parsed items of `escape p ls` are exactly one write directive at end of file
   (`parse false None (escape p ls) = [IDir d false]` with d_ty d = DWrite, d_args d = ls, d_ws d = [], d_prefix d = p), and running it
   from a fresh state with the in-memory sink (PExec, tags_new, flag false) yields the single chunk `join le ls` marked
   line-terminated, hence the text `join le ls ++ le` with the trailing-newline option (use PpFacts.file_text_is_splice /
   write_inert).  The content is never re-read as a directive and never subject to tag substitution: state the theorem for an
   ARBITRARY tag store with nothing listening. *)

(* GOAL B (C01) — "The build fails if and only if those semantics prescribe an error".  Define an inductive
   `prescribed_error orc md src base le : item -> pst -> Prop` with one constructor per documented cause:
   prefix-less multi-line directive (IBad); `run` whose command fails (oracle None); `include` whose target does not resolve, is a
   directory / unreadable, or is not UTF-8; `tag` while another tag is listening or with a name equal to / prefix of / prefixed by a
   stored name (use TagsFacts.create_errors_iff); `temp` whose target has the txtpp shape; `temp` whose file cannot be written;
   (first passes only) a dependency that cannot be resolved.  Prove, for md <> Clean:
     item_output orc md src base le it s = IErr k w  <->  prescribed_error ... it s   (with k, w determined).
   Then the file level: `spec_file ... = PpErr k w` iff (some item has a prescribed error after the items before it ran fine) or
   (all items ran fine and a tag is left unused) or (a write to the sink failed).  Use PpFacts.machine_refines_spec to transfer it to pp_run's
   line loop if convenient. *)

(* GOAL C (C11) — exactly the required sources are processed.  For a run `run_loop` started from
   `ginit files dirs` (RunFacts: states are greach), prove the converse of CoordFacts.inputs_seen / deps_seen at the level of
   the trace of a run: every file that was ever given a pass (every `TPp f b` in the trace), is an input (In f files), or was
   returned by a completed directory scan in the trace, or was reported as a dependency by a completed first pass in the trace;
   and every scanned directory is an input directory or was returned by a completed scan. State it on `trace_of (run_loop ...)`
   (list (task * result)). Also: in Clean mode no pass ever reports dependencies (PpFacts.clean_never_has_deps), so no file is
   processed because of a dependency. *)

(* GOAL D (C14) — an independent left-to-right scanner.  Define `scan` by structural recursion on the remaining suffix of the
   line (keep the original line and the current offset): at offset i, if some stored tag (k, v) has find_sub k line = Some i
   (its FIRST occurrence is exactly here) — unique under prefix_free — emit replace_line_ending v le false, jump to i + length k
   (bytes in between are not examined: tags whose first occurrence falls inside are left alone), delete k from the store; otherwise
   copy the byte at i and continue at i+1. Take care of the empty tag name (it matches at offset 0 and consumes nothing: then
   continue with the rest WITHOUT looking for tags at the same offset again only if that is what `inject` does — check with
   vm_compute first). Prove: prefix_free (stored t) -> ends_with_lf l = false -> inject t l le = Some (o, t') ->
   scan ... = (o, st') /\ Permutation st' (stored t'). *)

(* ------------------------------------------------------------------------------------------------------------
   The four goals are proved in separate files (no Admitted, no axioms):
     GOAL A  ExtraFactsA.v : escape, good_prefix, plain_line, escapable; write_roundtrip_parse, write_roundtrip_chunk,
                             write_roundtrip_run, write_roundtrip_file
     GOAL D  ExtraFactsD.v : first_at, scan, scan_line; inject_is_scan, inject_scan_perm, inject_eq_scan
     GOAL B  ExtraFactsB.v : temp_unwritable, write_temp_err_iff, is_dep, executes, prescribed_error, item_error_iff,
                             write_error, emit_err_iff, run_items_err_iff, epilogue_error, spec_file_err_iff, machine_err_iff
     GOAL C  ExtraFactsC.v : just_file, just_dir, well_justified; only_required_processed, processed_file_required,
                             scanned_dir_required, deps_only_from_first_passes, clean_processed_file_required,
                             txtpp_run_only_required
   This file re-exports them and checks that the main theorems are closed under the global context. *)
Require Export Txtpp.proofs.ExtraFactsA Txtpp.proofs.ExtraFactsD Txtpp.proofs.ExtraFactsB Txtpp.proofs.ExtraFactsC.

Print Assumptions write_roundtrip_file.
Print Assumptions write_roundtrip_run.
Print Assumptions inject_is_scan.
Print Assumptions inject_eq_scan.
Print Assumptions item_error_iff.
Print Assumptions machine_err_iff.
Print Assumptions only_required_processed.
Print Assumptions clean_processed_file_required.
Print Assumptions txtpp_run_only_required.
