(* ShellFacts.v — the contract of `run` directives (C17): what is handed to the shell, where it runs,
   what TXTPP_FILE is, and the known finding about TXTPP_FILE for nested sources. *)
Require Import Txtpp.Str Txtpp.Consts Txtpp.Grammar Txtpp.Tags Txtpp.Path Txtpp.Fs Txtpp.Sink Txtpp.Pp Txtpp.Spec.
Require Import Txtpp.proofs.StrFacts Txtpp.proofs.SinkFacts Txtpp.proofs.PathFacts Txtpp.proofs.EventFacts.
From Coq Require Import Lia.

(* what the shell receives for a run directive: ONE argument = the argument lines joined by single spaces,
   the working directory = the directory of the source, TXTPP_FILE = the display path of the source;
   stdout is the directive's output; failure (spawn error or non-zero status) is a directive error *)
Lemma run_invocation orc md src base le d s :
  md <> Clean -> pmode s = PExec -> d_ty d = DRun ->
  let cmd := join [SPb] (d_args d) in
  let cwd := parent src in
  let file := display_from_base base src in
  exec_directive orc md src base le d s =
  match orc cmd cwd file with
  | Some out => XOut (Some out) (set_wld s (w_emit (wld s) (ERun cmd cwd file)))
  | None => XErr KDirective (w_emit (wld s) (ERun cmd cwd file))
  end.
Proof.
  intros Hmd Hpm Hty. cbv zeta.
  unfold exec_directive, collect_deps. rewrite Hpm, Hty.
  destruct md; try contradiction; reflexivity.
Qed.

(* TXTPP_FILE designates the source: it is the absolute path, or it resolves to the source from the command's working directory *)
Definition designates (cwd : path) (value : str) (src : path) : Prop :=
  value = abs_string src \/ lex_normalize (cwd ++ lex_components value) = src.

(* a source that is not below the base directory, or is the base itself: absolute path *)
Lemma txtpp_file_absolute_outside_base base src :
  strip_prefix base src = None \/ src = base ->
  designates (parent src) (display_from_base base src) src.
Proof.
  intros H. left. unfold display_from_base.
  destruct (path_eqb base src) eqn:E; [reflexivity|].
  destruct H as [H|H].
  - now rewrite H.
  - subst. assert (path_eqb base base = true) by apply SinkFacts.path_eqb_refl. congruence.
Qed.

(* a source directly inside the base directory: TXTPP_FILE is its file name, which designates it from its own directory *)
Lemma txtpp_file_direct_child base n :
  all_normal base -> lex_components n = [n] -> is_normal n = true ->
  designates (parent (base ++ [n])) (display_from_base base (base ++ [n])) (base ++ [n]).
Proof.
  intros Hb Hc Hn. right. unfold display_from_base.
  destruct (path_eqb base (base ++ [n])) eqn:E.
  { apply SinkFacts.path_eqb_eq in E. exfalso. apply (f_equal (@length _)) in E. rewrite app_length in E. simpl in E. lia. }
  rewrite strip_prefix_app. unfold rel_string. cbn [join]. rewrite Hc.
  unfold parent. rewrite removelast_last.
  apply lex_normalize_normal. unfold all_normal in *. apply Forall_app. split; [exact Hb|]. constructor; [exact Hn|constructor].
Qed.

(* KNOWN FINDING (class txtpp_file_nested): for a source below, but not directly inside, the base directory the value is
   the base-relative path, which designates nothing from the command's working directory and is not absolute. *)
Definition nested (base src : path) : Prop :=
  exists d n rest, strip_prefix base src = Some (d :: n :: rest).

Example txtpp_file_nested_refuted :
  exists base src, nested base src /\ ~ designates (parent src) (display_from_base base src) src.
Proof.
  exists [], [[115;117;98]; [114;46;116;120;116;112;112]].     (* base = project root, src = sub/r.txtpp *)
  split.
  - exists [115;117;98], [114;46;116;120;116;112;112], []. reflexivity.
  - intros [H|H]; vm_compute in H; discriminate H.
Qed.

(* outside the listed class the contract holds: every source that is not nested (canonical paths, ordinary names) *)
Theorem txtpp_file_designates_unless_nested base src :
  all_normal src -> (forall n, In n src -> lex_components n = [n]) ->
  ~ nested base src ->
  designates (parent src) (display_from_base base src) src.
Proof.
  intros Hs Hn Hnn.
  destruct (strip_prefix base src) as [r|] eqn:E.
  - apply strip_prefix_some in E. subst src.
    destruct r as [|d [|n rest]].
    + apply txtpp_file_absolute_outside_base. right. now rewrite app_nil_r.
    + apply txtpp_file_direct_child.
      * unfold all_normal in *. apply Forall_app in Hs. tauto.
      * apply Hn. apply in_or_app. right. now left.
      * unfold all_normal in Hs. apply Forall_app in Hs. destruct Hs as [_ Hs]. now inversion Hs.
    + exfalso. apply Hnn. exists d, n, rest. apply strip_prefix_app.
  - apply txtpp_file_absolute_outside_base. now left.
Qed.
