(* FrameFacts.v — what a pass over one file depends on (C08, C02, C09): the result of a pass is a function of the
   file system as observed through `fs_get` (not of its representation, not of the event log), and a Build pass
   does not depend on what is lying at its own output path.
   All statements proved, except two that are false as stated (`build_pass_ignores_old_output`,
   `needed_pass_equals_build_pass`): they are kept in `(* FALSE: ... *)` comments with machine-checked
   counterexamples, next to the `_weaker` variants proved instead.
   Structure: one generic congruence (Sections Gen / Machine / Rest) for "the rest of a pass after the sink has
   been created", parameterised by a decidable set X of paths the pass does not look at and by a relation
   between the two sinks; extensionality (`pp_run_ext`), the build pass (`build_pass_ignores_old_output_weaker`),
   --needed against build (`needed_pass_equals_build_pass_weaker`) and the frame property
   (`pp_run_frame_agree`) are instances. *)
Require Import Txtpp.Str Txtpp.Consts Txtpp.Grammar Txtpp.Tags Txtpp.Path Txtpp.Fs Txtpp.Sink Txtpp.Pp Txtpp.Spec.
Require Import Txtpp.proofs.StrFacts Txtpp.proofs.SinkFacts Txtpp.proofs.PathFacts Txtpp.proofs.PpFacts Txtpp.proofs.EventFacts.
From Coq Require Import Lia.

(* two file systems that cannot be told apart by looking paths up *)
Definition fs_eq (f1 f2 : fs) : Prop := forall p, fs_get f1 p = fs_get f2 p.
Definition w_eq (w1 w2 : world) : Prop := fs_eq (w_fs w1) (w_fs w2).

Lemma path_dec (p q : path) : p = q \/ p <> q.
Proof.
  destruct (path_eqb p q) eqn:E.
  - left. apply path_eqb_eq. exact E.
  - right. intros ->. rewrite path_eqb_refl in E. discriminate.
Qed.

Lemma find_ext_in {A} (f g : A -> bool) l : (forall x, In x l -> f x = g x) -> find f l = find g l.
Proof.
  induction l as [|a l IH]; intros H; [reflexivity|].
  simpl. rewrite <- (H a (or_introl eq_refl)). destruct (f a); [reflexivity|].
  apply IH. intros x Hx. apply H. right. exact Hx.
Qed.

Lemma fs_eq_refl f : fs_eq f f.
Proof. intros p. reflexivity. Qed.
Lemma fs_eq_sym f1 f2 : fs_eq f1 f2 -> fs_eq f2 f1.
Proof. intros H p. symmetry. apply H. Qed.
Lemma fs_eq_trans f1 f2 f3 : fs_eq f1 f2 -> fs_eq f2 f3 -> fs_eq f1 f3.
Proof. intros H1 H2 p. rewrite H1. apply H2. Qed.
Lemma fs_eq_put f1 f2 p n : fs_eq f1 f2 -> fs_eq (fs_put f1 p n) (fs_put f2 p n).
Proof.
  intros H q. destruct (path_dec p q) as [<-|N].
  - destruct p as [|c p]; [rewrite !fs_get_nil_root; reflexivity|].
    rewrite !fs_get_put_same by discriminate. reflexivity.
  - rewrite !fs_get_put_other by exact N. apply H.
Qed.
Lemma fs_eq_del f1 f2 p : fs_eq f1 f2 -> fs_eq (fs_del f1 p) (fs_del f2 p).
Proof.
  intros H q. destruct (path_dec p q) as [<-|N].
  - destruct p as [|c p]; [rewrite !fs_get_nil_root; reflexivity|].
    rewrite !fs_get_del_same by discriminate. reflexivity.
  - rewrite !fs_get_del_other by exact N. apply H.
Qed.
Lemma os_walk_ext f1 f2 cur comps : fs_eq f1 f2 -> os_walk f1 cur comps = os_walk f2 cur comps.
Proof.
  intros H. revert cur. induction comps as [|c r IH]; intros cur; simpl.
  - unfold exists_. rewrite (H cur). reflexivity.
  - unfold is_dir. rewrite (H cur). destruct (negb _); [reflexivity|].
    destruct (str_eqb c dotdot); apply IH.
Qed.
Lemma write_target_ext f1 f2 p : fs_eq f1 f2 -> write_target f1 p = write_target f2 p.
Proof.
  intros H. unfold write_target, os_resolve. destruct (rev p) as [|n rp]; [reflexivity|].
  rewrite (os_walk_ext f1 f2 [] (rev rp) H).
  destruct (is_normal n); [|reflexivity].
  destruct (os_walk f2 [] (rev rp)) as [d|]; [|reflexivity].
  unfold is_dir. rewrite (H d), (H (d ++ [n])). reflexivity.
Qed.
Lemma get_txtpp_file_ext f1 f2 p : fs_eq f1 f2 -> get_txtpp_file f1 p = get_txtpp_file f2 p.
Proof.
  intros H. unfold get_txtpp_file. apply find_ext_in. intros c _.
  unfold lex_is_file, os_resolve. rewrite (os_walk_ext f1 f2 [] c H).
  destruct (os_walk f2 [] c) as [q|]; [|reflexivity]. unfold is_file. rewrite (H q). reflexivity.
Qed.

(* outcomes that differ only in representation and log *)
Definition outcome_eq (o1 o2 : pp_outcome) : Prop :=
  match o1, o2 with
  | PpOk w1, PpOk w2 => w_eq w1 w2
  | PpHasDeps d1 w1, PpHasDeps d2 w2 => d1 = d2 /\ w_eq w1 w2
  | PpErr k1 w1, PpErr k2 w2 => k1 = k2 /\ w_eq w1 w2
  | PpPanic, PpPanic => True
  | _, _ => False
  end.

(* ================================================================================================
   A generic congruence for the rest of a pass after the sink has been created.
   The two worlds are related by `agree X`: equal look-ups outside a (decidable) set X of paths, and the same
   directories everywhere.  The pass may only *read* outside X; what the two sinks are and how they are
   related is a parameter (SK), so that the same development yields
     - extensionality (X empty, equal sinks),
     - the frame property (X arbitrary, equal sinks),
     - --needed versus build (X = {output}, an in-memory sink against a build sink).
   ================================================================================================ *)

Definition opt_rel {A} (R : A -> A -> Prop) (o1 o2 : option A) : Prop :=
  match o1, o2 with Some a, Some b => R a b | None, None => True | _, _ => False end.
Definition sum_rel {A} (R : A -> A -> Prop) (r1 r2 : A + errkind) : Prop :=
  match r1, r2 with inl a, inl b => R a b | inr k1, inr k2 => k1 = k2 | _, _ => False end.

(* the paths a directive looks at (besides the sink): include target, temp target, and — on a first pass only —
   the `.txtpp` candidates probed for an include/after argument.  In clean mode only temp targets. *)
Definition tpath (src : path) (a : str) : path := lex_normalize (lex_join (parent src) a).
Definition dprobes (first : bool) (md : mode) (src : path) (d : directive) : list path :=
  match md with
  | Clean => match d_ty d, d_args d with DTemp, a :: _ => [tpath src a] | _, _ => [] end
  | _ =>
    (if first then
       match d_ty d with
       | DInclude | DAfter => map lex_normalize (txtpp_candidates (lex_join (parent src) (hd [] (d_args d))))
       | _ => []
       end
     else []) ++
    match d_ty d with
    | DInclude => [tpath src (hd [] (d_args d))]
    | DTemp => match d_args d with a :: _ => [tpath src a] | [] => [] end
    | _ => []
    end
  end.
Fixpoint probes (first : bool) (md : mode) (src : path) (its : list item) : list path :=
  match its with
  | [] => []
  | IDir d _ :: r => dprobes first md src d ++ probes first md src r
  | _ :: r => probes first md src r
  end.

Lemma probes_in first md src d fol its p :
  In (IDir d fol) its -> In p (dprobes first md src d) -> In p (probes first md src its).
Proof.
  induction its as [|it r IH]; intros Hin Hp; [destruct Hin|].
  destruct Hin as [->|Hin].
  - simpl. apply in_or_app. left. exact Hp.
  - specialize (IH Hin Hp). destruct it; simpl; try exact IH. apply in_or_app. right. exact IH.
Qed.

(* the run after the creation of the sink *)
Definition pp_rest (orc : oracle) (md : mode) (base src : path) (first tn : bool) (raw : str)
  (k0 : sink) (w0 : world) : pp_outcome :=
  let '(ls, bad) := take_valid (lines raw) in
  let s0 := mkP None false (if first then PFirst else PExec) tags_new k0 w0 in
  match run_lines orc md src base (detect_le raw) ls s0 with
  | StPanic => PpPanic
  | StErr k w' => PpErr k w'
  | StOk s1 =>
    if bad then PpErr KRead (wld s1)
    else finish orc md src base (detect_le raw) tn s1
  end.

Lemma pp_run_unfold orc md base src first tn w :
  pp_run orc md base src first tn w =
  match read_file (w_fs w) src with
  | None => PpErr KOpen w
  | Some raw =>
    match remove_txtpp src with
    | None => PpErr KOpen w
    | Some out =>
      if is_txtpp_file out then PpErr KOpen w else
      match sink_new md w out with
      | inr k => PpErr k w
      | inl (k0, w0) => pp_rest orc md base src first tn raw k0 w0
      end
    end
  end.
Proof. reflexivity. Qed.

Lemma write_target_not_dir f p q : write_target f p = Some q -> is_dir f q = false.
Proof.
  unfold write_target. destruct (rev p) as [|n rp]; [discriminate|].
  destruct (is_normal n); [|discriminate].
  destruct (os_resolve f (rev rp)) as [d|]; [|discriminate].
  destruct (is_dir f d); [|discriminate].
  destruct (is_dir f (d ++ [n])) eqn:E; [discriminate|]. intros H. inversion H; subst. exact E.
Qed.

Lemma os_walk_dirs f g comps : (forall q, is_dir f q = is_dir g q) ->
  forall cur d, os_walk f cur comps = Some d -> is_dir f d = true -> os_walk g cur comps = Some d.
Proof.
  intros D. induction comps as [|c r IH]; intros cur d H Hd; simpl in *.
  - destruct (exists_ f cur); [|discriminate]. inversion H; subst.
    rewrite D in Hd. unfold exists_. unfold is_dir in Hd. destruct (fs_get g d); [reflexivity|discriminate].
  - rewrite <- (D cur). destruct (negb (is_dir f cur)); [discriminate|].
    destruct (str_eqb c dotdot); eapply IH; eauto.
Qed.

Lemma write_target_dirs_some f g p q : (forall q, is_dir f q = is_dir g q) ->
  write_target f p = Some q -> write_target g p = Some q.
Proof.
  intros D. unfold write_target, os_resolve. destruct (rev p) as [|n rp]; [discriminate|].
  destruct (is_normal n); [|discriminate].
  destruct (os_walk f [] (rev rp)) as [d|] eqn:E; [|discriminate].
  destruct (is_dir f d) eqn:Ed; [|discriminate].
  rewrite (os_walk_dirs f g (rev rp) D [] d E Ed). rewrite <- (D d), Ed, <- (D (d ++ [n])). auto.
Qed.

(* where a write lands depends on the directories only *)
Lemma write_target_dirs f g p : (forall q, is_dir f q = is_dir g q) -> write_target f p = write_target g p.
Proof.
  intros D. destruct (write_target f p) as [q|] eqn:E1.
  - symmetry. eapply write_target_dirs_some; eauto.
  - destruct (write_target g p) as [q|] eqn:E2; [|reflexivity].
    rewrite (write_target_dirs_some g f p q) in E1; [discriminate| |exact E2].
    intros q0. symmetry. apply D.
Qed.

Lemma is_dir_put_file f q c p : q <> [] ->
  is_dir (fs_put f q (File c)) p = if path_eqb q p then false else is_dir f p.
Proof.
  intros Hq. unfold is_dir. destruct (path_eqb q p) eqn:E.
  - apply path_eqb_eq in E. subst p. rewrite fs_get_put_same by exact Hq. reflexivity.
  - rewrite fs_get_put_other; [reflexivity|]. intros ->. rewrite path_eqb_refl in E. discriminate.
Qed.
Lemma is_dir_del f q p : q <> [] ->
  is_dir (fs_del f q) p = if path_eqb q p then false else is_dir f p.
Proof.
  intros Hq. unfold is_dir. destruct (path_eqb q p) eqn:E.
  - apply path_eqb_eq in E. subst p. rewrite fs_get_del_same by exact Hq. reflexivity.
  - rewrite fs_get_del_other; [reflexivity|]. intros ->. rewrite path_eqb_refl in E. discriminate.
Qed.

Section Gen.
Variable X : path -> bool.

Definition agree (f1 f2 : fs) : Prop :=
  (forall p, X p = false -> fs_get f1 p = fs_get f2 p) /\ (forall p, is_dir f1 p = is_dir f2 p).
Definition wR (w1 w2 : world) : Prop := agree (w_fs w1) (w_fs w2).
(* w' is w with changes only outside X, and no directory created or removed *)
Definition stable (w w' : world) : Prop :=
  (forall p, X p = true -> fs_get (w_fs w') p = fs_get (w_fs w) p) /\
  (forall p, is_dir (w_fs w') p = is_dir (w_fs w) p).
Definition stepR (w1 w2 a b : world) : Prop := wR a b /\ stable w1 a /\ stable w2 b.

Lemma stable_refl w : stable w w.
Proof. split; reflexivity. Qed.
Lemma stable_trans a b c : stable a b -> stable b c -> stable a c.
Proof.
  intros [A1 D1] [A2 D2]. split; intros p.
  - intros Hp. rewrite A2, A1 by exact Hp. reflexivity.
  - rewrite D2, D1. reflexivity.
Qed.
Lemma stepR_refl w1 w2 : wR w1 w2 -> stepR w1 w2 w1 w2.
Proof. intros H. split; [exact H|]. split; apply stable_refl. Qed.
Lemma stepR_trans w1 w2 a b a' b' : stepR w1 w2 a b -> stepR a b a' b' -> stepR w1 w2 a' b'.
Proof.
  intros (_ & S1 & S2) (R' & S1' & S2'). split; [exact R'|]. split; eapply stable_trans; eauto.
Qed.

Lemma os_walk_agree f1 f2 comps : agree f1 f2 ->
  forall cur, X (lex_normalize_from cur comps) = false -> os_walk f1 cur comps = os_walk f2 cur comps.
Proof.
  intros [A D]. induction comps as [|c r IH]; intros cur HX; simpl in *.
  - unfold exists_. rewrite (A cur HX). reflexivity.
  - rewrite (D cur). destruct (negb (is_dir f2 cur)); [reflexivity|].
    destruct (str_eqb c dotdot); apply IH; exact HX.
Qed.
Lemma os_resolve_agree f1 f2 p : agree f1 f2 -> X (lex_normalize p) = false -> os_resolve f1 p = os_resolve f2 p.
Proof. intros A H. apply os_walk_agree; assumption. Qed.

Lemma write_target_agree f1 f2 p : agree f1 f2 -> write_target f1 p = write_target f2 p.
Proof. intros [_ D]. apply write_target_dirs. exact D. Qed.

Lemma lex_is_file_agree f1 f2 c : agree f1 f2 -> X (lex_normalize c) = false -> lex_is_file f1 c = lex_is_file f2 c.
Proof.
  intros A H. unfold lex_is_file. rewrite (os_resolve_agree f1 f2 c A H).
  destruct (os_resolve f2 c) as [q|] eqn:E; [|reflexivity].
  apply os_resolve_normalize in E. subst q. unfold is_file. destruct A as [A _]. rewrite (A _ H). reflexivity.
Qed.
Lemma get_txtpp_file_agree f1 f2 p : agree f1 f2 ->
  (forall c, In c (txtpp_candidates p) -> X (lex_normalize c) = false) ->
  get_txtpp_file f1 p = get_txtpp_file f2 p.
Proof.
  intros A H. unfold get_txtpp_file. apply find_ext_in. intros c Hc. apply lex_is_file_agree; auto.
Qed.

Lemma put_file_agree f1 f2 q c : q <> [] -> agree f1 f2 -> agree (fs_put f1 q (File c)) (fs_put f2 q (File c)).
Proof.
  intros Hq [A D]. split; intros p.
  - intros Hp. destruct (path_dec q p) as [<-|N].
    + rewrite !fs_get_put_same by exact Hq. reflexivity.
    + rewrite !fs_get_put_other by exact N. apply A. exact Hp.
  - rewrite !is_dir_put_file by exact Hq. rewrite D. reflexivity.
Qed.
Lemma del_agree f1 f2 q : q <> [] -> agree f1 f2 -> agree (fs_del f1 q) (fs_del f2 q).
Proof.
  intros Hq [A D]. split; intros p.
  - intros Hp. destruct (path_dec q p) as [<-|N].
    + rewrite !fs_get_del_same by exact Hq. reflexivity.
    + rewrite !fs_get_del_other by exact N. apply A. exact Hp.
  - rewrite !is_dir_del by exact Hq. rewrite D. reflexivity.
Qed.

Lemma put_file_stable f l l' q c : q <> [] -> X q = false -> is_dir f q = false ->
  stable (mkW f l) (mkW (fs_put f q (File c)) l').
Proof.
  intros Hq HX Hd. split; intros p; simpl.
  - intros Hp. apply fs_get_put_other. intros ->. congruence.
  - rewrite is_dir_put_file by exact Hq. destruct (path_eqb q p) eqn:E; [|reflexivity].
    apply path_eqb_eq in E. subst p. symmetry. exact Hd.
Qed.
Lemma del_stable f l l' q : q <> [] -> X q = false -> is_dir f q = false ->
  stable (mkW f l) (mkW (fs_del f q) l').
Proof.
  intros Hq HX Hd. split; intros p; simpl.
  - intros Hp. apply fs_get_del_other. intros ->. congruence.
  - rewrite is_dir_del by exact Hq. destruct (path_eqb q p) eqn:E; [|reflexivity].
    apply path_eqb_eq in E. subst p. symmetry. exact Hd.
Qed.

Lemma w_write_cong w1 w2 p c : wR w1 w2 -> X (lex_normalize p) = false ->
  opt_rel (stepR w1 w2) (w_write w1 p c) (w_write w2 p c).
Proof.
  intros W HX. unfold w_write. rewrite (write_target_agree _ _ p W).
  destruct (write_target (w_fs w2) p) as [q|] eqn:E; [|exact I]. simpl.
  pose proof (write_target_nonempty _ _ _ E) as Hq.
  pose proof (write_target_normalize _ _ _ E) as Hn. subst q.
  pose proof E as E1. rewrite <- (write_target_agree _ _ p W) in E1.
  apply write_target_not_dir in E. apply write_target_not_dir in E1.
  split; [apply put_file_agree; assumption|].
  destruct w1 as [f1 l1], w2 as [f2 l2]. split; apply put_file_stable; assumption.
Qed.

Lemma w_append_cong w1 w2 q c : wR w1 w2 -> X q = false ->
  opt_rel (stepR w1 w2) (w_append w1 q c) (w_append w2 q c).
Proof.
  intros W HX. unfold w_append. destruct W as [A D]. rewrite (A q HX).
  destruct (fs_get (w_fs w2) q) as [[old|]|] eqn:E; try exact I. simpl.
  assert (Hq : q <> []) by (intros ->; rewrite fs_get_nil_root in E; discriminate).
  split; [apply put_file_agree; [exact Hq|split; assumption]|].
  destruct w1 as [f1 l1], w2 as [f2 l2]. simpl in *.
  split; apply put_file_stable; try assumption; unfold is_dir; [rewrite (A q HX)|]; rewrite E; reflexivity.
Qed.

Lemma w_remove_cong w1 w2 q : wR w1 w2 -> X q = false ->
  opt_rel (stepR w1 w2) (w_remove_file w1 q) (w_remove_file w2 q).
Proof.
  intros W HX. unfold w_remove_file. destruct W as [A D]. rewrite (A q HX).
  destruct (fs_get (w_fs w2) q) as [[old|]|] eqn:E; try exact I. simpl.
  assert (Hq : q <> []) by (intros ->; rewrite fs_get_nil_root in E; discriminate).
  split; [apply del_agree; [exact Hq|split; assumption]|].
  destruct w1 as [f1 l1], w2 as [f2 l2]. simpl in *.
  split; apply del_stable; try assumption; unfold is_dir; [rewrite (A q HX)|]; rewrite E; reflexivity.
Qed.

Lemma write_temp_cong w1 w2 lp c : wR w1 w2 -> X (lex_normalize lp) = false ->
  sum_rel (stepR w1 w2) (write_temp w1 lp c) (write_temp w2 lp c).
Proof.
  intros W HX. unfold write_temp. rewrite (os_resolve_agree _ _ lp W HX).
  destruct (os_resolve (w_fs w2) lp) as [q|] eqn:E.
  - apply os_resolve_normalize in E. subst q. destruct W as [A D]. rewrite (A _ HX).
    destruct (fs_get (w_fs w2) (lex_normalize lp)) as [[c0|]|]; try reflexivity.
    destruct (str_eqb c0 c); [simpl; apply stepR_refl; split; assumption|].
    assert (HX' : X (lex_normalize (lex_normalize lp)) = false) by (rewrite lex_normalize_idem; exact HX).
    pose proof (w_write_cong w1 w2 (lex_normalize lp) c (conj A D) HX') as H.
    destruct (w_write w1 (lex_normalize lp) c), (w_write w2 (lex_normalize lp) c); simpl in *; tauto.
  - pose proof (w_write_cong w1 w2 lp [] W HX) as H.
    destruct (w_write w1 lp []) as [a|], (w_write w2 lp []) as [b|]; simpl in H; try tauto; [|reflexivity].
    destruct c as [|x c]; [exact H|].
    pose proof (w_write_cong a b lp (x :: c) (proj1 H) HX) as H2.
    destruct (w_write a lp (x :: c)), (w_write b lp (x :: c)); simpl in *; try tauto.
    eapply stepR_trans; eauto.
Qed.

Lemma remove_temp_cong w1 w2 lp : wR w1 w2 -> X (lex_normalize lp) = false ->
  sum_rel (stepR w1 w2) (remove_temp w1 lp) (remove_temp w2 lp).
Proof.
  intros W HX. unfold remove_temp. rewrite (os_resolve_agree _ _ lp W HX).
  destruct (os_resolve (w_fs w2) lp) as [q|] eqn:E; [|simpl; apply stepR_refl; exact W].
  apply os_resolve_normalize in E. subst q.
  pose proof (w_remove_cong w1 w2 _ W HX) as H.
  destruct (w_remove_file w1 (lex_normalize lp)), (w_remove_file w2 (lex_normalize lp)); simpl in *; tauto.
Qed.

End Gen.

Section Machine.
Variable X : path -> bool.
(* the relation between the two sinks; it may look at the two worlds, but only at X and at the directories *)
Variable SK : sink -> sink -> world -> world -> Prop.
(* what is known about the two worlds after a successful `sink_done` *)
Variable FIN : world -> world -> Prop.
Variable first : bool.
Variable orc : oracle.
Variable md : mode.
Variable src base : path.
Variable le : str.

Definition IOR (a b : sink * world) : Prop := wR X (snd a) (snd b) /\ SK (fst a) (fst b) (snd a) (snd b).

Hypothesis SK_write : forall k1 k2 w1 w2 c, wR X w1 w2 -> SK k1 k2 w1 w2 ->
  sum_rel IOR (sink_write k1 w1 c) (sink_write k2 w2 c).
Hypothesis SK_stable : forall k1 k2 w1 w2 a b, SK k1 k2 w1 w2 -> stable X w1 a -> stable X w2 b -> SK k1 k2 a b.
Hypothesis SK_done : forall k1 k2 w1 w2, wR X w1 w2 -> SK k1 k2 w1 w2 ->
  sum_rel FIN (sink_done k1 w1) (sink_done k2 w2).

Definition dcond (d : directive) : Prop := forall p, In p (dprobes first md src d) -> X p = false.

Definition PS (s1 s2 : pst) : Prop :=
  cur s1 = cur s2 /\ flag s1 = flag s2 /\ pmode s1 = pmode s2 /\ tg s1 = tg s2 /\
  wR X (wld s1) (wld s2) /\ SK (snk s1) (snk s2) (wld s1) (wld s2) /\
  (first = false -> pmode s1 = PExec).
Definition SR (r1 r2 : step_res) : Prop :=
  match r1, r2 with
  | StOk a, StOk b => PS a b
  | StErr k1 w1, StErr k2 w2 => k1 = k2 /\ wR X w1 w2
  | StPanic, StPanic => True
  | _, _ => False
  end.
Definition XR (r1 r2 : xres) : Prop :=
  match r1, r2 with
  | XOut o1 a, XOut o2 b => o1 = o2 /\ PS a b
  | XErr k1 w1, XErr k2 w2 => k1 = k2 /\ wR X w1 w2
  | _, _ => False
  end.
Definition OR (o1 o2 : pp_outcome) : Prop :=
  match o1, o2 with
  | PpOk a, PpOk b => FIN a b
  | PpHasDeps d1 a, PpHasDeps d2 b => d1 = d2 /\ wR X a b
  | PpErr k1 a, PpErr k2 b => k1 = k2 /\ wR X a b
  | PpPanic, PpPanic => True
  | _, _ => False
  end.

Lemma PS_wR s1 s2 : PS s1 s2 -> wR X (wld s1) (wld s2).
Proof. intros (_ & _ & _ & _ & W & _). exact W. Qed.
Lemma PS_cur s1 s2 : PS s1 s2 -> cur s1 = cur s2.
Proof. intros (C & _). exact C. Qed.

Lemma PS_set_wld s1 s2 a b : PS s1 s2 -> stepR X (wld s1) (wld s2) a b -> PS (set_wld s1 a) (set_wld s2 b).
Proof.
  intros (C & F & M & T & W & K & V) (W' & S1 & S2). unfold PS; simpl.
  repeat split; auto; try apply W'. eapply SK_stable; eauto.
Qed.
Lemma PS_set_tg s1 s2 t : PS s1 s2 -> PS (set_tg s1 t) (set_tg s2 t).
Proof. intros (C & F & M & T & W & K & V). unfold PS; simpl. repeat split; auto; apply W. Qed.
Lemma PS_set_cur s1 s2 c : PS s1 s2 -> PS (set_cur s1 c) (set_cur s2 c).
Proof. intros (C & F & M & T & W & K & V). unfold PS; simpl. repeat split; auto; apply W. Qed.
Lemma PS_set_pmode s1 s2 m : PS s1 s2 -> (first = false -> m = PExec) -> PS (set_pmode s1 m) (set_pmode s2 m).
Proof. intros (C & F & M & T & W & K & V) Hm. unfold PS; simpl. repeat split; auto; apply W. Qed.

Lemma emit_tail s1 s2 k1 w1 k2 w2 x ht : PS s1 s2 -> wR X w1 w2 -> SK k1 k2 w1 w2 ->
  SR (match sink_write k1 w1 x with
      | inr k => StErr k w1
      | inl (k', w') => StOk (set_flag (set_io s1 k' w') (negb ht))
      end)
     (match sink_write k2 w2 x with
      | inr k => StErr k w2
      | inl (k', w') => StOk (set_flag (set_io s2 k' w') (negb ht))
      end).
Proof.
  intros (C & F & M & T & W & K & V) W1 K1.
  pose proof (SK_write k1 k2 w1 w2 x W1 K1) as H.
  destruct (sink_write k1 w1 x) as [[k1' w1']|e1], (sink_write k2 w2 x) as [[k2' w2']|e2];
    simpl in H; try contradiction.
  - destruct H as [W2 K2]. simpl in W2, K2. unfold SR, PS; simpl. repeat split; auto; apply W2.
  - simpl. split; assumption.
Qed.

Lemma emit_cong s1 s2 o ht : PS s1 s2 -> SR (emit le s1 o ht) (emit le s2 o ht).
Proof.
  intros P. pose proof P as (C & F & M & T & W & K & V). unfold emit. rewrite <- M.
  destruct (is_execute (pmode s1)); [|exact P].
  destruct o as [x|]; [|exact P].
  rewrite <- F. destruct (flag s1).
  - pose proof (SK_write _ _ _ _ le W K) as H.
    destruct (sink_write (snk s1) (wld s1) le) as [[k1 w1]|e1], (sink_write (snk s2) (wld s2) le) as [[k2 w2]|e2];
      simpl in H; try contradiction.
    + destruct H as [W1 K1]. apply emit_tail; assumption.
    + simpl. split; assumption.
  - apply emit_tail; assumption.
Qed.

Lemma exec_temp_cong args c w1 w2 : wR X w1 w2 ->
  (forall a r, args = a :: r -> X (tpath src a) = false) ->
  sum_rel (stepR X w1 w2) (exec_temp src le args c w1) (exec_temp src le args c w2).
Proof.
  intros W H. unfold exec_temp. destruct args as [|a r]; [reflexivity|].
  destruct (is_txtpp_file (lex_components a)); [reflexivity|].
  specialize (H a r eq_refl). destruct c; [apply remove_temp_cong|apply write_temp_cong]; assumption.
Qed.

Definition CR (r1 r2 : (pst + pst) + errkind) : Prop :=
  match r1, r2 with
  | inl (inl a), inl (inl b) => PS a b
  | inl (inr a), inl (inr b) => PS a b
  | inr k1, inr k2 => k1 = k2
  | _, _ => False
  end.

Lemma collect_deps_cong d s1 s2 : PS s1 s2 ->
  (first = true -> (d_ty d = DInclude \/ d_ty d = DAfter) ->
   forall c, In c (txtpp_candidates (lex_join (parent src) (hd [] (d_args d)))) -> X (lex_normalize c) = false) ->
  CR (collect_deps src d s1) (collect_deps src d s2).
Proof.
  intros P Hc. pose proof P as (C & F & M & T & W & K & V).
  assert (Hprobe : forall arg,
            (forall c, In c (txtpp_candidates (lex_join (parent src) arg)) -> X (lex_normalize c) = false) ->
            CR (match get_txtpp_file (w_fs (wld s1)) (lex_join (work_dir src) arg) with
                | Some x =>
                  match os_resolve (w_fs (wld s1)) x with
                  | None => inr KDirective
                  | Some q =>
                    match pmode s1 with
                    | PCollect deps => inl (inl (set_pmode s1 (PCollect (deps ++ [q]))))
                    | _ => inl (inl (set_pmode s1 (PCollect [q])))
                    end
                  end
                | None => match pmode s1 with PCollect _ => inl (inl s1) | _ => inl (inr s1) end
                end)
               (match get_txtpp_file (w_fs (wld s2)) (lex_join (work_dir src) arg) with
                | Some x =>
                  match os_resolve (w_fs (wld s2)) x with
                  | None => inr KDirective
                  | Some q =>
                    match pmode s1 with
                    | PCollect deps => inl (inl (set_pmode s2 (PCollect (deps ++ [q]))))
                    | _ => inl (inl (set_pmode s2 (PCollect [q])))
                    end
                  end
                | None => match pmode s1 with PCollect _ => inl (inl s2) | _ => inl (inr s2) end
                end) \/ first = false).
  { intros arg Ha. destruct first eqn:Ef; [left|right; reflexivity].
    unfold work_dir. rewrite (get_txtpp_file_agree X _ _ _ W Ha).
    destruct (get_txtpp_file (w_fs (wld s2)) (lex_join (parent src) arg)) as [x|] eqn:Eg.
    - apply find_some in Eg. destruct Eg as [Hin _].
      rewrite (os_resolve_agree X _ _ x W (Ha x Hin)).
      destruct (os_resolve (w_fs (wld s2)) x) as [q|]; [|reflexivity].
      destruct (pmode s1); simpl; apply PS_set_pmode; auto; congruence.
    - destruct (pmode s1); simpl; exact P. }
  unfold collect_deps. rewrite <- M.
  destruct (pmode s1) eqn:Em; [exact P| |].
  - destruct (d_ty d) eqn:Ety; try exact P.
    + destruct (Hprobe (hd [] (d_args d))) as [H|H]; [|exact H|specialize (V H); discriminate].
      intros c Hin. destruct first eqn:Ef; [|specialize (V eq_refl); discriminate]. apply Hc; auto.
    + destruct (Hprobe (hd [] (d_args d))) as [H|H]; [|exact H|specialize (V H); discriminate].
      intros c Hin. destruct first eqn:Ef; [|specialize (V eq_refl); discriminate]. apply Hc; auto.
  - destruct (d_ty d) eqn:Ety; try exact P.
    + destruct (Hprobe (hd [] (d_args d))) as [H|H]; [|exact H|specialize (V H); discriminate].
      intros c Hin. destruct first eqn:Ef; [|specialize (V eq_refl); discriminate]. apply Hc; auto.
    + destruct (Hprobe (hd [] (d_args d))) as [H|H]; [|exact H|specialize (V H); discriminate].
      intros c Hin. destruct first eqn:Ef; [|specialize (V eq_refl); discriminate]. apply Hc; auto.
Qed.

Lemma dprobes_not_clean d : md <> Clean -> dprobes first md src d = dprobes first Build src d.
Proof. destruct md; try reflexivity. congruence. Qed.

Lemma exec_directive_cong d s1 s2 : PS s1 s2 -> dcond d ->
  XR (exec_directive orc md src base le d s1) (exec_directive orc md src base le d s2).
Proof.
  intros P Hd. pose proof P as (C & F & M & T & W & K & V).
  assert (Hclean : md = Clean \/ (md <> Clean /\ forall s,
            exec_directive orc md src base le d s = exec_directive orc Build src base le d s)).
  { destruct md; auto; right; split; try discriminate; reflexivity. }
  unfold dcond in Hd.
  destruct Hclean as [Ec|[Hnc Eb]].
  - rewrite Ec in *. unfold exec_directive. simpl dprobes in Hd.
    destruct (d_ty d) eqn:Ety; try (split; [reflexivity|exact P]).
    assert (Ha : forall a r, d_args d = a :: r -> X (tpath src a) = false).
    { intros a r Ea. apply Hd. rewrite Ea. left. reflexivity. }
    pose proof (exec_temp_cong (d_args d) true _ _ W Ha) as H.
    destruct (exec_temp src le (d_args d) true (wld s1)) as [a|e1],
             (exec_temp src le (d_args d) true (wld s2)) as [b|e2]; simpl in H; try contradiction.
    + split; [reflexivity|]. apply PS_set_wld; assumption.
    + split; [reflexivity|exact P].
  - rewrite !Eb. rewrite (dprobes_not_clean d Hnc) in Hd. simpl dprobes in Hd.
    unfold exec_directive.
    assert (HC : CR (collect_deps src d s1) (collect_deps src d s2)).
    { apply collect_deps_cong; [exact P|]. intros Hf Hty c Hin. apply Hd. apply in_or_app. left.
      rewrite Hf. destruct Hty as [-> | ->]; apply in_map; exact Hin. }
    destruct (collect_deps src d s1) as [[a|a]|e1], (collect_deps src d s2) as [[b|b]|e2];
      simpl in HC; try contradiction.
    + split; [reflexivity|exact HC].
    + clear P C F M T W K V. pose proof HC as (C & F & M & T & W & K & V).
      destruct (d_ty d) eqn:Ety.
      * split; [reflexivity|exact HC].
      * assert (HX : X (lex_normalize (lex_join (work_dir src) (hd [] (d_args d)))) = false).
        { apply Hd. apply in_or_app. right. left. reflexivity. }
        rewrite (os_resolve_agree X _ _ _ W HX).
        destruct (os_resolve (w_fs (wld b)) (lex_join (work_dir src) (hd [] (d_args d)))) as [q|] eqn:Eq;
          [|split; [reflexivity|exact W]].
        apply os_resolve_normalize in Eq. subst q. unfold read_file. rewrite (proj1 W _ HX).
        destruct (fs_get (w_fs (wld b)) (lex_normalize (lex_join (work_dir src) (hd [] (d_args d))))) as [[c|]|];
          try (split; [reflexivity|exact W]).
        destruct (utf8_valid c); split; try reflexivity; assumption.
      * split; [reflexivity|exact HC].
      * assert (HW : stepR X (wld a) (wld b)
                       (w_emit (wld a) (ERun (join [SPb] (d_args d)) (work_dir src) (input_display src base)))
                       (w_emit (wld b) (ERun (join [SPb] (d_args d)) (work_dir src) (input_display src base)))).
        { split; [exact W|]. split; split; reflexivity. }
        destruct (orc (join [SPb] (d_args d)) (work_dir src) (input_display src base)).
        -- split; [reflexivity|]. apply PS_set_wld; assumption.
        -- split; [reflexivity|]. apply HW.
      * rewrite <- T. destruct (create (tg a) (hd [] (d_args d))).
        -- split; [reflexivity|]. apply PS_set_tg. exact HC.
        -- split; [reflexivity|exact W].
      * assert (Ha : forall x r, d_args d = x :: r -> X (tpath src x) = false).
        { intros x r Ea. apply Hd. apply in_or_app. right. rewrite Ea. left. reflexivity. }
        pose proof (exec_temp_cong (d_args d) false _ _ W Ha) as H.
        destruct (exec_temp src le (d_args d) false (wld a)) as [a'|e1],
                 (exec_temp src le (d_args d) false (wld b)) as [b'|e2]; simpl in H; try contradiction.
        -- split; [reflexivity|]. apply PS_set_wld; assumption.
        -- split; assumption.
      * split; [reflexivity|exact HC].
    + split; assumption.
Qed.

Lemma run_directive_cong d ht s1 s2 : PS s1 s2 -> dcond d ->
  SR (run_directive orc md src base le d ht s1) (run_directive orc md src base le d ht s2).
Proof.
  intros P Hd. unfold run_directive.
  pose proof (exec_directive_cong d s1 s2 P Hd) as H.
  destruct (exec_directive orc md src base le d s1) as [o1 a|k1 a],
           (exec_directive orc md src base le d s2) as [o2 b|k2 b]; simpl in H; try contradiction.
  - destruct H as [<- P']. destruct o1 as [raw|]; [|apply emit_cong; exact P'].
    pose proof P' as (_ & _ & _ & T & _). rewrite <- T.
    destruct (try_store (tg a) raw) as [t'|]; apply emit_cong; [apply PS_set_tg|]; exact P'.
  - exact H.
Qed.

Lemma as_text_cong s1 s2 l : PS s1 s2 -> SR (as_text_def le s1 l) (as_text_def le s2 l).
Proof.
  intros P. pose proof P as (C & F & M & T & W & K & V). unfold as_text_def. rewrite <- M, <- T.
  destruct (is_execute (pmode s1)); [|apply emit_cong; exact P].
  destruct (inject (tg s1) l le) as [[l' t']|]; [|exact I].
  apply emit_cong. apply PS_set_tg. exact P.
Qed.

Lemma step_fresh_cong l s1 s2 : PS s1 s2 -> SR (step_fresh md le l s1) (step_fresh md le l s2).
Proof.
  intros P. rewrite !step_fresh_eq.
  destruct (detect_from l) as [d|]; [|apply as_text_cong; exact P].
  destruct (needs_prefix_err d).
  - destruct md; try (split; [reflexivity|apply (PS_wR _ _ P)]). apply as_text_cong. exact P.
  - apply PS_set_cur. exact P.
Qed.

(* membership of the items still to come, after a fresh line *)
Lemma step_fresh_sub l r s s' : cur s = None -> step_fresh md le l s = StOk s' ->
  forall it, In it (parse (mode_eqb md Clean) (cur s') r) -> In it (parse (mode_eqb md Clean) None (l :: r)).
Proof.
  intros C0 E.
  pose proof (step_fresh_chain md le (fun _ => True) (wld s) (snk s) l r s (fun _ _ => I)
                (tr_refl _ _) (sink_le_refl _) C0) as H.
  rewrite E in H. apply H.
Qed.

Lemma run_directive_cur d ht s s' : run_directive orc md src base le d ht s = StOk s' -> cur s' = cur s.
Proof. rewrite run_directive_do_item. apply do_item_cur. Qed.

Definition SRc (r1 r2 : step_res) : Prop :=
  SR r1 r2 /\ forall a, r1 = StOk a -> forall d, cur a = Some d -> dcond d.

Lemma run_lines_cong ls : forall s1 s2, PS s1 s2 ->
  (forall d fol, In (IDir d fol) (parse (mode_eqb md Clean) (cur s1) ls) -> dcond d) ->
  SRc (run_lines orc md src base le ls s1) (run_lines orc md src base le ls s2).
Proof.
  induction ls as [|l r IH]; intros s1 s2 P Hd.
  - simpl. split; [exact P|]. intros a Ha d Hc. inversion Ha; subst a.
    apply (Hd d false). rewrite Hc. simpl. left. reflexivity.
  - simpl run_lines. unfold step_line. rewrite <- (PS_cur _ _ P).
    destruct (cur s1) as [d|] eqn:C0.
    + rewrite parse_Some_cons in Hd. destruct (add_line d l) as [d'| |].
      * apply IH; [apply PS_set_cur; exact P|]. simpl. exact Hd.
      * pose proof (run_directive_cong d true _ _ (PS_set_cur _ _ None P)
                      (Hd d true (or_introl eq_refl))) as H.
        destruct (run_directive orc md src base le d true (set_cur s1 None)) as [a|k1 a|] eqn:E1,
                 (run_directive orc md src base le d true (set_cur s2 None)) as [b|k2 b|];
          simpl in H; try contradiction.
        -- apply run_directive_cur in E1. simpl in E1.
           pose proof (step_fresh_cong l a b H) as H2.
           destruct (step_fresh md le l a) as [a'|k1 a'|] eqn:E2, (step_fresh md le l b) as [b'|k2 b'|];
             simpl in H2; try contradiction.
           ++ apply IH; [exact H2|]. intros d2 fol Hin. apply (Hd d2 fol). right.
              eapply step_fresh_sub; eauto.
           ++ split; [exact H2|discriminate].
           ++ split; [exact I|discriminate].
        -- split; [exact H|discriminate].
        -- split; [exact I|discriminate].
      * split; [exact I|discriminate].
    + pose proof (step_fresh_cong l s1 s2 P) as H2.
      destruct (step_fresh md le l s1) as [a'|k1 a'|] eqn:E2, (step_fresh md le l s2) as [b'|k2 b'|];
        simpl in H2; try contradiction.
      * apply IH; [exact H2|]. intros d2 fol Hin. apply (Hd d2 fol). eapply step_fresh_sub; eauto.
      * split; [exact H2|discriminate].
      * split; [exact I|discriminate].
Qed.

Lemma epilogue_cong tn s1 s2 : PS s1 s2 -> OR (epilogue md le tn s1) (epilogue md le tn s2).
Proof.
  intros P. pose proof P as (C & F & M & T & W & K & V). unfold epilogue. rewrite <- M, <- T, <- F.
  assert (HT : OR (if has_tags (tg s1) && negb (mode_eqb md Clean) then PpErr KDirective (wld s1)
                   else let r := if flag s1 && tn then sink_write (snk s1) (wld s1) le else inl (snk s1, wld s1) in
                        match r with
                        | inr k => PpErr k (wld s1)
                        | inl (k1, w1) => match sink_done k1 w1 with inl w2 => PpOk w2 | inr k => PpErr k w1 end
                        end)
                  (if has_tags (tg s1) && negb (mode_eqb md Clean) then PpErr KDirective (wld s2)
                   else let r := if flag s1 && tn then sink_write (snk s2) (wld s2) le else inl (snk s2, wld s2) in
                        match r with
                        | inr k => PpErr k (wld s2)
                        | inl (k1, w1) => match sink_done k1 w1 with inl w2 => PpOk w2 | inr k => PpErr k w1 end
                        end)).
  { destruct (has_tags (tg s1) && negb (mode_eqb md Clean)); [split; [reflexivity|exact W]|]. cbv zeta.
    assert (Hdone : forall k1 w1 k2 w2, wR X w1 w2 -> SK k1 k2 w1 w2 ->
              OR (match sink_done k1 w1 with inl w2 => PpOk w2 | inr k => PpErr k w1 end)
                 (match sink_done k2 w2 with inl w3 => PpOk w3 | inr k => PpErr k w2 end)).
    { intros k1 w1 k2 w2 W1 K1. pose proof (SK_done _ _ _ _ W1 K1) as H.
      destruct (sink_done k1 w1), (sink_done k2 w2); simpl in H; try contradiction; simpl; auto. }
    destruct (flag s1 && tn); [|apply Hdone; assumption].
    pose proof (SK_write _ _ _ _ le W K) as H.
    destruct (sink_write (snk s1) (wld s1) le) as [[k1 w1]|e1], (sink_write (snk s2) (wld s2) le) as [[k2 w2]|e2];
      simpl in H; try contradiction.
    - destruct H as [W1 K1]. apply Hdone; assumption.
    - split; assumption. }
  destruct (pmode s1); [exact HT|exact HT|]. split; [reflexivity|exact W].
Qed.

Lemma finish_cong tn s1 s2 : PS s1 s2 -> (forall d, cur s1 = Some d -> dcond d) ->
  OR (finish orc md src base le tn s1) (finish orc md src base le tn s2).
Proof.
  intros P Hd. rewrite !finish_unfold. rewrite <- (PS_cur _ _ P).
  destruct (cur s1) as [d|] eqn:C0; [|apply epilogue_cong; exact P].
  pose proof (run_directive_cong d false _ _ (PS_set_cur _ _ None P) (Hd d eq_refl)) as H.
  destruct (run_directive orc md src base le d false (set_cur s1 None)) as [a|k1 a|],
           (run_directive orc md src base le d false (set_cur s2 None)) as [b|k2 b|];
    simpl in H; try contradiction.
  - apply epilogue_cong. exact H.
  - exact H.
  - exact I.
Qed.

End Machine.

Section Rest.
Variable X : path -> bool.
Variable SK : sink -> sink -> world -> world -> Prop.
Variable FIN : world -> world -> Prop.
Hypothesis SK_write : forall k1 k2 w1 w2 c, wR X w1 w2 -> SK k1 k2 w1 w2 ->
  sum_rel (IOR X SK) (sink_write k1 w1 c) (sink_write k2 w2 c).
Hypothesis SK_stable : forall k1 k2 w1 w2 a b, SK k1 k2 w1 w2 -> stable X w1 a -> stable X w2 b -> SK k1 k2 a b.
Hypothesis SK_done : forall k1 k2 w1 w2, wR X w1 w2 -> SK k1 k2 w1 w2 ->
  sum_rel FIN (sink_done k1 w1) (sink_done k2 w2).

(* the generic statement: from related worlds and related sinks, the rest of the pass gives related outcomes,
   provided the paths it probes are outside X *)
Lemma pp_rest_cong orc md base src first tn raw k1 w1 k2 w2 :
  wR X w1 w2 -> SK k1 k2 w1 w2 ->
  (forall p, In p (probes first md src (parse (mode_eqb md Clean) None (fst (take_valid (lines raw))))) ->
             X p = false) ->
  OR X FIN (pp_rest orc md base src first tn raw k1 w1) (pp_rest orc md base src first tn raw k2 w2).
Proof.
  intros W K Hp. unfold pp_rest. destruct (take_valid (lines raw)) as [ls bad]. simpl fst in Hp.
  set (s1 := mkP None false (if first then PFirst else PExec) tags_new k1 w1).
  set (s2 := mkP None false (if first then PFirst else PExec) tags_new k2 w2).
  assert (P : PS X SK first s1 s2).
  { unfold PS; simpl. repeat split; auto; try apply W. intros ->. reflexivity. }
  pose proof (run_lines_cong X SK first orc md src base (detect_le raw) SK_write SK_stable ls s1 s2 P) as H.
  destruct H as [H Hc].
  { intros d fol Hin p Hpd. apply Hp. eapply probes_in; eauto. }
  destruct (run_lines orc md src base (detect_le raw) ls s1) as [a|k a|],
           (run_lines orc md src base (detect_le raw) ls s2) as [b|k' b|]; simpl in H; try contradiction.
  - destruct bad.
    + split; [reflexivity|]. exact (PS_wR _ _ _ _ _ H).
    + apply (finish_cong X SK FIN first orc md src base (detect_le raw) SK_write SK_stable SK_done); auto.
      intros d Hd. apply (Hc a eq_refl d Hd).
  - exact H.
  - exact I.
Qed.
End Rest.

(* ---- equal sinks ---- *)
Section SameSink.
Variable X : path -> bool.

Definition sink_ok (k : sink) : Prop :=
  match k with
  | SBuild p => X p = false
  | SMem p _ => X p = false /\ X (lex_normalize p) = false
  | SClean => True
  | SVerify _ _ => True
  end.
Definition SKsame (k1 k2 : sink) (w1 w2 : world) : Prop := k1 = k2 /\ sink_ok k1.

Lemma SKsame_write k1 k2 w1 w2 c : wR X w1 w2 -> SKsame k1 k2 w1 w2 ->
  sum_rel (IOR X SKsame) (sink_write k1 w1 c) (sink_write k2 w2 c).
Proof.
  intros W [<- Hk]. destruct k1 as [p|p buf| |p rest]; simpl in *.
  - pose proof (w_append_cong X w1 w2 p c W Hk) as H.
    destruct (w_append w1 p c), (w_append w2 p c); simpl in *; try tauto.
    split; [apply H|]. split; [reflexivity|exact Hk].
  - split; [exact W|]. split; [reflexivity|exact Hk].
  - split; [exact W|]. split; [reflexivity|exact I].
  - destruct (Nat.ltb (length rest) (length c)); [reflexivity|].
    destruct (str_eqb (firstn (length c) rest) c); [|reflexivity].
    split; [exact W|]. split; [reflexivity|exact I].
Qed.
Lemma SKsame_stable k1 k2 w1 w2 a b : SKsame k1 k2 w1 w2 -> stable X w1 a -> stable X w2 b -> SKsame k1 k2 a b.
Proof. intros H _ _. exact H. Qed.
Lemma SKsame_done k1 k2 w1 w2 : wR X w1 w2 -> SKsame k1 k2 w1 w2 ->
  sum_rel (wR X) (sink_done k1 w1) (sink_done k2 w2).
Proof.
  intros W [<- Hk]. destruct k1 as [p|p buf| |p rest]; simpl in *; try exact W.
  - destruct Hk as [Hp Hn]. rewrite (proj1 W p Hp).
    pose proof (w_write_cong X w1 w2 p buf W Hn) as H.
    assert (HW : sum_rel (wR X) (match w_write w1 p buf with Some w' => inl w' | None => inr KWrite end)
                                (match w_write w2 p buf with Some w' => inl w' | None => inr KWrite end)).
    { destruct (w_write w1 p buf), (w_write w2 p buf); simpl in *; try tauto. apply H. }
    destruct (fs_get (w_fs w2) p) as [[c|]|]; [|reflexivity|exact HW].
    destruct (str_eqb c buf); [exact W|exact HW].
  - destruct rest; [exact W|reflexivity].
Qed.

(* what the creation of the sink looks at: the output path, and where `File::create` of it lands *)
Definition out_ok (md : mode) (out : path) : Prop :=
  X out = false /\
  match md with Build | InMemoryBuild => X (lex_normalize out) = false | _ => True end.

Lemma sink_new_cong md w1 w2 out : wR X w1 w2 -> out_ok md out ->
  sum_rel (IOR X SKsame) (sink_new md w1 out) (sink_new md w2 out).
Proof.
  intros W [Ho Hn]. destruct md; simpl.
  - pose proof (w_write_cong X w1 w2 out [] W Hn) as H.
    destruct (w_write w1 out []), (w_write w2 out []); simpl in *; try tauto.
    split; [apply H|]. split; [reflexivity|exact Ho].
  - split; [exact W|]. split; [reflexivity|]. split; assumption.
  - unfold exists_. rewrite (proj1 W out Ho).
    destruct (fs_get (w_fs w2) out) as [n|].
    + pose proof (w_remove_cong X w1 w2 out W Ho) as H.
      destruct (w_remove_file w1 out), (w_remove_file w2 out); simpl in *; try tauto.
      split; [apply H|]. split; [reflexivity|exact I].
    + split; [exact W|]. split; [reflexivity|exact I].
  - rewrite (proj1 W out Ho).
    destruct (fs_get (w_fs w2) out) as [[c|]|]; try reflexivity.
    split; [exact W|]. split; [reflexivity|exact I].
Qed.

Definition items_of' (md : mode) (raw : str) : list item :=
  parse (mode_eqb md Clean) None (fst (take_valid (lines raw))).

(* the rest of a pass from related worlds with the same sink *)
Lemma pp_rest_same orc md base src first tn raw k w1 w2 :
  wR X w1 w2 -> sink_ok k ->
  (forall p, In p (probes first md src (items_of' md raw)) -> X p = false) ->
  OR X (wR X) (pp_rest orc md base src first tn raw k w1) (pp_rest orc md base src first tn raw k w2).
Proof.
  intros W Hk Hp.
  apply (pp_rest_cong X SKsame (wR X) SKsame_write SKsame_stable SKsame_done); auto.
  split; [reflexivity|exact Hk].
Qed.

(* a whole pass *)
Lemma pp_run_agree0 orc md base src first tn w1 w2 :
  wR X w1 w2 -> X src = false ->
  (forall out, remove_txtpp src = Some out -> out_ok md out) ->
  (forall raw, read_file (w_fs w1) src = Some raw ->
     forall p, In p (probes first md src (items_of' md raw)) -> X p = false) ->
  OR X (wR X) (pp_run orc md base src first tn w1) (pp_run orc md base src first tn w2).
Proof.
  intros W Hs Ho Hp. rewrite !pp_run_unfold. unfold read_file in *. rewrite <- (proj1 W src Hs).
  destruct (fs_get (w_fs w1) src) as [[raw|]|] eqn:Er; try (split; [reflexivity|exact W]).
  specialize (Hp raw eq_refl).
  destruct (remove_txtpp src) as [out|]; [|split; [reflexivity|exact W]].
  destruct (is_txtpp_file out); [split; [reflexivity|exact W]|].
  pose proof (sink_new_cong md w1 w2 out W (Ho out eq_refl)) as H.
  destruct (sink_new md w1 out) as [[k1 a]|e1], (sink_new md w2 out) as [[k2 b]|e2]; simpl in H; try contradiction.
  - destruct H as [W' [E K]]. simpl in *. subst k2. apply pp_rest_same; auto.
  - split; assumption.
Qed.
End SameSink.

Definition noX : path -> bool := fun _ => false.
Lemma wR_noX w1 w2 : wR noX w1 w2 <-> w_eq w1 w2.
Proof.
  split.
  - intros [A _] p. apply A. reflexivity.
  - intros H. split; [intros p _; apply H|]. intros p. unfold is_dir. rewrite (H p). reflexivity.
Qed.
Lemma OR_noX o1 o2 : OR noX (wR noX) o1 o2 <-> outcome_eq o1 o2.
Proof.
  destruct o1, o2; simpl; try tauto; rewrite wR_noX; tauto.
Qed.
Lemma sink_ok_noX k : sink_ok noX k.
Proof. destruct k; simpl; auto. Qed.

(* the rest of a pass is a function of the observable file system *)
Lemma pp_rest_ext orc md base src first tn raw k w1 w2 :
  w_eq w1 w2 ->
  outcome_eq (pp_rest orc md base src first tn raw k w1) (pp_rest orc md base src first tn raw k w2).
Proof.
  intros H. apply OR_noX. apply pp_rest_same; [apply wR_noX; exact H|apply sink_ok_noX|reflexivity].
Qed.

(* C08 / C02: a pass is a function of the observable file system: same verdict, same dependencies, same resulting tree *)
Theorem pp_run_ext orc md base src first tn w1 w2 :
  w_eq w1 w2 -> outcome_eq (pp_run orc md base src first tn w1) (pp_run orc md base src first tn w2).
Proof.
  intros H. apply OR_noX. apply pp_run_agree0; try reflexivity; [apply wR_noX; exact H|].
  intros out _. split; [reflexivity|]. destruct md; reflexivity.
Qed.

(* ---- a Build pass and what is lying at its output path ---- *)

(* FALSE: as stated,
   Theorem build_pass_ignores_old_output orc base src first tn f l1 l2 out n1 n2 :
     remove_txtpp src = Some out ->
     n1 <> Some Dir -> n2 <> Some Dir ->
     let put f n := match n with Some x => fs_put f out x | None => fs_del f out end in
     outcome_eq (pp_run orc Build base src first tn (mkW (put f n1) l1))
                (pp_run orc Build base src first tn (mkW (put f n2) l2)).
   Two independent reasons (both machine-checked below, `build_pass_cex_open` and `build_pass_cex_dotdot`):
   (a) when the pass fails before the output is created (the source cannot be read, the output name is itself a
       txtpp name, or `File::create` fails because the parent of the output is not a directory), the outcome is
       `PpErr KOpen w` with the ORIGINAL world, and the two original worlds differ at `out`.
       Counterexample: f = [], src = ["a.txtpp"], n1 = Some (File "x"), n2 = None.
   (b) when `src` has a `..` component, `File::create out` lands on the normalised path, while the model's
       `SBuild out` keeps appending at the un-normalised key `out`, which still differs in the two worlds.
       Counterexample: f = [(["d"], Dir); (["d";"..";"a.txtpp"], File "h\n")], n1 = Some (File "x"), n2 = None:
       the first pass is PpOk, the second PpErr KWrite.
   Proved instead (`build_pass_ignores_old_output_weaker`): if the directory part of `src` has no `..`, then either
   the two outcomes are outcome_eq, or both passes failed with KOpen before touching anything. *)

Definition cex_a_txtpp : str := [97; 46; 116; 120; 116; 112; 112].
Lemma build_pass_cex_open :
  let src := [cex_a_txtpp] in let out := [[97]] in
  remove_txtpp src = Some out /\
  ~ outcome_eq (pp_run (fun _ _ _ => None) Build [] src false true (mkW (fs_put [] out (File [120])) []))
               (pp_run (fun _ _ _ => None) Build [] src false true (mkW (fs_del [] out) [])).
Proof.
  split; [vm_compute; reflexivity|].
  vm_compute. intros [_ H]. specialize (H [[97]]). vm_compute in H. discriminate.
Qed.
Lemma build_pass_cex_dotdot :
  let src := [[100]; dotdot; cex_a_txtpp] in let out := [[100]; dotdot; [97]] in
  let f := [([[100]], Dir); (src, File [104; 10])] in
  remove_txtpp src = Some out /\
  ~ outcome_eq (pp_run (fun _ _ _ => None) Build [] src false true (mkW (fs_put f out (File [120])) []))
               (pp_run (fun _ _ _ => None) Build [] src false true (mkW (fs_del f out) [])).
Proof.
  split; [vm_compute; reflexivity|].
  vm_compute. exact (fun H => H).
Qed.

Lemma remove_txtpp_shape src out : remove_txtpp src = Some out ->
  exists dir n m, src = dir ++ [n] /\ out = dir ++ [m].
Proof.
  intros H. destruct (path_snoc_cases src) as [->|(dir & n & ->)]; [vm_compute in H; discriminate|].
  destruct (output_beside_source dir n out H) as [m ->]. exists dir, n, m. auto.
Qed.

Section PutOut.
Variable f : fs.
Variable out : path.
Hypothesis out_ne : out <> [].
Definition put_out (n : option node) : fs := match n with Some x => fs_put f out x | None => fs_del f out end.

Lemma put_out_same n : fs_get (put_out n) out = n.
Proof. destruct n; simpl; [apply fs_get_put_same|apply fs_get_del_same]; exact out_ne. Qed.
Lemma put_out_other n p : p <> out -> fs_get (put_out n) p = fs_get f p.
Proof. intros H. destruct n; simpl; [apply fs_get_put_other|apply fs_get_del_other]; congruence. Qed.
Lemma put_out_dirs n1 n2 : n1 <> Some Dir -> n2 <> Some Dir ->
  forall q, is_dir (put_out n1) q = is_dir (put_out n2) q.
Proof.
  intros H1 H2 q. unfold is_dir. destruct (path_dec q out) as [->|N].
  - rewrite !put_out_same. destruct n1 as [[|]|], n2 as [[|]|]; congruence.
  - rewrite !put_out_other by exact N. reflexivity.
Qed.
Lemma put_out_trunc n1 n2 : fs_eq (fs_put (put_out n1) out (File [])) (fs_put (put_out n2) out (File [])).
Proof.
  intros p. destruct (path_dec out p) as [<-|N].
  - rewrite !fs_get_put_same by exact out_ne. reflexivity.
  - rewrite !fs_get_put_other by exact N. rewrite !put_out_other by congruence. reflexivity.
Qed.
End PutOut.

Theorem build_pass_ignores_old_output_weaker orc base src first tn f l1 l2 out n1 n2 :
  remove_txtpp src = Some out ->
  n1 <> Some Dir -> n2 <> Some Dir ->                    (* regular files or absent, not directories *)
  all_normal (parent src) ->                             (* extra: no `..` in the directory part of the source *)
  let put f n := match n with Some x => fs_put f out x | None => fs_del f out end in
  let w1 := mkW (put f n1) l1 in
  let w2 := mkW (put f n2) l2 in
  let o1 := pp_run orc Build base src first tn w1 in
  let o2 := pp_run orc Build base src first tn w2 in
  outcome_eq o1 o2 \/ (o1 = PpErr KOpen w1 /\ o2 = PpErr KOpen w2).
Proof.
  intros Hrm H1 H2 Hnorm put w1 w2 o1 o2.
  destruct (remove_txtpp_shape src out Hrm) as (dir & n & m & Es & Eo).
  assert (Hdir : all_normal dir).
  { unfold parent in Hnorm. rewrite Es, removelast_last in Hnorm. exact Hnorm. }
  assert (out_ne : out <> []) by (rewrite Eo; intros E; destruct dir; discriminate).
  assert (Hne : src <> out) by (intros E; apply (output_ne_source src out Hrm); auto).
  change (put f n1) with (put_out f out n1) in w1. change (put f n2) with (put_out f out n2) in w2.
  subst o1 o2. rewrite !pp_run_unfold. unfold read_file. subst w1 w2. cbn [w_fs].
  rewrite !(put_out_other f out) by exact Hne.
  destruct (fs_get f src) as [[raw|]|]; try (right; split; reflexivity).
  rewrite Hrm. destruct (is_txtpp_file out); [right; split; reflexivity|].
  unfold sink_new, w_write. cbn [w_fs w_log].
  rewrite (write_target_dirs _ _ out (put_out_dirs f out out_ne n1 n2 H1 H2)).
  destruct (write_target (put_out f out n2) out) as [q|] eqn:Ew; [|right; split; reflexivity].
  left. assert (q = out).
  { destruct (EventFacts.write_target_shape _ _ _ Ew) as (rp & n' & Ep & _ & Eq).
    rewrite Eo in Ep. apply app_inj_tail in Ep. destruct Ep as [<- <-].
    rewrite Eq, Eo. rewrite (lex_normalize_normal dir Hdir). reflexivity. }
  subst q. apply pp_rest_ext. apply put_out_trunc. exact out_ne.
Qed.

(* the same without the disjunction: as soon as one of the passes got as far as creating its output *)
Corollary build_pass_ignores_old_output_started orc base src first tn f l1 l2 out n1 n2 :
  remove_txtpp src = Some out ->
  n1 <> Some Dir -> n2 <> Some Dir ->
  all_normal (parent src) ->
  let put f n := match n with Some x => fs_put f out x | None => fs_del f out end in
  pp_run orc Build base src first tn (mkW (put f n1) l1) <> PpErr KOpen (mkW (put f n1) l1) ->
  outcome_eq (pp_run orc Build base src first tn (mkW (put f n1) l1))
             (pp_run orc Build base src first tn (mkW (put f n2) l2)).
Proof.
  intros Hrm H1 H2 Hn put Hstart.
  destruct (build_pass_ignores_old_output_weaker orc base src first tn f l1 l2 out n1 n2 Hrm H1 H2 Hn) as [H|[H _]].
  - exact H.
  - contradiction.
Qed.

(* C09 (pass level): when nothing reads the output path during the pass, --needed produces the same verdict and
   the same tree as a normal build. "Nothing reads it" is stated on the parsed items: no include argument
   normalises to the output path. *)
Fixpoint include_args (its : list item) : list str :=
  match its with
  | [] => []
  | IDir d _ :: r => match d_ty d, d_args d with
                     | DInclude, a :: _ => a :: include_args r
                     | _, _ => include_args r
                     end
  | _ :: r => include_args r
  end.
Definition items_of (md : mode) (w : world) (src : path) : list item :=
  match read_file (w_fs w) src with
  | Some raw => parse (mode_eqb md Clean) None (fst (take_valid (lines raw)))
  | None => []
  end.

(* ---- --needed (InMemoryBuild) against Build ---- *)

Lemma step_line_needed orc src base le l s :
  step_line orc InMemoryBuild src base le l s = step_line orc Build src base le l s.
Proof. reflexivity. Qed.
Lemma run_lines_needed orc src base le ls : forall s,
  run_lines orc InMemoryBuild src base le ls s = run_lines orc Build src base le ls s.
Proof.
  induction ls as [|l r IH]; intros s; [reflexivity|].
  simpl run_lines. rewrite step_line_needed.
  destruct (step_line orc Build src base le l s); auto.
Qed.
Lemma finish_needed orc src base le tn s :
  finish orc InMemoryBuild src base le tn s = finish orc Build src base le tn s.
Proof. reflexivity. Qed.
Lemma pp_rest_needed orc base src first tn raw k w :
  pp_rest orc InMemoryBuild base src first tn raw k w = pp_rest orc Build base src first tn raw k w.
Proof.
  unfold pp_rest. destruct (take_valid (lines raw)) as [ls bad]. rewrite run_lines_needed.
  destruct (run_lines orc Build src base (detect_le raw) ls _); try reflexivity.
Qed.

Section NeededBuild.
Variable out : path.
Hypothesis out_ne : out <> [].

Definition Xout : path -> bool := fun p => path_eqb out p.
Lemma Xout_true p : Xout p = true <-> p = out.
Proof. unfold Xout. rewrite path_eqb_eq. split; congruence. Qed.
Lemma Xout_false p : Xout p = false <-> p <> out.
Proof.
  unfold Xout. split.
  - intros H ->. rewrite path_eqb_refl in H. discriminate.
  - intros H. apply path_eqb_neq. congruence.
Qed.

(* the in-memory sink has buffered exactly what the build sink has written to the output so far, and the
   final write of the buffer is going to land on the output *)
Definition SKnb (k1 k2 : sink) (w1 w2 : world) : Prop :=
  exists buf, k1 = SMem out buf /\ k2 = SBuild out /\
              fs_get (w_fs w2) out = Some (File buf) /\ write_target (w_fs w1) out = Some out.

Lemma agree_put_right f1 f2 c : agree Xout f1 f2 -> is_dir f2 out = false ->
  agree Xout f1 (fs_put f2 out (File c)).
Proof.
  intros [A D] Hd. split; intros p.
  - intros Hp. apply Xout_false in Hp. rewrite fs_get_put_other by congruence. apply A. apply Xout_false. exact Hp.
  - rewrite is_dir_put_file by exact out_ne. destruct (path_eqb out p) eqn:E; [|apply D].
    apply path_eqb_eq in E. subst p. rewrite D. exact Hd.
Qed.

Lemma SKnb_write k1 k2 w1 w2 c : wR Xout w1 w2 -> SKnb k1 k2 w1 w2 ->
  sum_rel (IOR Xout SKnb) (sink_write k1 w1 c) (sink_write k2 w2 c).
Proof.
  intros W (buf & -> & -> & Hg & Ht). simpl. unfold w_append. rewrite Hg. simpl. split; simpl.
  - apply agree_put_right; [exact W|]. unfold is_dir. rewrite Hg. reflexivity.
  - exists (buf ++ c). repeat split; auto. apply fs_get_put_same. exact out_ne.
Qed.
Lemma SKnb_stable k1 k2 w1 w2 a b : SKnb k1 k2 w1 w2 -> stable Xout w1 a -> stable Xout w2 b -> SKnb k1 k2 a b.
Proof.
  intros (buf & -> & -> & Hg & Ht) [_ D1] [A2 _]. exists buf. repeat split; auto.
  - rewrite A2; [exact Hg|]. apply Xout_true. reflexivity.
  - rewrite (write_target_dirs _ _ out D1). exact Ht.
Qed.
Lemma SKnb_done k1 k2 w1 w2 : wR Xout w1 w2 -> SKnb k1 k2 w1 w2 ->
  sum_rel w_eq (sink_done k1 w1) (sink_done k2 w2).
Proof.
  intros [A D] (buf & -> & -> & Hg & Ht). simpl.
  assert (Hw : sum_rel w_eq (match w_write w1 out buf with Some w' => inl w' | None => inr KWrite end) (inl w2)).
  { unfold w_write. rewrite Ht. unfold sum_rel, w_eq. cbn [w_fs]. intros p. destruct (path_dec out p) as [<-|N].
    - rewrite fs_get_put_same by exact out_ne. symmetry. exact Hg.
    - rewrite fs_get_put_other by exact N. apply A. apply Xout_false. congruence. }
  destruct (fs_get (w_fs w1) out) as [[c|]|] eqn:E.
  - destruct (str_eqb c buf) eqn:Ec; [|exact Hw]. apply str_eqb_eq in Ec. subst c. simpl.
    intros p. destruct (path_dec out p) as [<-|N]; [congruence|]. apply A. apply Xout_false. congruence.
  - apply write_target_not_dir in Ht. unfold is_dir in Ht. rewrite E in Ht. discriminate.
  - exact Hw.
Qed.

Lemma pp_rest_needed_build orc base src tn raw w1 w2 buf :
  wR Xout w1 w2 ->
  fs_get (w_fs w2) out = Some (File buf) -> write_target (w_fs w1) out = Some out ->
  (forall p, In p (probes false Build src (items_of' Build raw)) -> p <> out) ->
  OR Xout w_eq (pp_rest orc InMemoryBuild base src false tn raw (SMem out buf) w1)
               (pp_rest orc Build base src false tn raw (SBuild out) w2).
Proof.
  intros W Hg Ht Hp. rewrite pp_rest_needed.
  apply (pp_rest_cong Xout SKnb w_eq SKnb_write SKnb_stable SKnb_done); auto.
  - exists buf. auto.
  - intros p Hin. apply Xout_false. apply Hp. exact Hin.
Qed.
End NeededBuild.

(* same verdict; on success the same tree; on failure the same tree except at the output path
   (Build leaves the truncated/partial output there, --needed leaves what was there before) *)
Definition outcome_eq_but (out : path) (o1 o2 : pp_outcome) : Prop :=
  match o1, o2 with
  | PpOk w1, PpOk w2 => w_eq w1 w2
  | PpHasDeps d1 w1, PpHasDeps d2 w2 => d1 = d2 /\ forall p, p <> out -> fs_get (w_fs w1) p = fs_get (w_fs w2) p
  | PpErr k1 w1, PpErr k2 w2 => k1 = k2 /\ forall p, p <> out -> fs_get (w_fs w1) p = fs_get (w_fs w2) p
  | PpPanic, PpPanic => True
  | _, _ => False
  end.

Lemma OR_Xout out o1 o2 : OR (Xout out) w_eq o1 o2 -> outcome_eq_but out o1 o2.
Proof.
  destruct o1, o2; simpl; try tauto; intros [E [A _]]; (split; [exact E|]);
    intros p Hp; apply A; apply Xout_false; exact Hp.
Qed.

Lemma lex_components_nil : lex_components [] = [].
Proof. reflexivity. Qed.

Lemma probes_needed src its p :
  In p (probes false Build src its) ->
  In p (map (tpath src) (include_args its)) \/ In p (map (tpath src) (temp_args its)) \/
  p = lex_normalize (parent src).
Proof.
  induction its as [|it r IH]; [intros []|].
  destruct it as [l|d fol| |]; simpl; try exact IH.
  intros H. apply in_app_or in H. destruct H as [H|H].
  - simpl in H. destruct (d_ty d); simpl in H; try contradiction.
    + destruct (d_args d) as [|a rest]; simpl in H; destruct H as [<-|[]].
      * right. right. unfold tpath, lex_join. simpl. rewrite app_nil_r. reflexivity.
      * left. left. reflexivity.
    + destruct (d_args d) as [|a rest]; simpl in H; [contradiction|]. destruct H as [<-|[]].
      right. left. left. reflexivity.
  - specialize (IH H). destruct (d_ty d); try exact IH;
      (destruct (d_args d) as [|a rest]; [exact IH|]); simpl;
      destruct IH as [IH|[IH|IH]]; auto.
Qed.

(* FALSE: as stated,
   Theorem needed_pass_equals_build_pass orc base src tn w out :
     remove_txtpp src = Some out -> all_normal src -> no_dotdot_prefix src ->
     ~ In out (map (fun a => lex_normalize (lex_join (parent src) a)) (include_args (items_of Build w src))) ->
     ~ In out (map (fun a => lex_normalize (lex_join (parent src) a)) (temp_args (items_of Build w src))) ->
     outcome_eq (pp_run orc InMemoryBuild base src false tn w) (pp_run orc Build base src false tn w).
   (a) If the output cannot be created (it is a directory, or its parent is not a directory) Build fails at once
       with KOpen, while --needed runs the whole file and fails at the end with KRead/KWrite (or earlier with
       another error).  Counterexample (`needed_cex_dir`): w = [(["a.txtpp"], File "h\n"); (["a"], Dir)]:
       PpErr KRead against PpErr KOpen.
   (b) If the pass fails half-way, Build leaves the truncated/partial output while --needed leaves the old
       content: the two error worlds differ at `out` (`needed_cex_partial`).
   Proved instead (`needed_pass_equals_build_pass_weaker`): if creating the output succeeds, the verdicts are the
   same, on success the trees are the same, and on failure the trees are the same except at the output path. *)
Lemma needed_cex_dir :
  let src := [cex_a_txtpp] in let out := [[97]] in
  let w := mkW [(src, File [104; 10]); (out, Dir)] [] in
  remove_txtpp src = Some out /\ all_normal src /\ no_dotdot_prefix src /\
  include_args (items_of Build w src) = [] /\ temp_args (items_of Build w src) = [] /\
  ~ outcome_eq (pp_run (fun _ _ _ => None) InMemoryBuild [] src false true w)
               (pp_run (fun _ _ _ => None) Build [] src false true w).
Proof.
  repeat split; try (vm_compute; reflexivity).
  - repeat constructor.
  - intros d r H. apply (f_equal (@rev str)) in H. rewrite rev_app_distr in H. simpl in H.
    inversion H.
  - vm_compute. intros [H _]. discriminate.
Qed.
Lemma needed_cex_partial :
  let src := [cex_a_txtpp] in let out := [[97]] in
  let raw := [104; 10] ++ c_txtpp_hash ++ [105; 110; 99; 108; 117; 100; 101; 32; 122; 122; 10] in   (* "h\nTXTPP#include zz\n" *)
  let w := mkW [(src, File raw); (out, File [111; 108; 100])] [] in
  remove_txtpp src = Some out /\ all_normal src /\ no_dotdot_prefix src /\
  ~ In out (map (fun a => lex_normalize (lex_join (parent src) a)) (include_args (items_of Build w src))) /\
  ~ In out (map (fun a => lex_normalize (lex_join (parent src) a)) (temp_args (items_of Build w src))) /\
  write_target (w_fs w) out = Some out /\
  ~ outcome_eq (pp_run (fun _ _ _ => None) InMemoryBuild [] src false true w)
               (pp_run (fun _ _ _ => None) Build [] src false true w).
Proof.
  repeat split; try (vm_compute; reflexivity).
  - repeat constructor.
  - intros d r H. apply (f_equal (@rev str)) in H. rewrite rev_app_distr in H. simpl in H.
    inversion H.
  - vm_compute. intros [H|[]]. discriminate.
  - vm_compute. intros [].
  - vm_compute. intros [_ H]. specialize (H [[97]]). vm_compute in H. discriminate.
Qed.

Lemma agree_refl X f : agree X f f.
Proof. split; reflexivity. Qed.

(* the general form: only the directory part of the source has to be free of `..` *)
Theorem needed_pass_vs_build_pass orc base src tn w out :
  remove_txtpp src = Some out -> all_normal (parent src) ->
  ~ In out (map (fun a => lex_normalize (lex_join (parent src) a)) (include_args (items_of Build w src))) ->
  ~ In out (map (fun a => lex_normalize (lex_join (parent src) a)) (temp_args (items_of Build w src))) ->
  write_target (w_fs w) out <> None ->                     (* creating the output succeeds *)
  outcome_eq_but out (pp_run orc InMemoryBuild base src false tn w) (pp_run orc Build base src false tn w).
Proof.
  intros Hrm Hnorm Hinc Htmp Hwt.
  destruct (remove_txtpp_shape src out Hrm) as (dir & n & m & Es & Eo).
  assert (Hdir : all_normal dir).
  { unfold parent in Hnorm. rewrite Es, removelast_last in Hnorm. exact Hnorm. }
  assert (Hpar : parent src = dir) by (unfold parent; rewrite Es; apply removelast_last).
  assert (out_ne : out <> []) by (rewrite Eo; intros E; destruct dir; discriminate).
  rewrite !pp_run_unfold. unfold items_of in Hinc, Htmp.
  destruct (read_file (w_fs w) src) as [raw|] eqn:Er; [|simpl; auto].
  rewrite Hrm. destruct (is_txtpp_file out); [simpl; auto|].
  destruct (write_target (w_fs w) out) as [q|] eqn:Ew; [clear Hwt|congruence].
  assert (q = out).
  { destruct (EventFacts.write_target_shape _ _ _ Ew) as (rp & n' & Ep & _ & Eq).
    rewrite Eo in Ep. apply app_inj_tail in Ep. destruct Ep as [<- <-].
    rewrite Eq, Eo. rewrite (lex_normalize_normal dir Hdir). reflexivity. }
  subst q. unfold sink_new, w_write. rewrite Ew.
  apply OR_Xout. apply pp_rest_needed_build; auto.
  - cbn [w_fs]. apply agree_put_right; [exact out_ne|apply agree_refl|].
    eapply write_target_not_dir; eauto.
  - cbn [w_fs]. apply fs_get_put_same. exact out_ne.
  - intros p Hin. apply probes_needed in Hin. unfold items_of' in Hin.
    destruct Hin as [H|[H|H]]; [intros ->; apply Hinc; exact H|intros ->; apply Htmp; exact H|].
    rewrite Hpar, (lex_normalize_normal dir Hdir) in H. subst p. rewrite Eo.
    intros E. apply (f_equal (@length name)) in E. rewrite app_length in E. simpl in E. lia.
Qed.

(* the statement of the task with the one extra hypothesis and the weaker relation between failed passes *)
Theorem needed_pass_equals_build_pass_weaker orc base src tn w out :
  remove_txtpp src = Some out -> all_normal src -> no_dotdot_prefix src ->
  ~ In out (map (fun a => lex_normalize (lex_join (parent src) a)) (include_args (items_of Build w src))) ->
  ~ In out (map (fun a => lex_normalize (lex_join (parent src) a)) (temp_args (items_of Build w src))) ->
  write_target (w_fs w) out <> None ->                     (* extra: creating the output succeeds *)
  outcome_eq_but out (pp_run orc InMemoryBuild base src false tn w) (pp_run orc Build base src false tn w).
Proof.
  intros Hrm Hn _. apply needed_pass_vs_build_pass; [exact Hrm|]. apply all_normal_removelast. exact Hn.
Qed.

(* in particular: a successful build and a successful --needed pass leave the same tree, and one succeeds
   iff the other does *)
Corollary needed_pass_ok_iff_build_pass_ok orc base src tn w out :
  remove_txtpp src = Some out -> all_normal src -> no_dotdot_prefix src ->
  ~ In out (map (fun a => lex_normalize (lex_join (parent src) a)) (include_args (items_of Build w src))) ->
  ~ In out (map (fun a => lex_normalize (lex_join (parent src) a)) (temp_args (items_of Build w src))) ->
  write_target (w_fs w) out <> None ->
  (forall w2, pp_run orc Build base src false tn w = PpOk w2 ->
     exists w1, pp_run orc InMemoryBuild base src false tn w = PpOk w1 /\ w_eq w1 w2) /\
  (forall w1, pp_run orc InMemoryBuild base src false tn w = PpOk w1 ->
     exists w2, pp_run orc Build base src false tn w = PpOk w2 /\ w_eq w1 w2).
Proof.
  intros Hrm Hn Hd Hi Ht Hw.
  pose proof (needed_pass_equals_build_pass_weaker orc base src tn w out Hrm Hn Hd Hi Ht Hw) as H.
  split.
  - intros w2 E. rewrite E in H. destruct (pp_run orc InMemoryBuild base src false tn w); simpl in H; try contradiction.
    eexists. split; [reflexivity|exact H].
  - intros w1 E. rewrite E in H. destruct (pp_run orc Build base src false tn w); simpl in H; try contradiction.
    eexists. split; [reflexivity|exact H].
Qed.

(* ================================================================================================
   STRETCH 2 (C02 / C08 frame): a pass cannot tell apart two worlds that agree everywhere except on a set X of
   paths that it never looks at.
   X is any decidable set of paths (`path -> bool`).  Side condition, in words:
     * the two worlds have the same directories inside X (in particular: no directory in X in either world);
     * X does not contain the source, the output (`out_ok`: for the two build modes neither as written nor
       normalised, i.e. where `File::create` lands), nor any path of
       `probes first md src (items_of md w1 src)`: the include targets, the temp targets and — on a first pass
       only — the `.txtpp` candidates probed for an include/after argument (in clean mode: the temp targets only).
   Conclusion: same verdict / dependencies, the resulting worlds again agree outside X, and both are unchanged on X.
   ================================================================================================ *)

Definition frame_rel (X : path -> bool) (w1 w2 a b : world) : Prop :=
  (forall p, X p = false -> fs_get (w_fs a) p = fs_get (w_fs b) p) /\
  (forall p, X p = true -> fs_get (w_fs a) p = fs_get (w_fs w1) p /\ fs_get (w_fs b) p = fs_get (w_fs w2) p).
Definition outcome_agree (X : path -> bool) (w1 w2 : world) (o1 o2 : pp_outcome) : Prop :=
  match o1, o2 with
  | PpOk a, PpOk b => frame_rel X w1 w2 a b
  | PpHasDeps d1 a, PpHasDeps d2 b => d1 = d2 /\ frame_rel X w1 w2 a b
  | PpErr k1 a, PpErr k2 b => k1 = k2 /\ frame_rel X w1 w2 a b
  | PpPanic, PpPanic => True
  | _, _ => False
  end.

Lemma temp_in_probes first md src its p :
  In p (map (fun a => lex_normalize (lex_join (parent src) a)) (temp_args its)) -> In p (probes first md src its).
Proof.
  induction its as [|it r IH]; [intros []|].
  destruct it as [l|d fol| |]; simpl; try exact IH.
  intros H. apply in_or_app.
  destruct (d_ty d) eqn:Ety; try (right; exact (IH H)).
  destruct (d_args d) as [|a rest] eqn:Ea; [right; exact (IH H)|].
  simpl in H. destruct H as [<-|H]; [left|right; exact (IH H)].
  unfold dprobes. rewrite Ety, Ea. destruct md; try (apply in_or_app; right); left; reflexivity.
Qed.

Lemma temp_path_in_dprobes first md src d q : temp_path src d = Some q -> In q (dprobes first md src d).
Proof.
  unfold temp_path, dprobes. destruct (d_ty d); try discriminate.
  destruct (d_args d) as [|a rest]; [discriminate|]. intros H. inversion H; subst.
  destruct md; try (apply in_or_app; right); left; reflexivity.
Qed.

(* a pass leaves alone every path outside its output and its temp targets *)
Lemma pp_run_unchanged orc md base src first tn w (X : path -> bool) :
  (forall out, remove_txtpp src = Some out -> out_ok X md out) ->
  (forall p, In p (probes first md src (items_of md w src)) -> X p = false) ->
  forall w', outcome_world (pp_run orc md base src first tn w) = Some w' ->
  forall p, X p = true -> fs_get (w_fs w') p = fs_get (w_fs w) p.
Proof.
  intros Ho Hp w' Hw p HX.
  pose proof (pp_run_tr orc md base src first tn w (fun e => ev_path e <> Some p)) as T.
  rewrite Hw in T. destruct T as (evs & _ & Hall & Hfr).
  - intros out e Hrm He. destruct (Ho out Hrm) as [Ho1 Ho2].
    assert (Hwr : wr_ev out e -> X (lex_normalize out) = false -> ev_path e <> Some p).
    { intros Hwe Hn. apply wr_ev_normalize in Hwe. subst e. simpl. intros E. inversion E; subst. congruence. }
    destruct md; simpl in He.
    + destruct He as [He|He]; [apply Hwr; assumption|]. subst e. simpl. intros E. inversion E; subst. congruence.
    + apply Hwr; assumption.
    + subst e. simpl. intros E. inversion E; subst. congruence.
    + contradiction.
  - intros raw d fol e Er Hin He.
    assert (Htp : forall q, temp_path src d = Some q -> q <> p).
    { intros q Hq ->. apply (temp_path_in_dprobes first md) in Hq.
      rewrite (Hp p) in HX; [discriminate|]. unfold items_of. rewrite Er. eapply probes_in; eauto. }
    destruct e as [q|q|c cw fl]; simpl in *.
    + intros E. inversion E; subst. destruct He as [_ He]. exact (Htp _ He eq_refl).
    + intros E. inversion E; subst. destruct He as [_ He]. exact (Htp _ He eq_refl).
    + discriminate.
  - apply Hfr. rewrite Forall_forall in Hall. exact Hall.
Qed.

Theorem pp_run_frame_agree orc md base src first tn (X : path -> bool) w1 w2 :
  (forall p, X p = false -> fs_get (w_fs w1) p = fs_get (w_fs w2) p) ->        (* the worlds agree outside X *)
  (forall p, X p = true -> is_dir (w_fs w1) p = is_dir (w_fs w2) p) ->         (* e.g. no directory in X *)
  X src = false ->
  (forall out, remove_txtpp src = Some out -> out_ok X md out) ->
  (forall p, In p (probes first md src (items_of md w1 src)) -> X p = false) ->
  outcome_agree X w1 w2 (pp_run orc md base src first tn w1) (pp_run orc md base src first tn w2).
Proof.
  intros HA HD Hs Ho Hp.
  assert (W : wR X w1 w2).
  { split; [exact HA|]. intros p. destruct (X p) eqn:E; [apply HD; exact E|].
    unfold is_dir. rewrite (HA p E). reflexivity. }
  assert (Hit : items_of md w2 src = items_of md w1 src).
  { unfold items_of, read_file. rewrite (HA src Hs). reflexivity. }
  pose proof (pp_run_agree0 X orc md base src first tn w1 w2 W Hs Ho) as H.
  assert (U1 := pp_run_unchanged orc md base src first tn w1 X Ho Hp).
  assert (U2 := pp_run_unchanged orc md base src first tn w2 X Ho).
  rewrite Hit in U2. specialize (U2 Hp).
  assert (Hpr : forall raw, read_file (w_fs w1) src = Some raw ->
             forall p, In p (probes first md src (items_of' md raw)) -> X p = false).
  { intros raw Er p Hin. apply Hp. unfold items_of. rewrite Er. exact Hin. }
  specialize (H Hpr).
  destruct (pp_run orc md base src first tn w1) as [a|d1 a|k1 a|],
           (pp_run orc md base src first tn w2) as [b|d2 b|k2 b|]; simpl in *; try contradiction; auto.
  - split; [apply H|]. intros p Hx. split; [apply (U1 a eq_refl p Hx)|apply (U2 b eq_refl p Hx)].
  - destruct H as [E H]. split; [exact E|]. split; [apply H|].
    intros p Hx. split; [apply (U1 a eq_refl p Hx)|apply (U2 b eq_refl p Hx)].
  - destruct H as [E H]. split; [exact E|]. split; [apply H|].
    intros p Hx. split; [apply (U1 a eq_refl p Hx)|apply (U2 b eq_refl p Hx)].
Qed.

(* the same with X given as a finite list of paths, in the wording of the task: X contains no directory in either
   world, not the source, not the output, no include target, no temp target, no probed `.txtpp` candidate *)
Definition in_paths (xs : list path) (p : path) : bool := existsb (path_eqb p) xs.
Lemma in_paths_true xs p : in_paths xs p = true <-> In p xs.
Proof.
  unfold in_paths. rewrite existsb_exists. split.
  - intros (q & Hq & E). apply path_eqb_eq in E. subst q. exact Hq.
  - intros H. exists p. split; [exact H|apply path_eqb_refl].
Qed.
Lemma in_paths_false xs p : in_paths xs p = false <-> ~ In p xs.
Proof.
  rewrite <- in_paths_true. destruct (in_paths xs p); split; congruence.
Qed.

Corollary pp_run_frame_agree_list orc md base src first tn (xs : list path) w1 w2 :
  (forall p, ~ In p xs -> fs_get (w_fs w1) p = fs_get (w_fs w2) p) ->
  (forall p, In p xs -> fs_get (w_fs w1) p <> Some Dir /\ fs_get (w_fs w2) p <> Some Dir) ->
  ~ In src xs ->
  (forall out, remove_txtpp src = Some out -> ~ In out xs /\ ~ In (lex_normalize out) xs) ->
  (forall p, In p (probes first md src (items_of md w1 src)) -> ~ In p xs) ->
  outcome_agree (in_paths xs) w1 w2 (pp_run orc md base src first tn w1) (pp_run orc md base src first tn w2).
Proof.
  intros HA HD Hs Ho Hp. apply pp_run_frame_agree.
  - intros p H. apply HA. apply in_paths_false. exact H.
  - intros p H. apply in_paths_true in H. destruct (HD p H) as [D1 D2]. unfold is_dir.
    destruct (fs_get (w_fs w1) p) as [[|]|], (fs_get (w_fs w2) p) as [[|]|]; congruence.
  - apply in_paths_false. exact Hs.
  - intros out Hrm. destruct (Ho out Hrm) as [H1 H2]. split; [apply in_paths_false; exact H1|].
    destruct md; try exact I; apply in_paths_false; exact H2.
  - intros p H. apply in_paths_false. apply Hp. exact H.
Qed.
